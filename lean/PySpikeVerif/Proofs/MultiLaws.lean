/-
  Proofs/MultiLaws.lean — work package B5 (properties C05 / C06):
  bivariate scalars are averages of their profiles, the multivariate profile is the mean of the
  pair profiles, the multivariate scalar is the average of the multivariate profile, SPIKE-Sync
  multivariate = ratio of the pooled profile, and order-independence of the multivariate distance.
-/
import PySpikeVerif.Model.Api
import PySpikeVerif.Spec.Funcs
import PySpikeVerif.Proofs.Basic
import PySpikeVerif.Proofs.FuncLaws
import PySpikeVerif.Proofs.ApiLaws
import PySpikeVerif.Proofs.AddPwc
import PySpikeVerif.Proofs.AddPwl
import PySpikeVerif.Proofs.AddDisc
import PySpikeVerif.Properties.C01
import PySpikeVerif.Properties.C07
import Mathlib.Tactic.Ring
import Mathlib.Tactic.Linarith
import Mathlib.Tactic.FieldSimp
import Mathlib.Data.List.Basic
import Mathlib.Data.List.Perm.Basic
import Mathlib.Algebra.Order.Field.Rat

namespace PySpike
open PySpike.C01

/-! ## 1. bivariate scalars are averages of their profiles (definitional) -/

theorem B5_isiDistanceBi_eq_avrg (kw : Kw) (a b : Train) :
    isiDistanceBi kw a b = pwcAvrgKw (isiProfileBi kw a b) kw.interval := rfl

theorem B5_spikeDistanceBi_eq_avrg (kw : Kw) (a b : Train) :
    spikeDistanceBi kw a b = pwlAvrgKw (spikeProfileBi kw a b) kw.interval := rfl

theorem B5_spikeSyncBi_eq_ratio (kw : Kw) (a b : Train) :
    spikeSyncBi kw a b = (discIntegralKw (syncProfileBi kw a b) kw.interval).map syncRatio := rfl

/-- the normalised spike-train order is the ratio of the integral of the (always reconciled)
    order profile -/
theorem B5_spikeTrainOrderBi_eq_ratio (kw : Kw) (a b : Train) :
    spikeTrainOrderBi kw true a b =
      syncRatio (orderProfileBi { kw with recon := true } a b).integralAll := rfl

theorem B5_spikeTrainOrderBi_unnormalized (kw : Kw) (a b : Train) :
    spikeTrainOrderBi kw false a b =
      (orderProfileBi { kw with recon := true } a b).integralAll.1 := rfl

/-- the two "ratio" conventions (`spike_sync_bi`: `1 if mp == 0`, `DiscreteFunc.avrg`: `1 unless
    mp > 0`) agree for non-negative multiplicity -/
theorem B5_syncRatio_eq_discRatio (vm : Q × Q) (h : 0 ≤ vm.2) : syncRatio vm = discRatio vm := by
  unfold syncRatio discRatio
  by_cases h0 : vm.2 = 0
  · rw [if_pos h0, if_neg (by rw [h0]; exact lt_irrefl _)]
  · rw [if_neg h0, if_pos (lt_of_le_of_ne h (Ne.symm h0))]

example : (0 : Q) ≤ ((3, 4) : Q × Q).2 := by norm_num

/-- without `0 ≤ vm.2` the conventions differ -/
example : syncRatio (1, -2) ≠ discRatio (1, -2) := by decide +kernel

/-! ## generic: an additive functional of a divide-and-conquer sum is the sum over the leaves
    (any bracketing — no associativity needed) -/

theorem B5_dac_sum {P} (add : P → P → P) (leaf : Nat × Nat → P) (S : P → Prop) (I : P → Q)
    (hclosed : ∀ a b, S a → S b → S (add a b))
    (hI : ∀ a b, S a → S b → I (add a b) = I a + I b) (fuel : Nat) :
    ∀ (p1 p2 : List (Nat × Nat)), p1 ≠ [] → p2 ≠ [] → p1.length + p2.length ≤ fuel →
      (∀ p ∈ p1, S (leaf p)) → (∀ p ∈ p2, S (leaf p)) →
      S (divideAndConquer add leaf fuel p1 p2) ∧
      I (divideAndConquer add leaf fuel p1 p2) = qsum ((p1 ++ p2).map fun p => I (leaf p)) := by
  induction fuel with
  | zero =>
    intro p1 p2 h1 _ hlen
    have : p1.length = 0 := by omega
    exact absurd (List.eq_nil_of_length_eq_zero this) h1
  | succ fuel ih =>
    intro p1 p2 h1 h2 hlen hl1 hl2
    have hp1 : 0 < p1.length := List.length_pos_iff.mpr h1
    have hp2 : 0 < p2.length := List.length_pos_iff.mpr h2
    have hd : ∀ (q : List (Nat × Nat)), q ≠ [] → q.length ≤ fuel → (∀ p ∈ q, S (leaf p)) →
        S (if q.length > 1 then
          divideAndConquer add leaf fuel (q.take (q.length / 2)) (q.drop (q.length / 2))
         else leaf (q.headD (0, 0))) ∧
        I (if q.length > 1 then
          divideAndConquer add leaf fuel (q.take (q.length / 2)) (q.drop (q.length / 2))
         else leaf (q.headD (0, 0))) = qsum (q.map fun p => I (leaf p)) := by
      intro q hq hql hlq
      by_cases hlen : q.length > 1
      · rw [if_pos hlen]
        have := ih _ _ (take_half_ne_nil hlen) (drop_half_ne_nil hlen)
          (by simp; omega) (fun p hp => hlq p (List.mem_of_mem_take hp))
          (fun p hp => hlq p (List.mem_of_mem_drop hp))
        rw [List.take_append_drop] at this
        exact this
      · rw [if_neg hlen]
        match q, hq, hlen with
        | [a], _, _ => exact ⟨hlq a (by simp), by simp [qsum]⟩
        | a :: b :: r, _, hlen => simp at hlen
    simp only [divideAndConquer]
    obtain ⟨s1, i1⟩ := hd p1 h1 (by omega) hl1
    obtain ⟨s2, i2⟩ := hd p2 h2 (by omega) hl2
    refine ⟨hclosed _ _ s1 s2, ?_⟩
    rw [hI _ _ s1 s2, i1, i2, List.map_append, qsum_append]

/-- `_generic_profile_multi`: an additive functional of the summed profile is the sum over the
    pairs; `S` is an invariant of the pair profiles that `add` preserves -/
theorem B5_gpm_sum {P} (add : P → P → P) (leaf : Nat × Nat → P) (S : P → Prop) (I : P → Q)
    (hclosed : ∀ a b, S a → S b → S (add a b))
    (hI : ∀ a b, S a → S b → I (add a b) = I a + I b) (idx : List Nat)
    (hne : pairsOf idx ≠ []) (hleaf : ∀ q ∈ pairsOf idx, S (leaf q)) :
    S (genericProfileMulti add leaf idx).1 ∧
    I (genericProfileMulti add leaf idx).1 = qsum ((pairsOf idx).map fun p => I (leaf p)) := by
  unfold genericProfileMulti
  dsimp only
  by_cases hlen : (pairsOf idx).length > 1
  · rw [if_pos hlen]
    dsimp only
    have := B5_dac_sum add leaf S I hclosed hI (pairsOf idx).length _ _ (take_half_ne_nil hlen)
      (drop_half_ne_nil hlen) (by simp; omega)
      (fun q hq => hleaf q (List.mem_of_mem_take hq))
      (fun q hq => hleaf q (List.mem_of_mem_drop hq))
    rw [List.take_append_drop] at this
    exact this
  · rw [if_neg hlen]
    dsimp only
    match hq : pairsOf idx, hne, hlen with
    | [a], _, _ => exact ⟨hleaf a (by rw [hq]; simp), by simp [qsum]⟩
    | a :: b :: r, _, hlen => simp at hlen

example : (genericProfileMulti Rat.add (fun p => ((10 * p.1 + p.2 : Nat) : Q)) [4, 7, 9, 2]).1 =
    qsum ((pairsOf [4, 7, 9, 2]).map fun p => ((10 * p.1 + p.2 : Nat) : Q)) := by decide +kernel

/-! ## 5. SPIKE-Sync multivariate = ratio of the integral of the multivariate profile -/

theorem B5_prep_length (kw : Kw) (L : List Train) : (prep kw L).length = L.length := by
  unfold prep reconcile
  split <;> simp

theorem B5_sumOpt2_some {α} (g : α → Q × Q) (l : List α) :
    sumOpt2 (l.map fun p => some (g p)) =
      some (qsum (l.map fun p => (g p).1), qsum (l.map fun p => (g p).2)) := by
  induction l with
  | nil => rfl
  | cons a r ih => simp only [List.map_cons, sumOpt2, ih, Option.map_some, qsum]

theorem B5_sumOpt_some {α} (g : α → Q) (l : List α) :
    sumOpt (l.map fun p => some (g p)) = some (qsum (l.map g)) := by
  induction l with
  | nil => rfl
  | cons a r ih => simp only [List.map_cons, sumOpt, ih, Option.map_some, qsum]

theorem B5_pairs_range_ne_nil {n : Nat} (h : 2 ≤ n) : pairsOf (List.range n) ≠ [] :=
  pairsOf_ne_nil (by simpa using h)

/-- integral (value, multiplicity) of a divide-and-conquer sum of discrete profiles: the sums of
    the pair integrals, for ANY index list with at least one pair -/
theorem B5_disc_gpm_integralAll (leaf : Nat × Nat → Disc) (idx : List Nat)
    (hne : pairsOf idx ≠ []) :
    (genericProfileMulti Disc.add leaf idx).1.integralAll =
      (qsum ((pairsOf idx).map fun p => (leaf p).integralAll.1),
       qsum ((pairsOf idx).map fun p => (leaf p).integralAll.2)) := by
  have h1 := (B5_gpm_sum Disc.add leaf (fun _ => True) (fun f => f.integralAll.1)
    (fun _ _ _ _ => trivial) (fun a b _ _ => by rw [Disc.add_integralAll]) idx hne
    (fun _ _ => trivial)).2
  have h2 := (B5_gpm_sum Disc.add leaf (fun _ => True) (fun f => f.integralAll.2)
    (fun _ _ _ _ => trivial) (fun a b _ _ => by rw [Disc.add_integralAll]) idx hne
    (fun _ _ => trivial)).2
  exact Prod.ext h1 h2

/-- **SPIKE-Sync, multivariate** (interval = None, with or without reconciliation): the pooled
    coincidence count over the pooled multiplicity is the ratio of the integral of the
    multivariate SPIKE-Sync profile. -/
theorem spikeSyncMulti_eq_ratio_profile (kw : Kw) (L : List Train)
    (hi : kw.interval = none) (h2 : 2 ≤ L.length) :
    spikeSyncMulti kw none L = some (syncRatio ((syncProfileMulti kw none L).integralAll)) := by
  have hne : pairsOf (List.range (prep kw L).length) ≠ [] :=
    B5_pairs_range_ne_nil (by rw [B5_prep_length]; exact h2)
  unfold spikeSyncMulti syncProfileMulti
  simp only [resolveIdx]
  rw [B5_disc_gpm_integralAll _ _ hne]
  have hv : ∀ a b : Train, syncValues kw.noRecon a b =
      some (syncProfileBi kw.noRecon a b).integralAll := by
    intro a b
    show discIntegralKw (syncProfileBi kw.noRecon a b) kw.interval = _
    rw [hi]; rfl
  simp only [hv]
  rw [B5_sumOpt2_some (fun p : Nat × Nat =>
    (syncProfileBi kw.noRecon (tr (prep kw L) p.1) (tr (prep kw L) p.2)).integralAll)]
  rfl

/-- the same with an explicit index selection (at least one pair) -/
theorem spikeSyncMulti_eq_ratio_profile_idx (kw : Kw) (idx : List Nat) (L : List Train)
    (hi : kw.interval = none) (hne : pairsOf idx ≠ []) :
    spikeSyncMulti kw (some idx) L =
      some (syncRatio ((syncProfileMulti kw (some idx) L).integralAll)) := by
  unfold spikeSyncMulti syncProfileMulti
  simp only [resolveIdx]
  rw [B5_disc_gpm_integralAll _ _ hne]
  have hv : ∀ a b : Train, syncValues kw.noRecon a b =
      some (syncProfileBi kw.noRecon a b).integralAll := by
    intro a b
    show discIntegralKw (syncProfileBi kw.noRecon a b) kw.interval = _
    rw [hi]; rfl
  simp only [hv]
  rw [B5_sumOpt2_some (fun p : Nat × Nat =>
    (syncProfileBi kw.noRecon (tr (prep kw L) p.1) (tr (prep kw L) p.2)).integralAll)]
  rfl

def B5_exL : List Train := [⟨[1, 3, 4], 0, 6⟩, ⟨[2, 3, 6], 0, 6⟩, ⟨[1, 5], 0, 6⟩, ⟨[], 0, 6⟩]

example : ({ recon := false } : Kw).interval = none ∧ 2 ≤ B5_exL.length := by decide
example : spikeSyncMulti { recon := false } none B5_exL = some (1 / 4) ∧
    (syncProfileMulti { recon := false } none B5_exL).integralAll = (6, 24) := by decide +kernel

/-- the same for the spike-train-order profile: the integral of the multivariate order profile is
    the pair-wise sum -/
theorem B5_orderProfileMulti_integralAll (kw : Kw) (L : List Train) (h2 : 2 ≤ L.length) :
    (orderProfileMulti kw none L).integralAll =
      (qsum ((pairsOf (List.range (prep kw L).length)).map fun p =>
          (orderProfileBi kw.noRecon (tr (prep kw L) p.1) (tr (prep kw L) p.2)).integralAll.1),
       qsum ((pairsOf (List.range (prep kw L).length)).map fun p =>
          (orderProfileBi kw.noRecon (tr (prep kw L) p.1) (tr (prep kw L) p.2)).integralAll.2)) := by
  have hne : pairsOf (List.range (prep kw L).length) ≠ [] :=
    B5_pairs_range_ne_nil (by rw [B5_prep_length]; exact h2)
  unfold orderProfileMulti
  simp only [resolveIdx]
  rw [B5_disc_gpm_integralAll _ _ hne]

/-! ## 2. fold lemmas: sums of well-formed profiles on a common interval -/

/-- generic: an additive functional of a left fold -/
theorem B5_foldl_sum {P} (add : P → P → P) (S : P → Prop) (I : P → Q)
    (hclosed : ∀ a b, S a → S b → S (add a b))
    (hI : ∀ a b, S a → S b → I (add a b) = I a + I b) (fs : List P) :
    ∀ f0, S f0 → (∀ f ∈ fs, S f) →
      S (fs.foldl add f0) ∧ I (fs.foldl add f0) = I f0 + qsum (fs.map I) := by
  induction fs with
  | nil => intro f0 h0 _; exact ⟨h0, by simp [qsum]⟩
  | cons g r ih =>
    intro f0 h0 hl
    have hg := hl g (by simp)
    obtain ⟨s, i⟩ := ih (add f0 g) (hclosed _ _ h0 hg) (fun f hf => hl f (by simp [hf]))
    refine ⟨s, ?_⟩
    simp only [List.foldl_cons, List.map_cons, qsum]
    rw [i, hI _ _ h0 hg, add_assoc]

/-- well-formed piecewise constant function on `[a, b]` -/
def B5_PwcOn (a b : Q) (f : Pwc) : Prop := f.WF ∧ f.first = a ∧ f.last = b

theorem B5_PwcOn.add {a b : Q} {f g : Pwc} (hf : B5_PwcOn a b f) (hg : B5_PwcOn a b g) :
    B5_PwcOn a b (f.add g) :=
  ⟨Pwc.add_wf hf.1 hg.1 (hf.2.1.trans hg.2.1.symm) (hf.2.2.trans hg.2.2.symm),
    Pwc.add_first.trans hf.2.1, Pwc.add_last.trans hf.2.2⟩

theorem B5_PwcOn.evalR_some {a b : Q} {f : Pwc} (hf : B5_PwcOn a b f) {t : Q} (h0 : a ≤ t)
    (h1 : t < b) : f.evalR t = some ((f.evalR t).getD 0) := by
  rw [hf.1.evalR_eq (by rw [hf.2.1]; exact h0) (by rw [hf.2.2]; exact h1)]
  rfl

theorem B5_PwcOn.add_evalR {a b : Q} {f g : Pwc} (hf : B5_PwcOn a b f) (hg : B5_PwcOn a b g)
    {t : Q} (h0 : a ≤ t) (h1 : t < b) :
    ((f.add g).evalR t).getD 0 = (f.evalR t).getD 0 + (g.evalR t).getD 0 := by
  obtain ⟨v, w, hv, hw, hvw⟩ := Pwc.add_evalR hf.1 hg.1 (hf.2.1.trans hg.2.1.symm)
    (hf.2.2.trans hg.2.2.symm) t (by rw [hf.2.1]; exact h0) (by rw [hf.2.2]; exact h1)
  rw [hv, hw, hvw]
  rfl

theorem B5_PwcOn.add_integralAll {a b : Q} {f g : Pwc} (hf : B5_PwcOn a b f)
    (hg : B5_PwcOn a b g) : (f.add g).integralAll = f.integralAll + g.integralAll :=
  Pwc.add_integralAll hf.1 hg.1 (hf.2.1.trans hg.2.1.symm) (hf.2.2.trans hg.2.2.symm)

theorem B5_PwcOn.avrgAll {a b : Q} {f : Pwc} (hf : B5_PwcOn a b f) :
    f.avrgAll = f.integralAll * (b - a)⁻¹ := by
  unfold Pwc.avrgAll
  rw [div_eq_mul_inv]
  congr 2
  rw [← hf.2.1, ← hf.2.2]
  rfl

theorem B5_fold_wf (a b : Q) (f0 : Pwc) (fs : List Pwc) (h0 : B5_PwcOn a b f0)
    (hl : ∀ f ∈ fs, B5_PwcOn a b f) : B5_PwcOn a b (fs.foldl Pwc.add f0) :=
  (B5_foldl_sum Pwc.add (B5_PwcOn a b) (fun _ => 0) (fun _ _ => B5_PwcOn.add)
    (fun _ _ _ _ => by simp) fs f0 h0 hl).1

/-- right limits of a sum of profiles add up -/
theorem B5_foldl_add_evalR (a b : Q) (f0 : Pwc) (fs : List Pwc) (h0 : B5_PwcOn a b f0)
    (hl : ∀ f ∈ fs, B5_PwcOn a b f) (t : Q) (ht0 : a ≤ t) (ht1 : t < b) :
    (fs.foldl Pwc.add f0).evalR t =
      some ((f0.evalR t).getD 0 + qsum (fs.map fun f => (f.evalR t).getD 0)) := by
  obtain ⟨s, i⟩ := B5_foldl_sum Pwc.add (B5_PwcOn a b) (fun f => (f.evalR t).getD 0)
    (fun _ _ => B5_PwcOn.add) (fun _ _ hf hg => B5_PwcOn.add_evalR hf hg ht0 ht1) fs f0 h0 hl
  rw [s.evalR_some ht0 ht1, i]

theorem B5_foldl_add_integralAll (a b : Q) (f0 : Pwc) (fs : List Pwc) (h0 : B5_PwcOn a b f0)
    (hl : ∀ f ∈ fs, B5_PwcOn a b f) :
    (fs.foldl Pwc.add f0).integralAll = f0.integralAll + qsum (fs.map Pwc.integralAll) :=
  (B5_foldl_sum Pwc.add (B5_PwcOn a b) Pwc.integralAll (fun _ _ => B5_PwcOn.add)
    (fun _ _ hf hg => B5_PwcOn.add_integralAll hf hg) fs f0 h0 hl).2

example : B5_PwcOn 0 3 exF ∧ (∀ f ∈ [exG, exH], B5_PwcOn 0 3 f) := by
  simp [B5_PwcOn, Pwc.WF, exF, exG, exH, Pwc.first, Pwc.last, lastD]
  norm_num
example : ([exG, exH].foldl Pwc.add exF).evalR 1 = some (5 + (1 + 0)) := by decide +kernel

/-- well-formed piecewise linear function on `[a, b]` -/
def B5_PwlOn (a b : Q) (f : Pwl) : Prop := f.WF ∧ f.first = a ∧ f.last = b

theorem B5_PwlOn.add {a b : Q} {f g : Pwl} (hf : B5_PwlOn a b f) (hg : B5_PwlOn a b g) :
    B5_PwlOn a b (f.add g) :=
  ⟨Pwl.add_wf hf.1 hg.1 (hf.2.1.trans hg.2.1.symm) (hf.2.2.trans hg.2.2.symm),
    (Pwl.add_first hf.1 hg.1 (hf.2.1.trans hg.2.1.symm) (hf.2.2.trans hg.2.2.symm)).trans hf.2.1,
    (Pwl.add_last hf.1 hg.1 (hf.2.1.trans hg.2.1.symm) (hf.2.2.trans hg.2.2.symm)).trans hf.2.2⟩

theorem B5_PwlOn.add_evalR {a b : Q} {f g : Pwl} (hf : B5_PwlOn a b f) (hg : B5_PwlOn a b g)
    {t : Q} (h0 : a ≤ t) (h1 : t < b) :
    (f.add g).evalR t = some (((f.add g).evalR t).getD 0) ∧
    ((f.add g).evalR t).getD 0 = (f.evalR t).getD 0 + (g.evalR t).getD 0 := by
  obtain ⟨v, w, hv, hw, hvw⟩ := Pwl.add_evalR hf.1 hg.1 (hf.2.1.trans hg.2.1.symm)
    (hf.2.2.trans hg.2.2.symm) t (by rw [hf.2.1]; exact h0) (by rw [hf.2.2]; exact h1)
  rw [hv, hw, hvw]
  exact ⟨rfl, rfl⟩

theorem B5_PwlOn.add_integralAll {a b : Q} {f g : Pwl} (hf : B5_PwlOn a b f)
    (hg : B5_PwlOn a b g) : (f.add g).integralAll = f.integralAll + g.integralAll :=
  Pwl.add_integralAll hf.1 hg.1 (hf.2.1.trans hg.2.1.symm) (hf.2.2.trans hg.2.2.symm)

theorem B5_PwlOn.avrgAll {a b : Q} {f : Pwl} (hf : B5_PwlOn a b f) :
    f.avrgAll = f.integralAll * (b - a)⁻¹ := by
  unfold Pwl.avrgAll
  rw [div_eq_mul_inv]
  congr 2
  rw [← hf.2.1, ← hf.2.2]
  rfl

theorem B5_Pwl_fold_wf (a b : Q) (f0 : Pwl) (fs : List Pwl) (h0 : B5_PwlOn a b f0)
    (hl : ∀ f ∈ fs, B5_PwlOn a b f) : B5_PwlOn a b (fs.foldl Pwl.add f0) :=
  (B5_foldl_sum Pwl.add (B5_PwlOn a b) (fun _ => 0) (fun _ _ => B5_PwlOn.add)
    (fun _ _ _ _ => by simp) fs f0 h0 hl).1

/-- values of a sum of piecewise linear profiles add up (here `fs ≠ []`, so that the fold is a
    sum and its right limit is known to exist) -/
theorem B5_Pwl_foldl_add_evalR (a b : Q) (f0 : Pwl) (fs : List Pwl) (h0 : B5_PwlOn a b f0)
    (hl : ∀ f ∈ fs, B5_PwlOn a b f) (t : Q) (ht0 : a ≤ t) (ht1 : t < b) :
    ((fs.foldl Pwl.add f0).evalR t).getD 0 =
      (f0.evalR t).getD 0 + qsum (fs.map fun f => (f.evalR t).getD 0) :=
  (B5_foldl_sum Pwl.add (B5_PwlOn a b) (fun f => (f.evalR t).getD 0)
    (fun _ _ => B5_PwlOn.add) (fun _ _ hf hg => (B5_PwlOn.add_evalR hf hg ht0 ht1).2) fs f0 h0 hl).2

theorem B5_Pwl_foldl_add_integralAll (a b : Q) (f0 : Pwl) (fs : List Pwl) (h0 : B5_PwlOn a b f0)
    (hl : ∀ f ∈ fs, B5_PwlOn a b f) :
    (fs.foldl Pwl.add f0).integralAll = f0.integralAll + qsum (fs.map Pwl.integralAll) :=
  (B5_foldl_sum Pwl.add (B5_PwlOn a b) Pwl.integralAll (fun _ _ => B5_PwlOn.add)
    (fun _ _ hf hg => B5_PwlOn.add_integralAll hf hg) fs f0 h0 hl).2

example : B5_PwlOn 0 3 exPwlF ∧ (∀ f ∈ [exPwlG, exPwlH], B5_PwlOn 0 3 f) := by
  refine ⟨⟨exPwlF_wf, by decide +kernel, by decide +kernel⟩, ?_⟩
  intro f hf
  simp only [List.mem_cons, List.not_mem_nil, or_false] at hf
  rcases hf with rfl | rfl
  · exact ⟨exPwlG_wf, by decide +kernel, by decide +kernel⟩
  · exact ⟨exPwlH_wf, by decide +kernel, by decide +kernel⟩

/-- discrete profiles: integrals (value, multiplicity) of a fold add up — no hypotheses -/
theorem B5_Disc_foldl_add_integralAll (f0 : Disc) (fs : List Disc) :
    (fs.foldl Disc.add f0).integralAll =
      (f0.integralAll.1 + qsum (fs.map fun f => f.integralAll.1),
       f0.integralAll.2 + qsum (fs.map fun f => f.integralAll.2)) := by
  have h1 := (B5_foldl_sum Disc.add (fun _ => True) (fun f => f.integralAll.1)
    (fun _ _ _ _ => trivial) (fun a b _ _ => by rw [Disc.add_integralAll]) fs f0 trivial
    (fun _ _ => trivial)).2
  have h2 := (B5_foldl_sum Disc.add (fun _ => True) (fun f => f.integralAll.2)
    (fun _ _ _ _ => trivial) (fun a b _ _ => by rw [Disc.add_integralAll]) fs f0 trivial
    (fun _ _ => trivial)).2
  exact Prod.ext h1 h2

example : ([exDG, exDH].foldl Disc.add exDF).integralAll = (6 + (4 + 6), 3 + (2 + 3)) := by
  decide +kernel

/-! ## 3./4. ISI: multivariate profile = mean of the pair profiles; multivariate distance =
    average of the multivariate profile -/

theorem B5_headD_of_sorted (l : List Q) (ts : Q) (hm : ts ∈ l) (hle : ∀ x ∈ l, ts ≤ x)
    (hs : l.Pairwise (· < ·)) : l.headD 0 = ts := by
  cases l with
  | nil => simp at hm
  | cons a r =>
    simp only [List.headD_cons]
    rcases List.mem_cons.mp hm with h | h
    · exact h.symm
    · have := (List.pairwise_cons.mp hs).1 ts h
      exact absurd (hle a (by simp)) (not_le.mpr this)

theorem B5_lastD_of_sorted : ∀ (l : List Q) (te : Q), te ∈ l → (∀ x ∈ l, x ≤ te) →
    l.Pairwise (· < ·) → lastD l 0 = te := by
  intro l
  induction l with
  | nil => intro te hm; simp at hm
  | cons a r ih =>
    intro te hm hle hs
    cases r with
    | nil =>
      simp only [List.mem_singleton] at hm
      rw [hm]; rfl
    | cons b r' =>
      rw [lastD_cons_cons]
      have hs' := List.pairwise_cons.mp hs
      apply ih te ?_ (fun x hx => hle x (by simp [hx])) hs'.2
      rcases List.mem_cons.mp hm with h | h
      · have h1 := hs'.1 b (by simp)
        have h2 := hle b (by simp)
        rw [h] at h2
        exact absurd h2 (not_le.mpr h1)
      · exact h

theorem B5_isiProfileBi_kw (kw : Kw) (a b : Train) (hr : kw.recon = false) :
    isiProfileBi kw a b = isiProfileBi { mrts := kw.mrts, recon := false } a b := by
  simp [isiProfileBi, prepBi, hr]

/-- the ISI profile of two valid trains with the same edges is a well-formed piecewise constant
    function on `[ts, te]` -/
theorem B5_isiProfileBi_on (kw : Kw) (a b : Train) (hr : kw.recon = false)
    (ha : ValidTrain a) (hb : ValidTrain b) (hts : b.ts = a.ts) (hte : b.te = a.te) :
    B5_PwcOn a.ts a.te (isiProfileBi kw a b) := by
  rw [B5_isiProfileBi_kw kw a b hr]
  obtain ⟨hlen, -⟩ := isi_profile_values a b kw.mrts ha hb hts hte
  obtain ⟨hs, hm⟩ := isi_profile_breakpoints a b kw.mrts ha hb hts hte
  have hlt := ha.1
  have hle0 : ∀ x ∈ (isiProfileBi { mrts := kw.mrts, recon := false } a b).x, a.ts ≤ x := by
    intro x hx
    rcases (hm x).mp hx with h | h | h
    · exact le_of_eq h.symm
    · rw [h]; exact le_of_lt hlt
    · exact le_of_lt h.1
  have hle1 : ∀ x ∈ (isiProfileBi { mrts := kw.mrts, recon := false } a b).x, x ≤ a.te := by
    intro x hx
    rcases (hm x).mp hx with h | h | h
    · rw [h]; exact le_of_lt hlt
    · exact le_of_eq h
    · exact le_of_lt h.2.1
  have hts' := (hm a.ts).mpr (Or.inl rfl)
  have hte' := (hm a.te).mpr (Or.inr (Or.inl rfl))
  have hfirst := B5_headD_of_sorted _ a.ts hts' hle0 hs
  have hlast := B5_lastD_of_sorted _ a.te hte' hle1 hs
  refine ⟨⟨hlen, hs, ?_⟩, hfirst, hlast⟩
  match hx : (isiProfileBi { mrts := kw.mrts, recon := false } a b).x with
  | [] => rw [hx] at hts'; simp at hts'
  | [c] =>
    rw [hx] at hts' hte'
    simp only [List.mem_singleton] at hts' hte'
    rw [← hte'] at hts'
    exact absurd hts' (ne_of_lt hlt)
  | c :: d :: r => simp

/-- a list of valid trains with common edges `ts < te` -/
def B5_ValidList (ts te : Q) (L : List Train) : Prop :=
  ∀ a ∈ L, ValidTrain a ∧ a.ts = ts ∧ a.te = te

theorem B5_tr_mem (L : List Train) (i : Nat) (h : i < L.length) : tr L i ∈ L := by
  unfold tr
  simp [List.getD_eq_getElem?_getD, List.getElem?_eq_getElem h]

theorem B5_pair_mem (L : List Train) (p : Nat × Nat) (hp : p ∈ pairsOf (List.range L.length)) :
    tr L p.1 ∈ L ∧ tr L p.2 ∈ L := by
  have := mem_posPairs hp
  exact ⟨B5_tr_mem L _ this.1, B5_tr_mem L _ this.2⟩

theorem B5_isi_leaf_on (kw : Kw) (L : List Train) (ts te : Q) (hr : kw.recon = false)
    (hv : B5_ValidList ts te L) :
    ∀ p ∈ pairsOf (List.range L.length),
      B5_PwcOn ts te (isiProfileBi kw (tr L p.1) (tr L p.2)) := by
  intro p hp
  obtain ⟨h1, h2⟩ := B5_pair_mem L p hp
  obtain ⟨v1, s1, e1⟩ := hv _ h1
  obtain ⟨v2, s2, e2⟩ := hv _ h2
  have := B5_isiProfileBi_on kw _ _ hr v1 v2 (s2.trans s1.symm) (e2.trans e1.symm)
  rwa [s1, e1] at this

/-- **ISI multivariate profile = mean of the pair profiles** (pointwise, right limits):
    for valid trains with common edges `[ts, te]`, at every `ts ≤ t < te` the multivariate profile
    has the value `(Σ_{i<j} isi_profile(L[i], L[j])(t)) / M`, `M` the number of pairs. -/
theorem isiProfileMulti_evalR_eq_mean (kw : Kw) (L : List Train) (ts te t : Q)
    (hr : kw.recon = false) (hv : B5_ValidList ts te L) (h2 : 2 ≤ L.length)
    (ht0 : ts ≤ t) (ht1 : t < te) :
    (isiProfileMulti kw none L).evalR t =
      some (qsum ((pairsOf (List.range L.length)).map fun p =>
          ((isiProfileBi kw (tr L p.1) (tr L p.2)).evalR t).getD 0)
        / ((pairsOf (List.range L.length)).length : Q)) ∧
    ∀ p ∈ pairsOf (List.range L.length),
      (isiProfileBi kw (tr L p.1) (tr L p.2)).evalR t =
        some (((isiProfileBi kw (tr L p.1) (tr L p.2)).evalR t).getD 0) := by
  have hleaf := B5_isi_leaf_on kw L ts te hr hv
  refine ⟨?_, fun p hp => (hleaf p hp).evalR_some ht0 ht1⟩
  unfold isiProfileMulti
  simp only [prep_of_recon_false kw L hr, resolveIdx, Kw.noRecon_eq kw hr]
  rw [Pwc.mulScalar_evalR, genericProfileMulti_snd]
  obtain ⟨s, i⟩ := B5_gpm_sum Pwc.add (fun p => isiProfileBi kw (tr L p.1) (tr L p.2))
    (B5_PwcOn ts te) (fun f => (f.evalR t).getD 0) (fun _ _ => B5_PwcOn.add)
    (fun _ _ hf hg => B5_PwcOn.add_evalR hf hg ht0 ht1) (List.range L.length)
    (B5_pairs_range_ne_nil h2) hleaf
  rw [s.evalR_some ht0 ht1, i, Option.map_some, mul_one_div]

/-- the multivariate ISI profile of valid trains on `[ts, te]` is itself well-formed on `[ts, te]` -/
theorem B5_isiProfileMulti_on (kw : Kw) (L : List Train) (ts te : Q)
    (hr : kw.recon = false) (hv : B5_ValidList ts te L) (h2 : 2 ≤ L.length) :
    B5_PwcOn ts te (isiProfileMulti kw none L) := by
  have hleaf := B5_isi_leaf_on kw L ts te hr hv
  unfold isiProfileMulti
  simp only [prep_of_recon_false kw L hr, resolveIdx, Kw.noRecon_eq kw hr]
  obtain ⟨s, -⟩ := B5_gpm_sum Pwc.add (fun p => isiProfileBi kw (tr L p.1) (tr L p.2))
    (B5_PwcOn ts te) (fun _ => 0) (fun _ _ => B5_PwcOn.add)
    (fun _ _ _ _ => by simp) (List.range L.length) (B5_pairs_range_ne_nil h2) hleaf
  exact ⟨Pwc.mulScalar_wf s.1 _, s.2.1, s.2.2⟩

/-- **multivariate ISI distance = average of the multivariate ISI profile** (interval = None) -/
theorem isiDistanceMulti_eq_avrg_profile (kw : Kw) (L : List Train) (ts te : Q)
    (hr : kw.recon = false) (hi : kw.interval = none) (hv : B5_ValidList ts te L)
    (h2 : 2 ≤ L.length) :
    isiDistanceMulti kw none L = some ((isiProfileMulti kw none L).avrgAll) := by
  have hleaf := B5_isi_leaf_on kw L ts te hr hv
  have hon := B5_isiProfileMulti_on kw L ts te hr hv h2
  rw [hon.avrgAll]
  unfold isiDistanceMulti isiProfileMulti genericDistanceMulti
  simp only [prep_of_recon_false kw L hr, resolveIdx, Kw.noRecon_eq kw hr]
  rw [Pwc.mulScalar_integralAll, genericProfileMulti_snd]
  obtain ⟨-, i⟩ := B5_gpm_sum Pwc.add (fun p => isiProfileBi kw (tr L p.1) (tr L p.2))
    (B5_PwcOn ts te) Pwc.integralAll (fun _ _ => B5_PwcOn.add)
    (fun _ _ hf hg => B5_PwcOn.add_integralAll hf hg) (List.range L.length)
    (B5_pairs_range_ne_nil h2) hleaf
  rw [i]
  have hd : (pairsOf (List.range L.length)).map
        (fun p => isiDistanceBi kw (tr L p.1) (tr L p.2)) =
      (pairsOf (List.range L.length)).map (fun p => some
        ((isiProfileBi kw (tr L p.1) (tr L p.2)).integralAll * (te - ts)⁻¹)) := by
    apply List.map_congr_left
    intro p hp
    show pwcAvrgKw _ kw.interval = _
    rw [hi]
    show some _ = some _
    rw [(hleaf p hp).avrgAll]
  rw [hd, B5_sumOpt_some (fun p : Nat × Nat =>
    (isiProfileBi kw (tr L p.1) (tr L p.2)).integralAll * (te - ts)⁻¹), Option.map_some]
  have hq : qsum ((pairsOf (List.range L.length)).map fun p =>
        (isiProfileBi kw (tr L p.1) (tr L p.2)).integralAll * (te - ts)⁻¹) =
      qsum ((pairsOf (List.range L.length)).map fun p =>
        (isiProfileBi kw (tr L p.1) (tr L p.2)).integralAll) * (te - ts)⁻¹ := by
    rw [← qsum_map_mul, List.map_map]
    rfl
  rw [hq]
  congr 1
  ring

def B5_exV : List Train := [⟨[1, 3, 4], 0, 6⟩, ⟨[2, 3, 6], 0, 6⟩, ⟨[0, 5], 0, 6⟩, ⟨[], 0, 6⟩]

theorem B5_exV_valid : B5_ValidList 0 6 B5_exV := by
  intro a ha
  simp only [B5_exV, List.mem_cons, List.not_mem_nil, or_false] at ha
  rcases ha with rfl | rfl | rfl | rfl <;>
    exact ⟨⟨by decide, by decide, by decide⟩, rfl, rfl⟩

example : ({ recon := false } : Kw).recon = false ∧ ({ recon := false } : Kw).interval = none ∧
    B5_ValidList 0 6 B5_exV ∧ 2 ≤ B5_exV.length ∧ (0 : Q) ≤ 5 / 2 ∧ (5 / 2 : Q) < 6 :=
  ⟨rfl, rfl, B5_exV_valid, by decide, by norm_num, by norm_num⟩

example : isiDistanceMulti { recon := false } none B5_exV = some (53 / 108) ∧
    (isiProfileMulti { recon := false } none B5_exV).avrgAll = 53 / 108 ∧
    (isiProfileMulti { recon := false } none B5_exV).evalR (5 / 2) = some (107 / 180) ∧
    (pairsOf (List.range 4)).map (fun p => (isiProfileBi { recon := false } (tr B5_exV p.1)
      (tr B5_exV p.2)).evalR (5 / 2)) =
      [some (1 / 2), some (3 / 5), some (2 / 3), some (4 / 5), some (5 / 6), some (1 / 6)] := by
  decide +kernel

/-! ### the same for the SPIKE profile / distance, conditional on the pair profiles being
    well-formed on `[ts, te]` (not yet proved for `spikeProfile`; checked on an example below) -/

theorem B5_PwlOn.evalR_some {a b : Q} {f : Pwl} (hf : B5_PwlOn a b f) {t : Q} (h0 : a ≤ t)
    (h1 : t < b) : f.evalR t = some ((f.evalR t).getD 0) := by
  obtain ⟨v, -, hv, -, -⟩ := Pwl.add_evalR hf.1 hf.1 rfl rfl t (by rw [hf.2.1]; exact h0)
    (by rw [hf.2.2]; exact h1)
  rw [hv]; rfl

theorem spikeProfileMulti_evalR_eq_mean (kw : Kw) (L : List Train) (ts te t : Q)
    (hr : kw.recon = false) (h2 : 2 ≤ L.length)
    (hleaf : ∀ p ∈ pairsOf (List.range L.length),
      B5_PwlOn ts te (spikeProfileBi kw (tr L p.1) (tr L p.2)))
    (ht0 : ts ≤ t) (ht1 : t < te) :
    (spikeProfileMulti kw none L).evalR t =
      some (qsum ((pairsOf (List.range L.length)).map fun p =>
          ((spikeProfileBi kw (tr L p.1) (tr L p.2)).evalR t).getD 0)
        / ((pairsOf (List.range L.length)).length : Q)) := by
  unfold spikeProfileMulti
  simp only [prep_of_recon_false kw L hr, resolveIdx, Kw.noRecon_eq kw hr]
  rw [Pwl.mulScalar_evalR, genericProfileMulti_snd]
  obtain ⟨s, i⟩ := B5_gpm_sum Pwl.add (fun p => spikeProfileBi kw (tr L p.1) (tr L p.2))
    (B5_PwlOn ts te) (fun f => (f.evalR t).getD 0) (fun _ _ => B5_PwlOn.add)
    (fun _ _ hf hg => (B5_PwlOn.add_evalR hf hg ht0 ht1).2) (List.range L.length)
    (B5_pairs_range_ne_nil h2) hleaf
  rw [s.evalR_some ht0 ht1, i, Option.map_some, mul_one_div]

theorem spikeDistanceMulti_eq_avrg_profile (kw : Kw) (L : List Train) (ts te : Q)
    (hr : kw.recon = false) (hi : kw.interval = none) (h2 : 2 ≤ L.length)
    (hleaf : ∀ p ∈ pairsOf (List.range L.length),
      B5_PwlOn ts te (spikeProfileBi kw (tr L p.1) (tr L p.2))) :
    spikeDistanceMulti kw none L = some ((spikeProfileMulti kw none L).avrgAll) := by
  unfold spikeDistanceMulti spikeProfileMulti genericDistanceMulti
  simp only [prep_of_recon_false kw L hr, resolveIdx, Kw.noRecon_eq kw hr]
  obtain ⟨s, i⟩ := B5_gpm_sum Pwl.add (fun p => spikeProfileBi kw (tr L p.1) (tr L p.2))
    (B5_PwlOn ts te) Pwl.integralAll (fun _ _ => B5_PwlOn.add)
    (fun _ _ hf hg => B5_PwlOn.add_integralAll hf hg) (List.range L.length)
    (B5_pairs_range_ne_nil h2) hleaf
  have hon : B5_PwlOn ts te ((genericProfileMulti Pwl.add
      (fun p => spikeProfileBi kw (tr L p.1) (tr L p.2)) (List.range L.length)).1.mulScalar
      (1 / ((genericProfileMulti Pwl.add
      (fun p => spikeProfileBi kw (tr L p.1) (tr L p.2)) (List.range L.length)).2 : Q))) :=
    ⟨Pwl.mulScalar_wf s.1 _, s.2.1, s.2.2⟩
  rw [hon.avrgAll, Pwl.mulScalar_integralAll, genericProfileMulti_snd, i]
  have hd : (pairsOf (List.range L.length)).map
        (fun p => spikeDistanceBi kw (tr L p.1) (tr L p.2)) =
      (pairsOf (List.range L.length)).map (fun p => some
        ((spikeProfileBi kw (tr L p.1) (tr L p.2)).integralAll * (te - ts)⁻¹)) := by
    apply List.map_congr_left
    intro p hp
    show pwlAvrgKw _ kw.interval = _
    rw [hi]
    show some _ = some _
    rw [(hleaf p hp).avrgAll]
  rw [hd, B5_sumOpt_some (fun p : Nat × Nat =>
    (spikeProfileBi kw (tr L p.1) (tr L p.2)).integralAll * (te - ts)⁻¹), Option.map_some]
  have hq : qsum ((pairsOf (List.range L.length)).map fun p =>
        (spikeProfileBi kw (tr L p.1) (tr L p.2)).integralAll * (te - ts)⁻¹) =
      qsum ((pairsOf (List.range L.length)).map fun p =>
        (spikeProfileBi kw (tr L p.1) (tr L p.2)).integralAll) * (te - ts)⁻¹ := by
    rw [← qsum_map_mul, List.map_map]
    rfl
  rw [hq]
  congr 1
  ring

def B5_exS : List Train := [⟨[1, 3, 4], 0, 6⟩, ⟨[2, 3, 6], 0, 6⟩, ⟨[], 0, 6⟩]

/-- the well-formedness hypothesis on the pair profiles holds on a concrete input -/
theorem B5_exS_leaf : ∀ p ∈ pairsOf (List.range B5_exS.length),
    B5_PwlOn 0 6 (spikeProfileBi { recon := false } (tr B5_exS p.1) (tr B5_exS p.2)) := by
  intro p hp
  have hl : pairsOf (List.range B5_exS.length) = [(0, 1), (0, 2), (1, 2)] := by decide
  rw [hl] at hp
  simp only [List.mem_cons, List.not_mem_nil, or_false] at hp
  rcases hp with rfl | rfl | rfl
  · have h : spikeProfileBi { recon := false } (tr B5_exS (0, 1).1) (tr B5_exS (0, 1).2) =
        ⟨[0, 1, 2, 3, 4, 6], [1/2, 1/2, 5/9, 0, 6/25], [1/2, 3/8, 0, 3/8, 6/25]⟩ := by
      decide +kernel
    rw [h]
    norm_num [B5_PwlOn, Pwl.WF, Pwl.first, Pwl.last, lastD]
  · have h : spikeProfileBi { recon := false } (tr B5_exS (0, 2).1) (tr B5_exS (0, 2).2) =
        ⟨[0, 1, 3, 4, 6], [1/4, 23/96, 37/49, 19/48], [23/96, 19/32, 74/147, 3/8]⟩ := by
      decide +kernel
    rw [h]
    norm_num [B5_PwlOn, Pwl.WF, Pwl.first, Pwl.last, lastD]
  · have h : spikeProfileBi { recon := false } (tr B5_exS (1, 2).1) (tr B5_exS (1, 2).2) =
        ⟨[0, 2, 3, 6], [3/8, 24/49, 4/9], [3/8, 36/49, 0]⟩ := by
      decide +kernel
    rw [h]
    norm_num [B5_PwlOn, Pwl.WF, Pwl.first, Pwl.last, lastD]

example : spikeDistanceMulti { recon := false } none B5_exS = some (4508713 / 12700800) ∧
    (spikeProfileMulti { recon := false } none B5_exS).avrgAll = 4508713 / 12700800 := by
  decide +kernel

/-! ## 6. order-independence (C06): the multivariate distance does not depend on the order of the
    spike trains -/

/-- the list of `F (L[i], L[j])`, `i < j`, in the order of `pairs` of generic.py -/
def B5_pairVals {β} (F : Train → Train → β) (L : List Train) : List β :=
  (pairsOf (List.range L.length)).map fun p => F (tr L p.1) (tr L p.2)

theorem B5_map_tr_range (r : List Train) : (List.range r.length).map (tr r) = r := by
  apply List.ext_getElem
  · simp
  · intro i h1 h2
    simp at h1
    simp [tr, List.getD_eq_getElem?_getD, List.getElem?_eq_getElem h1]

theorem B5_pairVals_cons {β} (F : Train → Train → β) (a : Train) (r : List Train) :
    B5_pairVals F (a :: r) = r.map (F a) ++ B5_pairVals F r := by
  unfold B5_pairVals
  rw [List.length_cons, List.range_succ_eq_map, pairsOf, pairsOf_map, List.map_append,
    List.map_map, List.map_map, List.map_map]
  congr 1
  conv_rhs => rw [← B5_map_tr_range r, List.map_map]
  rfl

theorem B5_sumOpt_perm {l1 l2 : List (Option Q)} (h : l1.Perm l2) : sumOpt l1 = sumOpt l2 := by
  induction h with
  | nil => rfl
  | cons x _ ih => cases x with
    | none => rfl
    | some v => simp only [sumOpt, ih]
  | swap x y l =>
    cases x with
    | none => cases y <;> rfl
    | some v =>
      cases y with
      | none => rfl
      | some w =>
        simp only [sumOpt, Option.map_map]
        congr 1
        funext z
        simp only [Function.comp]
        ring
  | trans _ _ ih1 ih2 => exact ih1.trans ih2

theorem B5_sumOpt2_perm {l1 l2 : List (Option (Q × Q))} (h : l1.Perm l2) :
    sumOpt2 l1 = sumOpt2 l2 := by
  induction h with
  | nil => rfl
  | cons x _ ih => cases x with
    | none => rfl
    | some v => simp only [sumOpt2, ih]
  | swap x y l =>
    cases x with
    | none => cases y <;> rfl
    | some v =>
      cases y with
      | none => rfl
      | some w =>
        simp only [sumOpt2, Option.map_map]
        congr 1
        funext z
        simp only [Function.comp]
        exact Prod.ext (by ring) (by ring)
  | trans _ _ ih1 ih2 => exact ih1.trans ih2

/-- the pair values of a symmetric function: permuting the trains permutes the pair values -/
theorem B5_pairVals_perm {β} (d : Train → Train → β) {L' L : List Train} (hp : L'.Perm L) :
    (∀ a ∈ L, ∀ b ∈ L, d a b = d b a) → (B5_pairVals d L').Perm (B5_pairVals d L) := by
  induction hp with
  | nil => intro _; exact List.Perm.refl _
  | cons x h ih =>
    intro hs
    rw [B5_pairVals_cons, B5_pairVals_cons]
    exact List.Perm.append (h.map _)
      (ih fun a ha b hb => hs a (List.mem_cons_of_mem _ ha) b (List.mem_cons_of_mem _ hb))
  | swap x y l =>
    intro hs
    rw [B5_pairVals_cons, B5_pairVals_cons, B5_pairVals_cons, B5_pairVals_cons]
    simp only [List.map_cons, List.cons_append]
    rw [hs x (by simp) y (by simp)]
    refine List.Perm.cons _ ?_
    rw [← List.append_assoc, ← List.append_assoc]
    exact List.Perm.append_right _ List.perm_append_comm
  | trans h1 h2 ih1 ih2 =>
    intro hs
    exact (ih1 fun a ha b hb => hs a ((h2.mem_iff).mp ha) b ((h2.mem_iff).mp hb)).trans (ih2 hs)

theorem B5_pairVals_length {β} (F : Train → Train → β) (L : List Train) :
    (B5_pairVals F L).length = (pairsOf (List.range L.length)).length := by
  simp [B5_pairVals]

/-- **generic order-independence**: for a distance that is symmetric on the trains of the list,
    `_generic_distance_multi` of a permuted list is the same -/
theorem genericDistanceMulti_perm (d : Train → Train → Option Q) {L' L : List Train}
    (hp : L'.Perm L) (hs : ∀ a ∈ L, ∀ b ∈ L, d a b = d b a) :
    genericDistanceMulti d (List.range L'.length) L' =
      genericDistanceMulti d (List.range L.length) L := by
  unfold genericDistanceMulti
  show (sumOpt (B5_pairVals d L')).map _ = (sumOpt (B5_pairVals d L)).map _
  rw [B5_sumOpt_perm (B5_pairVals_perm d hp hs), hp.length_eq]

example : genericDistanceMulti (fun a b => some (a.ts * b.ts + 1)) (List.range 3)
      [⟨[], 3, 5⟩, ⟨[], 1, 5⟩, ⟨[], 2, 5⟩] =
    genericDistanceMulti (fun a b => some (a.ts * b.ts + 1)) (List.range 3)
      [⟨[], 1, 5⟩, ⟨[], 2, 5⟩, ⟨[], 3, 5⟩] := by decide +kernel

/-! ### `reconcile` of a permuted list -/

theorem B5_foldl_min_spec (r : List Q) : ∀ a : Q,
    r.foldl min a ∈ a :: r ∧ ∀ x ∈ a :: r, r.foldl min a ≤ x := by
  induction r with
  | nil => intro a; simp
  | cons b r ih =>
    intro a
    obtain ⟨hm, hle⟩ := ih (min a b)
    simp only [List.foldl_cons]
    refine ⟨?_, ?_⟩
    · rcases List.mem_cons.mp hm with h | h
      · rw [h]
        rcases min_choice a b with h' | h' <;> rw [h'] <;> simp
      · simp [h]
    · intro x hx
      rcases List.mem_cons.mp hx with h | h
      · rw [h]; exact le_trans (hle _ (by simp)) (min_le_left a b)
      · rcases List.mem_cons.mp h with h | h
        · rw [h]; exact le_trans (hle _ (by simp)) (min_le_right a b)
        · exact hle x (by simp [h])

theorem B5_foldl_max_spec (r : List Q) : ∀ a : Q,
    r.foldl max a ∈ a :: r ∧ ∀ x ∈ a :: r, x ≤ r.foldl max a := by
  induction r with
  | nil => intro a; simp
  | cons b r ih =>
    intro a
    obtain ⟨hm, hle⟩ := ih (max a b)
    simp only [List.foldl_cons]
    refine ⟨?_, ?_⟩
    · rcases List.mem_cons.mp hm with h | h
      · rw [h]
        rcases max_choice a b with h' | h' <;> rw [h'] <;> simp
      · simp [h]
    · intro x hx
      rcases List.mem_cons.mp hx with h | h
      · rw [h]; exact le_trans (le_max_left a b) (hle _ (by simp))
      · rcases List.mem_cons.mp h with h | h
        · rw [h]; exact le_trans (le_max_right a b) (hle _ (by simp))
        · exact hle x (by simp [h])

theorem B5_minList_perm (d : Q) {l1 l2 : List Q} (h : l1.Perm l2) :
    minList d l1 = minList d l2 := by
  cases l1 with
  | nil => rw [h.symm.eq_nil]
  | cons a r =>
    cases l2 with
    | nil => exact absurd h.eq_nil (by simp)
    | cons b s =>
      obtain ⟨m1, le1⟩ := B5_foldl_min_spec r a
      obtain ⟨m2, le2⟩ := B5_foldl_min_spec s b
      exact le_antisymm (le1 _ (h.mem_iff.mpr m2)) (le2 _ (h.mem_iff.mp m1))

theorem B5_maxList_perm (d : Q) {l1 l2 : List Q} (h : l1.Perm l2) :
    maxList d l1 = maxList d l2 := by
  cases l1 with
  | nil => rw [h.symm.eq_nil]
  | cons a r =>
    cases l2 with
    | nil => exact absurd h.eq_nil (by simp)
    | cons b s =>
      obtain ⟨m1, le1⟩ := B5_foldl_max_spec r a
      obtain ⟨m2, le2⟩ := B5_foldl_max_spec s b
      exact le_antisymm (le2 _ (h.mem_iff.mp m1)) (le1 _ (h.mem_iff.mpr m2))

/-- reconciling a permuted list gives the permuted reconciled list -/
theorem B5_reconcile_perm {L' L : List Train} (hp : L'.Perm L) :
    (reconcile L').Perm (reconcile L) := by
  unfold reconcile
  rw [B5_minList_perm 0 (hp.map (·.ts)), B5_maxList_perm 0 (hp.map (·.te))]
  exact hp.map _

/-- all reconciled trains share their edges -/
theorem B5_reconcile_edges (L : List Train) :
    ∀ a ∈ reconcile L, a.ts = minList 0 (L.map (·.ts)) ∧ a.te = maxList 0 (L.map (·.te)) := by
  intro a ha
  unfold reconcile at ha
  obtain ⟨s, -, rfl⟩ := List.mem_map.mp ha
  exact ⟨rfl, rfl⟩

/-- **C06 for the ISI distance, without reconciliation**: trains with common edges -/
theorem isiDistanceMulti_perm (kw : Kw) {L' L : List Train} (ts te : Q) (hr : kw.recon = false)
    (he : ∀ a ∈ L, a.ts = ts ∧ a.te = te) (hp : L'.Perm L) :
    isiDistanceMulti kw none L' = isiDistanceMulti kw none L := by
  unfold isiDistanceMulti
  simp only [prep_of_recon_false kw _ hr, resolveIdx]
  apply genericDistanceMulti_perm _ hp
  intro a ha b hb
  exact C07.isi_distance_symm a b kw.noRecon rfl ((he b hb).1.trans (he a ha).1.symm)
    ((he b hb).2.trans (he a ha).2.symm)

/-- **C06 for the ISI distance, with reconciliation** (the default): no hypothesis on the trains -/
theorem isiDistanceMulti_perm_recon (kw : Kw) {L' L : List Train} (hr : kw.recon = true)
    (hp : L'.Perm L) :
    isiDistanceMulti kw none L' = isiDistanceMulti kw none L := by
  unfold isiDistanceMulti
  simp only [prep, hr, if_true, resolveIdx]
  apply genericDistanceMulti_perm _ (B5_reconcile_perm hp)
  intro a ha b hb
  have ea := B5_reconcile_edges L a ha
  have eb := B5_reconcile_edges L b hb
  exact C07.isi_distance_symm a b kw.noRecon rfl (eb.1.trans ea.1.symm) (eb.2.trans ea.2.symm)

/-- C06 in the form "reversed list" -/
theorem isiDistanceMulti_reverse (kw : Kw) (L : List Train) (ts te : Q)
    (he : kw.recon = true ∨ ∀ a ∈ L, a.ts = ts ∧ a.te = te) :
    isiDistanceMulti kw none L.reverse = isiDistanceMulti kw none L := by
  cases hr : kw.recon with
  | true => exact isiDistanceMulti_perm_recon kw hr (List.reverse_perm L)
  | false =>
    rcases he with h | h
    · rw [hr] at h; exact absurd h (by simp)
    · exact isiDistanceMulti_perm kw ts te hr h (List.reverse_perm L)

example : ([⟨[2, 3, 6], 0, 6⟩, ⟨[], 0, 6⟩, ⟨[1, 3, 4], 0, 6⟩, ⟨[0, 5], 0, 6⟩] : List Train).Perm
    B5_exV := by decide

/-- C06 for the SPIKE distance; the symmetry of the bivariate SPIKE distance on the (prepared)
    trains is a hypothesis (not yet proved elsewhere) -/
theorem spikeDistanceMulti_perm (kw : Kw) {L' L : List Train} (hr : kw.recon = false)
    (hs : ∀ a ∈ L, ∀ b ∈ L, spikeDistanceBi kw a b = spikeDistanceBi kw b a) (hp : L'.Perm L) :
    spikeDistanceMulti kw none L' = spikeDistanceMulti kw none L := by
  unfold spikeDistanceMulti
  simp only [prep_of_recon_false kw _ hr, resolveIdx, Kw.noRecon_eq kw hr]
  exact genericDistanceMulti_perm _ hp hs

/-- C06 for multivariate SPIKE-Sync; symmetry of the bivariate (coincidences, multiplicity) is a
    hypothesis -/
theorem spikeSyncMulti_perm (kw : Kw) {L' L : List Train} (hr : kw.recon = false)
    (hs : ∀ a ∈ L, ∀ b ∈ L, syncValues kw a b = syncValues kw b a) (hp : L'.Perm L) :
    spikeSyncMulti kw none L' = spikeSyncMulti kw none L := by
  unfold spikeSyncMulti
  simp only [prep_of_recon_false kw _ hr, resolveIdx, Kw.noRecon_eq kw hr]
  show (sumOpt2 (B5_pairVals (syncValues kw) L')).map _ = (sumOpt2 (B5_pairVals (syncValues kw) L)).map _
  rw [B5_sumOpt2_perm (B5_pairVals_perm _ hp hs)]

/-! ## spike-train order, multivariate = ratio of the integral of the multivariate order profile
    (default `recon = true`; the per-pair re-reconciliation of the fallback route is the identity
    on trains of an already reconciled list) -/

theorem B5_foldl_pair_sum {α} (g : α → Q × Q) (ps : List α) : ∀ a : Q × Q,
    ps.foldl (fun acc p => (acc.1 + (g p).1, acc.2 + (g p).2)) a =
      (a.1 + qsum (ps.map fun p => (g p).1), a.2 + qsum (ps.map fun p => (g p).2)) := by
  induction ps with
  | nil => intro a; simp [qsum]
  | cons p r ih =>
    intro a
    simp only [List.foldl_cons, List.map_cons, qsum, ih]
    exact Prod.ext (by simp only; ring) (by simp only; ring)

/-- reconciling two trains of an already reconciled list changes nothing -/
theorem B5_reconcileBi_of_mem (L : List Train) (a b : Train) (ha : a ∈ reconcile L)
    (hb : b ∈ reconcile L) : reconcileBi a b = (a, b) := by
  have key : reconcile [a, b] = [a, b] := by
    unfold reconcile at ha hb
    obtain ⟨s, -, rfl⟩ := List.mem_map.mp ha
    obtain ⟨s', -, rfl⟩ := List.mem_map.mp hb
    simp only [reconcile, List.map_cons, List.map_nil, minList, maxList, List.foldl_cons,
      List.foldl_nil, min_self, max_self]
    rw [uniqueQ_of_pairwise_lt _ ((uniqueQ_pairwise s.spikes).filter _),
      uniqueQ_of_pairwise_lt _ ((uniqueQ_pairwise s'.spikes).filter _), List.filter_filter,
      List.filter_filter]
    simp
  unfold reconcileBi
  rw [key]

theorem B5_orderValues_of_mem (kw : Kw) (L : List Train) (a b : Train) (ha : a ∈ reconcile L)
    (hb : b ∈ reconcile L) :
    orderValues kw a b = (orderProfileBi kw.noRecon a b).integralAll := by
  unfold orderValues orderProfileBi prepBi
  simp only [if_true, B5_reconcileBi_of_mem L a b ha hb]
  rfl

/-- **spike-train order, multivariate** (with reconciliation, the default): the value is the ratio
    of the integral of the multivariate spike-train-order profile -/
theorem spikeTrainOrderMulti_eq_ratio_profile (kw : Kw) (L : List Train) (hr : kw.recon = true)
    (h2 : 2 ≤ L.length) :
    spikeTrainOrderMulti kw none L = syncRatio ((orderProfileMulti kw none L).integralAll) := by
  rw [B5_orderProfileMulti_integralAll kw L h2]
  have hprep : prep kw L = reconcile L := by simp [prep, hr]
  have hc : ∀ p ∈ pairsOf (List.range (prep kw L).length),
      orderValues kw (tr (prep kw L) p.1) (tr (prep kw L) p.2) =
        (orderProfileBi kw.noRecon (tr (prep kw L) p.1) (tr (prep kw L) p.2)).integralAll := by
    intro p hp
    obtain ⟨m1, m2⟩ := B5_pair_mem _ p hp
    rw [hprep] at m1 m2 ⊢
    exact B5_orderValues_of_mem kw L _ _ m1 m2
  show syncRatio ((pairsOf (List.range (prep kw L).length)).foldl (fun acc p =>
      (acc.1 + (orderValues kw (tr (prep kw L) p.1) (tr (prep kw L) p.2)).1,
       acc.2 + (orderValues kw (tr (prep kw L) p.1) (tr (prep kw L) p.2)).2)) ((0 : Q), (0 : Q)))
    = _
  congr 1
  rw [B5_foldl_pair_sum (fun p : Nat × Nat =>
    orderValues kw (tr (prep kw L) p.1) (tr (prep kw L) p.2))]
  simp only [zero_add]
  have e1 : (pairsOf (List.range (prep kw L).length)).map (fun p =>
        (orderValues kw (tr (prep kw L) p.1) (tr (prep kw L) p.2)).1) =
      (pairsOf (List.range (prep kw L).length)).map (fun p =>
        (orderProfileBi kw.noRecon (tr (prep kw L) p.1) (tr (prep kw L) p.2)).integralAll.1) :=
    List.map_congr_left (fun p hp => by rw [hc p hp])
  have e2 : (pairsOf (List.range (prep kw L).length)).map (fun p =>
        (orderValues kw (tr (prep kw L) p.1) (tr (prep kw L) p.2)).2) =
      (pairsOf (List.range (prep kw L).length)).map (fun p =>
        (orderProfileBi kw.noRecon (tr (prep kw L) p.1) (tr (prep kw L) p.2)).integralAll.2) :=
    List.map_congr_left (fun p hp => by rw [hc p hp])
  rw [e1, e2]

example : ({ } : Kw).recon = true ∧ 2 ≤ B5_exL.length := by decide

/-! ## valid trains with common edges are not changed by reconciliation: the ISI results hold for
    every `kw` (with or without `reconcile`) -/

theorem B5_recEps_pos : (0 : Q) < recEps := by unfold recEps; norm_num

theorem B5_reconcile_valid (ts te : Q) (L : List Train) (hv : B5_ValidList ts te L)
    (hne : L ≠ []) : reconcile L = L := by
  have hS : minList 0 (L.map (·.ts)) = ts := by
    cases L with
    | nil => exact absurd rfl hne
    | cons a r =>
      have hm := (B5_foldl_min_spec (r.map (·.ts)) a.ts).1
      have : ∀ x ∈ a.ts :: r.map (·.ts), x = ts := by
        intro x hx
        rw [← List.map_cons (f := fun s : Train => s.ts)] at hx
        obtain ⟨s, hs, rfl⟩ := List.mem_map.mp hx
        exact (hv s hs).2.1
      exact this _ hm
  have hE : maxList 0 (L.map (·.te)) = te := by
    cases L with
    | nil => exact absurd rfl hne
    | cons a r =>
      have hm := (B5_foldl_max_spec (r.map (·.te)) a.te).1
      have : ∀ x ∈ a.te :: r.map (·.te), x = te := by
        intro x hx
        rw [← List.map_cons (f := fun s : Train => s.te)] at hx
        obtain ⟨s, hs, rfl⟩ := List.mem_map.mp hx
        exact (hv s hs).2.2
      exact this _ hm
  unfold reconcile
  simp only [hS, hE]
  conv_rhs => rw [← List.map_id L]
  apply List.map_congr_left
  intro s hs
  obtain ⟨⟨-, hsort, hb⟩, h1, h2⟩ := hv s hs
  rw [uniqueQ_of_pairwise_lt _ hsort]
  have hf : s.spikes.filter (fun t => decide (t > ts - recEps ∧ t < te + recEps)) = s.spikes := by
    apply List.filter_eq_self.mpr
    intro x hx
    have := hb x hx
    have he := B5_recEps_pos
    rw [h1, h2] at this
    simp only [gt_iff_lt, decide_eq_true_eq]
    constructor <;> linarith [this.1, this.2]
  rw [hf]
  cases s
  simp only [id] at h1 h2 ⊢
  rw [h1, h2]

theorem B5_prep_valid (kw : Kw) (ts te : Q) (L : List Train) (hv : B5_ValidList ts te L)
    (hne : L ≠ []) : prep kw L = L := by
  unfold prep
  split
  · exact B5_reconcile_valid ts te L hv hne
  · rfl

theorem B5_prepBi_valid (kw : Kw) (a b : Train) (ha : ValidTrain a) (hb : ValidTrain b)
    (hts : b.ts = a.ts) (hte : b.te = a.te) : prepBi kw a b = (a, b) := by
  unfold prepBi
  split
  · have : reconcile [a, b] = [a, b] := by
      apply B5_reconcile_valid a.ts a.te _ _ (by simp)
      intro s hs
      simp only [List.mem_cons, List.not_mem_nil, or_false] at hs
      rcases hs with rfl | rfl
      · exact ⟨ha, rfl, rfl⟩
      · exact ⟨hb, hts, hte⟩
    unfold reconcileBi
    rw [this]
  · rfl

/-- for valid trains with common edges the reconciling and the non-reconciling call agree -/
theorem B5_isiProfileBi_valid (kw : Kw) (a b : Train) (ha : ValidTrain a) (hb : ValidTrain b)
    (hts : b.ts = a.ts) (hte : b.te = a.te) :
    isiProfileBi kw a b = isiProfileBi kw.noRecon a b := by
  unfold isiProfileBi
  rw [B5_prepBi_valid kw a b ha hb hts hte, prepBi_noRecon]
  rfl

theorem B5_isiProfileBi_valid_pair (kw : Kw) (L : List Train) (ts te : Q)
    (hv : B5_ValidList ts te L) : ∀ p ∈ pairsOf (List.range L.length),
      isiProfileBi kw.noRecon (tr L p.1) (tr L p.2) = isiProfileBi kw (tr L p.1) (tr L p.2) := by
  intro p hp
  obtain ⟨h1, h2⟩ := B5_pair_mem L p hp
  obtain ⟨v1, s1, e1⟩ := hv _ h1
  obtain ⟨v2, s2, e2⟩ := hv _ h2
  exact (B5_isiProfileBi_valid kw _ _ v1 v2 (s2.trans s1.symm) (e2.trans e1.symm)).symm

theorem B5_ne_nil_of_two {α} {L : List α} (h : 2 ≤ L.length) : L ≠ [] := by
  intro h0; rw [h0] at h; simp at h

/-- **ISI multivariate profile = mean of the pair profiles, for every `kw`** -/
theorem isiProfileMulti_evalR_eq_mean_anyRecon (kw : Kw) (L : List Train) (ts te t : Q)
    (hv : B5_ValidList ts te L) (h2 : 2 ≤ L.length) (ht0 : ts ≤ t) (ht1 : t < te) :
    (isiProfileMulti kw none L).evalR t =
      some (qsum ((pairsOf (List.range L.length)).map fun p =>
          ((isiProfileBi kw (tr L p.1) (tr L p.2)).evalR t).getD 0)
        / ((pairsOf (List.range L.length)).length : Q)) := by
  have h := (isiProfileMulti_evalR_eq_mean kw.noRecon L ts te t rfl hv h2 ht0 ht1).1
  have e : isiProfileMulti kw none L = isiProfileMulti kw.noRecon none L := by
    unfold isiProfileMulti
    rw [B5_prep_valid kw ts te L hv (B5_ne_nil_of_two h2)]
    rfl
  rw [e, h]
  congr 3
  apply List.map_congr_left
  intro p hp
  rw [B5_isiProfileBi_valid_pair kw L ts te hv p hp]

/-- **multivariate ISI distance = average of the multivariate ISI profile, for every `kw`**
    (interval = None) -/
theorem isiDistanceMulti_eq_avrg_profile_anyRecon (kw : Kw) (L : List Train) (ts te : Q)
    (hi : kw.interval = none) (hv : B5_ValidList ts te L) (h2 : 2 ≤ L.length) :
    isiDistanceMulti kw none L = some ((isiProfileMulti kw none L).avrgAll) := by
  have h := isiDistanceMulti_eq_avrg_profile kw.noRecon L ts te rfl hi hv h2
  have e : isiProfileMulti kw none L = isiProfileMulti kw.noRecon none L := by
    unfold isiProfileMulti
    rw [B5_prep_valid kw ts te L hv (B5_ne_nil_of_two h2)]
    rfl
  have e' : isiDistanceMulti kw none L = isiDistanceMulti kw.noRecon none L := by
    unfold isiDistanceMulti
    rw [B5_prep_valid kw ts te L hv (B5_ne_nil_of_two h2)]
    rfl
  rw [e, e', h]

example : ({ } : Kw).interval = none ∧ B5_ValidList 0 6 B5_exV ∧ 2 ≤ B5_exV.length :=
  ⟨rfl, B5_exV_valid, by decide⟩

/-- the multivariate ISI profile as the scaled LEFT FOLD of the pair profiles (uses associativity of
    `Pwc.add` on well-formed profiles on `[ts, te]`; the results above do not need it) -/
theorem B5_isiProfileMulti_eq_fold (kw : Kw) (L : List Train) (ts te : Q)
    (hr : kw.recon = false) (hv : B5_ValidList ts te L)
    (p : Nat × Nat) (ps : List (Nat × Nat)) (hp : pairsOf (List.range L.length) = p :: ps) :
    isiProfileMulti kw none L =
      ((ps.map fun q => isiProfileBi kw (tr L q.1) (tr L q.2)).foldl Pwc.add
        (isiProfileBi kw (tr L p.1) (tr L p.2))).mulScalar (1 / ((ps.length + 1 : Nat) : Q)) := by
  have hleaf := B5_isi_leaf_on kw L ts te hr hv
  unfold isiProfileMulti
  simp only [prep_of_recon_false kw L hr, resolveIdx, Kw.noRecon_eq kw hr]
  rw [genericProfileMulti_snd, hp]
  rw [(divideAndConquer_eq_fold_on Pwc.add (fun q => isiProfileBi kw (tr L q.1) (tr L q.2))
    (B5_PwcOn ts te) (fun _ _ => B5_PwcOn.add)
    (fun a b c ha hb hc => Pwc.add_assoc ha.1 hb.1 hc.1 (ha.2.1.trans hb.2.1.symm)
      (ha.2.2.trans hb.2.2.symm) (hb.2.1.trans hc.2.1.symm) (hb.2.2.trans hc.2.2.symm))
    (List.range L.length) hleaf p ps hp).1]
  rfl

end PySpike
