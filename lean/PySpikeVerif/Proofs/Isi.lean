import PySpikeVerif.Spec.Isi
import PySpikeVerif.Proofs.Basic
import Mathlib.Data.List.Basic

namespace PySpike

theorem filter_le_split (c r : List Q) (a t : Q) (hc : ∀ x ∈ c, x ≤ t) (ha : a ≤ t)
    (hr : ∀ x ∈ r, t < x) : (c ++ a :: r).filter (· ≤ t) = c ++ [a] := by
  rw [List.filter_append, List.filter_cons]
  have h1 : c.filter (· ≤ t) = c := List.filter_eq_self.mpr (by simpa using hc)
  have h2 : r.filter (· ≤ t) = [] := List.filter_eq_nil_iff.mpr (by
    intro x hx; simpa using hr x hx)
  simp [h1, h2, ha]

theorem filter_lt_split (c r : List Q) (a t : Q) (hc : ∀ x ∈ c, x ≤ t) (ha : a ≤ t)
    (hr : ∀ x ∈ r, t < x) : (c ++ a :: r).filter (t < ·) = r := by
  rw [List.filter_append, List.filter_cons]
  have h1 : c.filter (t < ·) = [] := List.filter_eq_nil_iff.mpr (by
    intro x hx; simpa using hc x hx)
  have h2 : r.filter (t < ·) = r := List.filter_eq_self.mpr (by simpa using hr)
  simp [h1, h2, not_lt.mpr ha]

theorem nuAt_split (c r : List Q) (a ts te t : Q) (hc : ∀ x ∈ c, x ≤ t) (ha : a ≤ t)
    (hr : ∀ x ∈ r, t < x) : nuAt (c ++ a :: r) ts te t = nuAfter c.getLast? a r te := by
  unfold nuAt
  simp only [filter_le_split c r a t hc ha hr, filter_lt_split c r a t hc ha hr]
  cases r with
  | nil => simp [nuAfter]; cases c.getLast? <;> simp
  | cons f r' => simp [nuAfter]

/-- edge-corrected first interval of a train `a :: r` whose first spike is after `ts` -/
def startNu (a ts : Q) : List Q → Q
  | b :: _ => max (a - ts) (b - a)
  | [] => a - ts

theorem nuAt_before (a : Q) (r : List Q) (ts te t : Q) (h : ∀ x ∈ a :: r, t < x) :
    nuAt (a :: r) ts te t = startNu a ts r := by
  unfold nuAt startNu
  have h1 : (a :: r).filter (· ≤ t) = [] := List.filter_eq_nil_iff.mpr (by
    intro x hx; simpa using h x hx)
  have h2 : (a :: r).filter (t < ·) = a :: r := List.filter_eq_self.mpr (by simpa using h)
  simp only [h1, h2]
  cases r <;> simp

end PySpike

namespace PySpike

/-- invariant of one train during the scan: `c` consumed (all `≤ cur`), `r` remaining (sorted, all
    `> cur`), `p` the last consumed spike, `nu` the carried ISI length = definition on the current
    piece -/
structure TrainInv (s : List Q) (ts te cur : Q) (c r : List Q) (p : Option Q) (nu : Q) : Prop where
  split : s = c ++ r
  cle : ∀ x ∈ c, x ≤ cur
  sorted : r.Pairwise (· < ·)
  rgt : ∀ x ∈ r, cur < x
  plast : p = c.getLast?
  val : ∀ t, cur ≤ t → (∀ x ∈ r, t < x) → nu = nuAt s ts te t

theorem TrainInv.advance {s : List Q} {ts te cur : Q} {c r' : List Q} {p : Option Q} {nu a : Q}
    (h : TrainInv s ts te cur c (a :: r') p nu) :
    TrainInv s ts te a (c ++ [a]) r' (some a) (nuAfter p a r' te) := by
  have hsorted := List.pairwise_cons.mp h.sorted
  refine ⟨by simp [h.split], ?_, hsorted.2, hsorted.1, by simp, ?_⟩
  · intro x hx
    rcases List.mem_append.mp hx with hx | hx
    · exact le_of_lt (lt_of_le_of_lt (h.cle x hx) (h.rgt a (by simp)))
    · simp at hx; rw [hx]
  · intro t hat hr
    rw [h.split, h.plast]
    exact (nuAt_split c r' a ts te t
      (fun x hx => le_trans (le_of_lt (lt_of_le_of_lt (h.cle x hx) (h.rgt a (by simp)))) hat) hat hr).symm

theorem TrainInv.stay {s : List Q} {ts te cur : Q} {c r : List Q} {p : Option Q} {nu a : Q}
    (h : TrainInv s ts te cur c r p nu) (hca : cur ≤ a) (hr : ∀ x ∈ r, a < x) :
    TrainInv s ts te a c r p nu :=
  ⟨h.split, fun x hx => le_trans (h.cle x hx) hca, h.sorted, hr, h.plast,
   fun t hat hrt => h.val t (le_trans hca hat) hrt⟩

theorem head_lt_all {a : Q} {r : List Q} (h : (a :: r).Pairwise (· < ·)) {t : Q} (ht : t < a) :
    ∀ x ∈ a :: r, t < x := by
  intro x hx
  rcases List.mem_cons.mp hx with hx | hx
  · rw [hx]; exact ht
  · exact lt_trans ht ((List.pairwise_cons.mp h).1 x hx)

/-- The scan computes the definition: the value emitted with each event is the defined ISI ratio
    on the whole piece up to the next event (induction over the loop of `isi_distance_python`). -/
theorem isiLoop_ok (s1 s2 : List Q) (ts te m : Q) :
    ∀ (p1 : Option Q) (r1 : List Q) (nu1 : Q) (p2 : Option Q) (r2 : List Q) (nu2 : Q)
      (cur : Q) (c1 c2 : List Q),
      TrainInv s1 ts te cur c1 r1 p1 nu1 → TrainInv s2 ts te cur c2 r2 p2 nu2 →
      EvOK (isiSpec s1 s2 ts te m)
        ((cur, isiVal nu1 nu2 m) :: isiLoop te m p1 r1 nu1 p2 r2 nu2) te := by
  intro p1 r1 nu1 p2 r2 nu2
  induction p1, r1, nu1, p2, r2, nu2 using isiLoop.induct te with
  | case1 p1 nu1 p2 nu2 =>
    intro cur c1 c2 h1 h2
    rw [isiLoop]
    intro t hct _
    unfold isiSpec
    rw [← h1.val t hct (by simp), ← h2.val t hct (by simp)]
  | case2 p1 nu1 p2 nu2 a r1' nu1' ih =>
    intro cur c1 c2 h1 h2
    rw [isiLoop]
    refine ⟨?_, ih a (c1 ++ [a]) c2 h1.advance (h2.stay (le_of_lt (h1.rgt a (by simp))) (by simp))⟩
    intro t hct hta
    unfold isiSpec
    rw [← h1.val t hct (head_lt_all h1.sorted hta), ← h2.val t hct (by simp)]
  | case3 p1 nu1 p2 nu2 b r2' nu2' ih =>
    intro cur c1 c2 h1 h2
    rw [isiLoop]
    refine ⟨?_, ih b c1 (c2 ++ [b]) (h1.stay (le_of_lt (h2.rgt b (by simp))) (by simp)) h2.advance⟩
    intro t hct htb
    unfold isiSpec
    rw [← h1.val t hct (by simp), ← h2.val t hct (head_lt_all h2.sorted htb)]
  | case4 p1 nu1 p2 nu2 a r1' b r2' hab nu1' ih =>
    intro cur c1 c2 h1 h2
    rw [isiLoop, if_pos hab]
    refine ⟨?_, ih a (c1 ++ [a]) c2 h1.advance
      (h2.stay (le_of_lt (h1.rgt a (by simp))) (head_lt_all h2.sorted hab))⟩
    intro t hct hta
    unfold isiSpec
    rw [← h1.val t hct (head_lt_all h1.sorted hta),
        ← h2.val t hct (head_lt_all h2.sorted (lt_trans hta hab))]
  | case5 p1 nu1 p2 nu2 a r1' b r2' hab hba nu2' ih =>
    intro cur c1 c2 h1 h2
    rw [isiLoop, if_neg hab, if_pos hba]
    refine ⟨?_, ih b c1 (c2 ++ [b])
      (h1.stay (le_of_lt (h2.rgt b (by simp))) (head_lt_all h1.sorted hba)) h2.advance⟩
    intro t hct htb
    unfold isiSpec
    rw [← h1.val t hct (head_lt_all h1.sorted (lt_trans htb hba)),
        ← h2.val t hct (head_lt_all h2.sorted htb)]
  | case6 p1 nu1 p2 nu2 a r1' b r2' hab hba nu1' nu2' ih =>
    intro cur c1 c2 h1 h2
    rw [isiLoop, if_neg hab, if_neg hba]
    have hEq : a = b := le_antisymm (not_lt.mp hba) (not_lt.mp hab)
    have h2' := h2.advance
    rw [← hEq] at h2'
    refine ⟨?_, ih a (c1 ++ [a]) (c2 ++ [a]) h1.advance (by rw [hEq]; rw [hEq] at h2'; exact h2')⟩
    intro t hct hta
    unfold isiSpec
    rw [← h1.val t hct (head_lt_all h1.sorted hta),
        ← h2.val t hct (head_lt_all h2.sorted (by rw [← hEq]; exact hta))]

end PySpike

namespace PySpike

theorem isiInit_inv (s : List Q) (ts te : Q) (hv : ValidNE s ts te) :
    ∃ c, TrainInv s ts te ts c (isiInit s ts te).rest (isiInit s ts te).prev (isiInit s ts te).nu := by
  obtain ⟨hne, hs, hb⟩ := hv
  cases s with
  | nil => exact absurd rfl hne
  | cons a r =>
    unfold isiInit
    by_cases hat : a > ts
    · simp only [hat, if_true]
      refine ⟨[], ⟨by simp, by simp, hs, ?_, by simp, ?_⟩⟩
      · exact head_lt_all hs hat
      · intro t _ hr
        rw [nuAt_before a r ts te t hr]
        cases r <;> rfl
    · simp only [hat, if_false]
      have hats : a = ts := le_antisymm (not_lt.mp hat) (hb a (by simp)).1
      have hsr := List.pairwise_cons.mp hs
      refine ⟨[a], ⟨by simp, by simp [hats], hsr.2, ?_, by simp, ?_⟩⟩
      · intro x hx; rw [← hats]; exact hsr.1 x hx
      · intro t hct hr
        have := nuAt_split [] r a ts te t (by simp) (by rw [hats]; exact hct) hr
        simp only [List.nil_append, List.getLast?_nil] at this
        rw [this]
        cases r <;> simp [nuAfter]

/-- C01, values: on every piece the emitted value is the defined ratio (events form) -/
theorem isiEvents_ok (s1 s2 : List Q) (ts te m : Q)
    (h1 : ValidNE s1 ts te) (h2 : ValidNE s2 ts te) :
    EvOK (isiSpec s1 s2 ts te m) (isiEvents s1 s2 ts te m) te := by
  obtain ⟨c1, i1⟩ := isiInit_inv s1 ts te h1
  obtain ⟨c2, i2⟩ := isiInit_inv s2 ts te h2
  unfold isiEvents
  exact isiLoop_ok s1 s2 ts te m _ _ _ _ _ _ ts c1 c2 i1 i2

/-- piecewise-constant function given by breakpoints `xs` and values `ys` equals `spec` on every
    piece `[xs[k], xs[k+1])` -/
def PwcMatches (spec : Q → Q) (xs ys : List Q) : Prop :=
  ys.length + 1 = xs.length ∧
  ∀ k (hk : k < ys.length) (hk1 : k + 1 < xs.length) (t : Q),
    xs[k]'(by omega) ≤ t → t < xs[k+1] → ys[k] = spec t

theorem evOK_matches_append (spec : Q → Q) (evs : List (Q × Q)) (te : Q) (hne : evs ≠ [])
    (h : EvOK spec evs te) :
    PwcMatches spec (evs.map (·.1) ++ [te]) (evs.map (·.2)) := by
  induction evs with
  | nil => exact absurd rfl hne
  | cons e r ih =>
    obtain ⟨a, v⟩ := e
    cases r with
    | nil =>
      refine ⟨by simp, ?_⟩
      intro k hk hk1 t h1 h2
      simp at hk
      subst hk
      simp at h1 h2 ⊢
      exact h t h1 h2
    | cons e2 r2 =>
      obtain ⟨b, w⟩ := e2
      obtain ⟨hhead, htail⟩ := h
      have := ih (by simp) htail
      refine ⟨by simp, ?_⟩
      intro k hk hk1 t h1 h2
      cases k with
      | zero => simp at h1 h2 ⊢; exact hhead t h1 h2
      | succ k' =>
        simp at h1 h2 ⊢
        exact this.2 k' (by simp at hk ⊢; omega) (by simp at hk1 ⊢; omega) t (by simpa using h1) (by simpa using h2)

end PySpike

namespace PySpike

theorem pwcMatches_dropLast (spec : Q → Q) (xs ys : List Q) (te : Q) (hne : xs ≠ [])
    (h : PwcMatches spec (xs ++ [te]) ys) : PwcMatches spec xs ys.dropLast := by
  obtain ⟨hl, hv⟩ := h
  have hlen : ys.length = xs.length := by simp at hl; omega
  have hpos : 0 < xs.length := List.length_pos_iff.mpr hne
  refine ⟨by simp; omega, ?_⟩
  intro k hk hk1 t h1 h2
  simp at hk
  have := hv k (by omega) (by simp; omega) t
    (by rw [List.getElem_append_left (by omega)]; exact h1)
    (by rw [List.getElem_append_left (by omega)]; exact h2)
  rw [List.getElem_dropLast]
  exact this

theorem isiLoop_times (te m : Q) :
    ∀ (p1 : Option Q) (r1 : List Q) (nu1 : Q) (p2 : Option Q) (r2 : List Q) (nu2 : Q),
      r1.Pairwise (· < ·) → r2.Pairwise (· < ·) →
      ((isiLoop te m p1 r1 nu1 p2 r2 nu2).map (·.1)).Pairwise (· < ·) ∧
      ∀ x, x ∈ (isiLoop te m p1 r1 nu1 p2 r2 nu2).map (·.1) ↔ x ∈ r1 ∨ x ∈ r2 := by
  intro p1 r1 nu1 p2 r2 nu2
  induction p1, r1, nu1, p2, r2, nu2 using isiLoop.induct te with
  | case1 p1 nu1 p2 nu2 => intro _ _; rw [isiLoop]; simp
  | case2 p1 nu1 p2 nu2 a r1' nu1' ih =>
    intro h1 h2
    rw [isiLoop]
    have h1' := List.pairwise_cons.mp h1
    obtain ⟨ihs, ihm⟩ := ih h1'.2 h2
    refine ⟨?_, ?_⟩
    · simp only [List.map_cons, List.pairwise_cons]
      refine ⟨?_, ihs⟩
      intro x hx
      rcases (ihm x).mp hx with hx | hx
      · exact h1'.1 x hx
      · simp at hx
    · intro x; simp only [List.map_cons, List.mem_cons]; rw [ihm x]; simp
  | case3 p1 nu1 p2 nu2 b r2' nu2' ih =>
    intro h1 h2
    rw [isiLoop]
    have h2' := List.pairwise_cons.mp h2
    obtain ⟨ihs, ihm⟩ := ih h1 h2'.2
    refine ⟨?_, ?_⟩
    · simp only [List.map_cons, List.pairwise_cons]
      refine ⟨?_, ihs⟩
      intro x hx
      rcases (ihm x).mp hx with hx | hx
      · simp at hx
      · exact h2'.1 x hx
    · intro x; simp only [List.map_cons, List.mem_cons]; rw [ihm x]; simp
  | case4 p1 nu1 p2 nu2 a r1' b r2' hab nu1' ih =>
    intro h1 h2
    rw [isiLoop, if_pos hab]
    have h1' := List.pairwise_cons.mp h1
    obtain ⟨ihs, ihm⟩ := ih h1'.2 h2
    refine ⟨?_, ?_⟩
    · simp only [List.map_cons, List.pairwise_cons]
      refine ⟨?_, ihs⟩
      intro x hx
      rcases (ihm x).mp hx with hx | hx
      · exact h1'.1 x hx
      · exact head_lt_all h2 hab x hx
    · intro x; simp only [List.map_cons, List.mem_cons]; rw [ihm x]
      simp only [List.mem_cons]; tauto
  | case5 p1 nu1 p2 nu2 a r1' b r2' hab hba nu2' ih =>
    intro h1 h2
    rw [isiLoop, if_neg hab, if_pos hba]
    have h2' := List.pairwise_cons.mp h2
    obtain ⟨ihs, ihm⟩ := ih h1 h2'.2
    refine ⟨?_, ?_⟩
    · simp only [List.map_cons, List.pairwise_cons]
      refine ⟨?_, ihs⟩
      intro x hx
      rcases (ihm x).mp hx with hx | hx
      · exact head_lt_all h1 hba x hx
      · exact h2'.1 x hx
    · intro x; simp only [List.map_cons, List.mem_cons]; rw [ihm x]
      simp only [List.mem_cons]; tauto
  | case6 p1 nu1 p2 nu2 a r1' b r2' hab hba nu1' nu2' ih =>
    intro h1 h2
    rw [isiLoop, if_neg hab, if_neg hba]
    have hEq : a = b := le_antisymm (not_lt.mp hba) (not_lt.mp hab)
    have h1' := List.pairwise_cons.mp h1
    have h2' := List.pairwise_cons.mp h2
    obtain ⟨ihs, ihm⟩ := ih h1'.2 h2'.2
    refine ⟨?_, ?_⟩
    · simp only [List.map_cons, List.pairwise_cons]
      refine ⟨?_, ihs⟩
      intro x hx
      rcases (ihm x).mp hx with hx | hx
      · exact h1'.1 x hx
      · rw [hEq]; exact h2'.1 x hx
    · intro x; simp only [List.map_cons, List.mem_cons]; rw [ihm x]
      rw [hEq]; tauto

theorem isiInit_rest (s : List Q) (ts te : Q) (hv : ValidNE s ts te) :
    (isiInit s ts te).rest.Pairwise (· < ·) ∧
    ∀ x, x ∈ (isiInit s ts te).rest ↔ x ∈ s ∧ ts < x := by
  obtain ⟨hne, hs, hb⟩ := hv
  cases s with
  | nil => exact absurd rfl hne
  | cons a r =>
    unfold isiInit
    have hsr := List.pairwise_cons.mp hs
    by_cases hat : a > ts
    · simp only [hat, if_true]
      refine ⟨hs, fun x => ⟨fun hx => ⟨hx, head_lt_all hs hat x hx⟩, fun hx => hx.1⟩⟩
    · simp only [hat, if_false]
      have hats : a = ts := le_antisymm (not_lt.mp hat) (hb a (by simp)).1
      refine ⟨hsr.2, fun x => ⟨fun hx => ⟨by simp [hx], by rw [← hats]; exact hsr.1 x hx⟩, ?_⟩⟩
      rintro ⟨hx, hlt⟩
      rcases List.mem_cons.mp hx with hx | hx
      · rw [hx, hats] at hlt; exact absurd hlt (lt_irrefl _)
      · exact hx

end PySpike

namespace PySpike

theorem isiEvents_ne (s1 s2 : List Q) (ts te m : Q) : isiEvents s1 s2 ts te m ≠ [] := by
  unfold isiEvents; simp

theorem isiProfile_matches (s1 s2 : List Q) (ts te m : Q)
    (h1 : ValidNE s1 ts te) (h2 : ValidNE s2 ts te) :
    PwcMatches (isiSpec s1 s2 ts te m) (isiProfile s1 s2 ts te m).1 (isiProfile s1 s2 ts te m).2 := by
  have hev := isiEvents_ok s1 s2 ts te m h1 h2
  have hm := evOK_matches_append _ _ te (isiEvents_ne s1 s2 ts te m) hev
  unfold isiProfile finishPwc
  split
  · exact pwcMatches_dropLast _ _ _ te (by simp [isiEvents_ne]) hm
  · exact hm

/-- times of the events: `ts`, then every spike of either train after `ts`, strictly increasing -/
theorem isiEvents_times (s1 s2 : List Q) (ts te m : Q)
    (h1 : ValidNE s1 ts te) (h2 : ValidNE s2 ts te) :
    ((isiEvents s1 s2 ts te m).map (·.1)).Pairwise (· < ·) ∧
    ∀ x, x ∈ (isiEvents s1 s2 ts te m).map (·.1) ↔
      x = ts ∨ (ts < x ∧ (x ∈ s1 ∨ x ∈ s2)) := by
  obtain ⟨r1s, r1m⟩ := isiInit_rest s1 ts te h1
  obtain ⟨r2s, r2m⟩ := isiInit_rest s2 ts te h2
  obtain ⟨ls, lm⟩ := isiLoop_times te m (isiInit s1 ts te).prev _ (isiInit s1 ts te).nu
    (isiInit s2 ts te).prev _ (isiInit s2 ts te).nu r1s r2s
  unfold isiEvents
  simp only [List.map_cons, List.pairwise_cons, List.mem_cons]
  refine ⟨⟨?_, ls⟩, ?_⟩
  · intro x hx
    rcases (lm x).mp hx with hx | hx
    · exact ((r1m x).mp hx).2
    · exact ((r2m x).mp hx).2
  · intro x
    rw [lm x, r1m x, r2m x]
    tauto

theorem getLast?_eq_some_of_sorted_max (l : List Q) (te : Q) (hs : l.Pairwise (· < ·))
    (hb : ∀ x ∈ l, x ≤ te) (hne : l ≠ []) :
    (l.getLast? = some te) ∨ (∀ x ∈ l, x < te) := by
  by_cases h : te ∈ l
  · left
    rw [List.getLast?_eq_some_getLast hne]
    congr 1
    apply le_antisymm (hb _ (List.getLast_mem hne))
    -- te ∈ l and l sorted: te ≤ last
    rcases List.mem_iff_append.mp h with ⟨u, v, huv⟩
    cases v with
    | nil => subst huv; simp
    | cons w v' =>
      subst huv
      have : te < (u ++ te :: w :: v').getLast hne := by
        have hp := (List.pairwise_append.mp hs).2.1
        have := (List.pairwise_cons.mp hp).1
        apply this
        rw [List.getLast_append_of_ne_nil _ (by simp)]
        rw [List.getLast_cons (List.cons_ne_nil w v')]
        exact List.getLast_mem _
      exact le_of_lt this
  · right
    intro x hx
    exact lt_of_le_of_ne (hb x hx) (fun hxe => h (hxe ▸ hx))

end PySpike

namespace PySpike

/-- C01, breakpoints: strictly increasing, and exactly the two edges plus every spike time of
    either train strictly inside the interval -/
theorem isiProfile_breaks (s1 s2 : List Q) (ts te m : Q) (hlt : ts < te)
    (h1 : ValidNE s1 ts te) (h2 : ValidNE s2 ts te) :
    ((isiProfile s1 s2 ts te m).1).Pairwise (· < ·) ∧
    ∀ x, x ∈ (isiProfile s1 s2 ts te m).1 ↔
      x = ts ∨ x = te ∨ (ts < x ∧ x < te ∧ (x ∈ s1 ∨ x ∈ s2)) := by
  obtain ⟨hs, hm⟩ := isiEvents_times s1 s2 ts te m h1 h2
  have hne : (isiEvents s1 s2 ts te m).map (·.1) ≠ [] := by simp [isiEvents_ne]
  have hb : ∀ x ∈ (isiEvents s1 s2 ts te m).map (·.1), x ≤ te := by
    intro x hx
    rcases (hm x).mp hx with hx | ⟨_, hx | hx⟩
    · rw [hx]; exact le_of_lt hlt
    · exact (h1.2.2 x hx).2
    · exact (h2.2.2 x hx).2
  unfold isiProfile finishPwc
  rcases getLast?_eq_some_of_sorted_max _ te hs hb hne with hl | hl
  · have hl' : ((isiEvents s1 s2 ts te m).getLast?.map (·.1)) = some te := by
      rw [← List.getLast?_map]; exact hl
    rw [if_pos hl']
    refine ⟨hs, ?_⟩
    intro x
    have hte : te ∈ (isiEvents s1 s2 ts te m).map (·.1) := List.mem_of_getLast? hl
    constructor
    · intro hx
      rcases (hm x).mp hx with hx' | ⟨hx1, hx2⟩
      · exact Or.inl hx'
      · rcases lt_or_eq_of_le (hb x hx) with hlt' | heq
        · exact Or.inr (Or.inr ⟨hx1, hlt', hx2⟩)
        · exact Or.inr (Or.inl heq)
    · rintro (hx | hx | ⟨hx1, _, hx2⟩)
      · exact (hm x).mpr (Or.inl hx)
      · rw [hx]; exact hte
      · exact (hm x).mpr (Or.inr ⟨hx1, hx2⟩)
  · have hl' : ¬ ((isiEvents s1 s2 ts te m).getLast?.map (·.1)) = some te := by
      rw [← List.getLast?_map]
      intro hc
      exact absurd (hl te (List.mem_of_getLast? hc)) (lt_irrefl _)
    rw [if_neg hl']
    refine ⟨?_, ?_⟩
    · rw [List.pairwise_append]
      refine ⟨hs, by simp, ?_⟩
      intro x hx y hy
      simp at hy; rw [hy]; exact hl x hx
    · intro x
      simp only [List.mem_append, List.mem_singleton]
      constructor
      · rintro (hx | hx)
        · rcases (hm x).mp hx with hx' | ⟨hx1, hx2⟩
          · exact Or.inl hx'
          · exact Or.inr (Or.inr ⟨hx1, hl x hx, hx2⟩)
        · exact Or.inr (Or.inl hx)
      · rintro (hx | hx | ⟨hx1, _, hx2⟩)
        · exact Or.inl ((hm x).mpr (Or.inl hx))
        · exact Or.inr hx
        · exact Or.inl ((hm x).mpr (Or.inr ⟨hx1, hx2⟩))

end PySpike
