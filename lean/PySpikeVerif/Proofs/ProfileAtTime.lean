/-
  Proofs/ProfileAtTime.lean — work package C4, part A (property C17):
  the multivariate SPIKE-Sync profile at a spike time shows the coincidence counts the filter
  `filterBySync` compares with its threshold.
-/
import PySpikeVerif.Spec.Sync
import PySpikeVerif.Spec.Funcs
import PySpikeVerif.Proofs.Basic
import PySpikeVerif.Proofs.TauLaws
import PySpikeVerif.Proofs.SyncScan
import PySpikeVerif.Proofs.AddDisc
import PySpikeVerif.Proofs.ApiLaws
import PySpikeVerif.Proofs.MultiLaws
import PySpikeVerif.Proofs.FilterLaws
import PySpikeVerif.Proofs.OrderLaws
import Mathlib.Data.List.Basic
import Mathlib.Algebra.BigOperators.Group.List.Basic
import Mathlib.Tactic.Linarith
import Mathlib.Tactic.Ring

namespace PySpike

/-! ## 1. the interior entries of the bivariate SPIKE-Sync profile -/

theorem C4_frameProfile_interior (ts te : Q) (es : List (Q × Q × Q)) :
    (frameProfile ts te es).tail.dropLast = es := by
  cases es with
  | nil => rfl
  | cons f r =>
    have h : frameProfile ts te (f :: r) = (ts, f.2.1, f.2.2) :: ((f :: r) ++
        [(te, (lastD (f :: r) f).2.1, (lastD (f :: r) f).2.2)]) := rfl
    rw [h, List.tail_cons, List.dropLast_concat]

theorem C4_syncBi_interior (kw : Kw) (a b : Train) (hr : kw.recon = false)
    (ha : StrictSorted a.spikes) (hb : StrictSorted b.spikes) :
    (syncProfileBi kw a b).interior
      = scanSpec 1 1 2 a.spikes b.spikes (trueMax a.ts a.te kw.maxTau) kw.mrts := by
  unfold syncProfileBi Disc.interior
  simp only [prepBi, hr, Bool.false_eq_true, if_false]
  rw [coincProfile_eq_spec _ _ _ _ _ _ ha hb, C4_frameProfile_interior]

theorem C4_scanSpec_times (v1 v2 vt : Q) (s1 s2 : List Q) (tm m : Q) :
    (scanSpec v1 v2 vt s1 s2 tm m).map (·.1) = uniqueQ (s1 ++ s2) := by
  unfold scanSpec
  rw [List.map_map]
  conv_rhs => rw [← List.map_id (uniqueQ (s1 ++ s2))]
  apply List.map_congr_left
  intro x _
  exact B1_entrySpec_fst _ _ _ _ _ _ _ _

/-- the invariant carried through the sum of the pair profiles: interior times strictly increasing -/
def C4_Sorted (f : Disc) : Prop := (f.interior.map (·.1)).Pairwise (· < ·)

theorem C4_syncBi_sorted (kw : Kw) (a b : Train) (hr : kw.recon = false)
    (ha : StrictSorted a.spikes) (hb : StrictSorted b.spikes) :
    C4_Sorted (syncProfileBi kw a b) := by
  unfold C4_Sorted
  rw [C4_syncBi_interior kw a b hr ha hb, C4_scanSpec_times]
  exact uniqueQ_sorted _

theorem C4_Sorted_add {f g : Disc} (hf : C4_Sorted f) (hg : C4_Sorted g) : C4_Sorted (f.add g) := by
  unfold C4_Sorted
  rw [Disc.add_interior]
  exact mergeD_sorted _ _ hf hg

theorem C4_add_at {f g : Disc} (hf : C4_Sorted f) (hg : C4_Sorted g) (t : Q) :
    (f.add g).at t = ((f.at t).1 + (g.at t).1, (f.at t).2 + (g.at t).2) := by
  rw [Disc.at_eq, Disc.at_eq, Disc.at_eq, Disc.add_interior, mergeD_atL _ _ hf hg]

/-- reading a list of entries `l.map f` whose time component is the argument -/
theorem C4_atL_map (f : Q → Q × Q × Q) (hf : ∀ x, (f x).1 = x) (t : Q) :
    ∀ l : List Q, atL (l.map f) t = if t ∈ l then ((f t).2.1, (f t).2.2) else (0, 0)
  | [] => by simp [atL_nil]
  | x :: r => by
    rw [List.map_cons, atL_cons, hf x, C4_atL_map f hf t r]
    by_cases hx : x = t
    · subst hx; simp
    · have hx' : ¬ t = x := fun e => hx e.symm
      simp [hx, hx']

/-! ## 2. the per-spike indicator -/

/-- the indicator summed by the filter: 1 iff some spike of train 2 (possibly at the same instant)
    is coincident with spike `t` of train 1; `singleSpec s1 s2 tm m = s1.map (C4_ind s1 s2 tm m)` -/
def C4_ind (s1 s2 : List Q) (tm m t : Q) : Q :=
  if s2.any (fun b => decide (Coinc s1 s2 tm m t b)) then 1 else 0

theorem C4_singleSpec_eq (s1 s2 : List Q) (tm m : Q) :
    singleSpec s1 s2 tm m = s1.map (C4_ind s1 s2 tm m) := rfl

theorem C4_optDiff_pred_pos (s : List Q) (a tm : Q) (htm : 0 < tm) :
    0 < optDiff (predOf s a) (some a) tm := by
  unfold optDiff predOf
  cases h : (s.filter (· < a)).getLast? with
  | none => exact htm
  | some p =>
    have hp := List.mem_of_getLast? h
    simp only [List.mem_filter, decide_eq_true_eq] at hp
    simp only
    linarith [hp.2]

theorem C4_optDiff_succ_pos (s : List Q) (a tm : Q) (htm : 0 < tm) :
    0 < optDiff (some a) (succOf s a) tm := by
  unfold optDiff succOf
  cases h : (s.filter (a < ·)).head? with
  | none => exact htm
  | some p =>
    have hp := List.mem_of_head? h
    simp only [List.mem_filter, decide_eq_true_eq] at hp
    simp only
    linarith [hp.2]

theorem C4_interp_pos {a b : Q} (ha : 0 < a) (hb : 0 < b) (t : Q) : 0 < interp a b t :=
  lt_of_lt_of_le (lt_min ha hb) (interp_ge_min a b t)

/-- the coincidence window of two simultaneous spikes is positive (`0 < true_max`) … -/
theorem C4_tauSpec_self_pos (s1 s2 : List Q) (tm m a : Q) (htm : 0 < tm) :
    0 < tauSpec s1 s2 tm m a a := by
  unfold tauSpec getTau
  have hf : tauFirst (some a) (some a) = true := by simp [tauFirst]
  simp only [hf, if_true]
  have h1 := half_pos (C4_optDiff_pred_pos s1 a tm htm)
  have h2 := half_pos (C4_optDiff_succ_pos s1 a tm htm)
  have h3 := half_pos (C4_optDiff_pred_pos s2 a tm htm)
  have h4 := half_pos (C4_optDiff_succ_pos s2 a tm htm)
  exact lt_min (lt_min (C4_interp_pos h1 h2 _) (C4_interp_pos h4 h3 _)) (half_pos htm)

/-- … so they are coincident -/
theorem C4_Coinc_self (s1 s2 : List Q) (tm m a : Q) (htm : 0 < tm) : Coinc s1 s2 tm m a a := by
  unfold Coinc
  have : qabs (a - a) = 0 := by rw [sub_self]; rfl
  rw [this]
  exact C4_tauSpec_self_pos s1 s2 tm m a htm

/-- coincidence of two spikes at different times does not depend on which train is called first -/
theorem C4_Coinc_swap (s1 s2 : List Q) (tm m a b : Q) (hab : a ≠ b) :
    Coinc s1 s2 tm m a b ↔ Coinc s2 s1 tm m b a := by
  unfold Coinc tauSpec
  rw [qabs_sub_comm, getTau_swap _ _ _ _ a b tm m hab]

theorem C4_ind_self (s1 s2 : List Q) (tm m t : Q) (htm : 0 < tm) (h2 : t ∈ s2) :
    C4_ind s1 s2 tm m t = 1 := by
  unfold C4_ind
  rw [if_pos]
  exact List.any_eq_true.mpr ⟨t, h2, by simpa using C4_Coinc_self s1 s2 tm m t htm⟩

theorem C4_mark1_01 (s1 s2 : List Q) (tm m a : Q) :
    mark1 1 1 s1 s2 tm m a = 0 ∨ mark1 1 1 s1 s2 tm m a = 1 := by
  unfold mark1; split_ifs <;> simp

theorem C4_mark2_01 (s1 s2 : List Q) (tm m b : Q) :
    mark2 1 1 s1 s2 tm m b = 0 ∨ mark2 1 1 s1 s2 tm m b = 1 := by
  unfold mark2; split_ifs <;> simp

/-- the profile value of a spike of train 1 that is not a spike of train 2 is the filter's indicator -/
theorem C4_mark1_eq_ind (s1 s2 : List Q) (tm m t : Q) (h2 : t ∉ s2) :
    mark1 1 1 s1 s2 tm m t = C4_ind s1 s2 tm m t := by
  unfold C4_ind
  by_cases hany : s2.any (fun b => decide (Coinc s1 s2 tm m t b)) = true
  · rw [if_pos hany]
    obtain ⟨b, hb, hc⟩ := List.any_eq_true.mp hany
    simp only [decide_eq_true_eq] at hc
    exact (B1_mark1_eq_one s1 s2 tm m t).mpr ⟨b, hb, fun e => h2 (e ▸ hb), hc⟩
  · rw [if_neg hany]
    rcases C4_mark1_01 s1 s2 tm m t with h | h
    · exact h
    · obtain ⟨b, hb, _, hc⟩ := (B1_mark1_eq_one s1 s2 tm m t).mp h
      exact absurd (List.any_eq_true.mpr ⟨b, hb, by simpa using hc⟩) hany

/-- the profile value of a spike of train 2 that is not a spike of train 1 is the filter's indicator
    of that spike against train 1 -/
theorem C4_mark2_eq_ind (s1 s2 : List Q) (tm m t : Q) (h1 : t ∉ s1) :
    mark2 1 1 s1 s2 tm m t = C4_ind s2 s1 tm m t := by
  unfold C4_ind
  by_cases hany : s1.any (fun a => decide (Coinc s2 s1 tm m t a)) = true
  · rw [if_pos hany]
    obtain ⟨a, ha, hc⟩ := List.any_eq_true.mp hany
    simp only [decide_eq_true_eq] at hc
    have hne : a ≠ t := fun e => h1 (e ▸ ha)
    exact (B1_mark2_eq_one s1 s2 tm m t).mpr ⟨a, ha, hne, (C4_Coinc_swap s1 s2 tm m a t hne).mpr hc⟩
  · rw [if_neg hany]
    rcases C4_mark2_01 s1 s2 tm m t with h | h
    · exact h
    · obtain ⟨a, ha, hne, hc⟩ := (B1_mark2_eq_one s1 s2 tm m t).mp h
      exact absurd (List.any_eq_true.mpr
        ⟨a, ha, by simpa using (C4_Coinc_swap s1 s2 tm m a t hne).mp hc⟩) hany

/-! ## 3. the bivariate profile at a time -/

/-- **1.** the bivariate SPIKE-Sync profile at time `t`: `(2, 2)` if both trains spike at `t`;
    `(indicator, 1)` if exactly one does, the indicator being the one the filter sums
    (`singleSpec`: 1 iff the spike is coincident with a spike of the other train); `(0, 0)` if
    neither does -/
theorem C4_pair_profile_at (kw : Kw) (a b : Train) (hr : kw.recon = false)
    (ha : StrictSorted a.spikes) (hb : StrictSorted b.spikes) (t : Q) :
    (syncProfileBi kw a b).at t =
      if t ∈ a.spikes ∧ t ∈ b.spikes then (2, 2)
      else if t ∈ a.spikes then
        (C4_ind a.spikes b.spikes (trueMax a.ts a.te kw.maxTau) kw.mrts t, 1)
      else if t ∈ b.spikes then
        (C4_ind b.spikes a.spikes (trueMax a.ts a.te kw.maxTau) kw.mrts t, 1)
      else (0, 0) := by
  rw [Disc.at_eq, C4_syncBi_interior kw a b hr ha hb]
  unfold scanSpec
  rw [C4_atL_map _ (fun x => B1_entrySpec_fst _ _ _ _ _ _ _ x)]
  simp only [uniqueQ_mem, List.mem_append]
  by_cases h1 : t ∈ a.spikes <;> by_cases h2 : t ∈ b.spikes
  · simp [entrySpec, h1, h2]
  · simp only [h1, h2, and_false, or_false, if_true, if_false, entrySpec]
    rw [C4_mark1_eq_ind _ _ _ _ _ h2]
  · simp only [h1, h2, false_and, false_or, if_true, if_false, entrySpec]
    rw [C4_mark2_eq_ind _ _ _ _ _ h1]
  · simp [h1, h2]

example : StrictSorted (⟨[1, 3, 4], 0, 6⟩ : Train).spikes ∧ StrictSorted (⟨[2, 3, 6], 0, 6⟩ : Train).spikes := by
  unfold StrictSorted; decide +kernel

/-- contribution of the spike of `s1` at `t` (if any) to the value, resp. multiplicity -/
def C4_val (s1 s2 : List Q) (tm m t : Q) : Q := if t ∈ s1 then C4_ind s1 s2 tm m t else 0
def C4_mul (s1 : List Q) (t : Q) : Q := if t ∈ s1 then 1 else 0

/-- the same in additive form (`0 < true_max`, e.g. `t_start < t_end`): each of the two trains
    contributes its indicator and multiplicity 1 if it spikes at `t` — two simultaneous spikes are
    coincident with each other, so `(2, 2) = (1 + 1, 1 + 1)` -/
theorem C4_pair_profile_at_sum (kw : Kw) (a b : Train) (hr : kw.recon = false)
    (ha : StrictSorted a.spikes) (hb : StrictSorted b.spikes)
    (htm : 0 < trueMax a.ts a.te kw.maxTau) (t : Q) :
    (syncProfileBi kw a b).at t =
      (C4_val a.spikes b.spikes (trueMax a.ts a.te kw.maxTau) kw.mrts t
        + C4_val b.spikes a.spikes (trueMax a.ts a.te kw.maxTau) kw.mrts t,
       C4_mul a.spikes t + C4_mul b.spikes t) := by
  rw [C4_pair_profile_at kw a b hr ha hb t]
  unfold C4_val C4_mul
  by_cases h1 : t ∈ a.spikes <;> by_cases h2 : t ∈ b.spikes
  · simp only [h1, h2, and_self, if_true, C4_ind_self _ _ _ _ _ htm h1,
      C4_ind_self _ _ _ _ _ htm h2]
    norm_num
  · simp [h1, h2]
  · simp [h1, h2]
  · simp [h1, h2]

/-! ## 4. the multivariate profile at a time: sum over the pairs -/

theorem C4_multi_at_pairs (kw : Kw) (L : List Train) (hr : kw.recon = false) (h2 : 2 ≤ L.length)
    (hs : ∀ s ∈ L, StrictSorted s.spikes) (t : Q) :
    (syncProfileMulti kw none L).at t =
      (qsum ((pairsOf (List.range L.length)).map fun p =>
          ((syncProfileBi kw (tr L p.1) (tr L p.2)).at t).1),
       qsum ((pairsOf (List.range L.length)).map fun p =>
          ((syncProfileBi kw (tr L p.1) (tr L p.2)).at t).2)) := by
  unfold syncProfileMulti
  simp only [prep_of_recon_false kw L hr, resolveIdx, Kw.noRecon_eq kw hr]
  have hne := B5_pairs_range_ne_nil h2
  have hleaf : ∀ q ∈ pairsOf (List.range L.length),
      C4_Sorted (syncProfileBi kw (tr L q.1) (tr L q.2)) := by
    intro q hq
    obtain ⟨m1, m2⟩ := B5_pair_mem L q hq
    exact C4_syncBi_sorted kw _ _ hr (hs _ m1) (hs _ m2)
  have h1 := (B5_gpm_sum Disc.add (fun p => syncProfileBi kw (tr L p.1) (tr L p.2)) C4_Sorted
    (fun f => (f.at t).1) (fun _ _ => C4_Sorted_add)
    (fun a b ha hb => by rw [C4_add_at ha hb]) (List.range L.length) hne hleaf).2
  have h2' := (B5_gpm_sum Disc.add (fun p => syncProfileBi kw (tr L p.1) (tr L p.2)) C4_Sorted
    (fun f => (f.at t).2) (fun _ _ => C4_Sorted_add)
    (fun a b ha hb => by rw [C4_add_at ha hb]) (List.range L.length) hne hleaf).2
  exact Prod.ext h1 h2'

/-- `Σ_{i<j} (g i j + g j i) = Σ_i Σ_{j ≠ i} g i j` over the pair list of `generic.py` -/
theorem C4_pairs_sum (g : Nat → Nat → Q) : ∀ (l : List Nat), l.Nodup →
    ((pairsOf l).map fun p => g p.1 p.2 + g p.2 p.1).sum
      = (l.map fun i => ((l.filter (· ≠ i)).map (g i)).sum).sum
  | [], _ => rfl
  | i :: r, hnd => by
    have hi : i ∉ r := (List.nodup_cons.mp hnd).1
    have ih := C4_pairs_sum g r (List.nodup_cons.mp hnd).2
    have h1 : (i :: r).filter (· ≠ i) = r := by
      rw [List.filter_cons]
      simp only [ne_eq, not_true_eq_false, decide_false, Bool.false_eq_true, if_false]
      rw [List.filter_eq_self]
      intro x hx
      simpa using fun e : x = i => hi (e ▸ hx)
    have h2 : ∀ i' ∈ r, (((i :: r).filter (· ≠ i')).map (g i')).sum
        = g i' i + ((r.filter (· ≠ i')).map (g i')).sum := by
      intro i' hi'
      have hne : i ≠ i' := fun e => hi (e ▸ hi')
      rw [List.filter_cons]
      simp [hne]
    rw [pairsOf, List.map_append, List.sum_append, List.map_map, ih, List.map_cons, List.sum_cons,
      h1, List.map_congr_left h2, List.sum_map_add]
    simp only [Function.comp_def]
    rw [List.sum_map_add]
    ring

theorem C4_sum_filter {ι} (p : ι → Prop) [DecidablePred p] (f : ι → Q) : ∀ l : List ι,
    (l.map fun i => if p i then f i else 0).sum = ((l.filter fun i => decide (p i)).map f).sum
  | [] => rfl
  | a :: r => by
    rw [List.map_cons, List.sum_cons, C4_sum_filter p f r, List.filter_cons]
    by_cases h : p a <;> simp [h]

theorem C4_sum_map_zero {ι} (l : List ι) : (l.map fun _ => (0 : Q)).sum = 0 := by
  induction l with
  | nil => rfl
  | cons a r ih => simp

theorem C4_sum_map_const {ι} (l : List ι) (c : Q) : (l.map fun _ => c).sum = (l.length : Q) * c := by
  induction l with
  | nil => simp
  | cons a r ih => simp only [List.map_cons, List.sum_cons, ih, List.length_cons]; push_cast; ring

theorem C4_trueMax_pos (ts te mt : Q) (h : ts < te) : 0 < trueMax ts te mt := by
  unfold trueMax
  split_ifs with hm
  · exact lt_min (by linarith) (by linarith)
  · linarith

/-- the count the filter uses for the spike of train `i` at time `t` -/
def C4_countAt (kw : Kw) (L : List Train) (i : Nat) (t : Q) : Q :=
  (coincCounts kw L i).getD ((tr L i).spikes.idxOf t) 0

/-- the trains spiking at time `t` (as positions in `L`) -/
def C4_trainsAt (L : List Train) (t : Q) : List Nat :=
  (List.range L.length).filter fun i => decide (t ∈ (tr L i).spikes)

/-- the count of the spike of train `i` at `t` is the sum of the indicators against the other trains -/
theorem C4_countAt_eq (kw : Kw) (L : List Train) (ts te : Q)
    (hL : ∀ s ∈ L, s.ts = ts ∧ s.te = te ∧ StrictSorted s.spikes)
    (i : Nat) (hi : i < L.length) (t : Q) (ht : t ∈ (tr L i).spikes) :
    C4_countAt kw L i t = (((List.range L.length).filter (· ≠ i)).map fun j =>
      C4_ind (tr L i).spikes (tr L j).spikes (trueMax ts te kw.maxTau) kw.mrts t).sum := by
  unfold C4_countAt
  rw [coincCounts_eq_sum]
  congr 1
  apply List.map_congr_left
  intro j hj
  have hj' : j < L.length := List.mem_range.mp (List.mem_filter.mp hj).1
  obtain ⟨e1, e2, s1⟩ := hL _ (B5_tr_mem L i hi)
  obtain ⟨_, _, s2⟩ := hL _ (B5_tr_mem L j hj')
  rw [coincSingle_eq_spec _ _ _ _ _ _ s1 s2, e1, e2, C4_singleSpec_eq]
  have hk : (tr L i).spikes.idxOf t < (tr L i).spikes.length := List.idxOf_lt_length_of_mem ht
  rw [List.getD_eq_getElem _ _ (by simpa using hk), List.getElem_map, List.getElem_idxOf]

/-- **2. `profile_at_time`** — N ≥ 2 trains on a common interval `t_start < t_end`, each strictly
    increasing, `Reconcile=False`.  At every time `t` the multivariate SPIKE-Sync profile has
    * multiplicity `|A_t| · (N-1)`, `A_t` = the trains spiking at `t`, and
    * value `Σ_{i ∈ A_t} count_i(t)`, `count_i(t)` = the coincidence count `coincCounts` of the
      spike of train `i` at `t` — the number the filter compares with `threshold · (N-1)`.
    (For a time that is no spike time both are 0.) -/
theorem profile_at_time (kw : Kw) (L : List Train) (ts te : Q) (hr : kw.recon = false)
    (h2 : 2 ≤ L.length) (hlt : ts < te)
    (hL : ∀ s ∈ L, s.ts = ts ∧ s.te = te ∧ StrictSorted s.spikes) (t : Q) :
    (syncProfileMulti kw none L).at t =
      (((C4_trainsAt L t).map fun i => C4_countAt kw L i t).sum,
       ((C4_trainsAt L t).length : Q) * ((L.length : Q) - 1)) := by
  have htm : 0 < trueMax ts te kw.maxTau := C4_trueMax_pos ts te kw.maxTau hlt
  rw [C4_multi_at_pairs kw L hr h2 (fun s hs => (hL s hs).2.2) t, B6_qsum_eq_sum, B6_qsum_eq_sum]
  -- every pair profile in additive form
  have hpair : ∀ p ∈ pairsOf (List.range L.length),
      (syncProfileBi kw (tr L p.1) (tr L p.2)).at t =
        (C4_val (tr L p.1).spikes (tr L p.2).spikes (trueMax ts te kw.maxTau) kw.mrts t
          + C4_val (tr L p.2).spikes (tr L p.1).spikes (trueMax ts te kw.maxTau) kw.mrts t,
         C4_mul (tr L p.1).spikes t + C4_mul (tr L p.2).spikes t) := by
    intro p hp
    obtain ⟨m1, m2⟩ := B5_pair_mem L p hp
    obtain ⟨e1, e2, s1⟩ := hL _ m1
    obtain ⟨_, _, s2⟩ := hL _ m2
    have := C4_pair_profile_at_sum kw (tr L p.1) (tr L p.2) hr s1 s2 (by rw [e1, e2]; exact htm) t
    rw [e1, e2] at this
    exact this
  rw [List.map_congr_left (fun p hp => congrArg Prod.fst (hpair p hp)),
    List.map_congr_left (fun p hp => congrArg Prod.snd (hpair p hp))]
  simp only
  rw [C4_pairs_sum (fun i j => C4_val (tr L i).spikes (tr L j).spikes (trueMax ts te kw.maxTau)
      kw.mrts t) _ List.nodup_range,
    C4_pairs_sum (fun i _ => C4_mul (tr L i).spikes t) _ List.nodup_range]
  apply Prod.ext
  · -- value
    show _ = ((C4_trainsAt L t).map fun i => C4_countAt kw L i t).sum
    unfold C4_trainsAt
    rw [← C4_sum_filter (fun i => t ∈ (tr L i).spikes) (fun i => C4_countAt kw L i t)]
    dsimp only
    congr 1
    apply List.map_congr_left
    intro i hi
    by_cases ht : t ∈ (tr L i).spikes
    · rw [if_pos ht, C4_countAt_eq kw L ts te hL i (List.mem_range.mp hi) t ht]
      simp only [C4_val, if_pos ht]
    · rw [if_neg ht]
      simp only [C4_val, if_neg ht]
      exact C4_sum_map_zero _
  · -- multiplicity
    show _ = ((C4_trainsAt L t).length : Q) * ((L.length : Q) - 1)
    unfold C4_trainsAt
    rw [← C4_sum_map_const, ← C4_sum_filter (fun i => t ∈ (tr L i).spikes)
      (fun _ => (L.length : Q) - 1)]
    dsimp only
    congr 1
    apply List.map_congr_left
    intro i hi
    rw [C4_sum_map_const, B6_range_filter_ne_length _ _ (List.mem_range.mp hi)]
    have hN : ((L.length - 1 : Nat) : Q) = (L.length : Q) - 1 := by
      rw [Nat.cast_sub (by omega)]; simp
    rw [hN]
    unfold C4_mul
    by_cases ht : t ∈ (tr L i).spikes
    · rw [if_pos ht, if_pos ht, mul_one]
    · rw [if_neg ht, if_neg ht, mul_zero]

/-! ### non-vacuity -/

def C4_exL : List Train := [⟨[1, 3, 4], 0, 6⟩, ⟨[2, 3, 6], 0, 6⟩, ⟨[1, 5], 0, 6⟩, ⟨[], 0, 6⟩]

theorem C4_exL_ok : ∀ s ∈ C4_exL, s.ts = 0 ∧ s.te = 6 ∧ StrictSorted s.spikes := by
  intro s hs
  simp only [C4_exL, List.mem_cons, List.not_mem_nil, or_false] at hs
  rcases hs with rfl | rfl | rfl | rfl <;> refine ⟨rfl, rfl, ?_⟩ <;> unfold StrictSorted <;>
    decide +kernel

example : ({ recon := false } : Kw).recon = false ∧ 2 ≤ C4_exL.length ∧ (0 : Q) < 6 ∧
    ∀ s ∈ C4_exL, s.ts = 0 ∧ s.te = 6 ∧ StrictSorted s.spikes :=
  ⟨rfl, by decide, by norm_num, C4_exL_ok⟩

/- at `t = 3` trains 0 and 1 spike (each coincident with the other only): value 1 + 1,
    multiplicity 2 · 3; at `t = 5` only train 2 spikes, coincident with train 1 (spike 6) only:
    value 1, multiplicity 3 -/
example : (syncProfileMulti { recon := false } none C4_exL).at 3 = (2, 6) ∧
    (syncProfileMulti { recon := false } none C4_exL).at 5 = (1, 3) := by
  rw [profile_at_time _ C4_exL 0 6 rfl (by decide) (by norm_num) C4_exL_ok,
    profile_at_time _ C4_exL 0 6 rfl (by decide) (by norm_num) C4_exL_ok]
  decide +kernel
example : C4_trainsAt C4_exL 3 = [0, 1] ∧
    C4_countAt { recon := false } C4_exL 0 3 = 1 ∧ C4_countAt { recon := false } C4_exL 1 3 = 1 ∧
    C4_trainsAt C4_exL 5 = [2] ∧ C4_countAt { recon := false } C4_exL 2 5 = 1 := by
  decide +kernel

/-! ## 5. a spike time of exactly one train -/

theorem C4_trainsAt_single (L : List Train) (t : Q) (i : Nat) (hi : i < L.length)
    (ht : t ∈ (tr L i).spikes) (hother : ∀ j, j < L.length → j ≠ i → t ∉ (tr L j).spikes) :
    C4_trainsAt L t = [i] := by
  unfold C4_trainsAt
  have hc : (List.range L.length).filter (fun j => decide (t ∈ (tr L j).spikes))
      = (List.range L.length).filter (fun j => j == i) := by
    apply List.filter_congr
    intro j hj
    by_cases hji : j = i
    · subst hji; simp [ht]
    · simp [hji, hother j (List.mem_range.mp hj) hji]
  rw [hc, List.filter_beq, List.count_eq_one_of_mem List.nodup_range (List.mem_range.mpr hi)]
  rfl

/-- **2, special case `|A_t| = 1`**: at the time of spike `k` of train `i`, when no other train
    spikes at the same instant, the multivariate SPIKE-Sync profile shows exactly
    `(count, N-1)` — its plotted value `count/(N-1)` is the fraction the filter compares with the
    threshold -/
theorem C4_profile_at_time_single (kw : Kw) (L : List Train) (ts te : Q) (hr : kw.recon = false)
    (h2 : 2 ≤ L.length) (hlt : ts < te)
    (hL : ∀ s ∈ L, s.ts = ts ∧ s.te = te ∧ StrictSorted s.spikes)
    (i : Nat) (hi : i < L.length) (k : Nat) (hk : k < (tr L i).spikes.length)
    (hother : ∀ j, j < L.length → j ≠ i → (tr L i).spikes[k] ∉ (tr L j).spikes) :
    (syncProfileMulti kw none L).at ((tr L i).spikes[k]) =
      ((coincCounts kw L i).getD k 0, (L.length : Q) - 1) := by
  have hs : StrictSorted (tr L i).spikes := (hL _ (B5_tr_mem L i hi)).2.2
  rw [profile_at_time kw L ts te hr h2 hlt hL,
    C4_trainsAt_single L _ i hi (List.getElem_mem hk) hother]
  simp only [List.map_cons, List.map_nil, List.sum_cons, List.sum_nil, add_zero, List.length_cons,
    List.length_nil, C4_countAt]
  rw [(B6_strictSorted_nodup hs).idxOf_getElem k hk]
  norm_num

example : ∀ j, j < C4_exL.length → j ≠ 2 → (tr C4_exL 2).spikes[1]'(by decide) ∉ (tr C4_exL j).spikes := by
  decide +kernel

/-- hence the filter's decision for such a spike can be read off the profile: the spike is kept iff
    the profile value at its time exceeds `threshold ·` the profile multiplicity there -/
theorem C4_filter_keeps_iff_profile_fraction (kw : Kw) (thr : Q) (L : List Train) (ts te : Q)
    (hr : kw.recon = false) (h2 : 2 ≤ L.length) (hlt : ts < te)
    (hL : ∀ s ∈ L, s.ts = ts ∧ s.te = te ∧ StrictSorted s.spikes)
    (i : Nat) (hi : i < L.length) (k : Nat) (hk : k < (tr L i).spikes.length)
    (hother : ∀ j, j < L.length → j ≠ i → (tr L i).spikes[k] ∉ (tr L j).spikes) :
    (tr L i).spikes[k] ∈ (tr (filterBySync kw thr L).1 i).spikes ↔
      ((syncProfileMulti kw none L).at ((tr L i).spikes[k])).1
        > thr * ((syncProfileMulti kw none L).at ((tr L i).spikes[k])).2 := by
  rw [C4_profile_at_time_single kw L ts te hr h2 hlt hL i hi k hk hother]
  exact filter_keep_iff kw thr L hr i hi (hL _ (B5_tr_mem L i hi)).2.2 k hk

end PySpike
