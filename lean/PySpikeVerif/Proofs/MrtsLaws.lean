/-
  Proofs/MrtsLaws.lean — work package C5 (property C15): MRTS at profile level and the pooled
  ISI list of `MRTS='auto'`.
-/
import PySpikeVerif.Spec.IsiList
import PySpikeVerif.Spec.Sync
import PySpikeVerif.Proofs.Basic
import PySpikeVerif.Proofs.IsiLaws
import PySpikeVerif.Proofs.TauLaws
import PySpikeVerif.Proofs.SyncScan
import PySpikeVerif.Proofs.SpikeScan
import PySpikeVerif.Proofs.FuncLaws
import Mathlib.Data.List.Basic
import Mathlib.Data.List.Forall2
import Mathlib.Tactic.Linarith
import Mathlib.Tactic.Positivity

namespace PySpike

/-! ## 4. the pooled ISI list -/

theorem C5_zip_diffs : ∀ s : List Q, ((s.zip s.tail).map fun p => p.2 - p.1) = C5_diffs s
  | [] => rfl
  | [_] => rfl
  | a :: b :: r => by
    have ih := C5_zip_diffs (b :: r)
    simp only [List.tail_cons] at ih
    simp only [List.tail_cons, List.zip_cons_cons, List.map_cons, C5_diffs, ih]

theorem C5_diffs_length : ∀ s : List Q, (C5_diffs s).length = s.length - 1
  | [] => rfl
  | [_] => rfl
  | a :: b :: r => by
    have ih := C5_diffs_length (b :: r)
    simp only [C5_diffs, List.length_cons] at ih ⊢
    omega

/-- the last difference is `s[-1] - s[-2]` -/
theorem C5_diffs_snoc : ∀ (b c : Q) (r : List Q) (d : Q),
    C5_diffs (b :: c :: r) =
      (C5_diffs (b :: c :: r)).dropLast ++
        [lastD (b :: c :: r) d - ((b :: c :: r).dropLast.getLast?.getD d)]
  | b, c, [], d => by simp [C5_diffs, lastD]
  | b, c, e :: r, d => by
    have ih := C5_diffs_snoc c e r d
    have hne : C5_diffs (c :: e :: r) ≠ [] := by simp [C5_diffs]
    have h1 : C5_diffs (b :: c :: e :: r) = (c - b) :: C5_diffs (c :: e :: r) := rfl
    have h2 : lastD (b :: c :: e :: r) d = lastD (c :: e :: r) d := rfl
    have h3 : (b :: c :: e :: r).dropLast.getLast? = (c :: e :: r).dropLast.getLast? := by
      simp [List.dropLast, List.getLast?_cons_cons]
    rw [h1, h2, h3, List.dropLast_cons_of_ne_nil hne, List.cons_append, ← ih]

theorem C5_lastD_eq_getLast? : ∀ (s : List Q) (a d : Q), (a :: s).getLast? = some (lastD (a :: s) d)
  | [], a, d => rfl
  | b :: r, a, d => by
    have ih := C5_lastD_eq_getLast? r b d
    rw [List.getLast?_cons_cons, ih]
    rfl

theorem C5_endEdge_cons_cons (a b : Q) (r : List Q) (te : Q) :
    C5_endEdge (a :: b :: r) te =
      max (te - lastD (a :: b :: r) a)
        (lastD (a :: b :: r) a - (a :: b :: r).dropLast.getLast?.getD a) := by
  unfold C5_endEdge
  have h1 := C5_lastD_eq_getLast? (b :: r) a a
  have h2 : (a :: b :: r).dropLast = a :: (b :: r).dropLast := rfl
  have h3 := C5_lastD_eq_getLast? (b :: r).dropLast a a
  rw [h1, h2, h3]
  rfl

theorem C5_isiLengths_eq_spec (s : List Q) (ts te : Q)
    (hb : ∀ x ∈ s, ts ≤ x ∧ x ≤ te) (hF : ¬ F7class s ts te) :
    isiLengths s ts te = isiListSpec s ts te := by
  match s, hb, hF with
  | [], _, _ => rfl
  | [a], hb, hF =>
    have ha := hb a (List.mem_singleton_self a)
    have h1 : ts < a := lt_of_le_of_ne ha.1 (fun e => hF (Or.inl ⟨rfl, Or.inl (by rw [e])⟩))
    have h2 : a < te := lt_of_le_of_ne ha.2 (fun e => hF (Or.inl ⟨rfl, Or.inr (by rw [e])⟩))
    simp [isiLengths, isiListSpec, lastD, h1, h2, C5_diffs, C5_startEdge, C5_endEdge]
  | a :: b :: r, hb, hF =>
    have ha := hb a (List.mem_cons_self)
    have hl := hb (lastD (a :: b :: r) a) (by
      have := C5_lastD_eq_getLast? (b :: r) a a
      exact List.mem_of_getLast? this)
    have hN : r.length + 1 + 1 > 1 := by omega
    have hlen : (C5_diffs (a :: b :: r)).length = r.length + 1 := by
      rw [C5_diffs_length]; simp
    unfold isiLengths isiListSpec
    simp only [C5_zip_diffs, List.length_cons, if_pos hN, C5_endEdge_cons_cons]
    by_cases h1 : ts < a
    · simp only [if_pos h1, List.drop_zero, Nat.sub_zero]
      by_cases h2 : lastD (a :: b :: r) a < te
      · simp only [if_pos h2]
        rw [List.take_of_length_le (by omega)]
        rfl
      · simp only [if_neg h2, List.append_nil]
        have hd := C5_diffs_snoc a b r a
        have : r.length + 1 + 1 - 1 - 1 = (C5_diffs (a :: b :: r)).length - 1 := by omega
        rw [this, ← List.dropLast_eq_take, List.append_assoc, ← hd]
        rfl
    · have hats : a = ts := le_antisymm (not_lt.mp h1) ha.1
      have hD : C5_diffs (a :: b :: r) = (b - a) :: C5_diffs (b :: r) := rfl
      have hlen' : (C5_diffs (b :: r)).length = r.length := by
        rw [C5_diffs_length]; simp
      simp only [if_neg h1, hD, List.drop_succ_cons, List.drop_zero, List.nil_append]
      by_cases h2 : lastD (a :: b :: r) a < te
      · simp only [if_pos h2]
        rw [List.take_of_length_le (by omega)]
        rfl
      · simp only [if_neg h2, List.append_nil]
        have hlte : lastD (a :: b :: r) a = te := le_antisymm hl.2 (not_lt.mp h2)
        match r, hF, hlte, hlen' with
        | [], hF, hlte, _ =>
          exfalso; apply hF; right
          have : b = te := hlte
          rw [hats, this]
        | c :: r', _, _, hlen' =>
          have hd := C5_diffs_snoc b c r' a
          have h3 : (a :: b :: c :: r').dropLast.getLast? = (b :: c :: r').dropLast.getLast? := by
            simp [List.dropLast, List.getLast?_cons_cons]
          have h4 : lastD (a :: b :: c :: r') a = lastD (b :: c :: r') a := rfl
          have : (c :: r').length + 1 + 1 - 1 - 1 - 1 = (C5_diffs (b :: c :: r')).length - 1 := by
            rw [hlen']; simp
          rw [this, ← List.dropLast_eq_take, h3, h4, List.append_assoc, ← hd]
          rfl

/-- **4.** Apart from the input class of known finding F7 (a single spike on an edge, or exactly the
    two edges) `isi_lengths` returns the inter-spike-interval lengths with the edge rule. -/
theorem isiLengths_eq_spec_partial (s : List Q) (ts te : Q) (_hs : s.Pairwise (· < ·))
    (hb : ∀ x ∈ s, ts ≤ x ∧ x ≤ te) (hF : ¬ F7class s ts te) :
    isiLengths s ts te = isiListSpec s ts te := C5_isiLengths_eq_spec s ts te hb hF

example : ([1, 2, 5] : List Q).Pairwise (· < ·) ∧ (∀ x ∈ ([1, 2, 5] : List Q), (0:Q) ≤ x ∧ x ≤ 6) ∧
    ¬ F7class [1, 2, 5] 0 6 := by decide +kernel
example : ([0, 2, 6] : List Q).Pairwise (· < ·) ∧ (∀ x ∈ ([0, 2, 6] : List Q), (0:Q) ≤ x ∧ x ≤ 6) ∧
    ¬ F7class [0, 2, 6] 0 6 := by decide +kernel

/-- the exclusion is necessary: on the F7 inputs the code and the definition really differ -/
theorem C5_F7_one_spike_on_start :
    F7class [0] 0 4 ∧ isiLengths [0] 0 4 = [0, 4] ∧ isiListSpec [0] 0 4 = [4] := by decide +kernel
theorem C5_F7_one_spike_on_end :
    F7class [4] 0 4 ∧ isiLengths [4] 0 4 = [4, 0] ∧ isiListSpec [4] 0 4 = [4] := by decide +kernel
theorem C5_F7_two_edges :
    F7class [0, 4] 0 4 ∧ isiLengths [0, 4] 0 4 = [4, 4] ∧ isiListSpec [0, 4] 0 4 = [4] := by
  decide +kernel

theorem C5_isiLengths_full_statement_fails :
    ¬ ∀ (s : List Q) (ts te : Q), s.Pairwise (· < ·) → (∀ x ∈ s, ts ≤ x ∧ x ≤ te) →
      isiLengths s ts te = isiListSpec s ts te := by
  intro h
  have := h [0] 0 4 (by simp) (by decide +kernel)
  revert this
  decide +kernel

/-! ## 3. SPIKE-Sync -/

/-- raising MRTS never shrinks the window of a pair of spikes -/
theorem C5_tauSpec_mono_mrts (s1 s2 : List Q) (tm m1 m2 a b : Q) (hm : m1 ≤ m2) :
    tauSpec s1 s2 tm m1 a b ≤ tauSpec s1 s2 tm m2 a b :=
  getTau_mono_mrts _ _ _ _ _ _ _ _ _ hm

/-- **3a.** raising MRTS never removes a coincidence -/
theorem C5_coinc_mono_mrts (s1 s2 : List Q) (tm m1 m2 a b : Q) (hm : m1 ≤ m2)
    (h : Coinc s1 s2 tm m1 a b) : Coinc s1 s2 tm m2 a b :=
  lt_of_lt_of_le h (C5_tauSpec_mono_mrts s1 s2 tm m1 m2 a b hm)

theorem C5_mark1_zero_or_one (s1 s2 : List Q) (tm m a : Q) :
    mark1 1 1 s1 s2 tm m a = 0 ∨ mark1 1 1 s1 s2 tm m a = 1 := by
  unfold mark1; split_ifs <;> simp

theorem C5_mark2_zero_or_one (s1 s2 : List Q) (tm m b : Q) :
    mark2 1 1 s1 s2 tm m b = 0 ∨ mark2 1 1 s1 s2 tm m b = 1 := by
  unfold mark2; split_ifs <;> simp

theorem C5_mark1_mono (s1 s2 : List Q) (tm m1 m2 a : Q) (hm : m1 ≤ m2)
    (h : mark1 1 1 s1 s2 tm m1 a = 1) : mark1 1 1 s1 s2 tm m2 a = 1 := by
  obtain ⟨b, hb, hne, hc⟩ := (B1_mark1_eq_one s1 s2 tm m1 a).mp h
  exact (B1_mark1_eq_one s1 s2 tm m2 a).mpr ⟨b, hb, hne, C5_coinc_mono_mrts s1 s2 tm m1 m2 a b hm hc⟩

theorem C5_mark2_mono (s1 s2 : List Q) (tm m1 m2 b : Q) (hm : m1 ≤ m2)
    (h : mark2 1 1 s1 s2 tm m1 b = 1) : mark2 1 1 s1 s2 tm m2 b = 1 := by
  obtain ⟨a, ha, hne, hc⟩ := (B1_mark2_eq_one s1 s2 tm m1 b).mp h
  exact (B1_mark2_eq_one s1 s2 tm m2 b).mpr ⟨a, ha, hne, C5_coinc_mono_mrts s1 s2 tm m1 m2 a b hm hc⟩

/-- relation between two profile entries: same time, same multiplicity, the value does not
    decrease, and an entry that is already marked (value ≠ 0) keeps its value -/
def C5_EntryLe (e1 e2 : Q × Q × Q) : Prop :=
  e1.1 = e2.1 ∧ e1.2.2 = e2.2.2 ∧ e1.2.1 ≤ e2.2.1 ∧ (e1.2.1 ≠ 0 → e2.2.1 = e1.2.1)

theorem C5_EntryLe_refl (e : Q × Q × Q) : C5_EntryLe e e := ⟨rfl, rfl, le_refl _, fun _ => rfl⟩

theorem C5_entrySpec_mono (s1 s2 : List Q) (tm m1 m2 t : Q) (hm : m1 ≤ m2) :
    C5_EntryLe (entrySpec 1 1 2 s1 s2 tm m1 t) (entrySpec 1 1 2 s1 s2 tm m2 t) := by
  unfold entrySpec
  split_ifs with h h'
  · exact C5_EntryLe_refl _
  · refine ⟨rfl, rfl, ?_, ?_⟩
    · rcases C5_mark1_zero_or_one s1 s2 tm m1 t with h0 | h1
      · show mark1 1 1 s1 s2 tm m1 t ≤ mark1 1 1 s1 s2 tm m2 t
        rw [h0]
        rcases C5_mark1_zero_or_one s1 s2 tm m2 t with h0' | h1' <;> simp [*]
      · show mark1 1 1 s1 s2 tm m1 t ≤ mark1 1 1 s1 s2 tm m2 t
        rw [h1, C5_mark1_mono s1 s2 tm m1 m2 t hm h1]
    · intro hne
      show mark1 1 1 s1 s2 tm m2 t = mark1 1 1 s1 s2 tm m1 t
      rcases C5_mark1_zero_or_one s1 s2 tm m1 t with h0 | h1
      · exact absurd h0 hne
      · rw [h1, C5_mark1_mono s1 s2 tm m1 m2 t hm h1]
  · refine ⟨rfl, rfl, ?_, ?_⟩
    · rcases C5_mark2_zero_or_one s1 s2 tm m1 t with h0 | h1
      · show mark2 1 1 s1 s2 tm m1 t ≤ mark2 1 1 s1 s2 tm m2 t
        rw [h0]
        rcases C5_mark2_zero_or_one s1 s2 tm m2 t with h0' | h1' <;> simp [*]
      · show mark2 1 1 s1 s2 tm m1 t ≤ mark2 1 1 s1 s2 tm m2 t
        rw [h1, C5_mark2_mono s1 s2 tm m1 m2 t hm h1]
    · intro hne
      show mark2 1 1 s1 s2 tm m2 t = mark2 1 1 s1 s2 tm m1 t
      rcases C5_mark2_zero_or_one s1 s2 tm m1 t with h0 | h1
      · exact absurd h0 hne
      · rw [h1, C5_mark2_mono s1 s2 tm m1 m2 t hm h1]

/-- **3b.** entry by entry, the pairwise-defined SPIKE-Sync profile at the larger MRTS has the same
    times and multiplicities, values `≥`, and every marked entry stays marked -/
theorem C5_scanSpec_sync_mono_mrts (s1 s2 : List Q) (tm m1 m2 : Q) (hm : m1 ≤ m2) :
    List.Forall₂ C5_EntryLe (scanSpec 1 1 2 s1 s2 tm m1) (scanSpec 1 1 2 s1 s2 tm m2) := by
  unfold scanSpec
  rw [List.forall₂_map_left_iff, List.forall₂_map_right_iff, List.forall₂_same]
  intro t _
  exact C5_entrySpec_mono s1 s2 tm m1 m2 t hm


example : StrictSorted [(1:Q), 2, 5] ∧ StrictSorted [(2:Q), 3, 9] ∧ (0:Q) ≤ 1 := by
  unfold StrictSorted; decide +kernel
/-- MRTS really matters: the pair (1, 7/4) is not coincident at MRTS = 0 but is at MRTS = 4 -/
example : ¬ Coinc [0, 1, 4] [7/4, 10] 20 0 1 (7/4) ∧ Coinc [0, 1, 4] [7/4, 10] 20 4 1 (7/4) := by
  decide +kernel

theorem C5_forall₂_lastD {α} (R : α → α → Prop) : ∀ (l1 l2 : List α) (a1 a2 d1 d2 : α),
    List.Forall₂ R (a1 :: l1) (a2 :: l2) → R (lastD (a1 :: l1) d1) (lastD (a2 :: l2) d2)
  | [], [], a1, a2, d1, d2, h => by
    rcases List.forall₂_cons.mp h with ⟨h1, _⟩; exact h1
  | [], _ :: _, a1, a2, d1, d2, h => by
    rcases List.forall₂_cons.mp h with ⟨_, h2⟩; cases h2
  | _ :: _, [], a1, a2, d1, d2, h => by
    rcases List.forall₂_cons.mp h with ⟨_, h2⟩; cases h2
  | b1 :: l1, b2 :: l2, a1, a2, d1, d2, h => by
    rcases List.forall₂_cons.mp h with ⟨_, h2⟩
    exact C5_forall₂_lastD R l1 l2 b1 b2 d1 d2 h2

theorem C5_frameProfile_mono (ts te : Q) (E1 E2 : List (Q × Q × Q))
    (h : List.Forall₂ C5_EntryLe E1 E2) :
    List.Forall₂ C5_EntryLe (frameProfile ts te E1) (frameProfile ts te E2) := by
  cases h with
  | nil => exact List.forall₂_same.mpr (fun e _ => ⟨rfl, rfl, le_refl _, fun _ => rfl⟩)
  | @cons f1 f2 r1 r2 hf hr =>
    have hl := C5_forall₂_lastD C5_EntryLe r1 r2 f1 f2 f1 f2 (List.Forall₂.cons hf hr)
    unfold frameProfile
    simp only
    refine List.Forall₂.cons ⟨rfl, hf.2.1, hf.2.2.1, hf.2.2.2⟩ ?_
    refine List.rel_append (List.Forall₂.cons hf hr) ?_
    exact List.Forall₂.cons ⟨rfl, hl.2.1, hl.2.2.1, hl.2.2.2⟩ List.Forall₂.nil

/-- **3c.** the same for the profile returned by `coincidence_python` (strictly sorted trains) -/
theorem C5_coincProfile_mono_mrts (s1 s2 : List Q) (ts te mt m1 m2 : Q)
    (h1 : StrictSorted s1) (h2 : StrictSorted s2) (hm : m1 ≤ m2) :
    List.Forall₂ C5_EntryLe (coincProfile s1 s2 ts te mt m1) (coincProfile s1 s2 ts te mt m2) := by
  rw [coincProfile_eq_spec _ _ _ _ _ _ h1 h2, coincProfile_eq_spec _ _ _ _ _ _ h1 h2]
  exact C5_frameProfile_mono ts te _ _ (C5_scanSpec_sync_mono_mrts s1 s2 _ m1 m2 hm)

/-- MRTS/4 is not above the two half inter-spike intervals around spike `c` (a missing neighbour
    counts as `tm`, as in `get_tau`) -/
def C5_SmallAt (p c n : Option Q) (tm m : Q) : Prop :=
  m / 4 ≤ optDiff p c tm / 2 ∧ m / 4 ≤ optDiff c n tm / 2

/-- two thresholds that are both below the half intervals involved give the same window -/
theorem C5_getTau_small_mrts (p1 c1 n1 p2 c2 n2 : Option Q) (tm m m' : Q)
    (h1 : C5_SmallAt p1 c1 n1 tm m) (h2 : C5_SmallAt p2 c2 n2 tm m)
    (h1' : C5_SmallAt p1 c1 n1 tm m') (h2' : C5_SmallAt p2 c2 n2 tm m') :
    getTau p1 c1 n1 p2 c2 n2 tm m = getTau p1 c1 n1 p2 c2 n2 tm m' := by
  unfold getTau
  simp only
  rw [interp_small_t _ _ (m / 4) (le_min h1.1 h1.2), interp_small_t _ _ (m' / 4) (le_min h1'.1 h1'.2),
    interp_small_t _ _ (m / 4) (le_min h2.2 h2.1), interp_small_t _ _ (m' / 4) (le_min h2'.2 h2'.1),
    interp_small_t _ _ (m / 4) (le_min h1.2 h1.1), interp_small_t _ _ (m' / 4) (le_min h1'.2 h1'.1),
    interp_small_t _ _ (m / 4) (le_min h2.1 h2.2), interp_small_t _ _ (m' / 4) (le_min h2'.1 h2'.2)]

/-- the threshold is small for every spike of the train -/
def C5_SmallFor (s : List Q) (tm m : Q) : Prop :=
  ∀ a ∈ s, C5_SmallAt (predOf s a) (some a) (succOf s a) tm m

theorem C5_predOf_lt {s : List Q} {a p : Q} (h : predOf s a = some p) : p < a := by
  have := List.mem_of_getLast? h
  simpa using (List.mem_filter.mp this).2

theorem C5_succOf_gt {s : List Q} {a f : Q} (h : succOf s a = some f) : a < f := by
  have := List.mem_of_head? h
  simpa using (List.mem_filter.mp this).2

/-- MRTS = 0 is always small (for a non-negative `true_max`) -/
theorem C5_SmallFor_zero (s : List Q) (tm : Q) (htm : 0 ≤ tm) : C5_SmallFor s tm 0 := by
  intro a _
  unfold C5_SmallAt optDiff
  constructor
  · cases h : predOf s a with
    | none => simp only [zero_div]; linarith
    | some p => have := C5_predOf_lt h; simp only [zero_div]; linarith
  · cases h : succOf s a with
    | none => simp only [zero_div]; linarith
    | some f => have := C5_succOf_gt h; simp only [zero_div]; linarith

theorem C5_tauSpec_small_mrts (s1 s2 : List Q) (tm m m' a b : Q) (ha : a ∈ s1) (hb : b ∈ s2)
    (h1 : C5_SmallFor s1 tm m) (h2 : C5_SmallFor s2 tm m)
    (h1' : C5_SmallFor s1 tm m') (h2' : C5_SmallFor s2 tm m') :
    tauSpec s1 s2 tm m a b = tauSpec s1 s2 tm m' a b :=
  C5_getTau_small_mrts _ _ _ _ _ _ tm m m' (h1 a ha) (h2 b hb) (h1' a ha) (h2' b hb)

theorem C5_coinc_small_mrts (s1 s2 : List Q) (tm m m' a b : Q) (ha : a ∈ s1) (hb : b ∈ s2)
    (h1 : C5_SmallFor s1 tm m) (h2 : C5_SmallFor s2 tm m)
    (h1' : C5_SmallFor s1 tm m') (h2' : C5_SmallFor s2 tm m') :
    Coinc s1 s2 tm m a b ↔ Coinc s1 s2 tm m' a b := by
  unfold Coinc
  rw [C5_tauSpec_small_mrts s1 s2 tm m m' a b ha hb h1 h2 h1' h2']

theorem C5_any_congr {l : List Q} (p q : Q → Bool) (h : ∀ x ∈ l, p x = q x) : l.any p = l.any q := by
  induction l with
  | nil => rfl
  | cons x l ih =>
    rw [List.any_cons, List.any_cons, h x (by simp), ih (fun y hy => h y (List.mem_cons_of_mem _ hy))]

theorem C5_mark1_small (v1 v2 : Q) (s1 s2 : List Q) (tm m m' a : Q) (ha : a ∈ s1)
    (h1 : C5_SmallFor s1 tm m) (h2 : C5_SmallFor s2 tm m)
    (h1' : C5_SmallFor s1 tm m') (h2' : C5_SmallFor s2 tm m') :
    mark1 v1 v2 s1 s2 tm m a = mark1 v1 v2 s1 s2 tm m' a := by
  unfold mark1
  rw [C5_any_congr (l := s2) (fun b => decide (b < a ∧ Coinc s1 s2 tm m a b))
      (fun b => decide (b < a ∧ Coinc s1 s2 tm m' a b))
      (fun b hb => decide_eq_decide.mpr (and_congr_right' (C5_coinc_small_mrts s1 s2 tm m m' a b ha hb h1 h2 h1' h2'))),
    C5_any_congr (l := s2) (fun b => decide (a < b ∧ Coinc s1 s2 tm m a b))
      (fun b => decide (a < b ∧ Coinc s1 s2 tm m' a b))
      (fun b hb => decide_eq_decide.mpr (and_congr_right' (C5_coinc_small_mrts s1 s2 tm m m' a b ha hb h1 h2 h1' h2')))]

theorem C5_mark2_small (v1 v2 : Q) (s1 s2 : List Q) (tm m m' b : Q) (hb : b ∈ s2)
    (h1 : C5_SmallFor s1 tm m) (h2 : C5_SmallFor s2 tm m)
    (h1' : C5_SmallFor s1 tm m') (h2' : C5_SmallFor s2 tm m') :
    mark2 v1 v2 s1 s2 tm m b = mark2 v1 v2 s1 s2 tm m' b := by
  unfold mark2
  rw [C5_any_congr (l := s1) (fun a => decide (a < b ∧ Coinc s1 s2 tm m a b))
      (fun a => decide (a < b ∧ Coinc s1 s2 tm m' a b))
      (fun a ha => decide_eq_decide.mpr (and_congr_right' (C5_coinc_small_mrts s1 s2 tm m m' a b ha hb h1 h2 h1' h2'))),
    C5_any_congr (l := s1) (fun a => decide (b < a ∧ Coinc s1 s2 tm m a b))
      (fun a => decide (b < a ∧ Coinc s1 s2 tm m' a b))
      (fun a ha => decide_eq_decide.mpr (and_congr_right' (C5_coinc_small_mrts s1 s2 tm m m' a b ha hb h1 h2 h1' h2')))]

/-- **3d.** two thresholds below all half inter-spike intervals give the same pairwise-defined
    profile (SPIKE-Sync and spike-train order alike) -/
theorem C5_scanSpec_small_mrts (v1 v2 vt : Q) (s1 s2 : List Q) (tm m m' : Q)
    (h1 : C5_SmallFor s1 tm m) (h2 : C5_SmallFor s2 tm m)
    (h1' : C5_SmallFor s1 tm m') (h2' : C5_SmallFor s2 tm m') :
    scanSpec v1 v2 vt s1 s2 tm m = scanSpec v1 v2 vt s1 s2 tm m' := by
  unfold scanSpec
  apply List.map_congr_left
  intro t ht
  have hmem : t ∈ s1 ∨ t ∈ s2 := List.mem_append.mp (uniqueQ_mem.mp ht)
  unfold entrySpec
  by_cases c1 : t ∈ s1 ∧ t ∈ s2
  · rw [if_pos c1, if_pos c1]
  · rw [if_neg c1, if_neg c1]
    by_cases c2 : t ∈ s1
    · rw [if_pos c2, if_pos c2, C5_mark1_small v1 v2 s1 s2 tm m m' t c2 h1 h2 h1' h2']
    · have c3 : t ∈ s2 := hmem.resolve_left c2
      rw [if_neg c2, if_neg c2, C5_mark2_small v1 v2 s1 s2 tm m m' t c3 h1 h2 h1' h2']

/-- **3e.** an MRTS with `MRTS/4` below every half inter-spike interval involved gives the
    non-adaptive (`MRTS = 0`) SPIKE-Sync profile -/
theorem C5_coincProfile_small_mrts (s1 s2 : List Q) (ts te mt m : Q)
    (h1 : StrictSorted s1) (h2 : StrictSorted s2) (htm : 0 ≤ trueMax ts te mt)
    (hm1 : C5_SmallFor s1 (trueMax ts te mt) m) (hm2 : C5_SmallFor s2 (trueMax ts te mt) m) :
    coincProfile s1 s2 ts te mt m = coincProfile s1 s2 ts te mt 0 := by
  rw [coincProfile_eq_spec _ _ _ _ _ _ h1 h2, coincProfile_eq_spec _ _ _ _ _ _ h1 h2,
    C5_scanSpec_small_mrts 1 1 2 s1 s2 _ m 0 hm1 hm2 (C5_SmallFor_zero _ _ htm) (C5_SmallFor_zero _ _ htm)]

example : StrictSorted [(1:Q), 3, 7] ∧ StrictSorted [(2:Q), 5] ∧ (0:Q) ≤ trueMax 0 10 0 ∧
    (∀ d ∈ C5_diffs [(1:Q), 3, 7], (2:Q) / 4 ≤ d / 2) ∧ (∀ d ∈ C5_diffs [(2:Q), 5], (2:Q) / 4 ≤ d / 2) ∧
    (2:Q) / 4 ≤ trueMax 0 10 0 / 2 := by
  unfold StrictSorted; decide +kernel

theorem C5_orderProfile_small_mrts (s1 s2 : List Q) (ts te mt m : Q)
    (h1 : StrictSorted s1) (h2 : StrictSorted s2) (htm : 0 ≤ trueMax ts te mt)
    (hm1 : C5_SmallFor s1 (trueMax ts te mt) m) (hm2 : C5_SmallFor s2 (trueMax ts te mt) m) :
    orderProfile s1 s2 ts te mt m = orderProfile s1 s2 ts te mt 0 := by
  rw [orderProfile_eq_spec _ _ _ _ _ _ h1 h2, orderProfile_eq_spec _ _ _ _ _ _ h1 h2,
    C5_scanSpec_small_mrts (-1) 1 0 s1 s2 _ m 0 hm1 hm2 (C5_SmallFor_zero _ _ htm) (C5_SmallFor_zero _ _ htm)]

theorem C5_diffs_mem_mid : ∀ (l1 l2 : List Q) (p a : Q), a - p ∈ C5_diffs (l1 ++ p :: a :: l2)
  | [], l2, p, a => by simp [C5_diffs]
  | [x], l2, p, a => by
    simp [C5_diffs]
  | x :: y :: l1, l2, p, a => by
    have := C5_diffs_mem_mid (y :: l1) l2 p a
    simp only [List.cons_append, C5_diffs, List.mem_cons] at this ⊢
    right; exact this

/-- a sufficient, directly checkable condition: `MRTS/4` is not above half of any inter-spike
    interval of the (strictly sorted) train nor above `tm/2` -/
theorem C5_SmallFor_of_diffs (s : List Q) (tm m : Q) (hs : StrictSorted s)
    (hd : ∀ d ∈ C5_diffs s, m / 4 ≤ d / 2) (htm : m / 4 ≤ tm / 2) : C5_SmallFor s tm m := by
  intro a ha
  obtain ⟨l1, l2, rfl⟩ := List.append_of_mem ha
  have hs' : StrictSorted (l1.reverse.reverse ++ a :: l2) := by rw [List.reverse_reverse]; exact hs
  have hp := neighbours_predOf l1.reverse l2 a hs'
  have hn := neighbours_succOf l1.reverse l2 a hs'
  rw [List.reverse_reverse] at hp hn
  unfold C5_SmallAt
  rw [hp, hn]
  constructor
  · rcases List.eq_nil_or_concat l1 with h | ⟨l1', p, h⟩
    · subst h; simpa [optDiff] using htm
    · rw [List.concat_eq_append] at h
      subst h
      have : a - p ∈ C5_diffs (l1' ++ [p] ++ a :: l2) := by
        rw [List.append_assoc]; exact C5_diffs_mem_mid l1' l2 p a
      simpa [optDiff] using hd _ this
  · cases l2 with
    | nil => simpa [optDiff] using htm
    | cons f l2' =>
      have : f - a ∈ C5_diffs (l1 ++ a :: f :: l2') := C5_diffs_mem_mid l1 l2' a f
      simpa [optDiff] using hd _ this

example : C5_SmallFor [1, 3, 7] (trueMax 0 10 0) 2 :=
  C5_SmallFor_of_diffs _ _ _ (by unfold StrictSorted; decide +kernel) (by decide +kernel)
    (by decide +kernel)
/-! ## 1. ISI profile -/

theorem C5_isiLoop_times (te m m' : Q) :
    ∀ (p1 : Option Q) (r1 : List Q) (nu1 : Q) (p2 : Option Q) (r2 : List Q) (nu2 : Q),
      (isiLoop te m p1 r1 nu1 p2 r2 nu2).map (·.1) = (isiLoop te m' p1 r1 nu1 p2 r2 nu2).map (·.1) := by
  intro p1 r1 nu1 p2 r2 nu2
  induction p1, r1, nu1, p2, r2, nu2 using isiLoop.induct te with
  | case1 p1 nu1 p2 nu2 => rw [isiLoop, isiLoop]
  | case2 p1 nu1 p2 nu2 a r1' nu1' ih =>
    rw [isiLoop, isiLoop]; simp only [List.map_cons]; rw [ih]
  | case3 p1 nu1 p2 nu2 b r2' nu2' ih =>
    rw [isiLoop, isiLoop]; simp only [List.map_cons]; rw [ih]
  | case4 p1 nu1 p2 nu2 a r1' b r2' hab nu1' ih =>
    rw [isiLoop, isiLoop, if_pos hab, if_pos hab]; simp only [List.map_cons]; rw [ih]
  | case5 p1 nu1 p2 nu2 a r1' b r2' hab hba nu2' ih =>
    rw [isiLoop, isiLoop, if_neg hab, if_neg hab, if_pos hba, if_pos hba]
    simp only [List.map_cons]; rw [ih]
  | case6 p1 nu1 p2 nu2 a r1' b r2' hab hba nu1' nu2' ih =>
    rw [isiLoop, isiLoop, if_neg hab, if_neg hab, if_neg hba, if_neg hba]
    simp only [List.map_cons]; rw [ih]

theorem C5_finishPwc_fst (evs : List (Q × Q)) (te : Q) :
    (finishPwc evs te).1 =
      if (evs.map (·.1)).getLast? = some te then evs.map (·.1) else evs.map (·.1) ++ [te] := by
  unfold finishPwc
  rw [List.getLast?_map]
  split <;> rfl

/-- **1a.** the breakpoints of the ISI-profile do not depend on MRTS (all inputs) -/
theorem C5_isiProfile_breaks_indep_mrts (s1 s2 : List Q) (ts te m : Q) :
    (isiProfile s1 s2 ts te m).1 = (isiProfile s1 s2 ts te 0).1 := by
  unfold isiProfile
  rw [C5_finishPwc_fst, C5_finishPwc_fst]
  unfold isiEvents
  simp only [List.map_cons]
  rw [C5_isiLoop_times te m 0]

example : (isiProfile [1, 3] [2, 3] 0 6 5).1 = [0, 1, 2, 3, 6] := by decide +kernel

/-- the breakpoints lie inside the recording and every piece `[xs[k], xs[k+1])` is non-empty -/
theorem C5_isi_piece (s1 s2 : List Q) (ts te m : Q) (hlt : ts < te)
    (h1 : ValidNE s1 ts te) (h2 : ValidNE s2 ts te) (k : Nat)
    (hk1 : k + 1 < (isiProfile s1 s2 ts te m).1.length) :
    ts ≤ (isiProfile s1 s2 ts te m).1[k] ∧
      (isiProfile s1 s2 ts te m).1[k] < (isiProfile s1 s2 ts te m).1[k + 1] ∧
      (isiProfile s1 s2 ts te m).1[k + 1] ≤ te := by
  obtain ⟨hsort, hmem⟩ := isiProfile_breaks s1 s2 ts te m hlt h1 h2
  have hbnd : ∀ x ∈ (isiProfile s1 s2 ts te m).1, ts ≤ x ∧ x ≤ te := by
    intro x hx
    rcases (hmem x).mp hx with h | h | ⟨h, h', _⟩
    · rw [h]; exact ⟨le_refl _, le_of_lt hlt⟩
    · rw [h]; exact ⟨le_of_lt hlt, le_refl _⟩
    · exact ⟨le_of_lt h, le_of_lt h'⟩
  refine ⟨(hbnd _ (List.getElem_mem _)).1, ?_, (hbnd _ (List.getElem_mem _)).2⟩
  exact List.pairwise_iff_getElem.mp hsort k (k + 1) (by omega) hk1 (by omega)

/-- generic transfer: a relation between the defined ISI ratios at two thresholds, at every time of
    the recording, holds between the returned value lists entry by entry -/
theorem C5_isiProfile_rel (R : Q → Q → Prop) (s1 s2 : List Q) (ts te m1 m2 : Q) (hlt : ts < te)
    (h1 : ValidNE s1 ts te) (h2 : ValidNE s2 ts te)
    (hR : ∀ t, ts ≤ t → t < te → R (isiSpec s1 s2 ts te m1 t) (isiSpec s1 s2 ts te m2 t)) :
    List.Forall₂ R (isiProfile s1 s2 ts te m1).2 (isiProfile s1 s2 ts te m2).2 := by
  obtain ⟨hl1, hv1⟩ := isiProfile_matches s1 s2 ts te m1 h1 h2
  obtain ⟨hl2, hv2⟩ := isiProfile_matches s1 s2 ts te m2 h1 h2
  have hx : (isiProfile s1 s2 ts te m2).1 = (isiProfile s1 s2 ts te m1).1 := by
    rw [C5_isiProfile_breaks_indep_mrts s1 s2 ts te m1, C5_isiProfile_breaks_indep_mrts s1 s2 ts te m2]
  have hlen : (isiProfile s1 s2 ts te m1).2.length = (isiProfile s1 s2 ts te m2).2.length := by
    rw [hx] at hl2; omega
  apply List.forall₂_of_length_eq_of_get hlen
  intro i h₁ h₂
  have hk1 : i + 1 < (isiProfile s1 s2 ts te m1).1.length := by omega
  have hk2 : i + 1 < (isiProfile s1 s2 ts te m2).1.length := by omega
  obtain ⟨pa, pb, pc⟩ := C5_isi_piece s1 s2 ts te m1 hlt h1 h2 i hk1
  have e0 : (isiProfile s1 s2 ts te m2).1[i] = (isiProfile s1 s2 ts te m1).1[i] :=
    List.getElem_of_eq hx _
  have e1 : (isiProfile s1 s2 ts te m2).1[i + 1] = (isiProfile s1 s2 ts te m1).1[i + 1] :=
    List.getElem_of_eq hx _
  have v1 := hv1 i h₁ hk1 _ (le_refl _) pb
  have v2 := hv2 i h₂ hk2 ((isiProfile s1 s2 ts te m1).1[i]) (le_of_eq e0) (by rw [e1]; exact pb)
  rw [List.get_eq_getElem, List.get_eq_getElem, v1, v2]
  exact hR _ pa (lt_of_lt_of_le pb pc)

/-- **1b.** for valid trains, raising MRTS never increases a value of the ISI-profile -/
theorem C5_isiProfile_antitone_mrts (s1 s2 : List Q) (ts te m1 m2 : Q) (hlt : ts < te)
    (h1 : ValidNE s1 ts te) (h2 : ValidNE s2 ts te) (hm : m1 ≤ m2) :
    List.Forall₂ (· ≥ ·) (isiProfile s1 s2 ts te m1).2 (isiProfile s1 s2 ts te m2).2 := by
  apply C5_isiProfile_rel (· ≥ ·) s1 s2 ts te m1 m2 hlt h1 h2
  intro t ht1 ht2
  exact isiVal_antitone_m _ _ m1 m2 (nuAt_pos s1 ts te t hlt h1.2.2 ht1 ht2) hm

/-- **1c.** an MRTS that is, at every time of the recording, not larger than the larger of the two
    current interval lengths leaves the ISI-profile unchanged -/
theorem C5_isiProfile_small_mrts (s1 s2 : List Q) (ts te m : Q) (hlt : ts < te)
    (h1 : ValidNE s1 ts te) (h2 : ValidNE s2 ts te)
    (hm : ∀ t, ts ≤ t → t < te → m ≤ max (nuAt s1 ts te t) (nuAt s2 ts te t)) :
    isiProfile s1 s2 ts te m = isiProfile s1 s2 ts te 0 := by
  apply Prod.ext (C5_isiProfile_breaks_indep_mrts s1 s2 ts te m)
  have := C5_isiProfile_rel (· = ·) s1 s2 ts te m 0 hlt h1 h2 (by
    intro t ht1 ht2
    rcases isiVal_small_m _ _ m (hm t ht1 ht2) with h | h
    · exact h
    · exact absurd (lt_of_lt_of_le (nuAt_pos s1 ts te t hlt h1.2.2 ht1 ht2) (le_max_left _ _))
        (not_lt.mpr (le_of_lt h)))
  rwa [List.forall₂_eq_eq_eq] at this

/-- the form asked for: `m` not larger than any interval length of either train -/
theorem C5_isiProfile_small_mrts' (s1 s2 : List Q) (ts te m : Q) (hlt : ts < te)
    (h1 : ValidNE s1 ts te) (h2 : ValidNE s2 ts te)
    (hm1 : ∀ t, ts ≤ t → t < te → m ≤ nuAt s1 ts te t) :
    isiProfile s1 s2 ts te m = isiProfile s1 s2 ts te 0 :=
  C5_isiProfile_small_mrts s1 s2 ts te m hlt h1 h2
    (fun t a b => le_trans (hm1 t a b) (le_max_left _ _))

/-- **1d.** `MRTS = 0` is the non-adaptive ISI-profile `|ν₁ - ν₂| / max(ν₁, ν₂)` -/
theorem C5_isiProfile_zero_mrts (s1 s2 : List Q) (ts te : Q) (hlt : ts < te)
    (h1 : ValidNE s1 ts te) (h2 : ValidNE s2 ts te) :
    PwcMatches (fun t => |nuAt s1 ts te t - nuAt s2 ts te t| / max (nuAt s1 ts te t) (nuAt s2 ts te t))
      (isiProfile s1 s2 ts te 0).1 (isiProfile s1 s2 ts te 0).2 := by
  obtain ⟨hl, hv⟩ := isiProfile_matches s1 s2 ts te 0 h1 h2
  refine ⟨hl, ?_⟩
  intro k hk hk1 t ht1 ht2
  obtain ⟨pa, _, pc⟩ := C5_isi_piece s1 s2 ts te 0 hlt h1 h2 k hk1
  have hpos := nuAt_pos s1 ts te t hlt h1.2.2 (le_trans pa ht1) (lt_of_lt_of_le ht2 pc)
  rw [hv k hk hk1 t ht1 ht2]
  unfold isiSpec
  rw [isiVal_zero_m _ _ (le_trans (le_of_lt hpos) (le_max_left _ _)), qabs_eq_abs]

example : ValidNE [1, 3] 0 6 ∧ ValidNE [2, 3, 6] 0 6 ∧ (0 : Q) < 6 ∧ (1:Q) ≤ 2 := by
  unfold ValidNE; decide +kernel
/-- the hypothesis of `C5_isiProfile_small_mrts'` for `s1 = [2, 4]` on `[0, 6]` and `m = 2`
    (all interval lengths of `s1` are 2), checked on the three pieces -/
example : nuAt [2, 4] 0 6 1 = 2 ∧ nuAt [2, 4] 0 6 3 = 2 ∧ nuAt [2, 4] 0 6 5 = 2 := by decide +kernel
/-- MRTS really matters -/
example : (isiProfile [1, 3] [2, 3] 0 6 0).2 ≠ (isiProfile [1, 3] [2, 3] 0 6 5).2 := by decide +kernel

/-! ## 2. SPIKE profile -/

/-- **2a.** the breakpoints of the SPIKE-profile do not depend on MRTS (all inputs) -/
theorem C5_spikeProfile_breaks_indep_mrts (t1 t2 : List Q) (ts te m : Q) (ri : Bool) :
    (spikeProfile t1 t2 ts te m ri).1 = (spikeProfile t1 t2 ts te 0 ri).1 := by
  rw [spikeProfile_breaks, spikeProfile_breaks]

/-- generic transfer: a relation between the defined SPIKE dissimilarities at two thresholds (right
    limits on `[ts, te)`, left limits on `(ts, te]`) holds between the returned value lists -/
theorem C5_spikeProfile_rel (R : Q → Q → Prop) (t1 t2 : List Q) (ts te m1 m2 : Q) (ri : Bool)
    (h1 : ValidNE t1 ts te) (h2 : ValidNE t2 ts te) (hlt : ts < te)
    (hn1 : ¬ OneSpikeOnStart t1 ts) (hn2 : ¬ OneSpikeOnStart t2 ts)
    (hR : ∀ (t : Q) (right : Bool), (if right then ts ≤ t else ts < t) →
      (if right then t < te else t ≤ te) →
      R (spikeSpec t1 t2 ts te m1 ri t right) (spikeSpec t1 t2 ts te m2 ri t right)) :
    List.Forall₂ R (spikeProfile t1 t2 ts te m1 ri).2.1 (spikeProfile t1 t2 ts te m2 ri).2.1 ∧
    List.Forall₂ R (spikeProfile t1 t2 ts te m1 ri).2.2 (spikeProfile t1 t2 ts te m2 ri).2.2 := by
  have hmain1 := spikeProfile_eq_spec_partial t1 t2 ts te m1 ri h1 h2 hlt hn1 hn2
  have hmain2 := spikeProfile_eq_spec_partial t1 t2 ts te m2 ri h1 h2 hlt hn1 hn2
  rw [B4_specProfile_eq] at hmain1 hmain2
  have hx : (spikeProfile t1 t2 ts te m2 ri).1 = (spikeProfile t1 t2 ts te m1 ri).1 := by
    rw [spikeProfile_breaks, spikeProfile_breaks]
  rw [hx] at hmain2
  have a1 := congrArg Prod.fst hmain1
  have a2 := congrArg Prod.fst hmain2
  have b1 := congrArg Prod.snd hmain1
  have b2 := congrArg Prod.snd hmain2
  simp only at a1 a2 b1 b2
  obtain ⟨hsorted, hmem⟩ := isiProfile_breaks t1 t2 ts te 0 hlt h1 h2
  rw [← spikeProfile_breaks t1 t2 ts te m1 ri] at hsorted hmem
  have hbnd : ∀ x ∈ (spikeProfile t1 t2 ts te m1 ri).1, ts ≤ x ∧ x ≤ te := by
    intro x hx
    rcases (hmem x).mp hx with h | h | ⟨h, h', _⟩
    · rw [h]; exact ⟨le_refl _, le_of_lt hlt⟩
    · rw [h]; exact ⟨le_of_lt hlt, le_refl _⟩
    · exact ⟨le_of_lt h, le_of_lt h'⟩
  constructor
  · rw [a1, a2, List.forall₂_map_left_iff, List.forall₂_map_right_iff, List.forall₂_same]
    intro x hx
    obtain ⟨y, hy, hxy⟩ := B4_mem_dropLast_lt _ hsorted x hx
    exact hR x true (by simpa using (hbnd x (List.mem_of_mem_dropLast hx)).1)
      (by simpa using lt_of_lt_of_le hxy (hbnd y hy).2)
  · rw [b1, b2, List.forall₂_map_left_iff, List.forall₂_map_right_iff, List.forall₂_same]
    intro x hx
    obtain ⟨y, hy, hyx⟩ := B4_mem_tail_gt _ hsorted x hx
    exact hR x false (by simpa using lt_of_le_of_lt (hbnd y hy).1 hyx)
      (by simpa using (hbnd x (List.mem_of_mem_tail hx)).2)

/-- **2b.** for valid trains (outside finding F9) raising MRTS never increases a value of the
    SPIKE-profile, neither a `y_start` nor a `y_end` -/
theorem C5_spikeProfile_antitone_mrts (t1 t2 : List Q) (ts te m1 m2 : Q) (ri : Bool)
    (h1 : ValidNE t1 ts te) (h2 : ValidNE t2 ts te) (hlt : ts < te)
    (hn1 : ¬ OneSpikeOnStart t1 ts) (hn2 : ¬ OneSpikeOnStart t2 ts) (hm : m1 ≤ m2) :
    List.Forall₂ (· ≥ ·) (spikeProfile t1 t2 ts te m1 ri).2.1 (spikeProfile t1 t2 ts te m2 ri).2.1 ∧
    List.Forall₂ (· ≥ ·) (spikeProfile t1 t2 ts te m1 ri).2.2 (spikeProfile t1 t2 ts te m2 ri).2.2 := by
  apply C5_spikeProfile_rel (· ≥ ·) t1 t2 ts te m1 m2 ri h1 h2 hlt hn1 hn2
  intro t right hl hu
  obtain ⟨p1, q1⟩ := B4_contrib_sign t1 t2 ts te t h1 right hl hu
  obtain ⟨p2, q2⟩ := B4_contrib_sign t2 t1 ts te t h2 right hl hu
  unfold spikeSpec
  exact distAtT_antitone_m _ _ _ _ m1 m2 ri q1 q2 p1 p2 hm

/-- **2c.** an MRTS that is never above the mean of the two current interval lengths (as used by
    the definition: right limits on `[ts, te)`, left limits on `(ts, te]`) leaves the SPIKE-profile
    unchanged -/
theorem C5_spikeProfile_small_mrts (t1 t2 : List Q) (ts te m : Q) (ri : Bool)
    (h1 : ValidNE t1 ts te) (h2 : ValidNE t2 ts te) (hlt : ts < te)
    (hn1 : ¬ OneSpikeOnStart t1 ts) (hn2 : ¬ OneSpikeOnStart t2 ts)
    (hm : ∀ (t : Q) (right : Bool), (if right then ts ≤ t else ts < t) →
      (if right then t < te else t ≤ te) →
      m ≤ ((spikeContrib t1 t2 ts te t right).2 + (spikeContrib t2 t1 ts te t right).2) / 2) :
    spikeProfile t1 t2 ts te m ri = spikeProfile t1 t2 ts te 0 ri := by
  obtain ⟨e1, e2⟩ := C5_spikeProfile_rel (· = ·) t1 t2 ts te m 0 ri h1 h2 hlt hn1 hn2 (by
    intro t right hl hu
    obtain ⟨_, q1⟩ := B4_contrib_sign t1 t2 ts te t h1 right hl hu
    obtain ⟨_, q2⟩ := B4_contrib_sign t2 t1 ts te t h2 right hl hu
    unfold spikeSpec
    exact distAtT_small_m _ _ _ _ m ri q1 q2 (hm t right hl hu))
  rw [List.forall₂_eq_eq_eq] at e1 e2
  exact Prod.ext (C5_spikeProfile_breaks_indep_mrts t1 t2 ts te m ri) (Prod.ext e1 e2)


example : ValidNE [0, 1, 3] 0 6 ∧ ValidNE [2, 3, 6] 0 6 ∧ (0 : Q) < 6 ∧
    ¬ OneSpikeOnStart [0, 1, 3] 0 ∧ ¬ OneSpikeOnStart [2, 3, 6] 0 ∧ (0:Q) ≤ 1 := by
  unfold ValidNE; decide +kernel
/-- MRTS really matters -/
example : (spikeProfile [0, 1, 3] [2, 3, 6] 0 6 0 false).2.1 ≠
    (spikeProfile [0, 1, 3] [2, 3, 6] 0 6 5 false).2.1 := by decide +kernel

theorem C5_exists_below (ts t : Q) (hts : ts < t) : ∀ (c : List Q), (∀ z ∈ c, z < t) →
    ∃ t', ts ≤ t' ∧ t' < t ∧ ∀ z ∈ c, z ≤ t'
  | [], _ => ⟨ts, le_refl _, hts, by simp⟩
  | a :: c, h => by
    obtain ⟨t', p1, p2, p3⟩ := C5_exists_below ts t hts c (fun z hz => h z (List.mem_cons_of_mem _ hz))
    refine ⟨max t' a, le_trans p1 (le_max_left _ _), max_lt p2 (h a (by simp)), ?_⟩
    intro z hz
    rcases List.mem_cons.mp hz with e | e
    · rw [e]; exact le_max_right _ _
    · exact le_trans (p3 z e) (le_max_left _ _)

/-- the interval lengths used by the definition for a left limit at `t` are the `nuAt` values at a
    slightly earlier time (the same for both trains) -/
theorem C5_contrib_left_isi (s1 s2 : List Q) (ts te t : Q) (h1 : ValidNE s1 ts te)
    (h2 : ValidNE s2 ts te) (hl : ts < t) :
    ∃ t', ts ≤ t' ∧ t' < t ∧ (spikeContrib s1 s2 ts te t false).2 = nuAt s1 ts te t' ∧
      (spikeContrib s2 s1 ts te t false).2 = nuAt s2 ts te t' := by
  have hc : ∀ (s : List Q), ∀ z ∈ s.filter (· < t), z < t :=
    fun s z hz => by simpa using (List.mem_filter.mp hz).2
  have hr : ∀ (s : List Q), ∀ z ∈ s.filter (t ≤ ·), t ≤ z :=
    fun s z hz => by simpa using (List.mem_filter.mp hz).2
  obtain ⟨t', p1, p2, p3⟩ := C5_exists_below ts t hl (s1.filter (· < t) ++ s2.filter (· < t)) (by
    intro z hz
    rcases List.mem_append.mp hz with e | e
    · exact hc s1 z e
    · exact hc s2 z e)
  refine ⟨t', p1, p2, ?_, ?_⟩
  · have hsplit := B4_filter_lt_append_le s1 t h1.2.1
    rw [B4_contrib_left s1 s2 ts te t _ _ hsplit h1.2.1 h1.1 (hc s1) (hr s1)]
    exact B4_nuform_eq_nuAt s1 ts te t' _ _ hsplit h1.1
      (fun z hz => p3 z (List.mem_append_left _ hz)) (fun z hz => lt_of_lt_of_le p2 (hr s1 z hz))
  · have hsplit := B4_filter_lt_append_le s2 t h2.2.1
    rw [B4_contrib_left s2 s1 ts te t _ _ hsplit h2.2.1 h2.1 (hc s2) (hr s2)]
    exact B4_nuform_eq_nuAt s2 ts te t' _ _ hsplit h2.1
      (fun z hz => p3 z (List.mem_append_right _ hz)) (fun z hz => lt_of_lt_of_le p2 (hr s2 z hz))

/-- the form asked for: an MRTS that is, at every time of the recording, not above the mean of the
    two current interval lengths `nuAt` leaves the SPIKE-profile unchanged -/
theorem C5_spikeProfile_small_mrts' (t1 t2 : List Q) (ts te m : Q) (ri : Bool)
    (h1 : ValidNE t1 ts te) (h2 : ValidNE t2 ts te) (hlt : ts < te)
    (hn1 : ¬ OneSpikeOnStart t1 ts) (hn2 : ¬ OneSpikeOnStart t2 ts)
    (hm : ∀ t, ts ≤ t → t < te → m ≤ (nuAt t1 ts te t + nuAt t2 ts te t) / 2) :
    spikeProfile t1 t2 ts te m ri = spikeProfile t1 t2 ts te 0 ri := by
  apply C5_spikeProfile_small_mrts t1 t2 ts te m ri h1 h2 hlt hn1 hn2
  intro t right hl hu
  cases right
  · simp only [Bool.false_eq_true, if_false] at hl hu
    obtain ⟨t', p1, p2, e1, e2⟩ := C5_contrib_left_isi t1 t2 ts te t h1 h2 hl
    rw [e1, e2]
    exact hm t' p1 (lt_of_lt_of_le p2 hu)
  · simp only [if_true] at hl hu
    rw [B4_contrib_isi_eq_nuAt t1 t2 ts te t h1.2.1 h1.1, B4_contrib_isi_eq_nuAt t2 t1 ts te t h2.2.1 h2.1]
    exact hm t hl hu

/-- **2d.** `MRTS = 0` is the non-adaptive SPIKE dissimilarity by definition -/
theorem C5_spikeSpec_zero_mrts (t1 t2 : List Q) (ts te t : Q) (right : Bool)
    (h1 : ValidNE t1 ts te) (h2 : ValidNE t2 ts te)
    (hl : if right then ts ≤ t else ts < t) (hu : if right then t < te else t ≤ te) :
    spikeSpec t1 t2 ts te 0 false t right =
      (((spikeContrib t1 t2 ts te t right).1 * (spikeContrib t2 t1 ts te t right).2 +
          (spikeContrib t2 t1 ts te t right).1 * (spikeContrib t1 t2 ts te t right).2) / 2) /
        ((((spikeContrib t1 t2 ts te t right).2 + (spikeContrib t2 t1 ts te t right).2) / 2) *
          (((spikeContrib t1 t2 ts te t right).2 + (spikeContrib t2 t1 ts te t right).2) / 2)) ∧
    spikeSpec t1 t2 ts te 0 true t right =
      (((spikeContrib t1 t2 ts te t right).1 + (spikeContrib t2 t1 ts te t right).1) / 2) /
        (((spikeContrib t1 t2 ts te t right).2 + (spikeContrib t2 t1 ts te t right).2) / 2) := by
  obtain ⟨_, q1⟩ := B4_contrib_sign t1 t2 ts te t h1 right hl hu
  obtain ⟨_, q2⟩ := B4_contrib_sign t2 t1 ts te t h2 right hl hu
  have hmean : 0 ≤ ((spikeContrib t1 t2 ts te t right).2 + (spikeContrib t2 t1 ts te t right).2) / 2 := by
    linarith
  unfold spikeSpec distAtT
  simp [max_eq_right hmean]

/-! ## 5. the `MRTS='auto'` threshold -/

theorem C5_qsum_sq_nonneg : ∀ l : List Q, 0 ≤ qsum (l.map fun x => x * x)
  | [] => le_refl _
  | a :: l => by
    have := C5_qsum_sq_nonneg l
    simp only [List.map_cons, qsum]
    nlinarith [mul_self_nonneg a]

theorem C5_qsum_sq_pos : ∀ l : List Q, (∃ x ∈ l, x ≠ 0) → 0 < qsum (l.map fun x => x * x)
  | [], h => by obtain ⟨x, hx, _⟩ := h; simp at hx
  | a :: l, h => by
    obtain ⟨x, hx, hne⟩ := h
    simp only [List.map_cons, qsum]
    rcases List.mem_cons.mp hx with e | e
    · have : 0 < a * a := by rw [← e]; exact mul_self_pos.mpr hne
      have := C5_qsum_sq_nonneg l
      linarith
    · have := C5_qsum_sq_pos l ⟨x, e, hne⟩
      have := mul_self_nonneg a
      linarith

/-- the pooled list of a strictly sorted train inside `[ts, te]`, `ts < te`, always contains a
    positive length (also on the F7 inputs) -/
theorem C5_isiLengths_has_pos (s : List Q) (ts te : Q) (hlt : ts < te) (hs : s.Pairwise (· < ·))
    (hb : ∀ x ∈ s, ts ≤ x ∧ x ≤ te) : ∃ x ∈ isiLengths s ts te, 0 < x := by
  match s, hs, hb with
  | [], _, _ => exact ⟨te - ts, by simp [isiLengths], by linarith⟩
  | [a], _, hb =>
    have ha := hb a (by simp)
    by_cases h : a > ts
    · refine ⟨a - ts, ?_, by linarith⟩
      simp [isiLengths, h]
    · have hats : a = ts := le_antisymm (not_lt.mp h) ha.1
      refine ⟨te - a, ?_, by linarith⟩
      have hl : a < te := by rw [hats]; exact hlt
      simp [isiLengths, h, lastD, hl]
  | a :: b :: r, hs, hb =>
    have ha := hb a (by simp)
    have hab : a < b := (List.pairwise_cons.mp hs).1 b (by simp)
    by_cases h : a > ts
    · refine ⟨max (a - ts) (b - a), ?_, lt_of_lt_of_le (by linarith) (le_max_left _ _)⟩
      simp [isiLengths, h]
    · refine ⟨b - a, ?_, by linarith⟩
      simp [isiLengths, h]

/-- the automatic threshold (squared) is the mean of the squares of the pooled `isi_lengths` of all
    trains, all taken with the edges of the first train — by definition -/
theorem C5_defaultThreshSq_def (t : Train) (L : List Train) :
    defaultThreshSq (t :: L) =
      qsum (((t :: L).flatMap fun u => isiLengths u.spikes t.ts t.te).map fun x => x * x)
        / (((t :: L).flatMap fun u => isiLengths u.spikes t.ts t.te).length : Q) := rfl

/-- **5.** the square of the automatic threshold is positive as soon as the first train (whose edges
    are used for all trains) is a strictly sorted train inside a non-degenerate recording interval:
    the threshold exists -/
theorem C5_defaultThreshSq_pos (t : Train) (L : List Train) (hlt : t.ts < t.te)
    (hs : t.spikes.Pairwise (· < ·)) (hb : ∀ x ∈ t.spikes, t.ts ≤ x ∧ x ≤ t.te) :
    0 < defaultThreshSq (t :: L) := by
  obtain ⟨x, hx, hpos⟩ := C5_isiLengths_has_pos t.spikes t.ts t.te hlt hs hb
  unfold defaultThreshSq
  simp only [List.flatMap_cons]
  have hmem : x ∈ isiLengths t.spikes t.ts t.te ++ L.flatMap (fun u => isiLengths u.spikes t.ts t.te) :=
    List.mem_append_left _ hx
  apply div_pos
  · exact C5_qsum_sq_pos _ ⟨x, hmem, ne_of_gt hpos⟩
  · have : 0 < (isiLengths t.spikes t.ts t.te ++
        L.flatMap (fun u => isiLengths u.spikes t.ts t.te)).length :=
      List.length_pos_of_mem hmem
    exact_mod_cast this

example : (⟨[1, 2, 5], 0, 6⟩ : Train).ts < (⟨[1, 2, 5], 0, 6⟩ : Train).te ∧
    (⟨[1, 2, 5], 0, 6⟩ : Train).spikes.Pairwise (· < ·) ∧
    ∀ x ∈ (⟨[1, 2, 5], 0, 6⟩ : Train).spikes, (0:Q) ≤ x ∧ x ≤ 6 := by decide +kernel
example : defaultThreshSq [⟨[1, 2, 5], 0, 6⟩, ⟨[3], 0, 6⟩] = 19 / 3 := by decide +kernel

/-! ## 4b. the pooled list and `nuAt` -/

theorem C5_mem_diffs : ∀ (s : List Q) (x : Q), x ∈ C5_diffs s →
    ∃ l1 l2 p a, s = l1 ++ p :: a :: l2 ∧ x = a - p
  | [], x, h => by simp [C5_diffs] at h
  | [_], x, h => by simp [C5_diffs] at h
  | a :: b :: r, x, h => by
    simp only [C5_diffs, List.mem_cons] at h
    rcases h with e | e
    · exact ⟨[], r, a, b, rfl, e⟩
    · obtain ⟨l1, l2, p, q, hs, hx⟩ := C5_mem_diffs (b :: r) x e
      exact ⟨a :: l1, l2, p, q, by rw [hs]; rfl, hx⟩

/-- membership in the specified list, for a non-empty train -/
theorem C5_mem_isiListSpec (a : Q) (r : List Q) (ts te x : Q) :
    x ∈ isiListSpec (a :: r) ts te ↔
      (ts < a ∧ x = C5_startEdge (a :: r) ts) ∨ x ∈ C5_diffs (a :: r) ∨
      (lastD (a :: r) a < te ∧ x = C5_endEdge (a :: r) te) := by
  unfold isiListSpec
  simp only [List.mem_append]
  by_cases h1 : ts < a <;> by_cases h2 : lastD (a :: r) a < te <;> simp [h1, h2, or_assoc]

theorem C5_endEdge_snoc (c : List Q) (q te : Q) :
    C5_endEdge (c ++ [q]) te = B4_endNu te q c.getLast? := by
  unfold C5_endEdge
  rw [List.getLast?_append, List.dropLast_concat]
  cases c.getLast? <;> simp [B4_endNu]

theorem C5_lastD_snoc (c : List Q) (q a : Q) (r : List Q) (h : a :: r = c ++ [q]) :
    lastD (a :: r) a = q := by
  have h1 := C5_lastD_eq_getLast? r a a
  rw [h] at h1
  simp at h1
  rw [h]; exact h1.symm

theorem C5_nuform_mem (a : Q) (r : List Q) (ts te t : Q) (c r' : List Q)
    (hsplit : a :: r = c ++ r') (hc : ∀ z ∈ c, z ≤ t) (hr : ∀ z ∈ r', t < z)
    (h1 : ts ≤ t) (h2 : t < te) : B4_nuform ts te c r' ∈ isiListSpec (a :: r) ts te := by
  rw [C5_mem_isiListSpec]
  rcases List.eq_nil_or_concat c with hcn | ⟨c', q, hcq⟩
  · subst hcn
    rw [List.nil_append] at hsplit
    subst hsplit
    left
    refine ⟨lt_of_le_of_lt h1 (hr a (by simp)), ?_⟩
    cases r <;> rfl
  · rw [List.concat_eq_append] at hcq
    subst hcq
    have hq : q ≤ t := hc q (by simp)
    cases r' with
    | nil =>
      right; right
      rw [List.append_nil] at hsplit
      refine ⟨by rw [C5_lastD_snoc c' q a r hsplit]; exact lt_of_le_of_lt hq h2, ?_⟩
      rw [hsplit, C5_endEdge_snoc]
      unfold B4_nuform
      simp
    | cons b r'' =>
      right; left
      have : B4_nuform ts te (c' ++ [q]) (b :: r'') = b - q := by unfold B4_nuform; simp
      rw [this, hsplit, List.append_assoc]
      exact C5_diffs_mem_mid c' r'' q b

/-- **4b (⊆).** at every time of the recording the current interval length `nuAt` of a strictly
    sorted train is one of the entries of the specified pooled list -/
theorem C5_nuAt_mem_isiListSpec (s : List Q) (ts te t : Q) (hs : s.Pairwise (· < ·))
    (h1 : ts ≤ t) (h2 : t < te) : nuAt s ts te t ∈ isiListSpec s ts te := by
  cases s with
  | nil => simp [nuAt, isiListSpec]
  | cons a r =>
    have hsplit := B4_filter_le_append_lt (a :: r) t hs
    have hc : ∀ z ∈ (a :: r).filter (· ≤ t), z ≤ t := fun z hz => by
      simpa using (List.mem_filter.mp hz).2
    have hr : ∀ z ∈ (a :: r).filter (t < ·), t < z := fun z hz => by
      simpa using (List.mem_filter.mp hz).2
    rw [← B4_nuform_eq_nuAt (a :: r) ts te t _ _ hsplit (by simp) hc hr]
    exact C5_nuform_mem a r ts te t _ _ hsplit hc hr h1 h2

/-- **4b (⊇).** conversely every entry of the specified pooled list is the interval length `nuAt`
    at some time of the recording -/
theorem C5_isiListSpec_mem_nuAt (s : List Q) (ts te x : Q) (hlt : ts < te) (hs : s.Pairwise (· < ·))
    (hb : ∀ z ∈ s, ts ≤ z ∧ z ≤ te) (hx : x ∈ isiListSpec s ts te) :
    ∃ t, ts ≤ t ∧ t < te ∧ nuAt s ts te t = x := by
  cases s with
  | nil =>
    refine ⟨ts, le_refl _, hlt, ?_⟩
    simp only [isiListSpec, List.mem_singleton] at hx
    rw [hx]; simp [nuAt]
  | cons a r =>
    rcases (C5_mem_isiListSpec a r ts te x).mp hx with ⟨h1, e⟩ | e | ⟨h1, e⟩
    · refine ⟨ts, le_refl _, hlt, ?_⟩
      rw [nuAt_before a r ts te ts (head_lt_all hs h1), e]
      cases r <;> rfl
    · obtain ⟨l1, l2, p, q, hsp, hxe⟩ := C5_mem_diffs (a :: r) x e
      rw [hsp] at hs hb ⊢
      have hp := List.pairwise_append.mp hs
      have hp2 := List.pairwise_cons.mp hp.2.1
      have hpq : p < q := hp2.1 q (by simp)
      refine ⟨p, (hb p (by simp)).1, lt_of_lt_of_le hpq (hb q (by simp)).2, ?_⟩
      rw [nuAt_split l1 (q :: l2) p ts te p (fun z hz => le_of_lt (hp.2.2 z hz p (by simp)))
        (le_refl _) hp2.1, hxe]
      rfl
    · obtain ⟨c', q, hcq⟩ : ∃ c' q, a :: r = c' ++ [q] := by
        rcases List.eq_nil_or_concat (a :: r) with h | ⟨c', q, h⟩
        · cases h
        · exact ⟨c', q, by rw [h, List.concat_eq_append]⟩
      have hq : q < te := by rw [← C5_lastD_snoc c' q a r hcq]; exact h1
      rw [hcq] at hs hb e ⊢
      have hp := List.pairwise_append.mp hs
      refine ⟨q, (hb q (by simp)).1, hq, ?_⟩
      rw [nuAt_split c' [] q ts te q (fun z hz => le_of_lt (hp.2.2 z hz q (by simp)))
        (le_refl _) (by simp), e, C5_endEdge_snoc]
      unfold nuAfter B4_endNu
      cases c'.getLast? <;> rfl

example : ([1, 2, 5] : List Q).Pairwise (· < ·) ∧ (0:Q) ≤ 3 ∧ (3:Q) < 6 ∧
    nuAt [1, 2, 5] 0 6 3 = 3 ∧ isiListSpec [1, 2, 5] 0 6 = [1, 1, 3, 3] := by decide +kernel

end PySpike
