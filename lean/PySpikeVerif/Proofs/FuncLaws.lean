/-
  Proofs/FuncLaws.lean — elementary laws of the function-class models: averages of bounded
  functions are bounded, scaling is linear.
-/
import PySpikeVerif.Model.Funcs
import PySpikeVerif.Proofs.Basic

namespace PySpike

theorem qsum_append (a b : List Q) : qsum (a ++ b) = qsum a + qsum b := by
  induction a with
  | nil => simp [qsum]
  | cons x r ih => simp [qsum, ih]; ring

theorem qsum_map_mul (l : List Q) (c : Q) : qsum (l.map (· * c)) = qsum l * c := by
  induction l with
  | nil => simp [qsum]
  | cons x r ih => simp [qsum, ih]; ring

/-- weighted sum over the pieces of a piecewise constant function, and total width -/
theorem pieces_sum_bounds (lo hi : Q) :
    ∀ (xs ys : List Q), xs.Pairwise (· < ·) → (∀ y ∈ ys, lo ≤ y ∧ y ≤ hi) →
      ys.length + 1 = xs.length →
      lo * (lastD xs 0 - xs.headD 0) ≤ (Pwc.mk xs ys).integralAll ∧
      (Pwc.mk xs ys).integralAll ≤ hi * (lastD xs 0 - xs.headD 0) := by
  intro xs
  induction xs with
  | nil => intro ys _ _ hl; simp at hl
  | cons a r ih =>
    intro ys hs hy hl
    cases r with
    | nil =>
      have : ys = [] := by
        cases ys with
        | nil => rfl
        | cons _ _ => simp at hl
      subst this
      simp [Pwc.integralAll, Pwc.pieces, qsum, lastD]
    | cons b r' =>
      cases ys with
      | nil => simp at hl
      | cons y ys' =>
        have hs' := List.pairwise_cons.mp hs
        have hab : a < b := hs'.1 b (by simp)
        have hy0 := hy y (by simp)
        have := ih ys' hs'.2 (fun z hz => hy z (by simp [hz])) (by simp at hl ⊢; omega)
        have hint : (Pwc.mk (a :: b :: r') (y :: ys')).integralAll
            = (b - a) * y + (Pwc.mk (b :: r') ys').integralAll := by
          simp [Pwc.integralAll, Pwc.pieces, qsum]
        rw [hint]
        have hlast : lastD (a :: b :: r') 0 = lastD (b :: r') 0 := by simp [lastD]
        rw [hlast]
        simp only [List.headD_cons] at this ⊢
        have hw : 0 < b - a := by linarith
        constructor
        · nlinarith [this.1, hy0.1]
        · nlinarith [this.2, hy0.2]

/-- the average of a piecewise constant function whose values lie in `[lo, hi]` lies in `[lo, hi]` -/
theorem Pwc.avrgAll_bounds (lo hi : Q) (xs ys : List Q) (hs : xs.Pairwise (· < ·))
    (hy : ∀ y ∈ ys, lo ≤ y ∧ y ≤ hi) (hl : ys.length + 1 = xs.length) (h2 : 2 ≤ xs.length) :
    lo ≤ (Pwc.mk xs ys).avrgAll ∧ (Pwc.mk xs ys).avrgAll ≤ hi := by
  obtain ⟨h1, h2'⟩ := pieces_sum_bounds lo hi xs ys hs hy hl
  have hpos : 0 < lastD xs 0 - xs.headD 0 := by
    cases xs with
    | nil => simp at h2
    | cons a r =>
      cases r with
      | nil => simp at h2
      | cons b r' =>
        have hs' := List.pairwise_cons.mp hs
        have : a < lastD (a :: b :: r') 0 := by
          have hmem : lastD (b :: r') 0 ∈ b :: r' := by
            clear hs hy hl h1 h2' h2 hs'
            induction r' generalizing b with
            | nil => simp [lastD]
            | cons c r'' ih => simp only [lastD]; exact List.mem_cons_of_mem _ (ih c)
          simp only [lastD]
          exact hs'.1 _ hmem
        simpa using this
  unfold Pwc.avrgAll
  constructor
  · rw [le_div_iff₀ hpos]; exact h1
  · rw [div_le_iff₀ hpos]; exact h2'

end PySpike
