/-
  Proofs/MirrorIsi.lean — work package B9: time reversal mirrors the ISI-profile
  (property C08, mirror clause, ISI).
  `ψ x = ts + te - x`, `mir s = (s.map ψ).reverse`.
-/
import PySpikeVerif.Spec.Isi
import PySpikeVerif.Spec.Funcs
import PySpikeVerif.Proofs.Basic
import PySpikeVerif.Proofs.Isi
import PySpikeVerif.Proofs.Reconcile
import Mathlib.Data.List.Basic
import Mathlib.Tactic.Linarith
import Mathlib.Tactic.Ring
import Mathlib.Algebra.Order.Field.Rat

namespace PySpike

/-- reflection about the midpoint of the recording `[ts, te]` -/
def B9_psi (ts te x : Q) : Q := ts + te - x

/-- the mirrored spike train -/
def B9_mir (ts te : Q) (s : List Q) : List Q := (s.map (B9_psi ts te)).reverse

theorem B9_psi_psi (ts te x : Q) : B9_psi ts te (B9_psi ts te x) = x := by
  unfold B9_psi; ring

theorem B9_psi_ts (ts te : Q) : B9_psi ts te ts = te := by unfold B9_psi; ring
theorem B9_psi_te (ts te : Q) : B9_psi ts te te = ts := by unfold B9_psi; ring

theorem B9_psi_lt {ts te x y : Q} : B9_psi ts te x < B9_psi ts te y ↔ y < x := by
  unfold B9_psi; constructor <;> intro h <;> linarith

theorem B9_psi_le {ts te x y : Q} : B9_psi ts te x ≤ B9_psi ts te y ↔ y ≤ x := by
  unfold B9_psi; constructor <;> intro h <;> linarith

theorem B9_psi_inj {ts te x y : Q} (h : B9_psi ts te x = B9_psi ts te y) : x = y := by
  unfold B9_psi at h; linarith

theorem B9_psi_eq_iff {ts te x y : Q} : B9_psi ts te x = y ↔ x = B9_psi ts te y := by
  unfold B9_psi; constructor <;> intro h <;> linarith

theorem B9_mem_mir {ts te : Q} {s : List Q} {x : Q} :
    x ∈ B9_mir ts te s ↔ B9_psi ts te x ∈ s := by
  unfold B9_mir
  rw [List.mem_reverse, List.mem_map]
  constructor
  · rintro ⟨y, hy, rfl⟩; rw [B9_psi_psi]; exact hy
  · intro h; exact ⟨_, h, B9_psi_psi ts te x⟩

theorem B9_mir_mir (ts te : Q) (s : List Q) : B9_mir ts te (B9_mir ts te s) = s := by
  unfold B9_mir
  rw [List.map_reverse, List.reverse_reverse, List.map_map]
  have : (B9_psi ts te ∘ B9_psi ts te) = id := by funext x; exact B9_psi_psi ts te x
  rw [this, List.map_id]

/-- mirroring reverses a strictly increasing list into a strictly increasing one -/
theorem B9_mir_sorted {ts te : Q} {s : List Q} (h : s.Pairwise (· < ·)) :
    (B9_mir ts te s).Pairwise (· < ·) := by
  unfold B9_mir
  rw [List.pairwise_reverse, List.pairwise_map]
  exact h.imp (fun {a b} hab => B9_psi_lt.mpr hab)

/-- item 1: the mirrored train is again a valid non-empty train on the same recording -/
theorem B9_mir_valid {s : List Q} {ts te : Q} (h : ValidNE s ts te) :
    ValidNE (B9_mir ts te s) ts te := by
  obtain ⟨hne, hs, hb⟩ := h
  refine ⟨?_, B9_mir_sorted hs, ?_⟩
  · unfold B9_mir; simpa using hne
  · intro x hx
    have := hb _ (B9_mem_mir.mp hx)
    unfold B9_psi at this
    constructor <;> linarith [this.1, this.2]

example : ValidNE (B9_mir 0 10 [1, 4, 10]) 0 10 :=
  B9_mir_valid (by unfold ValidNE; refine ⟨by simp, by decide +kernel, by decide +kernel⟩)

example : B9_mir 0 10 [1, 4, 10] = [0, 6, 9] := by decide +kernel

/-! ## item 2: `nuAt` under mirroring -/

theorem B9_filter_mir (ts te : Q) (s : List Q) (p q : Q → Bool)
    (h : ∀ x ∈ s, p (B9_psi ts te x) = q x) :
    (B9_mir ts te s).filter p = B9_mir ts te (s.filter q) := by
  unfold B9_mir
  rw [List.filter_reverse, List.filter_map]
  congr 2
  apply List.filter_congr
  intro x hx
  exact h x hx

theorem B9_mir_getLast? (ts te : Q) (l : List Q) :
    (B9_mir ts te l).getLast? = l.head?.map (B9_psi ts te) := by
  unfold B9_mir; rw [List.getLast?_reverse, List.head?_map]

theorem B9_mir_head? (ts te : Q) (l : List Q) :
    (B9_mir ts te l).head? = l.getLast?.map (B9_psi ts te) := by
  unfold B9_mir; rw [List.head?_reverse, List.getLast?_map]

theorem B9_mir_tail (ts te : Q) (l : List Q) :
    (B9_mir ts te l).tail = B9_mir ts te l.dropLast := by
  unfold B9_mir; rw [List.tail_reverse, List.map_dropLast]

theorem B9_mir_dropLast (ts te : Q) (l : List Q) :
    (B9_mir ts te l).dropLast = B9_mir ts te l.tail := by
  unfold B9_mir; rw [List.dropLast_reverse, List.map_tail]

/-- general form: only `t ∉ s` is needed -/
theorem B9_nuAt_mirror_gen (s : List Q) (ts te t : Q) (hnot : t ∉ s) :
    nuAt (B9_mir ts te s) ts te (B9_psi ts te t) = nuAt s ts te t := by
  have hb : (B9_mir ts te s).filter (· ≤ B9_psi ts te t) = B9_mir ts te (s.filter (t < ·)) := by
    apply B9_filter_mir
    intro x hx
    have hne : x ≠ t := fun h => hnot (h ▸ hx)
    have : (B9_psi ts te x ≤ B9_psi ts te t) ↔ (t < x) := by
      rw [B9_psi_le]; exact ⟨fun h => lt_of_le_of_ne h (Ne.symm hne), le_of_lt⟩
    simp only [this]
  have ha : (B9_mir ts te s).filter (B9_psi ts te t < ·) = B9_mir ts te (s.filter (· ≤ t)) := by
    apply B9_filter_mir
    intro x hx
    have hne : x ≠ t := fun h => hnot (h ▸ hx)
    have : (B9_psi ts te t < B9_psi ts te x) ↔ (x ≤ t) := by
      rw [B9_psi_lt]; exact ⟨le_of_lt, fun h => lt_of_le_of_ne h hne⟩
    simp only [this]
  unfold nuAt
  simp only [hb, ha, B9_mir_getLast?, B9_mir_head?, B9_mir_tail, B9_mir_dropLast]
  cases h1 : (s.filter (· ≤ t)).getLast? with
  | none =>
    cases h2 : (s.filter (t < ·)).head? with
    | none => simp only [Option.map_none]
    | some f =>
      simp only [Option.map_some, Option.map_none]
      cases h3 : (s.filter (t < ·)).tail.head? with
      | none => simp only [Option.map_none]; unfold B9_psi; ring
      | some g => simp only [Option.map_some]; unfold B9_psi; congr 1 <;> ring
  | some p =>
    cases h2 : (s.filter (t < ·)).head? with
    | none =>
      simp only [Option.map_some, Option.map_none]
      cases h3 : (s.filter (· ≤ t)).dropLast.getLast? with
      | none => simp only [Option.map_none]; unfold B9_psi; ring
      | some g => simp only [Option.map_some]; unfold B9_psi; congr 1 <;> ring
    | some f => simp only [Option.map_some]; unfold B9_psi; ring

/-- item 2 -/
theorem nuAt_mirror (s : List Q) (ts te t : Q) (_hv : ValidNE s ts te) (_hlt : ts < te)
    (_h1 : ts < t) (_h2 : t < te) (hnot : t ∉ s) :
    nuAt (B9_mir ts te s) ts te (B9_psi ts te t) = nuAt s ts te t :=
  B9_nuAt_mirror_gen s ts te t hnot

example : nuAt (B9_mir 0 10 [1, 4, 10]) 0 10 (B9_psi 0 10 (1/2)) = nuAt [1, 4, 10] 0 10 (1/2) :=
  nuAt_mirror _ _ _ _ (by unfold ValidNE; refine ⟨by simp, by decide +kernel, by decide +kernel⟩)
    (by norm_num) (by norm_num) (by norm_num) (by decide +kernel)

/-! ## item 3: the profile of the mirrored trains -/

theorem B9_mir_length (ts te : Q) (l : List Q) : (B9_mir ts te l).length = l.length := by
  unfold B9_mir; simp

theorem B9_mir_getElem (ts te : Q) (xs : List Q) (k : Nat) (hk : k < (B9_mir ts te xs).length) :
    (B9_mir ts te xs)[k] =
      B9_psi ts te (xs[xs.length - 1 - k]'(by rw [B9_mir_length] at hk; omega)) := by
  simp only [B9_mir, List.getElem_reverse, List.getElem_map, List.length_map]

/-- breakpoint half of item 3 -/
theorem B9_isiProfile_mirror_breaks (s1 s2 : List Q) (ts te m : Q) (hlt : ts < te)
    (h1 : ValidNE s1 ts te) (h2 : ValidNE s2 ts te) :
    (isiProfile (B9_mir ts te s1) (B9_mir ts te s2) ts te m).1
      = B9_mir ts te (isiProfile s1 s2 ts te m).1 := by
  obtain ⟨hs, hm⟩ := isiProfile_breaks s1 s2 ts te m hlt h1 h2
  obtain ⟨hs', hm'⟩ := isiProfile_breaks _ _ ts te m hlt (B9_mir_valid h1) (B9_mir_valid h2)
  refine eq_of_strictSorted_of_mem_iff hs' (B9_mir_sorted hs) (fun x => ?_)
  rw [hm' x]
  simp only [B9_mem_mir]
  rw [hm (B9_psi ts te x)]
  have e1 : B9_psi ts te x = ts ↔ x = te := by unfold B9_psi; constructor <;> intro h <;> linarith
  have e2 : B9_psi ts te x = te ↔ x = ts := by unfold B9_psi; constructor <;> intro h <;> linarith
  have e3 : ts < B9_psi ts te x ↔ x < te := by unfold B9_psi; constructor <;> intro h <;> linarith
  have e4 : B9_psi ts te x < te ↔ ts < x := by unfold B9_psi; constructor <;> intro h <;> linarith
  rw [e1, e2, e3, e4]
  tauto

/-- a time strictly inside a piece of a strictly increasing breakpoint list is not a breakpoint -/
theorem B9_inside_not_mem {xs : List Q} (hs : xs.Pairwise (· < ·)) (k : Nat)
    (hk : k + 1 < xs.length) {t : Q} (h1 : xs[k] < t) (h2 : t < xs[k+1]) : t ∉ xs := by
  intro hmem
  obtain ⟨i, hi, rfl⟩ := List.getElem_of_mem hmem
  have hp := List.pairwise_iff_getElem.mp hs
  rcases Nat.lt_or_ge i (k + 1) with hik | hik
  · rcases Nat.lt_or_ge i k with hik' | hik'
    · exact absurd (hp i k hi (by omega) hik') (not_lt.mpr (le_of_lt h1))
    · have : i = k := by omega
      subst this
      exact lt_irrefl _ h1
  · rcases Nat.lt_or_ge (k + 1) i with hik' | hik'
    · exact absurd (hp (k+1) i hk hi hik') (not_lt.mpr (le_of_lt h2))
    · have : i = k + 1 := by omega
      subst this
      exact lt_irrefl _ h2

/-- two piecewise constant functions, one on `xs`, one on the mirrored breakpoints, whose
    specifications agree at the mirrored midpoints of the pieces have reversed value lists -/
theorem B9_values_of_matches (ts te : Q) (f g : Q → Q) (xs ys ys' : List Q)
    (hs : xs.Pairwise (· < ·))
    (hm : PwcMatches f xs ys) (hm' : PwcMatches g (B9_mir ts te xs) ys')
    (hfg : ∀ k (hk : k + 1 < xs.length),
      g (B9_psi ts te ((xs[k] + xs[k+1]) / 2)) = f ((xs[k] + xs[k+1]) / 2)) :
    ys' = ys.reverse := by
  obtain ⟨hl, hv⟩ := hm
  obtain ⟨hl', hv'⟩ := hm'
  rw [B9_mir_length] at hl'
  have hlen : ys'.length = ys.length := by omega
  apply List.ext_getElem (by simpa using hlen)
  intro k hk hk2
  rw [List.getElem_reverse]
  have hp := List.pairwise_iff_getElem.mp hs
  have hj1 : ys.length - 1 - k + 1 < xs.length := by omega
  have hlt := hp (ys.length - 1 - k) (ys.length - 1 - k + 1) (by omega) hj1 (by omega)
  have ea : (B9_mir ts te xs)[k]'(by rw [B9_mir_length]; omega)
      = B9_psi ts te (xs[ys.length - 1 - k + 1]) := by
    rw [B9_mir_getElem]; congr 1; exact getElem_congr_idx (by omega)
  have eb : (B9_mir ts te xs)[k+1]'(by rw [B9_mir_length]; omega)
      = B9_psi ts te (xs[ys.length - 1 - k]) := by
    rw [B9_mir_getElem]; congr 1; exact getElem_congr_idx (by omega)
  have hA := hv' k hk (by rw [B9_mir_length]; omega)
    (B9_psi ts te ((xs[ys.length - 1 - k] + xs[ys.length - 1 - k + 1]) / 2))
    (by rw [ea, B9_psi_le]; linarith) (by rw [eb, B9_psi_lt]; linarith)
  have hB := hv (ys.length - 1 - k) (by omega) hj1
    ((xs[ys.length - 1 - k] + xs[ys.length - 1 - k + 1]) / 2) (by linarith) (by linarith)
  rw [hA, hB]
  exact hfg _ hj1

/-- item 3: time reversal mirrors the ISI-profile: breakpoints mirrored, piece values in reverse
    order -/
theorem isiProfile_mirror (s1 s2 : List Q) (ts te m : Q) (hlt : ts < te)
    (h1 : ValidNE s1 ts te) (h2 : ValidNE s2 ts te) :
    isiProfile (B9_mir ts te s1) (B9_mir ts te s2) ts te m
      = (((isiProfile s1 s2 ts te m).1.map (B9_psi ts te)).reverse,
         (isiProfile s1 s2 ts te m).2.reverse) := by
  have hx := B9_isiProfile_mirror_breaks s1 s2 ts te m hlt h1 h2
  obtain ⟨hs, hmem⟩ := isiProfile_breaks s1 s2 ts te m hlt h1 h2
  have hM := isiProfile_matches s1 s2 ts te m h1 h2
  have hM' := isiProfile_matches _ _ ts te m (B9_mir_valid h1) (B9_mir_valid h2)
  rw [hx] at hM'
  have hy := B9_values_of_matches ts te _ _ _ _ _ hs hM hM' (by
    intro k hk
    set xs := (isiProfile s1 s2 ts te m).1 with hxs
    have hp := List.pairwise_iff_getElem.mp hs
    have hlt' := hp k (k+1) (by omega) hk (by omega)
    have hin : ∀ x ∈ xs, ts ≤ x ∧ x ≤ te := by
      intro x hx
      rcases (hmem x).mp hx with h | h | ⟨ha, hb, _⟩
      · rw [h]; exact ⟨le_refl _, le_of_lt hlt⟩
      · rw [h]; exact ⟨le_of_lt hlt, le_refl _⟩
      · exact ⟨le_of_lt ha, le_of_lt hb⟩
    have ha := (hin _ (List.getElem_mem (by omega : k < xs.length))).1
    have hb := (hin _ (List.getElem_mem hk)).2
    have hnot : (xs[k] + xs[k+1]) / 2 ∉ xs :=
      B9_inside_not_mem hs k hk (by linarith) (by linarith)
    have hn : ∀ s, s = s1 ∨ s = s2 → (xs[k] + xs[k+1]) / 2 ∉ s := by
      intro s hs12 hin'
      apply hnot
      rw [hmem]
      refine Or.inr (Or.inr ⟨by linarith, by linarith, ?_⟩)
      rcases hs12 with h | h
      · left; exact h ▸ hin'
      · right; exact h ▸ hin'
    unfold isiSpec
    rw [B9_nuAt_mirror_gen s1 ts te _ (hn s1 (Or.inl rfl)),
        B9_nuAt_mirror_gen s2 ts te _ (hn s2 (Or.inr rfl))])
  rw [Prod.ext_iff]
  exact ⟨hx, hy⟩

example : isiProfile (B9_mir 0 10 [1, 4, 10]) (B9_mir 0 10 [2, 3]) 0 10 0
    = (((isiProfile [1, 4, 10] [2, 3] 0 10 0).1.map (B9_psi 0 10)).reverse,
       (isiProfile [1, 4, 10] [2, 3] 0 10 0).2.reverse) :=
  isiProfile_mirror _ _ _ _ _ (by norm_num)
    (by unfold ValidNE; refine ⟨by simp, by decide +kernel, by decide +kernel⟩)
    (by unfold ValidNE; refine ⟨by simp, by decide +kernel, by decide +kernel⟩)

/-! ## item 4: the integral (hence the ISI distance) is unchanged by mirroring -/

theorem B9_integralAll_cons (a b v : Q) (xs ys : List Q) :
    (Pwc.mk (a :: b :: xs) (v :: ys)).integralAll
      = (b - a) * v + (Pwc.mk (b :: xs) ys).integralAll := by
  simp [Pwc.integralAll, Pwc.pieces, qsum]

theorem B9_integralAll_snoc (a b v : Q) : ∀ (xs ys : List Q), ys.length = xs.length →
    (Pwc.mk (xs ++ [a, b]) (ys ++ [v])).integralAll
      = (Pwc.mk (xs ++ [a]) ys).integralAll + (b - a) * v
  | [], [], _ => by simp [Pwc.integralAll, Pwc.pieces, qsum]
  | [], _ :: _, h => by simp at h
  | _ :: _, [], h => by simp at h
  | [c], [w], _ => by simp [Pwc.integralAll, Pwc.pieces, qsum]
  | [_], _ :: _ :: _, h => by simp at h
  | _ :: _ :: _, [_], h => by simp at h
  | c :: d :: xs, w :: w' :: ys, h => by
    have ih := B9_integralAll_snoc a b v (d :: xs) (w' :: ys) (by simpa using h)
    simp only [List.cons_append] at ih ⊢
    rw [B9_integralAll_cons, B9_integralAll_cons, ih]
    ring

/-- reversing the time axis of a piecewise constant function leaves its integral unchanged -/
theorem B9_integralAll_mir (ts te : Q) : ∀ (xs ys : List Q), ys.length + 1 = xs.length →
    (Pwc.mk (B9_mir ts te xs) ys.reverse).integralAll = (Pwc.mk xs ys).integralAll
  | [], _, h => by simp at h
  | [a], [], _ => by simp [B9_mir, Pwc.integralAll, Pwc.pieces, qsum]
  | [_], _ :: _, h => by simp at h
  | _ :: _ :: _, [], h => by simp at h
  | a :: b :: xs, v :: ys, h => by
    have ih := B9_integralAll_mir ts te (b :: xs) ys (by simpa using h)
    have e : B9_mir ts te (a :: b :: xs)
        = B9_mir ts te xs ++ [B9_psi ts te b, B9_psi ts te a] := by
      simp [B9_mir]
    have e' : B9_mir ts te (b :: xs) = B9_mir ts te xs ++ [B9_psi ts te b] := by
      simp [B9_mir]
    rw [e, List.reverse_cons, B9_integralAll_snoc _ _ _ _ _ (by
      rw [B9_mir_length, List.length_reverse]; simpa using h), ← e', ih, B9_integralAll_cons]
    unfold B9_psi
    ring

/-- item 4: the integral of the ISI-profile (hence the ISI distance) is unchanged by mirroring -/
theorem B9_isiProfile_mirror_integralAll (s1 s2 : List Q) (ts te m : Q) (hlt : ts < te)
    (h1 : ValidNE s1 ts te) (h2 : ValidNE s2 ts te) :
    (Pwc.mk (isiProfile (B9_mir ts te s1) (B9_mir ts te s2) ts te m).1
            (isiProfile (B9_mir ts te s1) (B9_mir ts te s2) ts te m).2).integralAll
      = (Pwc.mk (isiProfile s1 s2 ts te m).1 (isiProfile s1 s2 ts te m).2).integralAll := by
  rw [isiProfile_mirror s1 s2 ts te m hlt h1 h2]
  exact B9_integralAll_mir ts te _ _ (isiProfile_matches s1 s2 ts te m h1 h2).1

theorem B9_lastD_mir (ts te : Q) (a : Q) (xs : List Q) :
    lastD (B9_mir ts te (a :: xs)) 0 = B9_psi ts te a := by
  have : B9_mir ts te (a :: xs) = B9_mir ts te xs ++ [B9_psi ts te a] := by simp [B9_mir]
  rw [this]
  generalize B9_mir ts te xs = l
  induction l with
  | nil => rfl
  | cons c l ih =>
    cases l with
    | nil => rfl
    | cons d l => simpa [lastD] using ih

theorem B9_headD_mir (ts te : Q) (a : Q) (xs : List Q) :
    (B9_mir ts te (a :: xs)).headD 0 = B9_psi ts te (lastD (a :: xs) 0) := by
  have hmm := B9_mir_mir ts te (a :: xs)
  cases hc : B9_mir ts te (a :: xs) with
  | nil => rw [hc] at hmm; simp [B9_mir] at hmm
  | cons c l =>
    rw [hc] at hmm
    rw [← hmm, B9_lastD_mir, B9_psi_psi]
    rfl

/-- the same for the average over the whole recording (`avrgAll` = the ISI distance): first and last
    breakpoint are exchanged and mirrored, so the length of the support is unchanged too -/
theorem B9_isiProfile_mirror_avrgAll (s1 s2 : List Q) (ts te m : Q) (hlt : ts < te)
    (h1 : ValidNE s1 ts te) (h2 : ValidNE s2 ts te) :
    (Pwc.mk (isiProfile (B9_mir ts te s1) (B9_mir ts te s2) ts te m).1
            (isiProfile (B9_mir ts te s1) (B9_mir ts te s2) ts te m).2).avrgAll
      = (Pwc.mk (isiProfile s1 s2 ts te m).1 (isiProfile s1 s2 ts te m).2).avrgAll := by
  unfold Pwc.avrgAll
  rw [B9_isiProfile_mirror_integralAll s1 s2 ts te m hlt h1 h2]
  congr 1
  rw [isiProfile_mirror s1 s2 ts te m hlt h1 h2]
  have hl := (isiProfile_matches s1 s2 ts te m h1 h2).1
  show lastD (B9_mir ts te (isiProfile s1 s2 ts te m).1) 0
      - (B9_mir ts te (isiProfile s1 s2 ts te m).1).headD 0 = _
  cases hc : (isiProfile s1 s2 ts te m).1 with
  | nil => rw [hc] at hl; simp at hl
  | cons a xs =>
    rw [B9_lastD_mir, B9_headD_mir]
    unfold B9_psi
    simp only [List.headD_cons]
    ring

example : (Pwc.mk (isiProfile (B9_mir 0 10 [1, 4, 10]) (B9_mir 0 10 [2, 3]) 0 10 0).1
            (isiProfile (B9_mir 0 10 [1, 4, 10]) (B9_mir 0 10 [2, 3]) 0 10 0).2).integralAll
      = (Pwc.mk (isiProfile [1, 4, 10] [2, 3] 0 10 0).1
            (isiProfile [1, 4, 10] [2, 3] 0 10 0).2).integralAll :=
  B9_isiProfile_mirror_integralAll _ _ _ _ _ (by norm_num)
    (by unfold ValidNE; refine ⟨by simp, by decide +kernel, by decide +kernel⟩)
    (by unfold ValidNE; refine ⟨by simp, by decide +kernel, by decide +kernel⟩)

end PySpike
