/-
  Proofs/PermProfiles.lean — work package D3 (property C06): the multivariate PROFILES
  (`isi_profile_multi`, `spike_profile_multi`, `spike_sync_profile_multi`) do not depend on the order
  of the list of spike trains — as equality of REPRESENTATIONS (break points / values / edge
  entries), not only of values.
-/
import PySpikeVerif.Model.Api
import PySpikeVerif.Spec.Funcs
import PySpikeVerif.Proofs.ApiLaws
import PySpikeVerif.Proofs.AddPwc
import PySpikeVerif.Proofs.AddPwl
import PySpikeVerif.Proofs.AddDisc
import PySpikeVerif.Proofs.MultiLaws
import PySpikeVerif.Proofs.SpikeSymm
import PySpikeVerif.Proofs.IntervalLaws
import PySpikeVerif.Properties.C01
import PySpikeVerif.Properties.C07
import Mathlib.Data.List.Basic
import Mathlib.Data.List.Perm.Basic
import Mathlib.Data.List.MinMax
import Mathlib.Order.WithBot
import Mathlib.Algebra.Order.Field.Rat
import Mathlib.Tactic.Ring
import Mathlib.Tactic.Linarith

namespace PySpike
open PySpike.C01

/-! ## 1. generic: folds of an operation that is associative and commutative on a class `S` -/

/-- a left fold of an AC operation over a permuted list, same start value -/
theorem D3_foldl_perm_on {P} (add : P → P → P) (S : P → Prop)
    (hclosed : ∀ a b, S a → S b → S (add a b))
    (hassoc : ∀ a b c, S a → S b → S c → add (add a b) c = add a (add b c))
    (hcomm : ∀ a b, S a → S b → add a b = add b a)
    {l1 l2 : List P} (h : l1.Perm l2) :
    ∀ a, S a → (∀ x ∈ l2, S x) → l1.foldl add a = l2.foldl add a := by
  induction h with
  | nil => intro a _ _; rfl
  | cons x _ ih =>
    intro a ha hl
    simp only [List.foldl_cons]
    exact ih _ (hclosed _ _ ha (hl x (by simp))) (fun y hy => hl y (by simp [hy]))
  | swap x y l =>
    intro a ha hl
    have hx := hl x (by simp)
    have hy := hl y (by simp)
    simp only [List.foldl_cons]
    rw [hassoc a y x ha hy hx, hcomm y x hy hx, ← hassoc a x y ha hx hy]
  | trans h1 h2 ih1 ih2 =>
    intro a ha hl
    rw [ih1 a ha (fun x hx => hl x (h2.mem_iff.mp hx)), ih2 a ha hl]

/-- the sum of a non-empty list (`none` for the empty list): `x₀ + x₁ + … ` as a left fold -/
def D3_fold1 {P} (add : P → P → P) : List P → Option P
  | [] => none
  | x :: xs => some (xs.foldl add x)

/-- the sum of a non-empty list of members of `S` does not depend on the order -/
theorem D3_fold1_perm_on {P} (add : P → P → P) (S : P → Prop)
    (hclosed : ∀ a b, S a → S b → S (add a b))
    (hassoc : ∀ a b c, S a → S b → S c → add (add a b) c = add a (add b c))
    (hcomm : ∀ a b, S a → S b → add a b = add b a)
    {l1 l2 : List P} (h : l1.Perm l2) :
    (∀ x ∈ l2, S x) → D3_fold1 add l1 = D3_fold1 add l2 := by
  induction h with
  | nil => intro _; rfl
  | @cons x l1 l2 h _ =>
    intro hl
    simp only [D3_fold1]
    rw [D3_foldl_perm_on add S hclosed hassoc hcomm h x (hl x (by simp))
      (fun y hy => hl y (by simp [hy]))]
  | swap x y l =>
    intro hl
    simp only [D3_fold1, List.foldl_cons]
    rw [hcomm y x (hl y (by simp)) (hl x (by simp))]
  | trans h1 h2 ih1 ih2 =>
    intro hl
    rw [ih1 (fun x hx => hl x (h2.mem_iff.mp hx)), ih2 hl]

example : D3_fold1 Nat.add [3, 1, 2] = D3_fold1 Nat.add [1, 2, 3] := by decide

/-- `_generic_profile_multi` over all pairs of a list = the sum of the list of pair values -/
theorem D3_gpm_eq_fold1 {P} (add : P → P → P) (S : P → Prop)
    (hclosed : ∀ a b, S a → S b → S (add a b))
    (hassoc : ∀ a b c, S a → S b → S c → add (add a b) c = add a (add b c))
    (pair : Train → Train → P) (L : List Train)
    (hS : ∀ a ∈ L, ∀ b ∈ L, S (pair a b)) (h2 : 2 ≤ L.length) :
    some (genericProfileMulti add (fun p => pair (tr L p.1) (tr L p.2)) (List.range L.length)).1 =
      D3_fold1 add (B5_pairVals pair L) := by
  have hleaf : ∀ q ∈ pairsOf (List.range L.length), S (pair (tr L q.1) (tr L q.2)) := by
    intro q hq
    obtain ⟨m1, m2⟩ := B5_pair_mem L q hq
    exact hS _ m1 _ m2
  have hne := B5_pairs_range_ne_nil h2
  unfold B5_pairVals
  cases hq : pairsOf (List.range L.length) with
  | nil => exact absurd hq hne
  | cons p ps =>
    rw [(divideAndConquer_eq_fold_on add (fun p => pair (tr L p.1) (tr L p.2)) S hclosed hassoc
      (List.range L.length) hleaf p ps hq).1]
    rfl

/-- **generic order-independence of the multivariate profile**: for an `add` that is associative
    and commutative on a class `S` closed under `add`, and a pair profile that is symmetric and in
    `S` on the trains of the list, `_generic_profile_multi` of a permuted list returns the same
    profile (as a representation) and the same pair count -/
theorem genericProfileMulti_perm {P} (add : P → P → P) (S : P → Prop)
    (hclosed : ∀ a b, S a → S b → S (add a b))
    (hassoc : ∀ a b c, S a → S b → S c → add (add a b) c = add a (add b c))
    (hcomm : ∀ a b, S a → S b → add a b = add b a)
    (pair : Train → Train → P) {L' L : List Train} (hp : L'.Perm L)
    (hS : ∀ a ∈ L, ∀ b ∈ L, S (pair a b))
    (hsym : ∀ a ∈ L, ∀ b ∈ L, pair a b = pair b a) (h2 : 2 ≤ L.length) :
    genericProfileMulti add (fun p => pair (tr L' p.1) (tr L' p.2)) (List.range L'.length) =
      genericProfileMulti add (fun p => pair (tr L p.1) (tr L p.2)) (List.range L.length) := by
  apply Prod.ext
  · have hS' : ∀ a ∈ L', ∀ b ∈ L', S (pair a b) :=
      fun a ha b hb => hS a (hp.mem_iff.mp ha) b (hp.mem_iff.mp hb)
    have e1 := D3_gpm_eq_fold1 add S hclosed hassoc pair L' hS' (by rw [hp.length_eq]; exact h2)
    have e2 := D3_gpm_eq_fold1 add S hclosed hassoc pair L hS h2
    have hperm := B5_pairVals_perm pair hp hsym
    have hmem : ∀ x ∈ B5_pairVals pair L, S x := by
      intro x hx
      unfold B5_pairVals at hx
      obtain ⟨q, hq, rfl⟩ := List.mem_map.mp hx
      obtain ⟨m1, m2⟩ := B5_pair_mem L q hq
      exact hS _ m1 _ m2
    rw [D3_fold1_perm_on add S hclosed hassoc hcomm hperm hmem, ← e2] at e1
    exact Option.some.inj e1
  · rw [genericProfileMulti_snd, genericProfileMulti_snd, hp.length_eq]

example : (genericProfileMulti Rat.add (fun p => (tr [⟨[], 3, 5⟩, ⟨[], 1, 5⟩, ⟨[], 2, 5⟩] p.1).ts *
      (tr [⟨[], 3, 5⟩, ⟨[], 1, 5⟩, ⟨[], 2, 5⟩] p.2).ts) (List.range 3)) =
    (genericProfileMulti Rat.add (fun p => (tr [⟨[], 1, 5⟩, ⟨[], 2, 5⟩, ⟨[], 3, 5⟩] p.1).ts *
      (tr [⟨[], 1, 5⟩, ⟨[], 2, 5⟩, ⟨[], 3, 5⟩] p.2).ts) (List.range 3)) := by decide +kernel

/-! ## 2. instances -/

theorem D3_validList_perm {ts te : Q} {L' L : List Train} (hp : L'.Perm L)
    (hv : B5_ValidList ts te L) : B5_ValidList ts te L' :=
  fun a ha => hv a (hp.mem_iff.mp ha)

/-! ### ISI -/

/-- **C06, ISI profile**: the multivariate ISI profile of valid trains on a common interval does
    not depend on the order of the list (equality of the representation, every `kw`) -/
theorem isiProfileMulti_perm (kw : Kw) {L' L : List Train} (ts te : Q) (hp : L'.Perm L)
    (hv : B5_ValidList ts te L) (h2 : 2 ≤ L.length) :
    isiProfileMulti kw none L' = isiProfileMulti kw none L := by
  have hv' := D3_validList_perm hp hv
  have h2' : 2 ≤ L'.length := by rw [hp.length_eq]; exact h2
  unfold isiProfileMulti
  simp only [B5_prep_valid kw ts te L hv (B5_ne_nil_of_two h2),
    B5_prep_valid kw ts te L' hv' (B5_ne_nil_of_two h2'), resolveIdx]
  rw [genericProfileMulti_perm Pwc.add (B5_PwcOn ts te) (fun _ _ => B5_PwcOn.add)
    (fun a b c ha hb hc => Pwc.add_assoc ha.1 hb.1 hc.1 (ha.2.1.trans hb.2.1.symm)
      (ha.2.2.trans hb.2.2.symm) (hb.2.1.trans hc.2.1.symm) (hb.2.2.trans hc.2.2.symm))
    (fun a b ha hb => Pwc.add_comm (ha.2.1.trans hb.2.1.symm) (ha.2.2.trans hb.2.2.symm))
    (isiProfileBi kw.noRecon) hp ?_ ?_ h2]
  · intro a ha b hb
    obtain ⟨va, sa, ea⟩ := hv a ha
    obtain ⟨vb, sb, eb⟩ := hv b hb
    have := B5_isiProfileBi_on kw.noRecon a b rfl va vb (sb.trans sa.symm) (eb.trans ea.symm)
    rwa [sa, ea] at this
  · intro a ha b hb
    obtain ⟨-, sa, ea⟩ := hv a ha
    obtain ⟨-, sb, eb⟩ := hv b hb
    exact C07.isi_profile_symm a b kw.noRecon rfl (sb.trans sa.symm) (eb.trans ea.symm)

example : ([⟨[2, 3, 6], 0, 6⟩, ⟨[], 0, 6⟩, ⟨[1, 3, 4], 0, 6⟩, ⟨[0, 5], 0, 6⟩] : List Train).Perm
    B5_exV ∧ B5_ValidList 0 6 B5_exV ∧ 2 ≤ B5_exV.length :=
  ⟨by decide, B5_exV_valid, by decide⟩

example : isiProfileMulti { } none
      [⟨[2, 3, 6], 0, 6⟩, ⟨[], 0, 6⟩, ⟨[1, 3, 4], 0, 6⟩, ⟨[0, 5], 0, 6⟩] =
    isiProfileMulti { } none B5_exV :=
  isiProfileMulti_perm _ 0 6 (by decide) B5_exV_valid (by decide)

example : isiProfileMulti { recon := false } none
      [⟨[2, 3, 6], 0, 6⟩, ⟨[], 0, 6⟩, ⟨[1, 3, 4], 0, 6⟩, ⟨[0, 5], 0, 6⟩] =
    isiProfileMulti { recon := false } none B5_exV := by decide +kernel

/-! ### SPIKE -/

/-- **C06, SPIKE profile**: the multivariate SPIKE profile of valid trains on a common interval
    does not depend on the order of the list (equality of the representation, every `kw`) -/
theorem spikeProfileMulti_perm (kw : Kw) {L' L : List Train} (ts te : Q) (hp : L'.Perm L)
    (hv : B5_ValidList ts te L) (h2 : 2 ≤ L.length) :
    spikeProfileMulti kw none L' = spikeProfileMulti kw none L := by
  have hv' := D3_validList_perm hp hv
  have h2' : 2 ≤ L'.length := by rw [hp.length_eq]; exact h2
  unfold spikeProfileMulti
  simp only [B5_prep_valid kw ts te L hv (B5_ne_nil_of_two h2),
    B5_prep_valid kw ts te L' hv' (B5_ne_nil_of_two h2'), resolveIdx]
  rw [genericProfileMulti_perm Pwl.add (B5_PwlOn ts te) (fun _ _ => B5_PwlOn.add)
    (fun a b c ha hb hc => Pwl.add_assoc ha.1 hb.1 hc.1 (ha.2.1.trans hb.2.1.symm)
      (hb.2.1.trans hc.2.1.symm) (ha.2.2.trans hb.2.2.symm) (hb.2.2.trans hc.2.2.symm))
    (fun a b ha hb => Pwl.add_comm ha.1 hb.1 (ha.2.1.trans hb.2.1.symm)
      (ha.2.2.trans hb.2.2.symm))
    (spikeProfileBi kw.noRecon) hp ?_ ?_ h2]
  · intro a ha b hb
    obtain ⟨va, sa, ea⟩ := hv a ha
    obtain ⟨vb, sb, eb⟩ := hv b hb
    have := C2_spikeProfileBi_on kw.noRecon a b rfl va vb (sb.trans sa.symm) (eb.trans ea.symm)
    rwa [sa, ea] at this
  · intro a ha b hb
    obtain ⟨-, sa, ea⟩ := hv a ha
    obtain ⟨-, sb, eb⟩ := hv b hb
    exact spikeProfileBi_symm a b kw.noRecon rfl (sb.trans sa.symm) (eb.trans ea.symm)

example : spikeProfileMulti { } none
      [⟨[2, 3, 6], 0, 6⟩, ⟨[], 0, 6⟩, ⟨[1, 3, 4], 0, 6⟩, ⟨[0, 5], 0, 6⟩] =
    spikeProfileMulti { } none B5_exV :=
  spikeProfileMulti_perm _ 0 6 (by decide) B5_exV_valid (by decide)

example : spikeProfileMulti { recon := false } none
      [⟨[2, 3, 6], 0, 6⟩, ⟨[], 0, 6⟩, ⟨[1, 3, 4], 0, 6⟩] =
    spikeProfileMulti { recon := false } none
      [⟨[1, 3, 4], 0, 6⟩, ⟨[2, 3, 6], 0, 6⟩, ⟨[], 0, 6⟩] := by decide +kernel

/-! ### SPIKE-Sync: `Disc.add` is associative and commutative as a representation

`add_discrete_function_python` returns the merged interior entries followed by ONE closing edge
entry: the sum of the two closing entries if both interiors end at the same time (or are both
empty), otherwise the closing entry of the operand whose interior ends later.  With `D3_top` = the
latest interior time (in `WithBot Q`) this is the lexicographic "max-plus" operation `D3_cl`, which
is associative and commutative. -/

/-- the latest event time of a list of entries (`⊥` for the empty list) -/
def D3_top (r : List Ev) : WithBot Q := (r.map (·.1)).maximum

theorem D3_top_nil : D3_top [] = ⊥ := rfl
theorem D3_top_cons (a : Ev) (r : List Ev) : D3_top (a :: r) = max (a.1 : WithBot Q) (D3_top r) := by
  unfold D3_top
  rw [List.map_cons, List.maximum_cons]

theorem D3_top_mergeD (r1 r2 : List Ev) : D3_top (mergeD r1 r2) = max (D3_top r1) (D3_top r2) := by
  induction r1, r2 using mergeD.induct with
  | case1 => simp [mergeD, D3_top_nil]
  | case2 a r1' => rw [mergeD]; simp [D3_top_nil]
  | case3 b r2' => rw [mergeD]; simp [D3_top_nil]
  | case4 a r1' b r2' hab ih =>
    rw [mergeD, if_pos hab, D3_top_cons, ih, D3_top_cons a, max_assoc]
  | case5 a r1' b r2' hab hba ih =>
    rw [mergeD, if_neg hab, if_pos hba, D3_top_cons, ih, D3_top_cons b, max_left_comm]
  | case6 a r1' b r2' hab hba ih =>
    have hk := keq hab hba
    rw [mergeD, if_neg hab, if_neg hba, D3_top_cons, ih, D3_top_cons a, D3_top_cons b, ← hk,
      max_max_max_comm, max_self]

/-- the closing edge entry chosen by `add_discrete_function_python` -/
def D3_cl {K} [LinearOrder K] (k1 k2 : K) (e1 e2 : Ev) : Ev :=
  if k1 = k2 then (e1.1, e1.2.1 + e2.2.1, e1.2.2 + e2.2.2) else if k2 < k1 then e1 else e2

theorem D3_cl_eq {K} [LinearOrder K] {k1 k2 : K} (e1 e2 : Ev) (h : k1 = k2) :
    D3_cl k1 k2 e1 e2 = (e1.1, e1.2.1 + e2.2.1, e1.2.2 + e2.2.2) := by
  unfold D3_cl; rw [if_pos h]
theorem D3_cl_gt {K} [LinearOrder K] {k1 k2 : K} (e1 e2 : Ev) (h : k2 < k1) :
    D3_cl k1 k2 e1 e2 = e1 := by
  unfold D3_cl; rw [if_neg (ne_of_gt h), if_pos h]
theorem D3_cl_lt {K} [LinearOrder K] {k1 k2 : K} (e1 e2 : Ev) (h : k1 < k2) :
    D3_cl k1 k2 e1 e2 = e2 := by
  unfold D3_cl; rw [if_neg (ne_of_lt h), if_neg (not_lt.mpr (le_of_lt h))]

theorem D3_cl_assoc {K} [LinearOrder K] (k1 k2 k3 : K) (e1 e2 e3 : Ev) :
    D3_cl (max k1 k2) k3 (D3_cl k1 k2 e1 e2) e3 = D3_cl k1 (max k2 k3) e1 (D3_cl k2 k3 e2 e3) := by
  rcases lt_trichotomy k1 k2 with h | h | h
  · rw [max_eq_right h.le, D3_cl_lt _ _ h]
    rcases lt_trichotomy k2 k3 with h' | h' | h'
    · rw [max_eq_right h'.le, D3_cl_lt _ _ h', D3_cl_lt _ _ (h.trans h')]
    · rw [max_eq_right h'.le, D3_cl_eq _ _ h', D3_cl_lt _ _ (h' ▸ h)]
    · rw [max_eq_left h'.le, D3_cl_gt _ _ h', D3_cl_lt _ _ h]
  · subst h
    rw [max_self, D3_cl_eq _ _ rfl]
    rcases lt_trichotomy k1 k3 with h' | h' | h'
    · rw [max_eq_right h'.le, D3_cl_lt _ _ h', D3_cl_lt _ _ h', D3_cl_lt _ _ h']
    · subst h'
      rw [max_self, D3_cl_eq _ _ rfl, D3_cl_eq _ _ rfl, D3_cl_eq _ _ rfl]
      simp only [add_assoc]
    · rw [max_eq_left h'.le, D3_cl_gt _ _ h', D3_cl_gt _ _ h', D3_cl_eq _ _ rfl]
  · rw [max_eq_left h.le, D3_cl_gt _ _ h]
    rcases lt_trichotomy k2 k3 with h' | h' | h'
    · rw [max_eq_right h'.le, D3_cl_lt _ _ h']
    · subst h'
      rw [max_self, D3_cl_eq _ _ rfl]
      rcases lt_trichotomy k1 k2 with g | g | g
      · exact absurd g (not_lt.mpr h.le)
      · exact absurd g (ne_of_gt h)
      · rw [D3_cl_gt _ _ g, D3_cl_gt _ _ g]
    · rw [max_eq_left h'.le, D3_cl_gt _ _ h', D3_cl_gt _ _ h, D3_cl_gt _ _ (h'.trans h)]

theorem D3_cmp_lt {K} [LinearOrder K] (x m1 M2 : K) (h : x < M2) :
    (max x m1 = M2 ↔ m1 = M2) ∧ (M2 < max x m1 ↔ M2 < m1) := by
  rcases le_total x m1 with h1 | h1
  · rw [max_eq_right h1]
    exact ⟨Iff.rfl, Iff.rfl⟩
  · rw [max_eq_left h1]
    constructor
    · constructor
      · intro e; exact absurd e (ne_of_lt h)
      · intro e; rw [e] at h1; exact absurd h (not_lt.mpr h1)
    · constructor
      · intro e; exact absurd e (not_lt.mpr (le_of_lt h))
      · intro e; exact absurd (lt_of_lt_of_le e h1) (not_lt.mpr (le_of_lt h))

theorem D3_cl_lt_left {K} [LinearOrder K] (x m1 M2 : K) (e1 e2 : Ev) (h : x < M2) :
    D3_cl (max x m1) M2 e1 e2 = D3_cl m1 M2 e1 e2 := by
  obtain ⟨a, b⟩ := D3_cmp_lt x m1 M2 h
  unfold D3_cl
  simp only [a, b]

theorem D3_cl_lt_right {K} [LinearOrder K] (x M1 m2 : K) (e1 e2 : Ev) (h : x < M1) :
    D3_cl M1 (max x m2) e1 e2 = D3_cl M1 m2 e1 e2 := by
  obtain ⟨a, b⟩ := D3_cmp_lt x m2 M1 h
  unfold D3_cl
  simp only [eq_comm (a := M1), a]
  by_cases hm : m2 = M1
  · simp [hm]
  · simp only [hm, if_false]
    congr 1
    apply propext
    constructor
    · intro hlt
      exact lt_of_le_of_lt (le_max_right _ _) hlt
    · intro hlt
      exact max_lt h hlt

/-- times of a strictly sorted tail: empty or later than the head -/
theorem D3_top_tail (a : Ev) (r : List Ev) (hs : ((a :: r).map (·.1)).Pairwise (· < ·)) :
    D3_top r = ⊥ ∨ (a.1 : WithBot Q) < D3_top r := by
  cases r with
  | nil => exact Or.inl rfl
  | cons b r' =>
    right
    rw [D3_top_cons]
    simp only [List.map_cons, List.pairwise_cons] at hs
    exact lt_of_lt_of_le (WithBot.coe_lt_coe.mpr (hs.1 b.1 (by simp))) (le_max_left _ _)

theorem D3_cl_tie (x m1 m2 : WithBot Q) (e1 e2 : Ev) (hx : ⊥ < x)
    (h1 : m1 = ⊥ ∨ x < m1) (h2 : m2 = ⊥ ∨ x < m2) :
    D3_cl (max x m1) (max x m2) e1 e2 = D3_cl m1 m2 e1 e2 := by
  rcases h1 with h1 | h1 <;> rcases h2 with h2 | h2
  · subst h1 h2; simp [D3_cl]
  · subst h1
    rw [max_eq_right (le_of_lt h2)]
    have hb : (⊥ : WithBot Q) < m2 := lt_trans hx h2
    simp [D3_cl, ne_of_lt h2, ne_of_lt hb, not_lt.mpr (le_of_lt h2), not_lt.mpr (le_of_lt hb)]
  · subst h2
    rw [max_eq_right (le_of_lt h1)]
    have hb : (⊥ : WithBot Q) < m1 := lt_trans hx h1
    simp [D3_cl, ne_of_gt h1, ne_of_gt hb, h1, hb]
  · rw [max_eq_right (le_of_lt h1), max_eq_right (le_of_lt h2)]

theorem D3_addDiscLoop_eq (r1 r2 : List Ev) (e1 e2 : Ev)
    (h1 : (r1.map (·.1)).Pairwise (· < ·)) (h2 : (r2.map (·.1)).Pairwise (· < ·)) :
    addDiscLoop r1 r2 e1 e2 = mergeD r1 r2 ++ [D3_cl (D3_top r1) (D3_top r2) e1 e2] := by
  induction r1, r2 using mergeD.induct with
  | case1 => rw [addDiscLoop, mergeD]; simp [D3_cl]
  | case2 a r1' =>
    rw [addDiscLoop, mergeD, D3_top_cons, D3_top_nil]
    have : (⊥ : WithBot Q) < max (a.1 : WithBot Q) (D3_top r1') :=
      lt_of_lt_of_le (WithBot.bot_lt_coe a.1) (le_max_left _ _)
    simp [D3_cl, ne_of_gt this, this]
  | case3 b r2' =>
    rw [addDiscLoop, mergeD, D3_top_cons, D3_top_nil]
    have : (⊥ : WithBot Q) < max (b.1 : WithBot Q) (D3_top r2') :=
      lt_of_lt_of_le (WithBot.bot_lt_coe b.1) (le_max_left _ _)
    simp [D3_cl, ne_of_lt this, not_lt.mpr (le_of_lt this)]
  | case4 a r1' b r2' hab ih =>
    rw [addDiscLoop, mergeD, if_pos hab, if_pos hab,
      ih (List.pairwise_cons.mp (by simpa using h1)).2 h2, D3_top_cons a,
      D3_cl_lt_left _ _ _ _ _ (by
        rw [D3_top_cons]
        exact lt_of_lt_of_le (WithBot.coe_lt_coe.mpr hab) (le_max_left _ _))]
    rfl
  | case5 a r1' b r2' hab hba ih =>
    rw [addDiscLoop, mergeD, if_neg hab, if_neg hab, if_pos hba, if_pos hba,
      ih h1 (List.pairwise_cons.mp (by simpa using h2)).2, D3_top_cons b,
      D3_cl_lt_right _ _ _ _ _ (by
        rw [D3_top_cons]
        exact lt_of_lt_of_le (WithBot.coe_lt_coe.mpr hba) (le_max_left _ _))]
    rfl
  | case6 a r1' b r2' hab hba ih =>
    have hk := keq hab hba
    rw [addDiscLoop, mergeD, if_neg hab, if_neg hab, if_neg hba, if_neg hba,
      ih (List.pairwise_cons.mp (by simpa using h1)).2
        (List.pairwise_cons.mp (by simpa using h2)).2, D3_top_cons a, D3_top_cons b, ← hk,
      D3_cl_tie _ _ _ _ _ (WithBot.bot_lt_coe a.1) (D3_top_tail a r1' h1)
        (by rw [hk]; exact D3_top_tail b r2' h2)]
    rfl

theorem D3_cl_comm {K} [LinearOrder K] (k1 k2 : K) (e1 e2 : Ev) (he : e1.1 = e2.1) :
    D3_cl k1 k2 e1 e2 = D3_cl k2 k1 e2 e1 := by
  unfold D3_cl
  rcases lt_trichotomy k1 k2 with h | h | h
  · simp [ne_of_lt h, ne_of_gt h, h, not_lt.mpr (le_of_lt h)]
  · subst h
    simp only [if_true]
    rw [he, add_comm e1.2.1, add_comm e1.2.2]
  · simp [ne_of_lt h, ne_of_gt h, h, not_lt.mpr (le_of_lt h)]

/-- a discrete profile from its first time and the list "interior entries ++ closing entry" -/
def D3_frame (t0 : Q) (rest : List Ev) : Disc :=
  ⟨(t0, (rest.headD (0,0,0)).2.1, (rest.headD (0,0,0)).2.2) :: rest⟩

theorem D3_frame_interior (t0 : Q) (m : List Ev) (c : Ev) : (D3_frame t0 (m ++ [c])).interior = m := by
  unfold D3_frame Disc.interior
  rw [List.tail_cons, List.dropLast_concat]

theorem D3_frame_last (t0 : Q) (m : List Ev) (c : Ev) :
    lastD (D3_frame t0 (m ++ [c])).e (0,0,0) = c := by
  unfold D3_frame
  exact lastD_cons_append_singleton _ _ _ _

theorem D3_frame_head (t0 : Q) (rest : List Ev) : ((D3_frame t0 rest).e.headD (0,0,0)).1 = t0 := rfl

/-- `add_discrete_function_python` in closed form (operands with strictly increasing interior
    times) -/
theorem D3_add_eq (f g : Disc) (hf : (f.interior.map (·.1)).Pairwise (· < ·))
    (hg : (g.interior.map (·.1)).Pairwise (· < ·)) :
    f.add g = D3_frame (f.e.headD (0,0,0)).1 (mergeD f.interior g.interior ++
      [D3_cl (D3_top f.interior) (D3_top g.interior) (lastD f.e (0,0,0)) (lastD g.e (0,0,0))]) := by
  unfold Disc.add
  simp only [D3_addDiscLoop_eq _ _ _ _ hf hg]
  cases mergeD f.interior g.interior <;> rfl

/-- `Disc.add` is commutative as a REPRESENTATION on well-formed profiles with common edges -/
theorem D3_Disc_add_comm {ts te : Q} {f g : Disc} (hf : C3_DiscOn ts te f) (hg : C3_DiscOn ts te g) :
    f.add g = g.add f := by
  rw [D3_add_eq f g hf.1.2.1 hg.1.2.1, D3_add_eq g f hg.1.2.1 hf.1.2.1, mergeD_comm,
    D3_cl_comm _ _ _ _ (hf.2.2.trans hg.2.2.symm), hf.2.1, hg.2.1]

/-- `Disc.add` is associative as a REPRESENTATION on well-formed profiles with common edges -/
theorem D3_Disc_add_assoc {ts te : Q} {f g h : Disc} (hf : C3_DiscOn ts te f)
    (hg : C3_DiscOn ts te g) (hh : C3_DiscOn ts te h) :
    (f.add g).add h = f.add (g.add h) := by
  have hfg := (C3_DiscOn.add hf hg).1.2.1
  have hgh := (C3_DiscOn.add hg hh).1.2.1
  rw [D3_add_eq (f.add g) h hfg hh.1.2.1, D3_add_eq f (g.add h) hf.1.2.1 hgh]
  rw [D3_add_eq f g hf.1.2.1 hg.1.2.1, D3_add_eq g h hg.1.2.1 hh.1.2.1]
  simp only [D3_frame_interior, D3_frame_last, D3_frame_head, D3_top_mergeD]
  rw [mergeD_assoc _ _ _ hf.1.2.1 hg.1.2.1 hh.1.2.1, D3_cl_assoc]

example : C3_DiscOn 0 4 exDF ∧ C3_DiscOn 0 4 exDG ∧ C3_DiscOn 0 4 exDH := by
  simp [C3_DiscOn, Disc.WF, Disc.interior, exDF, exDG, exDH, lastD]
  norm_num
example : (exDF.add exDG).add exDH = exDF.add (exDG.add exDH) ∧ exDF.add exDG = exDG.add exDF ∧
    ((exDF.add exDG).add exDH).e =
      [(0, 5, 2), (0, 5, 2), (1, 2, 1), (2, 3, 1), (3, 5, 3), (4, 1, 1), (4, 0, 0)] := by
  decide +kernel

theorem D3_syncProfileBi_symm (kw : Kw) (a b : Train) (hr : kw.recon = false)
    (ha : a.spikes.Pairwise (· < ·)) (hb : b.spikes.Pairwise (· < ·))
    (hts : b.ts = a.ts) (hte : b.te = a.te) :
    syncProfileBi kw a b = syncProfileBi kw b a := by
  unfold syncProfileBi
  simp only [prepBi, hr, Bool.false_eq_true, if_false]
  rw [coincProfile_swap a.spikes b.spikes b.ts b.te kw.maxTau kw.mrts ha hb, hts, hte]

/-- **C06, SPIKE-Sync profile**: the multivariate SPIKE-Sync profile of valid trains on a common
    interval does not depend on the order of the list — equality of the whole REPRESENTATION
    (edge entries included), every `kw` -/
theorem syncProfileMulti_perm (kw : Kw) {L' L : List Train} (ts te : Q) (hp : L'.Perm L)
    (hv : B5_ValidList ts te L) (h2 : 2 ≤ L.length) :
    syncProfileMulti kw none L' = syncProfileMulti kw none L := by
  have hv' := D3_validList_perm hp hv
  have h2' : 2 ≤ L'.length := by rw [hp.length_eq]; exact h2
  unfold syncProfileMulti
  simp only [B5_prep_valid kw ts te L hv (B5_ne_nil_of_two h2),
    B5_prep_valid kw ts te L' hv' (B5_ne_nil_of_two h2'), resolveIdx]
  rw [genericProfileMulti_perm Disc.add (C3_DiscOn ts te) (fun _ _ => C3_DiscOn.add)
    (fun _ _ _ ha hb hc => D3_Disc_add_assoc ha hb hc) (fun _ _ ha hb => D3_Disc_add_comm ha hb)
    (syncProfileBi kw.noRecon) hp ?_ ?_ h2]
  · intro a ha b hb
    obtain ⟨va, sa, ea⟩ := hv a ha
    obtain ⟨vb, sb, eb⟩ := hv b hb
    have := C3_syncProfileBi_on kw.noRecon a b rfl va vb (sb.trans sa.symm) (eb.trans ea.symm)
    rwa [sa, ea] at this
  · intro a ha b hb
    obtain ⟨va, sa, ea⟩ := hv a ha
    obtain ⟨vb, sb, eb⟩ := hv b hb
    exact D3_syncProfileBi_symm kw.noRecon a b rfl va.2.1 vb.2.1 (sb.trans sa.symm)
      (eb.trans ea.symm)

example : syncProfileMulti { recon := false } none
      [⟨[2, 3, 6], 0, 6⟩, ⟨[], 0, 6⟩, ⟨[1, 3, 4], 0, 6⟩, ⟨[0, 5], 0, 6⟩] =
    syncProfileMulti { recon := false } none B5_exV ∧
    (syncProfileMulti { recon := false } none B5_exV).e =
      [(0, 0, 3), (0, 0, 3), (1, 0, 3), (2, 0, 3), (3, 2, 6), (4, 0, 3), (5, 1, 3), (6, 1, 3),
        (6, 1, 3)] := by decide +kernel

/-! ## 3. corollaries: reversed list, two trains exchanged -/

theorem isiProfileMulti_reverse (kw : Kw) (L : List Train) (ts te : Q)
    (hv : B5_ValidList ts te L) (h2 : 2 ≤ L.length) :
    isiProfileMulti kw none L.reverse = isiProfileMulti kw none L :=
  isiProfileMulti_perm kw ts te (List.reverse_perm L) hv h2

theorem spikeProfileMulti_reverse (kw : Kw) (L : List Train) (ts te : Q)
    (hv : B5_ValidList ts te L) (h2 : 2 ≤ L.length) :
    spikeProfileMulti kw none L.reverse = spikeProfileMulti kw none L :=
  spikeProfileMulti_perm kw ts te (List.reverse_perm L) hv h2

theorem syncProfileMulti_reverse (kw : Kw) (L : List Train) (ts te : Q)
    (hv : B5_ValidList ts te L) (h2 : 2 ≤ L.length) :
    syncProfileMulti kw none L.reverse = syncProfileMulti kw none L :=
  syncProfileMulti_perm kw ts te (List.reverse_perm L) hv h2

/-- exchanging the trains at two positions of a list is a permutation -/
theorem D3_swap_perm {α} (l1 l2 l3 : List α) (a b : α) :
    (l1 ++ b :: l2 ++ a :: l3).Perm (l1 ++ a :: l2 ++ b :: l3) := by
  simp only [List.append_assoc, List.cons_append]
  refine List.Perm.append_left l1 ?_
  refine (List.perm_middle (a := a) (l₁ := b :: l2) (l₂ := l3)).trans ?_
  refine List.Perm.trans ?_ (List.perm_middle (a := b) (l₁ := a :: l2) (l₂ := l3)).symm
  exact List.Perm.swap b a (l2 ++ l3)

/-- exchanging two trains `a`, `b` of the list does not change the multivariate ISI profile -/
theorem isiProfileMulti_swap (kw : Kw) (l1 l2 l3 : List Train) (a b : Train) (ts te : Q)
    (hv : B5_ValidList ts te (l1 ++ a :: l2 ++ b :: l3)) :
    isiProfileMulti kw none (l1 ++ b :: l2 ++ a :: l3) =
      isiProfileMulti kw none (l1 ++ a :: l2 ++ b :: l3) :=
  isiProfileMulti_perm kw ts te (D3_swap_perm l1 l2 l3 a b) hv (by simp; omega)

theorem spikeProfileMulti_swap (kw : Kw) (l1 l2 l3 : List Train) (a b : Train) (ts te : Q)
    (hv : B5_ValidList ts te (l1 ++ a :: l2 ++ b :: l3)) :
    spikeProfileMulti kw none (l1 ++ b :: l2 ++ a :: l3) =
      spikeProfileMulti kw none (l1 ++ a :: l2 ++ b :: l3) :=
  spikeProfileMulti_perm kw ts te (D3_swap_perm l1 l2 l3 a b) hv (by simp; omega)

theorem syncProfileMulti_swap (kw : Kw) (l1 l2 l3 : List Train) (a b : Train) (ts te : Q)
    (hv : B5_ValidList ts te (l1 ++ a :: l2 ++ b :: l3)) :
    syncProfileMulti kw none (l1 ++ b :: l2 ++ a :: l3) =
      syncProfileMulti kw none (l1 ++ a :: l2 ++ b :: l3) :=
  syncProfileMulti_perm kw ts te (D3_swap_perm l1 l2 l3 a b) hv (by simp; omega)

example : B5_exV = [⟨[1, 3, 4], 0, 6⟩] ++ ⟨[2, 3, 6], 0, 6⟩ :: [⟨[0, 5], 0, 6⟩] ++ ⟨[], 0, 6⟩ :: [] ∧
    B5_ValidList 0 6 ([⟨[1, 3, 4], 0, 6⟩] ++ ⟨[2, 3, 6], 0, 6⟩ :: [⟨[0, 5], 0, 6⟩] ++
      ⟨[], 0, 6⟩ :: []) := ⟨rfl, B5_exV_valid⟩

end PySpike
