/-
  Proofs/SpikeLaws.lean — laws of `dist_at_t` and `get_min_dist`.
-/
import PySpikeVerif.Model.Spike
import PySpikeVerif.Proofs.Basic

namespace PySpike

theorem distAtT_symm (isi1 isi2 s1 s2 m : Q) (ri : Bool) :
    distAtT isi1 isi2 s1 s2 m ri = distAtT isi2 isi1 s2 s1 m ri := by
  unfold distAtT
  simp only
  rw [add_comm isi2 isi1, add_comm s2 s1, add_comm (s2 * isi1) (s1 * isi2)]

theorem distAtT_nonneg (isi1 isi2 s1 s2 m : Q) (ri : Bool) (h1 : 0 < isi1) (h2 : 0 < isi2)
    (hs1 : 0 ≤ s1) (hs2 : 0 ≤ s2) : 0 ≤ distAtT isi1 isi2 s1 s2 m ri := by
  unfold distAtT
  simp only
  have hmean : 0 < (isi1 + isi2) / 2 := by positivity
  have hlim : 0 < max m ((isi1 + isi2) / 2) := lt_of_lt_of_le hmean (le_max_right _ _)
  split
  · apply div_nonneg _ (le_of_lt hlim); positivity
  · apply div_nonneg _ (le_of_lt (mul_pos hmean hlim)); positivity

/-- the denominators of `dist_at_t` are positive whenever both interval lengths are -/
theorem distAtT_den_pos (isi1 isi2 m : Q) (h1 : 0 < isi1) (h2 : 0 < isi2) :
    0 < max m ((isi1 + isi2) / 2) ∧ 0 < (isi1 + isi2) / 2 * max m ((isi1 + isi2) / 2) := by
  have hmean : 0 < (isi1 + isi2) / 2 := by positivity
  have hlim : 0 < max m ((isi1 + isi2) / 2) := lt_of_lt_of_le hmean (le_max_right _ _)
  exact ⟨hlim, mul_pos hmean hlim⟩

/-- raising MRTS never increases the instantaneous SPIKE dissimilarity -/
theorem distAtT_antitone_m (isi1 isi2 s1 s2 m1 m2 : Q) (ri : Bool) (h1 : 0 < isi1) (h2 : 0 < isi2)
    (hs1 : 0 ≤ s1) (hs2 : 0 ≤ s2) (hm : m1 ≤ m2) :
    distAtT isi1 isi2 s1 s2 m2 ri ≤ distAtT isi1 isi2 s1 s2 m1 ri := by
  unfold distAtT
  simp only
  have hmean : 0 < (isi1 + isi2) / 2 := by positivity
  have hl1 : 0 < max m1 ((isi1 + isi2) / 2) := lt_of_lt_of_le hmean (le_max_right _ _)
  have hle : max m1 ((isi1 + isi2) / 2) ≤ max m2 ((isi1 + isi2) / 2) := max_le_max hm (le_refl _)
  split
  · exact div_le_div_of_nonneg_left (by positivity) hl1 hle
  · exact div_le_div_of_nonneg_left (by positivity) (mul_pos hmean hl1)
      (mul_le_mul_of_nonneg_left hle (le_of_lt hmean))

/-- an MRTS not above the mean interval changes nothing -/
theorem distAtT_small_m (isi1 isi2 s1 s2 m : Q) (ri : Bool) (h1 : 0 < isi1) (h2 : 0 < isi2)
    (hm : m ≤ (isi1 + isi2) / 2) :
    distAtT isi1 isi2 s1 s2 m ri = distAtT isi1 isi2 s1 s2 0 ri := by
  unfold distAtT
  simp only
  have hmean : 0 < (isi1 + isi2) / 2 := by positivity
  rw [max_eq_right hm, max_eq_right (le_of_lt hmean)]

theorem getMinDistFrom_nonneg (x : Q) (tr : List Q) (d aux1 : Q) (hd : 0 ≤ d) :
    0 ≤ getMinDistFrom x tr d aux1 := by
  induction tr generalizing d with
  | nil =>
    unfold getMinDistFrom; simp only
    split
    · exact hd
    · exact qabs_nonneg _
  | cons y r ih =>
    unfold getMinDistFrom; simp only
    split
    · exact hd
    · exact ih _ (qabs_nonneg _)

theorem minDist_nonneg (x : Q) (tr : List Q) (a0 a1 : Q) : 0 ≤ minDist x tr a0 a1 :=
  getMinDistFrom_nonneg x tr _ a1 (qabs_nonneg _)

end PySpike
