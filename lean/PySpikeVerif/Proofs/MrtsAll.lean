/-
  Proofs/MrtsAll.lean — work package H1 (property C15, CLAUSES3.md gaps 1 and 4):
  the MRTS laws of the SPIKE profile for ALL valid trains, the class of known finding F9 (a train
  that is a single spike on `t_start`) included.

  The earlier proofs (`C5_spikeProfile_antitone_mrts` …) go through the specification `spikeSpec`,
  which the scan does not equal on the F9 class.  Here the scan is compared with itself: the train
  states of `spkLoop` do not depend on `m` (`m` enters only through `distAtT … m ri` when an event
  value is computed), the carried interval lengths are the `nuAt` values (`F1_PInv`), and the
  carried contributions are non-negative (`H1_NN`).
-/
import PySpikeVerif.Proofs.AxiomLaws
import PySpikeVerif.Proofs.MrtsLaws
import PySpikeVerif.Proofs.MrtsMore
import PySpikeVerif.Proofs.Completions
import Mathlib.Tactic.Linarith
import Mathlib.Tactic.Ring
import Mathlib.Tactic.FieldSimp
import Mathlib.Tactic.Positivity
import Mathlib.Algebra.Order.Field.Rat
import Mathlib.Data.List.Basic

namespace PySpike
open PySpike.C01

/-! ## 1. the state component of the scan ignores `m` -/

theorem H1_advance_fst_indep (te m1 m2 : Q) (ri : Bool) (x : SpkSt) (p : Option Q) (a : Q)
    (r' : List Q) (y : SpkSt) (yfrom : List Q) (xe y0 y1 : Q) :
    (spkAdvance te m1 ri x p a r' y yfrom xe y0 y1).1 =
      (spkAdvance te m2 ri x p a r' y yfrom xe y0 y1).1 := by
  cases r' <;> rfl

/-! ## 2. non-negativity invariant of one train (no exclusion of the F9 class) -/

/-- numeric facts about the state `x` of a train at the last event time `cur` (`r` = remaining
    spikes): both nearest-spike distances are non-negative, the previous spike is not after `cur`,
    and a fully consumed train has its (auxiliary) next spike not before `te` -/
structure H1_NN (te cur : Q) (r : List Q) (x : SpkSt) : Prop where
  dtp : 0 ≤ x.dtp
  dtf : 0 ≤ x.dtf
  tp : x.tp ≤ cur
  tfe : r = [] → te ≤ x.tf

theorem H1_NN.stay {te cur a : Q} {r : List Q} {x : SpkSt} (h : H1_NN te cur r x) (hca : cur ≤ a) :
    H1_NN te a r x := ⟨h.dtp, h.dtf, le_trans h.tp hca, h.tfe⟩

theorem H1_NN.advance {te cur : Q} {x : SpkSt} {a : Q} {r' : List Q} (h : H1_NN te cur (a :: r') x)
    (m : Q) (ri : Bool) (p : Option Q) (y : SpkSt) (yfrom : List Q) (xe y0 y1 : Q)
    (htf : x.tf = a) (hxe : te ≤ xe) :
    H1_NN te a r' (spkAdvance te m ri x p a r' y yfrom xe y0 y1).1 := by
  cases r' with
  | nil => exact ⟨h.dtf, h.dtf, le_of_eq htf, fun _ => hxe⟩
  | cons b r'' =>
    exact ⟨h.dtf, minDist_nonneg _ _ _ _, le_of_eq htf, fun hn => by cases hn⟩

theorem H1_NN.tie {te cur : Q} {x : SpkSt} {a : Q} {r' : List Q} (_h : H1_NN te cur (a :: r') x)
    (p : Option Q) (ofrom : List Q) (xe o0 o1 : Q) (htf : x.tf = a) (hxe : te ≤ xe) :
    H1_NN te a r' (spkTie te x p a r' ofrom xe o0 o1) := by
  cases r' with
  | nil => exact ⟨le_refl _, le_refl _, le_of_eq htf, fun _ => hxe⟩
  | cons b r'' =>
    exact ⟨le_refl _, minDist_nonneg _ _ _ _, le_of_eq htf, fun hn => by cases hn⟩

/-- the start-edge initialisation establishes the invariant, and the initial contribution is `≥ 0` -/
theorem H1_init_nn (t o : List Q) (ts te : Q) (hv : ValidNE t ts te) :
    H1_NN te ts (B4_init t o ts te).2.2.1 (B4_init t o ts te).1 ∧ 0 ≤ (B4_init t o ts te).2.2.2 := by
  obtain ⟨hne, hs, hb⟩ := hv
  cases t with
  | nil => exact absurd rfl hne
  | cons a r =>
    by_cases hat : a > ts
    · have hne' : a ≠ ts := ne_of_gt hat
      simp only [B4_init, spkInit, hat, if_true, hne', if_false]
      exact ⟨⟨minDist_nonneg _ _ _ _, minDist_nonneg _ _ _ _, B4_auxStart_le _ _,
        fun hn => by cases hn⟩, minDist_nonneg _ _ _ _⟩
    · have hats : a = ts := le_antisymm (not_lt.mp hat) (hb a (by simp)).1
      subst hats
      simp only [B4_init, spkInit, gt_iff_lt, lt_self_iff_false, if_false, if_true]
      refine ⟨⟨minDist_nonneg _ _ _ _, minDist_nonneg _ _ _ _, le_refl _, ?_⟩,
        minDist_nonneg _ _ _ _⟩
      intro hn
      subst hn
      exact le_refl _

/-! ## 3. one event: the values at two thresholds are related -/

/-- a relation `R` holds between the values `distAtT … m1 ri` and `distAtT … m2 ri` formed with the
    interval lengths of the two trains at a time `t ∈ [ts, te)` and non-negative contributions -/
def H1_ValRel (R : Q → Q → Prop) (s1 s2 : List Q) (ts te m1 m2 : Q) (ri : Bool) : Prop :=
  ∀ t i1 i2 v1 v2 : Q, ts ≤ t → t < te → i1 = nuAt s1 ts te t → i2 = nuAt s2 ts te t →
    0 < i1 → 0 < i2 → 0 ≤ v1 → 0 ≤ v2 →
    R (distAtT i1 i2 v1 v2 m1 ri) (distAtT i1 i2 v1 v2 m2 ri)

theorem H1_ValRel.swap {R : Q → Q → Prop} {s1 s2 : List Q} {ts te m1 m2 : Q} {ri : Bool}
    (h : H1_ValRel R s1 s2 ts te m1 m2 ri) : H1_ValRel R s2 s1 ts te m1 m2 ri := by
  intro t i1 i2 v1 v2 a b c d e f g k
  rw [distAtT_symm i1 i2 v1 v2 m1, distAtT_symm i1 i2 v1 v2 m2]
  exact h t i2 i1 v2 v1 a b d c f e k g

/-- relation between two emitted events: same time, related left values, related right values when
    the time is `< te` (the right value at `te` is discarded by `spikeProfile`) -/
def H1_EvRel (R : Q → Q → Prop) (te : Q) (e1 e2 : Q × Q × Q) : Prop :=
  e1.1 = e2.1 ∧ R e1.2.1 e2.2.1 ∧ (e1.1 < te → R e1.2.2 e2.2.2)

theorem H1_PInv_isi_nuAt {s : List Q} {ts te cur : Q} {c r : List Q} {p : Option Q} {x : SpkSt}
    (h : F1_PInv s ts te cur c r p x) : x.isi = nuAt s ts te cur := by
  rw [h.isi]
  exact B4_nuform_eq_nuAt s ts te cur c r h.split h.ne h.cle h.rgt

theorem H1_interp_nonneg {te cur t : Q} {r : List Q} {y : SpkSt} (ny : H1_NN te cur r y)
    (hi : 0 < y.isi) (h1 : cur ≤ t) (h2 : t ≤ y.tf) : 0 ≤ B4_interp y t := by
  unfold B4_interp
  apply div_nonneg _ (le_of_lt hi)
  have := ny.tp
  exact add_nonneg (mul_nonneg ny.dtp (by linarith)) (mul_nonneg ny.dtf (by linarith))

/-- the event emitted when the train `sx` (state `x`, next spike `a`) advances while the train `sy`
    stays in state `y`: computed at the two thresholds, the events are related -/
theorem H1_adv_ev {R : Q → Q → Prop} {sx sy : List Q} {ts te m1 m2 : Q} {ri : Bool}
    (hR : H1_ValRel R sx sy ts te m1 m2 ri)
    {cur a : Q} {c r' cy ry c' : List Q} {p py p' : Option Q} {x y : SpkSt}
    (yfrom : List Q) (xe y0 y1 : Q)
    (hx : F1_PInv sx ts te cur c (a :: r') p x) (hy : F1_PInv sy ts te cur cy ry py y)
    (nx : H1_NN te cur (a :: r') x) (ny : H1_NN te cur ry y) (hay : a ≤ y.tf)
    (hx' : F1_PInv sx ts te a c' r' p' (spkAdvance te m1 ri x p a r' y yfrom xe y0 y1).1)
    (hy' : F1_PInv sy ts te a cy ry py y) :
    H1_EvRel R te (spkAdvance te m1 ri x p a r' y yfrom xe y0 y1).2
      (spkAdvance te m2 ri x p a r' y yfrom xe y0 y1).2 := by
  have hcur : cur < te := hx.cur_lt_te
  have hca : cur < a := hx.rgt a (by simp)
  have htf : x.tf = a := hx.tf_eq
  have hxi : 0 < x.isi := hx.isi_pos hcur
  have hyi : 0 < y.isi := hy.isi_pos hcur
  have hsy : 0 ≤ B4_interp y x.tf := by
    rw [htf]; exact H1_interp_nonneg ny hyi (le_of_lt hca) hay
  have hsx : 0 ≤ x.dtf * (x.tf - x.tp) / x.isi := by
    apply div_nonneg _ (le_of_lt hxi)
    have := nx.tp
    exact mul_nonneg nx.dtf (by rw [htf]; linarith)
  have e12 := H1_advance_fst_indep te m1 m2 ri x p a r' y yfrom xe y0 y1
  have ev1 := F1_advEv te m1 ri x p a r' y yfrom xe y0 y1
  have ev2 := F1_advEv te m2 ri x p a r' y yfrom xe y0 y1
  unfold F1_AdvEv at ev1 ev2
  rw [ev1, ev2, ← e12]
  refine ⟨rfl, ?_, ?_⟩
  · exact hR cur _ _ _ _ hx.tscur hcur (H1_PInv_isi_nuAt hx) (H1_PInv_isi_nuAt hy) hxi hyi hsx hsy
  · intro hlt
    simp only at hlt
    rw [htf] at hlt
    exact hR a _ _ _ _ hx'.tscur hlt (H1_PInv_isi_nuAt hx') (H1_PInv_isi_nuAt hy')
      (hx'.isi_pos hlt) (hy'.isi_pos hlt) nx.dtf hsy

/-! ## 4. the loop at two thresholds -/

theorem H1_loop_nil (e : SpkEnv) (x1 : SpkSt) (p1 : Option Q) (x2 : SpkSt) (p2 : Option Q) :
    spkLoop e x1 p1 [] x2 p2 [] = ([], x1, x2) := by rw [spkLoop]

theorem H1_loop_left (e : SpkEnv) (x1 : SpkSt) (p1 : Option Q) (a : Q) (r1' : List Q) (x2 : SpkSt)
    (p2 : Option Q) :
    spkLoop e x1 p1 (a :: r1') x2 p2 [] =
      ((spkAdvance e.te e.m e.ri x1 p1 a r1' x2 (fromIdx p2 []) e.ae1 e.as2 e.ae2).2 ::
        (spkLoop e (spkAdvance e.te e.m e.ri x1 p1 a r1' x2 (fromIdx p2 []) e.ae1 e.as2 e.ae2).1
          (some a) r1' x2 p2 []).1,
       (spkLoop e (spkAdvance e.te e.m e.ri x1 p1 a r1' x2 (fromIdx p2 []) e.ae1 e.as2 e.ae2).1
          (some a) r1' x2 p2 []).2) := by
  rw [spkLoop]

theorem H1_loop_right (e : SpkEnv) (x1 : SpkSt) (p1 : Option Q) (x2 : SpkSt) (p2 : Option Q)
    (b : Q) (r2' : List Q) :
    spkLoop e x1 p1 [] x2 p2 (b :: r2') =
      ((spkAdvance e.te e.m e.ri x2 p2 b r2' x1 (fromIdx p1 []) e.ae2 e.as1 e.ae1).2 ::
        (spkLoop e x1 p1 []
          (spkAdvance e.te e.m e.ri x2 p2 b r2' x1 (fromIdx p1 []) e.ae2 e.as1 e.ae1).1 (some b) r2').1,
       (spkLoop e x1 p1 []
          (spkAdvance e.te e.m e.ri x2 p2 b r2' x1 (fromIdx p1 []) e.ae2 e.as1 e.ae1).1 (some b) r2').2) := by
  rw [spkLoop]

theorem H1_loop_lt (e : SpkEnv) (x1 : SpkSt) (p1 : Option Q) (a : Q) (r1' : List Q) (x2 : SpkSt)
    (p2 : Option Q) (b : Q) (r2' : List Q) (h : x1.tf < x2.tf) :
    spkLoop e x1 p1 (a :: r1') x2 p2 (b :: r2') =
      ((spkAdvance e.te e.m e.ri x1 p1 a r1' x2 (fromIdx p2 (b :: r2')) e.ae1 e.as2 e.ae2).2 ::
        (spkLoop e (spkAdvance e.te e.m e.ri x1 p1 a r1' x2 (fromIdx p2 (b :: r2')) e.ae1 e.as2 e.ae2).1
          (some a) r1' x2 p2 (b :: r2')).1,
       (spkLoop e (spkAdvance e.te e.m e.ri x1 p1 a r1' x2 (fromIdx p2 (b :: r2')) e.ae1 e.as2 e.ae2).1
          (some a) r1' x2 p2 (b :: r2')).2) := by
  rw [spkLoop]; simp only [if_pos h]

theorem H1_loop_gt (e : SpkEnv) (x1 : SpkSt) (p1 : Option Q) (a : Q) (r1' : List Q) (x2 : SpkSt)
    (p2 : Option Q) (b : Q) (r2' : List Q) (h : ¬ x1.tf < x2.tf) (h' : x1.tf > x2.tf) :
    spkLoop e x1 p1 (a :: r1') x2 p2 (b :: r2') =
      ((spkAdvance e.te e.m e.ri x2 p2 b r2' x1 (fromIdx p1 (a :: r1')) e.ae2 e.as1 e.ae1).2 ::
        (spkLoop e x1 p1 (a :: r1')
          (spkAdvance e.te e.m e.ri x2 p2 b r2' x1 (fromIdx p1 (a :: r1')) e.ae2 e.as1 e.ae1).1
          (some b) r2').1,
       (spkLoop e x1 p1 (a :: r1')
          (spkAdvance e.te e.m e.ri x2 p2 b r2' x1 (fromIdx p1 (a :: r1')) e.ae2 e.as1 e.ae1).1
          (some b) r2').2) := by
  rw [spkLoop]; simp only [if_neg h, if_pos h']

theorem H1_loop_tie (e : SpkEnv) (x1 : SpkSt) (p1 : Option Q) (a : Q) (r1' : List Q) (x2 : SpkSt)
    (p2 : Option Q) (b : Q) (r2' : List Q) (h : ¬ x1.tf < x2.tf) (h' : ¬ x1.tf > x2.tf) :
    spkLoop e x1 p1 (a :: r1') x2 p2 (b :: r2') =
      ((x1.tf, 0, 0) ::
        (spkLoop e (spkTie e.te x1 p1 a r1' (b :: r2') e.ae1 e.as2 e.ae2) (some a) r1'
          (spkTie e.te x2 p2 b r2' (a :: r1') e.ae2 e.as1 e.ae1) (some b) r2').1,
       (spkLoop e (spkTie e.te x1 p1 a r1' (b :: r2') e.ae1 e.as2 e.ae2) (some a) r1'
          (spkTie e.te x2 p2 b r2' (a :: r1') e.ae2 e.as1 e.ae1) (some b) r2').2) := by
  rw [spkLoop]; simp only [if_neg h, if_neg h']

/-- what the loop theorem states about the results `L1`, `L2` of the loop at the thresholds
    `m1`, `m2` started at the event time `cur` -/
def H1_LoopRel (R : Q → Q → Prop) (te m1 m2 : Q) (ri : Bool) (cur : Q)
    (L1 L2 : List (Q × Q × Q) × SpkSt × SpkSt) : Prop :=
  L1.2 = L2.2 ∧ List.Forall₂ (H1_EvRel R te) L1.1 L2.1 ∧
  ((cur :: L1.1.map (·.1)).getLast? ≠ some te →
    R (distAtT L1.2.1.isi L1.2.2.isi L1.2.1.dtf L1.2.2.dtf m1 ri)
      (distAtT L1.2.1.isi L1.2.2.isi L1.2.1.dtf L1.2.2.dtf m2 ri))

theorem H1_LoopRel.cons {R : Q → Q → Prop} {te m1 m2 : Q} {ri : Bool} {cur a : Q}
    {L1 L2 : List (Q × Q × Q) × SpkSt × SpkSt} {e1 e2 : Q × Q × Q}
    (h : H1_LoopRel R te m1 m2 ri a L1 L2) (he : H1_EvRel R te e1 e2) (ha : e1.1 = a) :
    H1_LoopRel R te m1 m2 ri cur (e1 :: L1.1, L1.2) (e2 :: L2.1, L2.2) := by
  obtain ⟨h1, h2, h3⟩ := h
  refine ⟨h1, List.Forall₂.cons he h2, ?_⟩
  intro hl
  apply h3
  simpa [List.getLast?_cons_cons, ha] using hl

/-- **the loop at two thresholds**: same final states, related events, related closing value -/
theorem H1_spkLoop_rel (R : Q → Q → Prop) (hR0 : R 0 0) (s1 s2 : List Q) (ts te m1 m2 : Q)
    (ri : Bool) (hR : H1_ValRel R s1 s2 ts te m1 m2 ri) :
    ∀ (x1 : SpkSt) (p1 : Option Q) (r1 : List Q) (x2 : SpkSt) (p2 : Option Q) (r2 : List Q)
      (cur : Q) (c1 c2 : List Q),
      F1_PInv s1 ts te cur c1 r1 p1 x1 → F1_PInv s2 ts te cur c2 r2 p2 x2 →
      H1_NN te cur r1 x1 → H1_NN te cur r2 x2 → cur ≤ te →
      H1_LoopRel R te m1 m2 ri cur
        (spkLoop (B4_env s1 s2 ts te m1 ri) x1 p1 r1 x2 p2 r2)
        (spkLoop (B4_env s1 s2 ts te m2 ri) x1 p1 r1 x2 p2 r2) := by
  have hRs := hR.swap
  intro x1 p1 r1 x2 p2 r2
  induction x1, p1, r1, x2, p2, r2 using spkLoop.induct (B4_env s1 s2 ts te m1 ri) with
  | case1 x1 p1 x2 p2 =>
    intro cur c1 c2 h1 h2 n1 n2 hcte
    rw [H1_loop_nil, H1_loop_nil]
    refine ⟨rfl, List.Forall₂.nil, ?_⟩
    intro hl
    have hne : cur ≠ te := by
      intro h; apply hl; simp [h]
    have hlt : cur < te := lt_of_le_of_ne hcte hne
    exact hR cur _ _ _ _ h1.tscur hlt (H1_PInv_isi_nuAt h1) (H1_PInv_isi_nuAt h2)
      (h1.isi_pos hlt) (h2.isi_pos hlt) n1.dtf n2.dtf
  | case2 x1 p1 x2 p2 a r1' adv ih =>
    intro cur c1 c2 h1 h2 n1 n2 hcte
    have hca : cur < a := h1.rgt a (by simp)
    have hate : a ≤ te := (h1.bnd a (by rw [h1.split]; simp)).2
    have g1 := h1.step (x' := adv.1) B4_headIs_advance (F1_advance_isi _ _ _ _ _ _ _ _ _ _ _ _)
    have g2 := h2.stay (le_of_lt hca) (by simp)
    have k1 : H1_NN te a r1' adv.1 :=
      n1.advance _ _ _ _ _ _ _ _ h1.tf_eq (B4_te_le_auxEnd s1 te)
    have k2 := n2.stay (le_of_lt hca)
    have hev := H1_adv_ev hR (fromIdx p2 []) (auxEnd s1 te) (auxStart s2 ts) (auxEnd s2 te)
      h1 h2 n1 n2 (le_trans hate (n2.tfe rfl)) g1 g2
    have hrec := ih a (c1 ++ [a]) c2 g1 g2 k1 k2 hate
    rw [H1_loop_left, H1_loop_left]
    have e12 := H1_advance_fst_indep te m1 m2 ri x1 p1 a r1' x2 (fromIdx p2 []) (auxEnd s1 te)
      (auxStart s2 ts) (auxEnd s2 te)
    simp only [B4_env] at hrec ⊢
    rw [← e12]
    exact hrec.cons hev h1.tf_eq
  | case3 x1 p1 x2 p2 b r2' adv ih =>
    intro cur c1 c2 h1 h2 n1 n2 hcte
    have hcb : cur < b := h2.rgt b (by simp)
    have hbte : b ≤ te := (h2.bnd b (by rw [h2.split]; simp)).2
    have g2 := h2.step (x' := adv.1) B4_headIs_advance (F1_advance_isi _ _ _ _ _ _ _ _ _ _ _ _)
    have g1 := h1.stay (le_of_lt hcb) (by simp)
    have k2 : H1_NN te b r2' adv.1 :=
      n2.advance _ _ _ _ _ _ _ _ h2.tf_eq (B4_te_le_auxEnd s2 te)
    have k1 := n1.stay (le_of_lt hcb)
    have hev := H1_adv_ev hRs (fromIdx p1 []) (auxEnd s2 te) (auxStart s1 ts) (auxEnd s1 te)
      h2 h1 n2 n1 (le_trans hbte (n1.tfe rfl)) g2 g1
    have hrec := ih b c1 (c2 ++ [b]) g1 g2 k1 k2 hbte
    rw [H1_loop_right, H1_loop_right]
    have e12 := H1_advance_fst_indep te m1 m2 ri x2 p2 b r2' x1 (fromIdx p1 []) (auxEnd s2 te)
      (auxStart s1 ts) (auxEnd s1 te)
    simp only [B4_env] at hrec ⊢
    rw [← e12]
    exact hrec.cons hev h2.tf_eq
  | case4 x1 p1 x2 p2 a r1' b r2' hlt adv ih =>
    intro cur c1 c2 h1 h2 n1 n2 hcte
    have hlt' := hlt
    rw [h1.tf_eq, h2.tf_eq] at hlt
    have hca : cur < a := h1.rgt a (by simp)
    have hate : a ≤ te := (h1.bnd a (by rw [h1.split]; simp)).2
    have hs2 := h2.sorted
    rw [h2.split] at hs2
    have g1 := h1.step (x' := adv.1) B4_headIs_advance (F1_advance_isi _ _ _ _ _ _ _ _ _ _ _ _)
    have g2 := h2.stay (le_of_lt hca) (head_lt_all (List.pairwise_append.mp hs2).2.1 hlt)
    have k1 : H1_NN te a r1' adv.1 :=
      n1.advance _ _ _ _ _ _ _ _ h1.tf_eq (B4_te_le_auxEnd s1 te)
    have k2 := n2.stay (le_of_lt hca)
    have hev := H1_adv_ev hR (fromIdx p2 (b :: r2')) (auxEnd s1 te) (auxStart s2 ts) (auxEnd s2 te)
      h1 h2 n1 n2 (by rw [h2.tf_eq]; exact le_of_lt hlt) g1 g2
    have hrec := ih a (c1 ++ [a]) c2 g1 g2 k1 k2 hate
    rw [H1_loop_lt _ _ _ _ _ _ _ _ _ hlt', H1_loop_lt _ _ _ _ _ _ _ _ _ hlt']
    have e12 := H1_advance_fst_indep te m1 m2 ri x1 p1 a r1' x2 (fromIdx p2 (b :: r2'))
      (auxEnd s1 te) (auxStart s2 ts) (auxEnd s2 te)
    simp only [B4_env] at hrec ⊢
    rw [← e12]
    exact hrec.cons hev h1.tf_eq
  | case5 x1 p1 x2 p2 a r1' b r2' hlt hgt adv ih =>
    intro cur c1 c2 h1 h2 n1 n2 hcte
    have hlt' := hlt
    have hgt' := hgt
    rw [h1.tf_eq, h2.tf_eq] at hlt hgt
    have hcb : cur < b := h2.rgt b (by simp)
    have hbte : b ≤ te := (h2.bnd b (by rw [h2.split]; simp)).2
    have hs1 := h1.sorted
    rw [h1.split] at hs1
    have g2 := h2.step (x' := adv.1) B4_headIs_advance (F1_advance_isi _ _ _ _ _ _ _ _ _ _ _ _)
    have g1 := h1.stay (le_of_lt hcb) (head_lt_all (List.pairwise_append.mp hs1).2.1 hgt)
    have k2 : H1_NN te b r2' adv.1 :=
      n2.advance _ _ _ _ _ _ _ _ h2.tf_eq (B4_te_le_auxEnd s2 te)
    have k1 := n1.stay (le_of_lt hcb)
    have hev := H1_adv_ev hRs (fromIdx p1 (a :: r1')) (auxEnd s2 te) (auxStart s1 ts) (auxEnd s1 te)
      h2 h1 n2 n1 (by rw [h1.tf_eq]; exact le_of_lt hgt) g2 g1
    have hrec := ih b c1 (c2 ++ [b]) g1 g2 k1 k2 hbte
    rw [H1_loop_gt _ _ _ _ _ _ _ _ _ hlt' hgt', H1_loop_gt _ _ _ _ _ _ _ _ _ hlt' hgt']
    have e12 := H1_advance_fst_indep te m1 m2 ri x2 p2 b r2' x1 (fromIdx p1 (a :: r1'))
      (auxEnd s2 te) (auxStart s1 ts) (auxEnd s1 te)
    simp only [B4_env] at hrec ⊢
    rw [← e12]
    exact hrec.cons hev h2.tf_eq
  | case6 x1 p1 x2 p2 a r1' b r2' hlt hgt x1' x2' ih =>
    intro cur c1 c2 h1 h2 n1 n2 hcte
    have hlt' := hlt
    have hgt' := hgt
    rw [h1.tf_eq, h2.tf_eq] at hlt hgt
    have hEq : b = a := le_antisymm (not_lt.mp hlt) (not_lt.mp hgt)
    subst hEq
    have hbte : b ≤ te := (h2.bnd b (by rw [h2.split]; simp)).2
    have g1 := h1.step (x' := x1') B4_headIs_tie (F1_tie_isi _ _ _ _ _ _ _ _ _)
    have g2 := h2.step (x' := x2') B4_headIs_tie (F1_tie_isi _ _ _ _ _ _ _ _ _)
    have k1 : H1_NN te b r1' x1' := n1.tie _ _ _ _ _ h1.tf_eq (B4_te_le_auxEnd s1 te)
    have k2 : H1_NN te b r2' x2' := n2.tie _ _ _ _ _ h2.tf_eq (B4_te_le_auxEnd s2 te)
    have hrec := ih b (c1 ++ [b]) (c2 ++ [b]) g1 g2 k1 k2 hbte
    rw [H1_loop_tie _ _ _ _ _ _ _ _ _ hlt' hgt', H1_loop_tie _ _ _ _ _ _ _ _ _ hlt' hgt']
    simp only [B4_env] at hrec ⊢
    exact hrec.cons (e1 := (x1.tf, 0, 0)) (e2 := (x1.tf, 0, 0)) ⟨rfl, hR0, fun _ => hR0⟩ h1.tf_eq

/-! ## 5. assembling the profile -/

/-- right values of all pieces but the last (each belongs to a time `< te`), two lists -/
theorem H1_starts_dropLast (R : Q → Q → Prop) (te : Q) :
    ∀ (evs1 evs2 : List (Q × Q × Q)), List.Forall₂ (H1_EvRel R te) evs1 evs2 →
      ∀ (t0 y0 y0' : Q), (t0 :: evs1.map (·.1)).Pairwise (· < ·) →
      (∀ x ∈ t0 :: evs1.map (·.1), x ≤ te) → (t0 < te → R y0 y0') →
      List.Forall₂ R (y0 :: evs1.map (·.2.2)).dropLast (y0' :: evs2.map (·.2.2)).dropLast := by
  intro evs1 evs2 h
  induction h with
  | nil => intro t0 y0 y0' _ _ _; simp
  | @cons e1 e2 l1 l2 he _ ih =>
    intro t0 y0 y0' hs hb h0
    simp only [List.map_cons, List.dropLast_cons_cons]
    have hs' := List.pairwise_cons.mp hs
    refine List.Forall₂.cons ?_ ?_
    · apply h0
      have h1 : t0 < e1.1 := hs'.1 e1.1 (by simp)
      have h2 : e1.1 ≤ te := hb e1.1 (by simp)
      linarith
    · exact ih e1.1 e1.2.2 e2.2.2 hs'.2 (fun x hx => hb x (List.mem_cons_of_mem _ hx)) he.2.2

/-- **generic transfer, all valid trains**: a relation that holds between `distAtT … m1 ri` and
    `distAtT … m2 ri` for the interval lengths at every time of `[ts, te)` and non-negative
    contributions holds between the value lists of the SPIKE profiles at the two thresholds -/
theorem H1_spikeProfile_rel (R : Q → Q → Prop) (hR0 : R 0 0) (t1 t2 : List Q) (ts te m1 m2 : Q)
    (ri : Bool) (h1 : ValidNE t1 ts te) (h2 : ValidNE t2 ts te) (hlt : ts < te)
    (hR : H1_ValRel R t1 t2 ts te m1 m2 ri) :
    List.Forall₂ R (spikeProfile t1 t2 ts te m1 ri).2.1 (spikeProfile t1 t2 ts te m2 ri).2.1 ∧
    List.Forall₂ R (spikeProfile t1 t2 ts te m1 ri).2.2 (spikeProfile t1 t2 ts te m2 ri).2.2 := by
  obtain ⟨c1, i1⟩ := F1_init_pinv t1 t2 ts te h1
  obtain ⟨c2, i2⟩ := F1_init_pinv t2 t1 ts te h2
  obtain ⟨n1, v1⟩ := H1_init_nn t1 t2 ts te h1
  obtain ⟨n2, v2⟩ := H1_init_nn t2 t1 ts te h2
  obtain ⟨hfin, hevs, hclose⟩ := H1_spkLoop_rel R hR0 t1 t2 ts te m1 m2 ri hR _ _ _ _ _ _ ts c1 c2
    i1 i2 n1 n2 (le_of_lt hlt)
  change (B4_res t1 t2 ts te m1 ri).2 = (B4_res t1 t2 ts te m2 ri).2 at hfin
  change List.Forall₂ (H1_EvRel R te) (B4_res t1 t2 ts te m1 ri).1 (B4_res t1 t2 ts te m2 ri).1 at hevs
  change (ts :: (B4_res t1 t2 ts te m1 ri).1.map (·.1)).getLast? ≠ some te →
    R (distAtT (B4_res t1 t2 ts te m1 ri).2.1.isi (B4_res t1 t2 ts te m1 ri).2.2.isi
        (B4_res t1 t2 ts te m1 ri).2.1.dtf (B4_res t1 t2 ts te m1 ri).2.2.dtf m1 ri)
      (distAtT (B4_res t1 t2 ts te m1 ri).2.1.isi (B4_res t1 t2 ts te m1 ri).2.2.isi
        (B4_res t1 t2 ts te m1 ri).2.1.dtf (B4_res t1 t2 ts te m1 ri).2.2.dtf m2 ri) at hclose
  have hy0 : R (distAtT (B4_init t1 t2 ts te).1.isi (B4_init t2 t1 ts te).1.isi
      (B4_init t1 t2 ts te).2.2.2 (B4_init t2 t1 ts te).2.2.2 m1 ri)
      (distAtT (B4_init t1 t2 ts te).1.isi (B4_init t2 t1 ts te).1.isi
      (B4_init t1 t2 ts te).2.2.2 (B4_init t2 t1 ts te).2.2.2 m2 ri) :=
    hR ts _ _ _ _ (le_refl _) hlt (H1_PInv_isi_nuAt i1) (H1_PInv_isi_nuAt i2)
      (i1.isi_pos hlt) (i2.isi_pos hlt) v1 v2
  have htimes : (B4_res t1 t2 ts te m2 ri).1.map (·.1) = (B4_res t1 t2 ts te m1 ri).1.map (·.1) := by
    rw [B4_res_times, B4_res_times]
  obtain ⟨hs, hm⟩ := isiEvents_times t1 t2 ts te 0 h1 h2
  have hT : (isiEvents t1 t2 ts te 0).map (·.1) = ts :: (B4_res t1 t2 ts te m1 ri).1.map (·.1) := by
    rw [B4_res_times]; rfl
  rw [hT] at hs hm
  have hb : ∀ x ∈ ts :: (B4_res t1 t2 ts te m1 ri).1.map (·.1), x ≤ te := by
    intro x hx
    rcases (hm x).mp hx with hx | ⟨_, hx | hx⟩
    · rw [hx]; exact le_of_lt hlt
    · exact (h1.2.2 x hx).2
    · exact (h2.2.2 x hx).2
  have hends : List.Forall₂ R ((B4_res t1 t2 ts te m1 ri).1.map (·.2.1))
      ((B4_res t1 t2 ts te m2 ri).1.map (·.2.1)) := by
    rw [List.forall₂_map_left_iff, List.forall₂_map_right_iff]
    exact hevs.imp (fun _ _ h => h.2.1)
  rw [B4_spikeProfile_unfold, B4_spikeProfile_unfold, htimes]
  by_cases hl : (ts :: (B4_res t1 t2 ts te m1 ri).1.map (·.1)).getLast? = some te
  · rw [if_pos hl, if_pos hl]
    exact ⟨H1_starts_dropLast R te _ _ hevs ts _ _ hs hb (fun _ => hy0), hends⟩
  · rw [if_neg hl, if_neg hl]
    obtain ⟨hl1, hl2⟩ := B4_all_lt_te t1 t2 ts te m1 ri hlt h1 h2 hl
    have hall : ∀ ev ∈ (B4_res t1 t2 ts te m1 ri).1, ev.1 < te := by
      intro ev hev'
      have hx : ev.1 ∈ ts :: (B4_res t1 t2 ts te m1 ri).1.map (·.1) :=
        List.mem_cons_of_mem _ (List.mem_map_of_mem hev')
      rcases (hm ev.1).mp hx with hx | ⟨_, hx | hx⟩
      · rw [hx]; exact hlt
      · exact hl1 _ hx
      · exact hl2 _ hx
    refine ⟨List.Forall₂.cons hy0 ?_, ?_⟩
    · rw [List.forall₂_map_left_iff, List.forall₂_map_right_iff]
      have : List.Forall₂ (fun a b => H1_EvRel R te a b ∧ a.1 < te) (B4_res t1 t2 ts te m1 ri).1
          (B4_res t1 t2 ts te m2 ri).1 := by
        have hflip := hevs
        rw [List.forall₂_iff_get] at hflip ⊢
        refine ⟨hflip.1, fun i ha hb' => ⟨hflip.2 i ha hb', hall _ (List.get_mem _ _)⟩⟩
      exact this.imp (fun _ _ h => h.1.2.2 h.2)
    · refine List.rel_append hends (List.Forall₂.cons ?_ List.Forall₂.nil)
      rw [← hfin]
      exact hclose hl

/-! ## 6. the three MRTS laws of the SPIKE profile, all valid trains -/

/-- **C15 (SPIKE, antitone), no exclusion**: for ALL valid trains — the F9 class included — raising
    MRTS never increases a value of the SPIKE profile, neither a `y_start` nor a `y_end`; the
    breakpoints do not change -/
theorem H1_spikeProfile_antitone_mrts (t1 t2 : List Q) (ts te m1 m2 : Q) (ri : Bool)
    (h1 : ValidNE t1 ts te) (h2 : ValidNE t2 ts te) (hlt : ts < te) (hm : m1 ≤ m2) :
    (spikeProfile t1 t2 ts te m1 ri).1 = (spikeProfile t1 t2 ts te m2 ri).1 ∧
    List.Forall₂ (· ≥ ·) (spikeProfile t1 t2 ts te m1 ri).2.1 (spikeProfile t1 t2 ts te m2 ri).2.1 ∧
    List.Forall₂ (· ≥ ·) (spikeProfile t1 t2 ts te m1 ri).2.2 (spikeProfile t1 t2 ts te m2 ri).2.2 := by
  refine ⟨by rw [spikeProfile_breaks, spikeProfile_breaks], ?_⟩
  apply H1_spikeProfile_rel (· ≥ ·) (le_refl _) t1 t2 ts te m1 m2 ri h1 h2 hlt
  intro t i1 i2 v1 v2 _ _ _ _ p1 p2 q1 q2
  exact distAtT_antitone_m _ _ _ _ m1 m2 ri p1 p2 q1 q2 hm

/-- hypotheses on pairs of the F9 class (one train, both trains) -/
example : ValidNE [0] 0 10 ∧ ValidNE [3, 7] 0 10 ∧ (0 : Q) < 10 ∧ (1 : Q) ≤ 20 ∧
    OneSpikeOnStart [0] 0 := by
  unfold ValidNE; decide +kernel
/-- … where MRTS really matters -/
example : spikeProfile [0] [3, 7] 0 10 1 false
      = ([0, 3, 7, 10], [17 / 49, 17 / 49, 17 / 49], [17 / 49, 17 / 49, 17 / 49]) ∧
    spikeProfile [0] [3, 7] 0 10 20 false
      = ([0, 3, 7, 10], [17 / 140, 17 / 140, 17 / 140], [17 / 140, 17 / 140, 17 / 140]) := by
  decide +kernel

/-- **C15 (SPIKE, small MRTS), no exclusion**: an MRTS that is, at every time of the recording, not
    above the mean of the two current interval lengths leaves the SPIKE profile unchanged -/
theorem H1_spikeProfile_small_mrts (t1 t2 : List Q) (ts te m : Q) (ri : Bool)
    (h1 : ValidNE t1 ts te) (h2 : ValidNE t2 ts te) (hlt : ts < te)
    (hm : ∀ t, ts ≤ t → t < te → m ≤ (nuAt t1 ts te t + nuAt t2 ts te t) / 2) :
    spikeProfile t1 t2 ts te m ri = spikeProfile t1 t2 ts te 0 ri := by
  obtain ⟨e1, e2⟩ := H1_spikeProfile_rel (· = ·) rfl t1 t2 ts te m 0 ri h1 h2 hlt (by
    intro t i1 i2 v1 v2 a b c d p1 p2 _ _
    subst c d
    exact distAtT_small_m _ _ _ _ m ri p1 p2 (hm t a b))
  rw [List.forall₂_eq_eq_eq] at e1 e2
  exact Prod.ext (C5_spikeProfile_breaks_indep_mrts t1 t2 ts te m ri) (Prod.ext e1 e2)

/-- the same with the hypothesis on the finitely many interval lengths of the two trains -/
theorem H1_spikeProfile_small_mrts_lengths (t1 t2 : List Q) (ts te m : Q) (ri : Bool)
    (h1 : ValidNE t1 ts te) (h2 : ValidNE t2 ts te) (hlt : ts < te)
    (hm : ∀ ν ∈ isiListSpec t1 ts te ++ isiListSpec t2 ts te, m ≤ ν) :
    spikeProfile t1 t2 ts te m ri = spikeProfile t1 t2 ts te 0 ri := by
  apply H1_spikeProfile_small_mrts t1 t2 ts te m ri h1 h2 hlt
  intro t a b
  have e1 := hm _ (List.mem_append_left _ (C5_nuAt_mem_isiListSpec t1 ts te t h1.2.1 a b))
  have e2 := hm _ (List.mem_append_right _ (C5_nuAt_mem_isiListSpec t2 ts te t h2.2.1 a b))
  linarith

/-! ## 7. API level: bivariate and multivariate SPIKE profile / distance / matrix, antitone in MRTS,
       every keyword record, no exclusion of the F9 class -/

theorem H1_spikeProfileBi_ge (kw : Kw) (m1 m2 : Q) (a b : Train)
    (ha : ValidTrain a) (hb : ValidTrain b) (hts : b.ts = a.ts) (hte : b.te = a.te) (hm : m1 ≤ m2) :
    F6_PwlGe a.ts a.te (spikeProfileBi { kw with mrts := m1 } a b)
      (spikeProfileBi { kw with mrts := m2 } a b) := by
  have hva := nonEmpty_valid a ha
  have hvb := nonEmpty_valid b hb
  rw [hts, hte] at hvb
  have h := H1_spikeProfile_antitone_mrts _ _ _ _ m1 m2 kw.ri hva hvb ha.1 hm
  rw [C2_spikeProfileBi_valid { kw with mrts := m1 } a b ha hb hts hte,
    C2_spikeProfileBi_valid { kw with mrts := m2 } a b ha hb hts hte]
  apply F6_PwlGe.of_forall₂
    (C2_spikeProfileBi_on ({ kw with mrts := m1 } : Kw).noRecon a b rfl ha hb hts hte)
    (C2_spikeProfileBi_on ({ kw with mrts := m2 } : Kw).noRecon a b rfl ha hb hts hte)
  · rw [C2_spikeProfileBi_x ({ kw with mrts := m1 } : Kw).noRecon a b rfl,
      C2_spikeProfileBi_x ({ kw with mrts := m2 } : Kw).noRecon a b rfl]
  · simp only [spikeProfileBi, prepBi_noRecon]
    exact h.2.1
  · simp only [spikeProfileBi, prepBi_noRecon]
    exact h.2.2

/-- **C15, bivariate public SPIKE profile, no exclusion**: for valid trains on common edges (every
    keyword record, F9 class included) raising MRTS keeps the breakpoints and never raises a value:
    both value arrays entry by entry, and both one-sided limits at every time -/
theorem H1_spike_profile_antitone (kw : Kw) (m1 m2 : Q) (a b : Train)
    (ha : ValidTrain a) (hb : ValidTrain b) (hts : b.ts = a.ts) (hte : b.te = a.te) (hm : m1 ≤ m2) :
    (spikeProfileBi { kw with mrts := m1 } a b).x = (spikeProfileBi { kw with mrts := m2 } a b).x ∧
    List.Forall₂ (· ≥ ·) (spikeProfileBi { kw with mrts := m1 } a b).y1
      (spikeProfileBi { kw with mrts := m2 } a b).y1 ∧
    List.Forall₂ (· ≥ ·) (spikeProfileBi { kw with mrts := m1 } a b).y2
      (spikeProfileBi { kw with mrts := m2 } a b).y2 ∧
    (∀ t, a.ts ≤ t → t < a.te → ∃ v1 v2,
      (spikeProfileBi { kw with mrts := m1 } a b).evalR t = some v1 ∧
      (spikeProfileBi { kw with mrts := m2 } a b).evalR t = some v2 ∧ v2 ≤ v1) ∧
    (∀ t, a.ts < t → t ≤ a.te → ∃ v1 v2,
      (spikeProfileBi { kw with mrts := m1 } a b).evalL t = some v1 ∧
      (spikeProfileBi { kw with mrts := m2 } a b).evalL t = some v2 ∧ v2 ≤ v1) := by
  have h := H1_spikeProfileBi_ge kw m1 m2 a b ha hb hts hte hm
  refine ⟨h.2.2.1, h.forall₂.1, h.forall₂.2, ?_, ?_⟩
  · intro t h0 h1
    exact ⟨_, _, h.1.evalR_some h0 h1, h.2.1.evalR_some h0 h1, h.2.2.2.1 t h0 h1⟩
  · intro t h0 h1
    exact ⟨_, _, F6_PwlOn_evalL_some h.1 h0 h1, F6_PwlOn_evalL_some h.2.1 h0 h1, h.2.2.2.2 t h0 h1⟩

/-- a pair of the F9 class (default keywords, i.e. with reconciliation) -/
example : ValidTrain ⟨[0], 0, 10⟩ ∧ ValidTrain ⟨[3, 7], 0, 10⟩ ∧ (1 : Q) ≤ 20 :=
  ⟨⟨by decide, by decide, by decide⟩, ⟨by decide, by decide, by decide⟩, by decide⟩

theorem H1_spikeProfileMulti_ge (kw : Kw) (m1 m2 : Q) (L : List Train) (ts te : Q)
    (hv : B5_ValidList ts te L) (h2 : 2 ≤ L.length) (hm : m1 ≤ m2) :
    F6_PwlGe ts te (spikeProfileMulti { kw with mrts := m1 } none L)
      (spikeProfileMulti { kw with mrts := m2 } none L) := by
  unfold spikeProfileMulti
  simp only [B5_prep_valid _ ts te L hv (B5_ne_nil_of_two h2), resolveIdx, genericProfileMulti_snd]
  apply F6_PwlGe.mulScalar _ _ (by positivity)
  apply F6_gpm_rel Pwl.add _ _ (F6_PwlGe ts te) (fun _ _ _ _ h h' => F6_PwlGe.add h h')
    _ (B5_pairs_range_ne_nil h2)
  intro p hp
  obtain ⟨h1, h2'⟩ := B5_pair_mem L p hp
  obtain ⟨v1, s1, e1⟩ := hv _ h1
  obtain ⟨v2, s2, e2⟩ := hv _ h2'
  have := H1_spikeProfileBi_ge kw.noRecon m1 m2 _ _ v1 v2 (s2.trans s1.symm) (e2.trans e1.symm) hm
  rw [s1, e1] at this
  exact this

/-- **C15, multivariate SPIKE profile, no exclusion** (plain and rate-independent, every keyword
    record, F9 class included): for valid trains on common edges raising MRTS keeps the breakpoints
    and never raises a value — both value arrays entry by entry, and both one-sided limits at every
    time. -/
theorem H1_spike_multi_profile_antitone (kw : Kw) (m1 m2 : Q) (L : List Train) (ts te : Q)
    (hv : B5_ValidList ts te L) (h2 : 2 ≤ L.length) (hm : m1 ≤ m2) :
    (spikeProfileMulti { kw with mrts := m1 } none L).x
      = (spikeProfileMulti { kw with mrts := m2 } none L).x ∧
    List.Forall₂ (· ≥ ·) (spikeProfileMulti { kw with mrts := m1 } none L).y1
      (spikeProfileMulti { kw with mrts := m2 } none L).y1 ∧
    List.Forall₂ (· ≥ ·) (spikeProfileMulti { kw with mrts := m1 } none L).y2
      (spikeProfileMulti { kw with mrts := m2 } none L).y2 ∧
    (∀ t, ts ≤ t → t < te → ∃ v1 v2,
      (spikeProfileMulti { kw with mrts := m1 } none L).evalR t = some v1 ∧
      (spikeProfileMulti { kw with mrts := m2 } none L).evalR t = some v2 ∧ v2 ≤ v1) ∧
    (∀ t, ts < t → t ≤ te → ∃ v1 v2,
      (spikeProfileMulti { kw with mrts := m1 } none L).evalL t = some v1 ∧
      (spikeProfileMulti { kw with mrts := m2 } none L).evalL t = some v2 ∧ v2 ≤ v1) := by
  have h := H1_spikeProfileMulti_ge kw m1 m2 L ts te hv h2 hm
  refine ⟨h.2.2.1, h.forall₂.1, h.forall₂.2, ?_, ?_⟩
  · intro t h0 h1
    exact ⟨_, _, h.1.evalR_some h0 h1, h.2.1.evalR_some h0 h1, h.2.2.2.1 t h0 h1⟩
  · intro t h0 h1
    exact ⟨_, _, F6_PwlOn_evalL_some h.1 h0 h1, F6_PwlOn_evalL_some h.2.1 h0 h1, h.2.2.2.2 t h0 h1⟩

/-- a valid list with two trains of the F9 class, an empty train and a train ending on `te` -/
def H1_exL : List Train := [⟨[0], 0, 6⟩, ⟨[0, 4], 0, 6⟩, ⟨[0], 0, 6⟩, ⟨[], 0, 6⟩, ⟨[2, 3, 6], 0, 6⟩]

theorem H1_exL_valid : B5_ValidList 0 6 H1_exL := by
  intro t ht
  simp only [H1_exL, List.mem_cons, List.not_mem_nil, or_false] at ht
  rcases ht with rfl | rfl | rfl | rfl | rfl <;>
    exact ⟨⟨by decide, by decide, by decide⟩, rfl, rfl⟩

example : B5_ValidList 0 6 H1_exL ∧ 2 ≤ H1_exL.length ∧ (∃ a ∈ H1_exL, a.spikes = [0]) :=
  ⟨H1_exL_valid, by decide, ⟨_, List.mem_cons_self, rfl⟩⟩

/-- **C15, bivariate SPIKE distance, no exclusion** -/
theorem H1_spike_distance_antitone (kw : Kw) (m1 m2 : Q) (a b : Train)
    (ha : ValidTrain a) (hb : ValidTrain b) (hts : b.ts = a.ts) (hte : b.te = a.te)
    (hiv : F6_IvOK a.te kw.interval) (hm : m1 ≤ m2) :
    F6_OptGe (spikeDistanceBi { kw with mrts := m1 } a b)
      (spikeDistanceBi { kw with mrts := m2 } a b) :=
  F6_pwlAvrgKw_ge (H1_spikeProfileBi_ge kw m1 m2 a b ha hb hts hte hm) kw.interval hiv

theorem H1_spike_distance_antitone' (kw : Kw) (m1 m2 : Q) (a b : Train)
    (ha : ValidTrain a) (hb : ValidTrain b) (hts : b.ts = a.ts) (hte : b.te = a.te)
    (hiv : F6_IvOK a.te kw.interval) (hm : m1 ≤ m2) (d1 d2 : Q)
    (h1 : spikeDistanceBi { kw with mrts := m1 } a b = some d1)
    (h2 : spikeDistanceBi { kw with mrts := m2 } a b = some d2) : d2 ≤ d1 :=
  (H1_spike_distance_antitone kw m1 m2 a b ha hb hts hte hiv hm).le h1 h2

theorem H1_spike_pair_distance_ge (kw : Kw) (m1 m2 : Q) (L : List Train) (ts te : Q)
    (hv : B5_ValidList ts te L) (hiv : F6_IvOK te kw.interval)
    (hm : m1 ≤ m2) (i j : Nat) (hi : i < L.length) (hj : j < L.length) :
    F6_OptGe (spikeDistanceBi ({ kw with mrts := m1 } : Kw).noRecon (tr L i) (tr L j))
      (spikeDistanceBi ({ kw with mrts := m2 } : Kw).noRecon (tr L i) (tr L j)) := by
  have mi := B5_tr_mem L i hi
  have mj := B5_tr_mem L j hj
  obtain ⟨v1, s1, e1⟩ := hv _ mi
  obtain ⟨v2, s2, e2⟩ := hv _ mj
  exact H1_spike_distance_antitone kw.noRecon m1 m2 _ _ v1 v2 (s2.trans s1.symm)
    (e2.trans e1.symm) (by rw [e1]; exact hiv) hm

/-- **C15, multivariate SPIKE distance, no exclusion** (any `kw`; `interval` `None` or
    `u ≤ v ≤ te`) -/
theorem H1_spike_distance_multi_antitone (kw : Kw) (m1 m2 : Q) (L : List Train) (ts te : Q)
    (hv : B5_ValidList ts te L) (hne : L ≠ []) (hiv : F6_IvOK te kw.interval) (hm : m1 ≤ m2) :
    F6_OptGe (spikeDistanceMulti { kw with mrts := m1 } none L)
      (spikeDistanceMulti { kw with mrts := m2 } none L) := by
  unfold spikeDistanceMulti genericDistanceMulti
  simp only [B5_prep_valid _ ts te L hv hne, resolveIdx]
  apply F6_OptGe.map_div _ _ (by positivity)
  apply F6_sumOpt_ge
  rw [List.forall₂_map_left_iff, List.forall₂_map_right_iff, List.forall₂_same]
  intro p hp
  have := mem_posPairs hp
  exact H1_spike_pair_distance_ge kw m1 m2 L ts te hv hiv hm p.1 p.2 this.1 this.2

theorem H1_spike_distance_multi_antitone' (kw : Kw) (m1 m2 : Q) (L : List Train) (ts te : Q)
    (hv : B5_ValidList ts te L) (hne : L ≠ []) (hiv : F6_IvOK te kw.interval) (hm : m1 ≤ m2)
    (d1 d2 : Q) (h1 : spikeDistanceMulti { kw with mrts := m1 } none L = some d1)
    (h2 : spikeDistanceMulti { kw with mrts := m2 } none L = some d2) : d2 ≤ d1 :=
  (H1_spike_distance_multi_antitone kw m1 m2 L ts te hv hne hiv hm).le h1 h2

/-- **C15, SPIKE distance matrix, no exclusion**: every entry is antitone in MRTS -/
theorem H1_spike_distance_matrix_antitone (kw : Kw) (m1 m2 : Q) (L : List Train) (ts te : Q)
    (hv : B5_ValidList ts te L) (hne : L ≠ []) (hiv : F6_IvOK te kw.interval) (hm : m1 ≤ m2)
    (M1 M2 : List (List Q))
    (h1 : spikeDistanceMatrix { kw with mrts := m1 } none L = some M1)
    (h2 : spikeDistanceMatrix { kw with mrts := m2 } none L = some M2)
    (i j : Nat) (hi : i < L.length) (hj : j < L.length) :
    (M2.getD i []).getD j 0 ≤ (M1.getD i []).getD j 0 := by
  unfold spikeDistanceMatrix at h1 h2
  simp only [B5_prep_valid _ ts te L hv hne, resolveIdx] at h1 h2
  have e1 := genericDistanceMatrix_entry _ _ _ _ _ _ h1 i j (by simpa using hi) (by simpa using hj)
  have e2 := genericDistanceMatrix_entry _ _ _ _ _ _ h2 i j (by simpa using hi) (by simpa using hj)
  have gi : (List.range L.length).getD i 0 = i := getD_range _ _ hi
  have gj : (List.range L.length).getD j 0 = j := getD_range _ _ hj
  refine F6_OptGe.le ?_ e1 e2
  unfold matEntry
  rw [gi, gj]
  by_cases hij : i = j
  · rw [if_pos hij, if_pos hij]; right; exact ⟨0, 0, rfl, rfl, le_refl _⟩
  · rw [if_neg hij, if_neg hij]
    by_cases hlt : i < j
    · rw [if_pos hlt, if_pos hlt]
      exact H1_spike_pair_distance_ge kw m1 m2 L ts te hv hiv hm i j hi hj
    · rw [if_neg hlt, if_neg hlt]
      exact (H1_spike_pair_distance_ge kw m1 m2 L ts te hv hiv hm j i hj hi).map_mul 1
        (by norm_num)

example : B5_ValidList 0 6 H1_exL ∧ H1_exL ≠ [] ∧ F6_IvOK 6 ({ } : Kw).interval ∧
    F6_IvOK 6 ({ interval := some (1, 4) } : Kw).interval := by
  refine ⟨H1_exL_valid, by decide, ?_, ?_⟩
  · intro u v h; cases h
  · intro u v h
    simp only [Option.some.injEq, Prod.mk.injEq] at h
    obtain ⟨rfl, rfl⟩ := h
    constructor <;> norm_num

/-! ## 8. API level: an MRTS not above any pooled inter-spike interval changes nothing -/

/-- **C15 (small MRTS, bivariate public SPIKE profile), no exclusion** -/
theorem H1_spike_profile_small_mrts_api (kw : Kw) (m : Q) (a b : Train)
    (ha : ValidTrain a) (hb : ValidTrain b) (hts : b.ts = a.ts) (hte : b.te = a.te)
    (hm : ∀ ν ∈ isiListSpec a.spikes a.ts a.te ++ isiListSpec b.spikes a.ts a.te, m ≤ ν) :
    spikeProfileBi { kw with mrts := m } a b = spikeProfileBi { kw with mrts := 0 } a b := by
  have hva := nonEmpty_valid a ha
  have hvb := nonEmpty_valid b hb
  rw [hts, hte] at hvb
  rw [C2_spikeProfileBi_valid { kw with mrts := m } a b ha hb hts hte,
    C2_spikeProfileBi_valid { kw with mrts := 0 } a b ha hb hts hte]
  unfold spikeProfileBi
  simp only [prepBi_noRecon]
  have e := H1_spikeProfile_small_mrts a.nonEmpty b.nonEmpty a.ts a.te m kw.ri hva hvb ha.1 (by
      intro t h0 h1
      have p1 := G3_nuAt_ge_of_pooled a a.ts a.te m t ha rfl rfl
        (fun ν hν => hm ν (List.mem_append_left _ hν)) h0 h1
      have p2 := G3_nuAt_ge_of_pooled b a.ts a.te m t hb hts hte
        (fun ν hν => hm ν (List.mem_append_right _ hν)) h0 h1
      linarith)
  show Pwl.mk (spikeProfile a.nonEmpty b.nonEmpty a.ts a.te m kw.ri).1
      (spikeProfile a.nonEmpty b.nonEmpty a.ts a.te m kw.ri).2.1
      (spikeProfile a.nonEmpty b.nonEmpty a.ts a.te m kw.ri).2.2 =
    Pwl.mk (spikeProfile a.nonEmpty b.nonEmpty a.ts a.te 0 kw.ri).1
      (spikeProfile a.nonEmpty b.nonEmpty a.ts a.te 0 kw.ri).2.1
      (spikeProfile a.nonEmpty b.nonEmpty a.ts a.te 0 kw.ri).2.2
  rw [e]

/-- hence also the bivariate SPIKE distance -/
theorem H1_spike_distance_small_mrts_api (kw : Kw) (m : Q) (a b : Train)
    (ha : ValidTrain a) (hb : ValidTrain b) (hts : b.ts = a.ts) (hte : b.te = a.te)
    (hm : ∀ ν ∈ isiListSpec a.spikes a.ts a.te ++ isiListSpec b.spikes a.ts a.te, m ≤ ν) :
    spikeDistanceBi { kw with mrts := m } a b = spikeDistanceBi { kw with mrts := 0 } a b := by
  unfold spikeDistanceBi
  rw [H1_spike_profile_small_mrts_api kw m a b ha hb hts hte hm]

/-- **C15 (small MRTS, multivariate ISI profile)** — gap 4 of CLAUSES3.md: the statement never
    needed an exclusion of the F9 class -/
theorem H1_isi_multi_profile_small_mrts (kw : Kw) (m : Q) (L : List Train) (ts te : Q)
    (hv : B5_ValidList ts te L) (h2 : 2 ≤ L.length)
    (hm : ∀ ν ∈ L.flatMap (fun t => isiListSpec t.spikes ts te), m ≤ ν) :
    isiProfileMulti { kw with mrts := m } none L = isiProfileMulti { kw with mrts := 0 } none L := by
  have hpair : ∀ p ∈ pairsOf (List.range L.length),
      isiProfileBi ({ kw with mrts := m } : Kw).noRecon (tr L p.1) (tr L p.2) =
        isiProfileBi ({ kw with mrts := 0 } : Kw).noRecon (tr L p.1) (tr L p.2) := by
    intro p hp
    obtain ⟨m1, m2⟩ := B5_pair_mem L p hp
    obtain ⟨v1, s1, e1⟩ := hv _ m1
    obtain ⟨v2, s2, e2⟩ := hv _ m2
    apply G3_isi_profile_small_mrts_api kw.noRecon m _ _ v1 v2 (s2.trans s1.symm)
      (e2.trans e1.symm)
    rw [s1, e1]
    exact fun ν hν => hm ν (List.mem_flatMap.mpr ⟨_, m1, hν⟩)
  unfold isiProfileMulti
  simp only [F5_prep_valid _ ts te L hv, resolveIdx, genericProfileMulti_snd]
  have := F6_gpm_rel Pwc.add
    (fun p => isiProfileBi ({ kw with mrts := m } : Kw).noRecon (tr L p.1) (tr L p.2))
    (fun p => isiProfileBi ({ kw with mrts := 0 } : Kw).noRecon (tr L p.1) (tr L p.2))
    (· = ·) (fun _ _ _ _ h h' => by rw [h, h']) (List.range L.length) (B5_pairs_range_ne_nil h2)
    hpair
  rw [this]

/-- **C15 (small MRTS, multivariate SPIKE profile), no exclusion**: a valid list (trains of the F9
    class allowed) and an `MRTS` not above any entry of the pooled inter-spike-interval list of all
    trains: `spike_profile_multi` is the `MRTS = 0` profile -/
theorem H1_spike_multi_profile_small_mrts (kw : Kw) (m : Q) (L : List Train) (ts te : Q)
    (hv : B5_ValidList ts te L) (h2 : 2 ≤ L.length)
    (hm : ∀ ν ∈ L.flatMap (fun t => isiListSpec t.spikes ts te), m ≤ ν) :
    spikeProfileMulti { kw with mrts := m } none L = spikeProfileMulti { kw with mrts := 0 } none L := by
  have hpair : ∀ p ∈ pairsOf (List.range L.length),
      spikeProfileBi ({ kw with mrts := m } : Kw).noRecon (tr L p.1) (tr L p.2) =
        spikeProfileBi ({ kw with mrts := 0 } : Kw).noRecon (tr L p.1) (tr L p.2) := by
    intro p hp
    obtain ⟨m1, m2⟩ := B5_pair_mem L p hp
    obtain ⟨v1, s1, e1⟩ := hv _ m1
    obtain ⟨v2, s2, e2⟩ := hv _ m2
    apply H1_spike_profile_small_mrts_api kw.noRecon m _ _ v1 v2 (s2.trans s1.symm)
      (e2.trans e1.symm)
    rw [s1, e1]
    intro ν hν
    rcases List.mem_append.mp hν with h | h
    · exact hm ν (List.mem_flatMap.mpr ⟨_, m1, h⟩)
    · exact hm ν (List.mem_flatMap.mpr ⟨_, m2, h⟩)
  unfold spikeProfileMulti
  simp only [F5_prep_valid _ ts te L hv, resolveIdx, genericProfileMulti_snd]
  have := F6_gpm_rel Pwl.add
    (fun p => spikeProfileBi ({ kw with mrts := m } : Kw).noRecon (tr L p.1) (tr L p.2))
    (fun p => spikeProfileBi ({ kw with mrts := 0 } : Kw).noRecon (tr L p.1) (tr L p.2))
    (· = ·) (fun _ _ _ _ h h' => by rw [h, h']) (List.range L.length) (B5_pairs_range_ne_nil h2)
    hpair
  rw [this]

/-- hypotheses of the multivariate small-MRTS theorems on a list with trains of the F9 class and
    `MRTS = 1 > 0` -/
example : B5_ValidList 0 6 H1_exL ∧ 2 ≤ H1_exL.length ∧
    (∀ ν ∈ H1_exL.flatMap (fun t => isiListSpec t.spikes 0 6), (1 : Q) ≤ ν) := by
  refine ⟨H1_exL_valid, by decide, ?_⟩
  decide +kernel

/-! ## 9. `MRTS = 0` is the plain (non-adaptive) formula, all valid trains

  With `m = 0` every value the scan computes is `G3_nonAdaptive ri s₁ s₂ ν₁ ν₂` of the scan's own
  contributions `s` and interval lengths `ν` (on the F9 class the contribution of the F9 train is
  not the defined one — finding F9 — but the formula applied to it is the plain one). -/

/-- `F1_AdvEv` with `distAtT · · · · 0 ri` replaced by the plain formula -/
def H1_AdvEv0 (ri : Bool) (x y x' : SpkSt) (ev : Q × Q × Q) : Prop :=
  ev = (x.tf,
        G3_nonAdaptive ri (x.dtf * (x.tf - x.tp) / x.isi) (B4_interp y x.tf) x.isi y.isi,
        G3_nonAdaptive ri x.dtf (B4_interp y x.tf) x'.isi y.isi)

/-- `F1_RecOK` with `distAtT · · · · 0 ri` replaced by the plain formula -/
def H1_RecOK0 (ri : Bool) (rec : F1_Rec) : Prop :=
  (rec.2.1.2 = rec.1.2 ∧ H1_AdvEv0 ri rec.1.1 rec.1.2 rec.2.1.1 rec.2.2) ∨
  (rec.2.1.1 = rec.1.1 ∧ H1_AdvEv0 ri rec.1.2 rec.1.1 rec.2.1.2 rec.2.2) ∨
  rec.2.2 = (rec.1.1.tf, 0, 0)

theorem H1_advEv0 {ri : Bool} {x y x' : SpkSt} {ev : Q × Q × Q} (h : F1_AdvEv 0 ri x y x' ev)
    (hx : 0 < x.isi) (hy : 0 < y.isi) (hx' : 0 ≤ x'.isi) : H1_AdvEv0 ri x y x' ev := by
  unfold F1_AdvEv at h
  unfold H1_AdvEv0
  rw [h, G3_distAtT_zero _ _ _ _ ri (by linarith), G3_distAtT_zero _ _ _ _ ri (by linarith)]

/-- **C15 (SPIKE, `MRTS = 0`), the scan, no exclusion**: for ALL valid trains the start value, the
    two values of every iteration (`F1_spikeSteps`, the iterations of the scan inside
    `spikeProfile`, see `F1_spikeSteps_spec` and `B4_spikeProfile_unfold`) and the closing value are
    the plain formula `G3_nonAdaptive ri` of the scan's own contributions and interval lengths -/
theorem H1_spikeProfile_zero_mrts (t1 t2 : List Q) (ts te : Q) (ri : Bool)
    (h1 : ValidNE t1 ts te) (h2 : ValidNE t2 ts te) (hlt : ts < te) :
    distAtT (B4_init t1 t2 ts te).1.isi (B4_init t2 t1 ts te).1.isi
        (B4_init t1 t2 ts te).2.2.2 (B4_init t2 t1 ts te).2.2.2 0 ri =
      G3_nonAdaptive ri (B4_init t1 t2 ts te).2.2.2 (B4_init t2 t1 ts te).2.2.2
        (B4_init t1 t2 ts te).1.isi (B4_init t2 t1 ts te).1.isi ∧
    (∀ rec ∈ F1_spikeSteps t1 t2 ts te 0 ri, H1_RecOK0 ri rec) ∧
    distAtT (B4_res t1 t2 ts te 0 ri).2.1.isi (B4_res t1 t2 ts te 0 ri).2.2.isi
        (B4_res t1 t2 ts te 0 ri).2.1.dtf (B4_res t1 t2 ts te 0 ri).2.2.dtf 0 ri =
      G3_nonAdaptive ri (B4_res t1 t2 ts te 0 ri).2.1.dtf (B4_res t1 t2 ts te 0 ri).2.2.dtf
        (B4_res t1 t2 ts te 0 ri).2.1.isi (B4_res t1 t2 ts te 0 ri).2.2.isi := by
  obtain ⟨c1, i1⟩ := F1_init_pinv t1 t2 ts te h1
  obtain ⟨c2, i2⟩ := F1_init_pinv t2 t1 ts te h2
  obtain ⟨hrec, hf1, hf2⟩ := F1_spkSteps_pos t1 t2 ts te 0 ri _ _ _ _ _ _ ts c1 c2 i1 i2
  obtain ⟨-, -, hok⟩ := F1_spikeSteps_spec t1 t2 ts te 0 ri
  refine ⟨?_, ?_, ?_⟩
  · have p1 := i1.isi_pos hlt
    have p2 := i2.isi_pos hlt
    exact G3_distAtT_zero _ _ _ _ ri (by linarith)
  · intro rec hr
    obtain ⟨⟨b1, b2⟩, ⟨a1, a2⟩, -, -, -⟩ := hrec rec hr
    rcases hok rec hr with ⟨e, hev⟩ | ⟨e, hev⟩ | hev
    · exact Or.inl ⟨e, H1_advEv0 hev b1 b2 a1⟩
    · exact Or.inr (Or.inl ⟨e, H1_advEv0 hev b2 b1 a2⟩)
    · exact Or.inr (Or.inr hev)
  · have q1 := (F1_nuform_end ts te t1 h1.2.1 h1.1 (fun z hz => (h1.2.2 z hz).2)).1
    have q2 := (F1_nuform_end ts te t2 h2.2.1 h2.1 (fun z hz => (h2.2.2 z hz).2)).1
    apply G3_distAtT_zero _ _ _ _ ri
    show 0 ≤ ((spkLoop _ _ _ _ _ _ _).2.1.isi + (spkLoop _ _ _ _ _ _ _).2.2.isi) / 2
    rw [hf1, hf2]
    linarith

/-- a value is `0` or the plain formula of two non-negative contributions and the two interval
    lengths `nuAt` at a time of `[ts, te)` -/
def H1_Plain (t1 t2 : List Q) (ts te : Q) (ri : Bool) (v : Q) : Prop :=
  v = 0 ∨ ∃ t s1 s2 : Q, ts ≤ t ∧ t < te ∧ 0 ≤ s1 ∧ 0 ≤ s2 ∧
    v = G3_nonAdaptive ri s1 s2 (nuAt t1 ts te t) (nuAt t2 ts te t)

/-- **C15 (SPIKE, `MRTS = 0`), the returned arrays, no exclusion**: every value of the SPIKE profile
    at `MRTS = 0` is `0` (shared spike) or the plain formula with the interval lengths of the two
    trains at a time of the recording -/
theorem H1_spikeProfile_zero_mrts_values (t1 t2 : List Q) (ts te : Q) (ri : Bool)
    (h1 : ValidNE t1 ts te) (h2 : ValidNE t2 ts te) (hlt : ts < te) :
    ∀ v ∈ (spikeProfile t1 t2 ts te 0 ri).2.1 ++ (spikeProfile t1 t2 ts te 0 ri).2.2,
      H1_Plain t1 t2 ts te ri v := by
  obtain ⟨e1, e2⟩ := H1_spikeProfile_rel (fun v _ => H1_Plain t1 t2 ts te ri v) (Or.inl rfl)
    t1 t2 ts te 0 0 ri h1 h2 hlt (by
      intro t i1 i2 v1 v2 a b c d p1 p2 q1 q2
      subst c d
      exact Or.inr ⟨t, v1, v2, a, b, q1, q2, G3_distAtT_zero _ _ _ _ ri (by linarith)⟩)
  rw [List.forall₂_same] at e1 e2
  intro v hv
  rcases List.mem_append.mp hv with h | h
  · exact e1 v h
  · exact e2 v h

example : ValidNE [0] 0 10 ∧ ValidNE [3, 7] 0 10 ∧ (0 : Q) < 10 := by
  unfold ValidNE; decide +kernel

/-- API form: the two value arrays of `spike_profile(st1, st2, MRTS=0)` for valid trains on a common
    interval (every other keyword, F9 class included) -/
theorem H1_spike_profile_zero_mrts_api (kw : Kw) (a b : Train) (ha : ValidTrain a)
    (hb : ValidTrain b) (hts : b.ts = a.ts) (hte : b.te = a.te) :
    ∀ v ∈ (spikeProfileBi { kw with mrts := 0 } a b).y1 ++
        (spikeProfileBi { kw with mrts := 0 } a b).y2,
      H1_Plain a.nonEmpty b.nonEmpty a.ts a.te kw.ri v := by
  rw [C2_spikeProfileBi_valid { kw with mrts := 0 } a b ha hb hts hte]
  have h1 := nonEmpty_valid a ha
  have h2 := nonEmpty_valid b hb
  rw [hts, hte] at h2
  have hall := H1_spikeProfile_zero_mrts_values a.nonEmpty b.nonEmpty a.ts a.te kw.ri h1 h2 ha.1
  unfold spikeProfileBi
  rw [prepBi_noRecon]
  exact hall

example : ValidTrain ⟨[0], 0, 6⟩ ∧ ValidTrain ⟨[2, 3, 6], 0, 6⟩ :=
  ⟨⟨by decide, by decide, by decide⟩, ⟨by decide, by decide, by decide⟩⟩

end PySpike
