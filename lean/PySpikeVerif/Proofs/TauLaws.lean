/-
  Proofs/TauLaws.lean — the coincidence window `get_tau`: the two `Interpolate`s agree, the window
  is bounded by `max_tau`, monotone in `max_tau` and in MRTS, and unaffected by a small MRTS.
-/
import PySpikeVerif.Model.Sync
import PySpikeVerif.Proofs.Basic

namespace PySpike

/-- `Interpolate(a,b,t)` clamps `t` into `[min a b, b]` -/
theorem interp_eq_clamp (a b t : Q) : interp a b t = min b (max (min a b) t) := by
  unfold interp
  simp only
  split
  · rename_i h
    rw [max_eq_left (le_of_lt h), min_eq_right (min_le_right a b)]
  · rename_i h
    split
    · rename_i h2
      rw [max_eq_right (not_lt.mp h), min_eq_left (le_of_lt h2)]
    · rename_i h2
      rw [max_eq_right (not_lt.mp h), min_eq_right (not_lt.mp h2)]

/-- the differently written Cython `Interpolate` computes the same function -/
theorem interpPyx_eq_interp (a b t : Q) : interpPyx a b t = interp a b t := by
  unfold interpPyx interp
  simp only
  rcases lt_trichotomy a b with hab | hab | hab
  · rw [min_eq_left (le_of_lt hab)]
    by_cases h1 : t < a
    · simp [h1, hab]
    · have : ¬ (t < b ∧ b ≤ a) := fun h => absurd (lt_of_lt_of_le hab h.2) (lt_irrefl _)
      simp [h1, this]
  · subst hab
    rw [min_self]
    by_cases h1 : t < a
    · simp [h1]
    · simp [h1]
  · rw [min_eq_right (le_of_lt hab)]
    by_cases h1 : t < b
    · have : ¬ (t < a ∧ a < b) := fun h => absurd (lt_trans h.2 hab) (lt_irrefl _)
      simp [h1, this, le_of_lt hab]
    · have : ¬ (t < a ∧ a < b) := fun h => absurd (lt_trans h.2 hab) (lt_irrefl _)
      simp [h1, this]

theorem interp_le_right (a b t : Q) : interp a b t ≤ b := by
  rw [interp_eq_clamp]; exact min_le_left _ _

theorem interp_ge_min (a b t : Q) : min a b ≤ interp a b t := by
  rw [interp_eq_clamp]; exact le_min (min_le_right _ _) (le_max_left _ _)

theorem interp_mono_t (a b t1 t2 : Q) (h : t1 ≤ t2) : interp a b t1 ≤ interp a b t2 := by
  rw [interp_eq_clamp, interp_eq_clamp]
  exact min_le_min (le_refl _) (max_le_max (le_refl _) h)

theorem interp_mono_ab (a1 b1 a2 b2 t : Q) (ha : a1 ≤ a2) (hb : b1 ≤ b2) :
    interp a1 b1 t ≤ interp a2 b2 t := by
  rw [interp_eq_clamp, interp_eq_clamp]
  exact min_le_min hb (max_le_max (min_le_min ha hb) (le_refl _))

/-- a threshold not above both half-intervals leaves the plain minimum -/
theorem interp_small_t (a b t : Q) (h : t ≤ min a b) : interp a b t = min a b := by
  rw [interp_eq_clamp, max_eq_left h, min_eq_right (min_le_right _ _)]

/-- with MRTS = 0 the window is the plain minimum of the (non-negative) half-intervals -/
theorem interp_zero (a b : Q) (ha : 0 ≤ a) (hb : 0 ≤ b) : interp a b 0 = min a b :=
  interp_small_t a b (0:Q) (le_min ha hb)

/-- **C16**: the window never exceeds half of the `max_tau` argument of `get_tau` … -/
theorem getTau_le_half (p1 c1 n1 p2 c2 n2 : Option Q) (maxTau mrts : Q) :
    getTau p1 c1 n1 p2 c2 n2 maxTau mrts ≤ maxTau / 2 := by
  unfold getTau
  by_cases hf : tauFirst c1 c2 = true
  · simp only [hf, if_true]; exact min_le_right _ _
  · simp only [hf]; exact min_le_right _ _

/-- … and the callers pass `true_max = min(T, 2·max_tau)`, so it never exceeds `max_tau` -/
theorem trueMax_half_le (ts te mt : Q) (h : 0 < mt) : trueMax ts te mt / 2 ≤ mt := by
  unfold trueMax
  rw [if_pos h]
  have := min_le_right (te - ts) (2 * mt)
  linarith

theorem tauAt_le_maxTau (k1 r1 k2 r2 : List Q) (ts te mt mrts : Q) (h : 0 < mt) :
    tauAt k1 r1 k2 r2 (trueMax ts te mt) mrts ≤ mt :=
  le_trans (getTau_le_half _ _ _ _ _ _ _ _) (trueMax_half_le ts te mt h)

/-- the `true_max` passed on is monotone in the user's `max_tau` (for positive values) and largest
    for `max_tau = 0` / `None` (unbounded) -/
theorem trueMax_mono (ts te mt1 mt2 : Q) (h1 : 0 < mt1) (h : mt1 ≤ mt2) :
    trueMax ts te mt1 ≤ trueMax ts te mt2 := by
  unfold trueMax
  rw [if_pos h1, if_pos (lt_of_lt_of_le h1 h)]
  exact min_le_min (le_refl _) (by linarith)

theorem trueMax_le_unbounded (ts te mt : Q) : trueMax ts te mt ≤ trueMax ts te 0 := by
  unfold trueMax
  simp only [lt_irrefl, if_false]
  split
  · exact min_le_left _ _
  · exact le_refl _

theorem optDiff_mono (x y : Option Q) (m1 m2 : Q) (h : m1 ≤ m2) :
    optDiff x y m1 ≤ optDiff x y m2 := by
  unfold optDiff
  cases x <;> cases y <;> simp [h]

theorem half_le_half {x y : Q} (h : x ≤ y) : x / 2 ≤ y / 2 :=
  div_le_div_of_nonneg_right h (by norm_num)

/-- the window is monotone in the `max_tau` argument (missing neighbours and the cap both grow) -/
theorem getTau_mono_maxTau (p1 c1 n1 p2 c2 n2 : Option Q) (m1 m2 mrts : Q) (h : m1 ≤ m2) :
    getTau p1 c1 n1 p2 c2 n2 m1 mrts ≤ getTau p1 c1 n1 p2 c2 n2 m2 mrts := by
  unfold getTau
  have hF1 := half_le_half (optDiff_mono c1 n1 m1 m2 h)
  have hF2 := half_le_half (optDiff_mono c2 n2 m1 m2 h)
  have hP1 := half_le_half (optDiff_mono p1 c1 m1 m2 h)
  have hP2 := half_le_half (optDiff_mono p2 c2 m1 m2 h)
  by_cases hf : tauFirst c1 c2 = true
  · simp only [hf, if_true]
    exact min_le_min (min_le_min (interp_mono_ab _ _ _ _ _ hP1 hF1) (interp_mono_ab _ _ _ _ _ hF2 hP2))
      (half_le_half h)
  · simp only [hf]
    exact min_le_min (min_le_min (interp_mono_ab _ _ _ _ _ hF1 hP1) (interp_mono_ab _ _ _ _ _ hP2 hF2))
      (half_le_half h)

/-- **C15**: raising MRTS never shrinks the window (hence never removes a coincidence) -/
theorem getTau_mono_mrts (p1 c1 n1 p2 c2 n2 : Option Q) (maxTau m1 m2 : Q) (h : m1 ≤ m2) :
    getTau p1 c1 n1 p2 c2 n2 maxTau m1 ≤ getTau p1 c1 n1 p2 c2 n2 maxTau m2 := by
  unfold getTau
  have h4 : m1 / 4 ≤ m2 / 4 := div_le_div_of_nonneg_right h (by norm_num)
  by_cases hf : tauFirst c1 c2 = true
  · simp only [hf, if_true]
    exact min_le_min (min_le_min (interp_mono_t _ _ _ _ h4) (interp_mono_t _ _ _ _ h4)) (le_refl _)
  · simp only [hf]
    exact min_le_min (min_le_min (interp_mono_t _ _ _ _ h4) (interp_mono_t _ _ _ _ h4)) (le_refl _)

theorem tauAt_mono_mrts (k1 r1 k2 r2 : List Q) (tm m1 m2 : Q) (h : m1 ≤ m2) :
    tauAt k1 r1 k2 r2 tm m1 ≤ tauAt k1 r1 k2 r2 tm m2 := getTau_mono_mrts _ _ _ _ _ _ _ _ _ h

theorem tauAt_mono_maxTau (k1 r1 k2 r2 : List Q) (t1 t2 m : Q) (h : t1 ≤ t2) :
    tauAt k1 r1 k2 r2 t1 m ≤ tauAt k1 r1 k2 r2 t2 m := getTau_mono_maxTau _ _ _ _ _ _ _ _ _ h

end PySpike
