/-
  Proofs/MirrorApi.lean — work package G1 (C08): the mirror `t ↦ t_start + t_end − t`
  at API / multivariate level.
-/
import PySpikeVerif.Proofs.AffineApi
import PySpikeVerif.Proofs.OrderApi
import PySpikeVerif.Proofs.Assembled
import PySpikeVerif.Proofs.DirLaws
import PySpikeVerif.Proofs.MirrorSpike
import PySpikeVerif.Proofs.MirrorSync
import PySpikeVerif.Proofs.MirrorIsi
import Mathlib.Tactic.Linarith
import Mathlib.Tactic.Ring
import Mathlib.Tactic.FieldSimp
import Mathlib.Algebra.Order.Group.MinMax

namespace PySpike
open PySpike.C01

/-! ## part 2: sign of the spike-train order and the directionality under mirror (API level) -/

theorem G1_mirror_C4valid {ts te : Q} {L : List Train} (hv : C4_Valid ts te L) :
    C4_Valid ts te (L.map D1_mirror) := by
  intro t ht
  rw [List.mem_map] at ht
  obtain ⟨u, hu, rfl⟩ := ht
  obtain ⟨h1, h2, h3, h4⟩ := hv u hu
  refine ⟨h1, h2, B9_mir_sorted h3, ?_⟩
  intro x hx
  have := h4 _ (B9_mem_mir.mp hx)
  have e1 : u.ts = ts := h1
  have e2 : u.te = te := h2
  unfold B9_psi at this
  rw [e1, e2] at this
  constructor <;> linarith [this.1, this.2]

theorem G1_mirror_spikes_eq_nil (a : Train) : (D1_mirror a).spikes = [] ↔ a.spikes = [] := by
  unfold D1_mirror B9_mir
  simp

theorem G1_mirror_spikes_length (a : Train) : (D1_mirror a).spikes.length = a.spikes.length := by
  unfold D1_mirror
  exact B9_mir_length _ _ _

/-- the value route on a valid pair: no reconciliation effect -/
theorem G1_orderValues_valid (kw : Kw) {ts te : Q} {a b : Train} (hv : C4_Valid ts te [a, b]) :
    orderValues kw a b
      = (Disc.mk (orderProfile a.spikes b.spikes a.ts a.te kw.maxTau kw.mrts)).integralAll := by
  rw [F3_orderValues_fix kw a b (C4_reconcileBi_id_of_valid hv)]
  rfl

/-- **pair sums under mirror**: summed order values negated, summed multiplicities kept (every valid
    pair, also two empty trains: both sums are 0 then) -/
theorem G1_orderValues_mirror (kw : Kw) {ts te : Q} {a b : Train} (hv : C4_Valid ts te [a, b]) :
    orderValues kw (D1_mirror a) (D1_mirror b)
      = (- (orderValues kw a b).1, (orderValues kw a b).2) := by
  have hv' : C4_Valid ts te [D1_mirror a, D1_mirror b] := G1_mirror_C4valid (L := [a, b]) hv
  obtain ⟨a1, a2, a3, -⟩ := hv a (by simp)
  obtain ⟨b1, b2, b3, -⟩ := hv b (by simp)
  rw [G1_orderValues_valid kw hv', G1_orderValues_valid kw hv]
  by_cases hne : a.spikes ≠ [] ∨ b.spikes ≠ []
  · have := order_value_mirror a.spikes b.spikes a.ts a.te kw.maxTau kw.mrts a3 b3 hne
    have e : (D1_mirror b).spikes = B10_mir (a.ts + a.te) b.spikes := by
      show B9_mir b.ts b.te b.spikes = _
      rw [b1, b2, ← a1, ← a2]; rfl
    rw [e]
    exact this
  · rw [not_or, not_not, not_not] at hne
    have ea : (D1_mirror a).spikes = [] := (G1_mirror_spikes_eq_nil a).mpr hne.1
    have eb : (D1_mirror b).spikes = [] := (G1_mirror_spikes_eq_nil b).mpr hne.2
    rw [ea, eb, hne.1, hne.2, B2_orderProfile_nil_nil, B2_orderProfile_nil_nil]
    simp [Disc.integralAll, Disc.interior, qsum]

theorem G1_orderValues_mult (kw : Kw) {ts te : Q} {a b : Train} (hv : C4_Valid ts te [a, b]) :
    (orderValues kw a b).2 = (a.spikes.length : Q) + (b.spikes.length : Q) := by
  rw [B2_orderValues_eq_dir, C4_reconcileBi_id_of_valid hv]

theorem G1_orderValues_mult_eq_zero (kw : Kw) {ts te : Q} {a b : Train}
    (hv : C4_Valid ts te [a, b]) :
    (orderValues kw a b).2 = 0 ↔ (a.spikes = [] ∧ b.spikes = []) := by
  rw [G1_orderValues_mult kw hv]
  constructor
  · intro h
    have h1 : (0 : Q) ≤ (a.spikes.length : Q) := Nat.cast_nonneg _
    have h2 : (0 : Q) ≤ (b.spikes.length : Q) := Nat.cast_nonneg _
    exact ⟨(F3_natCast_length_eq_zero _).mp (by linarith), (F3_natCast_length_eq_zero _).mp (by linarith)⟩
  · rintro ⟨h1, h2⟩
    rw [h1, h2]; simp

/-- **C08, spike-train order of two trains changes sign under mirror** (normalised value; a valid
    pair on common edges that is not two empty trains; every keyword record) -/
theorem order_mirror_api (kw : Kw) {ts te : Q} {a b : Train} (hv : C4_Valid ts te [a, b])
    (hne : a.spikes ≠ [] ∨ b.spikes ≠ []) :
    spikeTrainOrderBi kw true (D1_mirror a) (D1_mirror b) = - spikeTrainOrderBi kw true a b := by
  have hz : (orderValues kw a b).2 ≠ 0 := by
    rw [Ne, G1_orderValues_mult_eq_zero kw hv]
    intro h
    rcases hne with h' | h'
    · exact h' h.1
    · exact h' h.2
  unfold spikeTrainOrderBi
  simp only [if_true, G1_orderValues_mirror kw hv, if_neg hz]
  ring

/-- two empty trains: both sides are the convention value 1 -/
theorem G1_order_mirror_api_empty (kw : Kw) {ts te : Q} {a b : Train} (hv : C4_Valid ts te [a, b])
    (he : a.spikes = [] ∧ b.spikes = []) :
    spikeTrainOrderBi kw true (D1_mirror a) (D1_mirror b) = 1 ∧ spikeTrainOrderBi kw true a b = 1 := by
  have hz : (orderValues kw a b).2 = 0 := (G1_orderValues_mult_eq_zero kw hv).mpr he
  unfold spikeTrainOrderBi
  simp only [if_true, G1_orderValues_mirror kw hv, if_pos hz, and_self]

/-- un-normalised spike-train order: sign change for every valid pair -/
theorem G1_order_mirror_api_unnormalized (kw : Kw) {ts te : Q} {a b : Train}
    (hv : C4_Valid ts te [a, b]) :
    spikeTrainOrderBi kw false (D1_mirror a) (D1_mirror b) = - spikeTrainOrderBi kw false a b := by
  unfold spikeTrainOrderBi
  simp only [Bool.false_eq_true, if_false, G1_orderValues_mirror kw hv]

example : C4_Valid 0 10 [F3_exA, F3_exB] ∧ (F3_exA.spikes ≠ [] ∨ F3_exB.spikes ≠ []) :=
  ⟨F3_exAB_valid, Or.inl (by decide)⟩

/-- **C08, spike directionality changes sign under mirror** (normalised or not, every valid pair on
    common edges, every keyword record) -/
theorem G1_directionality_mirror_api (kw : Kw) (normalize : Bool) {ts te : Q} {a b : Train}
    (hv : C4_Valid ts te [a, b]) :
    spikeDirectionality kw normalize (D1_mirror a) (D1_mirror b)
      = - spikeDirectionality kw normalize a b := by
  have hv' : C4_Valid ts te [D1_mirror a, D1_mirror b] := G1_mirror_C4valid (L := [a, b]) hv
  have hun : spikeDirectionality kw false (D1_mirror a) (D1_mirror b)
      = - spikeDirectionality kw false a b := by
    have h1 := B2_orderValues_eq_dir kw (D1_mirror a) (D1_mirror b)
    have h2 := B2_orderValues_eq_dir kw a b
    rw [G1_orderValues_mirror kw hv] at h1
    have e1 := congrArg Prod.fst h1
    have e2 := congrArg Prod.fst h2
    simp only at e1 e2
    linarith
  cases normalize with
  | false => exact hun
  | true =>
    have ed : ∀ (x y : Train) (_ : C4_Valid ts te [x, y]),
        spikeDirectionality kw true x y
          = if x.spikes = [] then 0 else spikeDirectionality kw false x y / (x.spikes.length : Q) := by
      intro x y hxy
      rw [F3_directionality_is_sum kw true x y ts te hxy, F3_directionality_is_sum kw false x y ts te hxy]
      simp
    rw [ed _ _ hv', ed _ _ hv, hun, G1_mirror_spikes_length]
    simp only [G1_mirror_spikes_eq_nil]
    split_ifs <;> ring

example : C4_Valid 0 10 [F3_exA, F3_exB] := F3_exAB_valid

/-! ### several trains -/

theorem G1_qsum_nonneg_eq_zero {A} (g : A → Q) : ∀ (l : List A), (∀ x ∈ l, 0 ≤ g x) →
    (qsum (l.map g) = 0 ↔ ∀ x ∈ l, g x = 0)
  | [], _ => by simp [qsum]
  | a :: r, h => by
    have ih := G1_qsum_nonneg_eq_zero g r (fun x hx => h x (List.mem_cons_of_mem _ hx))
    have h0 : 0 ≤ g a := h a (by simp)
    have hr : 0 ≤ qsum (r.map g) := by
      clear ih
      induction r with
      | nil => simp [qsum]
      | cons b t iht =>
        simp only [List.map_cons, qsum]
        have := h b (by simp)
        have := iht (fun x hx => by
          rcases List.mem_cons.mp hx with rfl | hx
          · exact h _ (by simp)
          · exact h _ (by simp [hx]))
        linarith
    simp only [List.map_cons, qsum, List.mem_cons, forall_eq_or_imp]
    constructor
    · intro hs
      have ha : g a = 0 := by linarith
      exact ⟨ha, ih.mp (by linarith)⟩
    · rintro ⟨ha, hall⟩
      rw [ha, ih.mpr hall]; ring

theorem G1_qsum_map_neg' {A} (g : A → Q) (l : List A) :
    qsum (l.map fun x => - g x) = - qsum (l.map g) := by
  rw [← B10_qsum_map_neg, List.map_map]; rfl

/-- every selected train occurs in a pair when at least two are selected -/
theorem G1_mem_pairsOf_of_mem : ∀ (ids : List Nat), 2 ≤ ids.length → ∀ k ∈ ids,
    ∃ p ∈ pairsOf ids, p.1 = k ∨ p.2 = k
  | [], h, _, _ => by simp at h
  | [_], h, _, _ => by simp at h
  | i :: j :: r, _, k, hk => by
    rcases List.mem_cons.mp hk with rfl | hk
    · exact ⟨(k, j), by simp [pairsOf], Or.inl rfl⟩
    · refine ⟨(i, k), ?_, Or.inr rfl⟩
      simp only [pairsOf, List.mem_append, List.mem_map]
      exact Or.inl ⟨k, hk, rfl⟩

/-- the two pooled sums of `spike_train_order_multi` under mirror: values negated, multiplicities kept -/
theorem G1_order_multi_sums_mirror (kw : Kw) (ids : List Nat) {ts te : Q} {L : List Train}
    (hv : C4_Valid ts te L) (hi : ∀ i ∈ ids, i < L.length) :
    qsum ((pairsOf ids).map fun p =>
        (orderValues kw (tr (L.map D1_mirror) p.1) (tr (L.map D1_mirror) p.2)).1)
      = - qsum ((pairsOf ids).map fun p => (orderValues kw (tr L p.1) (tr L p.2)).1) ∧
    qsum ((pairsOf ids).map fun p =>
        (orderValues kw (tr (L.map D1_mirror) p.1) (tr (L.map D1_mirror) p.2)).2)
      = qsum ((pairsOf ids).map fun p => (orderValues kw (tr L p.1) (tr L p.2)).2) := by
  have hc : ∀ p ∈ pairsOf ids,
      orderValues kw (tr (L.map D1_mirror) p.1) (tr (L.map D1_mirror) p.2)
        = (- (orderValues kw (tr L p.1) (tr L p.2)).1, (orderValues kw (tr L p.1) (tr L p.2)).2) := by
    intro p hp
    obtain ⟨h1, h2⟩ := mem_pairsOf hp
    rw [F4_tr_map_g D1_mirror L p.1 (hi _ h1), F4_tr_map_g D1_mirror L p.2 (hi _ h2)]
    exact G1_orderValues_mirror kw (F3_valid_pair hv (hi _ h1) (hi _ h2))
  constructor
  · rw [← G1_qsum_map_neg']
    congr 1
    exact List.map_congr_left (fun p hp => by rw [hc p hp])
  · congr 1
    exact List.map_congr_left (fun p hp => by rw [hc p hp])

/-- **C08, spike-train order of several trains under mirror** (valid list on common edges, every
    keyword record, every `indices` selection inside the list): the value changes sign, except when
    the pooled multiplicity is 0 — every selected pair consists of two empty trains (or no pair is
    selected) — where both sides are the convention value 1 -/
theorem G1_order_multi_mirror_pairs (kw : Kw) (idx : Option (List Nat)) {ts te : Q} {L : List Train}
    (hv : C4_Valid ts te L) (hi : F4_IdxOk idx L) :
    spikeTrainOrderMulti kw idx (L.map D1_mirror)
      = if (∀ p ∈ pairsOf (resolveIdx idx L.length),
              (tr L p.1).spikes = [] ∧ (tr L p.2).spikes = []) then 1
        else - spikeTrainOrderMulti kw idx L := by
  rw [D5_spikeTrainOrderMulti_eq_ratio, D5_spikeTrainOrderMulti_eq_ratio]
  simp only [F3_prep_valid kw hv, F3_prep_valid kw (G1_mirror_C4valid hv), List.length_map]
  obtain ⟨e1, e2⟩ := G1_order_multi_sums_mirror kw (resolveIdx idx L.length) hv hi
  rw [e1, e2]
  have hz := G1_qsum_nonneg_eq_zero
    (fun p : Nat × Nat => (orderValues kw (tr L p.1) (tr L p.2)).2)
    (pairsOf (resolveIdx idx L.length)) (by
      intro p hp
      obtain ⟨h1, h2⟩ := mem_pairsOf hp
      show 0 ≤ (orderValues kw (tr L p.1) (tr L p.2)).2
      rw [G1_orderValues_mult kw (F3_valid_pair hv (hi _ h1) (hi _ h2))]
      positivity)
  have hiff : qsum ((pairsOf (resolveIdx idx L.length)).map
        fun p => (orderValues kw (tr L p.1) (tr L p.2)).2) = 0
      ↔ ∀ p ∈ pairsOf (resolveIdx idx L.length),
          (tr L p.1).spikes = [] ∧ (tr L p.2).spikes = [] := by
    rw [hz]
    constructor
    · intro h p hp
      obtain ⟨h1, h2⟩ := mem_pairsOf hp
      exact (G1_orderValues_mult_eq_zero kw (F3_valid_pair hv (hi _ h1) (hi _ h2))).mp (h p hp)
    · intro h p hp
      obtain ⟨h1, h2⟩ := mem_pairsOf hp
      exact (G1_orderValues_mult_eq_zero kw (F3_valid_pair hv (hi _ h1) (hi _ h2))).mpr (h p hp)
  by_cases hM : qsum ((pairsOf (resolveIdx idx L.length)).map
        fun p => (orderValues kw (tr L p.1) (tr L p.2)).2) = 0
  · rw [if_pos hM, if_pos (hiff.mp hM)]
  · rw [if_neg hM, if_neg (fun h => hM (hiff.mpr h)), if_neg hM]
    ring

/-- **the form of the audit** (at least two selected trains): sign change unless all selected trains
    are empty -/
theorem order_multi_mirror (kw : Kw) (idx : Option (List Nat)) {ts te : Q} {L : List Train}
    (hv : B5_ValidList ts te L) (hi : F4_IdxOk idx L) (h2 : 2 ≤ (resolveIdx idx L.length).length) :
    spikeTrainOrderMulti kw idx (L.map D1_mirror)
      = if (∀ k ∈ resolveIdx idx L.length, (tr L k).spikes = []) then 1
        else - spikeTrainOrderMulti kw idx L := by
  rw [G1_order_multi_mirror_pairs kw idx (F3_valid_of_B5 hv) hi]
  have hiff : (∀ p ∈ pairsOf (resolveIdx idx L.length),
        (tr L p.1).spikes = [] ∧ (tr L p.2).spikes = [])
      ↔ ∀ k ∈ resolveIdx idx L.length, (tr L k).spikes = [] := by
    constructor
    · intro h k hk
      obtain ⟨p, hp, hpk⟩ := G1_mem_pairsOf_of_mem _ h2 k hk
      rcases hpk with rfl | rfl
      · exact (h p hp).1
      · exact (h p hp).2
    · intro h p hp
      obtain ⟨h1, h2⟩ := mem_pairsOf hp
      exact ⟨h _ h1, h _ h2⟩
  by_cases hA : ∀ k ∈ resolveIdx idx L.length, (tr L k).spikes = []
  · rw [if_pos hA, if_pos (hiff.mpr hA)]
  · rw [if_neg hA, if_neg (fun h => hA (hiff.mp h))]

/-- all trains (`indices = None`) -/
theorem G1_order_multi_mirror_all (kw : Kw) {ts te : Q} {L : List Train}
    (hv : B5_ValidList ts te L) (h2 : 2 ≤ L.length) :
    spikeTrainOrderMulti kw none (L.map D1_mirror)
      = if (∀ t ∈ L, t.spikes = []) then 1 else - spikeTrainOrderMulti kw none L := by
  rw [order_multi_mirror kw none hv (F4_IdxOk_none L) (by simpa [resolveIdx] using h2)]
  have hiff : (∀ k ∈ resolveIdx none L.length, (tr L k).spikes = []) ↔ ∀ t ∈ L, t.spikes = [] := by
    simp only [resolveIdx, List.mem_range]
    constructor
    · intro h t ht
      obtain ⟨k, hk, rfl⟩ := List.getElem_of_mem ht
      have := h k hk
      unfold tr at this
      rwa [List.getD_eq_getElem?_getD, List.getElem?_eq_getElem hk] at this
    · intro h k hk
      exact h _ (B5_tr_mem L k hk)
  by_cases hA : ∀ t ∈ L, t.spikes = []
  · rw [if_pos hA, if_pos (hiff.mpr hA)]
  · rw [if_neg hA, if_neg (fun h => hA (hiff.mp h))]

example : B5_ValidList 0 10 F3_exL ∧ F4_IdxOk (some [2, 0]) F3_exL ∧
    2 ≤ (resolveIdx (some [2, 0]) F3_exL.length).length :=
  ⟨F3_exL_valid, by unfold F4_IdxOk F3_exL resolveIdx; decide, by decide⟩

/-! ## part 1: mirror of the profiles, representation and one-sided limits -/

/-- the list of pieces `(x[k], x[k+1], w[k])` -/
def G1_z3 {W : Type} (x : List Q) (w : List W) : List (Q × Q × W) := x.zip (x.tail.zip w)

theorem G1_z3_cons {W : Type} (a b : Q) (v : W) (xs : List Q) (ys : List W) :
    G1_z3 (a :: b :: xs) (v :: ys) = (a, b, v) :: G1_z3 (b :: xs) ys := rfl

theorem G1_z3_snoc {W : Type} (a b : Q) (v : W) : ∀ (xs : List Q) (ys : List W),
    ys.length = xs.length →
    G1_z3 (xs ++ [a, b]) (ys ++ [v]) = G1_z3 (xs ++ [a]) ys ++ [(a, b, v)]
  | [], [], _ => rfl
  | [], _ :: _, h => by simp at h
  | _ :: _, [], h => by simp at h
  | [c], [w], _ => rfl
  | [_], _ :: _ :: _, h => by simp at h
  | _ :: _ :: _, [_], h => by simp at h
  | c :: d :: xs, w :: w' :: ys, h => by
    have ih := G1_z3_snoc a b v (d :: xs) (w' :: ys) (by simpa using h)
    simp only [List.cons_append] at ih ⊢
    rw [G1_z3_cons, G1_z3_cons, ih]
    rfl

/-- pieces of the mirrored representation: reflected, end points exchanged, reverse order -/
theorem G1_z3_mir {W W' : Type} (ts te : Q) (k : W → W') : ∀ (xs : List Q) (ys : List W),
    ys.length + 1 = xs.length →
    G1_z3 (B9_mir ts te xs) (ys.map k).reverse
      = ((G1_z3 xs ys).map fun p => (B9_psi ts te p.2.1, B9_psi ts te p.1, k p.2.2)).reverse
  | [], _, h => by simp at h
  | [a], [], _ => by simp [B9_mir, G1_z3]
  | [_], _ :: _, h => by simp at h
  | _ :: _ :: _, [], h => by simp at h
  | a :: b :: xs, v :: ys, h => by
    have ih := G1_z3_mir ts te k (b :: xs) ys (by simpa using h)
    have e : B9_mir ts te (a :: b :: xs)
        = B9_mir ts te xs ++ [B9_psi ts te b, B9_psi ts te a] := by
      simp [B9_mir]
    have e' : B9_mir ts te (b :: xs) = B9_mir ts te xs ++ [B9_psi ts te b] := by
      simp [B9_mir]
    rw [e, List.map_cons, List.reverse_cons, G1_z3_snoc _ _ _ _ _ (by
      rw [B9_mir_length, List.length_reverse, List.length_map]; simpa using h), ← e', ih,
      G1_z3_cons, List.map_cons, List.reverse_cons]

/-- consecutive pieces: the right end of an earlier piece is not after the left end of a later one -/
theorem G1_z3_chain {W : Type} : ∀ (xs : List Q) (ys : List W), xs.Pairwise (· < ·) →
    (G1_z3 xs ys).Pairwise (fun p q => p.2.1 ≤ q.1)
  | [], _, _ => by simp [G1_z3]
  | [_], _, _ => by simp [G1_z3]
  | _ :: _ :: _, [], _ => by simp [G1_z3]
  | a :: b :: xs, v :: ys, h => by
    rw [G1_z3_cons, List.pairwise_cons]
    have h' : (b :: xs).Pairwise (· < ·) := (List.pairwise_cons.mp h).2
    refine ⟨?_, G1_z3_chain (b :: xs) ys h'⟩
    intro q hq
    have hq1 : q.1 ∈ b :: xs := (List.of_mem_zip hq).1
    rcases List.mem_cons.mp hq1 with e | e
    · rw [e]
    · exact le_of_lt (by rw [List.pairwise_cons] at h'; exact h'.1 _ e)

/-- `find?` on the reversed list when at most one element can match -/
theorem G1_find_reverse {A : Type} (p : A → Bool) (R : A → A → Prop)
    (hex : ∀ a b, R a b → p a = true → p b = true → False) : ∀ (l : List A), l.Pairwise R →
    l.reverse.find? p = l.find? p
  | [], _ => rfl
  | a :: r, h => by
    obtain ⟨h1, h2⟩ := List.pairwise_cons.mp h
    rw [List.reverse_cons, List.find?_append, G1_find_reverse p R hex r h2, List.find?_cons]
    cases hp : p a with
    | true =>
      have : r.find? p = none := by
        rw [List.find?_eq_none]
        intro b hb hpb
        exact hex a b (h1 b hb) hp hpb
      rw [this]
      simp [hp]
    | false => simp [hp]

/-- the mirrored piecewise constant function -/
def G1_mirPwc (ts te : Q) (f : Pwc) : Pwc := ⟨B9_mir ts te f.x, f.y.reverse⟩

theorem G1_mirPwc_pieces (ts te : Q) (f : Pwc) (h : f.y.length + 1 = f.x.length) :
    (G1_mirPwc ts te f).pieces
      = (f.pieces.map fun p => (B9_psi ts te p.2.1, B9_psi ts te p.1, p.2.2)).reverse := by
  have := G1_z3_mir ts te (fun v : Q => v) f.x f.y h
  rw [List.map_id'] at this
  exact this

/-- right limit of the mirrored function at the mirrored time = left limit of the function -/
theorem G1_mirPwc_evalR (ts te : Q) (f : Pwc) (h : f.y.length + 1 = f.x.length)
    (hs : f.x.Pairwise (· < ·)) (t : Q) :
    (G1_mirPwc ts te f).evalR (B9_psi ts te t) = f.evalL t := by
  unfold Pwc.evalR Pwc.evalL
  rw [G1_mirPwc_pieces ts te f h, ← List.map_reverse, List.find?_map]
  rw [G1_find_reverse _ (fun p q : Q × Q × Q => p.2.1 ≤ q.1) _ f.pieces (G1_z3_chain f.x f.y hs)]
  · rw [Option.map_map]
    congr 1
    congr 1
    funext p
    simp only [Function.comp, B9_psi_le, B9_psi_lt]
    exact decide_eq_decide.mpr and_comm
  · intro a b hab ha hb
    simp only [Function.comp, B9_psi_le, B9_psi_lt, decide_eq_true_eq] at ha hb
    linarith [ha.1, ha.2, hb.1, hb.2]

/-- left limit of the mirrored function at the mirrored time = right limit of the function -/
theorem G1_mirPwc_evalL (ts te : Q) (f : Pwc) (h : f.y.length + 1 = f.x.length)
    (hs : f.x.Pairwise (· < ·)) (t : Q) :
    (G1_mirPwc ts te f).evalL (B9_psi ts te t) = f.evalR t := by
  unfold Pwc.evalR Pwc.evalL
  rw [G1_mirPwc_pieces ts te f h, ← List.map_reverse, List.find?_map]
  rw [G1_find_reverse _ (fun p q : Q × Q × Q => p.2.1 ≤ q.1) _ f.pieces (G1_z3_chain f.x f.y hs)]
  · rw [Option.map_map]
    congr 1
    congr 1
    funext p
    simp only [Function.comp, B9_psi_le, B9_psi_lt]
    exact decide_eq_decide.mpr and_comm
  · intro a b hab ha hb
    simp only [Function.comp, B9_psi_le, B9_psi_lt, decide_eq_true_eq] at ha hb
    linarith [ha.1, ha.2, hb.1, hb.2]

/-! ### ISI profile -/

theorem G1_mirror_mirror (a : Train) : D1_mirror (D1_mirror a) = a := by
  unfold D1_mirror
  simp only [B9_mir_mir]

theorem G1_map_mirror_mirror (L : List Train) : (L.map D1_mirror).map D1_mirror = L := by
  rw [List.map_map]
  conv_rhs => rw [← List.map_id L]
  exact List.map_congr_left (fun a _ => G1_mirror_mirror a)

/-- **representation level, two trains, every keyword record**: the ISI profile of the mirrored
    trains is the mirrored profile (break points reflected, values in reverse order) -/
theorem G1_isiProfileBi_mirror (kw : Kw) (a b : Train) (ha : ValidTrain a) (hb : ValidTrain b)
    (hts : b.ts = a.ts) (hte : b.te = a.te) :
    isiProfileBi kw (D1_mirror a) (D1_mirror b) = G1_mirPwc a.ts a.te (isiProfileBi kw a b) := by
  have hva := nonEmpty_valid a ha
  have hvb := nonEmpty_valid b hb
  rw [hts, hte] at hvb
  rw [B5_isiProfileBi_valid kw a b ha hb hts hte,
    B5_isiProfileBi_valid kw _ _ (D1_mirror_valid a ha) (D1_mirror_valid b hb) hts hte]
  unfold isiProfileBi prepBi G1_mirPwc
  simp only [Kw.noRecon, Bool.false_eq_true, if_false]
  rw [D1_nonEmpty_mirror a ha.1, D1_nonEmpty_mirror b hb.1, hts, hte]
  show Pwc.mk (isiProfile (B9_mir a.ts a.te a.nonEmpty) (B9_mir a.ts a.te b.nonEmpty) a.ts a.te kw.mrts).1
    (isiProfile (B9_mir a.ts a.te a.nonEmpty) (B9_mir a.ts a.te b.nonEmpty) a.ts a.te kw.mrts).2 = _
  rw [isiProfile_mirror a.nonEmpty b.nonEmpty a.ts a.te kw.mrts ha.1 hva hvb]
  rfl

theorem G1_isiProfileBi_shape (kw : Kw) (a b : Train) (ha : ValidTrain a) (hb : ValidTrain b)
    (hts : b.ts = a.ts) (hte : b.te = a.te) :
    (isiProfileBi kw a b).y.length + 1 = (isiProfileBi kw a b).x.length ∧
    (isiProfileBi kw a b).x.Pairwise (· < ·) := by
  rw [B5_isiProfileBi_valid kw a b ha hb hts hte]
  have := (B5_isiProfileBi_on kw.noRecon a b rfl ha hb hts hte).1
  exact ⟨this.1, this.2.1⟩

/-- two trains: right limit of the mirrored profile at the mirrored time = left limit of the profile,
    and the other way round (all `t`) -/
theorem G1_isiProfileBi_mirror_limits (kw : Kw) (a b : Train) (ha : ValidTrain a) (hb : ValidTrain b)
    (hts : b.ts = a.ts) (hte : b.te = a.te) (t : Q) :
    (isiProfileBi kw (D1_mirror a) (D1_mirror b)).evalR (a.ts + a.te - t)
      = (isiProfileBi kw a b).evalL t ∧
    (isiProfileBi kw (D1_mirror a) (D1_mirror b)).evalL (a.ts + a.te - t)
      = (isiProfileBi kw a b).evalR t := by
  obtain ⟨h1, h2⟩ := G1_isiProfileBi_shape kw a b ha hb hts hte
  rw [G1_isiProfileBi_mirror kw a b ha hb hts hte]
  exact ⟨G1_mirPwc_evalR a.ts a.te _ h1 h2 t, G1_mirPwc_evalL a.ts a.te _ h1 h2 t⟩

theorem G1_pairs_congr {ts te : Q} {L : List Train} (hv : B5_ValidList ts te L)
    (F G : Train → Train → Q)
    (h : ∀ a b, ValidTrain a → ValidTrain b → a.ts = ts → a.te = te → b.ts = ts → b.te = te →
      F (D1_mirror a) (D1_mirror b) = G a b) :
    (pairsOf (List.range (L.map D1_mirror).length)).map
        (fun p => F (tr (L.map D1_mirror) p.1) (tr (L.map D1_mirror) p.2))
      = (pairsOf (List.range L.length)).map (fun p => G (tr L p.1) (tr L p.2)) := by
  rw [List.length_map]
  apply List.map_congr_left
  intro p hp
  obtain ⟨m1, m2⟩ := mem_pairsOf hp
  rw [List.mem_range] at m1 m2
  rw [F4_tr_map_g D1_mirror L p.1 m1, F4_tr_map_g D1_mirror L p.2 m2]
  obtain ⟨a1, a2, a3⟩ := hv _ (B5_tr_mem L _ m1)
  obtain ⟨b1, b2, b3⟩ := hv _ (B5_tr_mem L _ m2)
  exact h _ _ a1 b1 a2 a3 b2 b3

/-- **C08, multivariate ISI profile under mirror (left limit ↦ right limit)**: for a valid list of at
    least two trains on `[ts, te]`, every keyword record and `ts < t ≤ te` -/
theorem isi_multi_profile_mirror (kw : Kw) {ts te : Q} {L : List Train}
    (hv : B5_ValidList ts te L) (h2 : 2 ≤ L.length) {t : Q} (ht0 : ts < t) (ht1 : t ≤ te) :
    (isiProfileMulti kw none (L.map D1_mirror)).evalR (ts + te - t)
      = (isiProfileMulti kw none L).evalL t := by
  rw [isiProfileMulti_evalR_eq_mean_anyRecon kw _ ts te _ (F4_mirror_validList hv)
      (by rw [List.length_map]; exact h2) (by linarith) (by linarith),
    (F5_isi_multi_profile_left_limit_is_mean kw L ts te t hv h2 ht0 ht1).1]
  rw [G1_pairs_congr hv (fun a b => ((isiProfileBi kw a b).evalR (ts + te - t)).getD 0)
    (fun a b => ((isiProfileBi kw a b).evalL t).getD 0)]
  · rw [List.length_map]
  · intro a b ha hb a2 a3 b2 b3
    have := (G1_isiProfileBi_mirror_limits kw a b ha hb (b2.trans a2.symm) (b3.trans a3.symm) t).1
    rw [a2, a3] at this
    simp only [this]

/-- … and right limit ↦ left limit, `ts ≤ t < te` -/
theorem G1_isi_multi_profile_mirror_right (kw : Kw) {ts te : Q} {L : List Train}
    (hv : B5_ValidList ts te L) (h2 : 2 ≤ L.length) {t : Q} (ht0 : ts ≤ t) (ht1 : t < te) :
    (isiProfileMulti kw none (L.map D1_mirror)).evalL (ts + te - t)
      = (isiProfileMulti kw none L).evalR t := by
  have := isi_multi_profile_mirror kw (F4_mirror_validList hv) (by rw [List.length_map]; exact h2)
    (t := ts + te - t) (by linarith) (by linarith)
  rw [G1_map_mirror_mirror] at this
  rw [← this]
  congr 1
  ring

example : B5_ValidList 0 6 F4_exL ∧ 2 ≤ F4_exL.length ∧ (0 : Q) < 3 ∧ (3 : Q) ≤ 6 :=
  ⟨F4_exL_valid, by decide, by norm_num, by norm_num⟩

/-! ### SPIKE-Sync profile and spike-train-order profile at a time -/

/-- reading a mirrored entry list at the mirrored time -/
theorem G1_atL_mirror (c : Q) (h : Q → Q) (h0 : h 0 = 0) (l : List Ev)
    (hs : (l.map (·.1)).Pairwise (· < ·)) (t : Q) :
    atL ((l.map (B10_mapE c h)).reverse) (B10_psi c t) = (h (atL l t).1, (atL l t).2) := by
  unfold atL
  rw [← List.map_reverse, List.find?_map,
    G1_find_reverse _ (fun p q : Ev => p.1 < q.1) _ l (List.pairwise_map.mp hs)]
  · have e : ((fun p : Ev => decide (p.1 = B10_psi c t)) ∘ B10_mapE c h)
        = fun p : Ev => decide (p.1 = t) := by
      funext p
      simp only [Function.comp, B10_mapE, B10_psi_inj]
    rw [e]
    cases l.find? (fun p : Ev => decide (p.1 = t)) with
    | none => simp [h0]
    | some p => simp [B10_mapE]
  · intro a b hab ha hb
    simp only [Function.comp, B10_mapE, B10_psi_inj, decide_eq_true_eq] at ha hb
    rw [ha, hb] at hab
    exact lt_irrefl _ hab

theorem G1_mir_eq (ts te : Q) (s : List Q) : B9_mir ts te s = B10_mir (ts + te) s := rfl

/-- interior of the bivariate SPIKE-Sync profile of the mirrored pair -/
theorem G1_syncBi_interior_mirror (kw : Kw) (a b : Train) (hr : kw.recon = false)
    (ha : StrictSorted a.spikes) (hb : StrictSorted b.spikes) (hts : b.ts = a.ts) (hte : b.te = a.te) :
    (syncProfileBi kw (D1_mirror a) (D1_mirror b)).interior
      = ((syncProfileBi kw a b).interior.map (B10_mapE (a.ts + a.te) id)).reverse := by
  unfold syncProfileBi
  simp only [prepBi, hr, Bool.false_eq_true, if_false]
  show (Disc.mk (coincProfile (B9_mir a.ts a.te a.spikes) (B9_mir b.ts b.te b.spikes)
    a.ts a.te kw.maxTau kw.mrts)).interior = _
  rw [hts, hte, G1_mir_eq, G1_mir_eq, coincProfile_mirror _ _ _ _ _ _ ha hb]
  exact B10_interior_mirror _ _

/-- interior of the bivariate spike-train-order profile of the mirrored pair (two empty trains
    included: no interior entries) -/
theorem G1_orderBi_interior_mirror (kw : Kw) (a b : Train) (hr : kw.recon = false)
    (ha : StrictSorted a.spikes) (hb : StrictSorted b.spikes) (hts : b.ts = a.ts) (hte : b.te = a.te) :
    (orderProfileBi kw (D1_mirror a) (D1_mirror b)).interior
      = ((orderProfileBi kw a b).interior.map (B10_mapE (a.ts + a.te) (fun x => -x))).reverse := by
  unfold orderProfileBi
  simp only [prepBi, hr, Bool.false_eq_true, if_false]
  show (Disc.mk (orderProfile (B9_mir a.ts a.te a.spikes) (B9_mir b.ts b.te b.spikes)
    a.ts a.te kw.maxTau kw.mrts)).interior = _
  by_cases hne : a.spikes ≠ [] ∨ b.spikes ≠ []
  · rw [hts, hte, G1_mir_eq, G1_mir_eq, orderProfile_mirror _ _ _ _ _ _ ha hb hne]
    exact B10_interior_mirror _ _
  · rw [not_or, not_not, not_not] at hne
    rw [hne.1, hne.2, D1_mir_nil, D1_mir_nil, B2_orderProfile_nil_nil]
    rfl

theorem G1_orderBi_interior (kw : Kw) (a b : Train) (hr : kw.recon = false)
    (ha : StrictSorted a.spikes) (hb : StrictSorted b.spikes) :
    (orderProfileBi kw a b).interior
      = scanSpec (-1) 1 0 a.spikes b.spikes (trueMax a.ts a.te kw.maxTau) kw.mrts := by
  unfold orderProfileBi Disc.interior
  simp only [prepBi, hr, Bool.false_eq_true, if_false]
  rw [orderProfile_eq_spec _ _ _ _ _ _ ha hb, C4_frameProfile_interior]

theorem G1_orderBi_sorted (kw : Kw) (a b : Train) (hr : kw.recon = false)
    (ha : StrictSorted a.spikes) (hb : StrictSorted b.spikes) :
    C4_Sorted (orderProfileBi kw a b) := by
  unfold C4_Sorted
  rw [G1_orderBi_interior kw a b hr ha hb, C4_scanSpec_times]
  exact uniqueQ_sorted _

/-- **two trains, SPIKE-Sync profile**: the mirrored pair shows at the mirrored time what the pair
    shows at `t` (every keyword record) -/
theorem G1_syncProfileBi_mirror_at (kw : Kw) (a b : Train) (h : D4_VBi a b) (t : Q) :
    (syncProfileBi kw (D1_mirror a) (D1_mirror b)).at (a.ts + a.te - t)
      = (syncProfileBi kw a b).at t := by
  obtain ⟨ha, hb, hts, hte⟩ := h
  rw [D4_syncProfileBi_valid kw a b ⟨ha, hb, hts, hte⟩,
    D4_syncProfileBi_valid kw _ _ ⟨D1_mirror_valid a ha, D1_mirror_valid b hb, hts, hte⟩,
    Disc.at_eq, Disc.at_eq, G1_syncBi_interior_mirror kw.noRecon a b rfl ha.2.1 hb.2.1 hts hte]
  exact G1_atL_mirror (a.ts + a.te) id rfl _ (C4_syncBi_sorted kw.noRecon a b rfl ha.2.1 hb.2.1) t

/-- **two trains, spike-train-order profile**: value negated, multiplicity kept -/
theorem G1_orderProfileBi_mirror_at (kw : Kw) (a b : Train) (h : D4_VBi a b) (t : Q) :
    (orderProfileBi kw (D1_mirror a) (D1_mirror b)).at (a.ts + a.te - t)
      = (- ((orderProfileBi kw a b).at t).1, ((orderProfileBi kw a b).at t).2) := by
  obtain ⟨ha, hb, hts, hte⟩ := h
  rw [D4_orderProfileBi_valid kw a b ⟨ha, hb, hts, hte⟩,
    D4_orderProfileBi_valid kw _ _ ⟨D1_mirror_valid a ha, D1_mirror_valid b hb, hts, hte⟩,
    Disc.at_eq, Disc.at_eq, G1_orderBi_interior_mirror kw.noRecon a b rfl ha.2.1 hb.2.1 hts hte]
  exact G1_atL_mirror (a.ts + a.te) (fun x => -x) neg_zero _
    (G1_orderBi_sorted kw.noRecon a b rfl ha.2.1 hb.2.1) t

/-- the multivariate spike-train-order profile at a time = componentwise sum of the pair profiles -/
theorem G1_order_multi_at_pairs (kw : Kw) (L : List Train) (ts te : Q)
    (hv : B5_ValidList ts te L) (h2 : 2 ≤ L.length) (t : Q) :
    (orderProfileMulti kw none L).at t =
      (qsum ((pairsOf (List.range L.length)).map fun p =>
          ((orderProfileBi kw (tr L p.1) (tr L p.2)).at t).1),
       qsum ((pairsOf (List.range L.length)).map fun p =>
          ((orderProfileBi kw (tr L p.1) (tr L p.2)).at t).2)) := by
  unfold orderProfileMulti
  simp only [D4_prep_valid kw L ts te hv, resolveIdx]
  have hne := B5_pairs_range_ne_nil h2
  have e : ∀ p ∈ pairsOf (List.range L.length),
      orderProfileBi kw.noRecon (tr L p.1) (tr L p.2) = orderProfileBi kw (tr L p.1) (tr L p.2) :=
    fun p hp => (D4_orderProfileBi_valid kw _ _ (F5_pair_VBi hv p hp)).symm
  have hleaf : ∀ q ∈ pairsOf (List.range L.length),
      C4_Sorted (orderProfileBi kw.noRecon (tr L q.1) (tr L q.2)) := by
    intro q hq
    obtain ⟨m1, m2⟩ := B5_pair_mem L q hq
    exact G1_orderBi_sorted kw.noRecon _ _ rfl (hv _ m1).1.2.1 (hv _ m2).1.2.1
  have h1 := (B5_gpm_sum Disc.add (fun p => orderProfileBi kw.noRecon (tr L p.1) (tr L p.2)) C4_Sorted
    (fun f => (f.at t).1) (fun _ _ => C4_Sorted_add)
    (fun a b ha hb => by rw [C4_add_at ha hb]) (List.range L.length) hne hleaf).2
  have h2' := (B5_gpm_sum Disc.add (fun p => orderProfileBi kw.noRecon (tr L p.1) (tr L p.2)) C4_Sorted
    (fun f => (f.at t).2) (fun _ _ => C4_Sorted_add)
    (fun a b ha hb => by rw [C4_add_at ha hb]) (List.range L.length) hne hleaf).2
  refine Prod.ext ?_ ?_
  · rw [h1]; congr 1; exact List.map_congr_left (fun p hp => by rw [e p hp])
  · rw [h2']; congr 1; exact List.map_congr_left (fun p hp => by rw [e p hp])

/-- **C08, multivariate SPIKE-Sync profile under mirror**: the profile of the mirrored list shows at
    the mirrored time the (value, multiplicity) the profile of the list shows at `t` -/
theorem G1_sync_multi_profile_mirror (kw : Kw) {ts te : Q} {L : List Train}
    (hv : B5_ValidList ts te L) (h2 : 2 ≤ L.length) (t : Q) :
    (syncProfileMulti kw none (L.map D1_mirror)).at (ts + te - t)
      = (syncProfileMulti kw none L).at t := by
  rw [F5_sync_multi_profile_at_is_pair_sum kw _ ts te (F4_mirror_validList hv)
      (by rw [List.length_map]; exact h2),
    F5_sync_multi_profile_at_is_pair_sum kw L ts te hv h2]
  have hb : ∀ a b, ValidTrain a → ValidTrain b → a.ts = ts → a.te = te → b.ts = ts → b.te = te →
      (syncProfileBi kw (D1_mirror a) (D1_mirror b)).at (ts + te - t) = (syncProfileBi kw a b).at t := by
    intro a b ha hb a2 a3 b2 b3
    have := G1_syncProfileBi_mirror_at kw a b ⟨ha, hb, b2.trans a2.symm, b3.trans a3.symm⟩ t
    rwa [a2, a3] at this
  rw [G1_pairs_congr hv (fun a b => ((syncProfileBi kw a b).at (ts + te - t)).1)
      (fun a b => ((syncProfileBi kw a b).at t).1)
      (fun a b ha hb' a2 a3 b2 b3 => by simp only [hb a b ha hb' a2 a3 b2 b3]),
    G1_pairs_congr hv (fun a b => ((syncProfileBi kw a b).at (ts + te - t)).2)
      (fun a b => ((syncProfileBi kw a b).at t).2)
      (fun a b ha hb' a2 a3 b2 b3 => by simp only [hb a b ha hb' a2 a3 b2 b3])]

/-- **C08, multivariate spike-train-order profile under mirror**: value negated, multiplicity kept -/
theorem G1_order_multi_profile_mirror (kw : Kw) {ts te : Q} {L : List Train}
    (hv : B5_ValidList ts te L) (h2 : 2 ≤ L.length) (t : Q) :
    (orderProfileMulti kw none (L.map D1_mirror)).at (ts + te - t)
      = (- ((orderProfileMulti kw none L).at t).1, ((orderProfileMulti kw none L).at t).2) := by
  rw [G1_order_multi_at_pairs kw _ ts te (F4_mirror_validList hv)
      (by rw [List.length_map]; exact h2),
    G1_order_multi_at_pairs kw L ts te hv h2]
  have hb : ∀ a b, ValidTrain a → ValidTrain b → a.ts = ts → a.te = te → b.ts = ts → b.te = te →
      (orderProfileBi kw (D1_mirror a) (D1_mirror b)).at (ts + te - t)
        = (- ((orderProfileBi kw a b).at t).1, ((orderProfileBi kw a b).at t).2) := by
    intro a b ha hb a2 a3 b2 b3
    have := G1_orderProfileBi_mirror_at kw a b ⟨ha, hb, b2.trans a2.symm, b3.trans a3.symm⟩ t
    rwa [a2, a3] at this
  rw [G1_pairs_congr hv (fun a b => ((orderProfileBi kw a b).at (ts + te - t)).1)
      (fun a b => - ((orderProfileBi kw a b).at t).1)
      (fun a b ha hb' a2 a3 b2 b3 => by simp only [hb a b ha hb' a2 a3 b2 b3]),
    G1_pairs_congr hv (fun a b => ((orderProfileBi kw a b).at (ts + te - t)).2)
      (fun a b => ((orderProfileBi kw a b).at t).2)
      (fun a b ha hb' a2 a3 b2 b3 => by simp only [hb a b ha hb' a2 a3 b2 b3])]
  simp only
  rw [G1_qsum_map_neg']

example : B5_ValidList 0 6 F4_exL ∧ 2 ≤ F4_exL.length := ⟨F4_exL_valid, by decide⟩

/-! ### SPIKE profile (partial: outside the class of finding F9 and its mirror image) -/

theorem G1_zip_reverse_swap {A B : Type} (y1 : List A) (y2 : List B) (h : y2.length = y1.length) :
    y2.reverse.zip y1.reverse = ((y1.zip y2).map Prod.swap).reverse := by
  rw [List.zip_eq_zipWith, List.zip_eq_zipWith, List.map_zipWith, ← List.reverse_zipWith h,
    List.zipWith_comm]
  rfl

/-- the mirrored piecewise linear function: break points reflected, left and right values exchanged -/
def G1_mirPwl (ts te : Q) (f : Pwl) : Pwl := ⟨B9_mir ts te f.x, f.y2.reverse, f.y1.reverse⟩

def G1_mirPiece (ts te : Q) (p : Piece) : Piece :=
  ⟨B9_psi ts te p.xr, B9_psi ts te p.xl, p.yr, p.yl⟩

theorem G1_Pwl_pieces_eq (f : Pwl) :
    f.pieces = (G1_z3 f.x (f.y1.zip f.y2)).map fun p => ⟨p.1, p.2.1, p.2.2.1, p.2.2.2⟩ := rfl

theorem G1_mirPwl_pieces (ts te : Q) (f : Pwl) (h1 : f.y1.length + 1 = f.x.length)
    (h2 : f.y2.length = f.y1.length) :
    (G1_mirPwl ts te f).pieces = (f.pieces.map (G1_mirPiece ts te)).reverse := by
  rw [G1_Pwl_pieces_eq, G1_Pwl_pieces_eq]
  show (G1_z3 (B9_mir ts te f.x) (f.y2.reverse.zip f.y1.reverse)).map _ = _
  rw [G1_zip_reverse_swap f.y1 f.y2 h2, G1_z3_mir ts te Prod.swap f.x (f.y1.zip f.y2)
    (by rw [List.length_zip, h2, min_self, h1]), List.map_reverse, List.map_map, List.map_map]
  rfl

theorem G1_mirPiece_at (ts te : Q) (p : Piece) (h : p.xl ≠ p.xr) (t : Q) :
    (G1_mirPiece ts te p).at (B9_psi ts te t) = p.at t := by
  have hd : p.xr - p.xl ≠ 0 := sub_ne_zero.mpr (Ne.symm h)
  have e1 : B9_psi ts te p.xl - B9_psi ts te p.xr = p.xr - p.xl := by unfold B9_psi; ring
  have e2 : B9_psi ts te t - B9_psi ts te p.xr = p.xr - t := by unfold B9_psi; ring
  unfold Piece.at G1_mirPiece
  simp only
  rw [e1, e2]
  field_simp
  ring

theorem G1_Pwl_chain (f : Pwl) (hs : f.x.Pairwise (· < ·)) :
    f.pieces.Pairwise (fun p q => p.xr ≤ q.xl) := by
  rw [G1_Pwl_pieces_eq, List.pairwise_map]
  exact G1_z3_chain f.x _ hs

/-- right limit of the mirrored function at the mirrored time = left limit of the function -/
theorem G1_mirPwl_evalR (ts te : Q) (f : Pwl) (h1 : f.y1.length + 1 = f.x.length)
    (h2 : f.y2.length = f.y1.length) (hs : f.x.Pairwise (· < ·)) (t : Q) :
    (G1_mirPwl ts te f).evalR (B9_psi ts te t) = f.evalL t := by
  unfold Pwl.evalR Pwl.evalL
  rw [G1_mirPwl_pieces ts te f h1 h2, ← List.map_reverse, List.find?_map,
    G1_find_reverse _ (fun p q : Piece => p.xr ≤ q.xl) _ f.pieces (G1_Pwl_chain f hs)]
  · have e : ((fun p : Piece => decide (p.xl ≤ B9_psi ts te t ∧ B9_psi ts te t < p.xr))
          ∘ G1_mirPiece ts te) = fun p : Piece => decide (p.xl < t ∧ t ≤ p.xr) := by
      funext p
      simp only [Function.comp, G1_mirPiece, B9_psi_le, B9_psi_lt]
      exact decide_eq_decide.mpr and_comm
    rw [e]
    cases hf : f.pieces.find? (fun p : Piece => decide (p.xl < t ∧ t ≤ p.xr)) with
    | none => rfl
    | some p =>
      have hp := List.find?_some hf
      simp only [decide_eq_true_eq] at hp
      simp only [Option.map_some]
      rw [G1_mirPiece_at ts te p (ne_of_lt (lt_of_lt_of_le hp.1 hp.2)) t]
  · intro a b hab ha hb
    simp only [Function.comp, G1_mirPiece, B9_psi_le, B9_psi_lt, decide_eq_true_eq] at ha hb
    linarith [ha.1, ha.2, hb.1, hb.2]

/-- left limit of the mirrored function at the mirrored time = right limit of the function -/
theorem G1_mirPwl_evalL (ts te : Q) (f : Pwl) (h1 : f.y1.length + 1 = f.x.length)
    (h2 : f.y2.length = f.y1.length) (hs : f.x.Pairwise (· < ·)) (t : Q) :
    (G1_mirPwl ts te f).evalL (B9_psi ts te t) = f.evalR t := by
  unfold Pwl.evalR Pwl.evalL
  rw [G1_mirPwl_pieces ts te f h1 h2, ← List.map_reverse, List.find?_map,
    G1_find_reverse _ (fun p q : Piece => p.xr ≤ q.xl) _ f.pieces (G1_Pwl_chain f hs)]
  · have e : ((fun p : Piece => decide (p.xl < B9_psi ts te t ∧ B9_psi ts te t ≤ p.xr))
          ∘ G1_mirPiece ts te) = fun p : Piece => decide (p.xl ≤ t ∧ t < p.xr) := by
      funext p
      simp only [Function.comp, G1_mirPiece, B9_psi_le, B9_psi_lt]
      exact decide_eq_decide.mpr and_comm
    rw [e]
    cases hf : f.pieces.find? (fun p : Piece => decide (p.xl ≤ t ∧ t < p.xr)) with
    | none => rfl
    | some p =>
      have hp := List.find?_some hf
      simp only [decide_eq_true_eq] at hp
      simp only [Option.map_some]
      rw [G1_mirPiece_at ts te p (ne_of_lt (lt_of_le_of_lt hp.1 hp.2)) t]
  · intro a b hab ha hb
    simp only [Function.comp, G1_mirPiece, B9_psi_le, B9_psi_lt, decide_eq_true_eq] at ha hb
    linarith [ha.1, ha.2, hb.1, hb.2]

/-- **representation level, two trains, every keyword record**: outside the class of finding F9 and
    its mirror image the SPIKE profile of the mirrored trains is the mirrored profile -/
theorem G1_spikeProfileBi_mirror (kw : Kw) (a b : Train) (ha : ValidTrain a) (hb : ValidTrain b)
    (hts : b.ts = a.ts) (hte : b.te = a.te)
    (hna : a.spikes ≠ [a.ts] ∧ a.spikes ≠ [a.te]) (hnb : b.spikes ≠ [b.ts] ∧ b.spikes ≠ [b.te]) :
    spikeProfileBi kw (D1_mirror a) (D1_mirror b) = G1_mirPwl a.ts a.te (spikeProfileBi kw a b) := by
  have hva := nonEmpty_valid a ha
  have hvb := nonEmpty_valid b hb
  have hna' := And.intro (D1_nonEmpty_ne a ha.1 _ hna.1) (D1_nonEmpty_ne a ha.1 _ hna.2)
  have hnb' := And.intro (D1_nonEmpty_ne b hb.1 _ hnb.1) (D1_nonEmpty_ne b hb.1 _ hnb.2)
  rw [hts, hte] at hvb hnb'
  rw [C2_spikeProfileBi_valid kw a b ha hb hts hte,
    C2_spikeProfileBi_valid kw _ _ (D1_mirror_valid a ha) (D1_mirror_valid b hb) hts hte]
  unfold spikeProfileBi prepBi G1_mirPwl
  simp only [Kw.noRecon, Bool.false_eq_true, if_false]
  rw [D1_nonEmpty_mirror a ha.1, D1_nonEmpty_mirror b hb.1, hts, hte]
  obtain ⟨e1, e2, e3⟩ := spikeProfile_mirror a.nonEmpty b.nonEmpty a.ts a.te kw.mrts kw.ri hva hvb
    ha.1 hna' hnb'
  show Pwl.mk (spikeProfile (B9_mir a.ts a.te a.nonEmpty) (B9_mir a.ts a.te b.nonEmpty) a.ts a.te
      kw.mrts kw.ri).1 (spikeProfile (B9_mir a.ts a.te a.nonEmpty) (B9_mir a.ts a.te b.nonEmpty)
      a.ts a.te kw.mrts kw.ri).2.1 (spikeProfile (B9_mir a.ts a.te a.nonEmpty)
      (B9_mir a.ts a.te b.nonEmpty) a.ts a.te kw.mrts kw.ri).2.2 = _
  rw [e1, e2, e3]

/-- two trains: one-sided limits of the mirrored SPIKE profile (all `t`) -/
theorem G1_spikeProfileBi_mirror_limits (kw : Kw) (a b : Train) (ha : ValidTrain a)
    (hb : ValidTrain b) (hts : b.ts = a.ts) (hte : b.te = a.te)
    (hna : a.spikes ≠ [a.ts] ∧ a.spikes ≠ [a.te]) (hnb : b.spikes ≠ [b.ts] ∧ b.spikes ≠ [b.te])
    (t : Q) :
    (spikeProfileBi kw (D1_mirror a) (D1_mirror b)).evalR (a.ts + a.te - t)
      = (spikeProfileBi kw a b).evalL t ∧
    (spikeProfileBi kw (D1_mirror a) (D1_mirror b)).evalL (a.ts + a.te - t)
      = (spikeProfileBi kw a b).evalR t := by
  obtain ⟨h1, h2, h3, -⟩ := (C2_spikeProfileBi_on_anyRecon kw a b ha hb hts hte).1
  have h2' : (spikeProfileBi kw a b).y2.length = (spikeProfileBi kw a b).y1.length := by omega
  rw [G1_spikeProfileBi_mirror kw a b ha hb hts hte hna hnb]
  exact ⟨G1_mirPwl_evalR a.ts a.te _ h1 h2' h3 t, G1_mirPwl_evalL a.ts a.te _ h1 h2' h3 t⟩

theorem G1_pairs_congr_mem (L : List Train) (F G : Train → Train → Q)
    (h : ∀ a b, a ∈ L → b ∈ L → F (D1_mirror a) (D1_mirror b) = G a b) :
    (pairsOf (List.range (L.map D1_mirror).length)).map
        (fun p => F (tr (L.map D1_mirror) p.1) (tr (L.map D1_mirror) p.2))
      = (pairsOf (List.range L.length)).map (fun p => G (tr L p.1) (tr L p.2)) := by
  rw [List.length_map]
  apply List.map_congr_left
  intro p hp
  obtain ⟨m1, m2⟩ := mem_pairsOf hp
  rw [List.mem_range] at m1 m2
  rw [F4_tr_map_g D1_mirror L p.1 m1, F4_tr_map_g D1_mirror L p.2 m2]
  exact h _ _ (B5_tr_mem L _ m1) (B5_tr_mem L _ m2)

/-- **C08, multivariate SPIKE profile under mirror, partial form** (no train is exactly one spike on
    `t_start` or exactly one spike on `t_end`): left limit ↦ right limit, `ts < t ≤ te` -/
theorem G1_spike_multi_profile_mirror_partial (kw : Kw) {ts te : Q} {L : List Train}
    (hv : B5_ValidList ts te L) (h2 : 2 ≤ L.length)
    (hn : ∀ a ∈ L, a.spikes ≠ [ts] ∧ a.spikes ≠ [te]) {t : Q} (ht0 : ts < t) (ht1 : t ≤ te) :
    (spikeProfileMulti kw none (L.map D1_mirror)).evalR (ts + te - t)
      = (spikeProfileMulti kw none L).evalL t := by
  rw [C2_spikeProfileMulti_evalR_eq_mean_valid_anyRecon kw _ ts te _ (F4_mirror_validList hv)
      (by rw [List.length_map]; exact h2) (by linarith) (by linarith),
    (F5_spike_multi_profile_left_limit_is_mean kw L ts te t hv h2 ht0 ht1).1]
  rw [G1_pairs_congr_mem L (fun a b => ((spikeProfileBi kw a b).evalR (ts + te - t)).getD 0)
    (fun a b => ((spikeProfileBi kw a b).evalL t).getD 0)]
  · rw [List.length_map]
  · intro a b ma mb
    obtain ⟨ha, a2, a3⟩ := hv a ma
    obtain ⟨hb, b2, b3⟩ := hv b mb
    have := (G1_spikeProfileBi_mirror_limits kw a b ha hb (b2.trans a2.symm) (b3.trans a3.symm)
      (by rw [a2, a3]; exact hn a ma) (by rw [b2, b3]; exact hn b mb) t).1
    rw [a2, a3] at this
    simp only [this]

theorem G1_mirror_spikes_singleton (a : Train) (q : Q) :
    (D1_mirror a).spikes = [q] ↔ a.spikes = [B9_psi a.ts a.te q] := by
  constructor
  · intro h
    have := congrArg (B9_mir a.ts a.te) h
    rwa [show (D1_mirror a).spikes = B9_mir a.ts a.te a.spikes from rfl, B9_mir_mir,
      D1_mir_singleton] at this
  · intro h
    show B9_mir a.ts a.te a.spikes = [q]
    rw [h, D1_mir_singleton, B9_psi_psi]

/-- … and right limit ↦ left limit, `ts ≤ t < te` -/
theorem G1_spike_multi_profile_mirror_partial_right (kw : Kw) {ts te : Q} {L : List Train}
    (hv : B5_ValidList ts te L) (h2 : 2 ≤ L.length)
    (hn : ∀ a ∈ L, a.spikes ≠ [ts] ∧ a.spikes ≠ [te]) {t : Q} (ht0 : ts ≤ t) (ht1 : t < te) :
    (spikeProfileMulti kw none (L.map D1_mirror)).evalL (ts + te - t)
      = (spikeProfileMulti kw none L).evalR t := by
  have hn' : ∀ a ∈ L.map D1_mirror, a.spikes ≠ [ts] ∧ a.spikes ≠ [te] := by
    intro a' ha'
    rw [List.mem_map] at ha'
    obtain ⟨a, ma, rfl⟩ := ha'
    obtain ⟨-, a2, a3⟩ := hv a ma
    rw [Ne, Ne, G1_mirror_spikes_singleton, G1_mirror_spikes_singleton, a2, a3, B9_psi_ts, B9_psi_te]
    exact ⟨(hn a ma).2, (hn a ma).1⟩
  have := G1_spike_multi_profile_mirror_partial kw (F4_mirror_validList hv)
    (by rw [List.length_map]; exact h2) hn' (t := ts + te - t) (by linarith) (by linarith)
  rw [G1_map_mirror_mirror] at this
  rw [← this]
  congr 1
  ring

example : B5_ValidList 0 10 F3_exL ∧ 2 ≤ F3_exL.length ∧
    (∀ a ∈ F3_exL, a.spikes ≠ [0] ∧ a.spikes ≠ [10]) ∧ (0 : Q) < 5 ∧ (5 : Q) ≤ 10 :=
  ⟨F3_exL_valid, by decide, by unfold F3_exL; decide +kernel, by norm_num, by norm_num⟩

/-! ## part 4: `MRTS='auto'` (`default_thresh`) under shift and scale -/

theorem G1_getLast?_dropLast_map (g : Q → Q) (l : List Q) (d : Q) :
    ((l.map g).dropLast).getLast?.getD (g d) = g ((l.dropLast).getLast?.getD d) := by
  rw [← List.map_dropLast, List.getLast?_map]
  cases l.dropLast.getLast? <;> rfl

theorem G1_diffs_aff (α β : Q) (s : List Q) :
    (((s.map (aff α β)).zip (s.map (aff α β)).tail).map fun p => p.2 - p.1)
      = ((s.zip s.tail).map fun p => p.2 - p.1).map (α * ·) := by
  rw [← List.map_tail, List.zip_map, List.map_map, List.map_map]
  apply List.map_congr_left
  intro p _
  simp only [Function.comp, Prod.map]
  exact aff_sub β _ _

/-- **`isi_lengths` under `t ↦ α·t + β`, `α > 0`**: every length is multiplied by `α` (no hypothesis
    on the spike list: the same branches are taken) -/
theorem G1_isiLengths_aff {α : Q} (β : Q) (hα : 0 < α) (s : List Q) (ts te : Q) :
    isiLengths (s.map (aff α β)) (aff α β ts) (aff α β te) = (isiLengths s ts te).map (α * ·) := by
  match s with
  | [] => simp [isiLengths, aff_sub]
  | [a] =>
    simp only [isiLengths, List.map_cons, List.map_nil, lastD, gt_iff_lt, aff_lt_iff β hα,
      List.length_singleton, lt_irrefl, if_false, List.tail_cons, List.zip_nil_right, List.map_nil,
      List.drop_nil, List.take_nil, List.append_nil, List.singleton_append, List.map_cons]
    by_cases h1 : ts < a <;> by_cases h2 : a < te <;> simp [h1, h2, aff_sub]
  | a :: b :: r =>
    have h1 : lastD (aff α β a :: aff α β b :: List.map (aff α β) r) (aff α β a)
        = aff α β (lastD (a :: b :: r) a) := lastD_map (aff α β) (a :: b :: r) a
    have h2 : (aff α β a :: aff α β b :: List.map (aff α β) r).dropLast.getLast?.getD (aff α β a)
        = aff α β ((a :: b :: r).dropLast.getLast?.getD a) :=
      G1_getLast?_dropLast_map (aff α β) (a :: b :: r) a
    have h3 := G1_diffs_aff α β (a :: b :: r)
    simp only [List.map_cons] at h3
    unfold isiLengths
    simp only [List.map_cons]
    rw [h1, h2, h3]
    simp only [gt_iff_lt, aff_lt_iff β hα, List.length_cons, List.length_map, List.map_append,
      List.map_take, List.map_drop, List.map_cons, List.map_nil, aff_sub]
    congr 1
    · congr 1
      congr 1
      by_cases h : ts < a
      · simp only [if_pos h, scale_max hα]
      · simp only [if_neg h]
    · congr 1
      have hN : r.length + 1 + 1 > 1 := by omega
      simp only [if_pos hN]
      by_cases h : lastD (a :: b :: r) a < te
      · simp only [if_pos h, scale_max hα]
      · simp only [if_neg h]

/-- **C08, `MRTS='auto'`**: the square of the automatic threshold `default_thresh` scales with `α²`,
    i.e. the automatic threshold scales like every explicit MRTS (`F4_scaleKw`) -/
theorem auto_threshold_affine {α : Q} (β : Q) (hα : 0 < α) (L : List Train) :
    defaultThreshSq (L.map (F4_affT α β)) = α ^ 2 * defaultThreshSq L := by
  match L with
  | [] => simp [defaultThreshSq]
  | st :: R =>
    have hp : ((st :: R).map (F4_affT α β)).flatMap
          (fun t => isiLengths t.spikes (F4_affT α β st).ts (F4_affT α β st).te)
        = ((st :: R).flatMap fun t => isiLengths t.spikes st.ts st.te).map (α * ·) := by
      rw [List.flatMap_map, List.map_flatMap]
      apply List.flatMap_congr
      intro t _
      exact G1_isiLengths_aff β hα t.spikes st.ts st.te
    show qsum ((((st :: R).map (F4_affT α β)).flatMap
          (fun t => isiLengths t.spikes (F4_affT α β st).ts (F4_affT α β st).te)).map fun x => x * x)
        / _ = _
    rw [hp, List.map_map, List.length_map]
    have e : ((fun x : Q => x * x) ∘ fun x => α * x) = fun x => α ^ 2 * (x * x) := by
      funext x; simp only [Function.comp]; ring
    rw [e, F4_qsum_map_smul (fun x : Q => x * x) (α ^ 2), mul_div_assoc]
    rfl

/-- a pure shift leaves the automatic threshold unchanged -/
theorem G1_auto_threshold_shift (β : Q) (L : List Train) :
    defaultThreshSq (L.map (F4_affT 1 β)) = defaultThreshSq L := by
  rw [auto_threshold_affine β one_pos L]; ring

example : (0 : Q) < 3 / 2 := F4_ex_pos
example : defaultThreshSq (F4_exL.map (F4_affT (3/2) (-2))) = (3/2) ^ 2 * defaultThreshSq F4_exL :=
  auto_threshold_affine (-2) F4_ex_pos F4_exL

/-! ## part 3: mirror with a sub-interval -/

theorem G1_mirPwc_WF (ts te : Q) {f : Pwc} (hf : f.WF) : (G1_mirPwc ts te f).WF := by
  obtain ⟨h1, h2, h3⟩ := hf
  refine ⟨?_, B9_mir_sorted h2, ?_⟩
  · show f.y.reverse.length + 1 = (B9_mir ts te f.x).length
    rw [List.length_reverse, B9_mir_length, h1]
  · show 2 ≤ (B9_mir ts te f.x).length
    rw [B9_mir_length]; exact h3

theorem G1_mirPwc_first_last (ts te : Q) {f : Pwc} (hf : f.WF) :
    (G1_mirPwc ts te f).first = B9_psi ts te f.last ∧
    (G1_mirPwc ts te f).last = B9_psi ts te f.first := by
  unfold Pwc.first Pwc.last G1_mirPwc
  simp only
  cases hx : f.x with
  | nil => have := hf.2.2; rw [hx] at this; simp at this
  | cons a xs => exact ⟨B9_headD_mir ts te a xs, B9_lastD_mir ts te a xs⟩

theorem G1_clipLen_mirror (ts te p q l r : Q) :
    clipLen (B9_psi ts te q) (B9_psi ts te p) (B9_psi ts te r) (B9_psi ts te l) = clipLen p q l r := by
  unfold clipLen B9_psi
  rw [min_sub_sub_left, max_sub_sub_left]
  congr 1
  ring

/-- the exact integral of the mirrored function over the mirrored interval -/
theorem G1_mirPwc_riemann (ts te : Q) (f : Pwc) (h : f.y.length + 1 = f.x.length) (p q : Q) :
    (G1_mirPwc ts te f).riemann (B9_psi ts te q) (B9_psi ts te p) = f.riemann p q := by
  unfold Pwc.riemann
  rw [G1_mirPwc_pieces ts te f h, List.map_reverse, B10_qsum_reverse, List.map_map]
  congr 1
  apply List.map_congr_left
  intro x _
  simp only [Function.comp, G1_clipLen_mirror]

/-- `integral((ts+te−q, ts+te−p))` of the mirrored function = `integral((p, q))` of the function -/
theorem G1_mirPwc_integral (ts te : Q) {f : Pwc} (hf : f.WF) {p q : Q}
    (h0 : f.first ≤ p) (hpq : p < q) (h1 : q ≤ f.last) :
    (G1_mirPwc ts te f).integral (B9_psi ts te q) (B9_psi ts te p) = f.integral p q := by
  obtain ⟨e1, e2⟩ := G1_mirPwc_first_last ts te hf
  rw [Pwc.integral_eq_riemann (G1_mirPwc_WF ts te hf) (by rw [e1, B9_psi_le]; exact h1)
      (B9_psi_lt.mpr hpq) (by rw [e2, B9_psi_le]; exact h0),
    Pwc.integral_eq_riemann hf h0 hpq h1, G1_mirPwc_riemann ts te f hf.1]

theorem G1_mirPwc_avrg (ts te : Q) {f : Pwc} (hf : f.WF) {p q : Q}
    (h0 : f.first ≤ p) (hpq : p < q) (h1 : q ≤ f.last) :
    (G1_mirPwc ts te f).avrg (B9_psi ts te q) (B9_psi ts te p) = f.avrg p q := by
  unfold Pwc.avrg
  rw [G1_mirPwc_integral ts te hf h0 hpq h1]
  have e : B9_psi ts te p - B9_psi ts te q = q - p := by unfold B9_psi; ring
  rw [e]

theorem G1_isiProfileBi_on_any (kw : Kw) (a b : Train) (ha : ValidTrain a) (hb : ValidTrain b)
    (hts : b.ts = a.ts) (hte : b.te = a.te) : B5_PwcOn a.ts a.te (isiProfileBi kw a b) := by
  rw [B5_isiProfileBi_valid kw a b ha hb hts hte]
  exact B5_isiProfileBi_on kw.noRecon a b rfl ha hb hts hte

/-- **C08, ISI distance over a sub-interval under mirror**: the distance of the mirrored trains over
    the mirrored interval is the distance of the trains over `(p, q)`, `ts ≤ p < q ≤ te`, every
    keyword record -/
theorem G1_isi_distance_mirror_interval (kw : Kw) (a b : Train) (ha : ValidTrain a) (hb : ValidTrain b)
    (hts : b.ts = a.ts) (hte : b.te = a.te) {p q : Q} (h0 : a.ts ≤ p) (hpq : p < q) (h1 : q ≤ a.te) :
    isiDistanceBi { kw with interval := some (a.ts + a.te - q, a.ts + a.te - p) }
        (D1_mirror a) (D1_mirror b)
      = isiDistanceBi { kw with interval := some (p, q) } a b := by
  obtain ⟨hw, hf, hl⟩ := G1_isiProfileBi_on_any kw a b ha hb hts hte
  show (isiProfileBi kw (D1_mirror a) (D1_mirror b)).avrg (a.ts + a.te - q) (a.ts + a.te - p)
    = (isiProfileBi kw a b).avrg p q
  rw [G1_isiProfileBi_mirror kw a b ha hb hts hte]
  exact G1_mirPwc_avrg a.ts a.te hw (by rw [hf]; exact h0) hpq (by rw [hl]; exact h1)

example : ValidTrain ⟨[1, 3, 4], 0, 6⟩ ∧ ValidTrain ⟨[0, 5], 0, 6⟩ ∧ (0 : Q) ≤ 1 / 2 ∧ (1 / 2 : Q) < 5
    ∧ (5 : Q) ≤ 6 := by
  refine ⟨?_, ?_, by norm_num, by norm_num, by norm_num⟩ <;> (unfold ValidTrain; decide +kernel)

/-! ### SPIKE-Sync over a sub-interval -/


theorem G1_ss_mirror (c : Q) (t : Q) : ∀ (xs : List Q),
    ssRight ((xs.map (B10_psi c)).reverse) (B10_psi c t) + ssLeft xs t = xs.length ∧
    ssLeft ((xs.map (B10_psi c)).reverse) (B10_psi c t) + ssRight xs t = xs.length
  | [] => by simp [ssRight, ssLeft]
  | x :: r => by
    obtain ⟨ih1, ih2⟩ := G1_ss_mirror c t r
    unfold ssRight ssLeft at *
    simp only [List.map_cons, List.reverse_cons, List.filter_append, List.length_append,
      List.filter_cons, List.filter_nil, B10_psi_le, B10_psi_lt, List.length_cons]
    constructor
    · by_cases h : x < t
      · have h' : ¬ t ≤ x := not_le.mpr h
        simp only [h, h', decide_true, decide_false, if_true, if_false, List.length_nil,
          Bool.false_eq_true, List.length_cons]
        omega
      · have h' : t ≤ x := not_lt.mp h
        simp only [h, h', decide_true, decide_false, if_true, if_false, List.length_nil,
          Bool.false_eq_true, List.length_cons]
        omega
    · by_cases h : x ≤ t
      · have h' : ¬ t < x := not_lt.mpr h
        simp only [h, h', decide_true, decide_false, if_true, if_false, List.length_nil,
          Bool.false_eq_true, List.length_cons]
        omega
      · have h' : t < x := not_le.mp h
        simp only [h, h', decide_true, decide_false, if_true, if_false, List.length_nil,
          Bool.false_eq_true, List.length_cons]
        omega

theorem G1_slice_mirror {A : Type} (L : List A) (si ei : Nat) (_hs : si ≤ L.length) (he : ei ≤ L.length) :
    (L.reverse.drop (L.length - ei)).take ((L.length - si) - (L.length - ei))
      = ((L.drop si).take (ei - si)).reverse := by
  rw [List.drop_reverse, List.take_reverse, List.length_take]
  have e1 : L.length - (L.length - ei) = ei := by omega
  rw [e1, min_eq_left he]
  by_cases h : si ≤ ei
  · have e2 : ei - (L.length - si - (L.length - ei)) = si := by omega
    rw [e2, List.drop_take]
  · have e2 : ei - (L.length - si - (L.length - ei)) = ei := by omega
    have e3 : ei - si = 0 := by omega
    rw [e2, e3, List.take_zero, List.drop_take, Nat.sub_self, List.take_zero]

theorem G1_ssRight_le' (xs : List Q) (t : Q) : ssRight xs t ≤ xs.length := List.length_filter_le _ _
theorem G1_ssLeft_le' (xs : List Q) (t : Q) : ssLeft xs t ≤ xs.length := List.length_filter_le _ _

theorem G1_Disc_integral_mirror (c : Q) (h : Q → Q) (hadd : ∀ l : List Q, qsum (l.map h) = h (qsum l))
    (E : List Ev) (p q : Q) :
    (Disc.mk ((E.map (B10_mapE c h)).reverse)).integral (B10_psi c q) (B10_psi c p)
      = ((Disc.mk E).integral p q).map fun vm => (h vm.1, vm.2) := by
  have hx : ((E.map (B10_mapE c h)).reverse).map (·.1) = ((E.map (·.1)).map (B10_psi c)).reverse := by
    rw [List.map_reverse, List.map_map, List.map_map]; rfl
  obtain ⟨hA, -⟩ := G1_ss_mirror c q (E.map (·.1))
  obtain ⟨-, hB⟩ := G1_ss_mirror c p (E.map (·.1))
  have hsi := G1_ssRight_le' (E.map (·.1)) p
  have hei := G1_ssLeft_le' (E.map (·.1)) q
  rw [List.length_map] at hA hB hsi hei
  unfold Disc.integral
  simp only [hx]
  have e1 : ssRight ((E.map (·.1)).map (B10_psi c)).reverse (B10_psi c q)
      = E.length - ssLeft (E.map (·.1)) q := by omega
  have e2 : ssLeft ((E.map (·.1)).map (B10_psi c)).reverse (B10_psi c p)
      = E.length - ssRight (E.map (·.1)) p := by omega
  rw [e1, e2]
  simp only [List.length_reverse, List.length_map]
  by_cases hc : ssRight (E.map (·.1)) p = 0 ∨ ssLeft (E.map (·.1)) q ≥ E.length
  · have hc' : E.length - ssLeft (E.map (·.1)) q = 0 ∨ E.length - ssRight (E.map (·.1)) p ≥ E.length := by
      omega
    rw [if_pos hc, if_pos hc']; rfl
  · have hc' : ¬ (E.length - ssLeft (E.map (·.1)) q = 0 ∨ E.length - ssRight (E.map (·.1)) p ≥ E.length) := by
      omega
    rw [if_neg hc, if_neg hc']
    have hsl := G1_slice_mirror (E.map (B10_mapE c h)) (ssRight (E.map (·.1)) p) (ssLeft (E.map (·.1)) q)
      (by rw [List.length_map]; exact hsi) (by rw [List.length_map]; exact hei)
    rw [List.length_map] at hsl
    rw [hsl, ← List.map_drop, ← List.map_take]
    simp only [Option.map_some, List.map_reverse, B10_qsum_reverse, List.map_map]
    congr 1
    refine Prod.ext ?_ ?_
    · show qsum (_ ) = h (qsum _)
      rw [← hadd, List.map_map]; rfl
    · rfl

theorem G1_qsum_map_id (l : List Q) : qsum (l.map id) = id (qsum l) := by rw [List.map_id]; rfl

/-- **representation level, two trains, every keyword record**: SPIKE-Sync profile of the mirrored pair -/
theorem G1_syncProfileBi_mirror (kw : Kw) (a b : Train) (h : D4_VBi a b) :
    syncProfileBi kw (D1_mirror a) (D1_mirror b)
      = ⟨((syncProfileBi kw a b).e.map (B10_mapE (a.ts + a.te) id)).reverse⟩ := by
  obtain ⟨ha, hb, hts, hte⟩ := h
  rw [D4_syncProfileBi_valid kw a b ⟨ha, hb, hts, hte⟩,
    D4_syncProfileBi_valid kw _ _ ⟨D1_mirror_valid a ha, D1_mirror_valid b hb, hts, hte⟩]
  unfold syncProfileBi
  simp only [prepBi, Kw.noRecon, Bool.false_eq_true, if_false]
  show Disc.mk (coincProfile (B9_mir a.ts a.te a.spikes) (B9_mir b.ts b.te b.spikes)
    a.ts a.te kw.maxTau kw.mrts) = _
  rw [hts, hte, G1_mir_eq, G1_mir_eq, coincProfile_mirror _ _ _ _ _ _ ha.2.1 hb.2.1]
  rfl

/-- **C08, SPIKE-Sync counts over a sub-interval under mirror** (every interval, also a rejected one:
    both sides are `none` together) -/
theorem G1_sync_values_mirror_interval (kw : Kw) (a b : Train) (h : D4_VBi a b) (p q : Q) :
    syncValues { kw with interval := some (a.ts + a.te - q, a.ts + a.te - p) }
        (D1_mirror a) (D1_mirror b)
      = syncValues { kw with interval := some (p, q) } a b := by
  show (syncProfileBi kw (D1_mirror a) (D1_mirror b)).integral (a.ts + a.te - q) (a.ts + a.te - p)
    = (syncProfileBi kw a b).integral p q
  rw [G1_syncProfileBi_mirror kw a b h]
  have := G1_Disc_integral_mirror (a.ts + a.te) id G1_qsum_map_id (syncProfileBi kw a b).e p q
  unfold B10_psi at this
  rw [this]
  cases (Disc.mk (syncProfileBi kw a b).e).integral p q <;> rfl

/-- **C08, SPIKE synchronisation over a sub-interval under mirror** -/
theorem G1_sync_mirror_interval (kw : Kw) (a b : Train) (h : D4_VBi a b) (p q : Q) :
    spikeSyncBi { kw with interval := some (a.ts + a.te - q, a.ts + a.te - p) }
        (D1_mirror a) (D1_mirror b)
      = spikeSyncBi { kw with interval := some (p, q) } a b := by
  unfold spikeSyncBi
  rw [G1_sync_values_mirror_interval kw a b h p q]

example : D4_VBi ⟨[0], 0, 6⟩ ⟨[1, 3, 6], 0, 6⟩ := D4_exBi_valid.2.2

/-- lists of trains: ISI distance over a sub-interval -/
theorem G1_isi_distance_multi_mirror_interval (kw : Kw) (idx : Option (List Nat)) {ts te : Q}
    {L : List Train} (hv : B5_ValidList ts te L) (hi : F4_IdxOk idx L) {p q : Q}
    (h0 : ts ≤ p) (hpq : p < q) (h1 : q ≤ te) :
    isiDistanceMulti { kw with interval := some (ts + te - q, ts + te - p) } idx (L.map D1_mirror)
      = isiDistanceMulti { kw with interval := some (p, q) } idx L := by
  unfold isiDistanceMulti
  simp only [D4_prep_valid _ _ ts te (F4_mirror_validList hv), D4_prep_valid _ L ts te hv,
    List.length_map]
  apply F4_genericDistanceMulti_congr_g D1_mirror _ _ _ L hi
  intro a b ha hb
  obtain ⟨a1, a2, a3⟩ := hv a ha
  obtain ⟨b1, b2, b3⟩ := hv b hb
  have := G1_isi_distance_mirror_interval kw.noRecon a b a1 b1 (by rw [a2, b2]) (by rw [a3, b3])
    (p := p) (q := q) (by rw [a2]; exact h0) hpq (by rw [a3]; exact h1)
  rw [a2, a3] at this
  exact this

/-- lists of trains: SPIKE synchronisation over a sub-interval -/
theorem G1_sync_multi_mirror_interval (kw : Kw) (idx : Option (List Nat)) {ts te : Q}
    {L : List Train} (hv : B5_ValidList ts te L) (hi : F4_IdxOk idx L) (p q : Q) :
    spikeSyncMulti { kw with interval := some (ts + te - q, ts + te - p) } idx (L.map D1_mirror)
      = spikeSyncMulti { kw with interval := some (p, q) } idx L := by
  unfold spikeSyncMulti
  simp only [D4_prep_valid _ _ ts te (F4_mirror_validList hv), D4_prep_valid _ L ts te hv,
    List.length_map]
  congr 2
  apply List.map_congr_left
  intro pr hp
  obtain ⟨m1, m2⟩ := mem_pairsOf hp
  rw [F4_tr_map_g D1_mirror L pr.1 (hi _ m1), F4_tr_map_g D1_mirror L pr.2 (hi _ m2)]
  obtain ⟨a1, a2, a3⟩ := hv _ (B5_tr_mem L _ (hi _ m1))
  obtain ⟨b1, b2, b3⟩ := hv _ (B5_tr_mem L _ (hi _ m2))
  have := G1_sync_values_mirror_interval kw.noRecon _ _
    ⟨a1, b1, b2.trans a2.symm, b3.trans a3.symm⟩ p q
  rw [a2, a3] at this
  exact this

example : B5_ValidList 0 6 F4_exL ∧ F4_IdxOk (some [0, 1, 3]) F4_exL ∧ (0 : Q) ≤ 1 / 2 ∧
    (1 / 2 : Q) < 5 ∧ (5 : Q) ≤ 6 :=
  ⟨F4_exL_valid, F4_exL_idx, by norm_num, by norm_num, by norm_num⟩

/-! ### SPIKE distance over a sub-interval (partial form) -/

theorem G1_mirPwl_WF (ts te : Q) {f : Pwl} (hf : f.WF) : (G1_mirPwl ts te f).WF := by
  obtain ⟨h1, h2, h3, h4⟩ := hf
  refine ⟨?_, ?_, B9_mir_sorted h3, ?_⟩
  · show f.y2.reverse.length + 1 = (B9_mir ts te f.x).length
    rw [List.length_reverse, B9_mir_length, h2]
  · show f.y1.reverse.length + 1 = (B9_mir ts te f.x).length
    rw [List.length_reverse, B9_mir_length, h1]
  · show 2 ≤ (B9_mir ts te f.x).length
    rw [B9_mir_length]; exact h4

theorem G1_mirPwl_first_last (ts te : Q) {f : Pwl} (hf : f.WF) :
    (G1_mirPwl ts te f).first = B9_psi ts te f.last ∧
    (G1_mirPwl ts te f).last = B9_psi ts te f.first := by
  unfold Pwl.first Pwl.last G1_mirPwl
  simp only
  cases hx : f.x with
  | nil => have := hf.2.2.2; rw [hx] at this; simp at this
  | cons a xs => exact ⟨B9_headD_mir ts te a xs, B9_lastD_mir ts te a xs⟩

theorem G1_clipInt_mirror (ts te : Q) (P : Piece) (p q : Q) :
    (G1_mirPiece ts te P).clipInt (B9_psi ts te q) (B9_psi ts te p) = P.clipInt p q := by
  have e1 : max (B9_psi ts te q) (B9_psi ts te P.xr) = B9_psi ts te (min q P.xr) := by
    unfold B9_psi; exact max_sub_sub_left _ _ _
  have e2 : min (B9_psi ts te p) (B9_psi ts te P.xl) = B9_psi ts te (max p P.xl) := by
    unfold B9_psi; exact min_sub_sub_left _ _ _
  unfold Piece.clipInt
  simp only
  rw [show (G1_mirPiece ts te P).xl = B9_psi ts te P.xr from rfl,
    show (G1_mirPiece ts te P).xr = B9_psi ts te P.xl from rfl, e1, e2]
  by_cases h : max p P.xl < min q P.xr
  · have h' : B9_psi ts te (min q P.xr) < B9_psi ts te (max p P.xl) := B9_psi_lt.mpr h
    have hne : P.xl ≠ P.xr :=
      ne_of_lt (lt_of_le_of_lt (le_max_right _ _) (lt_of_lt_of_le h (min_le_right _ _)))
    rw [if_pos h, if_pos h', G1_mirPiece_at ts te P hne, G1_mirPiece_at ts te P hne]
    unfold B9_psi
    ring
  · have h' : ¬ B9_psi ts te (min q P.xr) < B9_psi ts te (max p P.xl) := fun hh => h (B9_psi_lt.mp hh)
    rw [if_neg h, if_neg h']

theorem G1_mirPwl_riemann (ts te : Q) (f : Pwl) (h1 : f.y1.length + 1 = f.x.length)
    (h2 : f.y2.length = f.y1.length) (p q : Q) :
    (G1_mirPwl ts te f).riemann (B9_psi ts te q) (B9_psi ts te p) = f.riemann p q := by
  unfold Pwl.riemann
  rw [G1_mirPwl_pieces ts te f h1 h2, List.map_reverse, B10_qsum_reverse, List.map_map]
  congr 1
  apply List.map_congr_left
  intro x _
  simp only [Function.comp, G1_clipInt_mirror]

theorem G1_mirPwl_avrg (ts te : Q) {f : Pwl} (hf : f.WF) {p q : Q}
    (h0 : f.first ≤ p) (hpq : p < q) (h1 : q ≤ f.last) :
    (G1_mirPwl ts te f).avrg (B9_psi ts te q) (B9_psi ts te p) = f.avrg p q := by
  obtain ⟨e1, e2⟩ := G1_mirPwl_first_last ts te hf
  rw [Pwl.avrg_eq (G1_mirPwl_WF ts te hf) (by rw [e1, B9_psi_le]; exact h1)
      (B9_psi_lt.mpr hpq) (by rw [e2, B9_psi_le]; exact h0),
    Pwl.avrg_eq hf h0 hpq h1, G1_mirPwl_riemann ts te f hf.1 (by have := hf.1; have := hf.2.1; omega)]
  have e : B9_psi ts te p - B9_psi ts te q = q - p := by unfold B9_psi; ring
  rw [e]

/-- **C08, SPIKE distance over a sub-interval under mirror, partial form** (neither train is exactly
    one spike on `t_start` or exactly one spike on `t_end`), every keyword record -/
theorem G1_spike_distance_mirror_interval_partial (kw : Kw) (a b : Train) (ha : ValidTrain a)
    (hb : ValidTrain b) (hts : b.ts = a.ts) (hte : b.te = a.te)
    (hna : a.spikes ≠ [a.ts] ∧ a.spikes ≠ [a.te]) (hnb : b.spikes ≠ [b.ts] ∧ b.spikes ≠ [b.te])
    {p q : Q} (h0 : a.ts ≤ p) (hpq : p < q) (h1 : q ≤ a.te) :
    spikeDistanceBi { kw with interval := some (a.ts + a.te - q, a.ts + a.te - p) }
        (D1_mirror a) (D1_mirror b)
      = spikeDistanceBi { kw with interval := some (p, q) } a b := by
  obtain ⟨hw, hf, hl⟩ := C2_spikeProfileBi_on_anyRecon kw a b ha hb hts hte
  show (spikeProfileBi kw (D1_mirror a) (D1_mirror b)).avrg (a.ts + a.te - q) (a.ts + a.te - p)
    = (spikeProfileBi kw a b).avrg p q
  rw [G1_spikeProfileBi_mirror kw a b ha hb hts hte hna hnb]
  exact G1_mirPwl_avrg a.ts a.te hw (by rw [hf]; exact h0) hpq (by rw [hl]; exact h1)

/-- lists of trains -/
theorem G1_spike_distance_multi_mirror_interval_partial (kw : Kw) (idx : Option (List Nat)) {ts te : Q}
    {L : List Train} (hv : B5_ValidList ts te L) (hi : F4_IdxOk idx L)
    (hn : ∀ t ∈ L, t.spikes ≠ [ts] ∧ t.spikes ≠ [te]) {p q : Q}
    (h0 : ts ≤ p) (hpq : p < q) (h1 : q ≤ te) :
    spikeDistanceMulti { kw with interval := some (ts + te - q, ts + te - p) } idx (L.map D1_mirror)
      = spikeDistanceMulti { kw with interval := some (p, q) } idx L := by
  unfold spikeDistanceMulti
  simp only [D4_prep_valid _ _ ts te (F4_mirror_validList hv), D4_prep_valid _ L ts te hv,
    List.length_map]
  apply F4_genericDistanceMulti_congr_g D1_mirror _ _ _ L hi
  intro a b ha hb
  obtain ⟨a1, a2, a3⟩ := hv a ha
  obtain ⟨b1, b2, b3⟩ := hv b hb
  have := G1_spike_distance_mirror_interval_partial kw.noRecon a b a1 b1 (by rw [a2, b2])
    (by rw [a3, b3]) (by rw [a2, a3]; exact hn a ha) (by rw [b2, b3]; exact hn b hb)
    (p := p) (q := q) (by rw [a2]; exact h0) hpq (by rw [a3]; exact h1)
  rw [a2, a3] at this
  exact this

example : B5_ValidList 0 10 F3_exL ∧ F4_IdxOk none F3_exL ∧
    (∀ a ∈ F3_exL, a.spikes ≠ [0] ∧ a.spikes ≠ [10]) ∧ (0 : Q) ≤ 2 ∧ (2 : Q) < 7 ∧ (7 : Q) ≤ 10 :=
  ⟨F3_exL_valid, F4_IdxOk_none _, by unfold F3_exL; decide +kernel, by norm_num, by norm_num,
    by norm_num⟩

/-! ## the theorems applied to concrete inputs -/

example : spikeTrainOrderBi {} true (D1_mirror F3_exA) (D1_mirror F3_exB)
    = - spikeTrainOrderBi {} true F3_exA F3_exB :=
  order_mirror_api {} F3_exAB_valid (Or.inl (by decide))

example : spikeDirectionality { maxTau := 2 } true (D1_mirror F3_exA) (D1_mirror F3_exB)
    = - spikeDirectionality { maxTau := 2 } true F3_exA F3_exB :=
  G1_directionality_mirror_api _ true F3_exAB_valid

example : spikeTrainOrderMulti {} (some [2, 0]) (F3_exL.map D1_mirror)
    = if (∀ k ∈ resolveIdx (some [2, 0]) F3_exL.length, (tr F3_exL k).spikes = []) then 1
      else - spikeTrainOrderMulti {} (some [2, 0]) F3_exL :=
  order_multi_mirror {} (some [2, 0]) F3_exL_valid
    (by unfold F4_IdxOk F3_exL resolveIdx; decide) (by decide)

example : (isiProfileMulti { mrts := 1 } none (F4_exL.map D1_mirror)).evalR (0 + 6 - 3)
    = (isiProfileMulti { mrts := 1 } none F4_exL).evalL 3 :=
  isi_multi_profile_mirror _ F4_exL_valid (by decide) (by norm_num) (by norm_num)

example : (syncProfileMulti { maxTau := 2 } none (F4_exL.map D1_mirror)).at (0 + 6 - 3)
    = (syncProfileMulti { maxTau := 2 } none F4_exL).at 3 :=
  G1_sync_multi_profile_mirror _ F4_exL_valid (by decide) 3

example : spikeSyncMulti { interval := some (0 + 6 - 5, 0 + 6 - 1 / 2) } (some [0, 1, 3])
      (F4_exL.map D1_mirror)
    = spikeSyncMulti { interval := some (1 / 2, 5) } (some [0, 1, 3]) F4_exL :=
  G1_sync_multi_mirror_interval {} (some [0, 1, 3]) F4_exL_valid F4_exL_idx (1 / 2) 5

end PySpike
