/-
  Proofs/Reconcile.lean — `np.unique`, `reconcile_spike_trains` (properties C13 / C20).
-/
import PySpikeVerif.Model.Api
import Mathlib.Data.List.Sort
import Mathlib.Tactic.Linarith
import Mathlib.Algebra.Order.Field.Rat

namespace PySpike

/-! ## `sortQ`, `dedupAdj`, `uniqueQ` -/

theorem sortQ_sorted (l : List Q) : (sortQ l).Pairwise (· ≤ ·) := by
  have h := List.pairwise_mergeSort (le := fun a b : Q => decide (a ≤ b))
    (fun a b c hab hbc => by
      simp only [decide_eq_true_eq] at hab hbc ⊢; exact le_trans hab hbc)
    (fun a b => by
      simp only [Bool.or_eq_true, decide_eq_true_eq]; exact le_total a b) l
  unfold sortQ
  exact h.imp (fun hab => by simpa using hab)

theorem sortQ_perm (l : List Q) : (sortQ l).Perm l := List.mergeSort_perm l _

theorem sortQ_mem {x : Q} {l : List Q} : x ∈ sortQ l ↔ x ∈ l := (sortQ_perm l).mem_iff

theorem sortQ_id {l : List Q} (h : l.Pairwise (· ≤ ·)) : sortQ l = l := by
  unfold sortQ
  exact List.mergeSort_of_pairwise (h.imp (fun hab => by simpa using hab))

theorem dedupAdj_mem {x : Q} {l : List Q} : x ∈ dedupAdj l ↔ x ∈ l := by
  induction l using dedupAdj.induct with
  | case1 => simp [dedupAdj]
  | case2 a => simp [dedupAdj]
  | case3 a r ih =>
    rw [dedupAdj, if_pos rfl, ih]; simp
  | case4 a b r h ih =>
    rw [dedupAdj, if_neg h]; simp only [List.mem_cons] at ih ⊢; rw [ih]

theorem dedupAdj_sorted {l : List Q} (h : l.Pairwise (· ≤ ·)) : (dedupAdj l).Pairwise (· < ·) := by
  induction l using dedupAdj.induct with
  | case1 => simp [dedupAdj]
  | case2 a => simp [dedupAdj]
  | case3 a r ih =>
    rw [dedupAdj, if_pos rfl]; exact ih (List.pairwise_cons.mp h).2
  | case4 a b r hab ih =>
    rw [dedupAdj, if_neg hab]
    have h' := List.pairwise_cons.mp h
    refine List.pairwise_cons.mpr ⟨?_, ih h'.2⟩
    intro y hy
    have hy' : y ∈ b :: r := dedupAdj_mem.mp hy
    have hb : a ≤ b := h'.1 b (by simp)
    have hlt : a < b := lt_of_le_of_ne hb hab
    rcases List.mem_cons.mp hy' with rfl | hyr
    · exact hlt
    · exact lt_of_lt_of_le hlt ((List.pairwise_cons.mp h'.2).1 y hyr)

theorem dedupAdj_id {l : List Q} (h : l.Pairwise (· < ·)) : dedupAdj l = l := by
  induction l using dedupAdj.induct with
  | case1 => simp [dedupAdj]
  | case2 a => simp [dedupAdj]
  | case3 a r ih =>
    have := (List.pairwise_cons.mp h).1 a (by simp)
    exact absurd this (lt_irrefl a)
  | case4 a b r hab ih =>
    rw [dedupAdj, if_neg hab, ih (List.pairwise_cons.mp h).2]

/-- 1a. `np.unique` returns a strictly increasing list -/
theorem uniqueQ_sorted (l : List Q) : (uniqueQ l).Pairwise (· < ·) :=
  dedupAdj_sorted (sortQ_sorted l)

/-- 1b. `np.unique` keeps exactly the members -/
theorem uniqueQ_mem {x : Q} {l : List Q} : x ∈ uniqueQ l ↔ x ∈ l := by
  unfold uniqueQ; rw [dedupAdj_mem, sortQ_mem]

/-- a strictly increasing list is a fixed point of `np.unique` -/
theorem uniqueQ_id {l : List Q} (h : l.Pairwise (· < ·)) : uniqueQ l = l := by
  unfold uniqueQ
  rw [sortQ_id (h.imp le_of_lt), dedupAdj_id h]

/-- a strictly sorted list is determined by its members -/
theorem eq_of_strictSorted_of_mem_iff {a b : List Q} (ha : a.Pairwise (· < ·))
    (hb : b.Pairwise (· < ·)) (h : ∀ x, x ∈ a ↔ x ∈ b) : a = b :=
  List.Pairwise.eq_of_mem_iff ha hb h

example : uniqueQ [3, 1, 2, 1, 3] = [1, 2, 3] :=
  eq_of_strictSorted_of_mem_iff (uniqueQ_sorted _) (by decide)
    (fun x => by simp only [uniqueQ_mem, List.mem_cons, List.not_mem_nil]; tauto)

/-- `np.unique` depends only on the set of members -/
theorem uniqueQ_congr {a b : List Q} (h : ∀ x, x ∈ a ↔ x ∈ b) : uniqueQ a = uniqueQ b :=
  eq_of_strictSorted_of_mem_iff (uniqueQ_sorted a) (uniqueQ_sorted b)
    (fun x => by rw [uniqueQ_mem, uniqueQ_mem, h])

/-! ## `minList`, `maxList` -/

theorem foldl_min_le_init (a : Q) (l : List Q) : l.foldl min a ≤ a := by
  induction l generalizing a with
  | nil => exact le_refl a
  | cons b r ih => exact le_trans (ih (min a b)) (min_le_left a b)

theorem foldl_min_le_mem (a : Q) (l : List Q) {x : Q} (hx : x ∈ l) : l.foldl min a ≤ x := by
  induction l generalizing a with
  | nil => simp at hx
  | cons b r ih =>
    rcases List.mem_cons.mp hx with rfl | hr
    · exact le_trans (foldl_min_le_init _ r) (min_le_right a x)
    · exact ih (min a b) hr

theorem foldl_min_mem (a : Q) (l : List Q) : l.foldl min a ∈ a :: l := by
  induction l generalizing a with
  | nil => simp
  | cons b r ih =>
    have h := ih (min a b)
    rcases List.mem_cons.mp h with h1 | h1
    · rw [List.foldl_cons, h1]
      rcases min_choice a b with h2 | h2 <;> rw [h2] <;> simp
    · simp only [List.foldl_cons, List.mem_cons]; exact Or.inr (Or.inr h1)

theorem foldl_max_init_le (a : Q) (l : List Q) : a ≤ l.foldl max a := by
  induction l generalizing a with
  | nil => exact le_refl a
  | cons b r ih => exact le_trans (le_max_left a b) (ih (max a b))

theorem foldl_max_mem_le (a : Q) (l : List Q) {x : Q} (hx : x ∈ l) : x ≤ l.foldl max a := by
  induction l generalizing a with
  | nil => simp at hx
  | cons b r ih =>
    rcases List.mem_cons.mp hx with rfl | hr
    · exact le_trans (le_max_right a x) (foldl_max_init_le _ r)
    · exact ih (max a b) hr

theorem foldl_max_mem (a : Q) (l : List Q) : l.foldl max a ∈ a :: l := by
  induction l generalizing a with
  | nil => simp
  | cons b r ih =>
    have h := ih (max a b)
    rcases List.mem_cons.mp h with h1 | h1
    · rw [List.foldl_cons, h1]
      rcases max_choice a b with h2 | h2 <;> rw [h2] <;> simp
    · simp only [List.foldl_cons, List.mem_cons]; exact Or.inr (Or.inr h1)

/-- 3a. `minList` is a lower bound -/
theorem minList_le {d x : Q} {l : List Q} (hx : x ∈ l) : minList d l ≤ x := by
  cases l with
  | nil => simp at hx
  | cons a r =>
    rcases List.mem_cons.mp hx with rfl | hr
    · exact foldl_min_le_init _ r
    · exact foldl_min_le_mem a r hr

/-- 3b. `minList` of a non-empty list is attained -/
theorem minList_mem {d : Q} {l : List Q} (hl : l ≠ []) : minList d l ∈ l := by
  cases l with
  | nil => exact absurd rfl hl
  | cons a r => exact foldl_min_mem a r

/-- 3c. `maxList` is an upper bound -/
theorem le_maxList {d x : Q} {l : List Q} (hx : x ∈ l) : x ≤ maxList d l := by
  cases l with
  | nil => simp at hx
  | cons a r =>
    rcases List.mem_cons.mp hx with rfl | hr
    · exact foldl_max_init_le _ r
    · exact foldl_max_mem_le a r hr

/-- 3d. `maxList` of a non-empty list is attained -/
theorem maxList_mem {d : Q} {l : List Q} (hl : l ≠ []) : maxList d l ∈ l := by
  cases l with
  | nil => exact absurd rfl hl
  | cons a r => exact foldl_max_mem a r

theorem minList_nil (d : Q) : minList d [] = d := rfl
theorem maxList_nil (d : Q) : maxList d [] = d := rfl

theorem minList_const {d c : Q} {l : List Q} (hl : l ≠ []) (h : ∀ x ∈ l, x = c) :
    minList d l = c := h _ (minList_mem hl)

theorem maxList_const {d c : Q} {l : List Q} (hl : l ≠ []) (h : ∀ x ∈ l, x = c) :
    maxList d l = c := h _ (maxList_mem hl)

example : minList 0 [3, 1, 2] = 1 ∧ maxList 0 [3, 1, 2] = 3 := by decide +kernel

/-! ## `reconcile` -/

/-- the spike filter of `reconcile_spike_trains` -/
def recFilter (tS tE : Q) (l : List Q) : List Q :=
  (uniqueQ l).filter (fun t => t > tS - recEps ∧ t < tE + recEps)

theorem reconcile_eq (L : List Train) :
    reconcile L = L.map fun s => ⟨recFilter (minList 0 (L.map (·.ts))) (maxList 0 (L.map (·.te))) s.spikes,
      minList 0 (L.map (·.ts)), maxList 0 (L.map (·.te))⟩ := rfl

theorem recFilter_mem {tS tE x : Q} {l : List Q} :
    x ∈ recFilter tS tE l ↔ x ∈ l ∧ tS - recEps < x ∧ x < tE + recEps := by
  unfold recFilter
  simp only [List.mem_filter, uniqueQ_mem, decide_eq_true_eq, gt_iff_lt]

theorem recFilter_sorted (tS tE : Q) (l : List Q) : (recFilter tS tE l).Pairwise (· < ·) :=
  (uniqueQ_sorted l).filter _

theorem recFilter_idem (tS tE : Q) (l : List Q) :
    recFilter tS tE (recFilter tS tE l) = recFilter tS tE l := by
  have h := uniqueQ_id (recFilter_sorted tS tE l)
  unfold recFilter at h ⊢
  rw [h, List.filter_filter]
  simp only [Bool.and_self]

theorem recFilter_congr {tS tE : Q} {a b : List Q} (h : ∀ x, x ∈ a ↔ x ∈ b) :
    recFilter tS tE a = recFilter tS tE b := by
  unfold recFilter; rw [uniqueQ_congr h]

theorem recEps_pos : 0 < recEps := by unfold recEps; norm_num

theorem recFilter_id {tS tE : Q} {l : List Q} (hs : l.Pairwise (· < ·))
    (hin : ∀ x ∈ l, tS ≤ x ∧ x ≤ tE) : recFilter tS tE l = l := by
  unfold recFilter
  rw [uniqueQ_id hs, List.filter_eq_self]
  intro x hx
  have := hin x hx
  have he := recEps_pos
  simp only [decide_eq_true_eq, gt_iff_lt]
  constructor <;> linarith

/-- 2. the number of trains is unchanged -/
theorem reconcile_length (L : List Train) : (reconcile L).length = L.length := by
  rw [reconcile_eq, List.length_map]

/-- 3. every reconciled train gets the common interval [smallest start, largest end] -/
theorem reconcile_edges (L : List Train) :
    ∀ t ∈ reconcile L, t.ts = minList 0 (L.map (·.ts)) ∧ t.te = maxList 0 (L.map (·.te)) := by
  intro t ht
  rw [reconcile_eq, List.mem_map] at ht
  obtain ⟨s, _, rfl⟩ := ht
  exact ⟨rfl, rfl⟩

/-- 4. reconciled spike lists are strictly increasing -/
theorem reconcile_spikes_sorted (L : List Train) :
    ∀ t ∈ reconcile L, t.spikes.Pairwise (· < ·) := by
  intro t ht
  rw [reconcile_eq, List.mem_map] at ht
  obtain ⟨s, _, rfl⟩ := ht
  exact recFilter_sorted _ _ _

theorem reconcile_getElem (L : List Train) (i : Nat) (hi : i < L.length) :
    (reconcile L)[i]'(by rw [reconcile_length]; exact hi) =
      ⟨recFilter (minList 0 (L.map (·.ts))) (maxList 0 (L.map (·.te))) L[i].spikes,
        minList 0 (L.map (·.ts)), maxList 0 (L.map (·.te))⟩ := by
  simp only [reconcile_eq, List.getElem_map]

/-- 5. the i-th reconciled train contains exactly the input spikes of the i-th train that lie inside the
    common interval (with tolerance `recEps`) -/
theorem reconcile_mem (L : List Train) (i : Nat) (hi : i < L.length) (x : Q) :
    x ∈ ((reconcile L)[i]'(by rw [reconcile_length]; exact hi)).spikes ↔
      x ∈ L[i].spikes ∧ minList 0 (L.map (·.ts)) - recEps < x ∧ x < maxList 0 (L.map (·.te)) + recEps := by
  rw [reconcile_getElem L i hi]
  exact recFilter_mem

theorem reconcile_map_ts (L : List Train) (hL : L ≠ []) :
    minList 0 ((reconcile L).map (·.ts)) = minList 0 (L.map (·.ts)) := by
  apply minList_const
  · simpa [reconcile_eq] using hL
  · intro x hx
    obtain ⟨t, ht, rfl⟩ := List.mem_map.mp hx
    exact (reconcile_edges L t ht).1

theorem reconcile_map_te (L : List Train) (hL : L ≠ []) :
    maxList 0 ((reconcile L).map (·.te)) = maxList 0 (L.map (·.te)) := by
  apply maxList_const
  · simpa [reconcile_eq] using hL
  · intro x hx
    obtain ⟨t, ht, rfl⟩ := List.mem_map.mp hx
    exact (reconcile_edges L t ht).2

/-- 6. reconciling twice is the same as reconciling once -/
theorem reconcile_idem (L : List Train) : reconcile (reconcile L) = reconcile L := by
  by_cases hL : L = []
  · subst hL; rfl
  · rw [reconcile_eq (reconcile L), reconcile_map_ts L hL, reconcile_map_te L hL]
    conv_lhs => rw [reconcile_eq L]
    rw [List.map_map, reconcile_eq L]
    apply List.map_congr_left
    intro s _
    simp only [Function.comp, recFilter_idem]

/-- "same edges and the same set of spike times" -/
def Train.sameSet (a b : Train) : Prop :=
  a.ts = b.ts ∧ a.te = b.te ∧ ∀ x, x ∈ a.spikes ↔ x ∈ b.spikes

theorem forall₂_map_eq {α β} {R : α → α → Prop} {f : α → β} (hf : ∀ a b, R a b → f a = f b)
    {L₁ L₂ : List α} (h : List.Forall₂ R L₁ L₂) : L₁.map f = L₂.map f := by
  induction h with
  | nil => rfl
  | cons hab _ ih => rw [List.map_cons, List.map_cons, hf _ _ hab, ih]

/-- 7. the result depends only on the edges and on the *set* of spike times of each train: the order of the
    spike times within a train and repeated spike times are irrelevant -/
theorem reconcile_perm_dup {L₁ L₂ : List Train} (h : List.Forall₂ Train.sameSet L₁ L₂) :
    reconcile L₁ = reconcile L₂ := by
  have hts : L₁.map (·.ts) = L₂.map (·.ts) := forall₂_map_eq (fun a b hab => hab.1) h
  have hte : L₁.map (·.te) = L₂.map (·.te) := forall₂_map_eq (fun a b hab => hab.2.1) h
  rw [reconcile_eq, reconcile_eq, hts, hte]
  apply forall₂_map_eq _ h
  intro a b hab
  rw [recFilter_congr hab.2.2]

example : reconcile [⟨[2, 1, 2, 1/2], 0, 3⟩, ⟨[1, 1], 0, 4⟩] = reconcile [⟨[1/2, 1, 2], 0, 3⟩, ⟨[1], 0, 4⟩] :=
  reconcile_perm_dup (by
    refine .cons ⟨rfl, rfl, fun x => ?_⟩ (.cons ⟨rfl, rfl, fun x => ?_⟩ .nil)
    · simp only [List.mem_cons, List.not_mem_nil]; tauto
    · simp only [List.mem_cons, List.not_mem_nil]; tauto)

/-- 8. valid input (common edges, strictly increasing spikes inside the edges) is a fixed point.
    (The task's hypothesis `ts < te` is not needed.) -/
theorem reconcile_id_of_valid (L : List Train) (ts te : Q)
    (h : ∀ t ∈ L, t.ts = ts ∧ t.te = te ∧ t.spikes.Pairwise (· < ·) ∧ ∀ x ∈ t.spikes, ts ≤ x ∧ x ≤ te) :
    reconcile L = L := by
  by_cases hL : L = []
  · subst hL; rfl
  · have hts : minList 0 (L.map (·.ts)) = ts := by
      apply minList_const (by simpa using hL)
      intro x hx
      obtain ⟨t, ht, rfl⟩ := List.mem_map.mp hx
      exact (h t ht).1
    have hte : maxList 0 (L.map (·.te)) = te := by
      apply maxList_const (by simpa using hL)
      intro x hx
      obtain ⟨t, ht, rfl⟩ := List.mem_map.mp hx
      exact (h t ht).2.1
    rw [reconcile_eq, hts, hte]
    conv_rhs => rw [← List.map_id L]
    apply List.map_congr_left
    intro s hs
    obtain ⟨h1, h2, h3, h4⟩ := h s hs
    rw [recFilter_id h3 h4, ← h1, ← h2]
    rfl

example : reconcile [⟨[1/2, 1, 2], 0, 3⟩, ⟨[0, 3], 0, 3⟩, ⟨[], 0, 3⟩] = [⟨[1/2, 1, 2], 0, 3⟩, ⟨[0, 3], 0, 3⟩, ⟨[], 0, 3⟩] :=
  reconcile_id_of_valid _ 0 3 (by
    intro t ht
    simp only [List.mem_cons, List.not_mem_nil, or_false] at ht
    rcases ht with rfl | rfl | rfl <;> refine ⟨rfl, rfl, by norm_num, ?_⟩ <;> intro x hx <;>
      simp only [List.mem_cons, List.not_mem_nil, or_false] at hx
    · rcases hx with rfl | rfl | rfl <;> norm_num
    · rcases hx with rfl | rfl <;> norm_num)

/-- 9. the bivariate wrapper is `reconcile` of the two-element list -/
theorem reconcileBi_eq (a b : Train) :
    reconcile [a, b] = [(reconcileBi a b).1, (reconcileBi a b).2] := by
  unfold reconcileBi
  rw [reconcile_eq]
  rfl

theorem reconcileBi_eq' (a b : Train) :
    reconcileBi a b = ((reconcile [a, b])[0]'(by simp [reconcile_length]),
      (reconcile [a, b])[1]'(by simp [reconcile_length])) := by
  simp only [reconcileBi_eq a b, List.getElem_cons_zero, List.getElem_cons_succ]

example : reconcile [⟨[3, 1, 1, 7], 0, 5⟩, ⟨[2, -1], 1, 6⟩] = [⟨[1, 3], 0, 6⟩, ⟨[2], 0, 6⟩] := by
  have hS : minList 0 [0, 1] = 0 := by decide +kernel
  have hE : maxList 0 [5, 6] = 6 := by decide +kernel
  have h1 : recFilter 0 6 [3, 1, 1, 7] = [1, 3] :=
    eq_of_strictSorted_of_mem_iff (recFilter_sorted _ _ _) (by norm_num) (fun x => by
      rw [recFilter_mem]
      simp only [List.mem_cons, List.not_mem_nil, or_false]
      constructor
      · rintro ⟨rfl | rfl | rfl | rfl, h1, h2⟩ <;>
          first | (norm_num [recEps] at h2; done) | norm_num
      · rintro (rfl | rfl) <;> norm_num [recEps])
  have h2 : recFilter 0 6 [2, -1] = [2] :=
    eq_of_strictSorted_of_mem_iff (recFilter_sorted _ _ _) (by norm_num) (fun x => by
      rw [recFilter_mem]
      simp only [List.mem_cons, List.not_mem_nil, or_false]
      constructor
      · rintro ⟨rfl | rfl, h1, h2⟩ <;>
          first | (norm_num [recEps] at h1; done) | norm_num
      · rintro rfl; norm_num [recEps])
  rw [reconcile_eq]
  simp only [List.map_cons, List.map_nil, hS, hE, h1, h2]

end PySpike
