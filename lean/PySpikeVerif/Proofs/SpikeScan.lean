/-
  Proofs/SpikeScan.lean — work package B4: the SPIKE scan (`spikeProfile`) computes the
  cursor-free SPIKE-distance definition (`spikeSpecProfile`), property C02.
-/
import PySpikeVerif.Spec.Spike
import PySpikeVerif.Proofs.Isi
import PySpikeVerif.Proofs.SpikeLaws
import PySpikeVerif.Proofs.IsiLaws
import Mathlib.Data.List.Basic
import Mathlib.Data.List.GetD
import PySpikeVerif.Model.Funcs

namespace PySpike

/-! ## Part I — shape of the output: lengths and breakpoints -/

/-- Target 2: `y1.length + 1 = xs.length ∧ y2.length = y1.length` (no hypotheses needed). -/
theorem spikeProfile_lengths (t1 t2 : List Q) (ts te m : Q) (ri : Bool) :
    (spikeProfile t1 t2 ts te m ri).2.1.length + 1 = (spikeProfile t1 t2 ts te m ri).1.length ∧
    (spikeProfile t1 t2 ts te m ri).2.2.length = (spikeProfile t1 t2 ts te m ri).2.1.length := by
  unfold spikeProfile
  simp only
  split <;> simp

example : (spikeProfile [1, 3] [2, 5] 0 6 0 true).2.1.length + 1
    = (spikeProfile [1, 3] [2, 5] 0 6 0 true).1.length := by decide +kernel

/-- the `tf` field of a train state is the head of the remaining spikes (if any) -/
def B4_HeadIs (x : SpkSt) (r : List Q) : Prop := ∀ a r', r = a :: r' → x.tf = a

theorem B4_headIs_nil (x : SpkSt) : B4_HeadIs x [] := by intro a r' h; cases h

theorem B4_headIs_advance {te m : Q} {ri : Bool} {x : SpkSt} {px : Option Q} {a : Q} {r' : List Q}
    {y : SpkSt} {yfrom : List Q} {xe y0 y1 : Q} :
    B4_HeadIs (spkAdvance te m ri x px a r' y yfrom xe y0 y1).1 r' := by
  intro b r'' h; subst h; rfl

theorem B4_headIs_tie {te : Q} {x : SpkSt} {px : Option Q} {a : Q} {r' : List Q} {ofrom : List Q}
    {xe o0 o1 : Q} : B4_HeadIs (spkTie te x px a r' ofrom xe o0 o1) r' := by
  intro b r'' h; subst h; rfl

theorem B4_advance_time (te m : Q) (ri : Bool) (x : SpkSt) (px : Option Q) (a : Q) (r' : List Q)
    (y : SpkSt) (yfrom : List Q) (xe y0 y1 : Q) :
    (spkAdvance te m ri x px a r' y yfrom xe y0 y1).2.1 = x.tf := rfl

/-- the event times of the SPIKE scan are those of the ISI scan -/
theorem B4_spkLoop_times (e : SpkEnv) (te' m' : Q) :
    ∀ (x1 : SpkSt) (p1 : Option Q) (r1 : List Q) (x2 : SpkSt) (p2 : Option Q) (r2 : List Q),
      B4_HeadIs x1 r1 → B4_HeadIs x2 r2 → ∀ nu1 nu2 : Q,
      (spkLoop e x1 p1 r1 x2 p2 r2).1.map (·.1) = (isiLoop te' m' p1 r1 nu1 p2 r2 nu2).map (·.1) := by
  intro x1 p1 r1 x2 p2 r2
  induction x1, p1, r1, x2, p2, r2 using spkLoop.induct e with
  | case1 x1 p1 x2 p2 => intro _ _ nu1 nu2; rw [spkLoop, isiLoop]; rfl
  | case2 x1 p1 x2 p2 a r1' adv ih =>
    intro h1 h2 nu1 nu2
    rw [spkLoop, isiLoop]
    simp only [List.map_cons]
    rw [ih B4_headIs_advance h2, B4_advance_time, h1 a r1' rfl]
  | case3 x1 p1 x2 p2 b r2' adv ih =>
    intro h1 h2 nu1 nu2
    rw [spkLoop, isiLoop]
    simp only [List.map_cons]
    rw [ih h1 B4_headIs_advance, B4_advance_time, h2 b r2' rfl]
  | case4 x1 p1 x2 p2 a r1' b r2' hlt adv ih =>
    intro h1 h2 nu1 nu2
    have ha := h1 a r1' rfl
    have hb := h2 b r2' rfl
    rw [spkLoop, isiLoop, if_pos hlt, if_pos (by rw [← ha, ← hb]; exact hlt)]
    simp only [List.map_cons]
    rw [ih B4_headIs_advance h2, B4_advance_time, ha]
  | case5 x1 p1 x2 p2 a r1' b r2' hlt hgt adv ih =>
    intro h1 h2 nu1 nu2
    have ha := h1 a r1' rfl
    have hb := h2 b r2' rfl
    rw [spkLoop, isiLoop, if_neg hlt, if_pos hgt, if_neg (by rw [← ha, ← hb]; exact hlt),
      if_pos (by rw [← ha, ← hb]; exact hgt)]
    simp only [List.map_cons]
    rw [ih h1 B4_headIs_advance, B4_advance_time, hb]
  | case6 x1 p1 x2 p2 a r1' b r2' hlt hgt x1' x2' ih =>
    intro h1 h2 nu1 nu2
    have ha := h1 a r1' rfl
    have hb := h2 b r2' rfl
    rw [spkLoop, isiLoop, if_neg hlt, if_neg hgt, if_neg (by rw [← ha, ← hb]; exact hlt),
      if_neg (by rw [← ha, ← hb]; exact hgt)]
    simp only [List.map_cons]
    rw [ih B4_headIs_tie B4_headIs_tie, ha]

theorem B4_spkInit_prev (t o : List Q) (ts te a0 oa0 oa1 : Q) :
    (spkInit t o ts te a0 oa0 oa1).2.1 = (isiInit t ts te).prev := by
  cases t with
  | nil => rfl
  | cons a r => unfold spkInit isiInit; simp only; split <;> rfl

theorem B4_spkInit_rest (t o : List Q) (ts te a0 oa0 oa1 : Q) :
    (spkInit t o ts te a0 oa0 oa1).2.2.1 = (isiInit t ts te).rest := by
  cases t with
  | nil => rfl
  | cons a r => unfold spkInit isiInit; simp only; split <;> rfl

theorem B4_spkInit_headIs (t o : List Q) (ts te a0 oa0 oa1 : Q) :
    B4_HeadIs (spkInit t o ts te a0 oa0 oa1).1 (spkInit t o ts te a0 oa0 oa1).2.2.1 := by
  cases t with
  | nil => exact B4_headIs_nil _
  | cons a r =>
    unfold spkInit; simp only
    split
    · intro b r' h; simp only at h; cases h; rfl
    · intro b r' h; simp only at h; subst h; rfl

/-- start state of train `t1` against `t2` as `spikeProfile` computes it -/
def B4_init (t1 t2 : List Q) (ts te : Q) : SpkSt × Option Q × List Q × Q :=
  spkInit t1 t2 ts te (auxStart t1 ts) (auxStart t2 ts) (auxEnd t2 te)

/-- environment of the loop as `spikeProfile` builds it -/
def B4_env (t1 t2 : List Q) (ts te m : Q) (ri : Bool) : SpkEnv :=
  ⟨te, m, ri, auxStart t1 ts, auxEnd t1 te, auxStart t2 ts, auxEnd t2 te⟩

/-- result of the loop inside `spikeProfile` -/
def B4_res (t1 t2 : List Q) (ts te m : Q) (ri : Bool) : List (Q × Q × Q) × SpkSt × SpkSt :=
  spkLoop (B4_env t1 t2 ts te m ri) (B4_init t1 t2 ts te).1 (B4_init t1 t2 ts te).2.1
    (B4_init t1 t2 ts te).2.2.1 (B4_init t2 t1 ts te).1 (B4_init t2 t1 ts te).2.1
    (B4_init t2 t1 ts te).2.2.1

theorem B4_spikeProfile_unfold (t1 t2 : List Q) (ts te m : Q) (ri : Bool) :
    spikeProfile t1 t2 ts te m ri =
      if (ts :: (B4_res t1 t2 ts te m ri).1.map (·.1)).getLast? = some te then
        (ts :: (B4_res t1 t2 ts te m ri).1.map (·.1),
         (distAtT (B4_init t1 t2 ts te).1.isi (B4_init t2 t1 ts te).1.isi
            (B4_init t1 t2 ts te).2.2.2 (B4_init t2 t1 ts te).2.2.2 m ri
            :: (B4_res t1 t2 ts te m ri).1.map (·.2.2)).dropLast,
         (B4_res t1 t2 ts te m ri).1.map (·.2.1))
      else
        ((ts :: (B4_res t1 t2 ts te m ri).1.map (·.1)) ++ [te],
         distAtT (B4_init t1 t2 ts te).1.isi (B4_init t2 t1 ts te).1.isi
            (B4_init t1 t2 ts te).2.2.2 (B4_init t2 t1 ts te).2.2.2 m ri
            :: (B4_res t1 t2 ts te m ri).1.map (·.2.2),
         (B4_res t1 t2 ts te m ri).1.map (·.2.1) ++
           [distAtT (B4_res t1 t2 ts te m ri).2.1.isi (B4_res t1 t2 ts te m ri).2.2.isi
              (B4_res t1 t2 ts te m ri).2.1.dtf (B4_res t1 t2 ts te m ri).2.2.dtf m ri]) := rfl

theorem B4_res_times (t1 t2 : List Q) (ts te m : Q) (ri : Bool) :
    (B4_res t1 t2 ts te m ri).1.map (·.1) =
      (isiLoop te 0 (isiInit t1 ts te).prev (isiInit t1 ts te).rest (isiInit t1 ts te).nu
        (isiInit t2 ts te).prev (isiInit t2 ts te).rest (isiInit t2 ts te).nu).map (·.1) := by
  have hT := B4_spkLoop_times (B4_env t1 t2 ts te m ri) te 0
    (B4_init t1 t2 ts te).1 (B4_init t1 t2 ts te).2.1 (B4_init t1 t2 ts te).2.2.1
    (B4_init t2 t1 ts te).1 (B4_init t2 t1 ts te).2.1 (B4_init t2 t1 ts te).2.2.1
    (B4_spkInit_headIs _ _ _ _ _ _ _) (B4_spkInit_headIs _ _ _ _ _ _ _)
    (isiInit t1 ts te).nu (isiInit t2 ts te).nu
  unfold B4_res
  rw [hT]
  unfold B4_init
  rw [B4_spkInit_prev, B4_spkInit_rest, B4_spkInit_prev, B4_spkInit_rest]

/-- Target 1: the SPIKE-profile has the breakpoints of the ISI-profile (holds for all inputs). -/
theorem spikeProfile_breaks (t1 t2 : List Q) (ts te m : Q) (ri : Bool) :
    (spikeProfile t1 t2 ts te m ri).1 = (isiProfile t1 t2 ts te 0).1 := by
  rw [B4_spikeProfile_unfold, B4_res_times]
  unfold isiProfile finishPwc isiEvents
  simp only
  rw [← List.getLast?_map]
  simp only [List.map_cons]
  split <;> rfl

example : (spikeProfile [1, 3] [2, 3] 0 6 0 true).1 = [0, 1, 2, 3, 6] := by decide +kernel

/-! ## Part II — the incremental nearest-spike search is the global minimum -/

theorem B4_dtTo_cons_cons (x y z : Q) (l : List Q) :
    dtTo x (y :: z :: l) = min (qabs (x - y)) (dtTo x (z :: l)) := rfl

theorem B4_dtTo_cons_of_ne (x y : Q) (l : List Q) (hl : l ≠ []) :
    dtTo x (y :: l) = min (qabs (x - y)) (dtTo x l) := by
  cases l with
  | nil => exact absurd rfl hl
  | cons z l' => rfl

theorem B4_dtTo_head_le (x y : Q) (l : List Q) : dtTo x (y :: l) ≤ qabs (x - y) := by
  cases l with
  | nil => exact le_refl _
  | cons z l' => exact min_le_left _ _

/-- a lower bound on all distances is a lower bound on `dtTo` -/
theorem B4_le_dtTo (x d : Q) (l : List Q) (hl : l ≠ []) (h : ∀ w ∈ l, d ≤ qabs (x - w)) :
    d ≤ dtTo x l := by
  induction l with
  | nil => exact absurd rfl hl
  | cons y l ih =>
    cases l with
    | nil => exact h y (by simp)
    | cons z l' =>
      rw [B4_dtTo_cons_cons]
      exact le_min (h y (by simp)) (ih (by simp) (fun w hw => h w (List.mem_cons_of_mem _ hw)))

theorem B4_dtTo_mem (x : Q) (l : List Q) (hl : l ≠ []) : ∃ w ∈ l, dtTo x l = qabs (x - w) := by
  induction l with
  | nil => exact absurd rfl hl
  | cons y l ih =>
    cases l with
    | nil => exact ⟨y, by simp, rfl⟩
    | cons z l' =>
      rw [B4_dtTo_cons_cons]
      rcases le_total (qabs (x - y)) (dtTo x (z :: l')) with h | h
      · exact ⟨y, by simp, min_eq_left h⟩
      · obtain ⟨w, hw, he⟩ := ih (by simp)
        exact ⟨w, List.mem_cons_of_mem _ hw, by rw [min_eq_right h, he]⟩

theorem B4_dtTo_le_of_mem (x w : Q) (l : List Q) (hw : w ∈ l) : dtTo x l ≤ qabs (x - w) := by
  induction l with
  | nil => simp at hw
  | cons y l ih =>
    cases l with
    | nil => simp at hw; rw [hw]; exact le_refl _
    | cons z l' =>
      rw [B4_dtTo_cons_cons]
      rcases List.mem_cons.mp hw with h | h
      · rw [h]; exact min_le_left _ _
      · exact le_trans (min_le_right _ _) (ih h)

theorem B4_dtTo_nonneg (x : Q) (l : List Q) : 0 ≤ dtTo x l := by
  cases l with
  | nil => exact le_refl _
  | cons y l => exact B4_le_dtTo x 0 _ (by simp) (fun w _ => qabs_nonneg _)

/-- a spike of the train itself has distance 0 -/
theorem B4_dtTo_self (x : Q) (l : List Q) (hx : x ∈ l) : dtTo x l = 0 := by
  apply le_antisymm _ (B4_dtTo_nonneg x l)
  have := B4_dtTo_le_of_mem x x l hx
  simpa [qabs] using this

/-- a prefix of points that are all at least as far as `q` can be dropped -/
theorem B4_dtTo_drop_prefix (x q : Q) (l1 l2 : List Q) (h : ∀ w ∈ l1, qabs (x - q) ≤ qabs (x - w)) :
    dtTo x (l1 ++ q :: l2) = dtTo x (q :: l2) := by
  induction l1 with
  | nil => rfl
  | cons w l1 ih =>
    rw [List.cons_append, B4_dtTo_cons_of_ne _ _ _ (by simp), ih (fun v hv => h v (List.mem_cons_of_mem _ hv))]
    exact min_eq_right (le_trans (B4_dtTo_head_le x q l2) (h w (by simp)))

/-- the scan with early exit computes the minimum along a sorted list -/
theorem B4_getMinDistFrom_eq (x a1 : Q) : ∀ (tr : List Q) (z : Q), tr.Pairwise (· ≤ ·) →
    (∀ y ∈ tr, z ≤ y) → (∀ y ∈ tr, y ≤ a1) →
    getMinDistFrom x tr (qabs (x - z)) a1 = dtTo x (z :: (tr ++ [a1])) := by
  intro tr
  induction tr with
  | nil =>
    intro z _ _ _
    unfold getMinDistFrom
    simp only [List.nil_append]
    rw [B4_dtTo_cons_cons, qabs_sub_comm a1 x]
    show (if _ then _ else _) = min _ (qabs (x - a1))
    split
    · next h => exact (min_eq_left (le_of_lt h)).symm
    · next h => exact (min_eq_right (not_lt.mp h)).symm
  | cons y r ih =>
    intro z hs hz h1
    have hs' := List.pairwise_cons.mp hs
    unfold getMinDistFrom
    simp only [List.cons_append]
    rw [B4_dtTo_cons_cons]
    split
    · next h =>
      -- distance grew: `y` is right of `x`, everything later is even farther
      have hzy := hz y (by simp)
      rw [qabs_eq_abs, qabs_eq_abs] at h
      have hxy : x < y := by
        by_contra hc
        have hc := not_lt.mp hc
        rw [abs_of_nonneg (by linarith), abs_of_nonneg (by linarith)] at h
        linarith
      symm
      apply min_eq_left
      apply B4_le_dtTo _ _ _ (by simp)
      intro w hw
      have hyw : y ≤ w := by
        rcases List.mem_cons.mp hw with hw | hw
        · rw [hw]
        · rcases List.mem_append.mp hw with hw | hw
          · exact hs'.1 w hw
          · simp at hw; rw [hw]; exact h1 y (by simp)
      rw [qabs_eq_abs, qabs_eq_abs]
      rw [abs_sub_comm x w, abs_of_nonneg (by linarith : (0:Q) ≤ w - x)]
      rw [abs_sub_comm x y, abs_of_nonneg (by linarith : (0:Q) ≤ y - x)] at h
      linarith
    · next h =>
      rw [ih y hs'.2 hs'.1 (fun w hw => h1 w (List.mem_cons_of_mem _ hw))]
      symm
      apply min_eq_right
      exact le_trans (B4_dtTo_head_le _ _ _) (not_lt.mp h)

theorem B4_minDist_eq (x a0 a1 : Q) (tr : List Q) (hs : tr.Pairwise (· ≤ ·))
    (h0 : ∀ y ∈ tr, a0 ≤ y) (h1 : ∀ y ∈ tr, y ≤ a1) :
    minDist x tr a0 a1 = dtTo x (a0 :: (tr ++ [a1])) :=
  B4_getMinDistFrom_eq x a1 tr a0 hs h0 h1

/-- Target 3: the search started at the train's current index (`fromIdx prev rest`) finds the
    distance to the nearest spike of the whole extended train, provided all skipped spikes are
    `≤ x`. -/
theorem getMinDist_eq_dtTo (x a0 a1 : Q) (o c r : List Q) (hs : o.Pairwise (· < ·))
    (h0 : ∀ y ∈ o, a0 ≤ y) (h1 : ∀ y ∈ o, y ≤ a1) (ho : o = c ++ r) (hc : ∀ y ∈ c, y ≤ x) :
    minDist x (fromIdx c.getLast? r) a0 a1 = dtTo x (a0 :: (o ++ [a1])) := by
  subst ho
  have hs' : (c ++ r).Pairwise (· ≤ ·) := hs.imp le_of_lt
  rcases List.eq_nil_or_concat c with hcn | ⟨c', q, hcq⟩
  · subst hcn
    simp only [List.getLast?_nil, fromIdx, Option.toList_none, List.nil_append] at *
    exact B4_minDist_eq x a0 a1 r hs' h0 h1
  · rw [List.concat_eq_append] at hcq
    subst hcq
    have hfrom : fromIdx (c' ++ [q]).getLast? r = q :: r := by simp [fromIdx]
    rw [hfrom]
    have hsq : (q :: r).Pairwise (· ≤ ·) := by
      rw [List.append_assoc] at hs'
      exact (List.pairwise_append.mp hs').2.1
    rw [B4_minDist_eq x a0 a1 (q :: r) hsq (fun y hy => h0 y (by simp at hy ⊢; tauto))
      (fun y hy => h1 y (by simp at hy ⊢; tauto))]
    have hqx : q ≤ x := hc q (by simp)
    have e : a0 :: ((c' ++ [q] ++ r) ++ [a1]) = (a0 :: c') ++ q :: (r ++ [a1]) := by simp
    have e2 : a0 :: (q :: r ++ [a1]) = [a0] ++ q :: (r ++ [a1]) := by simp
    rw [e, e2, B4_dtTo_drop_prefix, B4_dtTo_drop_prefix]
    · intro w hw
      have hwq : w ≤ q := by
        rcases List.mem_cons.mp hw with hw | hw
        · rw [hw]; exact h0 q (by simp)
        · rw [List.append_assoc] at hs'
          exact (List.pairwise_append.mp hs').2.2 w hw q (by simp)
      rw [qabs_eq_abs, qabs_eq_abs, abs_of_nonneg (by linarith), abs_of_nonneg (by linarith)]
      linarith
    · intro w hw
      simp at hw; subst hw
      have := h0 q (by simp)
      rw [qabs_eq_abs, qabs_eq_abs, abs_of_nonneg (by linarith), abs_of_nonneg (by linarith)]
      linarith

example : minDist 5 (fromIdx ([1, 2] : List Q).getLast? [4, 7, 9]) 0 10
    = dtTo 5 (0 :: ([1, 2, 4, 7, 9] ++ [10])) := by decide +kernel

/-! ## Part III — cursor form of the specification `spikeContrib` -/

theorem B4_lastD_eq {α} (l : List α) (d : α) : lastD l d = l.getLast?.getD d := by
  induction l, d using lastD.induct with
  | case1 d => rfl
  | case2 a d => rfl
  | case3 a b r d ih => rw [lastD, ih]; simp [List.getLast?_cons_cons]

theorem B4_lastD_append_singleton {α} (l : List α) (q d : α) : lastD (l ++ [q]) d = q := by
  rw [B4_lastD_eq]; simp

theorem B4_filter_split_left (P : Q → Bool) (c r : List Q) (hc : ∀ x ∈ c, P x = true)
    (hr : ∀ x ∈ r, P x = false) : (c ++ r).filter P = c := by
  rw [List.filter_append, List.filter_eq_self.mpr hc, List.filter_eq_nil_iff.mpr (by simpa using hr)]
  simp

theorem B4_filter_split_right (P : Q → Bool) (c r : List Q) (hc : ∀ x ∈ c, P x = false)
    (hr : ∀ x ∈ r, P x = true) : (c ++ r).filter P = r := by
  rw [List.filter_append, List.filter_eq_self.mpr hr, List.filter_eq_nil_iff.mpr (by simpa using hc)]
  simp

theorem B4_headD_le (c r : List Q) (q d : Q) (hs : (c ++ q :: r).Pairwise (· < ·)) :
    (c ++ q :: r).headD d ≤ q := by
  cases c with
  | nil => simp
  | cons x c' =>
    simp only [List.cons_append, List.headD_cons]
    exact le_of_lt ((List.pairwise_cons.mp hs).1 q (by simp))

theorem B4_lastD_ge (c r : List Q) (a d : Q) (hs : (c ++ a :: r).Pairwise (· < ·)) :
    a ≤ lastD (c ++ a :: r) d := by
  rw [B4_lastD_eq]
  rcases List.eq_nil_or_concat r with hr | ⟨r', z, hr⟩
  · subst hr; simp
  · rw [List.concat_eq_append] at hr
    subst hr
    have e : c ++ a :: (r' ++ [z]) = (c ++ a :: r') ++ [z] := by simp
    rw [e] at hs ⊢
    simp only [List.getLast?_append, List.getLast?_singleton, Option.some_or, Option.getD_some]
    exact le_of_lt ((List.pairwise_append.mp hs).2.2 a (by simp) z (by simp))

/-- edge-corrected last interval of a train whose last spike is `q` (preceded by `q'`, if any) -/
def B4_endNu (te q : Q) : Option Q → Q
  | some q' => max (te - q) (q - q')
  | none => te - q

/-- interval length of a train in cursor form: `c` the spikes before the current time, `r` those
    after it -/
def B4_nuform (ts te : Q) (c r : List Q) : Q :=
  match c.getLast?, r with
  | none, a :: r' => startNu a ts r'
  | some q, [] => B4_endNu te q c.dropLast.getLast?
  | some q, a :: _ => a - q
  | none, [] => 0

/-- contribution `s_n(t)` of a train in cursor form -/
def B4_vform (eo : List Q) (c r : List Q) (t : Q) : Q :=
  match c.getLast?, r with
  | none, a :: _ => dtTo a eo
  | some q, [] => dtTo q eo
  | some q, a :: _ => (dtTo q eo * (a - t) + dtTo a eo * (t - q)) / (a - q)
  | none, [] => 0

/-- cursor form of `spikeContrib`: `c` the spikes before the time `t`, `r` those after it -/
def B4_cform (eo : List Q) (ts te : Q) (c r : List Q) (t : Q) : Q × Q :=
  (B4_vform eo c r t, B4_nuform ts te c r)

theorem B4_cform_nil_cons (eo : List Q) (ts te : Q) (a : Q) (r' : List Q) (t : Q) :
    B4_cform eo ts te [] (a :: r') t = (dtTo a eo, startNu a ts r') := rfl

theorem B4_cform_snoc_nil (eo : List Q) (ts te : Q) (c' : List Q) (q t : Q) :
    B4_cform eo ts te (c' ++ [q]) [] t =
      (dtTo q eo, B4_endNu te q c'.getLast?) := by
  unfold B4_cform B4_vform B4_nuform; simp

theorem B4_cform_snoc_cons (eo : List Q) (ts te : Q) (c' : List Q) (q a : Q) (r' : List Q) (t : Q) :
    B4_cform eo ts te (c' ++ [q]) (a :: r') t =
      ((dtTo q eo * (a - t) + dtTo a eo * (t - q)) / (a - q), a - q) := by
  unfold B4_cform B4_vform B4_nuform; simp

theorem B4_contrib_true (s o : List Q) (ts te t : Q) :
    spikeContrib s o ts te t true =
      if t < s.headD ts then
        (dtTo (s.headD ts) (extTrain o ts te),
          match s with | a :: b :: _ => max (a - ts) (b - a) | _ => s.headD ts - ts)
      else if lastD s te ≤ t then
        (dtTo (lastD s te) (extTrain o ts te),
          match (s.dropLast).getLast? with
          | some q => max (te - lastD s te) (lastD s te - q) | none => te - lastD s te)
      else
        ((dtTo (lastD (s.filter (· ≤ t)) (s.headD ts)) (extTrain o ts te) *
            ((s.filter (t < ·)).headD (lastD s te) - t) +
          dtTo ((s.filter (t < ·)).headD (lastD s te)) (extTrain o ts te) *
            (t - lastD (s.filter (· ≤ t)) (s.headD ts))) /
          ((s.filter (t < ·)).headD (lastD s te) - lastD (s.filter (· ≤ t)) (s.headD ts)),
         (s.filter (t < ·)).headD (lastD s te) - lastD (s.filter (· ≤ t)) (s.headD ts)) := by
  unfold spikeContrib
  simp only [↓reduceIte, decide_eq_true_eq]
  rfl

theorem B4_contrib_false (s o : List Q) (ts te t : Q) :
    spikeContrib s o ts te t false =
      if t ≤ s.headD ts then
        (dtTo (s.headD ts) (extTrain o ts te),
          match s with | a :: b :: _ => max (a - ts) (b - a) | _ => s.headD ts - ts)
      else if lastD s te < t then
        (dtTo (lastD s te) (extTrain o ts te),
          match (s.dropLast).getLast? with
          | some q => max (te - lastD s te) (lastD s te - q) | none => te - lastD s te)
      else
        ((dtTo (lastD (s.filter (· < t)) (s.headD ts)) (extTrain o ts te) *
            ((s.filter (t ≤ ·)).headD (lastD s te) - t) +
          dtTo ((s.filter (t ≤ ·)).headD (lastD s te)) (extTrain o ts te) *
            (t - lastD (s.filter (· < t)) (s.headD ts))) /
          ((s.filter (t ≤ ·)).headD (lastD s te) - lastD (s.filter (· < t)) (s.headD ts)),
         (s.filter (t ≤ ·)).headD (lastD s te) - lastD (s.filter (· < t)) (s.headD ts)) := by
  unfold spikeContrib
  simp only [Bool.false_eq_true, ↓reduceIte, decide_eq_true_eq]
  rfl

/-- right limit: `c` = spikes `≤ t`, `r` = spikes `> t` -/
theorem B4_contrib_right (s o : List Q) (ts te t : Q) (c r : List Q) (hsplit : s = c ++ r)
    (hs : s.Pairwise (· < ·)) (hne : s ≠ []) (hc : ∀ z ∈ c, z ≤ t) (hr : ∀ z ∈ r, t < z) :
    spikeContrib s o ts te t true = B4_cform (extTrain o ts te) ts te c r t := by
  subst hsplit
  rcases List.eq_nil_or_concat c with hcn | ⟨c', q, hcq⟩
  · subst hcn
    cases r with
    | nil => exact absurd rfl hne
    | cons a r' =>
      have hta : t < a := hr a (by simp)
      rw [B4_cform_nil_cons]
      show spikeContrib (a :: r') o ts te t true = _
      rw [B4_contrib_true, if_pos (show t < (a :: r').headD ts from hta)]
      cases r' <;> rfl
  · rw [List.concat_eq_append] at hcq
    subst hcq
    rw [B4_contrib_true]
    have hqt : q ≤ t := hc q (by simp)
    have hs' : (c' ++ q :: r).Pairwise (· < ·) := by simpa using hs
    have hfirst : ¬ t < (c' ++ [q] ++ r).headD ts := by
      have := B4_headD_le c' r q ts hs'
      rw [show c' ++ [q] ++ r = c' ++ q :: r by simp]
      exact not_lt.mpr (le_trans this hqt)
    rw [if_neg hfirst]
    cases r with
    | nil =>
      rw [B4_cform_snoc_nil]
      simp only [List.append_nil]
      rw [B4_lastD_append_singleton, if_pos hqt, List.dropLast_concat]
      cases c'.getLast? <;> rfl
    | cons a r' =>
      have hta : t < a := hr a (by simp)
      rw [B4_cform_snoc_cons]
      have hlast : ¬ lastD (c' ++ [q] ++ a :: r') te ≤ t :=
        not_le.mpr (lt_of_lt_of_le hta (B4_lastD_ge (c' ++ [q]) r' a te hs))
      have hf1 : (c' ++ [q] ++ a :: r').filter (· ≤ t) = c' ++ [q] :=
        B4_filter_split_left _ _ _ (by simpa using hc) (by simpa using hr)
      have hf2 : (c' ++ [q] ++ a :: r').filter (t < ·) = a :: r' :=
        B4_filter_split_right _ _ _ (by simpa using hc) (by simpa using hr)
      rw [if_neg hlast, hf1, hf2, B4_lastD_append_singleton, List.headD_cons]

/-- left limit: `c` = spikes `< t`, `r` = spikes `≥ t` -/
theorem B4_contrib_left (s o : List Q) (ts te t : Q) (c r : List Q) (hsplit : s = c ++ r)
    (hs : s.Pairwise (· < ·)) (hne : s ≠ []) (hc : ∀ z ∈ c, z < t) (hr : ∀ z ∈ r, t ≤ z) :
    spikeContrib s o ts te t false = B4_cform (extTrain o ts te) ts te c r t := by
  subst hsplit
  rcases List.eq_nil_or_concat c with hcn | ⟨c', q, hcq⟩
  · subst hcn
    cases r with
    | nil => exact absurd rfl hne
    | cons a r' =>
      have hta : t ≤ a := hr a (by simp)
      rw [B4_cform_nil_cons]
      show spikeContrib (a :: r') o ts te t false = _
      rw [B4_contrib_false, if_pos (show t ≤ (a :: r').headD ts from hta)]
      cases r' <;> rfl
  · rw [List.concat_eq_append] at hcq
    subst hcq
    rw [B4_contrib_false]
    have hqt : q < t := hc q (by simp)
    have hs' : (c' ++ q :: r).Pairwise (· < ·) := by simpa using hs
    have hfirst : ¬ t ≤ (c' ++ [q] ++ r).headD ts := by
      have := B4_headD_le c' r q ts hs'
      rw [show c' ++ [q] ++ r = c' ++ q :: r by simp]
      exact not_le.mpr (lt_of_le_of_lt this hqt)
    rw [if_neg hfirst]
    cases r with
    | nil =>
      rw [B4_cform_snoc_nil]
      simp only [List.append_nil]
      rw [B4_lastD_append_singleton, if_pos hqt, List.dropLast_concat]
      cases c'.getLast? <;> rfl
    | cons a r' =>
      have hta : t ≤ a := hr a (by simp)
      rw [B4_cform_snoc_cons]
      have hlast : ¬ lastD (c' ++ [q] ++ a :: r') te < t :=
        not_lt.mpr (le_trans hta (B4_lastD_ge (c' ++ [q]) r' a te hs))
      have hf1 : (c' ++ [q] ++ a :: r').filter (· < t) = c' ++ [q] :=
        B4_filter_split_left _ _ _ (by simpa using hc) (by simpa using hr)
      have hf2 : (c' ++ [q] ++ a :: r').filter (t ≤ ·) = a :: r' :=
        B4_filter_split_right _ _ _ (by simpa using hc) (by simpa using hr)
      rw [if_neg hlast, hf1, hf2, B4_lastD_append_singleton, List.headD_cons]

/-! ## Part IV — the per-train invariant of the scan -/

theorem B4_auxStart_le (s : List Q) (ts : Q) : auxStart s ts ≤ ts := by
  unfold auxStart
  split
  · exact min_le_left _ _
  · exact le_refl _

theorem B4_auxStart_cons (a ts : Q) (r' : List Q) : auxStart (a :: r') ts = a - startNu a ts r' := by
  cases r' with
  | nil => simp [auxStart, startNu]
  | cons b r'' =>
    simp only [auxStart, startNu]
    rcases le_total (a - ts) (b - a) with h | h
    · rw [max_eq_right h, min_eq_right (by linarith)]
    · rw [max_eq_left h, min_eq_left (by linarith)]; ring

theorem B4_te_le_auxEnd (s : List Q) (te : Q) : te ≤ auxEnd s te := by
  induction s using auxEnd.induct with
  | case1 => exact le_refl _
  | case2 a => exact le_refl _
  | case3 p l => exact le_max_left _ _
  | case4 a b c r ih => rw [auxEnd]; exact ih

theorem B4_auxEnd_snoc (c' : List Q) (q te : Q) :
    auxEnd (c' ++ [q]) te =
      q + B4_endNu te q c'.getLast? := by
  induction c' with
  | nil => simp [auxEnd, B4_endNu]
  | cons p c'' ih =>
    cases c'' with
    | nil =>
      simp only [List.cons_append, List.nil_append, auxEnd, List.getLast?_singleton, B4_endNu]
      rcases le_total (te - q) (q - p) with h | h
      · rw [max_eq_right h, max_eq_right (by linarith)]
      · rw [max_eq_left h, max_eq_left (by linarith)]; ring
    | cons p2 c3 =>
      obtain ⟨w, v, hwv⟩ : ∃ w v, c3 ++ [q] = w :: v := by cases c3 <;> simp
      have e : p :: p2 :: c3 ++ [q] = p :: p2 :: w :: v := by simp [← hwv]
      have e' : p2 :: c3 ++ [q] = p2 :: w :: v := by simp [← hwv]
      rw [e, auxEnd, ← e', ih, List.getLast?_cons_cons]

/-- the numeric state of a train as a function of the split `s = c ++ r` (cursor position) -/
def B4_stateOf (s : List Q) (eo : List Q) (ts te : Q) (c r : List Q) : SpkSt :=
  { tp := match c.getLast? with | some q => q | none => auxStart s ts
    tf := match r with | a :: _ => a | [] => auxEnd s te
    dtp := match c.getLast? with
      | some q => dtTo q eo
      | none => (match r with | a :: _ => dtTo a eo | [] => 0)
    dtf := match r with
      | a :: _ => dtTo a eo
      | [] => (match c.getLast? with | some q => dtTo q eo | none => 0)
    isi := B4_nuform ts te c r }

/-- the interpolated contribution the model computes from a state at time `t` -/
def B4_interp (x : SpkSt) (t : Q) : Q := (x.dtp * (x.tf - t) + x.dtf * (t - x.tp)) / x.isi

/-- the model's interpolation of the state belonging to a split equals the cursor form of the
    specification, for `t` strictly after `ts` and the spikes in `c`, not after the spikes in `r` -/
theorem B4_core (s eo : List Q) (ts te t : Q) (c r : List Q) (hsplit : s = c ++ r)
    (hs : s.Pairwise (· < ·)) (hne : s ≠ []) (hc : ∀ z ∈ c, z < t) (hr : ∀ z ∈ r, t ≤ z)
    (hts : ts < t) (hte : t ≤ te) :
    (B4_interp (B4_stateOf s eo ts te c r) t, (B4_stateOf s eo ts te c r).isi)
      = B4_cform eo ts te c r t := by
  subst hsplit
  rcases List.eq_nil_or_concat c with hcn | ⟨c', q, hcq⟩
  · subst hcn
    cases r with
    | nil => exact absurd rfl hne
    | cons a r' =>
      have hta : t ≤ a := hr a (by simp)
      have hpos : 0 < startNu a ts r' := by
        have : 0 < a - ts := by linarith
        cases r' with
        | nil => exact this
        | cons b r'' => exact lt_of_lt_of_le this (le_max_left _ _)
      rw [B4_cform_nil_cons]
      simp only [B4_interp, B4_stateOf, B4_nuform, List.getLast?_nil, List.nil_append,
        B4_auxStart_cons]
      congr 1
      field_simp
      ring
  · rw [List.concat_eq_append] at hcq
    subst hcq
    have hqt : q < t := hc q (by simp)
    cases r with
    | nil =>
      rw [B4_cform_snoc_nil]
      simp only [B4_interp, B4_stateOf, B4_nuform, List.append_nil,
        List.getLast?_append, List.getLast?_singleton, Option.some_or, List.dropLast_concat,
        B4_auxEnd_snoc]
      have hpos : 0 < B4_endNu te q c'.getLast? := by
        have : 0 < te - q := by linarith
        cases c'.getLast? with
        | none => exact this
        | some q' => exact lt_of_lt_of_le this (le_max_left _ _)
      generalize B4_endNu te q c'.getLast? = nu at hpos ⊢
      congr 1
      field_simp
      ring
    | cons a r' =>
      rw [B4_cform_snoc_cons]
      simp only [B4_interp, B4_stateOf, B4_nuform, List.getLast?_append, List.getLast?_singleton,
        Option.some_or]

/-- invariant of one train `s` (against the other train `o`) during the scan, at the last event
    time `cur`: `c` consumed spikes, `r` remaining spikes, `p` the last consumed spike, and the
    numeric state is the one belonging to the split -/
structure B4_Inv (s o : List Q) (ts te cur : Q) (c r : List Q) (p : Option Q) (x : SpkSt) : Prop where
  split : s = c ++ r
  sorted : s.Pairwise (· < ·)
  ne : s ≠ []
  bnd : ∀ z ∈ s, ts ≤ z ∧ z ≤ te
  cle : ∀ z ∈ c, z ≤ cur
  rgt : ∀ z ∈ r, cur < z
  tscur : ts ≤ cur
  plast : p = c.getLast?
  st : x = B4_stateOf s (extTrain o ts te) ts te c r

theorem B4_Inv.stay {s o : List Q} {ts te cur : Q} {c r : List Q} {p : Option Q} {x : SpkSt}
    (h : B4_Inv s o ts te cur c r p x) {a : Q} (hca : cur ≤ a) (hr : ∀ z ∈ r, a < z) :
    B4_Inv s o ts te a c r p x :=
  ⟨h.split, h.sorted, h.ne, h.bnd, fun z hz => le_trans (h.cle z hz) hca, hr,
    le_trans h.tscur hca, h.plast, h.st⟩

/-- both one-sided limits of the contribution of a train that has no spike at `t` -/
theorem B4_Inv.contrib_stay {s o : List Q} {ts te cur : Q} {c r : List Q} {p : Option Q} {x : SpkSt}
    (h : B4_Inv s o ts te cur c r p x) (t : Q) (hct : cur < t) (hr : ∀ z ∈ r, t < z) (hte : t ≤ te)
    (right : Bool) : spikeContrib s o ts te t right = (B4_interp x t, x.isi) := by
  have hcl : ∀ z ∈ c, z < t := fun z hz => lt_of_le_of_lt (h.cle z hz) hct
  have hcore := B4_core s (extTrain o ts te) ts te t c r h.split h.sorted h.ne hcl
    (fun z hz => le_of_lt (hr z hz)) (lt_of_le_of_lt h.tscur hct) hte
  rw [h.st, hcore]
  cases right
  · exact B4_contrib_left s o ts te t c r h.split h.sorted h.ne hcl (fun z hz => le_of_lt (hr z hz))
  · exact B4_contrib_right s o ts te t c r h.split h.sorted h.ne (fun z hz => le_of_lt (hcl z hz)) hr

theorem B4_interp_at_tf (x : SpkSt) : B4_interp x x.tf = x.dtf * (x.tf - x.tp) / x.isi := by
  unfold B4_interp; rw [sub_self, mul_zero, zero_add]

theorem B4_stateOf_tf_cons (s eo : List Q) (ts te : Q) (c : List Q) (a : Q) (r' : List Q) :
    (B4_stateOf s eo ts te c (a :: r')).tf = a := rfl

theorem B4_stateOf_dtf_cons (s eo : List Q) (ts te : Q) (c : List Q) (a : Q) (r' : List Q) :
    (B4_stateOf s eo ts te c (a :: r')).dtf = dtTo a eo := rfl

/-- left limit of the contribution of the advancing train at its spike `a` -/
theorem B4_Inv.contrib_left_adv {s o : List Q} {ts te cur : Q} {c r' : List Q} {a : Q}
    {p : Option Q} {x : SpkSt} (h : B4_Inv s o ts te cur c (a :: r') p x) :
    spikeContrib s o ts te a false = (x.dtf * (x.tf - x.tp) / x.isi, x.isi) := by
  have hca : cur < a := h.rgt a (by simp)
  have hcl : ∀ z ∈ c, z < a := fun z hz => lt_of_le_of_lt (h.cle z hz) hca
  have hra : ∀ z ∈ a :: r', a ≤ z := by
    intro z hz
    rcases List.mem_cons.mp hz with hz | hz
    · rw [hz]
    · have := h.sorted; rw [h.split] at this
      exact le_of_lt ((List.pairwise_cons.mp (List.pairwise_append.mp this).2.1).1 z hz)
  have hate : a ≤ te := (h.bnd a (by rw [h.split]; simp)).2
  have hcore := B4_core s (extTrain o ts te) ts te a c (a :: r') h.split h.sorted h.ne hcl hra
    (lt_of_le_of_lt h.tscur hca) hate
  have htf : x.tf = a := by rw [h.st]; rfl
  rw [← B4_interp_at_tf, htf, h.st, hcore]
  exact B4_contrib_left s o ts te a c (a :: r') h.split h.sorted h.ne hcl hra

/-- the interval length of a train right after its spike `a` -/
def B4_isiAfter (p : Option Q) (a : Q) (r' : List Q) (te : Q) : Q :=
  match r' with | b :: _ => b - a | [] => nuAfter p a [] te

theorem B4_nuAfter_nil (p : Option Q) (a te : Q) : nuAfter p a [] te = B4_endNu te a p := by
  cases p <;> rfl

/-- right limit of the contribution of the advancing train at its spike `a` -/
theorem B4_Inv.contrib_right_adv {s o : List Q} {ts te cur : Q} {c r' : List Q} {a : Q}
    {p : Option Q} {x : SpkSt} (h : B4_Inv s o ts te cur c (a :: r') p x) :
    spikeContrib s o ts te a true = (x.dtf, B4_isiAfter p a r' te) := by
  have hca : cur < a := h.rgt a (by simp)
  have hsplit : s = (c ++ [a]) ++ r' := by rw [h.split]; simp
  have hs := h.sorted
  rw [h.split] at hs
  have hsa := List.pairwise_cons.mp (List.pairwise_append.mp hs).2.1
  have hcl : ∀ z ∈ c ++ [a], z ≤ a := by
    intro z hz
    rcases List.mem_append.mp hz with hz | hz
    · exact le_of_lt (lt_of_le_of_lt (h.cle z hz) hca)
    · simp at hz; rw [hz]
  rw [B4_contrib_right s o ts te a (c ++ [a]) r' hsplit h.sorted h.ne hcl hsa.1]
  have hdtf : x.dtf = dtTo a (extTrain o ts te) := by rw [h.st]; rfl
  rw [hdtf]
  cases r' with
  | nil => rw [B4_cform_snoc_nil, h.plast]; simp only [B4_isiAfter, B4_nuAfter_nil]
  | cons b r'' =>
    rw [B4_cform_snoc_cons]
    have hab : a < b := hsa.1 b (by simp)
    simp only [B4_isiAfter, sub_self, mul_zero, add_zero]
    congr 1
    have : b - a ≠ 0 := by linarith
    field_simp

/-- the nearest-spike search as the scan calls it (from the other train's current index) gives
    the distance to the other extended train -/
theorem B4_minDist_split (o : List Q) (ts te : Q) (cy ry : List Q) (b : Q) (hsplit : o = cy ++ ry)
    (hs : o.Pairwise (· < ·)) (hb : ∀ z ∈ o, ts ≤ z ∧ z ≤ te) (hc : ∀ z ∈ cy, z ≤ b) :
    minDist b (fromIdx cy.getLast? ry) (auxStart o ts) (auxEnd o te) = dtTo b (extTrain o ts te) :=
  getMinDist_eq_dtTo b (auxStart o ts) (auxEnd o te) o cy ry hs
    (fun z hz => le_trans (B4_auxStart_le o ts) (hb z hz).1)
    (fun z hz => le_trans (hb z hz).2 (B4_te_le_auxEnd o te)) hsplit hc

/-- state of the advancing train after one iteration -/
theorem B4_advance_state (s eo : List Q) (ts te m : Q) (ri : Bool) (c : List Q) (a : Q) (r' : List Q)
    (p : Option Q) (y : SpkSt) (yfrom : List Q) (y0 y1 : Q) (hp : p = c.getLast?)
    (hmd : ∀ b r'', r' = b :: r'' → minDist b yfrom y0 y1 = dtTo b eo) :
    (spkAdvance te m ri (B4_stateOf s eo ts te c (a :: r')) p a r' y yfrom (auxEnd s te) y0 y1).1
      = B4_stateOf s eo ts te (c ++ [a]) r' := by
  cases r' with
  | nil =>
    simp only [spkAdvance, B4_stateOf, B4_nuform, List.getLast?_append, List.getLast?_singleton,
      Option.some_or, List.dropLast_concat, B4_nuAfter_nil, hp]
  | cons b r'' =>
    simp only [spkAdvance, B4_stateOf, B4_nuform, List.getLast?_append, List.getLast?_singleton,
      Option.some_or, hmd b r'' rfl]

/-- state of a train after the tie branch (its spike `a` is also a spike of the other train) -/
theorem B4_tie_state (s eo : List Q) (ts te : Q) (c : List Q) (a : Q) (r' : List Q)
    (p : Option Q) (ofrom : List Q) (o0 o1 : Q) (hp : p = c.getLast?) (ha : dtTo a eo = 0)
    (hmd : ∀ b r'', r' = b :: r'' → minDist b ofrom o0 o1 = dtTo b eo) :
    spkTie te (B4_stateOf s eo ts te c (a :: r')) p a r' ofrom (auxEnd s te) o0 o1
      = B4_stateOf s eo ts te (c ++ [a]) r' := by
  cases r' with
  | nil =>
    simp only [spkTie, B4_stateOf, B4_nuform, List.getLast?_append, List.getLast?_singleton,
      Option.some_or, List.dropLast_concat, B4_nuAfter_nil, hp, ha]
  | cons b r'' =>
    simp only [spkTie, B4_stateOf, B4_nuform, List.getLast?_append, List.getLast?_singleton,
      Option.some_or, hmd b r'' rfl, ha]

/-- structural part of advancing the cursor over the spike `a` -/
theorem B4_Inv.advance {s o : List Q} {ts te cur : Q} {c r' : List Q} {a : Q}
    {p : Option Q} {x : SpkSt} (h : B4_Inv s o ts te cur c (a :: r') p x) {x' : SpkSt}
    (hx' : x' = B4_stateOf s (extTrain o ts te) ts te (c ++ [a]) r') :
    B4_Inv s o ts te a (c ++ [a]) r' (some a) x' := by
  have hca : cur < a := h.rgt a (by simp)
  have hs := h.sorted
  rw [h.split] at hs
  have hsa := List.pairwise_cons.mp (List.pairwise_append.mp hs).2.1
  refine ⟨by rw [h.split]; simp, h.sorted, h.ne, h.bnd, ?_, hsa.1, le_of_lt (lt_of_le_of_lt h.tscur hca),
    by simp, hx'⟩
  intro z hz
  rcases List.mem_append.mp hz with hz | hz
  · exact le_of_lt (lt_of_le_of_lt (h.cle z hz) hca)
  · simp at hz; rw [hz]

/-- the start-edge initialisation establishes the invariant (at `cur = ts`), and the initial `s`
    value is the right limit of the contribution at `ts` — unless the train is a single spike on
    `ts` (known finding F9) -/
theorem B4_init_inv (t o : List Q) (ts te : Q) (hv : ValidNE t ts te) (hvo : ValidNE o ts te)
    (hno : ¬ OneSpikeOnStart t ts) :
    ∃ c, B4_Inv t o ts te ts c (B4_init t o ts te).2.2.1 (B4_init t o ts te).2.1 (B4_init t o ts te).1 ∧
      (B4_init t o ts te).2.2.2 = B4_vform (extTrain o ts te) c (B4_init t o ts te).2.2.1 ts := by
  obtain ⟨hne, hs, hb⟩ := hv
  obtain ⟨_, hso, hbo⟩ := hvo
  have hmd : ∀ x, minDist x o (auxStart o ts) (auxEnd o te) = dtTo x (extTrain o ts te) := by
    intro x
    have := B4_minDist_split o ts te [] o x rfl hso hbo (by simp)
    simpa [fromIdx] using this
  cases t with
  | nil => exact absurd rfl hne
  | cons a r =>
    by_cases hat : a > ts
    · refine ⟨[], ⟨?_, hs, hne, hb, by simp, ?_, le_refl _, ?_, ?_⟩, ?_⟩
      · simp [B4_init, spkInit, hat]
      · simp only [B4_init, spkInit, hat, if_true]; exact head_lt_all hs hat
      · simp [B4_init, spkInit, hat]
      · have hne' : a ≠ ts := ne_of_gt hat
        simp only [B4_init, spkInit, hat, if_true, if_neg hne', hmd, B4_stateOf, B4_nuform,
          List.getLast?_nil]
        cases r <;> rfl
      · simp only [B4_init, spkInit, hat, if_true, hmd, B4_vform, List.getLast?_nil]
    · have hats : a = ts := le_antisymm (not_lt.mp hat) (hb a (by simp)).1
      subst hats
      cases r with
      | nil => exact absurd rfl hno
      | cons b r'' =>
        have hab : a < b := (List.pairwise_cons.mp hs).1 b (by simp)
        refine ⟨[a], ⟨?_, hs, hne, hb, by simp, ?_, le_refl _, ?_, ?_⟩, ?_⟩
        · simp [B4_init, spkInit]
        · simp only [B4_init, spkInit, gt_iff_lt, lt_self_iff_false, if_false]
          exact (List.pairwise_cons.mp hs).1
        · simp [B4_init, spkInit]
        · simp only [B4_init, spkInit, gt_iff_lt, lt_self_iff_false, if_false, if_true, hmd,
            B4_stateOf, B4_nuform, List.getLast?_singleton]
        · simp only [B4_init, spkInit, gt_iff_lt, lt_self_iff_false, if_false, if_true, hmd,
            B4_vform, List.getLast?_singleton]
          have : b - a ≠ 0 := by linarith
          field_simp
          ring

/-! ## Part V — the loop computes the specification at every event -/

theorem B4_spec_symm (s1 s2 : List Q) (ts te m : Q) (ri : Bool) (t : Q) (right : Bool) :
    spikeSpec s1 s2 ts te m ri t right = spikeSpec s2 s1 ts te m ri t right := by
  unfold spikeSpec; exact distAtT_symm _ _ _ _ _ _

theorem B4_distAtT_zero (i1 i2 m : Q) (ri : Bool) : distAtT i1 i2 0 0 m ri = 0 := by
  unfold distAtT; cases ri <;> simp

theorem B4_Inv.rsorted {s o : List Q} {ts te cur : Q} {c r : List Q} {p : Option Q} {x : SpkSt}
    (h : B4_Inv s o ts te cur c r p x) : r.Pairwise (· < ·) := by
  have := h.sorted; rw [h.split] at this
  exact (List.pairwise_append.mp this).2.1

theorem B4_Inv.head_mem {s o : List Q} {ts te cur : Q} {c r' : List Q} {a : Q} {p : Option Q}
    {x : SpkSt} (h : B4_Inv s o ts te cur c (a :: r') p x) : a ∈ s := by
  rw [h.split]; simp

theorem B4_Inv.tf_eq {s o : List Q} {ts te cur : Q} {c r' : List Q} {a : Q} {p : Option Q}
    {x : SpkSt} (h : B4_Inv s o ts te cur c (a :: r') p x) : x.tf = a := by
  rw [h.st]; rfl

theorem B4_Inv.dtf_eq {s o : List Q} {ts te cur : Q} {c r' : List Q} {a : Q} {p : Option Q}
    {x : SpkSt} (h : B4_Inv s o ts te cur c (a :: r') p x) : x.dtf = dtTo a (extTrain o ts te) := by
  rw [h.st]; rfl

theorem B4_mem_extTrain (o : List Q) (ts te a : Q) (h : a ∈ o) : a ∈ extTrain o ts te := by
  unfold extTrain; simp [h]

/-- what one iteration of an advance branch emits: the event time and the two one-sided limits
    of the specification -/
theorem B4_advance_ok {s o : List Q} {ts te cur : Q} {c r' : List Q} {a : Q} {p : Option Q}
    {x : SpkSt} {cy ry : List Q} {py : Option Q} {y : SpkSt} (m : Q) (ri : Bool)
    (hx : B4_Inv s o ts te cur c (a :: r') p x) (hy : B4_Inv o s ts te cur cy ry py y)
    (hya : ∀ z ∈ ry, a < z) (yfrom : List Q) (xe y0 y1 : Q) :
    (spkAdvance te m ri x p a r' y yfrom xe y0 y1).2
      = (a, spikeSpec s o ts te m ri a false, spikeSpec s o ts te m ri a true) := by
  have hca : cur < a := hx.rgt a (by simp)
  have hate : a ≤ te := (hx.bnd a hx.head_mem).2
  have htf := hx.tf_eq
  have e1 : (spkAdvance te m ri x p a r' y yfrom xe y0 y1).2.1 = x.tf := rfl
  have e2 : (spkAdvance te m ri x p a r' y yfrom xe y0 y1).2.2.1
      = distAtT x.isi y.isi (x.dtf * (x.tf - x.tp) / x.isi) (B4_interp y x.tf) m ri := rfl
  have e3 : (spkAdvance te m ri x p a r' y yfrom xe y0 y1).2.2.2
      = distAtT (B4_isiAfter p a r' te) y.isi x.dtf (B4_interp y x.tf) m ri := by
    cases r' with
    | nil => rfl
    | cons b r'' => simp only [spkAdvance, B4_isiAfter, htf]; rfl
  refine Prod.ext ?_ (Prod.ext ?_ ?_)
  · rw [e1, htf]
  · rw [e2]; unfold spikeSpec
    rw [hx.contrib_left_adv, hy.contrib_stay a hca hya hate false, htf]
  · rw [e3]; unfold spikeSpec
    rw [hx.contrib_right_adv, hy.contrib_stay a hca hya hate true, htf]

/-- both one-sided limits at a time that is a spike of both trains are zero -/
theorem B4_tie_ok {s o : List Q} {ts te cur : Q} {c r' : List Q} {a : Q} {p : Option Q}
    {x : SpkSt} {cy ry' : List Q} {py : Option Q} {y : SpkSt} (m : Q) (ri : Bool)
    (hx : B4_Inv s o ts te cur c (a :: r') p x) (hy : B4_Inv o s ts te cur cy (a :: ry') py y) :
    spikeSpec s o ts te m ri a false = 0 ∧ spikeSpec s o ts te m ri a true = 0 := by
  have hx0 : x.dtf = 0 := by
    rw [hx.dtf_eq]; exact B4_dtTo_self a _ (B4_mem_extTrain o ts te a hy.head_mem)
  have hy0 : y.dtf = 0 := by
    rw [hy.dtf_eq]; exact B4_dtTo_self a _ (B4_mem_extTrain s ts te a hx.head_mem)
  unfold spikeSpec
  rw [hx.contrib_left_adv, hy.contrib_left_adv, hx.contrib_right_adv, hy.contrib_right_adv, hx0, hy0]
  simp only [zero_mul, zero_div]
  exact ⟨B4_distAtT_zero _ _ _ _, B4_distAtT_zero _ _ _ _⟩

/-- `minDist` hypothesis of `B4_advance_state`, obtained from the other train's invariant -/
theorem B4_Inv.minDist_from {o s : List Q} {ts te cur : Q} {cy ry : List Q} {py : Option Q}
    {y : SpkSt} (hy : B4_Inv o s ts te cur cy ry py y) (b : Q) (hb : cur ≤ b) :
    minDist b (fromIdx py ry) (auxStart o ts) (auxEnd o te) = dtTo b (extTrain o ts te) := by
  rw [hy.plast]
  exact B4_minDist_split o ts te cy ry b hy.split hy.sorted hy.bnd
    (fun z hz => le_trans (hy.cle z hz) hb)

/-- one advance iteration: the invariants are re-established at the new event time and the
    emitted triple is (time, `S(t⁻)`, `S(t⁺)`) -/
theorem B4_step {s o : List Q} {ts te cur : Q} {c r' : List Q} {a : Q} {p : Option Q}
    {x : SpkSt} {cy ry : List Q} {py : Option Q} {y : SpkSt} (m : Q) (ri : Bool)
    (hx : B4_Inv s o ts te cur c (a :: r') p x) (hy : B4_Inv o s ts te cur cy ry py y)
    (hya : ∀ z ∈ ry, a < z) :
    B4_Inv s o ts te a (c ++ [a]) r' (some a)
      (spkAdvance te m ri x p a r' y (fromIdx py ry) (auxEnd s te) (auxStart o ts) (auxEnd o te)).1 ∧
    B4_Inv o s ts te a cy ry py y ∧
    (spkAdvance te m ri x p a r' y (fromIdx py ry) (auxEnd s te) (auxStart o ts) (auxEnd o te)).2
      = (a, spikeSpec s o ts te m ri a false, spikeSpec s o ts te m ri a true) := by
  have hca : cur < a := hx.rgt a (by simp)
  refine ⟨hx.advance ?_, hy.stay (le_of_lt hca) hya, B4_advance_ok m ri hx hy hya _ _ _ _⟩
  rw [hx.st]
  exact B4_advance_state s _ ts te m ri c a r' p y _ _ _ hx.plast
    (fun b r'' hb => hy.minDist_from b
      (le_of_lt (lt_trans hca ((List.pairwise_cons.mp hx.rsorted).1 b (by simp [hb])))))

/-- the tie iteration: both invariants are re-established at the shared spike time -/
theorem B4_step_tie {s o : List Q} {ts te cur : Q} {c r' : List Q} {a : Q} {p : Option Q}
    {x : SpkSt} {cy ry' : List Q} {py : Option Q} {y : SpkSt}
    (hx : B4_Inv s o ts te cur c (a :: r') p x) (hy : B4_Inv o s ts te cur cy (a :: ry') py y) :
    B4_Inv s o ts te a (c ++ [a]) r' (some a)
      (spkTie te x p a r' (a :: ry') (auxEnd s te) (auxStart o ts) (auxEnd o te)) := by
  have hca : cur < a := hx.rgt a (by simp)
  refine hx.advance ?_
  rw [hx.st]
  refine B4_tie_state s _ ts te c a r' p _ _ _ hx.plast
    (B4_dtTo_self a _ (B4_mem_extTrain o ts te a hy.head_mem)) ?_
  intro b r'' hb
  have hab : a < b := (List.pairwise_cons.mp hx.rsorted).1 b (by simp [hb])
  have := B4_minDist_split o ts te (cy ++ [a]) ry' b (by rw [hy.split]; simp) hy.sorted hy.bnd (by
    intro z hz
    rcases List.mem_append.mp hz with hz | hz
    · exact le_of_lt (lt_of_le_of_lt (hy.cle z hz) (lt_trans hca hab))
    · simp at hz; rw [hz]; exact le_of_lt hab)
  simpa [fromIdx] using this

/-- an emitted event carries the left and right limit of the specification at its time -/
def B4_EvOK (s1 s2 : List Q) (ts te m : Q) (ri : Bool) (ev : Q × Q × Q) : Prop :=
  ev.2.1 = spikeSpec s1 s2 ts te m ri ev.1 false ∧ ev.2.2 = spikeSpec s1 s2 ts te m ri ev.1 true

/-- The loop of `spike_distance_python` computes the definition: every emitted event carries
    `S(t⁻)` and `S(t⁺)`, and the final states are those of the fully consumed trains. -/
theorem B4_spkLoop_ok (s1 s2 : List Q) (ts te m : Q) (ri : Bool) :
    ∀ (x1 : SpkSt) (p1 : Option Q) (r1 : List Q) (x2 : SpkSt) (p2 : Option Q) (r2 : List Q)
      (cur : Q) (c1 c2 : List Q),
      B4_Inv s1 s2 ts te cur c1 r1 p1 x1 → B4_Inv s2 s1 ts te cur c2 r2 p2 x2 →
      (∀ ev ∈ (spkLoop (B4_env s1 s2 ts te m ri) x1 p1 r1 x2 p2 r2).1, B4_EvOK s1 s2 ts te m ri ev) ∧
      (spkLoop (B4_env s1 s2 ts te m ri) x1 p1 r1 x2 p2 r2).2.1
        = B4_stateOf s1 (extTrain s2 ts te) ts te s1 [] ∧
      (spkLoop (B4_env s1 s2 ts te m ri) x1 p1 r1 x2 p2 r2).2.2
        = B4_stateOf s2 (extTrain s1 ts te) ts te s2 [] := by
  intro x1 p1 r1 x2 p2 r2
  induction x1, p1, r1, x2, p2, r2 using spkLoop.induct (B4_env s1 s2 ts te m ri) with
  | case1 x1 p1 x2 p2 =>
    intro cur c1 c2 h1 h2
    rw [spkLoop]
    have e1 : c1 = s1 := by have := h1.split; simp at this; exact this.symm
    have e2 : c2 = s2 := by have := h2.split; simp at this; exact this.symm
    refine ⟨by simp, ?_, ?_⟩
    · rw [h1.st, e1]
    · rw [h2.st, e2]
  | case2 x1 p1 x2 p2 a r1' adv ih =>
    intro cur c1 c2 h1 h2
    obtain ⟨g1, g2, hev⟩ := B4_step m ri h1 h2 (by simp)
    obtain ⟨ih1, ih2⟩ := ih a (c1 ++ [a]) c2 g1 g2
    rw [spkLoop]
    refine ⟨?_, ih2⟩
    intro ev hev'
    rcases List.mem_cons.mp hev' with h | h
    · rw [h]
      show B4_EvOK s1 s2 ts te m ri (spkAdvance te m ri x1 p1 a r1' x2 (fromIdx p2 []) (auxEnd s1 te)
        (auxStart s2 ts) (auxEnd s2 te)).2
      rw [hev]; exact ⟨rfl, rfl⟩
    · exact ih1 ev h
  | case3 x1 p1 x2 p2 b r2' adv ih =>
    intro cur c1 c2 h1 h2
    obtain ⟨g2, g1, hev⟩ := B4_step m ri h2 h1 (by simp)
    obtain ⟨ih1, ih2⟩ := ih b c1 (c2 ++ [b]) g1 g2
    rw [spkLoop]
    refine ⟨?_, ih2⟩
    intro ev hev'
    rcases List.mem_cons.mp hev' with h | h
    · rw [h]
      show B4_EvOK s1 s2 ts te m ri (spkAdvance te m ri x2 p2 b r2' x1 (fromIdx p1 []) (auxEnd s2 te)
        (auxStart s1 ts) (auxEnd s1 te)).2
      rw [hev]; exact ⟨B4_spec_symm _ _ _ _ _ _ _ _, B4_spec_symm _ _ _ _ _ _ _ _⟩
    · exact ih1 ev h
  | case4 x1 p1 x2 p2 a r1' b r2' hlt adv ih =>
    intro cur c1 c2 h1 h2
    rw [h1.tf_eq, h2.tf_eq] at hlt
    obtain ⟨g1, g2, hev⟩ := B4_step m ri h1 h2 (head_lt_all h2.rsorted hlt)
    obtain ⟨ih1, ih2⟩ := ih a (c1 ++ [a]) c2 g1 g2
    rw [spkLoop, if_pos (by rw [h1.tf_eq, h2.tf_eq]; exact hlt)]
    refine ⟨?_, ih2⟩
    intro ev hev'
    rcases List.mem_cons.mp hev' with h | h
    · rw [h]
      show B4_EvOK s1 s2 ts te m ri (spkAdvance te m ri x1 p1 a r1' x2 (fromIdx p2 (b :: r2'))
        (auxEnd s1 te) (auxStart s2 ts) (auxEnd s2 te)).2
      rw [hev]; exact ⟨rfl, rfl⟩
    · exact ih1 ev h
  | case5 x1 p1 x2 p2 a r1' b r2' hlt hgt adv ih =>
    intro cur c1 c2 h1 h2
    have hlt' := hlt
    have hgt' := hgt
    rw [h1.tf_eq, h2.tf_eq] at hlt hgt
    obtain ⟨g2, g1, hev⟩ := B4_step m ri h2 h1 (head_lt_all h1.rsorted hgt)
    obtain ⟨ih1, ih2⟩ := ih b c1 (c2 ++ [b]) g1 g2
    rw [spkLoop, if_neg hlt', if_pos hgt']
    refine ⟨?_, ih2⟩
    intro ev hev'
    rcases List.mem_cons.mp hev' with h | h
    · rw [h]
      show B4_EvOK s1 s2 ts te m ri (spkAdvance te m ri x2 p2 b r2' x1 (fromIdx p1 (a :: r1'))
        (auxEnd s2 te) (auxStart s1 ts) (auxEnd s1 te)).2
      rw [hev]; exact ⟨B4_spec_symm _ _ _ _ _ _ _ _, B4_spec_symm _ _ _ _ _ _ _ _⟩
    · exact ih1 ev h
  | case6 x1 p1 x2 p2 a r1' b r2' hlt hgt x1' x2' ih =>
    intro cur c1 c2 h1 h2
    have hlt' := hlt
    have hgt' := hgt
    rw [h1.tf_eq, h2.tf_eq] at hlt hgt
    have hEq : b = a := le_antisymm (not_lt.mp hlt) (not_lt.mp hgt)
    subst hEq
    obtain ⟨ih1, ih2⟩ := ih b (c1 ++ [b]) (c2 ++ [b]) (B4_step_tie h1 h2) (B4_step_tie h2 h1)
    rw [spkLoop, if_neg hlt', if_neg hgt']
    refine ⟨?_, ih2⟩
    intro ev hev'
    rcases List.mem_cons.mp hev' with h | h
    · rw [h, h1.tf_eq]
      obtain ⟨z1, z2⟩ := B4_tie_ok m ri h1 h2
      exact ⟨z1.symm, z2.symm⟩
    · exact ih1 ev h

/-! ## Part VI — assembling the profile: the main theorem -/

theorem B4_zip_map_fst {β} (g : Q → β) (xs : List Q) :
    (xs.zip xs.tail).map (fun p => g p.1) = xs.dropLast.map g := by
  induction xs with
  | nil => rfl
  | cons a r ih =>
    cases r with
    | nil => rfl
    | cons b r' =>
      simp only [List.tail_cons, List.zip_cons_cons, List.map_cons, List.dropLast_cons_cons] at ih ⊢
      rw [ih]

theorem B4_zip_map_snd {β} (g : Q → β) (xs : List Q) :
    (xs.zip xs.tail).map (fun p => g p.2) = xs.tail.map g := by
  induction xs with
  | nil => rfl
  | cons a r ih =>
    cases r with
    | nil => rfl
    | cons b r' =>
      simp only [List.tail_cons, List.zip_cons_cons, List.map_cons] at ih ⊢
      rw [ih]

theorem B4_specProfile_eq (s1 s2 : List Q) (ts te m : Q) (ri : Bool) (xs : List Q) :
    spikeSpecProfile s1 s2 ts te m ri xs =
      (xs.dropLast.map (fun t => spikeSpec s1 s2 ts te m ri t true),
       xs.tail.map (fun t => spikeSpec s1 s2 ts te m ri t false)) := by
  unfold spikeSpecProfile
  rw [B4_zip_map_fst (fun t => spikeSpec s1 s2 ts te m ri t true),
    B4_zip_map_snd (fun t => spikeSpec s1 s2 ts te m ri t false)]

/-- contribution of a fully consumed train at a time after its last spike (left limit) -/
theorem B4_final_contrib (s o : List Q) (ts te t : Q) (hs : s.Pairwise (· < ·)) (hne : s ≠ [])
    (hlt : ∀ z ∈ s, z < t) :
    spikeContrib s o ts te t false =
      ((B4_stateOf s (extTrain o ts te) ts te s []).dtf,
       (B4_stateOf s (extTrain o ts te) ts te s []).isi) := by
  rw [B4_contrib_left s o ts te t s [] (by simp) hs hne hlt (by simp)]
  rcases List.eq_nil_or_concat s with h | ⟨c', q, h⟩
  · exact absurd h hne
  · rw [List.concat_eq_append] at h
    subst h
    rw [B4_cform_snoc_nil]
    simp [B4_stateOf, B4_nuform]

/-- value at the start edge: `y0 = S(ts⁺)` -/
theorem B4_y0_ok (t1 t2 : List Q) (ts te m : Q) (ri : Bool)
    (h1 : ValidNE t1 ts te) (h2 : ValidNE t2 ts te)
    (hn1 : ¬ OneSpikeOnStart t1 ts) (hn2 : ¬ OneSpikeOnStart t2 ts) :
    distAtT (B4_init t1 t2 ts te).1.isi (B4_init t2 t1 ts te).1.isi
      (B4_init t1 t2 ts te).2.2.2 (B4_init t2 t1 ts te).2.2.2 m ri
      = spikeSpec t1 t2 ts te m ri ts true := by
  obtain ⟨c1, i1, v1⟩ := B4_init_inv t1 t2 ts te h1 h2 hn1
  obtain ⟨c2, i2, v2⟩ := B4_init_inv t2 t1 ts te h2 h1 hn2
  unfold spikeSpec
  rw [B4_contrib_right t1 t2 ts te ts c1 _ i1.split i1.sorted i1.ne i1.cle i1.rgt,
    B4_contrib_right t2 t1 ts te ts c2 _ i2.split i2.sorted i2.ne i2.cle i2.rgt]
  simp only [B4_cform]
  rw [← v1, ← v2]
  have e1 : (B4_init t1 t2 ts te).1.isi = B4_nuform ts te c1 (B4_init t1 t2 ts te).2.2.1 := by
    conv_lhs => rw [i1.st]
    rfl
  have e2 : (B4_init t2 t1 ts te).1.isi = B4_nuform ts te c2 (B4_init t2 t1 ts te).2.2.1 := by
    conv_lhs => rw [i2.st]
    rfl
  rw [← e1, ← e2]

/-- if `te` is not the last event time, every spike lies strictly before `te` -/
theorem B4_all_lt_te (t1 t2 : List Q) (ts te m : Q) (ri : Bool) (hlt : ts < te)
    (h1 : ValidNE t1 ts te) (h2 : ValidNE t2 ts te)
    (hl : ¬ (ts :: (B4_res t1 t2 ts te m ri).1.map (·.1)).getLast? = some te) :
    (∀ z ∈ t1, z < te) ∧ (∀ z ∈ t2, z < te) := by
  obtain ⟨hs, hm⟩ := isiEvents_times t1 t2 ts te 0 h1 h2
  have hT : (isiEvents t1 t2 ts te 0).map (·.1) = ts :: (B4_res t1 t2 ts te m ri).1.map (·.1) := by
    rw [B4_res_times]; rfl
  rw [hT] at hs hm
  have hb : ∀ x ∈ ts :: (B4_res t1 t2 ts te m ri).1.map (·.1), x ≤ te := by
    intro x hx
    rcases (hm x).mp hx with hx | ⟨_, hx | hx⟩
    · rw [hx]; exact le_of_lt hlt
    · exact (h1.2.2 x hx).2
    · exact (h2.2.2 x hx).2
  rcases getLast?_eq_some_of_sorted_max _ te hs hb (by simp) with h | h
  · exact absurd h hl
  · constructor
    · intro z hz
      rcases eq_or_lt_of_le (h1.2.2 z hz).1 with he | hlt'
      · rw [← he]; exact hlt
      · exact h z ((hm z).mpr (Or.inr ⟨hlt', Or.inl hz⟩))
    · intro z hz
      rcases eq_or_lt_of_le (h2.2.2 z hz).1 with he | hlt'
      · rw [← he]; exact hlt
      · exact h z ((hm z).mpr (Or.inr ⟨hlt', Or.inr hz⟩))

/-- **Target 5 (C02).** Apart from the input class of known finding F9 (a train that is a single
    spike on `t_start`), the values returned by `spike_distance_python` are exactly the one-sided
    limits of the cursor-free SPIKE-distance definition at the returned breakpoints. -/
theorem spikeProfile_eq_spec_partial (t1 t2 : List Q) (ts te m : Q) (ri : Bool)
    (h1 : ValidNE t1 ts te) (h2 : ValidNE t2 ts te) (hlt : ts < te)
    (hn1 : ¬ OneSpikeOnStart t1 ts) (hn2 : ¬ OneSpikeOnStart t2 ts) :
    ((spikeProfile t1 t2 ts te m ri).2.1, (spikeProfile t1 t2 ts te m ri).2.2)
      = spikeSpecProfile t1 t2 ts te m ri (spikeProfile t1 t2 ts te m ri).1 := by
  obtain ⟨c1, i1, _⟩ := B4_init_inv t1 t2 ts te h1 h2 hn1
  obtain ⟨c2, i2, _⟩ := B4_init_inv t2 t1 ts te h2 h1 hn2
  obtain ⟨hev, hf1, hf2⟩ := B4_spkLoop_ok t1 t2 ts te m ri _ _ _ _ _ _ ts c1 c2 i1 i2
  change (∀ ev ∈ (B4_res t1 t2 ts te m ri).1, B4_EvOK t1 t2 ts te m ri ev) at hev
  change (B4_res t1 t2 ts te m ri).2.1 = _ at hf1
  change (B4_res t1 t2 ts te m ri).2.2 = _ at hf2
  have hy0 := B4_y0_ok t1 t2 ts te m ri h1 h2 hn1 hn2
  have hstarts : (B4_res t1 t2 ts te m ri).1.map (·.2.2)
      = ((B4_res t1 t2 ts te m ri).1.map (·.1)).map (fun t => spikeSpec t1 t2 ts te m ri t true) := by
    rw [List.map_map]
    exact List.map_congr_left (fun ev hev' => (hev ev hev').2)
  have hends : (B4_res t1 t2 ts te m ri).1.map (·.2.1)
      = ((B4_res t1 t2 ts te m ri).1.map (·.1)).map (fun t => spikeSpec t1 t2 ts te m ri t false) := by
    rw [List.map_map]
    exact List.map_congr_left (fun ev hev' => (hev ev hev').1)
  rw [B4_spikeProfile_unfold, B4_specProfile_eq]
  split
  · simp only
    rw [List.map_dropLast, List.map_cons, ← hy0, ← hstarts, List.tail_cons, hends]
  · next hl =>
    obtain ⟨hl1, hl2⟩ := B4_all_lt_te t1 t2 ts te m ri hlt h1 h2 hl
    simp only
    rw [List.dropLast_concat, List.map_cons, ← hy0, ← hstarts, List.cons_append, List.tail_cons,
      List.map_append, ← hends, List.map_singleton]
    congr 3
    unfold spikeSpec
    rw [B4_final_contrib t1 t2 ts te te h1.2.1 h1.1 hl1, B4_final_contrib t2 t1 ts te te h2.2.1 h2.1 hl2,
      hf1, hf2]

example : ValidNE [1, 3] 0 6 ∧ ValidNE [2, 3, 6] 0 6 ∧ (0 : Q) < 6 ∧
    ¬ OneSpikeOnStart [1, 3] 0 ∧ ¬ OneSpikeOnStart [2, 3, 6] 0 := by
  unfold ValidNE; decide +kernel

/-! ## Part VII — the exclusion of finding F9 is necessary -/

/-- Target 7: without the exclusion of single-spike-on-`t_start` trains the statement of
    `spikeProfile_eq_spec_partial` is false. Witness `t1 = [0]`, `t2 = [0, 4]` on `[0, 6]`:
    the model returns `y1 = [0, 1/3]`, `y2 = [1/3, 2/5]`, the definition gives `y1 = [0, 1/5]`,
    `y2 = [1/5, 1/5]` (the code interpolates the contribution of the one-spike train between
    `dt(ts)` and `dt(te)` instead of keeping it constant). -/
theorem spike_full_statement_fails :
    ¬ ∀ (t1 t2 : List Q) (ts te m : Q) (ri : Bool),
      ValidNE t1 ts te → ValidNE t2 ts te → ts < te →
      ((spikeProfile t1 t2 ts te m ri).2.1, (spikeProfile t1 t2 ts te m ri).2.2)
        = spikeSpecProfile t1 t2 ts te m ri (spikeProfile t1 t2 ts te m ri).1 := by
  intro h
  have := h [0] [0, 4] 0 6 0 true (by unfold ValidNE; decide +kernel)
    (by unfold ValidNE; decide +kernel) (by decide +kernel)
  revert this
  decide +kernel

/-- the same witness for the plain (non-RI) variant -/
example : ((spikeProfile [0] [0, 4] 0 6 0 false).2.1, (spikeProfile [0] [0, 4] 0 6 0 false).2.2)
    ≠ spikeSpecProfile [0] [0, 4] 0 6 0 false (spikeProfile [0] [0, 4] 0 6 0 false).1 := by
  decide +kernel

/-- the witness is in the excluded class -/
example : OneSpikeOnStart [0] 0 := rfl

/-! ## Part VIII — coincident spikes: the profile is zero on both sides (target 4) -/

/-- the contribution of a train at one of its own spikes that is also a spike of the other
    train vanishes (both one-sided limits) -/
theorem B4_contrib_at_shared (s o : List Q) (ts te t : Q) (hs : s.Pairwise (· < ·))
    (ht : t ∈ s) (hto : t ∈ o) (right : Bool) : (spikeContrib s o ts te t right).1 = 0 := by
  have h0 : dtTo t (extTrain o ts te) = 0 := B4_dtTo_self t _ (B4_mem_extTrain o ts te t hto)
  obtain ⟨u, v, huv⟩ := List.append_of_mem ht
  have hne : s ≠ [] := by rw [huv]; simp
  have hs' := hs
  rw [huv] at hs'
  have hu : ∀ z ∈ u, z < t := fun z hz => (List.pairwise_append.mp hs').2.2 z hz t (by simp)
  have hv : ∀ z ∈ v, t < z := (List.pairwise_cons.mp (List.pairwise_append.mp hs').2.1).1
  cases right
  · rw [B4_contrib_left s o ts te t u (t :: v) huv hs hne hu (by
      intro z hz
      rcases List.mem_cons.mp hz with hz | hz
      · rw [hz]
      · exact le_of_lt (hv z hz))]
    rcases List.eq_nil_or_concat u with hn | ⟨u', q, hq⟩
    · subst hn; rw [B4_cform_nil_cons]; exact h0
    · rw [List.concat_eq_append] at hq; subst hq
      rw [B4_cform_snoc_cons]
      simp [h0]
  · rw [B4_contrib_right s o ts te t (u ++ [t]) v (by rw [huv]; simp) hs hne (by
      intro z hz
      rcases List.mem_append.mp hz with hz | hz
      · exact le_of_lt (hu z hz)
      · simp at hz; rw [hz]) hv]
    cases v with
    | nil => rw [B4_cform_snoc_nil]; exact h0
    | cons a v' =>
      rw [B4_cform_snoc_cons]
      simp [h0]

/-- Target 4, specification side: at a time that is a spike of both trains the defined SPIKE
    dissimilarity is 0 from the left and from the right. -/
theorem B4_spikeSpec_tie_zero (t1 t2 : List Q) (ts te m : Q) (ri : Bool)
    (h1 : t1.Pairwise (· < ·)) (h2 : t2.Pairwise (· < ·)) (t : Q) (ht1 : t ∈ t1) (ht2 : t ∈ t2)
    (right : Bool) : spikeSpec t1 t2 ts te m ri t right = 0 := by
  unfold spikeSpec
  dsimp only
  rw [B4_contrib_at_shared t1 t2 ts te t h1 ht1 ht2, B4_contrib_at_shared t2 t1 ts te t h2 ht2 ht1]
  exact B4_distAtT_zero _ _ _ _

/-- structural invariant of one train during the scan (no statement about the numeric fields
    except `tf` = next spike); holds for every valid input, including the class of finding F9 -/
structure B4_SInv (s : List Q) (cur : Q) (c r : List Q) (x : SpkSt) : Prop where
  split : s = c ++ r
  sorted : s.Pairwise (· < ·)
  cle : ∀ z ∈ c, z ≤ cur
  rgt : ∀ z ∈ r, cur < z
  head : B4_HeadIs x r

theorem B4_SInv.rsorted {s : List Q} {cur : Q} {c r : List Q} {x : SpkSt}
    (h : B4_SInv s cur c r x) : r.Pairwise (· < ·) := by
  have := h.sorted; rw [h.split] at this
  exact (List.pairwise_append.mp this).2.1

theorem B4_SInv.advance {s : List Q} {cur : Q} {c r' : List Q} {a : Q} {x x' : SpkSt}
    (h : B4_SInv s cur c (a :: r') x) (hx' : B4_HeadIs x' r') : B4_SInv s a (c ++ [a]) r' x' := by
  have hca : cur < a := h.rgt a (by simp)
  refine ⟨by rw [h.split]; simp, h.sorted, ?_, (List.pairwise_cons.mp h.rsorted).1, hx'⟩
  intro z hz
  rcases List.mem_append.mp hz with hz | hz
  · exact le_of_lt (lt_of_le_of_lt (h.cle z hz) hca)
  · simp at hz; rw [hz]

theorem B4_SInv.stay {s : List Q} {cur : Q} {c r : List Q} {x : SpkSt}
    (h : B4_SInv s cur c r x) {a : Q} (hca : cur ≤ a) (hr : ∀ z ∈ r, a < z) : B4_SInv s a c r x :=
  ⟨h.split, h.sorted, fun z hz => le_trans (h.cle z hz) hca, hr, h.head⟩

theorem B4_SInv.not_mem {s : List Q} {cur : Q} {c r : List Q} {x : SpkSt}
    (h : B4_SInv s cur c r x) {a : Q} (hca : cur < a) (hr : ∀ z ∈ r, a < z) : a ∉ s := by
  intro ha
  rw [h.split] at ha
  rcases List.mem_append.mp ha with ha | ha
  · exact absurd (h.cle a ha) (not_le.mpr hca)
  · exact absurd (hr a ha) (lt_irrefl _)

/-- an event whose time is a spike of both trains carries the values `(0, 0)` -/
def B4_TieZero (s1 s2 : List Q) (ev : Q × Q × Q) : Prop :=
  ev.1 ∈ s1 → ev.1 ∈ s2 → ev.2.1 = 0 ∧ ev.2.2 = 0

theorem B4_spkLoop_tie (e : SpkEnv) (s1 s2 : List Q) :
    ∀ (x1 : SpkSt) (p1 : Option Q) (r1 : List Q) (x2 : SpkSt) (p2 : Option Q) (r2 : List Q)
      (cur : Q) (c1 c2 : List Q), B4_SInv s1 cur c1 r1 x1 → B4_SInv s2 cur c2 r2 x2 →
      ∀ ev ∈ (spkLoop e x1 p1 r1 x2 p2 r2).1, B4_TieZero s1 s2 ev := by
  intro x1 p1 r1 x2 p2 r2
  induction x1, p1, r1, x2, p2, r2 using spkLoop.induct e with
  | case1 x1 p1 x2 p2 => intro cur c1 c2 h1 h2; rw [spkLoop]; simp
  | case2 x1 p1 x2 p2 a r1' adv ih =>
    intro cur c1 c2 h1 h2
    have hca : cur < a := h1.rgt a (by simp)
    have hx := h1.head a r1' rfl
    rw [spkLoop]
    intro ev hev
    rcases List.mem_cons.mp hev with h | h
    · intro _ hin2
      rw [h] at hin2
      exact absurd (show a ∈ s2 by rw [← hx]; exact hin2) (h2.not_mem hca (by simp))
    · exact ih a (c1 ++ [a]) c2 (h1.advance B4_headIs_advance) (h2.stay (le_of_lt hca) (by simp)) ev h
  | case3 x1 p1 x2 p2 b r2' adv ih =>
    intro cur c1 c2 h1 h2
    have hcb : cur < b := h2.rgt b (by simp)
    have hx := h2.head b r2' rfl
    rw [spkLoop]
    intro ev hev
    rcases List.mem_cons.mp hev with h | h
    · intro hin1 _
      rw [h] at hin1
      exact absurd (show b ∈ s1 by rw [← hx]; exact hin1) (h1.not_mem hcb (by simp))
    · exact ih b c1 (c2 ++ [b]) (h1.stay (le_of_lt hcb) (by simp)) (h2.advance B4_headIs_advance) ev h
  | case4 x1 p1 x2 p2 a r1' b r2' hlt adv ih =>
    intro cur c1 c2 h1 h2
    have hca : cur < a := h1.rgt a (by simp)
    have hx := h1.head a r1' rfl
    have hy := h2.head b r2' rfl
    have hab : a < b := by rw [← hx, ← hy]; exact hlt
    rw [spkLoop, if_pos hlt]
    intro ev hev
    rcases List.mem_cons.mp hev with h | h
    · intro _ hin2
      rw [h] at hin2
      exact absurd (show a ∈ s2 by rw [← hx]; exact hin2)
        (h2.not_mem hca (head_lt_all h2.rsorted hab))
    · exact ih a (c1 ++ [a]) c2 (h1.advance B4_headIs_advance)
        (h2.stay (le_of_lt hca) (head_lt_all h2.rsorted hab)) ev h
  | case5 x1 p1 x2 p2 a r1' b r2' hlt hgt adv ih =>
    intro cur c1 c2 h1 h2
    have hcb : cur < b := h2.rgt b (by simp)
    have hx := h1.head a r1' rfl
    have hy := h2.head b r2' rfl
    have hba : b < a := by rw [← hx, ← hy]; exact hgt
    rw [spkLoop, if_neg hlt, if_pos hgt]
    intro ev hev
    rcases List.mem_cons.mp hev with h | h
    · intro hin1 _
      rw [h] at hin1
      exact absurd (show b ∈ s1 by rw [← hy]; exact hin1)
        (h1.not_mem hcb (head_lt_all h1.rsorted hba))
    · exact ih b c1 (c2 ++ [b]) (h1.stay (le_of_lt hcb) (head_lt_all h1.rsorted hba))
        (h2.advance B4_headIs_advance) ev h
  | case6 x1 p1 x2 p2 a r1' b r2' hlt hgt x1' x2' ih =>
    intro cur c1 c2 h1 h2
    have hx := h1.head a r1' rfl
    have hy := h2.head b r2' rfl
    have hEq : b = a := by
      rw [← hx, ← hy]; exact le_antisymm (not_lt.mp hlt) (not_lt.mp hgt)
    subst hEq
    rw [spkLoop, if_neg hlt, if_neg hgt]
    intro ev hev
    rcases List.mem_cons.mp hev with h | h
    · intro _ _; rw [h]; exact ⟨rfl, rfl⟩
    · exact ih b (c1 ++ [b]) (c2 ++ [b]) (h1.advance B4_headIs_tie) (h2.advance B4_headIs_tie) ev h

theorem B4_init_sinv (t o : List Q) (ts te : Q) (hv : ValidNE t ts te) :
    ∃ c, B4_SInv t ts c (B4_init t o ts te).2.2.1 (B4_init t o ts te).1 := by
  obtain ⟨hne, hs, hb⟩ := hv
  have hh : B4_HeadIs (B4_init t o ts te).1 (B4_init t o ts te).2.2.1 := B4_spkInit_headIs _ _ _ _ _ _ _
  cases t with
  | nil => exact absurd rfl hne
  | cons a r =>
    by_cases hat : a > ts
    · refine ⟨[], ⟨?_, hs, by simp, ?_, hh⟩⟩
      · simp [B4_init, spkInit, hat]
      · simp only [B4_init, spkInit, hat, if_true]; exact head_lt_all hs hat
    · have hats : a = ts := le_antisymm (not_lt.mp hat) (hb a (by simp)).1
      subst hats
      refine ⟨[a], ⟨?_, hs, by simp, ?_, hh⟩⟩
      · simp [B4_init, spkInit]
      · simp only [B4_init, spkInit, gt_iff_lt, lt_self_iff_false, if_false]
        exact (List.pairwise_cons.mp hs).1

theorem B4_getMinDistFrom_zero (x a1 : Q) (tr : List Q) : getMinDistFrom x tr 0 a1 = 0 := by
  induction tr with
  | nil =>
    unfold getMinDistFrom
    simp only
    split
    · rfl
    · next h => exact le_antisymm (not_lt.mp h) (qabs_nonneg _)
  | cons y r ih =>
    unfold getMinDistFrom
    simp only
    split
    · rfl
    · next h =>
      have : qabs (x - y) = 0 := le_antisymm (not_lt.mp h) (qabs_nonneg _)
      rw [this]; exact ih

theorem B4_minDist_head (x a0 a1 : Q) (r : List Q) : minDist x (x :: r) a0 a1 = 0 := by
  unfold minDist getMinDistFrom
  have h0 : qabs (x - x) = 0 := by simp [qabs]
  simp only [h0]
  rw [if_neg (not_lt.mpr (qabs_nonneg _))]
  exact B4_getMinDistFrom_zero x a1 r

/-- a valid train containing `ts` starts with `ts` -/
theorem B4_head_eq_ts (t : List Q) (ts te : Q) (hv : ValidNE t ts te) (h : ts ∈ t) :
    ∃ r, t = ts :: r := by
  obtain ⟨hne, hs, hb⟩ := hv
  cases t with
  | nil => exact absurd rfl hne
  | cons a r =>
    refine ⟨r, ?_⟩
    rcases List.mem_cons.mp h with h | h
    · rw [h]
    · exact absurd ((List.pairwise_cons.mp hs).1 ts h) (not_lt.mpr (hb a (by simp)).1)

/-- if both trains have a spike on `ts` the initial contribution of a train is 0 -/
theorem B4_init_s_zero (t o : List Q) (ts te : Q) (hv : ValidNE t ts te) (hvo : ValidNE o ts te)
    (h : ts ∈ t) (ho : ts ∈ o) : (B4_init t o ts te).2.2.2 = 0 := by
  obtain ⟨r, hr⟩ := B4_head_eq_ts t ts te hv h
  obtain ⟨ro, hro⟩ := B4_head_eq_ts o ts te hvo ho
  subst hr
  rw [hro]
  simp only [B4_init, spkInit, gt_iff_lt, lt_self_iff_false, if_false, if_true]
  exact B4_minDist_head _ _ _ _

theorem B4_mem_zip_dropLast {α β} (l1 : List α) (l2 : List β) (p : α × β)
    (h : p ∈ l1.zip l2.dropLast) : p ∈ l1.zip l2 := by
  induction l2 generalizing l1 with
  | nil => simp at h
  | cons b r ih =>
    cases r with
    | nil => simp at h
    | cons b' r' =>
      cases l1 with
      | nil => simp at h
      | cons a l1' =>
        simp only [List.dropLast_cons_cons, List.zip_cons_cons, List.mem_cons] at h ⊢
        rcases h with h | h
        · exact Or.inl h
        · exact Or.inr (ih l1' h)

/-- **Target 4, model side** (all valid inputs, including the class of finding F9): a value of
    the returned profile that belongs to a breakpoint which is a spike of both trains is 0 —
    `y1` paired with the start of its piece, `y2` paired with the end of its piece. -/
theorem spike_tie_zero (t1 t2 : List Q) (ts te m : Q) (ri : Bool)
    (h1 : ValidNE t1 ts te) (h2 : ValidNE t2 ts te) (hlt : ts < te) :
    (∀ p ∈ (spikeProfile t1 t2 ts te m ri).1.zip (spikeProfile t1 t2 ts te m ri).2.1,
      p.1 ∈ t1 → p.1 ∈ t2 → p.2 = 0) ∧
    (∀ p ∈ (spikeProfile t1 t2 ts te m ri).1.tail.zip (spikeProfile t1 t2 ts te m ri).2.2,
      p.1 ∈ t1 → p.1 ∈ t2 → p.2 = 0) := by
  obtain ⟨c1, i1⟩ := B4_init_sinv t1 t2 ts te h1
  obtain ⟨c2, i2⟩ := B4_init_sinv t2 t1 ts te h2
  have hev : ∀ ev ∈ (B4_res t1 t2 ts te m ri).1, B4_TieZero t1 t2 ev :=
    B4_spkLoop_tie _ t1 t2 _ _ _ _ _ _ ts c1 c2 i1 i2
  have hstart : ∀ p ∈ (ts :: (B4_res t1 t2 ts te m ri).1.map (·.1)).zip
      (distAtT (B4_init t1 t2 ts te).1.isi (B4_init t2 t1 ts te).1.isi
        (B4_init t1 t2 ts te).2.2.2 (B4_init t2 t1 ts te).2.2.2 m ri
        :: (B4_res t1 t2 ts te m ri).1.map (·.2.2)), p.1 ∈ t1 → p.1 ∈ t2 → p.2 = 0 := by
    intro p hp hp1 hp2
    rw [List.zip_cons_cons, List.zip_map'] at hp
    rcases List.mem_cons.mp hp with h | h
    · rw [h] at hp1 hp2 ⊢
      simp only at hp1 hp2 ⊢
      rw [B4_init_s_zero t1 t2 ts te h1 h2 hp1 hp2, B4_init_s_zero t2 t1 ts te h2 h1 hp2 hp1]
      exact B4_distAtT_zero _ _ _ _
    · obtain ⟨ev, hev', he⟩ := List.mem_map.mp h
      rw [← he] at hp1 hp2 ⊢
      exact (hev ev hev' hp1 hp2).2
  have hend : ∀ p ∈ ((B4_res t1 t2 ts te m ri).1.map (·.1)).zip
      ((B4_res t1 t2 ts te m ri).1.map (·.2.1)), p.1 ∈ t1 → p.1 ∈ t2 → p.2 = 0 := by
    intro p hp hp1 hp2
    rw [List.zip_map'] at hp
    obtain ⟨ev, hev', he⟩ := List.mem_map.mp hp
    rw [← he] at hp1 hp2 ⊢
    exact (hev ev hev' hp1 hp2).1
  rw [B4_spikeProfile_unfold]
  split
  · exact ⟨fun p hp => hstart p (B4_mem_zip_dropLast _ _ p hp), hend⟩
  · next hl =>
    obtain ⟨hl1, _⟩ := B4_all_lt_te t1 t2 ts te m ri hlt h1 h2 hl
    constructor
    · intro p hp
      simp only at hp
      rw [← List.append_nil (distAtT _ _ _ _ m ri :: _), List.zip_append (by simp)] at hp
      simp only [List.zip_nil_right, List.append_nil] at hp
      exact hstart p hp
    · intro p hp hp1 hp2
      simp only [List.cons_append, List.tail_cons] at hp
      rw [List.zip_append (by simp)] at hp
      rcases List.mem_append.mp hp with h | h
      · exact hend p h hp1 hp2
      · simp at h
        rw [h] at hp1
        exact absurd (hl1 te hp1) (lt_irrefl _)

/-- a concrete tie: the shared spike `3` and the shared spike on `ts = 0` give zeros -/
example : spikeProfile [0, 3] [0, 2, 3] 0 6 0 false = ([0, 2, 3, 6], [0, 3 / 8, 0], [6 / 25, 0, 0]) := by
  decide +kernel

/-! ## Part IX — the profile is affine on every piece (target 6) -/

/-- the cursor-form contribution is affine in `t` (for a fixed split) -/
theorem B4_vform_affine (eo c r : List Q) (xl xr t : Q) (hlr : xl ≠ xr) :
    B4_vform eo c r t = B4_vform eo c r xl +
      (B4_vform eo c r xr - B4_vform eo c r xl) * ((t - xl) / (xr - xl)) := by
  have hd : xr - xl ≠ 0 := sub_ne_zero.mpr (Ne.symm hlr)
  unfold B4_vform
  cases c.getLast? with
  | none => cases r <;> simp
  | some q =>
    cases r with
    | nil => simp
    | cons a r' =>
      simp only
      by_cases hD : a - q = 0
      · simp [hD]
      · field_simp
        ring

/-- `dist_at_t` is linear in the pair of contributions (interval lengths fixed) — both variants -/
theorem B4_distAtT_affine (i1 i2 s1 s2 s1' s2' m l : Q) (ri : Bool) :
    distAtT i1 i2 (s1 + (s1' - s1) * l) (s2 + (s2' - s2) * l) m ri =
      distAtT i1 i2 s1 s2 m ri + (distAtT i1 i2 s1' s2' m ri - distAtT i1 i2 s1 s2 m ri) * l := by
  unfold distAtT
  cases ri <;> simp only [Bool.false_eq_true, if_false, if_true] <;> ring

theorem B4_filter_le_append_lt (s : List Q) (x : Q) (hs : s.Pairwise (· < ·)) :
    s = s.filter (· ≤ x) ++ s.filter (x < ·) := by
  induction s with
  | nil => rfl
  | cons a s' ih =>
    have hs' := List.pairwise_cons.mp hs
    by_cases h : a ≤ x
    · rw [List.filter_cons_of_pos (by simpa using h), List.filter_cons_of_neg (by simpa using h),
        List.cons_append, ← ih hs'.2]
    · have hx : x < a := not_le.mp h
      have h1 : (a :: s').filter (· ≤ x) = [] := List.filter_eq_nil_iff.mpr (by
        intro z hz
        rcases List.mem_cons.mp hz with hz | hz
        · rw [hz]; simpa using hx
        · simpa using lt_trans hx (hs'.1 z hz))
      have h2 : (a :: s').filter (x < ·) = a :: s' := List.filter_eq_self.mpr (by
        intro z hz
        rcases List.mem_cons.mp hz with hz | hz
        · rw [hz]; simpa using hx
        · simpa using lt_trans hx (hs'.1 z hz))
      rw [h1, h2]; rfl

/-- on an interval `[xl, xr)` free of spikes the contribution of a train is, at every `t` of the
    interval (right limit), at `xl` (right limit) and at `xr` (left limit), the cursor form of one
    and the same split -/
theorem B4_contrib_on_piece (s o : List Q) (ts te xl xr : Q) (hs : s.Pairwise (· < ·)) (hne : s ≠ [])
    (hlr : xl < xr) (hno : ∀ z ∈ s, z ≤ xl ∨ xr ≤ z) :
    ∃ c r, (∀ t, xl ≤ t → t < xr →
        spikeContrib s o ts te t true = B4_cform (extTrain o ts te) ts te c r t) ∧
      spikeContrib s o ts te xr false = B4_cform (extTrain o ts te) ts te c r xr := by
  refine ⟨s.filter (· ≤ xl), s.filter (xl < ·), ?_, ?_⟩
  · intro t h1 h2
    apply B4_contrib_right s o ts te t _ _ (B4_filter_le_append_lt s xl hs) hs hne
    · intro z hz
      have := (List.mem_filter.mp hz).2
      exact le_trans (by simpa using this) h1
    · intro z hz
      have hz' := List.mem_filter.mp hz
      have hlt : xl < z := by simpa using hz'.2
      rcases hno z hz'.1 with h | h
      · exact absurd h (not_le.mpr hlt)
      · exact lt_of_lt_of_le h2 h
  · apply B4_contrib_left s o ts te xr _ _ (B4_filter_le_append_lt s xl hs) hs hne
    · intro z hz
      have := (List.mem_filter.mp hz).2
      exact lt_of_le_of_lt (by simpa using this) hlr
    · intro z hz
      have hz' := List.mem_filter.mp hz
      have hlt : xl < z := by simpa using hz'.2
      rcases hno z hz'.1 with h | h
      · exact absurd h (not_le.mpr hlt)
      · exact h

/-- Target 6, specification side: on an interval free of spikes of both trains the defined SPIKE
    dissimilarity is the straight line from `S(xl⁺)` to `S(xr⁻)` — RI variant and plain variant. -/
theorem B4_spikeSpec_affine_on_piece (t1 t2 : List Q) (ts te m : Q) (ri : Bool)
    (h1 : t1.Pairwise (· < ·)) (h2 : t2.Pairwise (· < ·)) (hne1 : t1 ≠ []) (hne2 : t2 ≠ [])
    (xl xr : Q) (hlr : xl < xr)
    (hno1 : ∀ z ∈ t1, z ≤ xl ∨ xr ≤ z) (hno2 : ∀ z ∈ t2, z ≤ xl ∨ xr ≤ z)
    (t : Q) (hxt : xl ≤ t) (htx : t < xr) :
    spikeSpec t1 t2 ts te m ri t true =
      Piece.at ⟨xl, xr, spikeSpec t1 t2 ts te m ri xl true, spikeSpec t1 t2 ts te m ri xr false⟩ t := by
  obtain ⟨c1, r1, hr1, hl1⟩ := B4_contrib_on_piece t1 t2 ts te xl xr h1 hne1 hlr hno1
  obtain ⟨c2, r2, hr2, hl2⟩ := B4_contrib_on_piece t2 t1 ts te xl xr h2 hne2 hlr hno2
  unfold spikeSpec Piece.at
  dsimp only
  rw [hr1 t hxt htx, hr2 t hxt htx, hr1 xl (le_refl _) hlr, hr2 xl (le_refl _) hlr, hl1, hl2]
  simp only [B4_cform]
  rw [B4_vform_affine _ c1 r1 xl xr t (ne_of_lt hlr), B4_vform_affine _ c2 r2 xl xr t (ne_of_lt hlr),
    B4_distAtT_affine, mul_div_assoc]

theorem B4_between_sorted (xs : List Q) (hs : xs.Pairwise (· < ·)) (k : Nat) (hk : k + 1 < xs.length)
    (z : Q) (hz : z ∈ xs) : z ≤ xs[k] ∨ xs[k + 1] ≤ z := by
  obtain ⟨j, hj, rfl⟩ := List.getElem_of_mem hz
  have hp := List.pairwise_iff_getElem.mp hs
  rcases Nat.lt_or_ge k j with h | h
  · right
    rcases Nat.lt_or_ge (k + 1) j with h' | h'
    · exact le_of_lt (hp (k + 1) j hk hj h')
    · have : j = k + 1 := by omega
      subst this; exact le_refl _
  · left
    rcases Nat.lt_or_ge j k with h' | h'
    · exact le_of_lt (hp j k hj (by omega) h')
    · have : j = k := by omega
      subst this; exact le_refl _

/-- **Target 6, model side.** Away from finding F9, linear interpolation inside the `k`-th piece
    of the returned profile (`Piece.at`, as `PieceWiseLinFunc` evaluates it) gives the defined SPIKE
    dissimilarity at every time of the piece — for the RI variant and for the plain variant. -/
theorem spike_affine_on_piece (t1 t2 : List Q) (ts te m : Q) (ri : Bool)
    (h1 : ValidNE t1 ts te) (h2 : ValidNE t2 ts te) (hlt : ts < te)
    (hn1 : ¬ OneSpikeOnStart t1 ts) (hn2 : ¬ OneSpikeOnStart t2 ts)
    (k : Nat) (hk : k + 1 < (spikeProfile t1 t2 ts te m ri).1.length) (t : Q)
    (hxt : nth (spikeProfile t1 t2 ts te m ri).1 k ≤ t)
    (htx : t < nth (spikeProfile t1 t2 ts te m ri).1 (k + 1)) :
    (Pwl.pieceAt ⟨(spikeProfile t1 t2 ts te m ri).1, (spikeProfile t1 t2 ts te m ri).2.1,
        (spikeProfile t1 t2 ts te m ri).2.2⟩ k).at t
      = spikeSpec t1 t2 ts te m ri t true := by
  have hmain := spikeProfile_eq_spec_partial t1 t2 ts te m ri h1 h2 hlt hn1 hn2
  rw [B4_specProfile_eq] at hmain
  have hy1 := congrArg Prod.fst hmain
  have hy2 := congrArg Prod.snd hmain
  simp only at hy1 hy2
  obtain ⟨hsorted, hmem⟩ := isiProfile_breaks t1 t2 ts te 0 hlt h1 h2
  rw [← spikeProfile_breaks t1 t2 ts te m ri] at hsorted hmem
  generalize (spikeProfile t1 t2 ts te m ri).1 = xs at *
  generalize (spikeProfile t1 t2 ts te m ri).2.1 = y1 at *
  generalize (spikeProfile t1 t2 ts te m ri).2.2 = y2 at *
  have hxk : nth xs k = xs[k] := by unfold nth; rw [List.getD_eq_getElem _ _ (by omega)]
  have hxk1 : nth xs (k + 1) = xs[k + 1] := by unfold nth; rw [List.getD_eq_getElem _ _ hk]
  have hy1k : nth y1 k = spikeSpec t1 t2 ts te m ri xs[k] true := by
    unfold nth
    rw [hy1, List.getD_eq_getElem _ _ (by simp; omega)]
    simp
  have hy2k : nth y2 k = spikeSpec t1 t2 ts te m ri xs[k + 1] false := by
    unfold nth
    rw [hy2, List.getD_eq_getElem _ _ (by simp; omega)]
    simp
  have hin : ∀ z, (z ∈ t1 ∨ z ∈ t2) → z ∈ xs := by
    intro z hz
    have hb : ts ≤ z ∧ z ≤ te := by
      rcases hz with hz | hz
      · exact h1.2.2 z hz
      · exact h2.2.2 z hz
    rw [hmem z]
    rcases eq_or_lt_of_le hb.1 with h | h
    · exact Or.inl h.symm
    · rcases eq_or_lt_of_le hb.2 with h' | h'
      · exact Or.inr (Or.inl h')
      · exact Or.inr (Or.inr ⟨h, h', hz⟩)
  unfold Pwl.pieceAt
  simp only
  rw [hxk, hxk1, hy1k, hy2k]
  rw [hxk] at hxt
  rw [hxk1] at htx
  exact (B4_spikeSpec_affine_on_piece t1 t2 ts te m ri h1.2.1 h2.2.1 h1.1 h2.1 xs[k] xs[k + 1]
    (lt_of_le_of_lt hxt htx)
    (fun z hz => B4_between_sorted xs hsorted k hk z (hin z (Or.inl hz)))
    (fun z hz => B4_between_sorted xs hsorted k hk z (hin z (Or.inr hz))) t hxt htx).symm

/-! ## Part X — the carried interval lengths are `nuAt` (hence positive); the profile is `≥ 0` -/

/-- the cursor-form interval length is the ISI definition `nuAt` -/
theorem B4_nuform_eq_nuAt (s : List Q) (ts te t : Q) (c r : List Q) (hsplit : s = c ++ r)
    (hne : s ≠ []) (hc : ∀ z ∈ c, z ≤ t) (hr : ∀ z ∈ r, t < z) :
    B4_nuform ts te c r = nuAt s ts te t := by
  subst hsplit
  have hf1 : (c ++ r).filter (· ≤ t) = c :=
    B4_filter_split_left _ _ _ (by simpa using hc) (by simpa using hr)
  have hf2 : (c ++ r).filter (t < ·) = r :=
    B4_filter_split_right _ _ _ (by simpa using hc) (by simpa using hr)
  unfold nuAt B4_nuform
  simp only [hf1, hf2]
  cases hcl : c.getLast? with
  | none =>
    cases r with
    | nil =>
      have : c = [] := List.getLast?_eq_none_iff.mp hcl
      subst this; exact absurd rfl hne
    | cons a r' => cases r' <;> rfl
  | some q =>
    cases r with
    | nil => simp only [List.head?_nil]; cases c.dropLast.getLast? <;> rfl
    | cons a r' => rfl

/-- the interval length used by the specification `spikeContrib` (right limit) is `nuAt` -/
theorem B4_contrib_isi_eq_nuAt (s o : List Q) (ts te t : Q) (hs : s.Pairwise (· < ·)) (hne : s ≠ []) :
    (spikeContrib s o ts te t true).2 = nuAt s ts te t := by
  have hsplit := B4_filter_le_append_lt s t hs
  have hc : ∀ z ∈ s.filter (· ≤ t), z ≤ t := fun z hz => by simpa using (List.mem_filter.mp hz).2
  have hr : ∀ z ∈ s.filter (t < ·), t < z := fun z hz => by simpa using (List.mem_filter.mp hz).2
  rw [B4_contrib_right s o ts te t _ _ hsplit hs hne hc hr]
  exact B4_nuform_eq_nuAt s ts te t _ _ hsplit hne hc hr

/-- **Every `isi` carried by the SPIKE scan equals `nuAt` of its train on the current piece.** -/
theorem B4_Inv.isi_eq_nuAt {s o : List Q} {ts te cur : Q} {c r : List Q} {p : Option Q} {x : SpkSt}
    (h : B4_Inv s o ts te cur c r p x) (t : Q) (hct : cur ≤ t) (hr : ∀ z ∈ r, t < z) :
    x.isi = nuAt s ts te t := by
  have : x.isi = B4_nuform ts te c r := by rw [h.st]; rfl
  rw [this]
  exact B4_nuform_eq_nuAt s ts te t c r h.split h.ne (fun z hz => le_trans (h.cle z hz) hct) hr

/-- … hence it is positive as long as the scan has not reached `te` -/
theorem B4_Inv.isi_pos {s o : List Q} {ts te cur : Q} {c r : List Q} {p : Option Q} {x : SpkSt}
    (h : B4_Inv s o ts te cur c r p x) (hte : cur < te) : 0 < x.isi := by
  rw [h.isi_eq_nuAt cur (le_refl _) h.rgt]
  exact nuAt_pos s ts te cur (lt_of_le_of_lt h.tscur hte) h.bnd h.tscur hte

theorem B4_nuform_pos (ts te : Q) (c r : List Q) (hs : (c ++ r).Pairwise (· < ·)) (hne : c ++ r ≠ [])
    (hr : ∀ z ∈ r, ts < z) (hc : ∀ z ∈ c, z < te) : 0 < B4_nuform ts te c r := by
  rcases List.eq_nil_or_concat c with hcn | ⟨c', q, hcq⟩
  · subst hcn
    cases r with
    | nil => exact absurd rfl hne
    | cons a r' =>
      have : 0 < a - ts := by linarith [hr a (by simp)]
      show 0 < startNu a ts r'
      cases r' with
      | nil => exact this
      | cons b r'' => exact lt_of_lt_of_le this (le_max_left _ _)
  · rw [List.concat_eq_append] at hcq
    subst hcq
    cases r with
    | nil =>
      have : 0 < te - q := by linarith [hc q (by simp)]
      have e := congrArg Prod.snd (B4_cform_snoc_nil [] ts te c' q 0)
      simp only [B4_cform] at e
      rw [e]
      cases c'.getLast? with
      | none => exact this
      | some q' => exact lt_of_lt_of_le this (le_max_left _ _)
    | cons a r' =>
      have e := congrArg Prod.snd (B4_cform_snoc_cons [] ts te c' q a r' 0)
      simp only [B4_cform] at e
      rw [e]
      have := (List.pairwise_append.mp hs).2.2 q (by simp) a (by simp)
      linarith

theorem B4_vform_nonneg (eo c r : List Q) (t : Q) (hs : (c ++ r).Pairwise (· < ·))
    (hc : ∀ z ∈ c, z ≤ t) (hr : ∀ z ∈ r, t ≤ z) : 0 ≤ B4_vform eo c r t := by
  rcases List.eq_nil_or_concat c with hcn | ⟨c', q, hcq⟩
  · subst hcn
    cases r with
    | nil => exact le_refl _
    | cons a r' => exact B4_dtTo_nonneg _ _
  · rw [List.concat_eq_append] at hcq
    subst hcq
    cases r with
    | nil =>
      have e := congrArg Prod.fst (B4_cform_snoc_nil eo 0 0 c' q t)
      simp only [B4_cform] at e
      rw [e]; exact B4_dtTo_nonneg _ _
    | cons a r' =>
      have e := congrArg Prod.fst (B4_cform_snoc_cons eo 0 0 c' q a r' t)
      simp only [B4_cform] at e
      rw [e]
      have hqa := (List.pairwise_append.mp hs).2.2 q (by simp) a (by simp)
      have hqt := hc q (by simp)
      have hta := hr a (by simp)
      apply div_nonneg _ (by linarith)
      apply add_nonneg
      · exact mul_nonneg (B4_dtTo_nonneg _ _) (by linarith)
      · exact mul_nonneg (B4_dtTo_nonneg _ _) (by linarith)

theorem B4_filter_lt_append_le (s : List Q) (x : Q) (hs : s.Pairwise (· < ·)) :
    s = s.filter (· < x) ++ s.filter (x ≤ ·) := by
  induction s with
  | nil => rfl
  | cons a s' ih =>
    have hs' := List.pairwise_cons.mp hs
    by_cases h : a < x
    · rw [List.filter_cons_of_pos (by simpa using h), List.filter_cons_of_neg (by simpa using h),
        List.cons_append, ← ih hs'.2]
    · have hx : x ≤ a := not_lt.mp h
      have h1 : (a :: s').filter (· < x) = [] := List.filter_eq_nil_iff.mpr (by
        intro z hz
        rcases List.mem_cons.mp hz with hz | hz
        · rw [hz]; simpa using hx
        · simpa using le_of_lt (lt_of_le_of_lt hx (hs'.1 z hz)))
      have h2 : (a :: s').filter (x ≤ ·) = a :: s' := List.filter_eq_self.mpr (by
        intro z hz
        rcases List.mem_cons.mp hz with hz | hz
        · rw [hz]; simpa using hx
        · simpa using le_of_lt (lt_of_le_of_lt hx (hs'.1 z hz)))
      rw [h1, h2]; rfl

/-- both components of the specified contribution are well-behaved inside the recording:
    the contribution is `≥ 0` and the interval length is `> 0` -/
theorem B4_contrib_sign (s o : List Q) (ts te t : Q) (hv : ValidNE s ts te) (right : Bool)
    (h1 : if right then ts ≤ t else ts < t) (h2 : if right then t < te else t ≤ te) :
    0 ≤ (spikeContrib s o ts te t right).1 ∧ 0 < (spikeContrib s o ts te t right).2 := by
  obtain ⟨hne, hs, hb⟩ := hv
  cases right
  · simp only [Bool.false_eq_true, if_false] at h1 h2
    have hsplit := B4_filter_lt_append_le s t hs
    have hc : ∀ z ∈ s.filter (· < t), z < t := fun z hz => by simpa using (List.mem_filter.mp hz).2
    have hr : ∀ z ∈ s.filter (t ≤ ·), t ≤ z := fun z hz => by simpa using (List.mem_filter.mp hz).2
    rw [B4_contrib_left s o ts te t _ _ hsplit hs hne hc hr]
    refine ⟨B4_vform_nonneg _ _ _ t (hsplit ▸ hs) (fun z hz => le_of_lt (hc z hz)) hr,
      B4_nuform_pos ts te _ _ (hsplit ▸ hs) (hsplit ▸ hne) (fun z hz => lt_of_lt_of_le h1 (hr z hz))
        (fun z hz => lt_of_lt_of_le (hc z hz) h2)⟩
  · simp only [if_true] at h1 h2
    have hsplit := B4_filter_le_append_lt s t hs
    have hc : ∀ z ∈ s.filter (· ≤ t), z ≤ t := fun z hz => by simpa using (List.mem_filter.mp hz).2
    have hr : ∀ z ∈ s.filter (t < ·), t < z := fun z hz => by simpa using (List.mem_filter.mp hz).2
    rw [B4_contrib_right s o ts te t _ _ hsplit hs hne hc hr]
    refine ⟨B4_vform_nonneg _ _ _ t (hsplit ▸ hs) hc (fun z hz => le_of_lt (hr z hz)),
      B4_nuform_pos ts te _ _ (hsplit ▸ hs) (hsplit ▸ hne) (fun z hz => lt_of_le_of_lt h1 (hr z hz))
        (fun z hz => lt_of_le_of_lt (hc z hz) h2)⟩

/-- the defined SPIKE dissimilarity is non-negative: right limits on `[ts, te)`, left limits on
    `(ts, te]` -/
theorem B4_spikeSpec_nonneg (t1 t2 : List Q) (ts te m : Q) (ri : Bool) (h1 : ValidNE t1 ts te)
    (h2 : ValidNE t2 ts te) (t : Q) (right : Bool)
    (hl : if right then ts ≤ t else ts < t) (hu : if right then t < te else t ≤ te) :
    0 ≤ spikeSpec t1 t2 ts te m ri t right := by
  obtain ⟨a1, b1⟩ := B4_contrib_sign t1 t2 ts te t h1 right hl hu
  obtain ⟨a2, b2⟩ := B4_contrib_sign t2 t1 ts te t h2 right hl hu
  unfold spikeSpec
  exact distAtT_nonneg _ _ _ _ m ri b1 b2 a1 a2

theorem B4_mem_dropLast_lt (xs : List Q) (hs : xs.Pairwise (· < ·)) (x : Q) (hx : x ∈ xs.dropLast) :
    ∃ y ∈ xs, x < y := by
  rcases List.eq_nil_or_concat xs with h | ⟨l, y, h⟩
  · subst h; simp at hx
  · rw [List.concat_eq_append] at h
    subst h
    rw [List.dropLast_concat] at hx
    exact ⟨y, by simp, (List.pairwise_append.mp hs).2.2 x hx y (by simp)⟩

theorem B4_mem_tail_gt (xs : List Q) (hs : xs.Pairwise (· < ·)) (x : Q) (hx : x ∈ xs.tail) :
    ∃ y ∈ xs, y < x := by
  cases xs with
  | nil => simp at hx
  | cons y l => exact ⟨y, by simp, (List.pairwise_cons.mp hs).1 x hx⟩

/-- **All values of the SPIKE-profile are non-negative** (away from finding F9). -/
theorem B4_spikeProfile_nonneg (t1 t2 : List Q) (ts te m : Q) (ri : Bool)
    (h1 : ValidNE t1 ts te) (h2 : ValidNE t2 ts te) (hlt : ts < te)
    (hn1 : ¬ OneSpikeOnStart t1 ts) (hn2 : ¬ OneSpikeOnStart t2 ts) :
    (∀ v ∈ (spikeProfile t1 t2 ts te m ri).2.1, 0 ≤ v) ∧
    (∀ v ∈ (spikeProfile t1 t2 ts te m ri).2.2, 0 ≤ v) := by
  have hmain := spikeProfile_eq_spec_partial t1 t2 ts te m ri h1 h2 hlt hn1 hn2
  rw [B4_specProfile_eq] at hmain
  have hy1 := congrArg Prod.fst hmain
  have hy2 := congrArg Prod.snd hmain
  simp only at hy1 hy2
  obtain ⟨hsorted, hmem⟩ := isiProfile_breaks t1 t2 ts te 0 hlt h1 h2
  rw [← spikeProfile_breaks t1 t2 ts te m ri] at hsorted hmem
  have hbnd : ∀ x ∈ (spikeProfile t1 t2 ts te m ri).1, ts ≤ x ∧ x ≤ te := by
    intro x hx
    rcases (hmem x).mp hx with h | h | ⟨h, h', _⟩
    · rw [h]; exact ⟨le_refl _, le_of_lt hlt⟩
    · rw [h]; exact ⟨le_of_lt hlt, le_refl _⟩
    · exact ⟨le_of_lt h, le_of_lt h'⟩
  constructor
  · intro v hv
    rw [hy1] at hv
    obtain ⟨x, hx, rfl⟩ := List.mem_map.mp hv
    obtain ⟨y, hy, hxy⟩ := B4_mem_dropLast_lt _ hsorted x hx
    exact B4_spikeSpec_nonneg t1 t2 ts te m ri h1 h2 x true
      (by simpa using (hbnd x (List.mem_of_mem_dropLast hx)).1)
      (by simpa using lt_of_lt_of_le hxy (hbnd y hy).2)
  · intro v hv
    rw [hy2] at hv
    obtain ⟨x, hx, rfl⟩ := List.mem_map.mp hv
    obtain ⟨y, hy, hyx⟩ := B4_mem_tail_gt _ hsorted x hx
    exact B4_spikeSpec_nonneg t1 t2 ts te m ri h1 h2 x false
      (by simpa using lt_of_le_of_lt (hbnd y hy).1 hyx)
      (by simpa using (hbnd x (List.mem_of_mem_tail hx)).2)

/-! ## Examples: concrete inputs satisfying the hypotheses of the main theorems -/

/-- hypotheses of `spikeProfile_eq_spec_partial`, `spike_affine_on_piece`, `B4_spikeProfile_nonneg` -/
example : ValidNE [0, 1, 3] 0 6 ∧ ValidNE [2, 3, 6] 0 6 ∧ (0 : Q) < 6 ∧
    ¬ OneSpikeOnStart [0, 1, 3] 0 ∧ ¬ OneSpikeOnStart [2, 3, 6] 0 := by
  unfold ValidNE; decide +kernel

/-- the conclusion of `spikeProfile_eq_spec_partial` on that input, checked by evaluation -/
example : ((spikeProfile [0, 1, 3] [2, 3, 6] 0 6 (1/2) false).2.1,
      (spikeProfile [0, 1, 3] [2, 3, 6] 0 6 (1/2) false).2.2)
    = spikeSpecProfile [0, 1, 3] [2, 3, 6] 0 6 (1/2) false
        (spikeProfile [0, 1, 3] [2, 3, 6] 0 6 (1/2) false).1 := by decide +kernel

/-- `spike_affine_on_piece`: piece `k = 1` (from 1 to 2) of that profile, `t = 3/2` -/
example : (1 : Nat) + 1 < (spikeProfile [0, 1, 3] [2, 3, 6] 0 6 0 true).1.length ∧
    nth (spikeProfile [0, 1, 3] [2, 3, 6] 0 6 0 true).1 1 ≤ 3/2 ∧
    (3/2 : Q) < nth (spikeProfile [0, 1, 3] [2, 3, 6] 0 6 0 true).1 2 := by decide +kernel

/-- hypotheses of `B4_spikeSpec_affine_on_piece`: no spike of `[0,1,3]`, `[2,3,6]` inside `(1, 2)` -/
example : (∀ z ∈ ([0, 1, 3] : List Q), z ≤ 1 ∨ 2 ≤ z) ∧ (∀ z ∈ ([2, 3, 6] : List Q), z ≤ 1 ∨ 2 ≤ z) := by
  decide +kernel

/-- hypotheses of `spike_tie_zero` / `B4_spikeSpec_tie_zero`: the shared spike `3` -/
example : (3 : Q) ∈ ([0, 1, 3] : List Q) ∧ (3 : Q) ∈ ([2, 3, 6] : List Q) := by decide +kernel

end PySpike
