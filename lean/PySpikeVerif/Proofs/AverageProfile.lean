/-
  Proofs/AverageProfile.lean — `average_profile` is the pointwise arithmetic mean (property C09).
-/
import PySpikeVerif.Model.Extra
import PySpikeVerif.Proofs.MultiLaws
import Mathlib.Tactic.Ring
import Mathlib.Tactic.FieldSimp

namespace PySpike

theorem E1_foldl_add_evalR_pwl (a b : Q) (f0 : Pwl) (fs : List Pwl) (h0 : B5_PwlOn a b f0)
    (hl : ∀ f ∈ fs, B5_PwlOn a b f) (t : Q) (ht0 : a ≤ t) (ht1 : t < b) :
    B5_PwlOn a b (fs.foldl Pwl.add f0) ∧
    (fs.foldl Pwl.add f0).evalR t =
      some ((f0.evalR t).getD 0 + qsum (fs.map fun f => (f.evalR t).getD 0)) := by
  obtain ⟨s, i⟩ := B5_foldl_sum Pwl.add (B5_PwlOn a b) (fun f => (f.evalR t).getD 0)
    (fun _ _ => B5_PwlOn.add) (fun _ _ hf hg => (B5_PwlOn.add_evalR hf hg ht0 ht1).2) fs f0 h0 hl
  exact ⟨s, by rw [s.evalR_some ht0 ht1, i]⟩

/-- `average_profile` of `n ≥ 2` well-formed piecewise constant profiles on a common `[a, b]` is
    well-formed on `[a, b]` and its value at every time is the arithmetic mean of the values -/
theorem averagePwc_is_mean (a b : Q) (fs : List Pwc) (h2 : 2 ≤ fs.length)
    (hl : ∀ f ∈ fs, B5_PwcOn a b f) :
    ∃ g, averagePwc fs = some g ∧ B5_PwcOn a b g ∧
      ∀ t, a ≤ t → t < b →
        g.evalR t = some (qsum (fs.map fun f => (f.evalR t).getD 0) / (fs.length : Q)) := by
  match fs, h2, hl with
  | f0 :: f1 :: r, _, hl =>
    have h0 : B5_PwcOn a b f0 := hl f0 (by simp)
    have hr : ∀ f ∈ f1 :: r, B5_PwcOn a b f := fun f hf => hl f (List.mem_cons_of_mem _ hf)
    have hw := B5_fold_wf a b f0 (f1 :: r) h0 hr
    refine ⟨_, rfl, ⟨Pwc.mulScalar_wf hw.1 _, ?_, ?_⟩, ?_⟩
    · show ((List.foldl Pwc.add f0 (f1 :: r)).mulScalar _).first = a
      rw [← hw.2.1]; rfl
    · show ((List.foldl Pwc.add f0 (f1 :: r)).mulScalar _).last = b
      rw [← hw.2.2]; simp [Pwc.last, Pwc.mulScalar]
    · intro t ht0 ht1
      rw [Pwc.mulScalar_evalR, B5_foldl_add_evalR a b f0 (f1 :: r) h0 hr t ht0 ht1]
      simp only [Option.map_some, List.map_cons, qsum, List.length_cons]
      congr 1
      push_cast
      ring

theorem averagePwl_is_mean (a b : Q) (fs : List Pwl) (h2 : 2 ≤ fs.length)
    (hl : ∀ f ∈ fs, B5_PwlOn a b f) :
    ∃ g, averagePwl fs = some g ∧ g.WF ∧
      ∀ t, a ≤ t → t < b →
        g.evalR t = some (qsum (fs.map fun f => (f.evalR t).getD 0) / (fs.length : Q)) := by
  match fs, h2, hl with
  | f0 :: f1 :: r, _, hl =>
    have h0 : B5_PwlOn a b f0 := hl f0 (by simp)
    have hr : ∀ f ∈ f1 :: r, B5_PwlOn a b f := fun f hf => hl f (List.mem_cons_of_mem _ hf)
    refine ⟨_, rfl, ?_, ?_⟩
    · have hw := (B5_foldl_sum Pwl.add (B5_PwlOn a b) (fun _ => 0) (fun _ _ => B5_PwlOn.add)
        (fun _ _ _ _ => by simp) (f1 :: r) f0 h0 hr).1
      exact Pwl.mulScalar_wf hw.1 _
    · intro t ht0 ht1
      rw [Pwl.mulScalar_evalR, (E1_foldl_add_evalR_pwl a b f0 (f1 :: r) h0 hr t ht0 ht1).2]
      simp only [Option.map_some, List.map_cons, qsum, List.length_cons]
      congr 1
      push_cast
      ring

/-- fewer than two profiles: the code's `assert len(profiles) > 1` -/
theorem averagePwc_rejects (fs : List Pwc) (h : fs.length < 2) : averagePwc fs = none := by
  match fs, h with
  | [], _ => rfl
  | [_], _ => rfl

example : 2 ≤ [exF, exG, exH].length ∧ ∀ f ∈ [exF, exG, exH], B5_PwcOn 0 3 f := by
  simp [B5_PwcOn, Pwc.WF, exF, exG, exH, Pwc.first, Pwc.last, lastD]
  norm_num
example : ((averagePwc [exF, exG, exH]).bind fun g => g.evalR 1) = some 2 := by decide +kernel

end PySpike
