/-
  Proofs/MirrorSpike.lean — work package D1: time reversal mirrors the SPIKE-profile
  (property C08, mirror clause, SPIKE).
  `ψ x = ts + te - x` (`B9_psi`), `mir s = (s.map ψ).reverse` (`B9_mir`).
  * specification level (`spikeSpec_mirror`): no exclusion needed;
  * profile level (`spikeProfile_mirror`): outside the class of known finding F9 (a train that is
    exactly one spike on `t_start` or — its mirror image — exactly one spike on `t_end`);
  * distance level (`spikeDistance_mirror`, `spikeDistanceBi_mirror`).
-/
import PySpikeVerif.Spec.Spike
import PySpikeVerif.Proofs.MirrorIsi
import PySpikeVerif.Proofs.SpikeScan
import PySpikeVerif.Properties.C01
import Mathlib.Data.List.Basic
import Mathlib.Tactic.Linarith
import Mathlib.Tactic.Ring
import Mathlib.Algebra.Order.Field.Rat

namespace PySpike
open PySpike.C01

/-! ## item 1: the specification under mirroring -/

theorem D1_qabs_psi (ts te x y : Q) :
    qabs (B9_psi ts te x - B9_psi ts te y) = qabs (x - y) := by
  rw [qabs_eq_abs, qabs_eq_abs]
  unfold B9_psi
  rw [show ts + te - x - (ts + te - y) = -(x - y) by ring, abs_neg]

theorem D1_mir_ne_nil {ts te : Q} {l : List Q} (h : l ≠ []) : B9_mir ts te l ≠ [] := by
  unfold B9_mir; simpa using h

theorem D1_mir_nil (ts te : Q) : B9_mir ts te [] = [] := rfl

theorem D1_mir_append (ts te : Q) (c r : List Q) :
    B9_mir ts te (c ++ r) = B9_mir ts te r ++ B9_mir ts te c := by
  unfold B9_mir; rw [List.map_append, List.reverse_append]

theorem D1_mir_singleton (ts te q : Q) : B9_mir ts te [q] = [B9_psi ts te q] := rfl

theorem D1_mir_cons (ts te a : Q) (r : List Q) :
    B9_mir ts te (a :: r) = B9_mir ts te r ++ [B9_psi ts te a] := by
  unfold B9_mir; rw [List.map_cons, List.reverse_cons]

theorem D1_mir_snoc (ts te q : Q) (c : List Q) :
    B9_mir ts te (c ++ [q]) = B9_psi ts te q :: B9_mir ts te c := by
  rw [D1_mir_append, D1_mir_singleton]; rfl

theorem D1_dtTo_mir_le (ts te x : Q) (l : List Q) (hl : l ≠ []) :
    dtTo (B9_psi ts te x) (B9_mir ts te l) ≤ dtTo x l := by
  obtain ⟨w, hw, he⟩ := B4_dtTo_mem x l hl
  rw [he, ← D1_qabs_psi ts te x w]
  exact B4_dtTo_le_of_mem _ _ _ (B9_mem_mir.mpr (by rw [B9_psi_psi]; exact hw))

/-- the distance to the nearest spike is invariant under mirroring -/
theorem D1_dtTo_mir (ts te x : Q) (l : List Q) :
    dtTo (B9_psi ts te x) (B9_mir ts te l) = dtTo x l := by
  by_cases hl : l = []
  · subst hl; rfl
  · apply le_antisymm (D1_dtTo_mir_le ts te x l hl)
    have := D1_dtTo_mir_le ts te (B9_psi ts te x) (B9_mir ts te l) (D1_mir_ne_nil hl)
    rwa [B9_psi_psi, B9_mir_mir] at this

/-- the auxiliary spikes exchange roles -/
theorem D1_auxStart_mir (s : List Q) (ts te : Q) :
    auxStart (B9_mir ts te s) ts = B9_psi ts te (auxEnd s te) := by
  rcases List.eq_nil_or_concat s with h | ⟨c', q, h⟩
  · subst h; rw [D1_mir_nil]; simp only [auxStart, auxEnd]; unfold B9_psi; ring
  · rw [List.concat_eq_append] at h
    subst h
    rw [D1_mir_snoc, B4_auxStart_cons, B4_auxEnd_snoc]
    rcases List.eq_nil_or_concat c' with h' | ⟨c'', q', h'⟩
    · subst h'
      simp only [D1_mir_nil, startNu, List.getLast?_nil, B4_endNu]
      unfold B9_psi; ring
    · rw [List.concat_eq_append] at h'
      subst h'
      rw [D1_mir_snoc]
      simp only [startNu, List.getLast?_append, List.getLast?_singleton, Option.some_or, B4_endNu]
      unfold B9_psi
      rw [show ts + te - q - ts = te - q by ring, show ts + te - q' - (ts + te - q) = q - q' by ring]
      ring

theorem D1_auxEnd_mir (s : List Q) (ts te : Q) :
    auxEnd (B9_mir ts te s) te = B9_psi ts te (auxStart s ts) := by
  have := D1_auxStart_mir (B9_mir ts te s) ts te
  rw [B9_mir_mir] at this
  rw [this, B9_psi_psi]

/-- the extended train of the mirrored train is the mirror of the extended train -/
theorem D1_extTrain_mir (s : List Q) (ts te : Q) :
    extTrain (B9_mir ts te s) ts te = B9_mir ts te (extTrain s ts te) := by
  unfold extTrain
  rw [D1_mir_cons, D1_mir_append, D1_mir_singleton, D1_auxStart_mir, D1_auxEnd_mir]
  simp

/-- the cursor form of the contribution under mirroring: consumed and remaining spikes exchange -/
theorem D1_cform_mir (eo : List Q) (ts te t : Q) (c r : List Q) :
    B4_cform (B9_mir ts te eo) ts te (B9_mir ts te r) (B9_mir ts te c) (B9_psi ts te t)
      = B4_cform eo ts te c r t := by
  rcases List.eq_nil_or_concat c with hc | ⟨c', q, hc⟩
  · subst hc
    cases r with
    | nil => rfl
    | cons a r' =>
      rw [B4_cform_nil_cons, D1_mir_cons, D1_mir_nil, B4_cform_snoc_nil, D1_dtTo_mir,
        B9_mir_getLast?]
      congr 1
      cases r' with
      | nil => simp only [List.head?_nil, Option.map_none, B4_endNu, startNu]; unfold B9_psi; ring
      | cons b r'' =>
        simp only [List.head?_cons, Option.map_some, B4_endNu, startNu]
        unfold B9_psi
        rw [show te - (ts + te - a) = a - ts by ring, show ts + te - a - (ts + te - b) = b - a by ring]
  · rw [List.concat_eq_append] at hc
    subst hc
    cases r with
    | nil =>
      rw [B4_cform_snoc_nil, D1_mir_nil, D1_mir_snoc, B4_cform_nil_cons, D1_dtTo_mir]
      congr 1
      rcases List.eq_nil_or_concat c' with h' | ⟨c'', q', h'⟩
      · subst h'
        simp only [D1_mir_nil, startNu, List.getLast?_nil, B4_endNu]
        unfold B9_psi; ring
      · rw [List.concat_eq_append] at h'
        subst h'
        rw [D1_mir_snoc]
        simp only [startNu, List.getLast?_append, List.getLast?_singleton, Option.some_or, B4_endNu]
        unfold B9_psi
        rw [show ts + te - q - ts = te - q by ring, show ts + te - q' - (ts + te - q) = q - q' by ring]
    | cons a r' =>
      rw [B4_cform_snoc_cons, D1_mir_cons, D1_mir_snoc, B4_cform_snoc_cons, D1_dtTo_mir, D1_dtTo_mir]
      unfold B9_psi
      rw [show ts + te - q - (ts + te - t) = t - q by ring,
        show ts + te - t - (ts + te - a) = a - t by ring,
        show ts + te - q - (ts + te - a) = a - q by ring]
      congr 2
      ring

/-- the contribution of a train at `t` from one side is the contribution of the mirrored train at
    `ψ t` from the other side -/
theorem D1_contrib_mirror (s o : List Q) (ts te t : Q) (right : Bool)
    (hs : s.Pairwise (· < ·)) (hne : s ≠ []) :
    spikeContrib (B9_mir ts te s) (B9_mir ts te o) ts te (B9_psi ts te t) (!right)
      = spikeContrib s o ts te t right := by
  have hs' : (B9_mir ts te s).Pairwise (· < ·) := B9_mir_sorted hs
  have hne' := D1_mir_ne_nil (ts := ts) (te := te) hne
  cases right
  · -- left limit at `t`, right limit at `ψ t`
    have hsplit := B4_filter_lt_append_le s t hs
    have hc : ∀ z ∈ s.filter (· < t), z < t := fun z hz => by simpa using (List.mem_filter.mp hz).2
    have hr : ∀ z ∈ s.filter (t ≤ ·), t ≤ z := fun z hz => by simpa using (List.mem_filter.mp hz).2
    rw [B4_contrib_left s o ts te t _ _ hsplit hs hne hc hr]
    show spikeContrib _ _ ts te _ true = _
    rw [B4_contrib_right (B9_mir ts te s) (B9_mir ts te o) ts te (B9_psi ts te t)
      (B9_mir ts te (s.filter (t ≤ ·))) (B9_mir ts te (s.filter (· < t)))
      (by rw [← D1_mir_append, ← hsplit]) hs' hne'
      (fun z hz => by
        have := hr _ (B9_mem_mir.mp hz)
        rw [← B9_psi_psi ts te z, B9_psi_le]; exact this)
      (fun z hz => by
        have := hc _ (B9_mem_mir.mp hz)
        rw [← B9_psi_psi ts te z, B9_psi_lt]; exact this),
      D1_extTrain_mir, D1_cform_mir]
  · -- right limit at `t`, left limit at `ψ t`
    have hsplit := B4_filter_le_append_lt s t hs
    have hc : ∀ z ∈ s.filter (· ≤ t), z ≤ t := fun z hz => by simpa using (List.mem_filter.mp hz).2
    have hr : ∀ z ∈ s.filter (t < ·), t < z := fun z hz => by simpa using (List.mem_filter.mp hz).2
    rw [B4_contrib_right s o ts te t _ _ hsplit hs hne hc hr]
    show spikeContrib _ _ ts te _ false = _
    rw [B4_contrib_left (B9_mir ts te s) (B9_mir ts te o) ts te (B9_psi ts te t)
      (B9_mir ts te (s.filter (t < ·))) (B9_mir ts te (s.filter (· ≤ t)))
      (by rw [← D1_mir_append, ← hsplit]) hs' hne'
      (fun z hz => by
        have := hr _ (B9_mem_mir.mp hz)
        rw [← B9_psi_psi ts te z, B9_psi_lt]; exact this)
      (fun z hz => by
        have := hc _ (B9_mem_mir.mp hz)
        rw [← B9_psi_psi ts te z, B9_psi_le]; exact this),
      D1_extTrain_mir, D1_cform_mir]

/-- general form of item 1: only sortedness and non-emptiness of the two trains are used -/
theorem D1_spikeSpec_mirror_gen (t1 t2 : List Q) (ts te m : Q) (ri : Bool) (t : Q) (right : Bool)
    (h1 : t1.Pairwise (· < ·)) (hne1 : t1 ≠ []) (h2 : t2.Pairwise (· < ·)) (hne2 : t2 ≠ []) :
    spikeSpec (B9_mir ts te t1) (B9_mir ts te t2) ts te m ri (B9_psi ts te t) (!right)
      = spikeSpec t1 t2 ts te m ri t right := by
  unfold spikeSpec
  dsimp only
  rw [D1_contrib_mirror t1 t2 ts te t right h1 hne1, D1_contrib_mirror t2 t1 ts te t right h2 hne2]

/-- **item 1.** The defined SPIKE dissimilarity of the mirrored trains at the mirrored time, taken
    from the other side, equals that of the original trains (every time `t`, no exclusion). -/
theorem spikeSpec_mirror (t1 t2 : List Q) (ts te m : Q) (ri : Bool) (t : Q) (right : Bool)
    (h1 : ValidNE t1 ts te) (h2 : ValidNE t2 ts te) (_hlt : ts < te) :
    spikeSpec (B9_mir ts te t1) (B9_mir ts te t2) ts te m ri (B9_psi ts te t) (!right)
      = spikeSpec t1 t2 ts te m ri t right :=
  D1_spikeSpec_mirror_gen t1 t2 ts te m ri t right h1.2.1 h1.1 h2.2.1 h2.1

example : spikeSpec (B9_mir 0 6 [0]) (B9_mir 0 6 [0, 4]) 0 6 0 false (B9_psi 0 6 4) (!true)
    = spikeSpec [0] [0, 4] 0 6 0 false 4 true :=
  spikeSpec_mirror _ _ _ _ _ _ _ _
    (by unfold ValidNE; refine ⟨by simp, by decide +kernel, by decide +kernel⟩)
    (by unfold ValidNE; refine ⟨by simp, by decide +kernel, by decide +kernel⟩) (by norm_num)

/-! ## item 2: the profile of the mirrored trains -/

/-- the excluded class (known finding F9 and its mirror image) in plain words: the train is exactly
    one spike on `t_start` or exactly one spike on `t_end` -/
theorem D1_excluded_iff (s : List Q) (ts te : Q) :
    (¬ OneSpikeOnStart s ts ∧ ¬ OneSpikeOnStart (B9_mir ts te s) ts) ↔ (s ≠ [ts] ∧ s ≠ [te]) := by
  have e : B9_mir ts te s = [ts] ↔ s = [te] := by
    constructor
    · intro h
      have := congrArg (B9_mir ts te) h
      rwa [B9_mir_mir, D1_mir_singleton, B9_psi_ts] at this
    · intro h; rw [h, D1_mir_singleton, B9_psi_te]
  unfold OneSpikeOnStart
  rw [e]

theorem D1_map_mir {β} (ts te : Q) (f : Q → β) (l : List Q) :
    (B9_mir ts te l).map f = (l.map fun x => f (B9_psi ts te x)).reverse := by
  unfold B9_mir
  rw [List.map_reverse, List.map_map]
  rfl

/-- **item 2.** Outside the class of known finding F9 (no train is exactly one spike on `t_start` or
    exactly one spike on `t_end`) time reversal mirrors the SPIKE-profile: breakpoints mirrored,
    `y1` and `y2` exchanged and reversed. -/
theorem spikeProfile_mirror (t1 t2 : List Q) (ts te m : Q) (ri : Bool)
    (h1 : ValidNE t1 ts te) (h2 : ValidNE t2 ts te) (hlt : ts < te)
    (hn1 : t1 ≠ [ts] ∧ t1 ≠ [te]) (hn2 : t2 ≠ [ts] ∧ t2 ≠ [te]) :
    (spikeProfile (B9_mir ts te t1) (B9_mir ts te t2) ts te m ri).1
        = B9_mir ts te (spikeProfile t1 t2 ts te m ri).1 ∧
    (spikeProfile (B9_mir ts te t1) (B9_mir ts te t2) ts te m ri).2.1
        = (spikeProfile t1 t2 ts te m ri).2.2.reverse ∧
    (spikeProfile (B9_mir ts te t1) (B9_mir ts te t2) ts te m ri).2.2
        = (spikeProfile t1 t2 ts te m ri).2.1.reverse := by
  obtain ⟨hn1a, hn1b⟩ := (D1_excluded_iff t1 ts te).mpr hn1
  obtain ⟨hn2a, hn2b⟩ := (D1_excluded_iff t2 ts te).mpr hn2
  have hx : (spikeProfile (B9_mir ts te t1) (B9_mir ts te t2) ts te m ri).1
      = B9_mir ts te (spikeProfile t1 t2 ts te m ri).1 := by
    rw [spikeProfile_breaks, spikeProfile_breaks, B9_isiProfile_mirror_breaks _ _ _ _ _ hlt h1 h2]
  have hS := spikeProfile_eq_spec_partial t1 t2 ts te m ri h1 h2 hlt hn1a hn2a
  have hS' := spikeProfile_eq_spec_partial _ _ ts te m ri (B9_mir_valid h1) (B9_mir_valid h2) hlt
    hn1b hn2b
  rw [B4_specProfile_eq] at hS hS'
  rw [hx, B9_mir_dropLast, B9_mir_tail, D1_map_mir, D1_map_mir] at hS'
  simp only [Prod.mk.injEq] at hS hS'
  refine ⟨hx, ?_, ?_⟩
  · rw [hS'.1, hS.2]
    congr 1
    apply List.map_congr_left
    intro x _
    exact spikeSpec_mirror t1 t2 ts te m ri x false h1 h2 hlt
  · rw [hS'.2, hS.1]
    congr 1
    apply List.map_congr_left
    intro x _
    exact spikeSpec_mirror t1 t2 ts te m ri x true h1 h2 hlt

example : ValidNE [1, 3] 0 6 ∧ ValidNE [2, 3, 6] 0 6 ∧ (0 : Q) < 6 ∧
    (([1, 3] : List Q) ≠ [0] ∧ ([1, 3] : List Q) ≠ [6]) ∧
    (([2, 3, 6] : List Q) ≠ [0] ∧ ([2, 3, 6] : List Q) ≠ [6]) := by
  unfold ValidNE; decide +kernel

example : (spikeProfile (B9_mir 0 6 [1, 3]) (B9_mir 0 6 [2, 3, 6]) 0 6 0 false).2.1
    = (spikeProfile [1, 3] [2, 3, 6] 0 6 0 false).2.2.reverse :=
  (spikeProfile_mirror _ _ _ _ _ _
    (by unfold ValidNE; refine ⟨by simp, by decide +kernel, by decide +kernel⟩)
    (by unfold ValidNE; refine ⟨by simp, by decide +kernel, by decide +kernel⟩) (by norm_num)
    (by decide +kernel) (by decide +kernel)).2.1

/-! ## item 3: the SPIKE distance is unchanged by mirroring -/

/-- piece-wise mean of the two value arrays -/
def D1_mid (y1 y2 : List Q) : List Q := List.zipWith (fun a b => (a + b) / 2) y1 y2

theorem D1_pwl_pwc_aux : ∀ (xa xb y1 y2 : List Q),
    qsum (((xa.zip (xb.zip (y1.zip y2))).map fun p => (⟨p.1, p.2.1, p.2.2.1, p.2.2.2⟩ : Piece)).map
        fun p => (p.xr - p.xl) * ((p.yl + p.yr) / 2))
      = qsum ((xa.zip (xb.zip (D1_mid y1 y2))).map fun p => (p.2.1 - p.1) * p.2.2)
  | [], _, _, _ => by simp [qsum]
  | _ :: _, [], _, _ => by simp [qsum]
  | _ :: _, _ :: _, [], _ => by simp [qsum, D1_mid]
  | _ :: _, _ :: _, _ :: _, [] => by simp [qsum, D1_mid]
  | a :: xa, b :: xb, v :: y1, w :: y2 => by
    have ih := D1_pwl_pwc_aux xa xb y1 y2
    simp only [List.zip_cons_cons, List.map_cons, qsum, D1_mid, List.zipWith_cons_cons] at ih ⊢
    rw [ih]

/-- the integral of a piecewise linear function is that of the piecewise constant function of its
    piece means (trapezoid rule) -/
theorem D1_pwl_integralAll_eq (x y1 y2 : List Q) :
    (Pwl.mk x y1 y2).integralAll = (Pwc.mk x (D1_mid y1 y2)).integralAll :=
  D1_pwl_pwc_aux x x.tail y1 y2

theorem D1_mid_reverse (y1 y2 : List Q) (h : y2.length = y1.length) :
    D1_mid y2.reverse y1.reverse = (D1_mid y1 y2).reverse := by
  unfold D1_mid
  rw [List.reverse_zipWith h.symm]
  rw [List.zipWith_comm]
  congr 1
  funext a b
  rw [add_comm]

/-- reversing the time axis of a piecewise linear function (breakpoints mirrored, left and right
    limits exchanged, order reversed) leaves its integral unchanged -/
theorem D1_pwl_integralAll_mir (ts te : Q) (xs y1 y2 : List Q) (h1 : y1.length + 1 = xs.length)
    (h2 : y2.length = y1.length) :
    (Pwl.mk (B9_mir ts te xs) y2.reverse y1.reverse).integralAll = (Pwl.mk xs y1 y2).integralAll := by
  rw [D1_pwl_integralAll_eq, D1_pwl_integralAll_eq, D1_mid_reverse y1 y2 h2]
  apply B9_integralAll_mir
  unfold D1_mid
  rw [List.length_zipWith, h2, min_self, h1]

/-- … and its average over the whole support -/
theorem D1_pwl_avrgAll_mir (ts te : Q) (xs y1 y2 : List Q) (h1 : y1.length + 1 = xs.length)
    (h2 : y2.length = y1.length) :
    (Pwl.mk (B9_mir ts te xs) y2.reverse y1.reverse).avrgAll = (Pwl.mk xs y1 y2).avrgAll := by
  unfold Pwl.avrgAll
  rw [D1_pwl_integralAll_mir ts te xs y1 y2 h1 h2]
  congr 1
  show lastD (B9_mir ts te xs) 0 - (B9_mir ts te xs).headD 0 = lastD xs 0 - xs.headD 0
  cases xs with
  | nil => simp at h1
  | cons a xs =>
    rw [B9_lastD_mir, B9_headD_mir]
    unfold B9_psi
    simp only [List.headD_cons]
    ring

/-- **item 3 (kernel level).** Outside the class of finding F9 the SPIKE distance (average of the
    profile over the recording) is unchanged by time reversal. -/
theorem spikeDistance_mirror (t1 t2 : List Q) (ts te m : Q) (ri : Bool)
    (h1 : ValidNE t1 ts te) (h2 : ValidNE t2 ts te) (hlt : ts < te)
    (hn1 : t1 ≠ [ts] ∧ t1 ≠ [te]) (hn2 : t2 ≠ [ts] ∧ t2 ≠ [te]) :
    (Pwl.mk (spikeProfile (B9_mir ts te t1) (B9_mir ts te t2) ts te m ri).1
            (spikeProfile (B9_mir ts te t1) (B9_mir ts te t2) ts te m ri).2.1
            (spikeProfile (B9_mir ts te t1) (B9_mir ts te t2) ts te m ri).2.2).avrgAll
      = (Pwl.mk (spikeProfile t1 t2 ts te m ri).1 (spikeProfile t1 t2 ts te m ri).2.1
            (spikeProfile t1 t2 ts te m ri).2.2).avrgAll := by
  obtain ⟨e1, e2, e3⟩ := spikeProfile_mirror t1 t2 ts te m ri h1 h2 hlt hn1 hn2
  obtain ⟨l1, l2⟩ := spikeProfile_lengths t1 t2 ts te m ri
  rw [e1, e2, e3]
  exact D1_pwl_avrgAll_mir ts te _ _ _ l1 l2

example : (Pwl.mk (spikeProfile (B9_mir 0 6 [1, 3]) (B9_mir 0 6 [2, 3, 6]) 0 6 0 false).1
            (spikeProfile (B9_mir 0 6 [1, 3]) (B9_mir 0 6 [2, 3, 6]) 0 6 0 false).2.1
            (spikeProfile (B9_mir 0 6 [1, 3]) (B9_mir 0 6 [2, 3, 6]) 0 6 0 false).2.2).avrgAll
      = (Pwl.mk (spikeProfile [1, 3] [2, 3, 6] 0 6 0 false).1
            (spikeProfile [1, 3] [2, 3, 6] 0 6 0 false).2.1
            (spikeProfile [1, 3] [2, 3, 6] 0 6 0 false).2.2).avrgAll :=
  spikeDistance_mirror _ _ _ _ _ _
    (by unfold ValidNE; refine ⟨by simp, by decide +kernel, by decide +kernel⟩)
    (by unfold ValidNE; refine ⟨by simp, by decide +kernel, by decide +kernel⟩) (by norm_num)
    (by decide +kernel) (by decide +kernel)

/-! ### API level -/

/-- the time-reversed spike train object (same recording edges) -/
def D1_mirror (a : Train) : Train := ⟨B9_mir a.ts a.te a.spikes, a.ts, a.te⟩

theorem D1_mirror_valid (a : Train) (h : ValidTrain a) : ValidTrain (D1_mirror a) := by
  obtain ⟨hlt, hs, hb⟩ := h
  refine ⟨hlt, B9_mir_sorted hs, ?_⟩
  intro x hx
  have := hb _ (B9_mem_mir.mp hx)
  unfold B9_psi at this
  show a.ts ≤ x ∧ x ≤ a.te
  constructor <;> linarith [this.1, this.2]

/-- `get_spikes_non_empty` commutes with mirroring (an empty train becomes the two edges) -/
theorem D1_nonEmpty_mirror (a : Train) (hlt : a.ts < a.te) :
    (D1_mirror a).nonEmpty = B9_mir a.ts a.te a.nonEmpty := by
  unfold Train.nonEmpty D1_mirror
  by_cases he : a.spikes = []
  · simp only [he, D1_mir_nil, List.isEmpty_nil, if_true, hlt]
    rw [D1_mir_cons, D1_mir_singleton, B9_psi_ts, B9_psi_te]
    rfl
  · have he' : B9_mir a.ts a.te a.spikes ≠ [] := D1_mir_ne_nil he
    simp [he, he']

theorem D1_nonEmpty_ne (a : Train) (hlt : a.ts < a.te) (q : Q) (h : a.spikes ≠ [q]) :
    a.nonEmpty ≠ [q] := by
  unfold Train.nonEmpty
  by_cases he : a.spikes = []
  · simp [he, hlt]
  · simpa [he] using h

/-- **item 3 (API level).** `spike_distance(mirror a, mirror b) = spike_distance(a, b)` (whole
    recording, trains with common edges) outside the class of finding F9: neither train is exactly
    one spike on `t_start` or exactly one spike on `t_end`. -/
theorem spikeDistanceBi_mirror (kw : Kw) (a b : Train) (hrec : kw.recon = false)
    (hiv : kw.interval = none) (ha : ValidTrain a) (hb : ValidTrain b)
    (hts : b.ts = a.ts) (hte : b.te = a.te)
    (hna : a.spikes ≠ [a.ts] ∧ a.spikes ≠ [a.te]) (hnb : b.spikes ≠ [b.ts] ∧ b.spikes ≠ [b.te]) :
    spikeDistanceBi kw (D1_mirror a) (D1_mirror b) = spikeDistanceBi kw a b := by
  have hva := nonEmpty_valid a ha
  have hvb := nonEmpty_valid b hb
  have hna' := And.intro (D1_nonEmpty_ne a ha.1 _ hna.1) (D1_nonEmpty_ne a ha.1 _ hna.2)
  have hnb' := And.intro (D1_nonEmpty_ne b hb.1 _ hnb.1) (D1_nonEmpty_ne b hb.1 _ hnb.2)
  rw [hts, hte] at hvb hnb'
  unfold spikeDistanceBi spikeProfileBi prepBi pwlAvrgKw
  simp only [hrec, hiv, Bool.false_eq_true, if_false]
  rw [D1_nonEmpty_mirror a ha.1, D1_nonEmpty_mirror b hb.1, hts, hte]
  show some _ = some _
  congr 1
  exact spikeDistance_mirror a.nonEmpty b.nonEmpty a.ts a.te kw.mrts kw.ri hva hvb ha.1 hna' hnb'

example : spikeDistanceBi { recon := false } (D1_mirror ⟨[1, 3], 0, 6⟩) (D1_mirror ⟨[], 0, 6⟩)
    = spikeDistanceBi { recon := false } ⟨[1, 3], 0, 6⟩ ⟨[], 0, 6⟩ :=
  spikeDistanceBi_mirror _ _ _ rfl rfl ⟨by decide, by decide, by decide⟩
    ⟨by decide, by decide, by decide⟩ rfl rfl (by decide +kernel) (by decide +kernel)

/-! ## item 4: the exclusion is necessary (known finding F9) -/

/-- witness `[0]` vs `[0, 4]` on `[0, 6]` (a train that is one spike on `t_start`): the profile of
    the mirrored trains is not the mirrored profile … -/
example : (spikeProfile (B9_mir 0 6 [0]) (B9_mir 0 6 [0, 4]) 0 6 0 false).2.1
    ≠ (spikeProfile [0] [0, 4] 0 6 0 false).2.2.reverse := by decide +kernel

/-- … and the SPIKE distance changes (`4/25` against `6/25`) -/
example : (Pwl.mk (spikeProfile (B9_mir 0 6 [0]) (B9_mir 0 6 [0, 4]) 0 6 0 false).1
            (spikeProfile (B9_mir 0 6 [0]) (B9_mir 0 6 [0, 4]) 0 6 0 false).2.1
            (spikeProfile (B9_mir 0 6 [0]) (B9_mir 0 6 [0, 4]) 0 6 0 false).2.2).avrgAll
      ≠ (Pwl.mk (spikeProfile [0] [0, 4] 0 6 0 false).1 (spikeProfile [0] [0, 4] 0 6 0 false).2.1
            (spikeProfile [0] [0, 4] 0 6 0 false).2.2).avrgAll := by decide +kernel

/-- the same at API level -/
example : spikeDistanceBi { recon := false } (D1_mirror ⟨[0], 0, 6⟩) (D1_mirror ⟨[0, 4], 0, 6⟩)
    ≠ spikeDistanceBi { recon := false } ⟨[0], 0, 6⟩ ⟨[0, 4], 0, 6⟩ := by decide +kernel

/-- the witness is in the excluded class, while the specification is mirrored even there -/
example : ¬ (([0] : List Q) ≠ [0] ∧ ([0] : List Q) ≠ [6]) := by decide +kernel

end PySpike
