/-
  Proofs/PyxEq.lean — work package B3 (property C12): the Cython sources that are written differently
  from their pure-Python twins compute the same results.
-/
import PySpikeVerif.Model.Pyx
import PySpikeVerif.Spec.Isi
import PySpikeVerif.Proofs.Basic
import PySpikeVerif.Proofs.TauLaws
import PySpikeVerif.Proofs.FuncLaws
import PySpikeVerif.Proofs.Affine
import Mathlib.Tactic.Ring
import Mathlib.Tactic.Linarith
import Mathlib.Data.List.Basic

namespace PySpike

/-! ## 1. get_tau -/

theorem getTauPyx_eq (p1 c1 n1 p2 c2 n2 : Option Q) (M m : Q) :
    getTauPyx p1 c1 n1 p2 c2 n2 M m = getTau p1 c1 n1 p2 c2 n2 M m := by
  unfold getTauPyx getTau
  simp only [interpPyx_eq_interp]

example : getTauPyx (some 1) (some 2) (some 4) none (some 3) (some 7) 10 1
    = getTau (some 1) (some 2) (some 4) none (some 3) (some 7) 10 1 := getTauPyx_eq ..

/-! ## 2. ISI value -/

theorem isiValPyx_eq (n1 n2 m : Q) : isiValPyx n1 n2 m = isiVal n1 n2 m := by
  unfold isiValPyx isiVal
  rw [max_comm m]

example : isiValPyx 1 3 (1/2) = isiVal 1 3 (1/2) := isiValPyx_eq ..

/-! ## 3. ISI profile -/

/-- the per-train invariant tying the carried `nu` / the flag `N > 1` of the Cython code to the
    last consumed spike `p` kept by the model of the Python code -/
def B3_isiInv (multi : Bool) (p : Option Q) (rest : List Q) (nu : Q) : Prop :=
  ∀ a r', rest = a :: r' →
    match p with
    | some q => multi = true ∧ nu = a - q
    | none => (multi = true ↔ r' ≠ [])

theorem B3_nuAfterPyx_eq {multi : Bool} {p : Option Q} {a : Q} {r' : List Q} {nu : Q} (te : Q)
    (h : B3_isiInv multi p (a :: r') nu) : nuAfterPyx multi nu a r' te = nuAfter p a r' te := by
  have h' := h a r' rfl
  unfold nuAfterPyx nuAfter
  cases r' with
  | cons f r'' => rfl
  | nil =>
    cases p with
    | some q =>
      simp only at h'
      simp only [h'.1, if_true, h'.2]
    | none =>
      simp only at h'
      have : multi = false := by
        cases multi with
        | false => rfl
        | true => exact absurd rfl (h'.mp rfl)
      simp [this]

theorem B3_isiInv_advance {multi : Bool} {p : Option Q} {a : Q} {r' : List Q} {nu : Q} (te : Q)
    (h : B3_isiInv multi p (a :: r') nu) :
    B3_isiInv multi (some a) r' (nuAfterPyx multi nu a r' te) := by
  intro f r'' hr
  subst hr
  have h' := h a (f :: r'') rfl
  simp only
  refine ⟨?_, by simp [nuAfterPyx]⟩
  cases p with
  | some q => exact h'.1
  | none => exact h'.mpr (by simp)

theorem B3_isiInv_nil (multi : Bool) (p : Option Q) (nu : Q) : B3_isiInv multi p [] nu := by
  intro a r' h; cases h

theorem B3_isiLoopPyx_eq (te m : Q) (m1 m2 : Bool) :
    ∀ (p1 : Option Q) (r1 : List Q) (nu1 : Q) (p2 : Option Q) (r2 : List Q) (nu2 : Q),
      B3_isiInv m1 p1 r1 nu1 → B3_isiInv m2 p2 r2 nu2 →
      isiLoopPyx te m m1 m2 r1 nu1 r2 nu2 = isiLoop te m p1 r1 nu1 p2 r2 nu2 := by
  intro p1 r1 nu1 p2 r2 nu2
  induction p1, r1, nu1, p2, r2, nu2 using isiLoop.induct te with
  | case1 p1 nu1 p2 nu2 => intro _ _; rw [isiLoop, isiLoopPyx]
  | case2 p1 nu1 p2 nu2 a r1' nu1' ih =>
    intro h1 h2
    rw [isiLoop, isiLoopPyx]
    have e1 := B3_nuAfterPyx_eq te h1
    have i1 := B3_isiInv_advance te h1
    rw [e1] at i1 ⊢
    rw [isiValPyx_eq, ih i1 h2]
  | case3 p1 nu1 p2 nu2 b r2' nu2' ih =>
    intro h1 h2
    rw [isiLoop, isiLoopPyx]
    have e2 := B3_nuAfterPyx_eq te h2
    have i2 := B3_isiInv_advance te h2
    rw [e2] at i2 ⊢
    rw [isiValPyx_eq, ih h1 i2]
  | case4 p1 nu1 p2 nu2 a r1' b r2' hab nu1' ih =>
    intro h1 h2
    rw [isiLoop, isiLoopPyx, if_pos hab, if_pos hab]
    dsimp only
    have e1 := B3_nuAfterPyx_eq te h1
    have i1 := B3_isiInv_advance te h1
    rw [e1] at i1 ⊢
    rw [isiValPyx_eq, ih i1 h2]
  | case5 p1 nu1 p2 nu2 a r1' b r2' hab hba nu2' ih =>
    intro h1 h2
    rw [isiLoop, isiLoopPyx, if_neg hab, if_pos hba, if_neg hab, if_pos hba]
    dsimp only
    have e2 := B3_nuAfterPyx_eq te h2
    have i2 := B3_isiInv_advance te h2
    rw [e2] at i2 ⊢
    rw [isiValPyx_eq, ih h1 i2]
  | case6 p1 nu1 p2 nu2 a r1' b r2' hab hba nu1' nu2' ih =>
    intro h1 h2
    rw [isiLoop, isiLoopPyx, if_neg hab, if_neg hba, if_neg hab, if_neg hba]
    dsimp only
    have e1 := B3_nuAfterPyx_eq te h1
    have i1 := B3_isiInv_advance te h1
    have e2 := B3_nuAfterPyx_eq te h2
    have i2 := B3_isiInv_advance te h2
    rw [e1] at i1 ⊢
    rw [e2] at i2 ⊢
    rw [isiValPyx_eq, ih i1 i2]

theorem B3_isiInit_inv (s : List Q) (ts te : Q) :
    B3_isiInv (decide (s.length > 1)) (isiInit s ts te).prev (isiInit s ts te).rest
      (isiInit s ts te).nu := by
  cases s with
  | nil => exact B3_isiInv_nil _ _ _
  | cons a r =>
    unfold isiInit
    by_cases hat : a > ts
    · simp only [hat, if_true]
      intro a' r' h
      simp only [List.cons.injEq] at h
      obtain ⟨rfl, rfl⟩ := h
      cases r <;> simp
    · simp only [hat, if_false]
      intro b r' h
      subst h
      simp

theorem isiEventsPyx_eq (s1 s2 : List Q) (ts te m : Q) :
    isiEventsPyx s1 s2 ts te m = isiEvents s1 s2 ts te m := by
  unfold isiEventsPyx isiEvents
  dsimp only
  rw [isiValPyx_eq, B3_isiLoopPyx_eq te m _ _ _ _ _ _ _ _ (B3_isiInit_inv s1 ts te)
    (B3_isiInit_inv s2 ts te)]

/-- `isi_profile_cython` = `isi_distance_python`, for ALL inputs (no validity hypothesis needed) -/
theorem isiProfilePyx_eq (s1 s2 : List Q) (ts te m : Q) :
    isiProfilePyx s1 s2 ts te m = isiProfile s1 s2 ts te m := by
  unfold isiProfilePyx isiProfile
  rw [isiEventsPyx_eq]

example : isiProfilePyx [1, 2, 5] [3, 4] 0 6 (1/2) = isiProfile [1, 2, 5] [3, 4] 0 6 (1/2) :=
  isiProfilePyx_eq ..

/-! ## 4. SPIKE profile -/

theorem auxStartPyx_eq (t : List Q) (ts : Q) : auxStartPyx t ts = auxStart t ts := by
  match t with
  | [] => rfl
  | [_] => rfl
  | a :: b :: r =>
    show min ts (2 * a - b) = min ts (a - (b - a))
    congr 1; ring

theorem auxEndPyx_eq (t : List Q) (te : Q) : auxEndPyx t te = auxEnd t te := by
  induction t using auxEndPyx.induct with
  | case1 => rfl
  | case2 x => rfl
  | case3 p l =>
    show max te (2 * l - p) = max te (l + (l - p))
    congr 1; ring
  | case4 a b c r ih =>
    rw [auxEndPyx, auxEnd, ih]

theorem spikeProfilePyx_eq (t1 t2 : List Q) (ts te m : Q) (ri : Bool) :
    spikeProfilePyx t1 t2 ts te m ri = spikeProfile t1 t2 ts te m ri := by
  unfold spikeProfilePyx spikeEventsPyx spikeProfile
  simp only [auxStartPyx_eq, auxEndPyx_eq]

example : spikeProfilePyx [1, 2, 5] [3, 4] 0 6 (1/2) false
    = spikeProfile [1, 2, 5] [3, 4] 0 6 (1/2) false := spikeProfilePyx_eq ..

/-! ## 5. single-pass ISI distance -/

theorem B3_lastD_append_singleton {α} (l : List α) (a d : α) : lastD (l ++ [a]) d = a := by
  induction l with
  | nil => rfl
  | cons b l ih =>
    cases l with
    | nil => rfl
    | cons c l' => exact ih

theorem B3_lastD_of_getLast? {α} (l : List α) (a d : α) (h : l.getLast? = some a) : lastD l d = a := by
  induction l with
  | nil => simp at h
  | cons b l ih =>
    cases l with
    | nil => simpa [lastD] using h
    | cons c l' =>
      rw [List.getLast?_cons_cons] at h
      exact ih h

/-- the accumulator of `isi_distance_cython` = integral of the profile with `te` appended -/
theorem B3_accumPwc_append (te : Q) : ∀ (evs : List (Q × Q)) (t0 v0 : Q),
    Pwc.integralAll ⟨(t0 :: evs.map (·.1)) ++ [te], v0 :: evs.map (·.2)⟩ = accumPwc t0 v0 evs te := by
  intro evs
  induction evs with
  | nil =>
    intro t0 v0
    simp [Pwc.integralAll, Pwc.pieces, accumPwc, qsum]
    ring
  | cons e r ih =>
    intro t0 v0
    obtain ⟨t, v⟩ := e
    have := ih t v
    simp only [Pwc.integralAll, Pwc.pieces, List.map_cons, List.cons_append, List.tail_cons,
      List.zip_cons_cons, qsum, accumPwc] at this ⊢
    rw [this]; ring

/-- … and of the profile with the zero-width last piece dropped, when the last event is `te` -/
theorem B3_accumPwc_dropLast (te : Q) : ∀ (evs : List (Q × Q)) (t0 v0 : Q),
    (((t0, v0) :: evs).getLast?.map (·.1)) = some te →
    Pwc.integralAll ⟨t0 :: evs.map (·.1), (v0 :: evs.map (·.2)).dropLast⟩ = accumPwc t0 v0 evs te := by
  intro evs
  induction evs with
  | nil =>
    intro t0 v0 h
    simp at h
    simp [Pwc.integralAll, Pwc.pieces, accumPwc, qsum, h]
  | cons e r ih =>
    intro t0 v0 h
    obtain ⟨t, v⟩ := e
    rw [List.getLast?_cons_cons] at h
    have := ih t v h
    simp only [Pwc.integralAll, Pwc.pieces, List.map_cons, List.tail_cons,
      List.zip_cons_cons, qsum, accumPwc, List.dropLast_cons_cons] at this ⊢
    rw [this]; ring

theorem B3_finishPwc_integral (te t0 v0 : Q) (evs : List (Q × Q)) :
    (Pwc.mk (finishPwc ((t0, v0) :: evs) te).1 (finishPwc ((t0, v0) :: evs) te).2).integralAll
      = accumPwc t0 v0 evs te := by
  unfold finishPwc
  split
  · rename_i h
    exact B3_accumPwc_dropLast te evs t0 v0 h
  · exact B3_accumPwc_append te evs t0 v0

theorem B3_finishPwc_ends (te t0 v0 : Q) (evs : List (Q × Q)) :
    (finishPwc ((t0, v0) :: evs) te).1.headD 0 = t0 ∧ lastD (finishPwc ((t0, v0) :: evs) te).1 0 = te := by
  unfold finishPwc
  split
  · rename_i h
    refine ⟨rfl, ?_⟩
    apply B3_lastD_of_getLast?
    rw [List.getLast?_map]; exact h
  · exact ⟨rfl, B3_lastD_append_singleton _ _ _⟩

/-- `isi_distance_cython` = `avrg()` of the profile of `isi_distance_python`, for ALL inputs -/
theorem B3_isiDistancePyx_eq_avrg_all (s1 s2 : List Q) (ts te m : Q) :
    isiDistancePyx s1 s2 ts te m
      = (Pwc.mk (isiProfile s1 s2 ts te m).1 (isiProfile s1 s2 ts te m).2).avrgAll := by
  unfold isiDistancePyx isiProfile Pwc.avrgAll
  rw [isiEventsPyx_eq]
  unfold isiEvents
  dsimp only
  rw [B3_finishPwc_integral, (B3_finishPwc_ends _ _ _ _).1, (B3_finishPwc_ends _ _ _ _).2]

/-- the statement of the work package (the validity hypotheses are not needed) -/
theorem isiDistancePyx_eq_avrg (s1 s2 : List Q) (ts te m : Q)
    (_h1 : ValidNE s1 ts te) (_h2 : ValidNE s2 ts te) (_hlt : ts < te) :
    isiDistancePyx s1 s2 ts te m
      = (Pwc.mk (isiProfile s1 s2 ts te m).1 (isiProfile s1 s2 ts te m).2).avrgAll :=
  B3_isiDistancePyx_eq_avrg_all s1 s2 ts te m

example : ValidNE [1, 2, 5] 0 6 ∧ ValidNE [3, 4, 6] 0 6 ∧ (0 : Q) < 6 := by
  refine ⟨⟨by simp, by norm_num, ?_⟩, ⟨by simp, by norm_num, ?_⟩, by norm_num⟩ <;>
  · intro x hx
    simp only [List.mem_cons, List.not_mem_nil, or_false] at hx
    rcases hx with rfl | rfl | rfl <;> norm_num

/-! ## 6. single-pass SPIKE distance -/

theorem B3_accumPwl_append (te yf : Q) : ∀ (evs : List (Q × Q × Q)) (t0 y0 : Q),
    Pwl.integralAll ⟨(t0 :: evs.map (·.1)) ++ [te], y0 :: evs.map (·.2.2), evs.map (·.2.1) ++ [yf]⟩
      = accumPwl t0 y0 evs te yf := by
  intro evs
  induction evs with
  | nil =>
    intro t0 y0
    simp [Pwl.integralAll, Pwl.pieces, accumPwl, qsum]
    ring
  | cons e r ih =>
    intro t0 y0
    obtain ⟨t, ye, ys⟩ := e
    have := ih t ys
    simp only [Pwl.integralAll, Pwl.pieces, List.map_cons, List.cons_append, List.tail_cons,
      List.zip_cons_cons, qsum, accumPwl] at this ⊢
    rw [this]; ring

theorem B3_accumPwl_dropLast (te yf : Q) : ∀ (evs : List (Q × Q × Q)) (t0 y0 : Q),
    (t0 :: evs.map (·.1)).getLast? = some te →
    Pwl.integralAll ⟨t0 :: evs.map (·.1), (y0 :: evs.map (·.2.2)).dropLast, evs.map (·.2.1)⟩
      = accumPwl t0 y0 evs te yf := by
  intro evs
  induction evs with
  | nil =>
    intro t0 y0 h
    simp at h
    simp [Pwl.integralAll, Pwl.pieces, accumPwl, qsum, h]
  | cons e r ih =>
    intro t0 y0 h
    obtain ⟨t, ye, ys⟩ := e
    rw [List.map_cons, List.getLast?_cons_cons] at h
    have := ih t ys h
    simp only [Pwl.integralAll, Pwl.pieces, List.map_cons, List.tail_cons,
      List.zip_cons_cons, qsum, accumPwl, List.dropLast_cons_cons] at this ⊢
    rw [this]; ring

/-- `spike_distance_cython` = `avrg()` of the profile of `spike_profile_cython`, for ALL inputs -/
theorem spikeDistancePyx_eq_avrg (t1 t2 : List Q) (ts te m : Q) (ri : Bool) :
    spikeDistancePyx t1 t2 ts te m ri
      = (Pwl.mk (spikeProfilePyx t1 t2 ts te m ri).1 (spikeProfilePyx t1 t2 ts te m ri).2.1
          (spikeProfilePyx t1 t2 ts te m ri).2.2).avrgAll := by
  unfold spikeDistancePyx spikeProfilePyx Pwl.avrgAll
  dsimp only
  split
  · rename_i h
    dsimp only
    rw [B3_accumPwl_dropLast te _ _ _ _ h, B3_lastD_of_getLast? _ _ _ h]
    rfl
  · dsimp only
    rw [B3_accumPwl_append, B3_lastD_append_singleton]
    rfl

/-- … hence of the profile of `spike_distance_python` -/
theorem spikeDistancePyx_eq_avrg_py (t1 t2 : List Q) (ts te m : Q) (ri : Bool) :
    spikeDistancePyx t1 t2 ts te m ri
      = (Pwl.mk (spikeProfile t1 t2 ts te m ri).1 (spikeProfile t1 t2 ts te m ri).2.1
          (spikeProfile t1 t2 ts te m ri).2.2).avrgAll := by
  rw [spikeDistancePyx_eq_avrg, spikeProfilePyx_eq]

/-! ## 7. single-pass counters -/

/-- the `hit` test of one step of `valueLoop` -/
def B3_hit (a : Q) (k : List Q) (tau : Q) : Bool :=
  match k with
  | j :: _ => decide (a - j < tau)
  | [] => false

theorem B3_valueLoop_eq2 (w1 w2 wt tm m : Q) (k1 k2 : List Q) (a : Q) (r1' : List Q) (acc mp : Q) :
    valueLoop w1 w2 wt tm m k1 (a :: r1') k2 [] acc mp
      = valueLoop w1 w2 wt tm m (a :: k1) r1' k2 []
          (if B3_hit a k2 (tauAt (a :: k1) r1' k2 [] tm m) then acc + w1 else acc) (mp + 1) := by
  cases k2 <;> (rw [valueLoop]; rfl)

theorem B3_valueLoop_eq3 (w1 w2 wt tm m : Q) (k1 k2 : List Q) (b : Q) (r2' : List Q) (acc mp : Q) :
    valueLoop w1 w2 wt tm m k1 [] k2 (b :: r2') acc mp
      = valueLoop w1 w2 wt tm m k1 [] (b :: k2) r2'
          (if B3_hit b k1 (tauAt k1 [] (b :: k2) r2' tm m) then acc + w2 else acc) (mp + 1) := by
  cases k1 <;> (rw [valueLoop]; rfl)

theorem B3_valueLoop_eq4 (w1 w2 wt tm m : Q) (k1 k2 : List Q) (a : Q) (r1' : List Q) (b : Q)
    (r2' : List Q) (acc mp : Q) (hab : a < b) :
    valueLoop w1 w2 wt tm m k1 (a :: r1') k2 (b :: r2') acc mp
      = valueLoop w1 w2 wt tm m (a :: k1) r1' k2 (b :: r2')
          (if B3_hit a k2 (tauAt (a :: k1) r1' k2 (b :: r2') tm m) then acc + w1 else acc) (mp + 1) := by
  rw [valueLoop, if_pos hab]; cases k2 <;> rfl

theorem B3_valueLoop_eq5 (w1 w2 wt tm m : Q) (k1 k2 : List Q) (a : Q) (r1' : List Q) (b : Q)
    (r2' : List Q) (acc mp : Q) (hab : ¬ a < b) (hba : b < a) :
    valueLoop w1 w2 wt tm m k1 (a :: r1') k2 (b :: r2') acc mp
      = valueLoop w1 w2 wt tm m k1 (a :: r1') (b :: k2) r2'
          (if B3_hit b k1 (tauAt k1 (a :: r1') (b :: k2) r2' tm m) then acc + w2 else acc) (mp + 1) := by
  rw [valueLoop, if_neg hab, if_pos hba]; cases k1 <;> rfl

theorem B3_valueLoop_eq6 (w1 w2 wt tm m : Q) (k1 k2 : List Q) (a : Q) (r1' : List Q) (b : Q)
    (r2' : List Q) (acc mp : Q) (hab : ¬ a < b) (hba : ¬ b < a) :
    valueLoop w1 w2 wt tm m k1 (a :: r1') k2 (b :: r2') acc mp
      = valueLoop w1 w2 wt tm m (a :: k1) r1' (b :: k2) r2' (acc + wt) (mp + 2) := by
  rw [valueLoop, if_neg hab, if_neg hba]

theorem B3_markHead_mp (v : Q) (out : List (Q × Q × Q)) :
    (markHead v out).map (·.2.2) = out.map (·.2.2) := by
  cases out with
  | nil => rfl
  | cons e r => obtain ⟨t, c, mp⟩ := e; rfl

theorem B3_scanOut_mp (v a : Q) (k : List Q) (tau : Q) (out : List (Q × Q × Q)) :
    qsum ((scanOut v a k tau out).map (·.2.2)) = 1 + qsum (out.map (·.2.2)) := by
  cases k with
  | nil => rfl
  | cons j t =>
    simp only [scanOut]
    split_ifs
    · simp only [List.map_cons, B3_markHead_mp, qsum]
    · simp only [List.map_cons, qsum]

/-- multiplicities: the counter `mp` of `valueLoop` = the sum of the multiplicities written by `scanLoop` -/
theorem B3_scan_mp (v1 v2 vt w1 w2 wt tm m : Q) :
    ∀ (k1 r1 k2 r2 : List Q) (out : List (Q × Q × Q)) (acc mp : Q),
      qsum ((scanLoop v1 v2 vt tm m k1 r1 k2 r2 out).map (·.2.2)) + mp
        = (valueLoop w1 w2 wt tm m k1 r1 k2 r2 acc mp).2 + qsum (out.map (·.2.2)) := by
  intro k1 r1 k2 r2 out
  induction k1, r1, k2, r2, out using scanLoop.induct v1 v2 vt tm m with
  | case1 k1 k2 out => intro acc mp; rw [scanLoop, valueLoop]; ring
  | case2 k1 k2 out a r1' tau out' ih =>
    intro acc mp
    have e : out' = scanOut v1 a k2 (tauAt (a :: k1) r1' k2 [] tm m) out := by cases k2 <;> rfl
    rw [e] at ih
    rw [scanLoop_eq2, B3_valueLoop_eq2]
    have := ih (if B3_hit a k2 (tauAt (a :: k1) r1' k2 [] tm m) then acc + w1 else acc) (mp + 1)
    rw [B3_scanOut_mp] at this
    linarith
  | case3 k1 k2 out b r2' tau out' ih =>
    intro acc mp
    have e : out' = scanOut v2 b k1 (tauAt k1 [] (b :: k2) r2' tm m) out := by cases k1 <;> rfl
    rw [e] at ih
    rw [scanLoop_eq3, B3_valueLoop_eq3]
    have := ih (if B3_hit b k1 (tauAt k1 [] (b :: k2) r2' tm m) then acc + w2 else acc) (mp + 1)
    rw [B3_scanOut_mp] at this
    linarith
  | case4 k1 k2 out a r1' b r2' hab tau out' ih =>
    intro acc mp
    have e : out' = scanOut v1 a k2 (tauAt (a :: k1) r1' k2 (b :: r2') tm m) out := by cases k2 <;> rfl
    rw [e] at ih
    rw [scanLoop_eq4 _ _ _ _ _ _ _ _ _ _ _ _ hab, B3_valueLoop_eq4 _ _ _ _ _ _ _ _ _ _ _ _ _ hab]
    have := ih (if B3_hit a k2 (tauAt (a :: k1) r1' k2 (b :: r2') tm m) then acc + w1 else acc) (mp + 1)
    rw [B3_scanOut_mp] at this
    linarith
  | case5 k1 k2 out a r1' b r2' hab hba tau out' ih =>
    intro acc mp
    have e : out' = scanOut v2 b k1 (tauAt k1 (a :: r1') (b :: k2) r2' tm m) out := by cases k1 <;> rfl
    rw [e] at ih
    rw [scanLoop_eq5 _ _ _ _ _ _ _ _ _ _ _ _ hab hba, B3_valueLoop_eq5 _ _ _ _ _ _ _ _ _ _ _ _ _ hab hba]
    have := ih (if B3_hit b k1 (tauAt k1 (a :: r1') (b :: k2) r2' tm m) then acc + w2 else acc) (mp + 1)
    rw [B3_scanOut_mp] at this
    linarith
  | case6 k1 k2 out a r1' b r2' hab hba ih =>
    intro acc mp
    rw [scanLoop_eq6 _ _ _ _ _ _ _ _ _ _ _ _ hab hba, B3_valueLoop_eq6 _ _ _ _ _ _ _ _ _ _ _ _ _ hab hba]
    have := ih (acc + wt) (mp + 2)
    simp only [List.map_cons, qsum] at this
    linarith

theorem B3_qsum_reverse (l : List Q) : qsum l.reverse = qsum l := by
  induction l with
  | nil => rfl
  | cons a l ih => rw [List.reverse_cons, qsum_append, ih]; simp only [qsum]; ring

theorem B3_frame_interior (ts te : Q) (entries : List (Q × Q × Q)) :
    (Disc.mk (frameProfile ts te entries)).interior = entries := by
  cases entries with
  | nil => rfl
  | cons f r =>
    simp only [Disc.interior, frameProfile, List.cons_append, List.tail_cons]
    rw [← List.cons_append, List.dropLast_concat]

/-- the multiplicity returned by `coincidence_value_cython` = multiplicity of the integral of the
    profile of `coincidence_python` (all inputs) -/
theorem coincValuePyx_mp (s1 s2 : List Q) (ts te mt m : Q) :
    (coincValuePyx s1 s2 ts te mt m).2 = (Disc.mk (coincProfile s1 s2 ts te mt m)).integralAll.2 := by
  unfold coincValuePyx coincProfile Disc.integralAll
  rw [B3_frame_interior]
  have := B3_scan_mp 1 1 2 2 2 2 (trueMax ts te mt) m [] s1 [] s2 [] 0 0
  simp only [List.map_nil, qsum] at this
  simp only [List.map_reverse, B3_qsum_reverse]
  linarith

example : (coincValuePyx [1, 2, 5] [3, 4] 0 6 0 0).2 = 5 := by
  rw [coincValuePyx_mp]; decide +kernel

theorem B3_scan_mp_ge (v1 v2 vt tm m : Q) :
    ∀ (k1 r1 k2 r2 : List Q) (out : List (Q × Q × Q)),
      qsum (out.map (·.2.2)) ≤ qsum ((scanLoop v1 v2 vt tm m k1 r1 k2 r2 out).map (·.2.2)) ∧
      ((r1 ≠ [] ∨ r2 ≠ []) →
        qsum (out.map (·.2.2)) < qsum ((scanLoop v1 v2 vt tm m k1 r1 k2 r2 out).map (·.2.2))) := by
  intro k1 r1 k2 r2 out
  induction k1, r1, k2, r2, out using scanLoop.induct v1 v2 vt tm m with
  | case1 k1 k2 out => rw [scanLoop]; simp
  | case2 k1 k2 out a r1' tau out' ih =>
    have e : out' = scanOut v1 a k2 (tauAt (a :: k1) r1' k2 [] tm m) out := by cases k2 <;> rfl
    rw [e] at ih
    rw [scanLoop_eq2]
    obtain ⟨ih1, _⟩ := ih
    rw [B3_scanOut_mp] at ih1
    exact ⟨by linarith, fun _ => by linarith⟩
  | case3 k1 k2 out b r2' tau out' ih =>
    have e : out' = scanOut v2 b k1 (tauAt k1 [] (b :: k2) r2' tm m) out := by cases k1 <;> rfl
    rw [e] at ih
    rw [scanLoop_eq3]
    obtain ⟨ih1, _⟩ := ih
    rw [B3_scanOut_mp] at ih1
    exact ⟨by linarith, fun _ => by linarith⟩
  | case4 k1 k2 out a r1' b r2' hab tau out' ih =>
    have e : out' = scanOut v1 a k2 (tauAt (a :: k1) r1' k2 (b :: r2') tm m) out := by cases k2 <;> rfl
    rw [e] at ih
    rw [scanLoop_eq4 _ _ _ _ _ _ _ _ _ _ _ _ hab]
    obtain ⟨ih1, _⟩ := ih
    rw [B3_scanOut_mp] at ih1
    exact ⟨by linarith, fun _ => by linarith⟩
  | case5 k1 k2 out a r1' b r2' hab hba tau out' ih =>
    have e : out' = scanOut v2 b k1 (tauAt k1 (a :: r1') (b :: k2) r2' tm m) out := by cases k1 <;> rfl
    rw [e] at ih
    rw [scanLoop_eq5 _ _ _ _ _ _ _ _ _ _ _ _ hab hba]
    obtain ⟨ih1, _⟩ := ih
    rw [B3_scanOut_mp] at ih1
    exact ⟨by linarith, fun _ => by linarith⟩
  | case6 k1 k2 out a r1' b r2' hab hba ih =>
    rw [scanLoop_eq6 _ _ _ _ _ _ _ _ _ _ _ _ hab hba]
    obtain ⟨ih1, _⟩ := ih
    simp only [List.map_cons, qsum] at ih1
    exact ⟨by linarith, fun _ => by linarith⟩

/-- `valueLoop` started with `mp = 0` counts something as soon as one train is non-empty -/
theorem B3_valueLoop_mp_pos (w1 w2 wt tm m : Q) (s1 s2 : List Q) (acc : Q)
    (h : ¬ (s1 = [] ∧ s2 = [])) : 0 < (valueLoop w1 w2 wt tm m [] s1 [] s2 acc 0).2 := by
  have e := B3_scan_mp 0 0 0 w1 w2 wt tm m [] s1 [] s2 [] acc 0
  have g := (B3_scan_mp_ge 0 0 0 tm m [] s1 [] s2 []).2 (by tauto)
  simp only [List.map_nil, qsum] at e g
  linarith

/-- without the `(1,1)` replacement, i.e. for not both trains empty: the multiplicity returned by
    `spike_train_order_cython` = multiplicity of the integral of `spike_train_order_profile_python` -/
theorem orderValuePyx_mp (s1 s2 : List Q) (ts te mt m : Q) (h : ¬ (s1 = [] ∧ s2 = [])) :
    (orderValuePyx s1 s2 ts te mt m).2 = (Disc.mk (orderProfile s1 s2 ts te mt m)).integralAll.2 := by
  have hpos := B3_valueLoop_mp_pos (-2) 2 0 (trueMax ts te mt) m s1 s2 0 h
  unfold orderValuePyx orderProfile Disc.integralAll
  rw [B3_frame_interior]
  dsimp only
  rw [if_neg (fun hc => absurd hc.2 (ne_of_gt hpos))]
  have := B3_scan_mp (-1) 1 0 (-2) 2 0 (trueMax ts te mt) m [] s1 [] s2 [] 0 0
  simp only [List.map_nil, qsum] at this
  simp only [List.map_reverse, B3_qsum_reverse]
  linarith

example : ¬ (([1, 2, 5] : List Q) = [] ∧ ([3, 4] : List Q) = []) := by simp

/-- for two empty trains the statement is false: Cython returns `(1, 1)`, the profile integrates to `(0, 0)` -/
example : (orderValuePyx [] [] 0 1 0 0).2 = 1 ∧ (Disc.mk (orderProfile [] [] 0 1 0 0)).integralAll.2 = 0 := by
  decide +kernel

/-! ### values, under the hypothesis that `markHead` never overwrites a non-zero entry -/

/-- the newest entry exists and has value 0 -/
def B3_headZero (out : List (Q × Q × Q)) : Bool :=
  match out with
  | (_, c, _) :: _ => decide (c = 0)
  | [] => false

/-- one step is safe: if the step is a hit, the entry that `markHead` rewrites is still 0 -/
def B3_stepSafe (a : Q) (k : List Q) (tau : Q) (out : List (Q × Q × Q)) : Bool :=
  !(B3_hit a k tau) || B3_headZero out

/-- "`markHead` never overwrites a non-zero entry" along the whole run of `scanLoop` (executable).
    For valid (strictly increasing) trains this is the one-to-one property of coincidences. -/
def B3_scanSafe (v1 v2 vt tm mrts : Q) (k1 r1 k2 r2 : List Q) (out : List (Q × Q × Q)) : Bool :=
  match r1, r2 with
  | [], [] => true
  | a :: r1', [] =>
    B3_stepSafe a k2 (tauAt (a :: k1) r1' k2 [] tm mrts) out &&
      B3_scanSafe v1 v2 vt tm mrts (a :: k1) r1' k2 []
        (scanOut v1 a k2 (tauAt (a :: k1) r1' k2 [] tm mrts) out)
  | [], b :: r2' =>
    B3_stepSafe b k1 (tauAt k1 [] (b :: k2) r2' tm mrts) out &&
      B3_scanSafe v1 v2 vt tm mrts k1 [] (b :: k2) r2'
        (scanOut v2 b k1 (tauAt k1 [] (b :: k2) r2' tm mrts) out)
  | a :: r1', b :: r2' =>
    if a < b then
      B3_stepSafe a k2 (tauAt (a :: k1) r1' k2 (b :: r2') tm mrts) out &&
        B3_scanSafe v1 v2 vt tm mrts (a :: k1) r1' k2 (b :: r2')
          (scanOut v1 a k2 (tauAt (a :: k1) r1' k2 (b :: r2') tm mrts) out)
    else if b < a then
      B3_stepSafe b k1 (tauAt k1 (a :: r1') (b :: k2) r2' tm mrts) out &&
        B3_scanSafe v1 v2 vt tm mrts k1 (a :: r1') (b :: k2) r2'
          (scanOut v2 b k1 (tauAt k1 (a :: r1') (b :: k2) r2' tm mrts) out)
    else
      B3_scanSafe v1 v2 vt tm mrts (a :: k1) r1' (b :: k2) r2' ((a, vt, 2) :: out)
termination_by r1.length + r2.length
decreasing_by all_goals (simp; try omega)

theorem B3_scanOut_val (v a : Q) (k : List Q) (tau : Q) (out : List (Q × Q × Q))
    (hs : B3_stepSafe a k tau out = true) :
    qsum ((scanOut v a k tau out).map (·.2.1))
      = (if B3_hit a k tau then 2 * v else 0) + qsum (out.map (·.2.1)) := by
  cases k with
  | nil => simp [scanOut, B3_hit, qsum]
  | cons j t =>
    simp only [scanOut, B3_hit]
    by_cases h : a - j < tau
    · simp only [h, if_true, decide_true]
      have hz : B3_headZero out = true := by
        simpa [B3_stepSafe, B3_hit, h] using hs
      match out, hz with
      | (t0, c, mp0) :: r, hz =>
        have hc : c = 0 := by simpa [B3_headZero] using hz
        subst hc
        simp only [markHead, List.map_cons, qsum]
        ring
    · simp only [h, if_false, decide_false, List.map_cons, qsum, Bool.false_eq_true]

/-- values: under `B3_scanSafe` the accumulator of `valueLoop` (2 per coincident pair) = the sum of the
    values written by `scanLoop` (1 for each of the two spikes of a pair) -/
theorem B3_scan_val (v1 v2 vt w1 w2 wt tm m : Q) (hw1 : w1 = 2 * v1) (hw2 : w2 = 2 * v2) (hwt : wt = vt) :
    ∀ (k1 r1 k2 r2 : List Q) (out : List (Q × Q × Q)) (acc mp : Q),
      B3_scanSafe v1 v2 vt tm m k1 r1 k2 r2 out = true →
      qsum ((scanLoop v1 v2 vt tm m k1 r1 k2 r2 out).map (·.2.1)) + acc
        = (valueLoop w1 w2 wt tm m k1 r1 k2 r2 acc mp).1 + qsum (out.map (·.2.1)) := by
  intro k1 r1 k2 r2 out
  induction k1, r1, k2, r2, out using scanLoop.induct v1 v2 vt tm m with
  | case1 k1 k2 out => intro acc mp _; rw [scanLoop, valueLoop]; ring
  | case2 k1 k2 out a r1' tau out' ih =>
    intro acc mp hs
    have e : out' = scanOut v1 a k2 (tauAt (a :: k1) r1' k2 [] tm m) out := by cases k2 <;> rfl
    rw [e] at ih
    rw [B3_scanSafe, Bool.and_eq_true] at hs
    rw [scanLoop_eq2, B3_valueLoop_eq2]
    have := ih (if B3_hit a k2 (tauAt (a :: k1) r1' k2 [] tm m) then acc + w1 else acc) (mp + 1) hs.2
    rw [B3_scanOut_val _ _ _ _ _ hs.1] at this
    split_ifs at this ⊢ <;> linarith
  | case3 k1 k2 out b r2' tau out' ih =>
    intro acc mp hs
    have e : out' = scanOut v2 b k1 (tauAt k1 [] (b :: k2) r2' tm m) out := by cases k1 <;> rfl
    rw [e] at ih
    rw [B3_scanSafe, Bool.and_eq_true] at hs
    rw [scanLoop_eq3, B3_valueLoop_eq3]
    have := ih (if B3_hit b k1 (tauAt k1 [] (b :: k2) r2' tm m) then acc + w2 else acc) (mp + 1) hs.2
    rw [B3_scanOut_val _ _ _ _ _ hs.1] at this
    split_ifs at this ⊢ <;> linarith
  | case4 k1 k2 out a r1' b r2' hab tau out' ih =>
    intro acc mp hs
    have e : out' = scanOut v1 a k2 (tauAt (a :: k1) r1' k2 (b :: r2') tm m) out := by cases k2 <;> rfl
    rw [e] at ih
    rw [B3_scanSafe, if_pos hab, Bool.and_eq_true] at hs
    rw [scanLoop_eq4 _ _ _ _ _ _ _ _ _ _ _ _ hab, B3_valueLoop_eq4 _ _ _ _ _ _ _ _ _ _ _ _ _ hab]
    have := ih (if B3_hit a k2 (tauAt (a :: k1) r1' k2 (b :: r2') tm m) then acc + w1 else acc) (mp + 1) hs.2
    rw [B3_scanOut_val _ _ _ _ _ hs.1] at this
    split_ifs at this ⊢ <;> linarith
  | case5 k1 k2 out a r1' b r2' hab hba tau out' ih =>
    intro acc mp hs
    have e : out' = scanOut v2 b k1 (tauAt k1 (a :: r1') (b :: k2) r2' tm m) out := by cases k1 <;> rfl
    rw [e] at ih
    rw [B3_scanSafe, if_neg hab, if_pos hba, Bool.and_eq_true] at hs
    rw [scanLoop_eq5 _ _ _ _ _ _ _ _ _ _ _ _ hab hba, B3_valueLoop_eq5 _ _ _ _ _ _ _ _ _ _ _ _ _ hab hba]
    have := ih (if B3_hit b k1 (tauAt k1 (a :: r1') (b :: k2) r2' tm m) then acc + w2 else acc) (mp + 1) hs.2
    rw [B3_scanOut_val _ _ _ _ _ hs.1] at this
    split_ifs at this ⊢ <;> linarith
  | case6 k1 k2 out a r1' b r2' hab hba ih =>
    intro acc mp hs
    rw [B3_scanSafe, if_neg hab, if_neg hba] at hs
    rw [scanLoop_eq6 _ _ _ _ _ _ _ _ _ _ _ _ hab hba, B3_valueLoop_eq6 _ _ _ _ _ _ _ _ _ _ _ _ _ hab hba]
    have := ih (acc + wt) (mp + 2) hs
    simp only [List.map_cons, qsum] at this
    linarith

/-- the coincidence count of `coincidence_value_cython` = value of the integral of the profile of
    `coincidence_python`, provided no coincidence mark overwrites an earlier one -/
theorem coincValuePyx_val (s1 s2 : List Q) (ts te mt m : Q)
    (hs : B3_scanSafe 1 1 2 (trueMax ts te mt) m [] s1 [] s2 [] = true) :
    (coincValuePyx s1 s2 ts te mt m).1 = (Disc.mk (coincProfile s1 s2 ts te mt m)).integralAll.1 := by
  unfold coincValuePyx coincProfile Disc.integralAll
  rw [B3_frame_interior]
  have := B3_scan_val 1 1 2 2 2 2 (trueMax ts te mt) m (by norm_num) (by norm_num) rfl
    [] s1 [] s2 [] 0 0 hs
  simp only [List.map_nil, qsum] at this
  simp only [List.map_reverse, B3_qsum_reverse]
  linarith

example : B3_scanSafe 1 1 2 (trueMax 0 6 0) 0 [] [1, 2, 5] [] [3/2, 4] [] = true := by decide +kernel

/-- the same for `spike_train_order_cython` (not both trains empty) -/
theorem orderValuePyx_val (s1 s2 : List Q) (ts te mt m : Q) (h : ¬ (s1 = [] ∧ s2 = []))
    (hs : B3_scanSafe (-1) 1 0 (trueMax ts te mt) m [] s1 [] s2 [] = true) :
    (orderValuePyx s1 s2 ts te mt m).1 = (Disc.mk (orderProfile s1 s2 ts te mt m)).integralAll.1 := by
  have hpos := B3_valueLoop_mp_pos (-2) 2 0 (trueMax ts te mt) m s1 s2 0 h
  unfold orderValuePyx orderProfile Disc.integralAll
  rw [B3_frame_interior]
  dsimp only
  rw [if_neg (fun hc => absurd hc.2 (ne_of_gt hpos))]
  have := B3_scan_val (-1) 1 0 (-2) 2 0 (trueMax ts te mt) m (by norm_num) (by norm_num) rfl
    [] s1 [] s2 [] 0 0 hs
  simp only [List.map_nil, qsum] at this
  simp only [List.map_reverse, B3_qsum_reverse]
  linarith

example : B3_scanSafe (-1) 1 0 (trueMax 0 6 0) 0 [] [1, 2, 5] [] [3/2, 4] [] = true := by decide +kernel

/-! ### `spike_directionality_cython` vs `spike_directionality_profile_python` -/

/-- train 1 advances: its new spike gets -1 on a hit (and the newest spike of train 2 gets 1) -/
def B3_dStep1 (h : Bool) (d1 d2 : List Q) : List Q × List Q :=
  if h then ((-1) :: d1, setHead 1 d2) else (0 :: d1, d2)

/-- train 2 advances -/
def B3_dStep2 (h : Bool) (d1 d2 : List Q) : List Q × List Q :=
  if h then (setHead 1 d1, (-1) :: d2) else (d1, 0 :: d2)

theorem B3_dirLoop_eq2 (tm m : Q) (k1 k2 : List Q) (a : Q) (r1' : List Q) (d1 d2 : List Q) :
    dirLoop tm m k1 (a :: r1') k2 [] d1 d2
      = dirLoop tm m (a :: k1) r1' k2 []
          (B3_dStep1 (B3_hit a k2 (tauAt (a :: k1) r1' k2 [] tm m)) d1 d2).1
          (B3_dStep1 (B3_hit a k2 (tauAt (a :: k1) r1' k2 [] tm m)) d1 d2).2 := by
  cases k2 with
  | nil => rw [dirLoop]; rfl
  | cons j t =>
    rw [dirLoop]
    simp only [B3_hit, B3_dStep1]
    by_cases h : a - j < tauAt (a :: k1) r1' (j :: t) [] tm m <;> simp [h]

theorem B3_dirLoop_eq3 (tm m : Q) (k1 k2 : List Q) (b : Q) (r2' : List Q) (d1 d2 : List Q) :
    dirLoop tm m k1 [] k2 (b :: r2') d1 d2
      = dirLoop tm m k1 [] (b :: k2) r2'
          (B3_dStep2 (B3_hit b k1 (tauAt k1 [] (b :: k2) r2' tm m)) d1 d2).1
          (B3_dStep2 (B3_hit b k1 (tauAt k1 [] (b :: k2) r2' tm m)) d1 d2).2 := by
  cases k1 with
  | nil => rw [dirLoop]; rfl
  | cons i t =>
    rw [dirLoop]
    simp only [B3_hit, B3_dStep2]
    by_cases h : b - i < tauAt (i :: t) [] (b :: k2) r2' tm m <;> simp [h]

theorem B3_dirLoop_eq4 (tm m : Q) (k1 k2 : List Q) (a : Q) (r1' : List Q) (b : Q) (r2' : List Q)
    (d1 d2 : List Q) (hab : a < b) :
    dirLoop tm m k1 (a :: r1') k2 (b :: r2') d1 d2
      = dirLoop tm m (a :: k1) r1' k2 (b :: r2')
          (B3_dStep1 (B3_hit a k2 (tauAt (a :: k1) r1' k2 (b :: r2') tm m)) d1 d2).1
          (B3_dStep1 (B3_hit a k2 (tauAt (a :: k1) r1' k2 (b :: r2') tm m)) d1 d2).2 := by
  rw [dirLoop, if_pos hab]
  cases k2 with
  | nil => rfl
  | cons j t =>
    simp only [B3_hit, B3_dStep1]
    by_cases h : a - j < tauAt (a :: k1) r1' (j :: t) (b :: r2') tm m <;> simp [h]

theorem B3_dirLoop_eq5 (tm m : Q) (k1 k2 : List Q) (a : Q) (r1' : List Q) (b : Q) (r2' : List Q)
    (d1 d2 : List Q) (hab : ¬ a < b) (hba : b < a) :
    dirLoop tm m k1 (a :: r1') k2 (b :: r2') d1 d2
      = dirLoop tm m k1 (a :: r1') (b :: k2) r2'
          (B3_dStep2 (B3_hit b k1 (tauAt k1 (a :: r1') (b :: k2) r2' tm m)) d1 d2).1
          (B3_dStep2 (B3_hit b k1 (tauAt k1 (a :: r1') (b :: k2) r2' tm m)) d1 d2).2 := by
  rw [dirLoop, if_neg hab, if_pos hba]
  cases k1 with
  | nil => rfl
  | cons i t =>
    simp only [B3_hit, B3_dStep2]
    by_cases h : b - i < tauAt (i :: t) (a :: r1') (b :: k2) r2' tm m <;> simp [h]

theorem B3_dirLoop_eq6 (tm m : Q) (k1 k2 : List Q) (a : Q) (r1' : List Q) (b : Q) (r2' : List Q)
    (d1 d2 : List Q) (hab : ¬ a < b) (hba : ¬ b < a) :
    dirLoop tm m k1 (a :: r1') k2 (b :: r2') d1 d2
      = dirLoop tm m (a :: k1) r1' (b :: k2) r2' (0 :: d1) (0 :: d2) := by
  rw [dirLoop, if_neg hab, if_neg hba]

/-- the newest value exists and is 0 -/
def B3_headZeroQ (d : List Q) : Bool :=
  match d with
  | c :: _ => decide (c = 0)
  | [] => false

/-- "`d1[i] = 1` never overwrites a non-zero entry" along the whole run of `dirLoop` (executable);
    only the values `d1` of train 1 matter for `np.sum(d1)` -/
def B3_dirSafe (tm mrts : Q) (k1 r1 k2 r2 : List Q) (d1 : List Q) : Bool :=
  match r1, r2 with
  | [], [] => true
  | a :: r1', [] =>
    B3_dirSafe tm mrts (a :: k1) r1' k2 []
      ((if B3_hit a k2 (tauAt (a :: k1) r1' k2 [] tm mrts) then -1 else 0) :: d1)
  | [], b :: r2' =>
    (!(B3_hit b k1 (tauAt k1 [] (b :: k2) r2' tm mrts)) || B3_headZeroQ d1) &&
      B3_dirSafe tm mrts k1 [] (b :: k2) r2'
        (if B3_hit b k1 (tauAt k1 [] (b :: k2) r2' tm mrts) then setHead 1 d1 else d1)
  | a :: r1', b :: r2' =>
    if a < b then
      B3_dirSafe tm mrts (a :: k1) r1' k2 (b :: r2')
        ((if B3_hit a k2 (tauAt (a :: k1) r1' k2 (b :: r2') tm mrts) then -1 else 0) :: d1)
    else if b < a then
      (!(B3_hit b k1 (tauAt k1 (a :: r1') (b :: k2) r2' tm mrts)) || B3_headZeroQ d1) &&
        B3_dirSafe tm mrts k1 (a :: r1') (b :: k2) r2'
          (if B3_hit b k1 (tauAt k1 (a :: r1') (b :: k2) r2' tm mrts) then setHead 1 d1 else d1)
    else
      B3_dirSafe tm mrts (a :: k1) r1' (b :: k2) r2' (0 :: d1)
termination_by r1.length + r2.length
decreasing_by all_goals (simp; try omega)

theorem B3_dStep1_fst (h : Bool) (d1 d2 : List Q) :
    (B3_dStep1 h d1 d2).1 = (if h then -1 else 0) :: d1 := by
  cases h <;> rfl

theorem B3_dStep2_fst (h : Bool) (d1 d2 : List Q) :
    (B3_dStep2 h d1 d2).1 = if h then setHead 1 d1 else d1 := by
  cases h <;> rfl

theorem B3_setHead_sum (h : Bool) (d1 : List Q) (hs : (!h || B3_headZeroQ d1) = true) :
    qsum (if h then setHead 1 d1 else d1) = (if h then 1 else 0) + qsum d1 := by
  cases h with
  | false => simp
  | true =>
    simp only [Bool.not_true, Bool.false_or] at hs
    match d1, hs with
    | c :: r, hs =>
      have hc : c = 0 := by simpa [B3_headZeroQ] using hs
      subst hc
      simp only [if_true, setHead, qsum]
      ring

theorem B3_dir_val (tm m : Q) :
    ∀ (k1 r1 k2 r2 d1 d2 : List Q) (acc mp : Q),
      B3_dirSafe tm m k1 r1 k2 r2 d1 = true →
      qsum (dirLoop tm m k1 r1 k2 r2 d1 d2).1 + acc
        = (valueLoop (-1) 1 0 tm m k1 r1 k2 r2 acc mp).1 + qsum d1 := by
  intro k1 r1 k2 r2 d1
  induction k1, r1, k2, r2, d1 using B3_dirSafe.induct tm m with
  | case1 k1 k2 d1 => intro d2 acc mp _; rw [dirLoop, valueLoop]; ring
  | case2 k1 k2 d1 a r1' ih =>
    intro d2 acc mp hs
    rw [B3_dirSafe] at hs
    rw [B3_dirLoop_eq2, B3_valueLoop_eq2, B3_dStep1_fst]
    have := ih (B3_dStep1 (B3_hit a k2 (tauAt (a :: k1) r1' k2 [] tm m)) d1 d2).2
      (if B3_hit a k2 (tauAt (a :: k1) r1' k2 [] tm m) then acc + -1 else acc) (mp + 1) hs
    simp only [qsum] at this
    split_ifs at this ⊢ <;> linarith
  | case3 k1 k2 d1 b r2' ih =>
    intro d2 acc mp hs
    simp only [dite_eq_ite] at ih
    rw [B3_dirSafe, Bool.and_eq_true] at hs
    rw [B3_dirLoop_eq3, B3_valueLoop_eq3, B3_dStep2_fst]
    have := ih (B3_dStep2 (B3_hit b k1 (tauAt k1 [] (b :: k2) r2' tm m)) d1 d2).2
      (if B3_hit b k1 (tauAt k1 [] (b :: k2) r2' tm m) then acc + 1 else acc) (mp + 1) hs.2
    rw [B3_setHead_sum _ _ hs.1] at this
    split_ifs at this ⊢ <;> linarith
  | case4 k1 k2 d1 a r1' b r2' hab ih =>
    intro d2 acc mp hs
    rw [B3_dirSafe, if_pos hab] at hs
    rw [B3_dirLoop_eq4 _ _ _ _ _ _ _ _ _ _ hab, B3_valueLoop_eq4 _ _ _ _ _ _ _ _ _ _ _ _ _ hab,
      B3_dStep1_fst]
    have := ih (B3_dStep1 (B3_hit a k2 (tauAt (a :: k1) r1' k2 (b :: r2') tm m)) d1 d2).2
      (if B3_hit a k2 (tauAt (a :: k1) r1' k2 (b :: r2') tm m) then acc + -1 else acc) (mp + 1) hs
    simp only [qsum] at this
    split_ifs at this ⊢ <;> linarith
  | case5 k1 k2 d1 a r1' b r2' hab hba ih =>
    intro d2 acc mp hs
    simp only [dite_eq_ite] at ih
    rw [B3_dirSafe, if_neg hab, if_pos hba, Bool.and_eq_true] at hs
    rw [B3_dirLoop_eq5 _ _ _ _ _ _ _ _ _ _ hab hba, B3_valueLoop_eq5 _ _ _ _ _ _ _ _ _ _ _ _ _ hab hba,
      B3_dStep2_fst]
    have := ih (B3_dStep2 (B3_hit b k1 (tauAt k1 (a :: r1') (b :: k2) r2' tm m)) d1 d2).2
      (if B3_hit b k1 (tauAt k1 (a :: r1') (b :: k2) r2' tm m) then acc + 1 else acc) (mp + 1) hs.2
    rw [B3_setHead_sum _ _ hs.1] at this
    split_ifs at this ⊢ <;> linarith
  | case6 k1 k2 d1 a r1' b r2' hab hba ih =>
    intro d2 acc mp hs
    rw [B3_dirSafe, if_neg hab, if_neg hba] at hs
    rw [B3_dirLoop_eq6 _ _ _ _ _ _ _ _ _ _ hab hba, B3_valueLoop_eq6 _ _ _ _ _ _ _ _ _ _ _ _ _ hab hba]
    have := ih (0 :: d2) (acc + 0) (mp + 2) hs
    simp only [qsum] at this
    linarith

/-- `spike_directionality_cython` = `np.sum(d1)` of `spike_directionality_profile_python`, provided no
    mark `d1[i] = 1` overwrites an earlier non-zero value -/
theorem dirValuePyx_val (s1 s2 : List Q) (ts te mt m : Q)
    (hs : B3_dirSafe (trueMax ts te mt) m [] s1 [] s2 [] = true) :
    dirValuePyx s1 s2 ts te mt m = qsum (dirProfile s1 s2 ts te mt m).1 := by
  unfold dirValuePyx dirProfile
  have := B3_dir_val (trueMax ts te mt) m [] s1 [] s2 [] [] 0 0 hs
  simp only [qsum] at this
  simp only [B3_qsum_reverse]
  linarith

example : B3_dirSafe (trueMax 0 6 0) 0 [] [1, 3, 5] [] [9/10, 4, 51/10] [] = true := by decide +kernel

/-- both kinds of hits occur in this example: `d1 = [-1, 0, 1]` -/
example : (dirProfile [1, 3, 5] [9/10, 4, 51/10] 0 6 0 0).1 = [-1, 0, 1] := by decide +kernel

end PySpike
