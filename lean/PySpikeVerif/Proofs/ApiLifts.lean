/-
  Proofs/ApiLifts.lean (work package G2) — lifts to the public API for valid lists and every `kw`.
-/
import PySpikeVerif.Proofs.OrderApi
import PySpikeVerif.Proofs.AxiomLaws
import PySpikeVerif.Proofs.WindowLaws
import PySpikeVerif.Proofs.Assembled
import PySpikeVerif.Proofs.Completions

namespace PySpike
open PySpike.C01

/-! ## 0. helpers -/

theorem G2_isiDistanceBi_noRecon (kw : Kw) {ts te : Q} {a b : Train} (hv : C4_Valid ts te [a, b]) :
    isiDistanceBi kw.noRecon a b = isiDistanceBi kw a b := by
  simp only [isiDistanceBi, isiProfileBi, F3_prepBi_valid kw hv, F3_prepBi_valid kw.noRecon hv]
  rfl

theorem G2_spikeDistanceBi_noRecon (kw : Kw) {ts te : Q} {a b : Train} (hv : C4_Valid ts te [a, b]) :
    spikeDistanceBi kw.noRecon a b = spikeDistanceBi kw a b := by
  simp only [spikeDistanceBi, spikeProfileBi, F3_prepBi_valid kw hv, F3_prepBi_valid kw.noRecon hv]
  rfl

theorem G2_spikeSyncBi_noRecon (kw : Kw) {ts te : Q} {a b : Train} (hv : C4_Valid ts te [a, b]) :
    spikeSyncBi kw.noRecon a b = spikeSyncBi kw a b := by
  simp only [spikeSyncBi, syncValues, syncProfileBi, F3_prepBi_valid kw hv,
    F3_prepBi_valid kw.noRecon hv]
  rfl

theorem G2_ApiAgree_refl (kw : Kw) (L : List Train) : C4_ApiAgree kw L kw L :=
  ⟨fun _ => rfl, fun _ => rfl, fun _ => rfl, fun _ => rfl, fun _ => rfl, fun _ => rfl, fun _ => rfl,
   fun _ => rfl, fun _ => rfl, fun _ => rfl, fun _ => rfl, fun _ => rfl, fun _ => rfl,
   fun _ _ => rfl⟩

theorem G2_ApiAgreeBi_refl (kw : Kw) (a b : Train) : C4_ApiAgreeBi kw a b kw a b :=
  ⟨rfl, rfl, rfl, rfl, rfl, rfl, rfl, rfl, rfl, fun _ => rfl, fun _ => rfl⟩

/-- on a valid list every multivariate API function gives, for EVERY keyword record, the result of
    the same call with `Reconcile=False` -/
theorem G2_agree (kw : Kw) {ts te : Q} {L : List Train} (hv : C4_Valid ts te L) :
    C4_ApiAgree kw L kw.noRecon L := by
  cases hr : kw.recon with
  | false => rw [Kw.noRecon_eq kw hr]; exact G2_ApiAgree_refl kw L
  | true =>
    obtain ⟨m, ri, mt, rc, iv⟩ := kw
    simp only at hr
    subst hr
    exact api_reconcile_switch_irrelevant ⟨m, ri, mt, true, iv⟩ L ts te hv

theorem G2_agreeBi (kw : Kw) {ts te : Q} {a b : Train} (hv : C4_Valid ts te [a, b]) :
    C4_ApiAgreeBi kw a b kw.noRecon a b := by
  cases hr : kw.recon with
  | false => rw [Kw.noRecon_eq kw hr]; exact G2_ApiAgreeBi_refl kw a b
  | true =>
    obtain ⟨m, ri, mt, rc, iv⟩ := kw
    simp only at hr
    subst hr
    exact api_reconcile_switch_irrelevant_bi ⟨m, ri, mt, true, iv⟩ a b ts te hv

theorem G2_valid_map_tr {ts te : Q} {L : List Train} (hv : C4_Valid ts te L) {idx : List Nat}
    (hl : idxValid idx L.length = true) : C4_Valid ts te (idx.map (tr L)) := by
  intro t ht
  obtain ⟨k, hk, rfl⟩ := List.mem_map.mp ht
  exact hv _ (B5_tr_mem L k (F3_idx_lt hl hk))

/-! ## 1. matrix entries on the public functions -/

/-- generic: for a `dist` that is symmetric on the trains of `L`, EVERY off-diagonal entry (above or
    below the diagonal) of the `sign = 1` matrix is the pair distance in the order `(i, j)` -/
theorem G2_genericDistanceMatrix_offdiag (dist : Train → Train → Option Q) (diag : Q)
    (idx : List Nat) (L : List Train) (M : List (List Q))
    (hs : ∀ p q, p < L.length → q < L.length → dist (tr L p) (tr L q) = dist (tr L q) (tr L p))
    (hl : idxValid idx L.length = true)
    (h : genericDistanceMatrix dist diag 1 idx L = some M) (i j : Nat)
    (hi : i < idx.length) (hj : j < idx.length) (hij : i ≠ j) :
    dist (tr L (idx.getD i 0)) (tr L (idx.getD j 0)) = some ((M.getD i []).getD j 0) := by
  rcases Nat.lt_or_gt_of_ne hij with hlt | hgt
  · exact genericDistanceMatrix_upper dist diag 1 idx L M h i j hlt hj
  · rw [hs _ _ (F3_idx_lt hl (F3_getD_mem idx i hi)) (F3_idx_lt hl (F3_getD_mem idx j hj)),
      genericDistanceMatrix_lower dist diag 1 idx L M h j i hgt hi, one_mul]
    exact genericDistanceMatrix_upper dist diag 1 idx L M h j i hgt hi

/-- **ISI-distance matrix, `indices = idx`** (valid list, every `kw`): off-diagonal entry `(i, j)` is
    the public bivariate ISI distance (same keywords) of the selected trains, the diagonal is 0 -/
theorem G2_isi_matrix_entries_C4 (kw : Kw) (idx : List Nat) (L : List Train) (ts te : Q)
    (hv : C4_Valid ts te L) (hl : idxValid idx L.length = true) (M : List (List Q))
    (h : isiDistanceMatrix kw (some idx) L = some M) (i j : Nat)
    (hi : i < idx.length) (hj : j < idx.length) :
    (i ≠ j → isiDistanceBi kw (tr L (idx.getD i 0)) (tr L (idx.getD j 0))
        = some ((M.getD i []).getD j 0)) ∧ (M.getD i []).getD i 0 = 0 := by
  unfold isiDistanceMatrix at h
  simp only [F3_prep_valid kw hv, resolveIdx] at h
  refine ⟨fun hij => ?_, genericDistanceMatrix_diag _ _ _ _ _ M h i hi⟩
  rw [← G2_isiDistanceBi_noRecon kw (F3_valid_pair hv (F3_idx_lt hl (F3_getD_mem idx i hi))
    (F3_idx_lt hl (F3_getD_mem idx j hj)))]
  refine G2_genericDistanceMatrix_offdiag _ 0 idx L M ?_ hl h i j hi hj hij
  intro p q hp hq
  have hpq := F3_valid_pair hv hp hq
  have e1 := (hpq (tr L p) (by simp)).1
  have e2 := (hpq (tr L q) (by simp))
  exact (F1_isiProfileBi_symm kw.noRecon _ _ (Or.inr ⟨e2.1.trans e1.symm,
    e2.2.1.trans ((hpq (tr L p) (by simp)).2.1).symm⟩)).2

theorem G2_pair_edges {ts te : Q} {L : List Train} (hv : C4_Valid ts te L) {p q : Nat}
    (hp : p < L.length) (hq : q < L.length) :
    (tr L q).ts = (tr L p).ts ∧ (tr L q).te = (tr L p).te ∧
    StrictSorted (tr L p).spikes ∧ StrictSorted (tr L q).spikes := by
  have a := hv _ (B5_tr_mem L p hp)
  have b := hv _ (B5_tr_mem L q hq)
  exact ⟨b.1.trans a.1.symm, b.2.1.trans a.2.1.symm, a.2.2.1, b.2.2.1⟩

/-- **SPIKE-distance matrix, `indices = idx`** -/
theorem G2_spike_matrix_entries_C4 (kw : Kw) (idx : List Nat) (L : List Train) (ts te : Q)
    (hv : C4_Valid ts te L) (hl : idxValid idx L.length = true) (M : List (List Q))
    (h : spikeDistanceMatrix kw (some idx) L = some M) (i j : Nat)
    (hi : i < idx.length) (hj : j < idx.length) :
    (i ≠ j → spikeDistanceBi kw (tr L (idx.getD i 0)) (tr L (idx.getD j 0))
        = some ((M.getD i []).getD j 0)) ∧ (M.getD i []).getD i 0 = 0 := by
  unfold spikeDistanceMatrix at h
  simp only [F3_prep_valid kw hv, resolveIdx] at h
  refine ⟨fun hij => ?_, genericDistanceMatrix_diag _ _ _ _ _ M h i hi⟩
  rw [← G2_spikeDistanceBi_noRecon kw (F3_valid_pair hv (F3_idx_lt hl (F3_getD_mem idx i hi))
    (F3_idx_lt hl (F3_getD_mem idx j hj)))]
  refine G2_genericDistanceMatrix_offdiag _ 0 idx L M ?_ hl h i j hi hj hij
  intro p q hp hq
  obtain ⟨e1, e2, -, -⟩ := G2_pair_edges hv hp hq
  exact spikeDistanceBi_symm _ _ kw.noRecon rfl e1 e2

/-- **SPIKE-Sync matrix, `indices = idx`**: diagonal 1 -/
theorem G2_sync_matrix_entries_C4 (kw : Kw) (idx : List Nat) (L : List Train) (ts te : Q)
    (hv : C4_Valid ts te L) (hl : idxValid idx L.length = true) (M : List (List Q))
    (h : spikeSyncMatrix kw (some idx) L = some M) (i j : Nat)
    (hi : i < idx.length) (hj : j < idx.length) :
    (i ≠ j → spikeSyncBi kw (tr L (idx.getD i 0)) (tr L (idx.getD j 0))
        = some ((M.getD i []).getD j 0)) ∧ (M.getD i []).getD i 0 = 1 := by
  unfold spikeSyncMatrix at h
  simp only [F3_prep_valid kw hv, resolveIdx] at h
  refine ⟨fun hij => ?_, genericDistanceMatrix_diag _ _ _ _ _ M h i hi⟩
  rw [← G2_spikeSyncBi_noRecon kw (F3_valid_pair hv (F3_idx_lt hl (F3_getD_mem idx i hi))
    (F3_idx_lt hl (F3_getD_mem idx j hj)))]
  refine G2_genericDistanceMatrix_offdiag _ 1 idx L M ?_ hl h i j hi hj hij
  intro p q hp hq
  obtain ⟨e1, e2, s1, s2⟩ := G2_pair_edges hv hp hq
  exact (F1_syncProfileBi_symm kw.noRecon _ _ (Or.inr ⟨s1, s2, e1, e2⟩)).2

/-- `indices = None` is `indices = range(len(L))` -/
theorem G2_matrix_none (kw : Kw) (L : List Train) {ts te : Q} (hv : C4_Valid ts te L) :
    isiDistanceMatrix kw none L = isiDistanceMatrix kw (some (List.range L.length)) L ∧
    spikeDistanceMatrix kw none L = spikeDistanceMatrix kw (some (List.range L.length)) L ∧
    spikeSyncMatrix kw none L = spikeSyncMatrix kw (some (List.range L.length)) L := by
  simp only [isiDistanceMatrix, spikeDistanceMatrix, spikeSyncMatrix, F3_prep_valid kw hv,
    resolveIdx, and_self]

/-! the work-package statements (`B5_ValidList`) -/

/-- **C06, ISI-distance matrix on the public function**: for a valid list, valid `indices` and every
    keyword setting the off-diagonal entry `(i, j)` is `isi_distance(L[idx[i]], L[idx[j]], **kw)` -/
theorem G2_isi_matrix_entries_are_pair_distances (kw : Kw) (idx : List Nat) (L : List Train) (ts te : Q)
    (hv : B5_ValidList ts te L) (hl : idxValid idx L.length = true) (M : List (List Q))
    (h : isiDistanceMatrix kw (some idx) L = some M) (i j : Nat)
    (hi : i < idx.length) (hj : j < idx.length) (hij : i ≠ j) :
    isiDistanceBi kw (tr L (idx.getD i 0)) (tr L (idx.getD j 0)) = some ((M.getD i []).getD j 0) :=
  (G2_isi_matrix_entries_C4 kw idx L ts te (F3_valid_of_B5 hv) hl M h i j hi hj).1 hij

theorem G2_isi_matrix_diagonal_zero (kw : Kw) (idx : List Nat) (L : List Train) (ts te : Q)
    (hv : B5_ValidList ts te L) (hl : idxValid idx L.length = true) (M : List (List Q))
    (h : isiDistanceMatrix kw (some idx) L = some M) (i : Nat) (hi : i < idx.length) :
    (M.getD i []).getD i 0 = 0 :=
  (G2_isi_matrix_entries_C4 kw idx L ts te (F3_valid_of_B5 hv) hl M h i i hi hi).2

theorem G2_spike_matrix_entries_are_pair_distances (kw : Kw) (idx : List Nat) (L : List Train)
    (ts te : Q) (hv : B5_ValidList ts te L) (hl : idxValid idx L.length = true) (M : List (List Q))
    (h : spikeDistanceMatrix kw (some idx) L = some M) (i j : Nat)
    (hi : i < idx.length) (hj : j < idx.length) (hij : i ≠ j) :
    spikeDistanceBi kw (tr L (idx.getD i 0)) (tr L (idx.getD j 0))
      = some ((M.getD i []).getD j 0) :=
  (G2_spike_matrix_entries_C4 kw idx L ts te (F3_valid_of_B5 hv) hl M h i j hi hj).1 hij

theorem G2_spike_matrix_diagonal_zero (kw : Kw) (idx : List Nat) (L : List Train) (ts te : Q)
    (hv : B5_ValidList ts te L) (hl : idxValid idx L.length = true) (M : List (List Q))
    (h : spikeDistanceMatrix kw (some idx) L = some M) (i : Nat) (hi : i < idx.length) :
    (M.getD i []).getD i 0 = 0 :=
  (G2_spike_matrix_entries_C4 kw idx L ts te (F3_valid_of_B5 hv) hl M h i i hi hi).2

theorem G2_sync_matrix_entries_are_pair_values (kw : Kw) (idx : List Nat) (L : List Train)
    (ts te : Q) (hv : B5_ValidList ts te L) (hl : idxValid idx L.length = true) (M : List (List Q))
    (h : spikeSyncMatrix kw (some idx) L = some M) (i j : Nat)
    (hi : i < idx.length) (hj : j < idx.length) (hij : i ≠ j) :
    spikeSyncBi kw (tr L (idx.getD i 0)) (tr L (idx.getD j 0)) = some ((M.getD i []).getD j 0) :=
  (G2_sync_matrix_entries_C4 kw idx L ts te (F3_valid_of_B5 hv) hl M h i j hi hj).1 hij

theorem G2_sync_matrix_diagonal_one (kw : Kw) (idx : List Nat) (L : List Train) (ts te : Q)
    (hv : B5_ValidList ts te L) (hl : idxValid idx L.length = true) (M : List (List Q))
    (h : spikeSyncMatrix kw (some idx) L = some M) (i : Nat) (hi : i < idx.length) :
    (M.getD i []).getD i 0 = 1 :=
  (G2_sync_matrix_entries_C4 kw idx L ts te (F3_valid_of_B5 hv) hl M h i i hi hi).2

/-- **all trains (`indices=None`)**: entry `(i, j)` of the three matrices is the public bivariate value
    of `(L[i], L[j])`; diagonals 0, 0, 1 -/
theorem G2_isi_matrix_entries_all (kw : Kw) (L : List Train) (ts te : Q)
    (hv : B5_ValidList ts te L) (M : List (List Q)) (h : isiDistanceMatrix kw none L = some M)
    (i j : Nat) (hi : i < L.length) (hj : j < L.length) :
    (i ≠ j → isiDistanceBi kw (tr L i) (tr L j) = some ((M.getD i []).getD j 0)) ∧
    (M.getD i []).getD i 0 = 0 := by
  rw [(G2_matrix_none kw L (F3_valid_of_B5 hv)).1] at h
  have := G2_isi_matrix_entries_C4 kw _ L ts te (F3_valid_of_B5 hv) (B2_idxValid_range _) M h i j
    (by simpa using hi) (by simpa using hj)
  rwa [getD_range _ _ hi, getD_range _ _ hj] at this

theorem G2_spike_matrix_entries_all (kw : Kw) (L : List Train) (ts te : Q)
    (hv : B5_ValidList ts te L) (M : List (List Q)) (h : spikeDistanceMatrix kw none L = some M)
    (i j : Nat) (hi : i < L.length) (hj : j < L.length) :
    (i ≠ j → spikeDistanceBi kw (tr L i) (tr L j) = some ((M.getD i []).getD j 0)) ∧
    (M.getD i []).getD i 0 = 0 := by
  rw [(G2_matrix_none kw L (F3_valid_of_B5 hv)).2.1] at h
  have := G2_spike_matrix_entries_C4 kw _ L ts te (F3_valid_of_B5 hv) (B2_idxValid_range _) M h i j
    (by simpa using hi) (by simpa using hj)
  rwa [getD_range _ _ hi, getD_range _ _ hj] at this

theorem G2_sync_matrix_entries_all (kw : Kw) (L : List Train) (ts te : Q)
    (hv : B5_ValidList ts te L) (M : List (List Q)) (h : spikeSyncMatrix kw none L = some M)
    (i j : Nat) (hi : i < L.length) (hj : j < L.length) :
    (i ≠ j → spikeSyncBi kw (tr L i) (tr L j) = some ((M.getD i []).getD j 0)) ∧
    (M.getD i []).getD i 0 = 1 := by
  rw [(G2_matrix_none kw L (F3_valid_of_B5 hv)).2.2] at h
  have := G2_sync_matrix_entries_C4 kw _ L ts te (F3_valid_of_B5 hv) (B2_idxValid_range _) M h i j
    (by simpa using hi) (by simpa using hj)
  rwa [getD_range _ _ hi, getD_range _ _ hj] at this

/-- a valid list for the examples of this file (default keywords = `Reconcile=True`) -/
theorem G2_exL_C4 : C4_Valid 0 10 F3_exL := F3_valid_of_B5 F3_exL_valid

/-- non-vacuity of §1: valid list, valid indices, the three matrices are defined with the default
    keywords (reconciliation on) -/
example : B5_ValidList 0 10 F3_exL ∧ idxValid [2, 0] F3_exL.length = true ∧
    isiDistanceMatrix { } (some [2, 0]) F3_exL = some [[0, 1 / 10], [1 / 10, 0]] ∧
    spikeDistanceMatrix { } (some [2, 0]) F3_exL = some [[0, 1171 / 6272], [1171 / 6272, 0]] ∧
    spikeSyncMatrix { maxTau := 1 / 2 } none F3_exL
      = some [[1, 2 / 5, 1 / 3], [2 / 5, 1, 0], [1 / 3, 0, 1]] :=
  ⟨F3_exL_valid, by decide,
   ((G2_agree { } G2_exL_C4).isiDistanceMatrix _).trans (by decide +kernel),
   ((G2_agree { } G2_exL_C4).spikeDistanceMatrix _).trans (by decide +kernel),
   ((G2_agree { maxTau := 1 / 2 } G2_exL_C4).spikeSyncMatrix _).trans (by decide +kernel)⟩

/-- usage: the entry below the diagonal is the public bivariate value in the order `(i, j)` -/
example : spikeSyncBi { maxTau := 1 / 2 } (tr F3_exL 1) (tr F3_exL 0) = some (2 / 5) :=
  (G2_sync_matrix_entries_all { maxTau := 1 / 2 } F3_exL 0 10 F3_exL_valid
    [[1, 2 / 5, 1 / 3], [2 / 5, 1, 0], [1 / 3, 0, 1]]
    (((G2_agree { maxTau := 1 / 2 } G2_exL_C4).spikeSyncMatrix _).trans (by decide +kernel))
    1 0 (by decide) (by decide)).1 (by decide)
/-! ## 3. statements that existed only for `kw.recon = false`: valid input, EVERY `kw` -/

/-! ### C17 (the filter), valid list, every `kw` -/

theorem G2_filter_switch (kw : Kw) (thr : Q) {ts te : Q} {L : List Train} (hv : C4_Valid ts te L) :
    filterBySync kw thr L = filterBySync kw.noRecon thr L := (G2_agree kw hv).filterBySync thr

/-- **keep rule** (`C17.keep_iff` for every `kw`): spike `k` of train `i` is in the kept train iff its
    coincidence count is strictly greater than `threshold·(N−1)` -/
theorem G2_keep_iff (kw : Kw) (thr : Q) (L : List Train) (ts te : Q) (hv : B5_ValidList ts te L)
    (i : Nat) (hi : i < L.length) (k : Nat) (hk : k < (tr L i).spikes.length) :
    (tr L i).spikes[k] ∈ (tr (filterBySync kw thr L).1 i).spikes ↔
      (coincCounts kw L i).getD k 0 > thr * ((L.length : Q) - 1) := by
  have hc := F3_valid_of_B5 hv
  rw [G2_filter_switch kw thr hc]
  exact filter_keep_iff kw.noRecon thr L rfl i hi (hc _ (B5_tr_mem L i hi)).2.2.1 k hk

/-- **partition** (`C17.kept_removed_partition` for every `kw`) -/
theorem G2_kept_removed_partition (kw : Kw) (thr : Q) (L : List Train) (ts te : Q)
    (hv : B5_ValidList ts te L) (i : Nat) (hi : i < L.length) :
    (tr (filterBySync kw thr L).1 i).spikes.Sublist (tr L i).spikes ∧
    (tr (filterBySync kw thr L).2 i).spikes.Sublist (tr L i).spikes ∧
    (tr (filterBySync kw thr L).1 i).spikes.length + (tr (filterBySync kw thr L).2 i).spikes.length
      = (tr L i).spikes.length ∧
    ((tr (filterBySync kw thr L).1 i).spikes ++ (tr (filterBySync kw thr L).2 i).spikes).Perm
      (tr L i).spikes ∧
    (tr (filterBySync kw thr L).1 i).ts = (tr L i).ts ∧
    (tr (filterBySync kw thr L).1 i).te = (tr L i).te ∧
    (tr (filterBySync kw thr L).2 i).ts = (tr L i).ts ∧
    (tr (filterBySync kw thr L).2 i).te = (tr L i).te ∧
    (filterBySync kw thr L).1.length = L.length ∧ (filterBySync kw thr L).2.length = L.length := by
  rw [G2_filter_switch kw thr (F3_valid_of_B5 hv)]
  exact filter_partition kw.noRecon thr L rfl i hi

/-- **monotone** (`C17.higher_threshold_keeps_less` for every `kw`) -/
theorem G2_higher_threshold_keeps_less (kw : Kw) (thr1 thr2 : Q) (L : List Train) (ts te : Q)
    (hv : B5_ValidList ts te L) (h12 : thr1 ≤ thr2) (i : Nat) (hi : i < L.length) :
    (tr (filterBySync kw thr2 L).1 i).spikes.Sublist (tr (filterBySync kw thr1 L).1 i).spikes := by
  rw [G2_filter_switch kw thr1 (F3_valid_of_B5 hv), G2_filter_switch kw thr2 (F3_valid_of_B5 hv)]
  exact filter_antitone_thr kw.noRecon thr1 thr2 L rfl h12 i hi

/-- **threshold ≥ 1 keeps nothing** (`C17.threshold_one_keeps_nothing` for every `kw`) -/
theorem G2_threshold_one_keeps_nothing (kw : Kw) (thr : Q) (L : List Train) (ts te : Q)
    (hv : B5_ValidList ts te L) (h1 : 1 ≤ thr) (i : Nat) (hi : i < L.length) :
    (tr (filterBySync kw thr L).1 i).spikes = [] ∧
    (tr (filterBySync kw thr L).2 i).spikes = (tr L i).spikes := by
  rw [G2_filter_switch kw thr (F3_valid_of_B5 hv)]
  exact filter_thr_one_none kw.noRecon thr L rfl h1 i hi

/-- non-vacuity of the C17 lifts (default keywords): a spike with count 1 of N−1 = 2, thresholds
    `1/4 ≤ 1/2` and `1 ≤ 1`; the filter really removes spikes -/
example : B5_ValidList 0 10 F3_exL ∧ (0 : Nat) < F3_exL.length ∧
    (2 : Nat) < (tr F3_exL 0).spikes.length ∧ (1 / 4 : Q) ≤ 1 / 2 ∧ (1 : Q) ≤ 1 ∧
    (filterBySync { maxTau := 1 / 2 } (1 / 4) F3_exL).1.map (·.spikes) = [[1, 5], [5], [1]] :=
  ⟨F3_exL_valid, by decide, by decide, by norm_num, le_refl _, by
    rw [G2_filter_switch _ _ G2_exL_C4]; decide +kernel⟩


/-! ## 2. per-spike directionality values for every `kw` and `indices` -/

theorem G2_dirValues_some (kw : Kw) {ts te : Q} {L : List Train} (hv : C4_Valid ts te L)
    {idx : List Nat} (hl : idxValid idx L.length = true) :
    dirValues kw (some idx) L = dirValues kw.noRecon none (idx.map (tr L)) := by
  rw [(G2_agree kw hv).dirValues, dirValues_indices kw.noRecon idx L rfl hl]

theorem G2_dirValues_none (kw : Kw) {ts te : Q} {L : List Train} (hv : C4_Valid ts te L) :
    dirValues kw none L = dirValues kw.noRecon none L := (G2_agree kw hv).dirValues none

theorem G2_sorted_of_valid {ts te : Q} {L : List Train} (hv : C4_Valid ts te L) :
    ∀ s ∈ L, s.ts = ts ∧ s.te = te ∧ StrictSorted s.spikes :=
  fun s hs => ⟨(hv s hs).1, (hv s hs).2.1, (hv s hs).2.2.1⟩

/-- **C04, `spike_directionality_values(L, indices=idx, **kw)`**: the value of spike `k` of the
    `i`-th selected train is the pairwise directionality indicator `dirSpec1` against the `j`-th
    selected train, summed over the other selected trains `j ≠ i`, divided by `|idx| − 1`; valid
    list, valid indices, EVERY keyword record (`Reconcile=True` included) -/
theorem G2_directionality_values_are_average_valid (kw : Kw) (idx : List Nat) (L : List Train)
    (ts te : Q) (hv : B5_ValidList ts te L) (hl : idxValid idx L.length = true) (i k : Nat)
    (hi : i < idx.length) :
    ((dirValues kw (some idx) L).getD i []).getD k 0
      = (((List.range idx.length).filter (· ≠ i)).map fun j =>
          (dirSpec1 (tr L (idx.getD i 0)).spikes (tr L (idx.getD j 0)).spikes
            (trueMax ts te kw.maxTau) kw.mrts).getD k 0).sum
        / ((idx.length : Q) - 1) := by
  have hc := F3_valid_of_B5 hv
  rw [G2_dirValues_some kw hc hl,
    dirValues_eq_average kw.noRecon (idx.map (tr L)) ts te rfl
      (G2_sorted_of_valid (G2_valid_map_tr hc hl)) i k (by simpa using hi)]
  simp only [List.length_map]
  congr 2
  apply List.map_congr_left
  intro j hj
  have hjn : j < idx.length := List.mem_range.mp (List.mem_filter.mp hj).1
  rw [tr_map_tr L idx i hi, tr_map_tr L idx j hjn]
  rfl

/-- the same for all trains (`indices=None`) -/
theorem G2_directionality_values_are_average_all (kw : Kw) (L : List Train)
    (ts te : Q) (hv : B5_ValidList ts te L) (i k : Nat) (hi : i < L.length) :
    ((dirValues kw none L).getD i []).getD k 0
      = (((List.range L.length).filter (· ≠ i)).map fun j =>
          (dirSpec1 (tr L i).spikes (tr L j).spikes (trueMax ts te kw.maxTau) kw.mrts).getD k 0).sum
        / ((L.length : Q) - 1) := by
  have hc := F3_valid_of_B5 hv
  rw [G2_dirValues_none kw hc]
  exact dirValues_eq_average kw.noRecon L ts te rfl (G2_sorted_of_valid hc) i k hi

/-- non-vacuity of §2: valid list, a permuted index selection, default keywords; the values are not
    all zero -/
example : B5_ValidList 0 10 F3_exL ∧ idxValid [2, 0, 1] F3_exL.length = true ∧
    (0 : Nat) < [2, 0, 1].length ∧
    dirValues { } (some [2, 0, 1]) F3_exL
      = [[1 / 2, 1, 1 / 2], [1 / 2, -1 / 2, -1 / 2], [-1, -1 / 2]] :=
  ⟨F3_exL_valid, by decide, by decide, by
    rw [(G2_agree { } G2_exL_C4).dirValues]; decide +kernel⟩

/-- range and cancellation of the directionality values for EVERY `kw` and EVERY list (no validity
    needed: the two existing variants `recon = false / true` cover all cases); the cancellation needs
    strictly increasing trains when the call does not reconcile -/
theorem G2_directionality_values_range (kw : Kw) (L : List Train) :
    ∀ l ∈ dirValues kw none L, ∀ v ∈ l, -1 ≤ v ∧ v ≤ 1 := by
  cases hr : kw.recon with
  | false => exact D5_dirValues_range kw L hr
  | true => exact D5_dirValues_range_recon kw L hr

theorem G2_directionality_values_sum_zero (kw : Kw) (L : List Train)
    (hL : kw.recon = true ∨ ∀ s ∈ L, StrictSorted s.spikes) :
    qsum ((dirValues kw none L).map qsum) = 0 := by
  cases hr : kw.recon with
  | false =>
    rcases hL with h | h
    · rw [hr] at h; exact absurd h (by simp)
    · exact D5_dirValues_sum_zero kw L hr h
  | true => exact D5_dirValues_sum_zero_recon kw L hr

/-! ### C16 (`max_tau` bounds every marked coincidence), valid input, every `kw` -/

/-- `C16.sync_profile_within_max_tau` for a valid pair and every `kw` -/
theorem G2_sync_profile_within_max_tau (kw : Kw) (a b : Train) (ts te : Q)
    (hv : C4_Valid ts te [a, b]) (hτ : 0 < kw.maxTau) :
    ∀ e ∈ (syncProfileBi kw a b).interior,
      (e.1 ∈ a.spikes ∨ e.1 ∈ b.spikes) ∧ (e.2.1 ≠ 0 →
        (e.1 ∈ a.spikes → ∃ y ∈ b.spikes, qabs (e.1 - y) < kw.maxTau) ∧
        (e.1 ∈ b.spikes → ∃ x ∈ a.spikes, qabs (e.1 - x) < kw.maxTau)) := by
  rw [(G2_agreeBi kw hv).syncProfileBi]
  exact D5_syncProfileBi_within_max_tau kw.noRecon a b rfl (hv a (by simp)).2.2.1
    (hv b (by simp)).2.2.1 hτ

/-- `C16.order_profile_within_max_tau` for a valid pair and every `kw` -/
theorem G2_order_profile_within_max_tau (kw : Kw) (a b : Train) (ts te : Q)
    (hv : C4_Valid ts te [a, b]) (hτ : 0 < kw.maxTau) :
    ∀ e ∈ (orderProfileBi kw a b).interior,
      (e.1 ∈ a.spikes ∨ e.1 ∈ b.spikes) ∧ (e.2.1 ≠ 0 →
        (e.1 ∈ a.spikes → ∃ y ∈ b.spikes, qabs (e.1 - y) < kw.maxTau) ∧
        (e.1 ∈ b.spikes → ∃ x ∈ a.spikes, qabs (e.1 - x) < kw.maxTau)) := by
  rw [(G2_agreeBi kw hv).orderProfileBi]
  exact D5_orderProfileBi_within_max_tau kw.noRecon a b rfl (hv a (by simp)).2.2.1
    (hv b (by simp)).2.2.1 hτ

/-- `C16.directionality_within_max_tau` for a valid list, every `kw`, all trains -/
theorem G2_directionality_within_max_tau (kw : Kw) (L : List Train) (ts te : Q)
    (hv : B5_ValidList ts te L) (hτ : 0 < kw.maxTau) (i k : Nat) (hi : i < L.length)
    (hne : ((dirValues kw none L).getD i []).getD k 0 ≠ 0) :
    ∃ j, j < L.length ∧ j ≠ i ∧ ∃ hk : k < (tr L i).spikes.length,
      ∃ y ∈ (tr L j).spikes, qabs ((tr L i).spikes[k] - y) < kw.maxTau := by
  have hc := F3_valid_of_B5 hv
  rw [G2_dirValues_none kw hc] at hne
  exact D5_dirValues_within_max_tau kw.noRecon L rfl (fun s hs => (hc s hs).2.2.1) hτ i k hi hne

/-- … and for a valid index selection -/
theorem G2_directionality_within_max_tau_indices (kw : Kw) (idx : List Nat) (L : List Train)
    (ts te : Q) (hv : B5_ValidList ts te L) (hl : idxValid idx L.length = true)
    (hτ : 0 < kw.maxTau) (i k : Nat) (hi : i < idx.length)
    (hne : ((dirValues kw (some idx) L).getD i []).getD k 0 ≠ 0) :
    ∃ j, j < idx.length ∧ j ≠ i ∧ ∃ hk : k < (tr L (idx.getD i 0)).spikes.length,
      ∃ y ∈ (tr L (idx.getD j 0)).spikes,
        qabs ((tr L (idx.getD i 0)).spikes[k] - y) < kw.maxTau := by
  have hc := F3_valid_of_B5 hv
  rw [G2_dirValues_some kw hc hl] at hne
  obtain ⟨j, hj, hji, h⟩ := D5_dirValues_within_max_tau kw.noRecon (idx.map (tr L)) rfl
    (fun s hs => (G2_valid_map_tr hc hl s hs).2.2.1) hτ i k (by simpa using hi) hne
  rw [List.length_map] at hj
  rw [tr_map_tr L idx i hi, tr_map_tr L idx j hj] at h
  exact ⟨j, hj, hji, h⟩

/-- `C16.filter_kept_within_max_tau` for a valid list and every `kw` -/
theorem G2_filter_kept_within_max_tau (kw : Kw) (thr : Q) (L : List Train) (ts te : Q)
    (hv : B5_ValidList ts te L) (hthr : 0 ≤ thr) (hτ : 0 < kw.maxTau) (i : Nat) (hi : i < L.length)
    (x : Q) (hx : x ∈ (tr (filterBySync kw thr L).1 i).spikes) :
    ∃ j, j < L.length ∧ j ≠ i ∧ ∃ y ∈ (tr L j).spikes, qabs (x - y) < kw.maxTau := by
  have hc := F3_valid_of_B5 hv
  rw [G2_filter_switch kw thr hc] at hx
  exact D5_filterBySync_kept_within_max_tau kw.noRecon thr L rfl (fun s hs => (hc s hs).2.2.1)
    hthr hτ i hi x hx

/-- non-vacuity of the C16 lifts: `max_tau = 2 > 0`, a valid pair, a non-zero directionality value
    and a kept spike (default keywords) -/
example : C4_Valid 0 10 [tr F3_exL 0, tr F3_exL 1] ∧ (0 : Q) < ({ maxTau := 2 } : Kw).maxTau ∧
    B5_ValidList 0 10 F3_exL ∧ idxValid [2, 0, 1] F3_exL.length = true ∧
    ((dirValues { maxTau := 2 } none F3_exL).getD 0 []).getD 0 0 ≠ 0 ∧
    ((dirValues { maxTau := 2 } (some [2, 0, 1]) F3_exL).getD 0 []).getD 0 0 ≠ 0 ∧
    (0 : Q) ≤ 1 / 4 ∧ (9 : Q) ∈ (tr (filterBySync { maxTau := 2 } (1 / 4) F3_exL).1 0).spikes :=
  ⟨F3_valid_pair G2_exL_C4 (by decide) (by decide), by norm_num, F3_exL_valid, by decide,
   by rw [(G2_agree _ G2_exL_C4).dirValues]; decide +kernel,
   by rw [(G2_agree _ G2_exL_C4).dirValues]; decide +kernel,
   by norm_num, by rw [G2_filter_switch _ _ G2_exL_C4]; decide +kernel⟩

/-! ### C14 (`indices` = passing the selected sub-list), valid list, every `kw` -/
section
variable (kw : Kw) (idx : List Nat) (L : List Train) (ts te : Q) (hv : B5_ValidList ts te L)
  (hl : idxValid idx L.length = true)
include hv hl

theorem G2_isi_profile_indices (h2 : 2 ≤ idx.length) :
    isiProfileMulti kw (some idx) L = isiProfileMulti kw none (idx.map (tr L)) := by
  rw [(G2_agree kw (F3_valid_of_B5 hv)).isiProfileMulti, (G2_agree kw (G2_valid_map_tr (F3_valid_of_B5 hv) hl)).isiProfileMulti]
  exact isiProfileMulti_indices kw.noRecon idx L rfl hl h2
theorem G2_spike_profile_indices (h2 : 2 ≤ idx.length) :
    spikeProfileMulti kw (some idx) L = spikeProfileMulti kw none (idx.map (tr L)) := by
  rw [(G2_agree kw (F3_valid_of_B5 hv)).spikeProfileMulti, (G2_agree kw (G2_valid_map_tr (F3_valid_of_B5 hv) hl)).spikeProfileMulti]
  exact spikeProfileMulti_indices kw.noRecon idx L rfl hl h2
theorem G2_sync_profile_indices (h2 : 2 ≤ idx.length) :
    syncProfileMulti kw (some idx) L = syncProfileMulti kw none (idx.map (tr L)) := by
  rw [(G2_agree kw (F3_valid_of_B5 hv)).syncProfileMulti, (G2_agree kw (G2_valid_map_tr (F3_valid_of_B5 hv) hl)).syncProfileMulti]
  exact syncProfileMulti_indices kw.noRecon idx L rfl hl h2
theorem G2_order_profile_indices (h2 : 2 ≤ idx.length) :
    orderProfileMulti kw (some idx) L = orderProfileMulti kw none (idx.map (tr L)) := by
  rw [(G2_agree kw (F3_valid_of_B5 hv)).orderProfileMulti, (G2_agree kw (G2_valid_map_tr (F3_valid_of_B5 hv) hl)).orderProfileMulti]
  exact orderProfileMulti_indices kw.noRecon idx L rfl hl h2
theorem G2_isi_distance_indices :
    isiDistanceMulti kw (some idx) L = isiDistanceMulti kw none (idx.map (tr L)) := by
  rw [(G2_agree kw (F3_valid_of_B5 hv)).isiDistanceMulti, (G2_agree kw (G2_valid_map_tr (F3_valid_of_B5 hv) hl)).isiDistanceMulti]
  exact isiDistanceMulti_indices kw.noRecon idx L rfl hl
theorem G2_spike_distance_indices :
    spikeDistanceMulti kw (some idx) L = spikeDistanceMulti kw none (idx.map (tr L)) := by
  rw [(G2_agree kw (F3_valid_of_B5 hv)).spikeDistanceMulti, (G2_agree kw (G2_valid_map_tr (F3_valid_of_B5 hv) hl)).spikeDistanceMulti]
  exact spikeDistanceMulti_indices kw.noRecon idx L rfl hl
theorem G2_spike_sync_indices :
    spikeSyncMulti kw (some idx) L = spikeSyncMulti kw none (idx.map (tr L)) := by
  rw [(G2_agree kw (F3_valid_of_B5 hv)).spikeSyncMulti, (G2_agree kw (G2_valid_map_tr (F3_valid_of_B5 hv) hl)).spikeSyncMulti]
  exact spikeSyncMulti_indices kw.noRecon idx L rfl hl
theorem G2_order_indices :
    spikeTrainOrderMulti kw (some idx) L = spikeTrainOrderMulti kw none (idx.map (tr L)) := by
  rw [(G2_agree kw (F3_valid_of_B5 hv)).spikeTrainOrderMulti, (G2_agree kw (G2_valid_map_tr (F3_valid_of_B5 hv) hl)).spikeTrainOrderMulti]
  exact spikeTrainOrderMulti_indices kw.noRecon idx L rfl hl
theorem G2_isi_matrix_indices :
    isiDistanceMatrix kw (some idx) L = isiDistanceMatrix kw none (idx.map (tr L)) := by
  rw [(G2_agree kw (F3_valid_of_B5 hv)).isiDistanceMatrix, (G2_agree kw (G2_valid_map_tr (F3_valid_of_B5 hv) hl)).isiDistanceMatrix]
  exact isiDistanceMatrix_indices kw.noRecon idx L rfl hl
theorem G2_spike_matrix_indices :
    spikeDistanceMatrix kw (some idx) L = spikeDistanceMatrix kw none (idx.map (tr L)) := by
  rw [(G2_agree kw (F3_valid_of_B5 hv)).spikeDistanceMatrix, (G2_agree kw (G2_valid_map_tr (F3_valid_of_B5 hv) hl)).spikeDistanceMatrix]
  exact spikeDistanceMatrix_indices kw.noRecon idx L rfl hl
theorem G2_sync_matrix_indices :
    spikeSyncMatrix kw (some idx) L = spikeSyncMatrix kw none (idx.map (tr L)) := by
  rw [(G2_agree kw (F3_valid_of_B5 hv)).spikeSyncMatrix, (G2_agree kw (G2_valid_map_tr (F3_valid_of_B5 hv) hl)).spikeSyncMatrix]
  exact spikeSyncMatrix_indices kw.noRecon idx L rfl hl
theorem G2_directionality_values_indices :
    dirValues kw (some idx) L = dirValues kw none (idx.map (tr L)) := by
  rw [(G2_agree kw (F3_valid_of_B5 hv)).dirValues, (G2_agree kw (G2_valid_map_tr (F3_valid_of_B5 hv) hl)).dirValues]
  exact dirValues_indices kw.noRecon idx L rfl hl
theorem G2_directionality_matrix_indices (normalize : Bool) :
    spikeDirectionalityMatrix kw normalize (some idx) L =
      spikeDirectionalityMatrix kw normalize none (idx.map (tr L)) := by
  rw [(G2_agree kw (F3_valid_of_B5 hv)).spikeDirectionalityMatrix,
    (G2_agree kw (G2_valid_map_tr (F3_valid_of_B5 hv) hl)).spikeDirectionalityMatrix]
  exact spikeDirectionalityMatrix_indices kw.noRecon normalize idx L rfl hl
end

/-! ### C14 (`indices = [i, j]` is the two-train call), valid list, every `kw` -/
section
variable (kw : Kw) (L : List Train) (ts te : Q) (hv : B5_ValidList ts te L) (i j : Nat)
  (hi : i < L.length) (hj : j < L.length)
include hv hi hj

theorem G2_isi_profile_two_indices :
    isiProfileMulti kw (some [i, j]) L = isiProfileBi kw (tr L i) (tr L j) := by
  rw [F6_isiProfileMulti_two, F3_prep_valid kw (F3_valid_of_B5 hv),
    (G2_agreeBi kw (F3_valid_pair (F3_valid_of_B5 hv) hi hj)).isiProfileBi]
theorem G2_spike_profile_two_indices :
    spikeProfileMulti kw (some [i, j]) L = spikeProfileBi kw (tr L i) (tr L j) := by
  rw [F6_spikeProfileMulti_two, F3_prep_valid kw (F3_valid_of_B5 hv),
    (G2_agreeBi kw (F3_valid_pair (F3_valid_of_B5 hv) hi hj)).spikeProfileBi]
theorem G2_sync_profile_two_indices :
    syncProfileMulti kw (some [i, j]) L = syncProfileBi kw (tr L i) (tr L j) := by
  rw [F6_syncProfileMulti_two, F3_prep_valid kw (F3_valid_of_B5 hv),
    (G2_agreeBi kw (F3_valid_pair (F3_valid_of_B5 hv) hi hj)).syncProfileBi]
theorem G2_order_profile_two_indices :
    orderProfileMulti kw (some [i, j]) L = orderProfileBi kw (tr L i) (tr L j) := by
  rw [F6_orderProfileMulti_two, F3_prep_valid kw (F3_valid_of_B5 hv),
    (G2_agreeBi kw (F3_valid_pair (F3_valid_of_B5 hv) hi hj)).orderProfileBi]
theorem G2_isi_distance_two_indices :
    isiDistanceMulti kw (some [i, j]) L = isiDistanceBi kw (tr L i) (tr L j) := by
  rw [F6_isiDistanceMulti_two, F3_prep_valid kw (F3_valid_of_B5 hv),
    (G2_agreeBi kw (F3_valid_pair (F3_valid_of_B5 hv) hi hj)).isiDistanceBi]
theorem G2_spike_distance_two_indices :
    spikeDistanceMulti kw (some [i, j]) L = spikeDistanceBi kw (tr L i) (tr L j) := by
  rw [F6_spikeDistanceMulti_two, F3_prep_valid kw (F3_valid_of_B5 hv),
    (G2_agreeBi kw (F3_valid_pair (F3_valid_of_B5 hv) hi hj)).spikeDistanceBi]
theorem G2_spike_sync_two_indices :
    spikeSyncMulti kw (some [i, j]) L = spikeSyncBi kw (tr L i) (tr L j) := by
  rw [F6_spikeSyncMulti_two, F3_prep_valid kw (F3_valid_of_B5 hv),
    (G2_agreeBi kw (F3_valid_pair (F3_valid_of_B5 hv) hi hj)).spikeSyncBi]
end

/-- the spike-train order form needs no bound on `i j` (`spike_train_order` reconciles the pair) -/
theorem G2_order_two_indices (kw : Kw) (L : List Train) (ts te : Q) (hv : B5_ValidList ts te L)
    (i j : Nat) :
    spikeTrainOrderMulti kw (some [i, j]) L = spikeTrainOrderBi kw true (tr L i) (tr L j) := by
  rw [F6_spikeTrainOrderMulti_two, F3_prep_valid kw (F3_valid_of_B5 hv)]

/-- directionality values with `indices = [i, j]` = the values of the pair (every `kw`) -/
theorem G2_directionality_values_two_indices (kw : Kw) (L : List Train) (ts te : Q)
    (hv : B5_ValidList ts te L) (i j : Nat) (hi : i < L.length) (hj : j < L.length) :
    dirValues kw (some [i, j]) L = dirValues kw none [tr L i, tr L j] ∧
    dirValues kw (some [i, j]) L
      = [(dirProfile (tr L i).spikes (tr L j).spikes (tr L i).ts (tr L i).te kw.maxTau kw.mrts).1,
         (dirProfile (tr L i).spikes (tr L j).spikes (tr L i).ts (tr L i).te kw.maxTau kw.mrts).2] := by
  have h2 := F6_dirValues_two kw L i j
  rw [F3_prep_valid kw (F3_valid_of_B5 hv)] at h2
  refine ⟨?_, h2⟩
  rw [h2, B2_dirValues_pair kw [tr L i, tr L j] (tr L i) (tr L j)
    (F3_prep_valid kw (F3_valid_pair (F3_valid_of_B5 hv) hi hj))]

/-- non-vacuity of the C14 lifts -/
example : B5_ValidList 0 10 F3_exL ∧ idxValid [2, 0, 1] F3_exL.length = true ∧
    2 ≤ [2, 0, 1].length ∧ (2 : Nat) < F3_exL.length ∧ (0 : Nat) < F3_exL.length :=
  ⟨F3_exL_valid, by decide, by decide, by decide, by decide⟩
/-- usage with the default keywords (`Reconcile=True`) -/
example : spikeDistanceMulti { } (some [2, 0]) F3_exL
    = spikeDistanceBi { } ⟨[1, 4, 8], 0, 10⟩ ⟨[1, 5, 9], 0, 10⟩ :=
  G2_spike_distance_two_indices { } F3_exL 0 10 F3_exL_valid 2 0 (by decide) (by decide)

/-! ## 4. C16: monotonicity in `max_tau` of the filter output and of the multivariate profile -/

theorem G2_forall₂_getD_le {l1 l2 : List Q}
    (h : List.Forall₂ (fun x y : Q => x ≤ y ∧ (x = 1 → y = 1)) l1 l2) (k : Nat) :
    l1.getD k 0 ≤ l2.getD k 0 := by
  induction h generalizing k with
  | nil => simp
  | cons hxy _ ih =>
    cases k with
    | zero => simpa using hxy.1
    | succ k => simpa using ih k

theorem G2_sum_map_le {ι} (f g : ι → Q) : ∀ l : List ι, (∀ i ∈ l, f i ≤ g i) →
    (l.map f).sum ≤ (l.map g).sum
  | [], _ => le_refl _
  | a :: r, h => by
    rw [List.map_cons, List.map_cons, List.sum_cons, List.sum_cons]
    exact add_le_add (h a (by simp)) (G2_sum_map_le f g r fun i hi => h i (List.mem_cons_of_mem _ hi))

/-- the per-spike coincidence counts are monotone in `max_tau` (strictly increasing trains) -/
theorem G2_coincCounts_mono_max_tau (kw : Kw) (mt1 mt2 : Q) (L : List Train)
    (hL : ∀ s ∈ L, StrictSorted s.spikes) (h : F2_MaxTauLe mt1 mt2) (i k : Nat) (hi : i < L.length) :
    (coincCounts { kw with maxTau := mt1 } L i).getD k 0
      ≤ (coincCounts { kw with maxTau := mt2 } L i).getD k 0 := by
  rw [coincCounts_eq_sum, coincCounts_eq_sum]
  apply G2_sum_map_le
  intro j hj
  have hjn : j < L.length := List.mem_range.mp (List.mem_filter.mp hj).1
  exact G2_forall₂_getD_le (F2_coincSingle_mono_max_tau _ _ _ _ mt1 mt2 _
    (hL _ (B5_tr_mem L i hi)) (hL _ (B5_tr_mem L j hjn)) h) k

theorem G2_countAt_mono_max_tau (kw : Kw) (mt1 mt2 : Q) (L : List Train)
    (hL : ∀ s ∈ L, StrictSorted s.spikes) (h : F2_MaxTauLe mt1 mt2) (i : Nat) (hi : i < L.length)
    (t : Q) :
    C4_countAt { kw with maxTau := mt1 } L i t ≤ C4_countAt { kw with maxTau := mt2 } L i t :=
  G2_coincCounts_mono_max_tau kw mt1 mt2 L hL h i _ hi

/-- **C16, filter output (membership form)**: enlarging `max_tau` (`None`/0 = largest) never removes a
    spike from the kept trains; valid list, every `kw`, every threshold -/
theorem G2_filter_monotone_in_max_tau_mem (kw : Kw) (mt1 mt2 thr : Q) (L : List Train) (ts te : Q)
    (hv : B5_ValidList ts te L) (h : F2_MaxTauLe mt1 mt2) (i : Nat) (hi : i < L.length) (t : Q)
    (ht : t ∈ (tr (filterBySync { kw with maxTau := mt1 } thr L).1 i).spikes) :
    t ∈ (tr (filterBySync { kw with maxTau := mt2 } thr L).1 i).spikes := by
  have hts : t ∈ (tr L i).spikes :=
    (G2_kept_removed_partition { kw with maxTau := mt1 } thr L ts te hv i hi).1.subset ht
  rw [(F5_filter_keep_iff_countAt _ thr L ts te hv i hi t hts).1] at ht ⊢
  exact lt_of_lt_of_le ht (G2_countAt_mono_max_tau kw mt1 mt2 L
    (fun s hs => (F5_valid_sorted hv s hs).2.2) h i hi t)

/-- **C16, filter output (`Sublist` form)** -/
theorem G2_filter_monotone_in_max_tau (kw : Kw) (mt1 mt2 thr : Q) (L : List Train) (ts te : Q)
    (hv : B5_ValidList ts te L) (h : F2_MaxTauLe mt1 mt2) (i : Nat) (hi : i < L.length) :
    (tr (filterBySync { kw with maxTau := mt1 } thr L).1 i).spikes.Sublist
      (tr (filterBySync { kw with maxTau := mt2 } thr L).1 i).spikes := by
  have hs : (tr L i).spikes.Pairwise (· < ·) := (F5_valid_sorted hv _ (B5_tr_mem L i hi)).2.2
  have s1 := (G2_kept_removed_partition { kw with maxTau := mt1 } thr L ts te hv i hi).1
  have s2 := (G2_kept_removed_partition { kw with maxTau := mt2 } thr L ts te hv i hi).1
  have p1 := hs.sublist s1
  have p2 := hs.sublist s2
  apply List.sublist_of_subperm_of_pairwise (r := (· < ·)) _ p1 p2
  · refine List.subperm_of_subset (p1.imp (fun h => ne_of_lt h)) ?_
    intro t ht
    exact G2_filter_monotone_in_max_tau_mem kw mt1 mt2 thr L ts te hv h i hi t ht

/-- … and the removed trains shrink -/
theorem G2_filter_removed_antitone_in_max_tau (kw : Kw) (mt1 mt2 thr : Q) (L : List Train)
    (ts te : Q) (hv : B5_ValidList ts te L) (h : F2_MaxTauLe mt1 mt2) (i : Nat) (hi : i < L.length)
    (t : Q) (ht : t ∈ (tr (filterBySync { kw with maxTau := mt2 } thr L).2 i).spikes) :
    t ∈ (tr (filterBySync { kw with maxTau := mt1 } thr L).2 i).spikes := by
  have hts : t ∈ (tr L i).spikes :=
    (G2_kept_removed_partition { kw with maxTau := mt2 } thr L ts te hv i hi).2.1.subset ht
  rw [(F5_filter_keep_iff_countAt _ thr L ts te hv i hi t hts).2] at ht ⊢
  exact le_trans (G2_countAt_mono_max_tau kw mt1 mt2 L
    (fun s hs => (F5_valid_sorted hv s hs).2.2) h i hi t) ht

/-- **C16, multivariate SPIKE-Sync profile**: at every time the multiplicity does not depend on
    `max_tau` and the value is monotone in `max_tau`; valid list, every `kw` -/
theorem G2_sync_multi_profile_monotone_in_max_tau (kw : Kw) (mt1 mt2 : Q) (L : List Train)
    (ts te : Q) (hv : B5_ValidList ts te L) (h2 : 2 ≤ L.length) (h : F2_MaxTauLe mt1 mt2) (t : Q) :
    ((syncProfileMulti { kw with maxTau := mt1 } none L).at t).2
      = ((syncProfileMulti { kw with maxTau := mt2 } none L).at t).2 ∧
    ((syncProfileMulti { kw with maxTau := mt1 } none L).at t).1
      ≤ ((syncProfileMulti { kw with maxTau := mt2 } none L).at t).1 := by
  rw [F5_multi_profile_at_time _ L ts te hv h2 t, F5_multi_profile_at_time _ L ts te hv h2 t]
  refine ⟨rfl, G2_sum_map_le _ _ _ ?_⟩
  intro i hi
  exact G2_countAt_mono_max_tau kw mt1 mt2 L (fun s hs => (F5_valid_sorted hv s hs).2.2) h i
    ((F5_mem_trainsAt L t i).mp hi).1 t

/-- non-vacuity of §4: `max_tau` 1/2 ≤ 2 ≤ None, and the filter output / the profile really grow -/
example : F2_MaxTauLe (1 / 2) 2 ∧ F2_MaxTauLe 2 0 ∧ B5_ValidList 0 10 F3_exL ∧ 2 ≤ F3_exL.length ∧
    (filterBySync { maxTau := 1 / 2 } (1 / 4) F3_exL).1.map (·.spikes) = [[1, 5], [5], [1]] ∧
    (filterBySync { maxTau := 2 } (1 / 4) F3_exL).1.map (·.spikes) = [[1, 5, 9], [2, 5], [1, 4, 8]] ∧
    (syncProfileMulti { maxTau := 1 / 2 } none F3_exL).at 4 = (0, 2) ∧
    (syncProfileMulti { maxTau := 2 } none F3_exL).at 4 = (2, 2) :=
  ⟨Or.inl ⟨by norm_num, by norm_num⟩, Or.inr rfl, F3_exL_valid, by decide,
   by rw [G2_filter_switch _ _ G2_exL_C4]; decide +kernel,
   by rw [G2_filter_switch _ _ G2_exL_C4]; decide +kernel,
   by rw [(G2_agree _ G2_exL_C4).syncProfileMulti]; decide +kernel,
   by rw [(G2_agree _ G2_exL_C4).syncProfileMulti]; decide +kernel⟩

/-- **C16, public bivariate profiles**: enlarging `max_tau` keeps every event time and multiplicity
    and never removes a coincidence (SPIKE-Sync) / never changes a marked value (spike-train order);
    valid pair, every `kw` -/
theorem G2_sync_profile_api_monotone_in_max_tau (kw : Kw) (mt1 mt2 : Q) (a b : Train) (ts te : Q)
    (hv : C4_Valid ts te [a, b]) (h : F2_MaxTauLe mt1 mt2) :
    List.Forall₂ C5_EntryLe (syncProfileBi { kw with maxTau := mt1 } a b).e
      (syncProfileBi { kw with maxTau := mt2 } a b).e := by
  simp only [syncProfileBi, F3_prepBi_valid _ hv]
  exact F2_coincProfile_mono_max_tau _ _ _ _ mt1 mt2 _ (hv a (by simp)).2.2.1
    (hv b (by simp)).2.2.1 h

theorem G2_order_profile_api_monotone_in_max_tau (kw : Kw) (mt1 mt2 : Q) (a b : Train) (ts te : Q)
    (hv : C4_Valid ts te [a, b]) (h : F2_MaxTauLe mt1 mt2) :
    List.Forall₂ F2_EntryKeep (orderProfileBi { kw with maxTau := mt1 } a b).e
      (orderProfileBi { kw with maxTau := mt2 } a b).e := by
  simp only [orderProfileBi, F3_prepBi_valid _ hv]
  exact F2_orderProfile_mono_max_tau _ _ _ _ mt1 mt2 _ (hv a (by simp)).2.2.1
    (hv b (by simp)).2.2.1 h

/-! ## 5. C03 / C04: the pairwise definition on the public bivariate functions -/

/-- **C03 on `spike_sync_profile(a, b, **kw)`**: for a valid pair and EVERY keyword record the returned
    profile is the cursor-free pairwise definition `scanSpec` with weights (1, 1, 2) framed by the
    edge entries -/
theorem G2_sync_profile_api_is_pairwise_definition (kw : Kw) (a b : Train) (ts te : Q)
    (hv : C4_Valid ts te [a, b]) :
    syncProfileBi kw a b
      = ⟨frameProfile a.ts a.te
          (scanSpec 1 1 2 a.spikes b.spikes (trueMax a.ts a.te kw.maxTau) kw.mrts)⟩ := by
  simp only [syncProfileBi, F3_prepBi_valid _ hv]
  rw [coincProfile_eq_spec _ _ _ _ _ _ (hv a (by simp)).2.2.1 (hv b (by simp)).2.2.1]

/-- **C04 on `spike_train_order_profile(a, b, **kw)`**: the same with the sign-convention weights
    (−1, 1, 0) -/
theorem G2_order_profile_api_is_sign_convention (kw : Kw) (a b : Train) (ts te : Q)
    (hv : C4_Valid ts te [a, b]) :
    orderProfileBi kw a b
      = ⟨frameProfile a.ts a.te
          (scanSpec (-1) 1 0 a.spikes b.spikes (trueMax a.ts a.te kw.maxTau) kw.mrts)⟩ := by
  simp only [orderProfileBi, F3_prepBi_valid _ hv]
  rw [orderProfile_eq_spec _ _ _ _ _ _ (hv a (by simp)).2.2.1 (hv b (by simp)).2.2.1]

/-- the `.e` form of the work package, with the common edges `ts te` -/
theorem G2_sync_profile_api_entries (kw : Kw) (a b : Train) (ts te : Q)
    (hv : C4_Valid ts te [a, b]) :
    (syncProfileBi kw a b).e
      = frameProfile ts te (scanSpec 1 1 2 a.spikes b.spikes (trueMax ts te kw.maxTau) kw.mrts) ∧
    (orderProfileBi kw a b).e
      = frameProfile ts te (scanSpec (-1) 1 0 a.spikes b.spikes (trueMax ts te kw.maxTau) kw.mrts) := by
  rw [G2_sync_profile_api_is_pairwise_definition kw a b ts te hv,
    G2_order_profile_api_is_sign_convention kw a b ts te hv, (hv a (by simp)).1, (hv a (by simp)).2.1]
  exact ⟨rfl, rfl⟩

/-- with the default reconciliation and ARBITRARY trains: the definition applies to the reconciled
    pair (no hypothesis at all) -/
theorem G2_sync_profile_api_is_pairwise_definition_recon (kw : Kw) (a b : Train)
    (hr : kw.recon = true) :
    syncProfileBi kw a b
      = ⟨frameProfile (reconcileBi a b).1.ts (reconcileBi a b).1.te
          (scanSpec 1 1 2 (reconcileBi a b).1.spikes (reconcileBi a b).2.spikes
            (trueMax (reconcileBi a b).1.ts (reconcileBi a b).1.te kw.maxTau) kw.mrts)⟩ ∧
    orderProfileBi kw a b
      = ⟨frameProfile (reconcileBi a b).1.ts (reconcileBi a b).1.te
          (scanSpec (-1) 1 0 (reconcileBi a b).1.spikes (reconcileBi a b).2.spikes
            (trueMax (reconcileBi a b).1.ts (reconcileBi a b).1.te kw.maxTau) kw.mrts)⟩ := by
  obtain ⟨s1, s2⟩ := B2_reconcileBi_sorted a b
  simp only [syncProfileBi, orderProfileBi, C4_prepBi_true kw a b hr]
  rw [coincProfile_eq_spec _ _ _ _ _ _ s1 s2, orderProfile_eq_spec _ _ _ _ _ _ s1 s2]
  exact ⟨rfl, rfl⟩

/-- non-vacuity of §5 and of the bivariate `max_tau` lifts -/
example : C4_Valid 0 10 [tr F3_exL 0, tr F3_exL 1] ∧ ({ } : Kw).recon = true ∧
    (syncProfileBi { maxTau := 2 } (tr F3_exL 0) (tr F3_exL 1)).interior
      = [(1, 1, 1), (2, 1, 1), (5, 2, 2), (9, 0, 1)] :=
  ⟨F3_valid_pair G2_exL_C4 (by decide) (by decide), rfl, by
    rw [(G2_agreeBi _ (F3_valid_pair G2_exL_C4 (by decide) (by decide))).syncProfileBi]
    decide +kernel⟩

end PySpike
