/-
  Proofs/Assembled.lean — work package F5 (CLAUSES.md gaps 9, 12, 14):
  assembled statements on the PUBLIC functions, for every keyword record.
-/
import PySpikeVerif.Model.Api
import PySpikeVerif.Spec.Funcs
import PySpikeVerif.Spec.Spike
import PySpikeVerif.Proofs.ApiLaws
import PySpikeVerif.Proofs.MultiLaws
import PySpikeVerif.Proofs.SpikeSymm
import PySpikeVerif.Proofs.SpikeScan
import PySpikeVerif.Proofs.IntervalLaws
import PySpikeVerif.Proofs.ApiReconcile
import PySpikeVerif.Proofs.ProfileAtTime
import PySpikeVerif.Proofs.PermProfiles
import PySpikeVerif.Proofs.Totality
import PySpikeVerif.Proofs.FilterLaws
import PySpikeVerif.Properties.C01
import PySpikeVerif.Properties.C07
import Mathlib.Tactic.Linarith
import Mathlib.Tactic.Ring
import Mathlib.Tactic.FieldSimp
import Mathlib.Data.List.Basic
import Mathlib.Algebra.Order.Field.Rat

namespace PySpike
open PySpike.C01

/-! ## 2a. multivariate distance = mean of the PUBLIC bivariate distances with the SAME `kw` -/

theorem F5_prep_valid (kw : Kw) (ts te : Q) (L : List Train) (hv : B5_ValidList ts te L) :
    prep kw L = L := by
  cases L with
  | nil => unfold prep reconcile; split <;> rfl
  | cons a r => exact B5_prep_valid kw ts te _ hv (by simp)

theorem F5_isiDistanceBi_valid (kw : Kw) (a b : Train) (h : D4_VBi a b) :
    isiDistanceBi kw.noRecon a b = isiDistanceBi kw a b := by
  unfold isiDistanceBi
  rw [B5_isiProfileBi_valid kw a b h.1 h.2.1 h.2.2.1 h.2.2.2]
  rfl

theorem F5_spikeDistanceBi_valid (kw : Kw) (a b : Train) (h : D4_VBi a b) :
    spikeDistanceBi kw.noRecon a b = spikeDistanceBi kw a b := by
  unfold spikeDistanceBi
  rw [C2_spikeProfileBi_valid kw a b h.1 h.2.1 h.2.2.1 h.2.2.2]
  rfl

theorem F5_syncValues_valid (kw : Kw) (a b : Train) (h : D4_VBi a b) :
    syncValues kw.noRecon a b = syncValues kw a b := by
  unfold syncValues
  rw [D4_syncProfileBi_valid kw a b h]
  rfl

theorem F5_pair_VBi {ts te : Q} {L : List Train} (hv : B5_ValidList ts te L) (p : Nat × Nat)
    (hp : p ∈ pairsOf (List.range L.length)) : D4_VBi (tr L p.1) (tr L p.2) :=
  (D4_VBi_of_mem hv (B5_pair_mem L p hp).1 (B5_pair_mem L p hp).2).1

/-- `isi_distance_multi(L, **kw)` is the generic all-pairs mean of `isi_distance(L[i], L[j], **kw)`
    — the public bivariate function with the SAME keyword record (reconciliation included) -/
theorem F5_isiDistanceMulti_eq_generic (kw : Kw) (L : List Train) (ts te : Q)
    (hv : B5_ValidList ts te L) :
    isiDistanceMulti kw none L =
      genericDistanceMulti (isiDistanceBi kw) (List.range L.length) L := by
  unfold isiDistanceMulti genericDistanceMulti
  simp only [F5_prep_valid kw ts te L hv, resolveIdx]
  congr 2
  apply List.map_congr_left
  intro p hp
  exact F5_isiDistanceBi_valid kw _ _ (F5_pair_VBi hv p hp)

theorem F5_spikeDistanceMulti_eq_generic (kw : Kw) (L : List Train) (ts te : Q)
    (hv : B5_ValidList ts te L) :
    spikeDistanceMulti kw none L =
      genericDistanceMulti (spikeDistanceBi kw) (List.range L.length) L := by
  unfold spikeDistanceMulti genericDistanceMulti
  simp only [F5_prep_valid kw ts te L hv, resolveIdx]
  congr 2
  apply List.map_congr_left
  intro p hp
  exact F5_spikeDistanceBi_valid kw _ _ (F5_pair_VBi hv p hp)

theorem F5_spikeSyncMulti_eq_pooled (kw : Kw) (L : List Train) (ts te : Q)
    (hv : B5_ValidList ts te L) :
    spikeSyncMulti kw none L =
      (sumOpt2 ((pairsOf (List.range L.length)).map fun p =>
        syncValues kw (tr L p.1) (tr L p.2))).map syncRatio := by
  unfold spikeSyncMulti
  simp only [F5_prep_valid kw ts te L hv, resolveIdx]
  congr 2
  apply List.map_congr_left
  intro p hp
  exact F5_syncValues_valid kw _ _ (F5_pair_VBi hv p hp)

theorem F5_sumOpt_of_some {α} (F : α → Option Q) (d : α → Q) (l : List α)
    (h : ∀ p ∈ l, F p = some (d p)) : sumOpt (l.map F) = some (qsum (l.map d)) := by
  rw [← B5_sumOpt_some d l]
  congr 1
  exact List.map_congr_left h

theorem F5_sumOpt2_of_some {α} (F : α → Option (Q × Q)) (d : α → Q × Q) (l : List α)
    (h : ∀ p ∈ l, F p = some (d p)) :
    sumOpt2 (l.map F) = some (qsum (l.map fun p => (d p).1), qsum (l.map fun p => (d p).2)) := by
  rw [← B5_sumOpt2_some d l]
  congr 1
  exact List.map_congr_left h

/-- **C06 (ISI distance, assembled)**: for a list of valid trains with common edges and EVERY keyword
    record (`Reconcile=True` included, any `MRTS`, any accepted `interval`): if the public bivariate
    function with the same keywords returns `d p` on every pair `p = (i, j)`, `i < j`, then
    `isi_distance_multi` returns the arithmetic mean of the `d p` over the `N(N-1)/2` pairs. -/
theorem F5_isi_distance_multi_is_mean_of_pair_distances (kw : Kw) (L : List Train) (ts te : Q)
    (hv : B5_ValidList ts te L) (d : Nat × Nat → Q)
    (hd : ∀ p ∈ pairsOf (List.range L.length), isiDistanceBi kw (tr L p.1) (tr L p.2) = some (d p)) :
    isiDistanceMulti kw none L =
      some (qsum ((pairsOf (List.range L.length)).map d) / ((pairsOf (List.range L.length)).length : Q)) := by
  rw [F5_isiDistanceMulti_eq_generic kw L ts te hv]
  unfold genericDistanceMulti
  simp only []
  rw [F5_sumOpt_of_some _ d _ hd, Option.map_some]

/-- **C06 (SPIKE distance, assembled)** -/
theorem F5_spike_distance_multi_is_mean_of_pair_distances (kw : Kw) (L : List Train) (ts te : Q)
    (hv : B5_ValidList ts te L) (d : Nat × Nat → Q)
    (hd : ∀ p ∈ pairsOf (List.range L.length), spikeDistanceBi kw (tr L p.1) (tr L p.2) = some (d p)) :
    spikeDistanceMulti kw none L =
      some (qsum ((pairsOf (List.range L.length)).map d) / ((pairsOf (List.range L.length)).length : Q)) := by
  rw [F5_spikeDistanceMulti_eq_generic kw L ts te hv]
  unfold genericDistanceMulti
  simp only []
  rw [F5_sumOpt_of_some _ d _ hd, Option.map_some]

/-- **C06 (SPIKE-Sync, assembled)**: the multivariate value is the POOLED ratio of the pair values:
    `Σ_pairs coincidences / Σ_pairs multiplicities` (1 if the pooled multiplicity is 0), where
    `(c p, m p)` is what the public `_spike_sync_values` returns on pair `p` with the same keywords -/
theorem F5_spike_sync_multi_is_pooled_pair_ratio (kw : Kw) (L : List Train) (ts te : Q)
    (hv : B5_ValidList ts te L) (cm : Nat × Nat → Q × Q)
    (hd : ∀ p ∈ pairsOf (List.range L.length), syncValues kw (tr L p.1) (tr L p.2) = some (cm p)) :
    spikeSyncMulti kw none L =
      some (syncRatio (qsum ((pairsOf (List.range L.length)).map fun p => (cm p).1),
                       qsum ((pairsOf (List.range L.length)).map fun p => (cm p).2))) := by
  rw [F5_spikeSyncMulti_eq_pooled kw L ts te hv, F5_sumOpt2_of_some _ cm _ hd, Option.map_some]

/-- existence-free forms: for an interval the bivariate function accepts, every pair is defined and the
    multivariate value is the mean of the pair values -/
theorem F5_isi_distance_multi_mean_defined (kw : Kw) (L : List Train) (ts te : Q)
    (hv : B5_ValidList ts te L) (hiv : D4_IvIsi ts te kw) :
    (∀ p ∈ pairsOf (List.range L.length), ∃ d, isiDistanceBi kw (tr L p.1) (tr L p.2) = some d) ∧
    isiDistanceMulti kw none L =
      some (qsum ((pairsOf (List.range L.length)).map fun p =>
          (isiDistanceBi kw (tr L p.1) (tr L p.2)).getD 0)
        / ((pairsOf (List.range L.length)).length : Q)) := by
  have hdef : ∀ p ∈ pairsOf (List.range L.length),
      ∃ d, isiDistanceBi kw (tr L p.1) (tr L p.2) = some d := by
    intro p hp
    obtain ⟨hbi, s1, e1⟩ := D4_VBi_of_mem hv (B5_pair_mem L p hp).1 (B5_pair_mem L p hp).2
    rw [D4_isiDistanceBi_defined_iff kw _ _ hbi, s1, e1]
    exact hiv
  refine ⟨hdef, F5_isi_distance_multi_is_mean_of_pair_distances kw L ts te hv _ ?_⟩
  intro p hp
  obtain ⟨d, hd⟩ := hdef p hp
  rw [hd]; rfl

theorem F5_spike_distance_multi_mean_defined (kw : Kw) (L : List Train) (ts te : Q)
    (hv : B5_ValidList ts te L) (hiv : D4_IvSpike ts kw) :
    (∀ p ∈ pairsOf (List.range L.length), ∃ d, spikeDistanceBi kw (tr L p.1) (tr L p.2) = some d) ∧
    spikeDistanceMulti kw none L =
      some (qsum ((pairsOf (List.range L.length)).map fun p =>
          (spikeDistanceBi kw (tr L p.1) (tr L p.2)).getD 0)
        / ((pairsOf (List.range L.length)).length : Q)) := by
  have hdef : ∀ p ∈ pairsOf (List.range L.length),
      ∃ d, spikeDistanceBi kw (tr L p.1) (tr L p.2) = some d := by
    intro p hp
    obtain ⟨hbi, s1, e1⟩ := D4_VBi_of_mem hv (B5_pair_mem L p hp).1 (B5_pair_mem L p hp).2
    rw [D4_spikeDistanceBi_defined_iff kw _ _ hbi, s1]
    exact hiv
  refine ⟨hdef, F5_spike_distance_multi_is_mean_of_pair_distances kw L ts te hv _ ?_⟩
  intro p hp
  obtain ⟨d, hd⟩ := hdef p hp
  rw [hd]; rfl

theorem F5_spike_sync_multi_pooled_defined (kw : Kw) (L : List Train) (ts te : Q)
    (hv : B5_ValidList ts te L) (hiv : D4_IvSync ts te kw) :
    (∀ p ∈ pairsOf (List.range L.length), ∃ cm, syncValues kw (tr L p.1) (tr L p.2) = some cm) ∧
    spikeSyncMulti kw none L =
      some (syncRatio
        (qsum ((pairsOf (List.range L.length)).map fun p =>
            ((syncValues kw (tr L p.1) (tr L p.2)).getD (0, 0)).1),
         qsum ((pairsOf (List.range L.length)).map fun p =>
            ((syncValues kw (tr L p.1) (tr L p.2)).getD (0, 0)).2))) := by
  have hdef : ∀ p ∈ pairsOf (List.range L.length),
      ∃ cm, syncValues kw (tr L p.1) (tr L p.2) = some cm := by
    intro p hp
    obtain ⟨hbi, s1, e1⟩ := D4_VBi_of_mem hv (B5_pair_mem L p hp).1 (B5_pair_mem L p hp).2
    rw [D4_some_iff_ne_none, Ne, D4_syncValues_eq_none_iff kw _ _ hbi, D4_not_sync, s1, e1]
    exact hiv
  refine ⟨hdef, F5_spike_sync_multi_is_pooled_pair_ratio kw L ts te hv _ ?_⟩
  intro p hp
  obtain ⟨d, hd⟩ := hdef p hp
  rw [hd]; rfl

example : B5_ValidList 0 6 D4_exL ∧ D4_IvIsi 0 6 { } ∧
    D4_IvIsi 0 6 { interval := some (1, 5), mrts := 2 } ∧ D4_IvSync 0 6 { maxTau := 1 } := by
  refine ⟨D4_exL_valid.1, ?_, ?_, ?_⟩
  · intro p q h; exact absurd h (by simp)
  · intro p q h
    obtain ⟨rfl, rfl⟩ := Prod.mk.inj (Option.some.inj h)
    norm_num
  · intro p q h; exact absurd h (by simp)

/-! ## 1. C02 on the public function, empty trains included -/

theorem F5_nonEmpty_of_nil (a : Train) (ha : ValidTrain a) (he : a.spikes = []) :
    a.nonEmpty = [a.ts, a.te] := by
  unfold Train.nonEmpty
  rw [he]
  simp [ha.1]

theorem F5_nonEmpty_of_ne_nil (a : Train) (he : a.spikes ≠ []) : a.nonEmpty = a.spikes := by
  unfold Train.nonEmpty
  have : a.spikes.isEmpty = false := by simpa using he
  simp [this]

theorem F5_not_oneSpikeOnStart (a : Train) (ha : ValidTrain a) (hn : a.spikes ≠ [a.ts]) :
    ¬ OneSpikeOnStart a.nonEmpty a.ts := by
  unfold OneSpikeOnStart
  by_cases he : a.spikes = []
  · rw [F5_nonEmpty_of_nil a ha he]; simp
  · rw [F5_nonEmpty_of_ne_nil a he]; exact hn

/-- **C02 on the public function** `spike_profile(st1, st2, MRTS=…, RI=…)`, for EVERY keyword record
    (`Reconcile=True` included) and every pair of valid trains on a common interval — empty trains
    included — outside the class of known finding F9 (a train that is exactly one spike on `t_start`):
    the two value arrays are the cursor-free definition `spikeSpec` at `x_k⁺` and `x_{k+1}⁻`. An empty
    train enters the definition as `Train.nonEmpty` (see `F5_nonEmpty_empty`, `F5_empty_train_contrib`). -/
theorem F5_spike_profile_api_is_definition_partial (kw : Kw) (a b : Train)
    (ha : ValidTrain a) (hb : ValidTrain b) (hts : b.ts = a.ts) (hte : b.te = a.te)
    (hna : a.spikes ≠ [a.ts]) (hnb : b.spikes ≠ [b.ts]) :
    ((spikeProfileBi kw a b).y1, (spikeProfileBi kw a b).y2) =
      spikeSpecProfile a.nonEmpty b.nonEmpty a.ts a.te kw.mrts kw.ri (spikeProfileBi kw a b).x := by
  have hva := nonEmpty_valid a ha
  have hvb := nonEmpty_valid b hb
  have hn2 := F5_not_oneSpikeOnStart b hb hnb
  rw [hts, hte] at hvb
  rw [hts] at hn2
  have h := spikeProfile_eq_spec_partial a.nonEmpty b.nonEmpty a.ts a.te kw.mrts kw.ri hva hvb ha.1
    (F5_not_oneSpikeOnStart a ha hna) hn2
  rw [C2_spikeProfileBi_valid kw a b ha hb hts hte]
  unfold spikeProfileBi
  rw [prepBi_noRecon]
  exact h

example : ValidTrain ⟨[], 0, 6⟩ ∧ ValidTrain ⟨[2, 3, 6], 0, 6⟩ ∧
    (⟨[], 0, 6⟩ : Train).spikes ≠ [0] ∧ (⟨[2, 3, 6], 0, 6⟩ : Train).spikes ≠ [0] :=
  ⟨⟨by decide, by decide, by decide⟩, ⟨by decide, by decide, by decide⟩, by decide, by decide⟩

/-- … on a concrete pair with an EMPTY train (checked by evaluation of both sides) -/
example : let f := spikeProfileBi { recon := false } ⟨[], 0, 6⟩ ⟨[2, 3, 6], 0, 6⟩
    f.x = [0, 2, 3, 6] ∧ (f.y1, f.y2) = ([3/8, 24/49, 4/9], [3/8, 36/49, 0]) ∧
    (f.y1, f.y2) = spikeSpecProfile [0, 6] [2, 3, 6] 0 6 0 false f.x := by decide +kernel

/-- … and at EVERY time of the recording: the linear interpolation of the public profile inside its
    `k`-th piece is the definition (right-continuous value), every `kw`, empty trains included -/
theorem F5_spike_profile_api_value_at_every_time_partial (kw : Kw) (a b : Train)
    (ha : ValidTrain a) (hb : ValidTrain b) (hts : b.ts = a.ts) (hte : b.te = a.te)
    (hna : a.spikes ≠ [a.ts]) (hnb : b.spikes ≠ [b.ts])
    (k : Nat) (hk : k + 1 < (spikeProfileBi kw a b).x.length) (t : Q)
    (hxt : nth (spikeProfileBi kw a b).x k ≤ t) (htx : t < nth (spikeProfileBi kw a b).x (k + 1)) :
    ((spikeProfileBi kw a b).pieceAt k).at t =
      spikeSpec a.nonEmpty b.nonEmpty a.ts a.te kw.mrts kw.ri t true := by
  have hva := nonEmpty_valid a ha
  have hvb := nonEmpty_valid b hb
  have hn2 := F5_not_oneSpikeOnStart b hb hnb
  rw [hts, hte] at hvb
  rw [hts] at hn2
  rw [C2_spikeProfileBi_valid kw a b ha hb hts hte] at hk hxt htx ⊢
  unfold spikeProfileBi at hk hxt htx ⊢
  rw [prepBi_noRecon] at hk hxt htx ⊢
  exact spike_affine_on_piece a.nonEmpty b.nonEmpty a.ts a.te kw.mrts kw.ri hva hvb ha.1
    (F5_not_oneSpikeOnStart a ha hna) hn2 k hk t hxt htx

/-- a train without spikes is represented by its two edges (as auxiliary spikes) -/
theorem F5_nonEmpty_empty (ts te : Q) (hlt : ts < te) : (Train.mk [] ts te).nonEmpty = [ts, te] :=
  F5_nonEmpty_of_nil ⟨[], ts, te⟩ ⟨hlt, by simp, by simp⟩ rfl

/-- **what a train WITHOUT spikes contributes in the definition**: its own contribution at every
    time `t` of the recording (right limit on `[ts, te)`, left limit on `(ts, te]`) is the linear
    interpolation between the nearest-spike distances of the two EDGES (to the other train with its
    auxiliary spikes), and its interval length is the whole recording `te - ts` -/
theorem F5_empty_train_contrib (o : List Q) (ts te t : Q) (right : Bool)
    (hl : if right then ts ≤ t else ts < t) (hu : if right then t < te else t ≤ te) :
    spikeContrib [ts, te] o ts te t right =
      ((dtTo ts (extTrain o ts te) * (te - t) + dtTo te (extTrain o ts te) * (t - ts)) / (te - ts),
       te - ts) := by
  cases right
  · simp only [Bool.false_eq_true, if_false] at hl hu
    have h1 : ¬ t ≤ ts := not_le.mpr hl
    have h2 : ¬ te < t := not_lt.mpr hu
    have hlt : ts < te := lt_of_lt_of_le hl hu
    simp [spikeContrib, lastD, h1, h2, hl, hu]
  · simp only [if_true] at hl hu
    have h1 : ¬ t < ts := not_lt.mpr hl
    have h2 : ¬ te ≤ t := not_le.mpr hu
    have hlt : ts < te := lt_of_le_of_lt hl hu
    simp [spikeContrib, lastD, h1, h2, hl, hu]

example : spikeContrib [0, 6] [1, 3] 0 6 2 true = (2/3, 6) ∧
    spikeContrib [0, 6] [1, 3] 0 6 6 false = (0, 6) ∧ extTrain [1, 3] 0 6 = [-1, 1, 3, 6] := by
  decide +kernel

/-- … and what the OTHER train sees of it: the extended empty train is
    `[2·ts − te, ts, te, 2·te − ts]`, so the nearest "spike" of an empty train from a time `x` of the
    recording is the nearer EDGE -/
theorem F5_extTrain_empty (ts te : Q) (hlt : ts < te) :
    extTrain [ts, te] ts te = [ts - (te - ts), ts, te, te + (te - ts)] := by
  simp only [extTrain, auxStart, auxEnd, List.cons_append, List.nil_append]
  rw [min_eq_right (by linarith), max_eq_right (by linarith)]

theorem F5_dtTo_empty_train (ts te x : Q) (h0 : ts ≤ x) (h1 : x ≤ te) :
    dtTo x (extTrain [ts, te] ts te) = min (x - ts) (te - x) := by
  have hlt : ts ≤ te := le_trans h0 h1
  rcases eq_or_lt_of_le hlt with he | hlt
  · subst he
    have : x = ts := le_antisymm h1 h0
    subst this
    simp [extTrain, auxStart, auxEnd, dtTo, qabs]
  rw [F5_extTrain_empty ts te hlt]
  simp only [dtTo, qabs_eq_abs]
  rw [abs_of_nonneg (by linarith : 0 ≤ x - (ts - (te - ts))), abs_of_nonneg (by linarith : 0 ≤ x - ts),
    abs_of_nonpos (by linarith : x - te ≤ 0), abs_of_nonpos (by linarith : x - (te + (te - ts)) ≤ 0)]
  rw [min_eq_left (by linarith : -(x - te) ≤ -(x - (te + (te - ts))))]
  rw [min_eq_right (le_trans (min_le_left _ _) (by linarith))]
  congr 1
  ring

/-- the ISI side of the same clause (restating `C01.nuAt_empty` / `C01.nuAt_aux`): the interval length
    of a train without spikes is the whole recording, for the empty list and for its `[ts, te]`
    representation -/
theorem F5_empty_train_interval (ts te t : Q) (h1 : ts ≤ t) (h2 : t < te) :
    nuAt [] ts te t = te - ts ∧ nuAt [ts, te] ts te t = te - ts :=
  ⟨nuAt_empty ts te t, nuAt_aux ts te t h1 h2⟩

/-- **C01 on the public function for every keyword record** (the existing `C01.isi_profile_values` is
    stated for `kw = {mrts := m, recon := false}`): one value per piece, and on `[x_k, x_{k+1})` the
    value is `|ν₁-ν₂| / max(ν₁, ν₂, MRTS)` with `ν` taken on the ORIGINAL spike lists (an empty train
    has `ν = te - ts` by `nuAt_empty`) -/
theorem F5_isi_profile_api_values (kw : Kw) (a b : Train) (ha : ValidTrain a) (hb : ValidTrain b)
    (hts : b.ts = a.ts) (hte : b.te = a.te) :
    (isiProfileBi kw a b).y.length + 1 = (isiProfileBi kw a b).x.length ∧
    ∀ k (hk : k < (isiProfileBi kw a b).y.length)
      (hk1 : k + 1 < (isiProfileBi kw a b).x.length) (t : Q),
      (isiProfileBi kw a b).x[k]'(by omega) ≤ t → t < (isiProfileBi kw a b).x[k+1] →
      (isiProfileBi kw a b).y[k]
        = isiVal (nuAt a.spikes a.ts a.te t) (nuAt b.spikes a.ts a.te t) kw.mrts := by
  have e : isiProfileBi kw a b = isiProfileBi { mrts := kw.mrts, recon := false } a b := by
    rw [B5_isiProfileBi_valid kw a b ha hb hts hte]
    exact B5_isiProfileBi_kw kw.noRecon a b rfl
  simp only [e]
  exact isi_profile_values a b kw.mrts ha hb hts hte

/-! ## 2d. mean of pairs for LEFT limits (`ts < t ≤ te`, the right end included) -/

theorem F5_PwcOn_evalL_some {a b : Q} {f : Pwc} (hf : B5_PwcOn a b f) {t : Q} (h0 : a < t)
    (h1 : t ≤ b) : f.evalL t = some ((f.evalL t).getD 0) := by
  rw [hf.1.evalL_eq (by rw [hf.2.1]; exact h0) (by rw [hf.2.2]; exact h1)]
  rfl

theorem F5_PwcOn_add_evalL {a b : Q} {f g : Pwc} (hf : B5_PwcOn a b f) (hg : B5_PwcOn a b g)
    {t : Q} (h0 : a < t) (h1 : t ≤ b) :
    ((f.add g).evalL t).getD 0 = (f.evalL t).getD 0 + (g.evalL t).getD 0 := by
  obtain ⟨v, w, hv, hw, hvw⟩ := Pwc.add_evalL hf.1 hg.1 (hf.2.1.trans hg.2.1.symm)
    (hf.2.2.trans hg.2.2.symm) t (by rw [hf.2.1]; exact h0) (by rw [hf.2.2]; exact h1)
  rw [hv, hw, hvw]
  rfl

theorem F5_PwlOn_evalL_some {a b : Q} {f : Pwl} (hf : B5_PwlOn a b f) {t : Q} (h0 : a < t)
    (h1 : t ≤ b) : f.evalL t = some ((f.evalL t).getD 0) := by
  obtain ⟨v, -, hv, -, -⟩ := Pwl.add_evalL hf.1 hf.1 rfl rfl t (by rw [hf.2.1]; exact h0)
    (by rw [hf.2.2]; exact h1)
  rw [hv]; rfl

theorem F5_PwlOn_add_evalL {a b : Q} {f g : Pwl} (hf : B5_PwlOn a b f) (hg : B5_PwlOn a b g)
    {t : Q} (h0 : a < t) (h1 : t ≤ b) :
    ((f.add g).evalL t).getD 0 = (f.evalL t).getD 0 + (g.evalL t).getD 0 := by
  obtain ⟨v, w, hv, hw, hvw⟩ := Pwl.add_evalL hf.1 hg.1 (hf.2.1.trans hg.2.1.symm)
    (hf.2.2.trans hg.2.2.symm) t (by rw [hf.2.1]; exact h0) (by rw [hf.2.2]; exact h1)
  rw [hv, hw, hvw]
  rfl

/-- **C06, ISI profile, left limits**: at every `ts < t ≤ te` the left limit of the multivariate ISI
    profile is the arithmetic mean of the left limits of the public bivariate profiles (same `kw`),
    and each of those is defined -/
theorem F5_isi_multi_profile_left_limit_is_mean (kw : Kw) (L : List Train) (ts te t : Q)
    (hv : B5_ValidList ts te L) (h2 : 2 ≤ L.length) (ht0 : ts < t) (ht1 : t ≤ te) :
    (isiProfileMulti kw none L).evalL t =
      some (qsum ((pairsOf (List.range L.length)).map fun p =>
          ((isiProfileBi kw (tr L p.1) (tr L p.2)).evalL t).getD 0)
        / ((pairsOf (List.range L.length)).length : Q)) ∧
    ∀ p ∈ pairsOf (List.range L.length),
      (isiProfileBi kw (tr L p.1) (tr L p.2)).evalL t =
        some (((isiProfileBi kw (tr L p.1) (tr L p.2)).evalL t).getD 0) := by
  have hleaf := B5_isi_leaf_on kw.noRecon L ts te rfl hv
  have hpair := B5_isiProfileBi_valid_pair kw L ts te hv
  refine ⟨?_, fun p hp => ?_⟩
  · unfold isiProfileMulti
    simp only [B5_prep_valid kw ts te L hv (B5_ne_nil_of_two h2), resolveIdx]
    rw [Pwc.mulScalar_evalL, genericProfileMulti_snd]
    obtain ⟨s, i⟩ := B5_gpm_sum Pwc.add (fun p => isiProfileBi kw.noRecon (tr L p.1) (tr L p.2))
      (B5_PwcOn ts te) (fun f => (f.evalL t).getD 0) (fun _ _ => B5_PwcOn.add)
      (fun _ _ hf hg => F5_PwcOn_add_evalL hf hg ht0 ht1) (List.range L.length)
      (B5_pairs_range_ne_nil h2) hleaf
    rw [F5_PwcOn_evalL_some s ht0 ht1, i, Option.map_some, mul_one_div]
    congr 3
    apply List.map_congr_left
    intro p hp
    rw [hpair p hp]
  · rw [← hpair p hp]
    exact F5_PwcOn_evalL_some (hleaf p hp) ht0 ht1

/-- **C06, SPIKE profile, left limits** (the SPIKE profile is discontinuous at spike times, so the
    left limits are independent information; `t = te` is the value at the right end) -/
theorem F5_spike_multi_profile_left_limit_is_mean (kw : Kw) (L : List Train) (ts te t : Q)
    (hv : B5_ValidList ts te L) (h2 : 2 ≤ L.length) (ht0 : ts < t) (ht1 : t ≤ te) :
    (spikeProfileMulti kw none L).evalL t =
      some (qsum ((pairsOf (List.range L.length)).map fun p =>
          ((spikeProfileBi kw (tr L p.1) (tr L p.2)).evalL t).getD 0)
        / ((pairsOf (List.range L.length)).length : Q)) ∧
    ∀ p ∈ pairsOf (List.range L.length),
      (spikeProfileBi kw (tr L p.1) (tr L p.2)).evalL t =
        some (((spikeProfileBi kw (tr L p.1) (tr L p.2)).evalL t).getD 0) := by
  have hleaf := C2_spike_leaf_on kw.noRecon L ts te rfl hv
  have hpair := C2_spikeProfileBi_valid_pair kw L ts te hv
  refine ⟨?_, fun p hp => ?_⟩
  · unfold spikeProfileMulti
    simp only [B5_prep_valid kw ts te L hv (B5_ne_nil_of_two h2), resolveIdx]
    rw [Pwl.mulScalar_evalL, genericProfileMulti_snd]
    obtain ⟨s, i⟩ := B5_gpm_sum Pwl.add (fun p => spikeProfileBi kw.noRecon (tr L p.1) (tr L p.2))
      (B5_PwlOn ts te) (fun f => (f.evalL t).getD 0) (fun _ _ => B5_PwlOn.add)
      (fun _ _ hf hg => F5_PwlOn_add_evalL hf hg ht0 ht1) (List.range L.length)
      (B5_pairs_range_ne_nil h2) hleaf
    rw [F5_PwlOn_evalL_some s ht0 ht1, i, Option.map_some, mul_one_div]
    congr 3
    apply List.map_congr_left
    intro p hp
    rw [hpair p hp]
  · rw [← hpair p hp]
    exact F5_PwlOn_evalL_some (hleaf p hp) ht0 ht1

example : B5_ValidList 0 6 B5_exV ∧ 2 ≤ B5_exV.length ∧ (0 : Q) < 3 ∧ (3 : Q) ≤ 6 ∧ (6 : Q) ≤ 6 :=
  ⟨B5_exV_valid, by decide, by norm_num, by norm_num, le_refl _⟩

/-! ## 2b. the multivariate SPIKE-Sync profile at every time = componentwise sum of the PUBLIC pair
    profiles, for every `kw` -/

theorem F5_valid_lt {ts te : Q} {L : List Train} (hv : B5_ValidList ts te L) (h2 : 2 ≤ L.length) :
    ts < te := by
  obtain ⟨a, ha⟩ := List.exists_mem_of_ne_nil L (B5_ne_nil_of_two h2)
  obtain ⟨v, s, e⟩ := hv a ha
  rw [← s, ← e]; exact v.1

theorem F5_valid_sorted {ts te : Q} {L : List Train} (hv : B5_ValidList ts te L) :
    ∀ s ∈ L, s.ts = ts ∧ s.te = te ∧ StrictSorted s.spikes :=
  fun s hs => ⟨(hv s hs).2.1, (hv s hs).2.2, (hv s hs).1.2.1⟩

theorem F5_syncProfileMulti_valid (kw : Kw) (L : List Train) (ts te : Q)
    (hv : B5_ValidList ts te L) :
    syncProfileMulti kw none L = syncProfileMulti kw.noRecon none L := by
  unfold syncProfileMulti
  rw [F5_prep_valid kw ts te L hv]
  rfl

/-- **C06 (SPIKE-Sync profile, assembled)**: at every time `t` the multivariate profile carries the
    sum of the values and the sum of the multiplicities that the public bivariate profiles
    `spike_sync_profile(L[i], L[j], **kw)` (same keywords) show at `t`, over all pairs `i < j` -/
theorem F5_sync_multi_profile_at_is_pair_sum (kw : Kw) (L : List Train) (ts te : Q)
    (hv : B5_ValidList ts te L) (h2 : 2 ≤ L.length) (t : Q) :
    (syncProfileMulti kw none L).at t =
      (qsum ((pairsOf (List.range L.length)).map fun p =>
          ((syncProfileBi kw (tr L p.1) (tr L p.2)).at t).1),
       qsum ((pairsOf (List.range L.length)).map fun p =>
          ((syncProfileBi kw (tr L p.1) (tr L p.2)).at t).2)) := by
  rw [F5_syncProfileMulti_valid kw L ts te hv,
    C4_multi_at_pairs kw.noRecon L rfl h2 (fun s hs => (F5_valid_sorted hv s hs).2.2) t]
  have e : ∀ p ∈ pairsOf (List.range L.length),
      syncProfileBi kw.noRecon (tr L p.1) (tr L p.2) = syncProfileBi kw (tr L p.1) (tr L p.2) :=
    fun p hp => (D4_syncProfileBi_valid kw _ _ (F5_pair_VBi hv p hp)).symm
  congr 2 <;> (apply List.map_congr_left; intro p hp; rw [e p hp])

example : B5_ValidList 0 6 B5_exV ∧ 2 ≤ B5_exV.length := ⟨B5_exV_valid, by decide⟩

/-! ## 2c. order independence of the ISI distance in the same disjunctive form as SPIKE / Sync -/

/-- **C06 (ISI distance, order independence)**: with the default reconciliation no hypothesis at all;
    without it, common edges suffice -/
theorem F5_isi_distance_order_independent (kw : Kw) {L' L : List Train} (ts te : Q)
    (he : kw.recon = true ∨ ∀ a ∈ L, a.ts = ts ∧ a.te = te) (hp : L'.Perm L) :
    isiDistanceMulti kw none L' = isiDistanceMulti kw none L := by
  cases hr : kw.recon with
  | true => exact isiDistanceMulti_perm_recon kw hr hp
  | false =>
    rcases he with h | h
    · rw [hr] at h; exact absurd h (by simp)
    · exact isiDistanceMulti_perm kw ts te hr h hp

example : ([⟨[2, 3, 6], 0, 6⟩, ⟨[], 0, 6⟩, ⟨[1, 3, 4], 0, 6⟩, ⟨[0, 5], 0, 6⟩] : List Train).Perm
    B5_exV ∧ ∀ a ∈ B5_exV, a.ts = 0 ∧ a.te = 6 :=
  ⟨by decide, fun a ha => (B5_exV_valid a ha).2⟩

/-! ## 3. C17: the keep rule and the multivariate profile, without `hother` -/

theorem F5_mem_trainsAt (L : List Train) (t : Q) (i : Nat) :
    i ∈ C4_trainsAt L t ↔ i < L.length ∧ t ∈ (tr L i).spikes := by
  unfold C4_trainsAt
  simp [List.mem_filter]

/-- **keep rule by spike time, every `kw`**: the spike of train `i` at time `t` is kept iff its
    coincidence count `count_i(t)` is strictly greater than `threshold · (N-1)`, removed iff not -/
theorem F5_filter_keep_iff_countAt (kw : Kw) (thr : Q) (L : List Train) (ts te : Q)
    (hv : B5_ValidList ts te L) (i : Nat) (hi : i < L.length) (t : Q) (ht : t ∈ (tr L i).spikes) :
    (t ∈ (tr (filterBySync kw thr L).1 i).spikes ↔
      C4_countAt kw L i t > thr * ((L.length : Q) - 1)) ∧
    (t ∈ (tr (filterBySync kw thr L).2 i).spikes ↔
      C4_countAt kw L i t ≤ thr * ((L.length : Q) - 1)) := by
  rw [D4_filterBySync_valid kw thr L ts te hv]
  have hs : StrictSorted (tr L i).spikes := (F5_valid_sorted hv _ (B5_tr_mem L i hi)).2.2
  have hk : (tr L i).spikes.idxOf t < (tr L i).spikes.length := List.idxOf_lt_length_of_mem ht
  have h1 := filter_keep_iff kw.noRecon thr L rfl i hi hs _ hk
  have h2 := B6_filter_remove_iff kw.noRecon thr L rfl i hi hs _ hk
  rw [List.getElem_idxOf] at h1 h2
  exact ⟨h1, h2⟩

/-- … in the words of the property: kept iff the FRACTION `count_i(t) / (N-1)` of the other trains it
    is coincident with exceeds the threshold (N ≥ 2) -/
theorem F5_filter_keep_iff_fraction (kw : Kw) (thr : Q) (L : List Train) (ts te : Q)
    (hv : B5_ValidList ts te L) (h2 : 2 ≤ L.length) (i : Nat) (hi : i < L.length) (t : Q)
    (ht : t ∈ (tr L i).spikes) :
    t ∈ (tr (filterBySync kw thr L).1 i).spikes ↔
      C4_countAt kw L i t / ((L.length : Q) - 1) > thr := by
  rw [(F5_filter_keep_iff_countAt kw thr L ts te hv i hi t ht).1]
  have hN : (0 : Q) < (L.length : Q) - 1 := by
    have : (2 : Q) ≤ (L.length : Q) := by exact_mod_cast h2
    linarith
  rw [gt_iff_lt, gt_iff_lt, lt_div_iff₀ hN]

/-- **the multivariate profile at any time, every `kw`**: value = `Σ_{i ∈ A_t} count_i(t)`,
    multiplicity = `|A_t| · (N-1)`, `A_t` the trains spiking at `t` (`C17.multi_profile_at_time` is
    the `kw.recon = false` form) -/
theorem F5_multi_profile_at_time (kw : Kw) (L : List Train) (ts te : Q)
    (hv : B5_ValidList ts te L) (h2 : 2 ≤ L.length) (t : Q) :
    (syncProfileMulti kw none L).at t =
      (((C4_trainsAt L t).map fun i => C4_countAt kw L i t).sum,
       ((C4_trainsAt L t).length : Q) * ((L.length : Q) - 1)) := by
  rw [F5_syncProfileMulti_valid kw L ts te hv]
  exact profile_at_time kw.noRecon L ts te rfl h2 (F5_valid_lt hv h2) (F5_valid_sorted hv) t

theorem F5_sum_gt {ι} (f : ι → Q) (c : Q) : ∀ l : List ι, l ≠ [] → (∀ i ∈ l, c < f i) →
    (l.length : Q) * c < (l.map f).sum
  | [], h, _ => absurd rfl h
  | [a], _, hf => by simpa using hf a (by simp)
  | a :: b :: r, _, hf => by
    have ih := F5_sum_gt f c (b :: r) (by simp) (fun i hi => hf i (List.mem_cons_of_mem _ hi))
    have ha := hf a (by simp)
    rw [List.map_cons, List.sum_cons, List.length_cons]
    push_cast
    linarith

theorem F5_sum_le {ι} (f : ι → Q) (c : Q) : ∀ l : List ι, (∀ i ∈ l, f i ≤ c) →
    (l.map f).sum ≤ (l.length : Q) * c
  | [], _ => by simp
  | a :: r, hf => by
    have ih := F5_sum_le f c r (fun i hi => hf i (List.mem_cons_of_mem _ hi))
    have ha := hf a (by simp)
    rw [List.map_cons, List.sum_cons, List.length_cons]
    push_cast
    linarith

/-- **C17, shared spike times (1)**: if the spike at `t` is KEPT in every train that spikes at `t`
    (at least one), the pooled profile fraction at `t` exceeds the threshold:
    value > threshold · multiplicity -/
theorem F5_all_kept_profile_above (kw : Kw) (thr : Q) (L : List Train) (ts te : Q)
    (hv : B5_ValidList ts te L) (h2 : 2 ≤ L.length) (t : Q) (hne : C4_trainsAt L t ≠ [])
    (hk : ∀ i ∈ C4_trainsAt L t, t ∈ (tr (filterBySync kw thr L).1 i).spikes) :
    ((syncProfileMulti kw none L).at t).1 > thr * ((syncProfileMulti kw none L).at t).2 := by
  rw [F5_multi_profile_at_time kw L ts te hv h2 t]
  have h := F5_sum_gt (fun i => C4_countAt kw L i t) (thr * ((L.length : Q) - 1)) _ hne
    (fun i hi => by
      obtain ⟨hi1, hi2⟩ := (F5_mem_trainsAt L t i).mp hi
      exact (F5_filter_keep_iff_countAt kw thr L ts te hv i hi1 t hi2).1.mp (hk i hi))
  show thr * (((C4_trainsAt L t).length : Q) * ((L.length : Q) - 1)) < _
  linarith

/-- **C17, shared spike times (2)**: if the spike at `t` is REMOVED in every train that spikes at
    `t`, the pooled profile fraction at `t` does not exceed the threshold -/
theorem F5_all_removed_profile_below (kw : Kw) (thr : Q) (L : List Train) (ts te : Q)
    (hv : B5_ValidList ts te L) (h2 : 2 ≤ L.length) (t : Q)
    (hk : ∀ i ∈ C4_trainsAt L t, t ∈ (tr (filterBySync kw thr L).2 i).spikes) :
    ((syncProfileMulti kw none L).at t).1 ≤ thr * ((syncProfileMulti kw none L).at t).2 := by
  rw [F5_multi_profile_at_time kw L ts te hv h2 t]
  have h := F5_sum_le (fun i => C4_countAt kw L i t) (thr * ((L.length : Q) - 1)) (C4_trainsAt L t)
    (fun i hi => by
      obtain ⟨hi1, hi2⟩ := (F5_mem_trainsAt L t i).mp hi
      exact (F5_filter_keep_iff_countAt kw thr L ts te hv i hi1 t hi2).2.mp (hk i hi))
  show _ ≤ thr * (((C4_trainsAt L t).length : Q) * ((L.length : Q) - 1))
  linarith

/-- **C17, general profile form of the keep rule**: if all trains spiking at `t` have the same
    coincidence count there (in particular if only train `i` spikes at `t`), the spike of train `i`
    at `t` is kept iff the profile value at `t` exceeds `threshold ·` the profile multiplicity -/
theorem F5_kept_iff_profile_above_of_equal_counts (kw : Kw) (thr : Q) (L : List Train) (ts te : Q)
    (hv : B5_ValidList ts te L) (h2 : 2 ≤ L.length) (i : Nat) (hi : i < L.length) (t : Q)
    (ht : t ∈ (tr L i).spikes)
    (hc : ∀ j ∈ C4_trainsAt L t, C4_countAt kw L j t = C4_countAt kw L i t) :
    t ∈ (tr (filterBySync kw thr L).1 i).spikes ↔
      ((syncProfileMulti kw none L).at t).1 > thr * ((syncProfileMulti kw none L).at t).2 := by
  rw [(F5_filter_keep_iff_countAt kw thr L ts te hv i hi t ht).1,
    F5_multi_profile_at_time kw L ts te hv h2 t]
  have hmem : i ∈ C4_trainsAt L t := (F5_mem_trainsAt L t i).mpr ⟨hi, ht⟩
  have hpos : (0 : Q) < ((C4_trainsAt L t).length : Q) := by
    have : 0 < (C4_trainsAt L t).length := List.length_pos_of_mem hmem
    exact_mod_cast this
  have hsum : ((C4_trainsAt L t).map fun j => C4_countAt kw L j t).sum =
      ((C4_trainsAt L t).length : Q) * C4_countAt kw L i t := by
    rw [List.map_congr_left hc, C4_sum_map_const]
  show _ ↔ thr * (((C4_trainsAt L t).length : Q) * ((L.length : Q) - 1)) < _
  rw [hsum, gt_iff_lt, ← mul_lt_mul_iff_right₀ hpos]
  constructor <;> intro h <;> linarith

/-- the special case of `C17.kept_iff_profile_above_threshold` (no other train spikes at `t`), now for
    every `kw` -/
theorem F5_kept_iff_profile_above_single (kw : Kw) (thr : Q) (L : List Train) (ts te : Q)
    (hv : B5_ValidList ts te L) (h2 : 2 ≤ L.length) (i : Nat) (hi : i < L.length) (t : Q)
    (ht : t ∈ (tr L i).spikes) (hother : ∀ j, j < L.length → j ≠ i → t ∉ (tr L j).spikes) :
    t ∈ (tr (filterBySync kw thr L).1 i).spikes ↔
      ((syncProfileMulti kw none L).at t).1 > thr * ((syncProfileMulti kw none L).at t).2 := by
  apply F5_kept_iff_profile_above_of_equal_counts kw thr L ts te hv h2 i hi t ht
  intro j hj
  rw [C4_trainsAt_single L t i hi ht hother, List.mem_singleton] at hj
  rw [hj]

/-! ### non-vacuity for section 3: `C4_exL`, time 3 is shared by trains 0 and 1 (count 1 each),
    time 1 by trains 0 and 2 -/

theorem F5_exL_valid : B5_ValidList 0 6 C4_exL := by
  intro a ha
  simp only [C4_exL, List.mem_cons, List.not_mem_nil, or_false] at ha
  rcases ha with rfl | rfl | rfl | rfl <;>
    exact ⟨⟨by decide, by decide, by decide⟩, rfl, rfl⟩

example : B5_ValidList 0 6 C4_exL ∧ 2 ≤ C4_exL.length ∧ (0 : Nat) < C4_exL.length ∧
    (3 : Q) ∈ (tr C4_exL 0).spikes ∧ C4_trainsAt C4_exL 3 = [0, 1] ∧
    (∀ j ∈ C4_trainsAt C4_exL 3, C4_countAt { } C4_exL j 3 = C4_countAt { } C4_exL 0 3) :=
  ⟨F5_exL_valid, by decide, by decide, by decide +kernel, by decide +kernel, by decide +kernel⟩

/-- threshold 1/4: both spikes at the shared time 3 are kept, profile (2, 6): 2 > 6/4;
    threshold 1/2: both removed, 2 ≤ 3 -/
example : C4_trainsAt C4_exL 3 ≠ [] ∧
    (∀ i ∈ C4_trainsAt C4_exL 3, (3 : Q) ∈ (tr (filterBySync { recon := false } (1/4) C4_exL).1 i).spikes) ∧
    (∀ i ∈ C4_trainsAt C4_exL 3, (3 : Q) ∈ (tr (filterBySync { recon := false } (1/2) C4_exL).2 i).spikes) ∧
    (syncProfileMulti { recon := false } none C4_exL).at 3 = (2, 6) := by
  refine ⟨by decide +kernel, by decide +kernel, by decide +kernel, ?_⟩
  rw [F5_multi_profile_at_time _ C4_exL 0 6 F5_exL_valid (by decide)]
  decide +kernel

/-- the same conclusions for the DEFAULT keyword record (`Reconcile=True`), by the theorems -/
example : (3 : Q) ∈ (tr (filterBySync { } (1/4) C4_exL).1 0).spikes ↔
    ((syncProfileMulti { } none C4_exL).at 3).1 > (1/4) * ((syncProfileMulti { } none C4_exL).at 3).2 :=
  F5_kept_iff_profile_above_of_equal_counts { } (1/4) C4_exL 0 6 F5_exL_valid (by decide) 0
    (by decide) 3 (by decide +kernel) (by decide +kernel)

/-! ### the assembled statements evaluated on concrete lists (both sides computed by the kernel;
    `decide` cannot run `reconcile`, so `recon := false` here — the theorems cover every `kw`) -/

example : isiDistanceMulti { recon := false } none D4_exL = some (7/24) ∧
    qsum ((pairsOf (List.range D4_exL.length)).map fun p =>
      (isiDistanceBi { recon := false } (tr D4_exL p.1) (tr D4_exL p.2)).getD 0)
      / ((pairsOf (List.range D4_exL.length)).length : Q) = 7/24 := by decide +kernel

/-- left and right limit of the multivariate SPIKE profile differ at the spike time 3; the left limit
    is the mean of the pair left limits -/
example : (spikeProfileMulti { recon := false } none B5_exV).evalL 3 = some (21412319 / 51226560) ∧
    (spikeProfileMulti { recon := false } none B5_exV).evalR 3 = some (19468091 / 51226560) ∧
    qsum ((pairsOf (List.range B5_exV.length)).map fun p =>
      ((spikeProfileBi { recon := false } (tr B5_exV p.1) (tr B5_exV p.2)).evalL 3).getD 0)
      / ((pairsOf (List.range B5_exV.length)).length : Q) = 21412319 / 51226560 := by
  decide +kernel

example : (syncProfileMulti { recon := false } none B5_exV).at 3 = (2, 6) ∧
    (qsum ((pairsOf (List.range B5_exV.length)).map fun p =>
        ((syncProfileBi { recon := false } (tr B5_exV p.1) (tr B5_exV p.2)).at 3).1),
     qsum ((pairsOf (List.range B5_exV.length)).map fun p =>
        ((syncProfileBi { recon := false } (tr B5_exV p.1) (tr B5_exV p.2)).at 3).2)) = (2, 6) := by
  decide +kernel

end PySpike
