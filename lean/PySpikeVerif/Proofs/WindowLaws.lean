/-
  Proofs/WindowLaws.lean — work package F2 (properties C03, C16, C04, C08):
  1. closed form of the coincidence window (`tauSpec`) as the minimum of the four adjacent half
     inter-spike intervals (MRTS = 0), its `max_tau > 0` variant, and the thresholded
     interpolation for MRTS > 0;
  2. mutuality of the coincidence relation (all pairs, simultaneous spikes included);
  3. enlarging `max_tau` never removes a coincidence — at profile level (`coincProfile`,
     `orderProfile`, `coincSingle`);
  4. swap / mirror laws of the spike-train-order profile on the interior entries, without the
     hypothesis "not both trains empty".
-/
import PySpikeVerif.Spec.Sync
import PySpikeVerif.Proofs.Basic
import PySpikeVerif.Proofs.TauLaws
import PySpikeVerif.Proofs.SyncScan
import PySpikeVerif.Proofs.OrderLaws
import PySpikeVerif.Proofs.MirrorSync
import PySpikeVerif.Proofs.ProfileAtTime
import PySpikeVerif.Proofs.MrtsLaws
import PySpikeVerif.Proofs.DirLaws
import Mathlib.Data.List.Basic
import Mathlib.Data.List.Forall2
import Mathlib.Tactic.Linarith
import Mathlib.Tactic.Ring
import Mathlib.Algebra.Order.Field.Rat

namespace PySpike

/-! ## 1. closed form of the coincidence window -/

/-- half of the interval from the previous spike of `s` (the last one before `x`) to `x`;
    `d / 2` when `s` has no spike before `x` -/
def F2_hP (s : List Q) (x d : Q) : Q :=
  (match predOf s x with | some p => x - p | none => d) / 2

/-- half of the interval from `x` to the next spike of `s` (the first one after `x`);
    `d / 2` when `s` has no spike after `x` -/
def F2_hF (s : List Q) (x d : Q) : Q :=
  (match succOf s x with | some n => n - x | none => d) / 2

theorem F2_hP_eq (s : List Q) (x d : Q) : optDiff (predOf s x) (some x) d / 2 = F2_hP s x d := by
  unfold F2_hP optDiff; cases predOf s x <;> rfl

theorem F2_hF_eq (s : List Q) (x d : Q) : optDiff (some x) (succOf s x) d / 2 = F2_hF s x d := by
  unfold F2_hF optDiff; cases succOf s x <;> rfl

theorem F2_hP_nonneg (s : List Q) (x d : Q) (hd : 0 ≤ d) : 0 ≤ F2_hP s x d := by
  unfold F2_hP
  cases h : predOf s x with
  | none => simp only; linarith
  | some p => have := C5_predOf_lt h; simp only; linarith

theorem F2_hF_nonneg (s : List Q) (x d : Q) (hd : 0 ≤ d) : 0 ≤ F2_hF s x d := by
  unfold F2_hF
  cases h : succOf s x with
  | none => simp only; linarith
  | some p => have := C5_succOf_gt h; simp only; linarith

theorem F2_hP_pos (s : List Q) (x d : Q) (hd : 0 < d) : 0 < F2_hP s x d := by
  unfold F2_hP
  cases h : predOf s x with
  | none => simp only; linarith
  | some p => have := C5_predOf_lt h; simp only; linarith

theorem F2_hF_pos (s : List Q) (x d : Q) (hd : 0 < d) : 0 < F2_hF s x d := by
  unfold F2_hF
  cases h : succOf s x with
  | none => simp only; linarith
  | some p => have := C5_succOf_gt h; simp only; linarith

theorem F2_predOf_mem {s : List Q} {a p : Q} (h : predOf s a = some p) : p ∈ s :=
  (List.mem_filter.mp (List.mem_of_getLast? h)).1

theorem F2_succOf_mem {s : List Q} {a f : Q} (h : succOf s a = some f) : f ∈ s :=
  (List.mem_filter.mp (List.mem_of_head? h)).1

/-- inside the recording `[ts, te]` a half-interval never exceeds half the recording length -/
theorem F2_hP_le (s : List Q) (x ts te : Q) (hs : ∀ y ∈ s, ts ≤ y ∧ y ≤ te) (hx : ts ≤ x ∧ x ≤ te) :
    F2_hP s x (te - ts) ≤ (te - ts) / 2 := by
  unfold F2_hP
  cases h : predOf s x with
  | none => exact le_refl _
  | some p => have := (hs p (F2_predOf_mem h)).1; simp only; linarith [hx.2]

theorem F2_hF_le (s : List Q) (x ts te : Q) (hs : ∀ y ∈ s, ts ≤ y ∧ y ≤ te) (hx : ts ≤ x ∧ x ≤ te) :
    F2_hF s x (te - ts) ≤ (te - ts) / 2 := by
  unfold F2_hF
  cases h : succOf s x with
  | none => exact le_refl _
  | some p => have := (hs p (F2_succOf_mem h)).2; simp only; linarith [hx.1]

/-- **the half-intervals are those of the adjacent spikes**: in a strictly increasing train written
    as `l ++ a :: r`, the half-interval before `a` is measured to the last spike of `l` and the one
    after `a` to the first spike of `r` (`d / 2` at the two ends of the train) -/
theorem F2_half_adjacent (l r : List Q) (a d : Q) (h : StrictSorted (l ++ a :: r)) :
    F2_hP (l ++ a :: r) a d = (match l.getLast? with | some p => a - p | none => d) / 2 ∧
    F2_hF (l ++ a :: r) a d = (match r.head? with | some n => n - a | none => d) / 2 := by
  have h' : StrictSorted (l.reverse.reverse ++ a :: r) := by rw [List.reverse_reverse]; exact h
  have hp := neighbours_predOf l.reverse r a h'
  have hf := neighbours_succOf l.reverse r a h'
  rw [List.reverse_reverse] at hp hf
  rw [List.head?_reverse] at hp
  unfold F2_hP F2_hF
  rw [hp, hf]
  exact ⟨rfl, rfl⟩

example : StrictSorted ([(1:Q)] ++ 2 :: [5]) := by unfold StrictSorted; decide +kernel

/-- **which half-intervals `get_tau` interpolates, and in which order** (every `true_max`, every
    MRTS): for `a ≤ b` the two *facing* half-intervals — the one after `a` in train 1 and the one
    before `b` in train 2 — are the caps (second argument of `interp`), the two outer ones only
    enter through `min`; for `b < a` the roles are exchanged. -/
theorem F2_tauSpec_unfold (s1 s2 : List Q) (tm m a b : Q) :
    tauSpec s1 s2 tm m a b =
      if a ≤ b then
        min (min (interp (F2_hP s1 a tm) (F2_hF s1 a tm) (m / 4))
                 (interp (F2_hF s2 b tm) (F2_hP s2 b tm) (m / 4))) (tm / 2)
      else
        min (min (interp (F2_hF s1 a tm) (F2_hP s1 a tm) (m / 4))
                 (interp (F2_hP s2 b tm) (F2_hF s2 b tm) (m / 4))) (tm / 2) := by
  unfold tauSpec getTau
  simp only [F2_hP_eq, F2_hF_eq]
  by_cases h : a ≤ b
  · have hf : tauFirst (some a) (some b) = true := by simp [tauFirst, h]
    simp only [hf, if_true, if_pos h]
  · have hf : tauFirst (some a) (some b) = false := by simp [tauFirst, h]
    simp only [hf, Bool.false_eq_true, if_false, if_neg h]

/-- the documented thresholded interpolation, written out with `min`/`max`
    (`interp x y t = min y (max (min x y) t)`): MRTS/4 clamped between the smaller of the two
    half-intervals of a spike and the half-interval facing the other spike -/
theorem F2_window_mrts_form (s1 s2 : List Q) (tm m a b : Q) :
    (a ≤ b → tauSpec s1 s2 tm m a b =
      min (min (min (F2_hF s1 a tm) (max (min (F2_hP s1 a tm) (F2_hF s1 a tm)) (m / 4)))
               (min (F2_hP s2 b tm) (max (min (F2_hF s2 b tm) (F2_hP s2 b tm)) (m / 4)))) (tm / 2)) ∧
    (b < a → tauSpec s1 s2 tm m a b =
      min (min (min (F2_hP s1 a tm) (max (min (F2_hF s1 a tm) (F2_hP s1 a tm)) (m / 4)))
               (min (F2_hF s2 b tm) (max (min (F2_hP s2 b tm) (F2_hF s2 b tm)) (m / 4)))) (tm / 2)) := by
  constructor
  · intro h
    rw [F2_tauSpec_unfold, if_pos h, interp_eq_clamp, interp_eq_clamp]
  · intro h
    rw [F2_tauSpec_unfold, if_neg (not_le.mpr h), interp_eq_clamp, interp_eq_clamp]

/-- the minimum of the four half inter-spike intervals adjacent to the two spikes -/
def F2_min4 (s1 s2 : List Q) (d a b : Q) : Q :=
  min (min (F2_hP s1 a d) (F2_hF s1 a d)) (min (F2_hP s2 b d) (F2_hF s2 b d))

/-- **regime MRTS/4 ≤ all four half-intervals** (in particular MRTS = 0): the window is the minimum
    of the four adjacent half inter-spike intervals (and of `true_max / 2`) -/
theorem F2_window_small_mrts (s1 s2 : List Q) (tm m a b : Q) (hm : m / 4 ≤ F2_min4 s1 s2 tm a b) :
    tauSpec s1 s2 tm m a b = min (F2_min4 s1 s2 tm a b) (tm / 2) := by
  unfold F2_min4 at *
  have h1 : m / 4 ≤ min (F2_hP s1 a tm) (F2_hF s1 a tm) := le_trans hm (min_le_left _ _)
  have h2 : m / 4 ≤ min (F2_hP s2 b tm) (F2_hF s2 b tm) := le_trans hm (min_le_right _ _)
  rw [F2_tauSpec_unfold]
  split_ifs with h
  · rw [interp_small_t _ _ _ h1, interp_small_t _ _ _ (by rw [min_comm]; exact h2),
      min_comm (F2_hF s2 b tm)]
  · rw [interp_small_t _ _ _ (by rw [min_comm]; exact h1), interp_small_t _ _ _ h2,
      min_comm (F2_hF s1 a tm)]

/-- **closed form for MRTS = 0, any non-negative `true_max`**: minimum of the four adjacent half
    inter-spike intervals (a missing neighbour counts as `true_max`), capped by `true_max / 2` -/
theorem F2_window_closed_form_tm (s1 s2 : List Q) (tm a b : Q) (htm : 0 ≤ tm) :
    tauSpec s1 s2 tm 0 a b = min (F2_min4 s1 s2 tm a b) (tm / 2) := by
  apply F2_window_small_mrts
  rw [zero_div]
  exact le_min (le_min (F2_hP_nonneg _ _ _ htm) (F2_hF_nonneg _ _ _ htm))
    (le_min (F2_hP_nonneg _ _ _ htm) (F2_hF_nonneg _ _ _ htm))

theorem F2_min4_le_half (s1 s2 : List Q) (ts te a b : Q)
    (hs1 : ∀ y ∈ s1, ts ≤ y ∧ y ≤ te) (ha : a ∈ s1) :
    F2_min4 s1 s2 (te - ts) a b ≤ (te - ts) / 2 :=
  le_trans (min_le_left _ _) (le_trans (min_le_left _ _) (F2_hP_le s1 a ts te hs1 (hs1 a ha)))

/-- **C03, closed form of the window without MRTS and without `max_tau`**: for spikes of two
    trains inside the recording `[ts, te]`, the coincidence window is the minimum of the four
    adjacent half inter-spike intervals; a missing neighbour counts as the recording length. -/
theorem F2_window_closed_form (s1 s2 : List Q) (ts te a b : Q)
    (hs1 : ∀ y ∈ s1, ts ≤ y ∧ y ≤ te) (ha : a ∈ s1) :
    tauSpec s1 s2 (trueMax ts te 0) 0 a b =
      min (min (F2_hP s1 a (te - ts)) (F2_hF s1 a (te - ts)))
          (min (F2_hP s2 b (te - ts)) (F2_hF s2 b (te - ts))) := by
  have hT : trueMax ts te 0 = te - ts := by unfold trueMax; simp
  have h0 : 0 ≤ te - ts := by have := hs1 a ha; linarith
  rw [hT, F2_window_closed_form_tm _ _ _ _ _ h0]
  exact min_eq_left (F2_min4_le_half s1 s2 ts te a b hs1 ha)

example : (∀ y ∈ [(1:Q), 2, 5], (0:Q) ≤ y ∧ y ≤ 10) ∧ (2:Q) ∈ [(1:Q), 2, 5] := by decide +kernel
/-- halves around 2 in `[1,2,5]`: 1/2, 3/2; around 3 in `[3,9]`: 5 (no previous spike), 3 -/
example : tauSpec [1, 2, 5] [3, 9] (trueMax 0 10 0) 0 2 3 = 1 / 2 ∧
    F2_hP [1, 2, 5] 2 10 = 1 / 2 ∧ F2_hF [1, 2, 5] 2 10 = 3 / 2 ∧
    F2_hP [3, 9] 3 10 = 5 ∧ F2_hF [3, 9] 3 10 = 3 := by decide +kernel

theorem F2_hP_cap (s : List Q) (x ts te tm : Q) (hs : ∀ y ∈ s, ts ≤ y ∧ y ≤ te)
    (hx : ts ≤ x ∧ x ≤ te) (htm : tm ≤ te - ts) :
    min (F2_hP s x tm) (tm / 2) = min (F2_hP s x (te - ts)) (tm / 2) := by
  have hle := F2_hP_le s x ts te hs hx
  unfold F2_hP at *
  cases h : predOf s x with
  | none =>
    simp only
    rw [min_self, min_eq_right (by linarith)]
  | some p => rfl

theorem F2_hF_cap (s : List Q) (x ts te tm : Q) (hs : ∀ y ∈ s, ts ≤ y ∧ y ≤ te)
    (hx : ts ≤ x ∧ x ≤ te) (htm : tm ≤ te - ts) :
    min (F2_hF s x tm) (tm / 2) = min (F2_hF s x (te - ts)) (tm / 2) := by
  have hle := F2_hF_le s x ts te hs hx
  unfold F2_hF at *
  cases h : succOf s x with
  | none =>
    simp only
    rw [min_self, min_eq_right (by linarith)]
  | some p => rfl

theorem F2_min_distrib (a b c : Q) : min (min a b) c = min (min a c) (min b c) := by
  rw [min_assoc a c, min_left_comm c b c, min_self, ← min_assoc]

theorem F2_min4_distrib (A B C D c : Q) :
    min (min (min A B) (min C D)) c = min (min (min A c) (min B c)) (min (min C c) (min D c)) := by
  rw [F2_min_distrib, F2_min_distrib A B c, F2_min_distrib C D c]

/-- the default `true_max` of the missing neighbours can be replaced by the recording length
    under the cap `true_max / 2` -/
theorem F2_min4_cap (s1 s2 : List Q) (ts te tm a b : Q)
    (hs1 : ∀ y ∈ s1, ts ≤ y ∧ y ≤ te) (hs2 : ∀ y ∈ s2, ts ≤ y ∧ y ≤ te)
    (ha : a ∈ s1) (hb : b ∈ s2) (htm : tm ≤ te - ts) :
    min (F2_min4 s1 s2 tm a b) (tm / 2) = min (F2_min4 s1 s2 (te - ts) a b) (tm / 2) := by
  unfold F2_min4
  rw [F2_min4_distrib, F2_min4_distrib (F2_hP s1 a (te - ts)),
    F2_hP_cap s1 a ts te tm hs1 (hs1 a ha) htm, F2_hF_cap s1 a ts te tm hs1 (hs1 a ha) htm,
    F2_hP_cap s2 b ts te tm hs2 (hs2 b hb) htm, F2_hF_cap s2 b ts te tm hs2 (hs2 b hb) htm]

/-- **closed form with `max_tau > 0`** (MRTS = 0): the minimum of the four adjacent half
    inter-spike intervals (missing neighbour = recording length), additionally capped by
    `max_tau` — the cap is on the whole window (fix F4). -/
theorem F2_window_closed_form_max_tau (s1 s2 : List Q) (ts te mt a b : Q) (hmt : 0 < mt)
    (hs1 : ∀ y ∈ s1, ts ≤ y ∧ y ≤ te) (hs2 : ∀ y ∈ s2, ts ≤ y ∧ y ≤ te)
    (ha : a ∈ s1) (hb : b ∈ s2) :
    tauSpec s1 s2 (trueMax ts te mt) 0 a b =
      min (min (min (F2_hP s1 a (te - ts)) (F2_hF s1 a (te - ts)))
               (min (F2_hP s2 b (te - ts)) (F2_hF s2 b (te - ts)))) mt := by
  have h0 : 0 ≤ te - ts := by have := hs1 a ha; linarith
  have hT : trueMax ts te mt = min (te - ts) (2 * mt) := by unfold trueMax; rw [if_pos hmt]
  have htm0 : 0 ≤ trueMax ts te mt := by rw [hT]; exact le_min h0 (by linarith)
  have htmle : trueMax ts te mt ≤ te - ts := by rw [hT]; exact min_le_left _ _
  rw [F2_window_closed_form_tm _ _ _ _ _ htm0, F2_min4_cap s1 s2 ts te _ a b hs1 hs2 ha hb htmle]
  have hhalf : trueMax ts te mt / 2 = min ((te - ts) / 2) mt := by
    rw [hT]
    rcases le_total (te - ts) (2 * mt) with h | h
    · rw [min_eq_left h, min_eq_left (by linarith)]
    · rw [min_eq_right h, min_eq_right (by linarith)]; ring
  rw [hhalf, ← min_assoc, min_eq_left (F2_min4_le_half s1 s2 ts te a b hs1 ha)]
  rfl

example : (0:Q) < 1 ∧ (∀ y ∈ [(1:Q), 2, 5], (0:Q) ≤ y ∧ y ≤ 10) ∧ (∀ y ∈ [(3:Q), 9], (0:Q) ≤ y ∧ y ≤ 10)
    ∧ (5:Q) ∈ [(1:Q), 2, 5] ∧ (3:Q) ∈ [(3:Q), 9] := by decide +kernel
/-- halves around 5: 3/2, 5; around 3: 5, 3; the cap `max_tau = 1` decides -/
example : tauSpec [1, 2, 5] [3, 9] (trueMax 0 10 1) 0 5 3 = 1 := by decide +kernel

/-- **two-sided bound for every MRTS**: the window lies between the MRTS = 0 form (minimum of all
    four half-intervals) and the minimum of the two facing half-intervals, both capped by
    `true_max / 2` -/
theorem F2_window_bounds (s1 s2 : List Q) (tm m a b : Q) :
    min (F2_min4 s1 s2 tm a b) (tm / 2) ≤ tauSpec s1 s2 tm m a b ∧
    (a ≤ b → tauSpec s1 s2 tm m a b ≤ min (min (F2_hF s1 a tm) (F2_hP s2 b tm)) (tm / 2)) ∧
    (b < a → tauSpec s1 s2 tm m a b ≤ min (min (F2_hP s1 a tm) (F2_hF s2 b tm)) (tm / 2)) := by
  refine ⟨?_, ?_, ?_⟩
  · rw [F2_tauSpec_unfold]
    unfold F2_min4
    split_ifs with h
    · refine min_le_min (min_le_min (interp_ge_min _ _ _) ?_) (le_refl _)
      rw [min_comm]; exact interp_ge_min _ _ _
    · refine min_le_min (min_le_min ?_ (interp_ge_min _ _ _)) (le_refl _)
      rw [min_comm]; exact interp_ge_min _ _ _
  · intro h
    rw [F2_tauSpec_unfold, if_pos h]
    exact min_le_min (min_le_min (interp_le_right _ _ _) (interp_le_right _ _ _)) (le_refl _)
  · intro h
    rw [F2_tauSpec_unfold, if_neg (not_le.mpr h)]
    exact min_le_min (min_le_min (interp_le_right _ _ _) (interp_le_right _ _ _)) (le_refl _)

theorem F2_interp_large (x y t : Q) (h : y ≤ t) : interp x y t = y := by
  rw [interp_eq_clamp]
  exact min_eq_left (le_trans h (le_max_right _ _))

/-- **regime MRTS/4 ≥ both facing half-intervals**: the window is the minimum of the two facing
    half-intervals (the upper bound of `F2_window_bounds` is attained) -/
theorem F2_window_large_mrts (s1 s2 : List Q) (tm m a b : Q) :
    (a ≤ b → F2_hF s1 a tm ≤ m / 4 → F2_hP s2 b tm ≤ m / 4 →
      tauSpec s1 s2 tm m a b = min (min (F2_hF s1 a tm) (F2_hP s2 b tm)) (tm / 2)) ∧
    (b < a → F2_hP s1 a tm ≤ m / 4 → F2_hF s2 b tm ≤ m / 4 →
      tauSpec s1 s2 tm m a b = min (min (F2_hP s1 a tm) (F2_hF s2 b tm)) (tm / 2)) := by
  constructor
  · intro h h1 h2
    rw [F2_tauSpec_unfold, if_pos h, F2_interp_large _ _ _ h1, F2_interp_large _ _ _ h2]
  · intro h h1 h2
    rw [F2_tauSpec_unfold, if_neg (not_le.mpr h), F2_interp_large _ _ _ h1, F2_interp_large _ _ _ h2]

/-- MRTS = 8 (MRTS/4 = 2 ≥ 3/2): window of (2, 3) = facing half-interval 3/2 instead of 1/2;
    MRTS = 4: the threshold 1 itself -/
example : tauSpec [1, 2, 5] [3, 9] (trueMax 0 10 0) 8 2 3 = 3 / 2 ∧
    tauSpec [1, 2, 5] [3, 9] (trueMax 0 10 0) 4 2 3 = 1 := by decide +kernel

/-! ## 2. mutuality -/

/-- **C03: coincidence is mutual** — for every pair of spike times (simultaneous spikes included),
    every `true_max` and every MRTS, `a` (train 1) is coincident with `b` (train 2) iff `b` is
    coincident with `a` when the roles of the trains are exchanged -/
theorem F2_coincidence_mutual (s1 s2 : List Q) (tm m a b : Q) :
    Coinc s1 s2 tm m a b ↔ Coinc s2 s1 tm m b a := by
  by_cases hab : a = b
  · subst hab
    by_cases htm : 0 < tm
    · exact ⟨fun _ => C4_Coinc_self s2 s1 tm m a htm, fun _ => C4_Coinc_self s1 s2 tm m a htm⟩
    · have hno : ∀ t1 t2 : List Q, ¬ Coinc t1 t2 tm m a a := by
        intro t1 t2 hc
        unfold Coinc tauSpec at hc
        have h1 := getTau_le_half (predOf t1 a) (some a) (succOf t1 a) (predOf t2 a) (some a)
          (succOf t2 a) tm m
        have h2 := qabs_nonneg (a - a)
        linarith
      exact ⟨fun h => absurd h (hno s1 s2), fun h => absurd h (hno s2 s1)⟩
  · exact C4_Coinc_swap s1 s2 tm m a b hab

/-- simultaneous spikes are coincident in both directions as soon as `0 < true_max` -/
theorem F2_coincidence_simultaneous (s1 s2 : List Q) (tm m a : Q) (htm : 0 < tm) :
    Coinc s1 s2 tm m a a ∧ Coinc s2 s1 tm m a a :=
  ⟨C4_Coinc_self s1 s2 tm m a htm, C4_Coinc_self s2 s1 tm m a htm⟩

example : Coinc [1, 2, 5] [9/4, 9] 10 0 2 (9/4) ∧ Coinc [9/4, 9] [1, 2, 5] 10 0 (9/4) 2 ∧
    ¬ Coinc [1, 2, 5] [9/4, 9] 10 0 1 (9/4) ∧ ¬ Coinc [9/4, 9] [1, 2, 5] 10 0 (9/4) 1 := by decide +kernel


/-! ## 3. enlarging `max_tau` never removes a coincidence — profile level -/

/-- `max_tau` ordered by permissiveness: positive values by size, `0` (= `None`, unbounded) on top -/
def F2_MaxTauLe (mt1 mt2 : Q) : Prop := (0 < mt1 ∧ mt1 ≤ mt2) ∨ mt2 = 0

theorem F2_trueMax_le (ts te mt1 mt2 : Q) (h : F2_MaxTauLe mt1 mt2) :
    trueMax ts te mt1 ≤ trueMax ts te mt2 := by
  rcases h with ⟨h1, h12⟩ | h0
  · exact trueMax_mono ts te mt1 mt2 h1 h12
  · rw [h0]; exact trueMax_le_unbounded ts te mt1

theorem F2_tauSpec_mono_tm (s1 s2 : List Q) (tm1 tm2 m a b : Q) (h : tm1 ≤ tm2) :
    tauSpec s1 s2 tm1 m a b ≤ tauSpec s1 s2 tm2 m a b :=
  getTau_mono_maxTau _ _ _ _ _ _ _ _ _ h

theorem F2_coinc_mono_tm (s1 s2 : List Q) (tm1 tm2 m a b : Q) (h : tm1 ≤ tm2)
    (hc : Coinc s1 s2 tm1 m a b) : Coinc s1 s2 tm2 m a b :=
  lt_of_lt_of_le hc (F2_tauSpec_mono_tm s1 s2 tm1 tm2 m a b h)

theorem F2_mark1_mono_tm (s1 s2 : List Q) (tm1 tm2 m a : Q) (h : tm1 ≤ tm2)
    (h1 : mark1 1 1 s1 s2 tm1 m a = 1) : mark1 1 1 s1 s2 tm2 m a = 1 := by
  obtain ⟨b, hb, hne, hc⟩ := (B1_mark1_eq_one s1 s2 tm1 m a).mp h1
  exact (B1_mark1_eq_one s1 s2 tm2 m a).mpr ⟨b, hb, hne, F2_coinc_mono_tm s1 s2 tm1 tm2 m a b h hc⟩

theorem F2_mark2_mono_tm (s1 s2 : List Q) (tm1 tm2 m b : Q) (h : tm1 ≤ tm2)
    (h1 : mark2 1 1 s1 s2 tm1 m b = 1) : mark2 1 1 s1 s2 tm2 m b = 1 := by
  obtain ⟨a, ha, hne, hc⟩ := (B1_mark2_eq_one s1 s2 tm1 m b).mp h1
  exact (B1_mark2_eq_one s1 s2 tm2 m b).mpr ⟨a, ha, hne, F2_coinc_mono_tm s1 s2 tm1 tm2 m a b h hc⟩

theorem F2_entryLe_of_01 (t x y mp : Q) (hx : x = 0 ∨ x = 1) (hy : y = 0 ∨ y = 1)
    (hxy : x = 1 → y = 1) : C5_EntryLe (t, x, mp) (t, y, mp) := by
  refine ⟨rfl, rfl, ?_, ?_⟩
  · show x ≤ y
    rcases hx with hx | hx
    · rcases hy with hy | hy <;> simp [hx, hy]
    · rw [hx, hxy hx]
  · intro hne
    show y = x
    rcases hx with hx | hx
    · exact absurd hx hne
    · rw [hx, hxy hx]

theorem F2_entrySpec_mono_tm (s1 s2 : List Q) (tm1 tm2 m t : Q) (h : tm1 ≤ tm2) :
    C5_EntryLe (entrySpec 1 1 2 s1 s2 tm1 m t) (entrySpec 1 1 2 s1 s2 tm2 m t) := by
  unfold entrySpec
  split_ifs with hb h1
  · exact C5_EntryLe_refl _
  · exact F2_entryLe_of_01 t _ _ 1 (C5_mark1_zero_or_one s1 s2 tm1 m t)
      (C5_mark1_zero_or_one s1 s2 tm2 m t) (F2_mark1_mono_tm s1 s2 tm1 tm2 m t h)
  · exact F2_entryLe_of_01 t _ _ 1 (C5_mark2_zero_or_one s1 s2 tm1 m t)
      (C5_mark2_zero_or_one s1 s2 tm2 m t) (F2_mark2_mono_tm s1 s2 tm1 tm2 m t h)

/-- entry by entry, the pairwise-defined SPIKE-Sync profile for the larger `true_max` has the same
    times and multiplicities, values `≥`, and every marked entry stays marked -/
theorem F2_scanSpec_sync_mono_tm (s1 s2 : List Q) (tm1 tm2 m : Q) (h : tm1 ≤ tm2) :
    List.Forall₂ C5_EntryLe (scanSpec 1 1 2 s1 s2 tm1 m) (scanSpec 1 1 2 s1 s2 tm2 m) := by
  unfold scanSpec
  rw [List.forall₂_map_left_iff, List.forall₂_map_right_iff, List.forall₂_same]
  intro t _
  exact F2_entrySpec_mono_tm s1 s2 tm1 tm2 m t h

/-- **C16 at profile level (SPIKE-Sync)**: enlarging `max_tau` (`0 < mt1 ≤ mt2`, or `mt2 = 0`, the
    unbounded setting) never removes a coincidence from the profile returned by
    `coincidence_python`: same event times and multiplicities, every value `≥`, and every marked
    entry keeps its value -/
theorem F2_coincProfile_mono_max_tau (s1 s2 : List Q) (ts te mt1 mt2 m : Q)
    (h1 : StrictSorted s1) (h2 : StrictSorted s2) (h : F2_MaxTauLe mt1 mt2) :
    List.Forall₂ C5_EntryLe (coincProfile s1 s2 ts te mt1 m) (coincProfile s1 s2 ts te mt2 m) := by
  rw [coincProfile_eq_spec _ _ _ _ _ _ h1 h2, coincProfile_eq_spec _ _ _ _ _ _ h1 h2]
  exact C5_frameProfile_mono ts te _ _
    (F2_scanSpec_sync_mono_tm s1 s2 _ _ m (F2_trueMax_le ts te mt1 mt2 h))

theorem F2_coincProfile_mono_max_tau_pos (s1 s2 : List Q) (ts te mt1 mt2 m : Q)
    (h1 : StrictSorted s1) (h2 : StrictSorted s2) (hpos : 0 < mt1) (hle : mt1 ≤ mt2) :
    List.Forall₂ C5_EntryLe (coincProfile s1 s2 ts te mt1 m) (coincProfile s1 s2 ts te mt2 m) :=
  F2_coincProfile_mono_max_tau s1 s2 ts te mt1 mt2 m h1 h2 (Or.inl ⟨hpos, hle⟩)

theorem F2_coincProfile_le_unbounded (s1 s2 : List Q) (ts te mt m : Q)
    (h1 : StrictSorted s1) (h2 : StrictSorted s2) :
    List.Forall₂ C5_EntryLe (coincProfile s1 s2 ts te mt m) (coincProfile s1 s2 ts te 0 m) :=
  F2_coincProfile_mono_max_tau s1 s2 ts te mt 0 m h1 h2 (Or.inr rfl)

example : StrictSorted [(10:Q), 20, 30] ∧ StrictSorted [(11:Q), 23, 33] ∧ F2_MaxTauLe 2 4 ∧
    F2_MaxTauLe 4 0 := by
  unfold StrictSorted F2_MaxTauLe; decide +kernel
/-- `max_tau` really matters: 1, then 3, then all 3 pairs coincident -/
example : (coincProfile [10, 20, 30] [11, 23, 33] 0 40 2 0).map (·.2.1) = [1, 1, 1, 0, 0, 0, 0, 0] ∧
    (coincProfile [10, 20, 30] [11, 23, 33] 0 40 4 0).map (·.2.1) = [1, 1, 1, 1, 1, 1, 1, 1] ∧
    (coincProfile [10, 20, 30] [11, 23, 33] 0 40 0 0).map (·.2.1) = [1, 1, 1, 1, 1, 1, 1, 1] := by
  decide +kernel

/-- the filter indicator of the pairwise definition is monotone in `true_max` -/
theorem F2_singleSpec_mono_tm (s1 s2 : List Q) (tm1 tm2 m : Q) (h : tm1 ≤ tm2) :
    List.Forall₂ (fun x y : Q => x ≤ y ∧ (x = 1 → y = 1))
      (singleSpec s1 s2 tm1 m) (singleSpec s1 s2 tm2 m) := by
  unfold singleSpec
  rw [List.forall₂_map_left_iff, List.forall₂_map_right_iff, List.forall₂_same]
  intro a _
  by_cases c : s2.any (fun b => decide (Coinc s1 s2 tm1 m a b)) = true
  · obtain ⟨b, hb, hp⟩ := List.any_eq_true.mp c
    have c' : s2.any (fun b => decide (Coinc s1 s2 tm2 m a b)) = true :=
      List.any_eq_true.mpr ⟨b, hb, by
        simp only [decide_eq_true_eq] at hp ⊢
        exact F2_coinc_mono_tm s1 s2 tm1 tm2 m a b h hp⟩
    rw [if_pos c, if_pos c']
    exact ⟨le_refl _, fun _ => rfl⟩
  · rw [if_neg c]
    constructor
    · split_ifs <;> norm_num
    · intro h01; norm_num at h01

/-- **C16 (sync filter)**: the per-spike coincidence indicator of `coincidence_single_python` is
    monotone in `max_tau`: a spike that has a partner keeps having one -/
theorem F2_coincSingle_mono_max_tau (s1 s2 : List Q) (ts te mt1 mt2 m : Q)
    (h1 : StrictSorted s1) (h2 : StrictSorted s2) (h : F2_MaxTauLe mt1 mt2) :
    List.Forall₂ (fun x y : Q => x ≤ y ∧ (x = 1 → y = 1))
      (coincSingle s1 s2 ts te mt1 m) (coincSingle s1 s2 ts te mt2 m) := by
  rw [coincSingle_eq_spec _ _ _ _ _ _ h1 h2, coincSingle_eq_spec _ _ _ _ _ _ h1 h2]
  exact F2_singleSpec_mono_tm s1 s2 _ _ m (F2_trueMax_le ts te mt1 mt2 h)

example : coincSingle [10, 20, 30] [11, 23, 33] 0 40 2 0 = [1, 0, 0] ∧
    coincSingle [10, 20, 30] [11, 23, 33] 0 40 4 0 = [1, 1, 1] := by decide +kernel

/-! ### the same for every sign convention (spike-train order): a marked entry keeps its value -/

/-- same time, same multiplicity, and a marked entry (value ≠ 0) keeps its value -/
def F2_EntryKeep (e1 e2 : Q × Q × Q) : Prop :=
  e1.1 = e2.1 ∧ e1.2.2 = e2.2.2 ∧ (e1.2.1 ≠ 0 → e2.2.1 = e1.2.1)

theorem F2_EntryKeep_refl (e : Q × Q × Q) : F2_EntryKeep e e := ⟨rfl, rfl, fun _ => rfl⟩

theorem F2_mark1_keep (v1 v2 : Q) (s1 s2 : List Q) (tm1 tm2 m a : Q)
    (h1 : StrictSorted s1) (h2 : StrictSorted s2) (ha : a ∈ s1) (h : tm1 ≤ tm2)
    (hne : mark1 v1 v2 s1 s2 tm1 m a ≠ 0) :
    mark1 v1 v2 s1 s2 tm2 m a = mark1 v1 v2 s1 s2 tm1 m a := by
  unfold mark1 at *
  by_cases c1 : s2.any (fun b => decide (b < a ∧ Coinc s1 s2 tm1 m a b)) = true
  · obtain ⟨b, hb, hp⟩ := List.any_eq_true.mp c1
    simp only [decide_eq_true_eq] at hp
    have c1' : s2.any (fun b => decide (b < a ∧ Coinc s1 s2 tm2 m a b)) = true :=
      List.any_eq_true.mpr ⟨b, hb, by
        simp only [decide_eq_true_eq]
        exact ⟨hp.1, F2_coinc_mono_tm s1 s2 tm1 tm2 m a b h hp.2⟩⟩
    rw [if_pos c1, if_pos c1']
  · by_cases c2 : s2.any (fun b => decide (a < b ∧ Coinc s1 s2 tm1 m a b)) = true
    · obtain ⟨b, hb, hp⟩ := List.any_eq_true.mp c2
      simp only [decide_eq_true_eq] at hp
      have hc2 := F2_coinc_mono_tm s1 s2 tm1 tm2 m a b h hp.2
      have c2' : s2.any (fun b => decide (a < b ∧ Coinc s1 s2 tm2 m a b)) = true :=
        List.any_eq_true.mpr ⟨b, hb, by
          simp only [decide_eq_true_eq]
          exact ⟨hp.1, hc2⟩⟩
      have c1' : ¬ s2.any (fun b => decide (b < a ∧ Coinc s1 s2 tm2 m a b)) = true := by
        intro hc
        obtain ⟨b', hb', hp'⟩ := List.any_eq_true.mp hc
        simp only [decide_eq_true_eq] at hp'
        have := (coinc_one_to_one s1 s2 tm2 m h1 h2).1 a b b' hc2 hp'.2 ha hb hb'
          (ne_of_lt hp.1) (ne_of_gt hp'.1)
        rw [this] at hp
        exact absurd hp.1 (not_lt.mpr (le_of_lt hp'.1))
      rw [if_neg c1, if_pos c2, if_neg c1', if_pos c2']
    · rw [if_neg c1, if_neg c2] at hne
      exact absurd rfl hne

theorem F2_mark2_keep (v1 v2 : Q) (s1 s2 : List Q) (tm1 tm2 m b : Q)
    (h1 : StrictSorted s1) (h2 : StrictSorted s2) (hb : b ∈ s2) (h : tm1 ≤ tm2)
    (hne : mark2 v1 v2 s1 s2 tm1 m b ≠ 0) :
    mark2 v1 v2 s1 s2 tm2 m b = mark2 v1 v2 s1 s2 tm1 m b := by
  unfold mark2 at *
  by_cases c1 : s1.any (fun a => decide (a < b ∧ Coinc s1 s2 tm1 m a b)) = true
  · obtain ⟨a, ha, hp⟩ := List.any_eq_true.mp c1
    simp only [decide_eq_true_eq] at hp
    have c1' : s1.any (fun a => decide (a < b ∧ Coinc s1 s2 tm2 m a b)) = true :=
      List.any_eq_true.mpr ⟨a, ha, by
        simp only [decide_eq_true_eq]
        exact ⟨hp.1, F2_coinc_mono_tm s1 s2 tm1 tm2 m a b h hp.2⟩⟩
    rw [if_pos c1, if_pos c1']
  · by_cases c2 : s1.any (fun a => decide (b < a ∧ Coinc s1 s2 tm1 m a b)) = true
    · obtain ⟨a, ha, hp⟩ := List.any_eq_true.mp c2
      simp only [decide_eq_true_eq] at hp
      have hc2 := F2_coinc_mono_tm s1 s2 tm1 tm2 m a b h hp.2
      have c2' : s1.any (fun a => decide (b < a ∧ Coinc s1 s2 tm2 m a b)) = true :=
        List.any_eq_true.mpr ⟨a, ha, by
          simp only [decide_eq_true_eq]
          exact ⟨hp.1, hc2⟩⟩
      have c1' : ¬ s1.any (fun a => decide (a < b ∧ Coinc s1 s2 tm2 m a b)) = true := by
        intro hc
        obtain ⟨a', ha', hp'⟩ := List.any_eq_true.mp hc
        simp only [decide_eq_true_eq] at hp'
        have := (coinc_one_to_one s1 s2 tm2 m h1 h2).2 a a' b hc2 hp'.2 ha ha' hb
          (ne_of_gt hp.1) (ne_of_lt hp'.1)
        rw [this] at hp
        exact absurd hp.1 (not_lt.mpr (le_of_lt hp'.1))
      rw [if_neg c1, if_pos c2, if_neg c1', if_pos c2']
    · rw [if_neg c1, if_neg c2] at hne
      exact absurd rfl hne

theorem F2_entrySpec_keep (v1 v2 vt : Q) (s1 s2 : List Q) (tm1 tm2 m t : Q)
    (h1 : StrictSorted s1) (h2 : StrictSorted s2) (ht : t ∈ s1 ∨ t ∈ s2) (h : tm1 ≤ tm2) :
    F2_EntryKeep (entrySpec v1 v2 vt s1 s2 tm1 m t) (entrySpec v1 v2 vt s1 s2 tm2 m t) := by
  unfold entrySpec
  split_ifs with hb ha
  · exact F2_EntryKeep_refl _
  · exact ⟨rfl, rfl, fun hne => F2_mark1_keep v1 v2 s1 s2 tm1 tm2 m t h1 h2 ha h hne⟩
  · have hb2 : t ∈ s2 := ht.resolve_left ha
    exact ⟨rfl, rfl, fun hne => F2_mark2_keep v1 v2 s1 s2 tm1 tm2 m t h1 h2 hb2 h hne⟩

theorem F2_scanSpec_keep_tm (v1 v2 vt : Q) (s1 s2 : List Q) (tm1 tm2 m : Q)
    (h1 : StrictSorted s1) (h2 : StrictSorted s2) (h : tm1 ≤ tm2) :
    List.Forall₂ F2_EntryKeep (scanSpec v1 v2 vt s1 s2 tm1 m) (scanSpec v1 v2 vt s1 s2 tm2 m) := by
  unfold scanSpec
  rw [List.forall₂_map_left_iff, List.forall₂_map_right_iff, List.forall₂_same]
  intro t ht
  have ht' : t ∈ s1 ∨ t ∈ s2 := List.mem_append.mp (uniqueQ_mem.mp ht)
  exact F2_entrySpec_keep v1 v2 vt s1 s2 tm1 tm2 m t h1 h2 ht' h

theorem F2_frameProfile_keep (ts te : Q) (E1 E2 : List (Q × Q × Q))
    (h : List.Forall₂ F2_EntryKeep E1 E2) :
    List.Forall₂ F2_EntryKeep (frameProfile ts te E1) (frameProfile ts te E2) := by
  cases h with
  | nil => exact List.forall₂_same.mpr (fun e _ => F2_EntryKeep_refl e)
  | @cons f1 f2 r1 r2 hf hr =>
    have hl := C5_forall₂_lastD F2_EntryKeep r1 r2 f1 f2 f1 f2 (List.Forall₂.cons hf hr)
    unfold frameProfile
    simp only
    refine List.Forall₂.cons ⟨rfl, hf.2.1, hf.2.2⟩ ?_
    refine List.rel_append (List.Forall₂.cons hf hr) ?_
    exact List.Forall₂.cons ⟨rfl, hl.2.1, hl.2.2⟩ List.Forall₂.nil

/-- **C16 at profile level (spike-train order)**: enlarging `max_tau` keeps event times and
    multiplicities, and every entry that is marked (±1) keeps its sign: no coincidence is removed
    and no leader/follower role changes -/
theorem F2_orderProfile_mono_max_tau (s1 s2 : List Q) (ts te mt1 mt2 m : Q)
    (h1 : StrictSorted s1) (h2 : StrictSorted s2) (h : F2_MaxTauLe mt1 mt2) :
    List.Forall₂ F2_EntryKeep (orderProfile s1 s2 ts te mt1 m) (orderProfile s1 s2 ts te mt2 m) := by
  rw [orderProfile_eq_spec _ _ _ _ _ _ h1 h2, orderProfile_eq_spec _ _ _ _ _ _ h1 h2]
  exact F2_frameProfile_keep ts te _ _
    (F2_scanSpec_keep_tm _ _ _ s1 s2 _ _ m h1 h2 (F2_trueMax_le ts te mt1 mt2 h))

example : (orderProfile [10, 20, 30] [11, 23, 33] 0 40 2 0).map (·.2.1) = [1, 1, 1, 0, 0, 0, 0, 0] ∧
    (orderProfile [10, 20, 30] [11, 23, 33] 0 40 4 0).map (·.2.1) = [1, 1, 1, 1, 1, 1, 1, 1] ∧
    (orderProfile [11, 23, 33] [10, 20, 30] 0 40 4 0).map (·.2.1)
      = [-1, -1, -1, -1, -1, -1, -1, -1] := by
  decide +kernel

/-! ### directionality values -/

theorem F2_dirSpec1_keep_tm (s1 s2 : List Q) (tm1 tm2 m : Q)
    (h1 : StrictSorted s1) (h2 : StrictSorted s2) (h : tm1 ≤ tm2) :
    List.Forall₂ (fun x y : Q => x ≠ 0 → y = x) (dirSpec1 s1 s2 tm1 m) (dirSpec1 s1 s2 tm2 m) := by
  unfold dirSpec1
  rw [List.forall₂_map_left_iff, List.forall₂_map_right_iff, List.forall₂_same]
  intro a ha hne
  exact F2_mark1_keep (-1) 1 s1 s2 tm1 tm2 m a h1 h2 ha h hne

/-- **C16 (directionality)**: enlarging `max_tau` never changes the value (±1) of a spike that is
    already part of a coincidence, in either train -/
theorem F2_dirProfile_mono_max_tau (s1 s2 : List Q) (ts te mt1 mt2 m : Q)
    (h1 : StrictSorted s1) (h2 : StrictSorted s2) (h : F2_MaxTauLe mt1 mt2) :
    List.Forall₂ (fun x y : Q => x ≠ 0 → y = x)
      (dirProfile s1 s2 ts te mt1 m).1 (dirProfile s1 s2 ts te mt2 m).1 ∧
    List.Forall₂ (fun x y : Q => x ≠ 0 → y = x)
      (dirProfile s1 s2 ts te mt1 m).2 (dirProfile s1 s2 ts te mt2 m).2 := by
  rw [D5_dirProfile_eq_spec _ _ _ _ _ _ h1 h2, D5_dirProfile_eq_spec _ _ _ _ _ _ h1 h2,
    D5_dirSpec2_eq, D5_dirSpec2_eq]
  have hle := F2_trueMax_le ts te mt1 mt2 h
  exact ⟨F2_dirSpec1_keep_tm s1 s2 _ _ m h1 h2 hle, F2_dirSpec1_keep_tm s2 s1 _ _ m h2 h1 hle⟩

example : dirProfile [10, 20, 30] [11, 23, 33] 0 40 2 0 = ([1, 0, 0], [-1, 0, 0]) ∧
    dirProfile [10, 20, 30] [11, 23, 33] 0 40 4 0 = ([1, 1, 1], [-1, -1, -1]) := by decide +kernel

/-! ## 4. swap and mirror of the spike-train-order profile without "not both empty" -/

/-- the un-framed scan: exchanging the trains negates every value (no hypothesis on emptiness) -/
theorem F2_order_scan_swap_neg (s1 s2 : List Q) (tm m : Q)
    (h1 : s1.Pairwise (· < ·)) (h2 : s2.Pairwise (· < ·)) :
    scanLoop (-1) 1 0 tm m [] s2 [] s1 []
      = (scanLoop (-1) 1 0 tm m [] s1 [] s2 []).map (fun e => (e.1, -e.2.1, e.2.2)) := by
  rw [scanLoop_swap (-1) 1 0 tm m [] s2 [] s1 [] (B2_Inv.init h2 h1)]
  have hneg := B2_scanLoop_neg (-1) 1 0 tm m [] s1 [] s2 []
  simp only [neg_neg, neg_zero, List.map_nil] at hneg
  rw [hneg]
  rfl

/-- **C04 on the interior entries**: exchanging the two trains negates the spike-train-order
    profile at every spike time — also for two empty trains (then there is no interior entry;
    only the two constant edge entries `(·, 1, 1)` are not negated) -/
theorem F2_orderProfile_swap_interior (s1 s2 : List Q) (ts te mt m : Q)
    (h1 : s1.Pairwise (· < ·)) (h2 : s2.Pairwise (· < ·)) :
    (Disc.mk (orderProfile s2 s1 ts te mt m)).interior
      = (Disc.mk (orderProfile s1 s2 ts te mt m)).interior.map (fun e => (e.1, -e.2.1, e.2.2)) := by
  unfold orderProfile
  rw [B2_interior_frame, B2_interior_frame, F2_order_scan_swap_neg s1 s2 _ m h1 h2,
    List.map_reverse]

/-- the same on the pairwise definition -/
theorem F2_scanSpec_order_swap (s1 s2 : List Q) (tm m : Q)
    (h1 : StrictSorted s1) (h2 : StrictSorted s2) :
    scanSpec (-1) 1 0 s2 s1 tm m
      = (scanSpec (-1) 1 0 s1 s2 tm m).map (fun e => (e.1, -e.2.1, e.2.2)) := by
  rw [← scanLoop_eq_spec _ _ _ _ _ _ _ h2 h1, ← scanLoop_eq_spec _ _ _ _ _ _ _ h1 h2,
    F2_order_scan_swap_neg s1 s2 tm m h1 h2, List.map_reverse]

/-- the whole profile, all cases: two empty trains give the constant profile on both sides -/
theorem F2_orderProfile_swap_all (s1 s2 : List Q) (ts te mt m : Q)
    (h1 : s1.Pairwise (· < ·)) (h2 : s2.Pairwise (· < ·)) :
    orderProfile s2 s1 ts te mt m =
      if s1 = [] ∧ s2 = [] then [(ts, 1, 1), (te, 1, 1)]
      else (orderProfile s1 s2 ts te mt m).map (fun e => (e.1, -e.2.1, e.2.2)) := by
  split_ifs with h
  · rw [h.1, h.2]; exact B2_orderProfile_nil_nil ts te mt m
  · exact orderProfile_swap_neg s1 s2 ts te mt m h1 h2 (not_and_or.mp h)

example : (Disc.mk (orderProfile [] [] 0 6 0 0)).interior = [] ∧
    (Disc.mk (orderProfile [2, 5] [1, 4] 0 6 0 0)).interior = [(1, -1, 1), (2, -1, 1), (4, -1, 1), (5, -1, 1)] ∧
    (Disc.mk (orderProfile [1, 4] [2, 5] 0 6 0 0)).interior = [(1, 1, 1), (2, 1, 1), (4, 1, 1), (5, 1, 1)] := by
  decide +kernel

/-- **C08 on the interior entries**: time reversal `t ↦ ts + te - t` of both trains mirrors the
    times, reverses the order and negates the values of the spike-train-order profile at every
    spike time — no exclusion of two empty trains -/
theorem F2_orderProfile_mirror_interior (s1 s2 : List Q) (ts te mt m : Q)
    (h1 : StrictSorted s1) (h2 : StrictSorted s2) :
    (Disc.mk (orderProfile (B10_mir (ts + te) s1) (B10_mir (ts + te) s2) ts te mt m)).interior
      = ((Disc.mk (orderProfile s1 s2 ts te mt m)).interior.map
          fun e => (B10_psi (ts + te) e.1, -e.2.1, e.2.2)).reverse := by
  rw [orderProfile_eq_spec _ _ _ _ _ _ (B10_mir_sorted h1) (B10_mir_sorted h2),
    orderProfile_eq_spec _ _ _ _ _ _ h1 h2, B2_interior_frame, B2_interior_frame,
    B10_scanSpec_order_mirror _ _ _ _ _ h1 h2]

/-- the whole mirrored profile, all cases -/
theorem F2_orderProfile_mirror_all (s1 s2 : List Q) (ts te mt m : Q)
    (h1 : StrictSorted s1) (h2 : StrictSorted s2) :
    orderProfile (B10_mir (ts + te) s1) (B10_mir (ts + te) s2) ts te mt m =
      if s1 = [] ∧ s2 = [] then [(ts, 1, 1), (te, 1, 1)]
      else ((orderProfile s1 s2 ts te mt m).map
          fun e => (B10_psi (ts + te) e.1, -e.2.1, e.2.2)).reverse := by
  split_ifs with h
  · rw [h.1, h.2]; exact B2_orderProfile_nil_nil ts te mt m
  · exact orderProfile_mirror s1 s2 ts te mt m h1 h2 (not_and_or.mp h)

example : (Disc.mk (orderProfile (B10_mir (0 + 6) [1, 4]) (B10_mir (0 + 6) [2, 5]) 0 6 0 0)).interior
    = [(1, -1, 1), (2, -1, 1), (4, -1, 1), (5, -1, 1)] := by decide +kernel

end PySpike
