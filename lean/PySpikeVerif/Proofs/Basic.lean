/-
  Proofs/Basic.lean — bridge between the import-free model and Mathlib's order/field lemmas on ℚ.
-/
import PySpikeVerif.Model.Basic
import Mathlib.Tactic.Linarith
import Mathlib.Tactic.FieldSimp
import Mathlib.Tactic.Positivity
import Mathlib.Tactic.Ring
import Mathlib.Algebra.Order.Field.Rat
import Mathlib.Algebra.Order.AbsoluteValue.Basic
import Mathlib.Order.Lattice

namespace PySpike

theorem qabs_eq_abs (x : Q) : qabs x = |x| := by
  unfold qabs; split
  · rw [abs_of_neg]; assumption
  · rw [abs_of_nonneg]; linarith

theorem qabs_nonneg (x : Q) : 0 ≤ qabs x := by rw [qabs_eq_abs]; exact abs_nonneg x

theorem qabs_sub_comm (x y : Q) : qabs (x - y) = qabs (y - x) := by
  rw [qabs_eq_abs, qabs_eq_abs, abs_sub_comm]

theorem qabs_mul_pos (c x : Q) (hc : 0 < c) : qabs (c * x) = c * qabs x := by
  rw [qabs_eq_abs, qabs_eq_abs, abs_mul, abs_of_pos hc]

end PySpike
