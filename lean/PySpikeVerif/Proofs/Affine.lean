/-
  Proofs/Affine.lean — property C08 (affine part): shifting all times by a constant and scaling
  them (together with MRTS and max_tau) by a positive factor transforms only the time axis of
  every profile. No validity assumption on the spike lists is needed.
-/
import PySpikeVerif.Model.Isi
import PySpikeVerif.Model.Spike
import PySpikeVerif.Model.Sync
import PySpikeVerif.Proofs.Basic
import Mathlib.Data.List.Basic

namespace PySpike

/-- the affine change of the time axis `x ↦ α x + β` -/
def aff (α β x : Q) : Q := α * x + β

section basic
variable {α : Q} (β : Q) (hα : 0 < α)
include hα

theorem aff_lt_iff (x y : Q) : aff α β x < aff α β y ↔ x < y := by
  unfold aff
  constructor
  · intro h; exact lt_of_mul_lt_mul_left (by linarith) (le_of_lt hα)
  · intro h; have := mul_lt_mul_of_pos_left h hα; linarith

theorem aff_le_iff (x y : Q) : aff α β x ≤ aff α β y ↔ x ≤ y := by
  rw [← not_lt, ← not_lt, aff_lt_iff β hα]

theorem aff_inj (x y : Q) : aff α β x = aff α β y ↔ x = y := by
  constructor
  · intro h
    exact le_antisymm ((aff_le_iff β hα x y).mp (le_of_eq h)) ((aff_le_iff β hα y x).mp (le_of_eq h.symm))
  · intro h; rw [h]

omit hα in
theorem aff_sub (x y : Q) : aff α β x - aff α β y = α * (x - y) := by
  unfold aff; ring

theorem scale_lt_iff (x y : Q) : α * x < α * y ↔ x < y := by
  have := aff_lt_iff 0 hα x y
  simpa [aff] using this

theorem scale_max (x y : Q) : max (α * x) (α * y) = α * max x y :=
  (mul_max_of_nonneg x y (le_of_lt hα)).symm

theorem scale_min (x y : Q) : min (α * x) (α * y) = α * min x y :=
  (mul_min_of_nonneg x y (le_of_lt hα)).symm

theorem aff_max (x y : Q) : max (aff α β x) (aff α β y) = aff α β (max x y) := by
  rcases le_total x y with h | h
  · rw [max_eq_right h, max_eq_right ((aff_le_iff β hα x y).mpr h)]
  · rw [max_eq_left h, max_eq_left ((aff_le_iff β hα y x).mpr h)]

theorem aff_min (x y : Q) : min (aff α β x) (aff α β y) = aff α β (min x y) := by
  rcases le_total x y with h | h
  · rw [min_eq_left h, min_eq_left ((aff_le_iff β hα x y).mpr h)]
  · rw [min_eq_right h, min_eq_right ((aff_le_iff β hα y x).mpr h)]

theorem scale_qabs (x : Q) : qabs (α * x) = α * qabs x := qabs_mul_pos α x hα

end basic

/-! ## 1. ISI -/

section isi
variable {α : Q} (β : Q) (hα : 0 < α)
include hα

theorem nuAfter_aff (p : Option Q) (a : Q) (r : List Q) (te : Q) :
    nuAfter (p.map (aff α β)) (aff α β a) (r.map (aff α β)) (aff α β te) = α * nuAfter p a r te := by
  cases r with
  | cons f r' => simp only [nuAfter, List.map_cons, aff_sub β]
  | nil =>
    cases p with
    | none => simp only [nuAfter, List.map_nil, Option.map_none, aff_sub β]
    | some q => simp only [nuAfter, List.map_nil, Option.map_some, aff_sub β, scale_max hα]

omit β in
theorem isiVal_scale (n1 n2 m : Q) : isiVal (α * n1) (α * n2) (α * m) = isiVal n1 n2 m := by
  unfold isiVal
  rw [← mul_sub, scale_qabs hα, scale_max hα, scale_max hα]
  exact mul_div_mul_left _ _ (ne_of_gt hα)

/-- the cursor of a train under the affine map -/
def affCur (α β : Q) (c : TrainCur) : TrainCur :=
  ⟨c.prev.map (aff α β), c.rest.map (aff α β), α * c.nu⟩

theorem isiInit_aff (s : List Q) (ts te : Q) :
    isiInit (s.map (aff α β)) (aff α β ts) (aff α β te) = affCur α β (isiInit s ts te) := by
  cases s with
  | nil => simp only [isiInit, affCur, List.map_nil, Option.map_none, aff_sub β]
  | cons a r =>
    simp only [isiInit, List.map_cons, gt_iff_lt, aff_lt_iff β hα]
    by_cases h : ts < a
    · rw [if_pos h, if_pos h]
      cases r with
      | nil => simp only [affCur, List.map_nil, List.map_cons, Option.map_none, aff_sub β]
      | cons b r' =>
        simp only [affCur, List.map_cons, Option.map_none, aff_sub β, scale_max hα]
    · rw [if_neg h, if_neg h]
      cases r with
      | nil => simp only [affCur, List.map_nil, Option.map_some, aff_sub β]
      | cons b r' => simp only [affCur, List.map_cons, Option.map_some, aff_sub β]

theorem isiLoop_aff (te m : Q) :
    ∀ (p1 : Option Q) (r1 : List Q) (nu1 : Q) (p2 : Option Q) (r2 : List Q) (nu2 : Q),
      isiLoop (aff α β te) (α * m) (p1.map (aff α β)) (r1.map (aff α β)) (α * nu1)
          (p2.map (aff α β)) (r2.map (aff α β)) (α * nu2)
        = (isiLoop te m p1 r1 nu1 p2 r2 nu2).map (fun e => (aff α β e.1, e.2)) := by
  intro p1 r1 nu1 p2 r2 nu2
  induction p1, r1, nu1, p2, r2, nu2 using isiLoop.induct te with
  | case1 p1 nu1 p2 nu2 => simp only [List.map_nil, isiLoop]
  | case2 p1 nu1 p2 nu2 a r1' nu1' ih =>
    simp only [List.map_cons, List.map_nil] at ih ⊢
    rw [isiLoop, isiLoop]
    simp only [List.map_cons, nuAfter_aff β hα, isiVal_scale hα]
    rw [← ih]; rfl
  | case3 p1 nu1 p2 nu2 b r2' nu2' ih =>
    simp only [List.map_cons, List.map_nil] at ih ⊢
    rw [isiLoop.eq_3, isiLoop.eq_3]
    simp only [List.map_cons, nuAfter_aff β hα, isiVal_scale hα]
    rw [← ih]; rfl
  | case4 p1 nu1 p2 nu2 a r1' b r2' hab nu1' ih =>
    simp only [List.map_cons] at ih ⊢
    rw [isiLoop, isiLoop, if_pos hab, if_pos ((aff_lt_iff β hα a b).mpr hab)]
    simp only [List.map_cons, nuAfter_aff β hα, isiVal_scale hα]
    rw [← ih]; rfl
  | case5 p1 nu1 p2 nu2 a r1' b r2' hab hba nu2' ih =>
    simp only [List.map_cons] at ih ⊢
    rw [isiLoop, isiLoop, if_neg hab, if_pos hba,
      if_neg (mt (aff_lt_iff β hα a b).mp hab), if_pos ((aff_lt_iff β hα b a).mpr hba)]
    simp only [List.map_cons, nuAfter_aff β hα, isiVal_scale hα]
    rw [← ih]; rfl
  | case6 p1 nu1 p2 nu2 a r1' b r2' hab hba nu1' nu2' ih =>
    simp only [List.map_cons] at ih ⊢
    rw [isiLoop, isiLoop, if_neg hab, if_neg hba,
      if_neg (mt (aff_lt_iff β hα a b).mp hab), if_neg (mt (aff_lt_iff β hα b a).mp hba)]
    simp only [List.map_cons, nuAfter_aff β hα, isiVal_scale hα]
    rw [← ih]; rfl

theorem isiEvents_aff (s1 s2 : List Q) (ts te m : Q) :
    isiEvents (s1.map (aff α β)) (s2.map (aff α β)) (aff α β ts) (aff α β te) (α * m)
      = (isiEvents s1 s2 ts te m).map (fun e => (aff α β e.1, e.2)) := by
  unfold isiEvents
  simp only [isiInit_aff β hα, affCur, isiVal_scale hα, isiLoop_aff β hα, List.map_cons]

theorem finishPwc_aff (evs : List (Q × Q)) (te : Q) :
    finishPwc (evs.map (fun e => (aff α β e.1, e.2))) (aff α β te)
      = ((finishPwc evs te).1.map (aff α β), (finishPwc evs te).2) := by
  unfold finishPwc
  have hc : ((evs.map (fun e => (aff α β e.1, e.2))).getLast?.map (·.1) = some (aff α β te))
      ↔ (evs.getLast?.map (·.1) = some te) := by
    rw [List.getLast?_map]
    cases evs.getLast? with
    | none => simp
    | some x => simp [aff_inj β hα]
  by_cases h : evs.getLast?.map (·.1) = some te
  · rw [if_pos h, if_pos (hc.mpr h)]
    simp only [List.map_map, Function.comp_def]
  · rw [if_neg h, if_neg (mt hc.mp h)]
    simp only [List.map_map, Function.comp_def, List.map_append, List.map_cons, List.map_nil]

theorem isiProfile_aff (s1 s2 : List Q) (ts te m : Q) :
    isiProfile (s1.map (aff α β)) (s2.map (aff α β)) (aff α β ts) (aff α β te) (α * m)
      = ((isiProfile s1 s2 ts te m).1.map (aff α β), (isiProfile s1 s2 ts te m).2) := by
  unfold isiProfile
  rw [isiEvents_aff β hα, finishPwc_aff β hα]

end isi

/-! ## 2. coincidence window -/

section sync
variable {α : Q} (β : Q) (hα : 0 < α)
include hα

omit β in
theorem interp_scale (a b t : Q) : interp (α * a) (α * b) (α * t) = α * interp a b t := by
  unfold interp
  simp only [scale_min hα, scale_lt_iff hα, gt_iff_lt]
  split_ifs <;> rfl

omit hα in
theorem optDiff_aff (x y : Option Q) (d : Q) :
    optDiff (x.map (aff α β)) (y.map (aff α β)) (α * d) = α * optDiff x y d := by
  cases x <;> cases y <;> simp only [optDiff, Option.map_none, Option.map_some, aff_sub β]

theorem tauFirst_aff (c1 c2 : Option Q) :
    tauFirst (c1.map (aff α β)) (c2.map (aff α β)) = tauFirst c1 c2 := by
  cases c1 <;> cases c2 <;> simp only [tauFirst, Option.map_none, Option.map_some, aff_le_iff β hα]

theorem getTau_aff (p1 c1 n1 p2 c2 n2 : Option Q) (M m : Q) :
    getTau (p1.map (aff α β)) (c1.map (aff α β)) (n1.map (aff α β))
        (p2.map (aff α β)) (c2.map (aff α β)) (n2.map (aff α β)) (α * M) (α * m)
      = α * getTau p1 c1 n1 p2 c2 n2 M m := by
  unfold getTau
  simp only [optDiff_aff β, tauFirst_aff β hα, mul_div_assoc, interp_scale hα, scale_min hα]
  split_ifs <;> rfl

theorem trueMax_aff (ts te mt : Q) :
    trueMax (aff α β ts) (aff α β te) (α * mt) = α * trueMax ts te mt := by
  unfold trueMax
  simp only [gt_iff_lt, mul_pos_iff_of_pos_left hα, aff_sub β, mul_left_comm 2 α mt, scale_min hα]
  split_ifs <;> rfl

theorem tauAt_aff (k1 r1 k2 r2 : List Q) (tm m : Q) :
    tauAt (k1.map (aff α β)) (r1.map (aff α β)) (k2.map (aff α β)) (r2.map (aff α β)) (α * tm) (α * m)
      = α * tauAt k1 r1 k2 r2 tm m := by
  unfold tauAt
  simp only [← List.map_tail, List.head?_map]
  exact getTau_aff β hα _ _ _ _ _ _ tm m

theorem tauAt_aff_nil1 (k1 k2 r2 : List Q) (tm m : Q) :
    tauAt (k1.map (aff α β)) [] (k2.map (aff α β)) (r2.map (aff α β)) (α * tm) (α * m)
      = α * tauAt k1 [] k2 r2 tm m := tauAt_aff β hα k1 [] k2 r2 tm m

theorem tauAt_aff_nil2 (k1 r1 k2 : List Q) (tm m : Q) :
    tauAt (k1.map (aff α β)) (r1.map (aff α β)) (k2.map (aff α β)) [] (α * tm) (α * m)
      = α * tauAt k1 r1 k2 [] tm m := tauAt_aff β hα k1 r1 k2 [] tm m

end sync

/-! ## 3. the merge scan of `coincidence_python` / `spike_train_order_profile_python` -/

/-- profile entry (time, value, multiplicity) with the time mapped -/
def affE (α β : Q) (e : Q × Q × Q) : Q × Q × Q := (aff α β e.1, e.2.1, e.2.2)

/-- the entry written by one step of `scanLoop` (the `out'` of the model) -/
def scanOut (v a : Q) (k : List Q) (tau : Q) (out : List (Q × Q × Q)) : List (Q × Q × Q) :=
  match k with
  | j :: _ => if a - j < tau then (a, v, 1) :: markHead v out else (a, 0, 1) :: out
  | [] => (a, 0, 1) :: out

theorem scanLoop_eq2 (v1 v2 vt tm m : Q) (k1 k2 : List Q) (a : Q) (r1' : List Q) (out : List (Q × Q × Q)) :
    scanLoop v1 v2 vt tm m k1 (a :: r1') k2 [] out
      = scanLoop v1 v2 vt tm m (a :: k1) r1' k2 [] (scanOut v1 a k2 (tauAt (a :: k1) r1' k2 [] tm m) out) := by
  cases k2 <;> (rw [scanLoop]; rfl)

theorem scanLoop_eq3 (v1 v2 vt tm m : Q) (k1 k2 : List Q) (b : Q) (r2' : List Q) (out : List (Q × Q × Q)) :
    scanLoop v1 v2 vt tm m k1 [] k2 (b :: r2') out
      = scanLoop v1 v2 vt tm m k1 [] (b :: k2) r2' (scanOut v2 b k1 (tauAt k1 [] (b :: k2) r2' tm m) out) := by
  cases k1 <;> (rw [scanLoop]; rfl)

theorem scanLoop_eq4 (v1 v2 vt tm m : Q) (k1 k2 : List Q) (a : Q) (r1' : List Q) (b : Q) (r2' : List Q)
    (out : List (Q × Q × Q)) (hab : a < b) :
    scanLoop v1 v2 vt tm m k1 (a :: r1') k2 (b :: r2') out
      = scanLoop v1 v2 vt tm m (a :: k1) r1' k2 (b :: r2')
          (scanOut v1 a k2 (tauAt (a :: k1) r1' k2 (b :: r2') tm m) out) := by
  rw [scanLoop, if_pos hab]; cases k2 <;> rfl

theorem scanLoop_eq5 (v1 v2 vt tm m : Q) (k1 k2 : List Q) (a : Q) (r1' : List Q) (b : Q) (r2' : List Q)
    (out : List (Q × Q × Q)) (hab : ¬ a < b) (hba : b < a) :
    scanLoop v1 v2 vt tm m k1 (a :: r1') k2 (b :: r2') out
      = scanLoop v1 v2 vt tm m k1 (a :: r1') (b :: k2) r2'
          (scanOut v2 b k1 (tauAt k1 (a :: r1') (b :: k2) r2' tm m) out) := by
  rw [scanLoop, if_neg hab, if_pos hba]; cases k1 <;> rfl

theorem scanLoop_eq6 (v1 v2 vt tm m : Q) (k1 k2 : List Q) (a : Q) (r1' : List Q) (b : Q) (r2' : List Q)
    (out : List (Q × Q × Q)) (hab : ¬ a < b) (hba : ¬ b < a) :
    scanLoop v1 v2 vt tm m k1 (a :: r1') k2 (b :: r2') out
      = scanLoop v1 v2 vt tm m (a :: k1) r1' (b :: k2) r2' ((a, vt, 2) :: out) := by
  rw [scanLoop, if_neg hab, if_neg hba]

section scan
variable {α : Q} (β : Q) (hα : 0 < α)
include hα

omit hα in
theorem markHead_aff (v : Q) (out : List (Q × Q × Q)) :
    markHead v (out.map (affE α β)) = (markHead v out).map (affE α β) := by
  cases out with
  | nil => rfl
  | cons e r => obtain ⟨t, c, mp⟩ := e; rfl

theorem scanOut_aff (v a : Q) (k : List Q) (tau : Q) (out : List (Q × Q × Q)) :
    scanOut v (aff α β a) (k.map (aff α β)) (α * tau) (out.map (affE α β))
      = (scanOut v a k tau out).map (affE α β) := by
  cases k with
  | nil => rfl
  | cons j t =>
    simp only [scanOut, List.map_cons, aff_sub β, scale_lt_iff hα]
    split_ifs
    · simp only [List.map_cons, markHead_aff β, affE]
    · simp only [List.map_cons, affE]

theorem scanLoop_affE (v1 v2 vt tm m : Q) :
    ∀ (k1 r1 k2 r2 : List Q) (out : List (Q × Q × Q)),
      scanLoop v1 v2 vt (α * tm) (α * m) (k1.map (aff α β)) (r1.map (aff α β)) (k2.map (aff α β))
          (r2.map (aff α β)) (out.map (affE α β))
        = (scanLoop v1 v2 vt tm m k1 r1 k2 r2 out).map (affE α β) := by
  intro k1 r1 k2 r2 out
  induction k1, r1, k2, r2, out using scanLoop.induct v1 v2 vt tm m with
  | case1 k1 k2 out => simp only [List.map_nil, scanLoop]
  | case2 k1 k2 out a r1' tau out' ih =>
    have e : out' = scanOut v1 a k2 (tauAt (a :: k1) r1' k2 [] tm m) out := by cases k2 <;> rfl
    rw [e] at ih
    rw [scanLoop_eq2, ← ih]
    simp only [List.map_cons, List.map_nil]
    rw [scanLoop_eq2]
    simp only [← List.map_cons, tauAt_aff_nil2 β hα, scanOut_aff β hα]
  | case3 k1 k2 out b r2' tau out' ih =>
    have e : out' = scanOut v2 b k1 (tauAt k1 [] (b :: k2) r2' tm m) out := by cases k1 <;> rfl
    rw [e] at ih
    rw [scanLoop_eq3, ← ih]
    simp only [List.map_cons, List.map_nil]
    rw [scanLoop_eq3]
    simp only [← List.map_cons, tauAt_aff_nil1 β hα, scanOut_aff β hα]
  | case4 k1 k2 out a r1' b r2' hab tau out' ih =>
    have e : out' = scanOut v1 a k2 (tauAt (a :: k1) r1' k2 (b :: r2') tm m) out := by cases k2 <;> rfl
    rw [e] at ih
    rw [scanLoop_eq4 _ _ _ _ _ _ _ _ _ _ _ _ hab, ← ih]
    simp only [List.map_cons]
    rw [scanLoop_eq4 _ _ _ _ _ _ _ _ _ _ _ _ ((aff_lt_iff β hα a b).mpr hab)]
    simp only [← List.map_cons, tauAt_aff β hα, scanOut_aff β hα]
  | case5 k1 k2 out a r1' b r2' hab hba tau out' ih =>
    have e : out' = scanOut v2 b k1 (tauAt k1 (a :: r1') (b :: k2) r2' tm m) out := by cases k1 <;> rfl
    rw [e] at ih
    rw [scanLoop_eq5 _ _ _ _ _ _ _ _ _ _ _ _ hab hba, ← ih]
    simp only [List.map_cons]
    rw [scanLoop_eq5 _ _ _ _ _ _ _ _ _ _ _ _ (mt (aff_lt_iff β hα a b).mp hab) ((aff_lt_iff β hα b a).mpr hba)]
    simp only [← List.map_cons, tauAt_aff β hα, scanOut_aff β hα]
  | case6 k1 k2 out a r1' b r2' hab hba ih =>
    rw [scanLoop_eq6 _ _ _ _ _ _ _ _ _ _ _ _ hab hba, ← ih]
    simp only [List.map_cons]
    rw [scanLoop_eq6 _ _ _ _ _ _ _ _ _ _ _ _ (mt (aff_lt_iff β hα a b).mp hab) (mt (aff_lt_iff β hα b a).mp hba)]
    rfl

/-- **scan loop**: times mapped, values and multiplicities unchanged -/
theorem scanLoop_aff (v1 v2 vt tm m : Q) (k1 r1 k2 r2 : List Q) (out : List (Q × Q × Q)) :
    scanLoop v1 v2 vt (α * tm) (α * m) (k1.map (aff α β)) (r1.map (aff α β)) (k2.map (aff α β))
        (r2.map (aff α β)) (out.map fun e => (aff α β e.1, e.2.1, e.2.2))
      = (scanLoop v1 v2 vt tm m k1 r1 k2 r2 out).map fun e => (aff α β e.1, e.2.1, e.2.2) :=
  scanLoop_affE β hα v1 v2 vt tm m k1 r1 k2 r2 out

omit hα in
theorem lastD_map {A B : Type} (g : A → B) : ∀ (l : List A) (d : A), lastD (l.map g) (g d) = g (lastD l d)
  | [], _ => rfl
  | [_], _ => rfl
  | _ :: b :: r, d => by
    have := lastD_map g (b :: r) d
    simpa only [List.map_cons, lastD] using this

omit hα in
theorem frameProfile_affE (ts te : Q) (entries : List (Q × Q × Q)) :
    frameProfile (aff α β ts) (aff α β te) (entries.map (affE α β))
      = (frameProfile ts te entries).map (affE α β) := by
  cases entries with
  | nil => rfl
  | cons f r =>
    have h := lastD_map (affE α β) (f :: r) f
    simp only [List.map_cons] at h
    simp only [frameProfile, List.map_cons, List.map_append, List.map_nil, h]
    simp only [affE]

omit hα in
theorem frameProfile_aff (ts te : Q) (entries : List (Q × Q × Q)) :
    frameProfile (aff α β ts) (aff α β te) (entries.map fun e => (aff α β e.1, e.2.1, e.2.2))
      = (frameProfile ts te entries).map fun e => (aff α β e.1, e.2.1, e.2.2) :=
  frameProfile_affE β ts te entries

theorem coincProfile_aff (s1 s2 : List Q) (ts te mt m : Q) :
    coincProfile (s1.map (aff α β)) (s2.map (aff α β)) (aff α β ts) (aff α β te) (α * mt) (α * m)
      = (coincProfile s1 s2 ts te mt m).map fun e => (aff α β e.1, e.2.1, e.2.2) := by
  have h := scanLoop_affE β hα 1 1 2 (trueMax ts te mt) m [] s1 [] s2 []
  simp only [List.map_nil] at h
  unfold coincProfile
  rw [trueMax_aff β hα, h, ← List.map_reverse]
  exact frameProfile_affE β ts te _

theorem orderProfile_aff (s1 s2 : List Q) (ts te mt m : Q) :
    orderProfile (s1.map (aff α β)) (s2.map (aff α β)) (aff α β ts) (aff α β te) (α * mt) (α * m)
      = (orderProfile s1 s2 ts te mt m).map fun e => (aff α β e.1, e.2.1, e.2.2) := by
  have h := scanLoop_affE β hα (-1) 1 0 (trueMax ts te mt) m [] s1 [] s2 []
  simp only [List.map_nil] at h
  unfold orderProfile
  rw [trueMax_aff β hα, h, ← List.map_reverse]
  exact frameProfile_affE β ts te _

end scan

/-! ## 4. `coincidence_single_python` and `spike_directionality_profile_python` -/

section single
variable {α : Q} (β : Q) (hα : 0 < α)
include hα

theorem skipBefore_aff (a : Q) : ∀ (r2 k2 : List Q),
    skipBefore (aff α β a) (k2.map (aff α β)) (r2.map (aff α β))
      = ((skipBefore a k2 r2).1.map (aff α β), (skipBefore a k2 r2).2.map (aff α β)) := by
  intro r2
  induction r2 with
  | nil => intro k2; rfl
  | cons b r ih =>
    intro k2
    simp only [List.map_cons, skipBefore, aff_lt_iff β hα]
    by_cases h : b < a
    · rw [if_pos h, if_pos h, ← List.map_cons, ih]
    · rw [if_neg h, if_neg h]; simp only [List.map_cons]

theorem singleLoop_aff (tm m : Q) : ∀ (r1 k1 k2 r2 : List Q),
    singleLoop (α * tm) (α * m) (k1.map (aff α β)) (r1.map (aff α β)) (k2.map (aff α β)) (r2.map (aff α β))
      = singleLoop tm m k1 r1 k2 r2 := by
  intro r1
  induction r1 with
  | nil => intro k1 k2 r2; rfl
  | cons a r1' ih =>
    intro k1 k2 r2
    simp only [List.map_cons]
    rw [singleLoop, singleLoop]
    simp only [skipBefore_aff β hα]
    generalize skipBefore a k2 r2 = sk
    obtain ⟨k2a, r2a⟩ := sk
    have ht2 := tauAt_aff β hα (a :: k1) r1' k2a r2a tm m
    have ih2 := ih (a :: k1) k2a r2a
    cases r2a with
    | nil =>
      cases k2a with
      | nil =>
        simp only [List.map_cons, List.map_nil] at ht2 ih2 ⊢
        rw [ih2]
      | cons j t =>
        simp only [List.map_cons, List.map_nil] at ht2 ih2 ⊢
        rw [ih2, ht2]
        simp only [aff_sub β, scale_qabs hα, scale_lt_iff hα]
    | cons b r2b =>
      have ht1 := tauAt_aff β hα (a :: k1) r1' (b :: k2a) r2b tm m
      have ih1 := ih (a :: k1) (b :: k2a) r2b
      cases k2a with
      | nil =>
        simp only [List.map_cons, List.map_nil] at ht1 ih1 ⊢
        rw [ih1, ht1]
        simp only [aff_sub β, scale_qabs hα, scale_lt_iff hα]
      | cons j t =>
        simp only [List.map_cons] at ht1 ht2 ih1 ih2 ⊢
        simp only [aff_lt_iff β hα]
        by_cases hja : j < a
        · simp only [hja, decide_true]
          rw [ih1, ht1, ht2]
          simp only [aff_sub β, scale_qabs hα, scale_lt_iff hα]
        · simp only [hja, decide_false]
          rw [ih2, ht2]
          simp only [aff_sub β, scale_qabs hα, scale_lt_iff hα]

theorem coincSingle_aff (s1 s2 : List Q) (ts te mt m : Q) :
    coincSingle (s1.map (aff α β)) (s2.map (aff α β)) (aff α β ts) (aff α β te) (α * mt) (α * m)
      = coincSingle s1 s2 ts te mt m := by
  unfold coincSingle
  rw [trueMax_aff β hα]
  exact singleLoop_aff β hα _ m s1 [] [] s2

set_option linter.unusedSimpArgs false in
theorem dirLoop_aff (tm m : Q) (k1 r1 k2 r2 d1 d2 : List Q) :
    dirLoop (α * tm) (α * m) (k1.map (aff α β)) (r1.map (aff α β)) (k2.map (aff α β)) (r2.map (aff α β)) d1 d2
      = dirLoop tm m k1 r1 k2 r2 d1 d2 := by
  induction k1, r1, k2, r2, d1, d2 using dirLoop.induct tm m with
  | case1 k1 k2 d1 d2 => simp only [List.map_nil, dirLoop]
  | case2 k1 d1 d2 a r1' j tail tau h ih =>
    simp only [List.map_cons, List.map_nil]
    rw [dirLoop, dirLoop]
    simp only [← List.map_cons, tauAt_aff β hα, tauAt_aff_nil1 β hα, tauAt_aff_nil2 β hα, aff_sub β, scale_lt_iff hα]
    rw [if_pos h, if_pos h]
    exact ih
  | case3 k1 d1 d2 a r1' j tail tau h ih =>
    simp only [List.map_cons, List.map_nil]
    rw [dirLoop, dirLoop]
    simp only [← List.map_cons, tauAt_aff β hα, tauAt_aff_nil1 β hα, tauAt_aff_nil2 β hα, aff_sub β, scale_lt_iff hα]
    rw [if_neg h, if_neg h]
    exact ih
  | case4 k1 d1 d2 a r1' ih =>
    simp only [List.map_cons, List.map_nil]
    rw [dirLoop, dirLoop]
    simp only [← List.map_cons]
    exact ih
  | case5 k2 d1 d2 b r2' j tail tau h ih =>
    simp only [List.map_cons, List.map_nil]
    rw [dirLoop, dirLoop]
    simp only [← List.map_cons, tauAt_aff β hα, tauAt_aff_nil1 β hα, tauAt_aff_nil2 β hα, aff_sub β, scale_lt_iff hα]
    rw [if_pos h, if_pos h]
    exact ih
  | case6 k2 d1 d2 b r2' j tail tau h ih =>
    simp only [List.map_cons, List.map_nil]
    rw [dirLoop, dirLoop]
    simp only [← List.map_cons, tauAt_aff β hα, tauAt_aff_nil1 β hα, tauAt_aff_nil2 β hα, aff_sub β, scale_lt_iff hα]
    rw [if_neg h, if_neg h]
    exact ih
  | case7 k2 d1 d2 b r2' ih =>
    simp only [List.map_cons, List.map_nil]
    rw [dirLoop, dirLoop]
    simp only [← List.map_cons]
    exact ih
  | case8 k1 d1 d2 a r1' b r2' hab j tail tau h ih =>
    simp only [List.map_cons, List.map_nil]
    rw [dirLoop, dirLoop]
    simp only [aff_lt_iff β hα, hab, if_true, if_false]
    simp only [← List.map_cons, tauAt_aff β hα, tauAt_aff_nil1 β hα, tauAt_aff_nil2 β hα, aff_sub β, scale_lt_iff hα]
    rw [if_pos h, if_pos h]
    exact ih
  | case9 k1 d1 d2 a r1' b r2' hab j tail tau h ih =>
    simp only [List.map_cons, List.map_nil]
    rw [dirLoop, dirLoop]
    simp only [aff_lt_iff β hα, hab, if_true, if_false]
    simp only [← List.map_cons, tauAt_aff β hα, tauAt_aff_nil1 β hα, tauAt_aff_nil2 β hα, aff_sub β, scale_lt_iff hα]
    rw [if_neg h, if_neg h]
    exact ih
  | case10 k1 d1 d2 a r1' b r2' hab ih =>
    simp only [List.map_cons, List.map_nil]
    rw [dirLoop, dirLoop]
    simp only [aff_lt_iff β hα, hab, if_true, if_false]
    simp only [← List.map_cons]
    exact ih
  | case11 k2 d1 d2 a r1' b r2' hab hba j tail tau h ih =>
    simp only [List.map_cons, List.map_nil]
    rw [dirLoop, dirLoop]
    simp only [aff_lt_iff β hα, hab, hba, if_true, if_false]
    simp only [← List.map_cons, tauAt_aff β hα, tauAt_aff_nil1 β hα, tauAt_aff_nil2 β hα, aff_sub β, scale_lt_iff hα]
    rw [if_pos h, if_pos h]
    exact ih
  | case12 k2 d1 d2 a r1' b r2' hab hba j tail tau h ih =>
    simp only [List.map_cons, List.map_nil]
    rw [dirLoop, dirLoop]
    simp only [aff_lt_iff β hα, hab, hba, if_true, if_false]
    simp only [← List.map_cons, tauAt_aff β hα, tauAt_aff_nil1 β hα, tauAt_aff_nil2 β hα, aff_sub β, scale_lt_iff hα]
    rw [if_neg h, if_neg h]
    exact ih
  | case13 k2 d1 d2 a r1' b r2' hab hba ih =>
    simp only [List.map_cons, List.map_nil]
    rw [dirLoop, dirLoop]
    simp only [aff_lt_iff β hα, hab, hba, if_true, if_false]
    simp only [← List.map_cons]
    exact ih
  | case14 k1 k2 d1 d2 a r1' b r2' hab hba ih =>
    simp only [List.map_cons, List.map_nil]
    rw [dirLoop, dirLoop]
    simp only [aff_lt_iff β hα, hab, hba, if_true, if_false]
    simp only [← List.map_cons]
    exact ih

theorem dirProfile_aff (s1 s2 : List Q) (ts te mt m : Q) :
    dirProfile (s1.map (aff α β)) (s2.map (aff α β)) (aff α β ts) (aff α β te) (α * mt) (α * m)
      = dirProfile s1 s2 ts te mt m := by
  unfold dirProfile
  rw [trueMax_aff β hα]
  have h := dirLoop_aff β hα (trueMax ts te mt) m [] s1 [] s2 [] []
  simp only [List.map_nil] at h
  rw [h]

end single

/-! ## 5. SPIKE -/

/-- per-train state of `spike_distance_python`: times mapped, distances and interval length scaled -/
def affSt (α β : Q) (x : SpkSt) : SpkSt :=
  ⟨aff α β x.tp, aff α β x.tf, α * x.dtp, α * x.dtf, α * x.isi⟩

def affEnv (α β : Q) (e : SpkEnv) : SpkEnv :=
  ⟨aff α β e.te, α * e.m, e.ri, aff α β e.as1, aff α β e.ae1, aff α β e.as2, aff α β e.ae2⟩

section spike
variable {α : Q} (β : Q) (hα : 0 < α)
include hα

theorem getMinDistFrom_aff (x : Q) (tr : List Q) (d aux1 : Q) :
    getMinDistFrom (aff α β x) (tr.map (aff α β)) (α * d) (aff α β aux1)
      = α * getMinDistFrom x tr d aux1 := by
  induction tr generalizing d with
  | nil =>
    simp only [getMinDistFrom, List.map_nil, aff_sub β, scale_qabs hα, scale_lt_iff hα, gt_iff_lt]
    split_ifs <;> rfl
  | cons y r ih =>
    simp only [getMinDistFrom, List.map_cons, aff_sub β, scale_qabs hα, scale_lt_iff hα, gt_iff_lt, ih]
    split_ifs <;> rfl

theorem minDist_aff (x : Q) (tr : List Q) (a0 a1 : Q) :
    minDist (aff α β x) (tr.map (aff α β)) (aff α β a0) (aff α β a1) = α * minDist x tr a0 a1 := by
  unfold minDist
  rw [aff_sub β, scale_qabs hα, getMinDistFrom_aff β hα]

omit β in
theorem distAtT_scale (i1 i2 s1 s2 m : Q) (ri : Bool) :
    distAtT (α * i1) (α * i2) (α * s1) (α * s2) (α * m) ri = distAtT i1 i2 s1 s2 m ri := by
  unfold distAtT
  have hne : α ≠ 0 := ne_of_gt hα
  have hmean : (α * i1 + α * i2) / 2 = α * ((i1 + i2) / 2) := by ring
  simp only [hmean, scale_max hα]
  cases ri with
  | true =>
    simp only [if_true]
    rw [show (α * s1 + α * s2) / 2 = α * ((s1 + s2) / 2) by ring]
    exact mul_div_mul_left _ _ hne
  | false =>
    simp only [Bool.false_eq_true, if_false]
    rw [show (α * s1 * (α * i2) + α * s2 * (α * i1)) / 2 = (α * α) * ((s1 * i2 + s2 * i1) / 2) by ring,
      show α * ((i1 + i2) / 2) * (α * max m ((i1 + i2) / 2))
        = (α * α) * ((i1 + i2) / 2 * max m ((i1 + i2) / 2)) by ring]
    exact mul_div_mul_left _ _ (mul_ne_zero hne hne)

theorem auxStart_aff (t : List Q) (ts : Q) :
    auxStart (t.map (aff α β)) (aff α β ts) = aff α β (auxStart t ts) := by
  match t with
  | [] => rfl
  | [_] => rfl
  | a :: b :: r =>
    simp only [auxStart, List.map_cons]
    rw [show aff α β a - (aff α β b - aff α β a) = aff α β (a - (b - a)) by unfold aff; ring,
      aff_min β hα]

theorem auxEnd_aff : ∀ (t : List Q) (te : Q),
    auxEnd (t.map (aff α β)) (aff α β te) = aff α β (auxEnd t te)
  | [], _ => rfl
  | [_], _ => rfl
  | [p, l], te => by
    simp only [auxEnd, List.map_cons, List.map_nil]
    rw [show aff α β l + (aff α β l - aff α β p) = aff α β (l + (l - p)) by unfold aff; ring,
      aff_max β hα]
  | a :: b :: c :: r, te => by
    have := auxEnd_aff (b :: c :: r) te
    simpa only [auxEnd, List.map_cons] using this

omit hα in
theorem aff_ite (c : Prop) [Decidable c] (x y : Q) :
    (if c then aff α β x else aff α β y) = aff α β (if c then x else y) := by
  split_ifs <;> rfl

theorem spkInit_aff (t o : List Q) (ts te a0 oa0 oa1 : Q) :
    spkInit (t.map (aff α β)) (o.map (aff α β)) (aff α β ts) (aff α β te) (aff α β a0)
        (aff α β oa0) (aff α β oa1)
      = (affSt α β (spkInit t o ts te a0 oa0 oa1).1, (spkInit t o ts te a0 oa0 oa1).2.1.map (aff α β),
          (spkInit t o ts te a0 oa0 oa1).2.2.1.map (aff α β), α * (spkInit t o ts te a0 oa0 oa1).2.2.2) := by
  cases t with
  | nil => simp only [spkInit, affSt, List.map_nil, Option.map_none, aff_sub β, mul_zero]
  | cons a r =>
    simp only [spkInit, List.map_cons, gt_iff_lt, aff_lt_iff β hα, aff_inj β hα, aff_ite β]
    by_cases h : ts < a
    · rw [if_pos h, if_pos h]
      cases r with
      | nil =>
        simp only [affSt, List.map_nil, List.map_cons, Option.map_none, aff_sub β, minDist_aff β hα]
      | cons b r' =>
        simp only [affSt, List.map_cons, Option.map_none, aff_sub β, minDist_aff β hα, scale_max hα]
    · rw [if_neg h, if_neg h]
      cases r with
      | nil =>
        simp only [affSt, List.map_nil, Option.map_some, aff_sub β, minDist_aff β hα]
      | cons b r' =>
        simp only [affSt, List.map_cons, Option.map_some, aff_sub β, minDist_aff β hα]

omit β in
theorem scale_s1 (d t i : Q) : α * d * (α * t) / (α * i) = α * (d * t / i) := by
  rw [show α * d * (α * t) = α * (α * (d * t)) by ring, mul_div_mul_left _ _ (ne_of_gt hα), mul_div_assoc]

omit β in
theorem scale_s2 (p u f w i : Q) :
    (α * p * (α * u) + α * f * (α * w)) / (α * i) = α * ((p * u + f * w) / i) := by
  rw [show α * p * (α * u) + α * f * (α * w) = α * (α * (p * u + f * w)) by ring,
    mul_div_mul_left _ _ (ne_of_gt hα), mul_div_assoc]

theorem nuAfter_aff_nil (p : Option Q) (a te : Q) :
    nuAfter (p.map (aff α β)) (aff α β a) [] (aff α β te) = α * nuAfter p a [] te :=
  nuAfter_aff β hα p a [] te

theorem spkAdvance_aff (te m : Q) (ri : Bool) (x : SpkSt) (px : Option Q) (a : Q) (r' : List Q)
    (y : SpkSt) (yfrom : List Q) (xe y0 y1 : Q) :
    spkAdvance (aff α β te) (α * m) ri (affSt α β x) (px.map (aff α β)) (aff α β a) (r'.map (aff α β))
        (affSt α β y) (yfrom.map (aff α β)) (aff α β xe) (aff α β y0) (aff α β y1)
      = (affSt α β (spkAdvance te m ri x px a r' y yfrom xe y0 y1).1,
          aff α β (spkAdvance te m ri x px a r' y yfrom xe y0 y1).2.1,
          (spkAdvance te m ri x px a r' y yfrom xe y0 y1).2.2.1,
          (spkAdvance te m ri x px a r' y yfrom xe y0 y1).2.2.2) := by
  cases r' with
  | nil =>
    simp only [spkAdvance, affSt, List.map_nil, aff_sub β, scale_s1 hα, scale_s2 hα, distAtT_scale hα,
      nuAfter_aff_nil β hα]
  | cons b r =>
    simp only [spkAdvance, affSt, List.map_cons, aff_sub β, scale_s1 hα, scale_s2 hα, distAtT_scale hα,
      minDist_aff β hα]

theorem spkTie_aff (te : Q) (x : SpkSt) (px : Option Q) (a : Q) (r' ofrom : List Q) (xe o0 o1 : Q) :
    spkTie (aff α β te) (affSt α β x) (px.map (aff α β)) (aff α β a) (r'.map (aff α β))
        (ofrom.map (aff α β)) (aff α β xe) (aff α β o0) (aff α β o1)
      = affSt α β (spkTie te x px a r' ofrom xe o0 o1) := by
  cases r' with
  | nil => simp only [spkTie, affSt, List.map_nil, nuAfter_aff_nil β hα, mul_zero]
  | cons b r => simp only [spkTie, affSt, List.map_cons, aff_sub β, minDist_aff β hα, mul_zero]

omit hα in
theorem fromIdx_aff (p : Option Q) (r : List Q) :
    fromIdx (p.map (aff α β)) (r.map (aff α β)) = (fromIdx p r).map (aff α β) := by
  cases p <;> simp [fromIdx]

omit hα in
theorem fromIdx_aff_nil (p : Option Q) :
    fromIdx (p.map (aff α β)) [] = (fromIdx p []).map (aff α β) := fromIdx_aff β p []

omit hα in
theorem fromIdx_aff_cons (p : Option Q) (b : Q) (r : List Q) :
    fromIdx (p.map (aff α β)) (aff α β b :: r.map (aff α β)) = (fromIdx p (b :: r)).map (aff α β) :=
  fromIdx_aff β p (b :: r)

omit hα in
theorem affSt_tf (x : SpkSt) : (affSt α β x).tf = aff α β x.tf := rfl

omit hα in
theorem affEnv_proj (e : SpkEnv) :
    (affEnv α β e).te = aff α β e.te ∧ (affEnv α β e).m = α * e.m ∧ (affEnv α β e).ri = e.ri ∧
    (affEnv α β e).as1 = aff α β e.as1 ∧ (affEnv α β e).ae1 = aff α β e.ae1 ∧
    (affEnv α β e).as2 = aff α β e.as2 ∧ (affEnv α β e).ae2 = aff α β e.ae2 :=
  ⟨rfl, rfl, rfl, rfl, rfl, rfl, rfl⟩

set_option linter.unusedSimpArgs false in
theorem spkLoop_aff (e : SpkEnv) (x1 : SpkSt) (p1 : Option Q) (r1 : List Q)
    (x2 : SpkSt) (p2 : Option Q) (r2 : List Q) :
    spkLoop (affEnv α β e) (affSt α β x1) (p1.map (aff α β)) (r1.map (aff α β))
        (affSt α β x2) (p2.map (aff α β)) (r2.map (aff α β))
      = ((spkLoop e x1 p1 r1 x2 p2 r2).1.map (affE α β), affSt α β (spkLoop e x1 p1 r1 x2 p2 r2).2.1,
          affSt α β (spkLoop e x1 p1 r1 x2 p2 r2).2.2) := by
  induction x1, p1, r1, x2, p2, r2 using spkLoop.induct e with
  | case1 x1 p1 x2 p2 => simp only [List.map_nil, spkLoop]
  | case2 x1 p1 x2 p2 a r1' adv ih =>
    rw [spkLoop]
    simp only [List.map_cons, List.map_nil, Option.map_some] at ih ⊢
    rw [spkLoop]
    simp only [(affEnv_proj β e).1, (affEnv_proj β e).2.1, (affEnv_proj β e).2.2.1,
      (affEnv_proj β e).2.2.2.1, (affEnv_proj β e).2.2.2.2.1, (affEnv_proj β e).2.2.2.2.2.1,
      (affEnv_proj β e).2.2.2.2.2.2, fromIdx_aff_nil β, spkAdvance_aff β hα]
    rw [ih]
    simp only [List.map_cons, affE]
    rfl
  | case3 x1 p1 x2 p2 b r2' adv ih =>
    rw [spkLoop]
    simp only [List.map_cons, List.map_nil, Option.map_some] at ih ⊢
    rw [spkLoop]
    simp only [(affEnv_proj β e).1, (affEnv_proj β e).2.1, (affEnv_proj β e).2.2.1,
      (affEnv_proj β e).2.2.2.1, (affEnv_proj β e).2.2.2.2.1, (affEnv_proj β e).2.2.2.2.2.1,
      (affEnv_proj β e).2.2.2.2.2.2, fromIdx_aff_nil β, spkAdvance_aff β hα]
    rw [ih]
    simp only [List.map_cons, affE]
    rfl
  | case4 x1 p1 x2 p2 a r1' b r2' h adv ih =>
    rw [spkLoop, if_pos h]
    simp only [List.map_cons, List.map_nil, Option.map_some] at ih ⊢
    rw [spkLoop, if_pos (by rw [affSt_tf, affSt_tf]; exact (aff_lt_iff β hα _ _).mpr h)]
    simp only [(affEnv_proj β e).1, (affEnv_proj β e).2.1, (affEnv_proj β e).2.2.1,
      (affEnv_proj β e).2.2.2.1, (affEnv_proj β e).2.2.2.2.1, (affEnv_proj β e).2.2.2.2.2.1,
      (affEnv_proj β e).2.2.2.2.2.2, fromIdx_aff_cons β, spkAdvance_aff β hα]
    rw [ih]
    simp only [List.map_cons, affE]
    rfl
  | case5 x1 p1 x2 p2 a r1' b r2' h h2 adv ih =>
    rw [spkLoop, if_neg h, if_pos h2]
    simp only [List.map_cons, List.map_nil, Option.map_some] at ih ⊢
    rw [spkLoop, if_neg (by rw [affSt_tf, affSt_tf]; exact mt (aff_lt_iff β hα _ _).mp h),
      if_pos (by rw [affSt_tf, affSt_tf]; exact (aff_lt_iff β hα _ _).mpr h2)]
    simp only [(affEnv_proj β e).1, (affEnv_proj β e).2.1, (affEnv_proj β e).2.2.1,
      (affEnv_proj β e).2.2.2.1, (affEnv_proj β e).2.2.2.2.1, (affEnv_proj β e).2.2.2.2.2.1,
      (affEnv_proj β e).2.2.2.2.2.2, fromIdx_aff_cons β, spkAdvance_aff β hα]
    rw [ih]
    simp only [List.map_cons, affE]
    rfl
  | case6 x1 p1 x2 p2 a r1' b r2' h h2 x1' x2' ih =>
    rw [spkLoop, if_neg h, if_neg h2]
    simp only [List.map_cons, List.map_nil, Option.map_some] at ih ⊢
    rw [spkLoop, if_neg (by rw [affSt_tf, affSt_tf]; exact mt (aff_lt_iff β hα _ _).mp h),
      if_neg (by rw [affSt_tf, affSt_tf]; exact mt (aff_lt_iff β hα _ _).mp h2)]
    simp only [(affEnv_proj β e).1, (affEnv_proj β e).2.1, (affEnv_proj β e).2.2.1,
      (affEnv_proj β e).2.2.2.1, (affEnv_proj β e).2.2.2.2.1, (affEnv_proj β e).2.2.2.2.2.1,
      (affEnv_proj β e).2.2.2.2.2.2, ← List.map_cons, spkTie_aff β hα]
    rw [ih]
    simp only [List.map_cons, affE, affSt_tf]
    rfl

theorem optmap_aff_eq_some (o : Option Q) (t : Q) :
    o.map (aff α β) = some (aff α β t) ↔ o = some t := by
  cases o with
  | none => simp
  | some x => simp [aff_inj β hα]

theorem spikeProfile_aff (t1 t2 : List Q) (ts te m : Q) (ri : Bool) :
    spikeProfile (t1.map (aff α β)) (t2.map (aff α β)) (aff α β ts) (aff α β te) (α * m) ri
      = ((spikeProfile t1 t2 ts te m ri).1.map (aff α β), (spikeProfile t1 t2 ts te m ri).2.1,
          (spikeProfile t1 t2 ts te m ri).2.2) := by
  unfold spikeProfile
  simp only [auxStart_aff β hα, auxEnd_aff β hα, spkInit_aff β hα]
  generalize spkInit t1 t2 ts te (auxStart t1 ts) (auxStart t2 ts) (auxEnd t2 te) = i1
  generalize spkInit t2 t1 ts te (auxStart t2 ts) (auxStart t1 ts) (auxEnd t1 te) = i2
  obtain ⟨x1, p1, r1, s1⟩ := i1
  obtain ⟨x2, p2, r2, s2⟩ := i2
  have hl := spkLoop_aff β hα ⟨te, m, ri, auxStart t1 ts, auxEnd t1 te, auxStart t2 ts, auxEnd t2 te⟩
    x1 p1 r1 x2 p2 r2
  simp only [affEnv] at hl
  simp only [hl]
  generalize spkLoop ⟨te, m, ri, auxStart t1 ts, auxEnd t1 te, auxStart t2 ts, auxEnd t2 te⟩
    x1 p1 r1 x2 p2 r2 = res
  obtain ⟨evs, f1, f2⟩ := res
  simp only [affSt, distAtT_scale hα]
  have h1 : aff α β ts :: (evs.map (affE α β)).map (·.1) = (ts :: evs.map (·.1)).map (aff α β) := by
    simp only [List.map_cons, List.map_map, Function.comp_def, affE]
  have h2 : (evs.map (affE α β)).map (·.2.2) = evs.map (·.2.2) := by
    simp only [List.map_map, Function.comp_def, affE]
  have h3 : (evs.map (affE α β)).map (·.2.1) = evs.map (·.2.1) := by
    simp only [List.map_map, Function.comp_def, affE]
  rw [h1, h2, h3, List.getLast?_map]
  by_cases hc : (ts :: evs.map (·.1)).getLast? = some te
  · rw [if_pos hc, if_pos ((optmap_aff_eq_some β hα _ _).mpr hc)]
  · rw [if_neg hc, if_neg (mt (optmap_aff_eq_some β hα _ _).mp hc)]
    simp only [List.map_append, List.map_cons, List.map_nil]

end spike

/-! ## non-vacuity: the only hypothesis is `0 < α`; concrete instances (α = 3/2, β = -2, and MRTS,
    max_tau ≠ 0) evaluated on both sides -/

example : (0 : Q) < 3 / 2 := by decide +kernel

-- ISI
example : isiProfile ([1, 3, 4].map (aff (3/2) (-2))) ([2, 3, 6].map (aff (3/2) (-2)))
      (aff (3/2) (-2) 0) (aff (3/2) (-2) 6) (3/2 * 3)
    = ([-2, -1/2, 1, 5/2, 4, 7], (isiProfile [1, 3, 4] [2, 3, 6] 0 6 3).2) := by decide +kernel
example : isiProfile [1, 3, 4] [2, 3, 6] 0 6 3 = ([0, 1, 2, 3, 4, 6], [0, 0, 1/3, 2/3, 1/3]) := by
  decide +kernel
example : isiProfile ([1, 3, 4].map (aff (3/2) (-2))) ([2, 3, 6].map (aff (3/2) (-2)))
      (aff (3/2) (-2) 0) (aff (3/2) (-2) 6) (3/2 * 3)
    = ((isiProfile [1, 3, 4] [2, 3, 6] 0 6 3).1.map (aff (3/2) (-2)), (isiProfile [1, 3, 4] [2, 3, 6] 0 6 3).2) :=
  isiProfile_aff (-2) (by decide +kernel) _ _ _ _ _

-- coincidence window
example : getTau (some 1) (some 3) (some 4) none (some 2) (some 6) 5 2 = 1/2 := by decide +kernel
example : getTau ((some 1).map (aff (3/2) (-2))) ((some 3).map (aff (3/2) (-2))) ((some 4).map (aff (3/2) (-2)))
      (none.map (aff (3/2) (-2))) ((some 2).map (aff (3/2) (-2))) ((some 6).map (aff (3/2) (-2)))
      (3/2 * 5) (3/2 * 2) = 3/2 * (1/2) := by decide +kernel

-- SPIKE-synchronisation / spike-order profiles
example : coincProfile ([10, 20, 30].map (aff (3/2) (-2))) ([11, 23, 33].map (aff (3/2) (-2)))
      (aff (3/2) (-2) 0) (aff (3/2) (-2) 40) (3/2 * 2) (3/2 * 1)
    = (coincProfile [10, 20, 30] [11, 23, 33] 0 40 2 1).map fun e => (aff (3/2) (-2) e.1, e.2.1, e.2.2) := by
  decide +kernel
example : (coincProfile [10, 20, 30] [11, 23, 33] 0 40 2 1).map (·.2.1) = [1, 1, 1, 0, 0, 0, 0, 0] := by
  decide +kernel
example : orderProfile ([10, 20, 30].map (aff (3/2) (-2))) ([11, 23, 33].map (aff (3/2) (-2)))
      (aff (3/2) (-2) 0) (aff (3/2) (-2) 40) (3/2 * 2) (3/2 * 1)
    = (orderProfile [10, 20, 30] [11, 23, 33] 0 40 2 1).map fun e => (aff (3/2) (-2) e.1, e.2.1, e.2.2) := by
  decide +kernel
example : coincSingle ([10, 20, 30].map (aff (3/2) (-2))) ([11, 23, 33].map (aff (3/2) (-2)))
      (aff (3/2) (-2) 0) (aff (3/2) (-2) 40) (3/2 * 2) (3/2 * 1) = [1, 0, 0] := by decide +kernel
example : coincSingle [10, 20, 30] [11, 23, 33] 0 40 2 1 = [1, 0, 0] := by decide +kernel
example : dirProfile ([10, 20, 30].map (aff (3/2) (-2))) ([11, 23, 33].map (aff (3/2) (-2)))
      (aff (3/2) (-2) 0) (aff (3/2) (-2) 40) (3/2 * 2) (3/2 * 1) = ([1, 0, 0], [-1, 0, 0]) := by decide +kernel
example : dirProfile [10, 20, 30] [11, 23, 33] 0 40 2 1 = ([1, 0, 0], [-1, 0, 0]) := by decide +kernel

-- SPIKE
example : minDist (aff (3/2) (-2) 3) ([1, 5, 7].map (aff (3/2) (-2))) (aff (3/2) (-2) 0) (aff (3/2) (-2) 9)
    = 3/2 * minDist 3 [1, 5, 7] 0 9 := by decide +kernel
example : spikeProfile ([1, 3, 4].map (aff (3/2) (-2))) ([2, 3, 6].map (aff (3/2) (-2)))
      (aff (3/2) (-2) 0) (aff (3/2) (-2) 6) (3/2 * 3) false
    = ([-2, -1/2, 1, 5/2, 4, 7], (spikeProfile [1, 3, 4] [2, 3, 6] 0 6 3 false).2.1,
        (spikeProfile [1, 3, 4] [2, 3, 6] 0 6 3 false).2.2) := by decide +kernel
example : (spikeProfile [1, 3, 4] [2, 3, 6] 0 6 3 false).1 = [0, 1, 2, 3, 4, 6] := by decide +kernel

end PySpike
