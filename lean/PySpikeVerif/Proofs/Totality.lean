/-
  Proofs/Totality.lean — work package D4 (property C18): every valid input yields a well-formed
  result.  "no error" = the `Option` result of the model is `some _`; "well-formed" = the shape
  invariants `B5_PwcOn`, `B5_PwlOn`, `C3_DiscOn`, matrix / per-spike list lengths.
-/
import PySpikeVerif.Model.Api
import PySpikeVerif.Spec.Funcs
import PySpikeVerif.Proofs.ApiLaws
import PySpikeVerif.Proofs.Integral
import PySpikeVerif.Proofs.DiscLaws
import PySpikeVerif.Proofs.FilterLaws
import PySpikeVerif.Proofs.SyncScan
import PySpikeVerif.Proofs.MultiLaws
import PySpikeVerif.Proofs.SpikeSymm
import PySpikeVerif.Proofs.IntervalLaws
import PySpikeVerif.Proofs.ApiReconcile
import PySpikeVerif.Properties.C01
import Mathlib.Tactic.Linarith
import Mathlib.Data.List.Basic
import Mathlib.Algebra.Order.Field.Rat

namespace PySpike
open PySpike.C01

/-! ## 0. the hypotheses -/

/-- a list of at least two valid trains with common edges `ts < te` -/
def D4_V (ts te : Q) (L : List Train) : Prop := B5_ValidList ts te L ∧ 2 ≤ L.length

/-- two valid trains with common edges -/
def D4_VBi (a b : Train) : Prop := ValidTrain a ∧ ValidTrain b ∧ b.ts = a.ts ∧ b.te = a.te

/-- the `interval` keyword is `None` or a non-degenerate interval inside the recording -/
def D4_Iv (ts te : Q) (kw : Kw) : Prop :=
  kw.interval = none ∨ ∃ a b, kw.interval = some (a, b) ∧ ts ≤ a ∧ a < b ∧ b ≤ te

/-- exactly the intervals the piecewise-constant `integral` accepts (ISI functions) -/
def D4_IvIsi (ts te : Q) (kw : Kw) : Prop :=
  ∀ p q, kw.interval = some (p, q) → ts ≤ p ∧ p ≤ q ∧ q ≤ te

/-- exactly the intervals the piecewise-linear `integral` accepts (SPIKE functions) -/
def D4_IvSpike (ts : Q) (kw : Kw) : Prop :=
  ∀ p q, kw.interval = some (p, q) → ts ≤ p

/-- exactly the intervals the discrete `integral` accepts (SPIKE-Sync functions) -/
def D4_IvSync (ts te : Q) (kw : Kw) : Prop :=
  ∀ p q, kw.interval = some (p, q) → ts ≤ p ∧ q ≤ te

theorem D4_Iv.isi {ts te : Q} {kw : Kw} (h : D4_Iv ts te kw) : D4_IvIsi ts te kw := by
  intro p q hpq
  rcases h with h | ⟨a, b, h, h1, h2, h3⟩
  · rw [h] at hpq; exact absurd hpq (by simp)
  · rw [h] at hpq
    obtain ⟨rfl, rfl⟩ := Prod.mk.inj (Option.some.inj hpq)
    exact ⟨h1, le_of_lt h2, h3⟩

theorem D4_Iv.spike {ts te : Q} {kw : Kw} (h : D4_Iv ts te kw) : D4_IvSpike ts kw :=
  fun p q hpq => (h.isi p q hpq).1

theorem D4_Iv.sync {ts te : Q} {kw : Kw} (h : D4_Iv ts te kw) : D4_IvSync ts te kw :=
  fun p q hpq => ⟨(h.isi p q hpq).1, (h.isi p q hpq).2.2⟩

theorem D4_Iv_noRecon {ts te : Q} {kw : Kw} (h : D4_Iv ts te kw) : D4_Iv ts te kw.noRecon := h

theorem D4_VBi_of_mem {ts te : Q} {L : List Train} (hv : B5_ValidList ts te L) {a b : Train}
    (ha : a ∈ L) (hb : b ∈ L) : D4_VBi a b ∧ a.ts = ts ∧ a.te = te := by
  obtain ⟨v1, s1, e1⟩ := hv _ ha
  obtain ⟨v2, s2, e2⟩ := hv _ hb
  exact ⟨⟨v1, v2, s2.trans s1.symm, e2.trans e1.symm⟩, s1, e1⟩

theorem D4_V.ne_nil {ts te : Q} {L : List Train} (h : D4_V ts te L) : L ≠ [] :=
  B5_ne_nil_of_two h.2

theorem D4_V.prep {ts te : Q} {L : List Train} (h : D4_V ts te L) (kw : Kw) : prep kw L = L :=
  B5_prep_valid kw ts te L h.1 h.ne_nil

/-- the degenerate example list: an empty train, a one-spike train on an edge, twice -/
def D4_exL : List Train := [⟨[], 0, 6⟩, ⟨[0], 0, 6⟩, ⟨[0], 0, 6⟩, ⟨[1, 3, 6], 0, 6⟩]

theorem D4_exL_valid : D4_V 0 6 D4_exL := by
  refine ⟨?_, by decide⟩
  intro a ha
  simp only [D4_exL, List.mem_cons, List.not_mem_nil, or_false] at ha
  rcases ha with rfl | rfl | rfl | rfl <;>
    exact ⟨⟨by decide, by decide, by decide⟩, rfl, rfl⟩

theorem D4_exBi_valid : D4_VBi ⟨[], 0, 6⟩ ⟨[0], 0, 6⟩ ∧ D4_VBi ⟨[0], 0, 6⟩ ⟨[0], 0, 6⟩ ∧
    D4_VBi ⟨[0], 0, 6⟩ ⟨[1, 3, 6], 0, 6⟩ := by
  refine ⟨⟨⟨?_, ?_, ?_⟩, ⟨?_, ?_, ?_⟩, rfl, rfl⟩, ⟨⟨?_, ?_, ?_⟩, ⟨?_, ?_, ?_⟩, rfl, rfl⟩,
    ⟨⟨?_, ?_, ?_⟩, ⟨?_, ?_, ?_⟩, rfl, rfl⟩⟩ <;> decide

example : D4_Iv 0 6 { } ∧ D4_Iv 0 6 { interval := some (0, 6) } ∧
    D4_Iv 0 6 { interval := some (1/2, 9/2), recon := false, mrts := 3, ri := true } := by
  refine ⟨Or.inl rfl, Or.inr ⟨0, 6, rfl, ?_, ?_, ?_⟩, Or.inr ⟨1/2, 9/2, rfl, ?_, ?_, ?_⟩⟩ <;>
    norm_num

/-! ## 2. profiles are well-formed, for every `kw` -/

/-! ### bivariate -/

theorem D4_isiProfileBi_on (kw : Kw) (a b : Train) (h : D4_VBi a b) :
    B5_PwcOn a.ts a.te (isiProfileBi kw a b) := by
  obtain ⟨ha, hb, hts, hte⟩ := h
  rw [B5_isiProfileBi_valid kw a b ha hb hts hte]
  exact B5_isiProfileBi_on kw.noRecon a b rfl ha hb hts hte

theorem D4_spikeProfileBi_on (kw : Kw) (a b : Train) (h : D4_VBi a b) :
    B5_PwlOn a.ts a.te (spikeProfileBi kw a b) :=
  C2_spikeProfileBi_on_anyRecon kw a b h.1 h.2.1 h.2.2.1 h.2.2.2

theorem D4_syncProfileBi_valid (kw : Kw) (a b : Train) (h : D4_VBi a b) :
    syncProfileBi kw a b = syncProfileBi kw.noRecon a b := by
  obtain ⟨ha, hb, hts, hte⟩ := h
  unfold syncProfileBi
  rw [B5_prepBi_valid kw a b ha hb hts hte, prepBi_noRecon]
  rfl

theorem D4_syncProfileBi_on (kw : Kw) (a b : Train) (h : D4_VBi a b) :
    C3_DiscOn a.ts a.te (syncProfileBi kw a b) := by
  rw [D4_syncProfileBi_valid kw a b h]
  exact C3_syncProfileBi_on kw.noRecon a b rfl h.1 h.2.1 h.2.2.1 h.2.2.2

theorem D4_orderProfileBi_valid (kw : Kw) (a b : Train) (h : D4_VBi a b) :
    orderProfileBi kw a b = orderProfileBi kw.noRecon a b := by
  obtain ⟨ha, hb, hts, hte⟩ := h
  unfold orderProfileBi
  rw [B5_prepBi_valid kw a b ha hb hts hte, prepBi_noRecon]
  rfl

/-- the spike-train-order profile of two valid trains with the same edges is a well-formed discrete
    profile on `[ts, te]` -/
theorem D4_orderProfileBi_on_noRecon (kw : Kw) (a b : Train) (hr : kw.recon = false)
    (h : D4_VBi a b) : C3_DiscOn a.ts a.te (orderProfileBi kw a b) := by
  obtain ⟨ha, hb, hts, hte⟩ := h
  have e : orderProfileBi kw a b =
      ⟨frameProfile a.ts a.te (scanSpec (-1) 1 0 a.spikes b.spikes (trueMax a.ts a.te kw.maxTau)
        kw.mrts)⟩ := by
    simp only [orderProfileBi, prepBi, hr]
    exact congrArg Disc.mk (orderProfile_eq_spec _ _ _ _ _ _ ha.2.1 hb.2.1)
  rw [e]
  have ht : (scanSpec (-1) 1 0 a.spikes b.spikes (trueMax a.ts a.te kw.maxTau) kw.mrts).map (·.1) =
      uniqueQ (a.spikes ++ b.spikes) := by
    unfold scanSpec
    rw [List.map_map]
    conv_rhs => rw [← List.map_id (uniqueQ (a.spikes ++ b.spikes))]
    apply List.map_congr_left
    intro t _
    exact B1_entrySpec_fst _ _ _ _ _ _ _ _
  apply C3_frameProfile_on
  · rw [ht]; exact uniqueQ_sorted _
  · intro p hp
    have hm : p.1 ∈ uniqueQ (a.spikes ++ b.spikes) := by
      rw [← ht]; exact List.mem_map.mpr ⟨p, hp, rfl⟩
    rw [uniqueQ_mem, List.mem_append] at hm
    rcases hm with h | h
    · exact ha.2.2 _ h
    · have := hb.2.2 _ h
      rwa [hts, hte] at this

theorem D4_orderProfileBi_on (kw : Kw) (a b : Train) (h : D4_VBi a b) :
    C3_DiscOn a.ts a.te (orderProfileBi kw a b) := by
  rw [D4_orderProfileBi_valid kw a b h]
  exact D4_orderProfileBi_on_noRecon kw.noRecon a b rfl h

example : (orderProfileBi { } ⟨[0], 0, 6⟩ ⟨[1, 3, 6], 0, 6⟩).e.length = 6 := by
  rw [D4_orderProfileBi_valid _ _ _ D4_exBi_valid.2.2]; decide +kernel

/-- **C18, bivariate profiles**: for two valid trains with common edges and every `kw`, the four
    bivariate profiles are well-formed on `[ts, te]` -/
theorem D4_bivariate_profiles_wellFormed (kw : Kw) (a b : Train) (h : D4_VBi a b) :
    B5_PwcOn a.ts a.te (isiProfileBi kw a b) ∧ B5_PwlOn a.ts a.te (spikeProfileBi kw a b) ∧
    C3_DiscOn a.ts a.te (syncProfileBi kw a b) ∧ C3_DiscOn a.ts a.te (orderProfileBi kw a b) :=
  ⟨D4_isiProfileBi_on kw a b h, D4_spikeProfileBi_on kw a b h, D4_syncProfileBi_on kw a b h,
   D4_orderProfileBi_on kw a b h⟩

example : D4_VBi ⟨[], 0, 6⟩ ⟨[0], 0, 6⟩ := D4_exBi_valid.1

/-! ### multivariate -/

theorem D4_isiProfileMulti_valid (kw : Kw) (idx : Option (List Nat)) (L : List Train) (ts te : Q)
    (h : D4_V ts te L) : isiProfileMulti kw idx L = isiProfileMulti kw.noRecon idx L := by
  unfold isiProfileMulti; rw [h.prep kw]; rfl

theorem D4_spikeProfileMulti_valid (kw : Kw) (idx : Option (List Nat)) (L : List Train) (ts te : Q)
    (h : D4_V ts te L) : spikeProfileMulti kw idx L = spikeProfileMulti kw.noRecon idx L := by
  unfold spikeProfileMulti; rw [h.prep kw]; rfl

theorem D4_syncProfileMulti_valid (kw : Kw) (idx : Option (List Nat)) (L : List Train) (ts te : Q)
    (h : D4_V ts te L) : syncProfileMulti kw idx L = syncProfileMulti kw.noRecon idx L := by
  unfold syncProfileMulti; rw [h.prep kw]; rfl

theorem D4_orderProfileMulti_valid (kw : Kw) (idx : Option (List Nat)) (L : List Train) (ts te : Q)
    (h : D4_V ts te L) : orderProfileMulti kw idx L = orderProfileMulti kw.noRecon idx L := by
  unfold orderProfileMulti; rw [h.prep kw]; rfl

/-- **C18, ISI profile**: for every `kw` the multivariate ISI profile of valid trains is a
    well-formed piecewise constant function on `[ts, te]` -/
theorem D4_isiProfileMulti_wellFormed (kw : Kw) (L : List Train) (ts te : Q) (h : D4_V ts te L) :
    B5_PwcOn ts te (isiProfileMulti kw none L) := by
  rw [D4_isiProfileMulti_valid kw none L ts te h]
  exact B5_isiProfileMulti_on kw.noRecon L ts te rfl h.1 h.2

/-- **C18, SPIKE profile** -/
theorem D4_spikeProfileMulti_wellFormed (kw : Kw) (L : List Train) (ts te : Q) (h : D4_V ts te L) :
    B5_PwlOn ts te (spikeProfileMulti kw none L) := by
  rw [D4_spikeProfileMulti_valid kw none L ts te h]
  exact C2_spikeProfileMulti_on kw.noRecon L ts te rfl h.1 h.2

/-- **C18, SPIKE-Sync profile** -/
theorem D4_syncProfileMulti_wellFormed (kw : Kw) (L : List Train) (ts te : Q) (h : D4_V ts te L) :
    C3_DiscOn ts te (syncProfileMulti kw none L) := by
  rw [D4_syncProfileMulti_valid kw none L ts te h]
  exact C3_syncProfileMulti_on kw.noRecon L ts te rfl h.1 h.2

theorem D4_order_leaf_on (kw : Kw) (L : List Train) (ts te : Q) (hv : B5_ValidList ts te L) :
    ∀ p ∈ pairsOf (List.range L.length),
      C3_DiscOn ts te (orderProfileBi kw (tr L p.1) (tr L p.2)) := by
  intro p hp
  obtain ⟨h1, h2⟩ := B5_pair_mem L p hp
  obtain ⟨hbi, s1, e1⟩ := D4_VBi_of_mem hv h1 h2
  have := D4_orderProfileBi_on kw _ _ hbi
  rwa [s1, e1] at this

/-- **C18, spike-train-order profile** -/
theorem D4_orderProfileMulti_wellFormed (kw : Kw) (L : List Train) (ts te : Q) (h : D4_V ts te L) :
    C3_DiscOn ts te (orderProfileMulti kw none L) := by
  have hleaf := D4_order_leaf_on kw.noRecon L ts te h.1
  unfold orderProfileMulti
  rw [h.prep kw]
  simp only [resolveIdx]
  exact (B5_gpm_sum Disc.add (fun p => orderProfileBi kw.noRecon (tr L p.1) (tr L p.2))
    (C3_DiscOn ts te) (fun _ => 0) (fun _ _ => C3_DiscOn.add)
    (fun _ _ _ _ => by simp) (List.range L.length) (B5_pairs_range_ne_nil h.2) hleaf).1

example : D4_V 0 6 D4_exL := D4_exL_valid
example : (isiProfileMulti { recon := false } none D4_exL).x = [0, 1, 3, 6] ∧
    (spikeProfileMulti { recon := false } none D4_exL).x = [0, 1, 3, 6] ∧
    ((syncProfileMulti { recon := false } none D4_exL).e.map (·.1)) = [0, 0, 1, 3, 6, 6] ∧
    ((orderProfileMulti { recon := false } none D4_exL).e.map (·.1)) = [0, 0, 1, 3, 6, 6] := by
  decide +kernel

/-! ## 1. scalars are defined -/

theorem D4_some_iff_ne_none {α} (x : Option α) : (∃ d, x = some d) ↔ x ≠ none := by
  cases x <;> simp

/-! ### bivariate: the result is `none` exactly for the rejected intervals -/

/-- ISI distance of two valid trains: `none` (a `ValueError` of `PieceWiseConstFunc.integral`) exactly
    for an interval that is reversed or reaches outside the recording -/
theorem D4_isiDistanceBi_eq_none_iff (kw : Kw) (a b : Train) (h : D4_VBi a b) :
    isiDistanceBi kw a b = none ↔
      ∃ p q, kw.interval = some (p, q) ∧ (q < p ∨ p < a.ts ∨ a.te < q) := by
  have hon := D4_isiProfileBi_on kw a b h
  have hf : (isiProfileBi kw a b).first = a.ts := hon.2.1
  have hl : (isiProfileBi kw a b).last = a.te := hon.2.2
  rcases hi : kw.interval with _ | ⟨p, q⟩
  · simp [isiDistanceBi, pwcAvrgKw, hi]
  · simp only [isiDistanceBi, pwcAvrgKw, hi, Pwc.avrg, Option.map_eq_none_iff,
      Pwc.integral_eq_none_iff, hf, hl]
    constructor
    · intro hc; exact ⟨p, q, rfl, hc⟩
    · rintro ⟨p', q', he, hc⟩
      obtain ⟨rfl, rfl⟩ := Prod.mk.inj (Option.some.inj he)
      exact hc

/-- SPIKE distance of two valid trains: `none` (assertion failure in `PieceWiseLinFunc.integral`)
    exactly for an interval starting before the recording -/
theorem D4_spikeDistanceBi_eq_none_iff (kw : Kw) (a b : Train) (h : D4_VBi a b) :
    spikeDistanceBi kw a b = none ↔ ∃ p q, kw.interval = some (p, q) ∧ p < a.ts := by
  have hon := D4_spikeProfileBi_on kw a b h
  have hf : (spikeProfileBi kw a b).first = a.ts := hon.2.1
  rcases hi : kw.interval with _ | ⟨p, q⟩
  · simp [spikeDistanceBi, pwlAvrgKw, hi]
  · simp only [spikeDistanceBi, pwlAvrgKw, hi, Pwl.avrg, Option.map_eq_none_iff,
      Pwl.integral_eq_none_iff hon.1, hf]
    constructor
    · intro hc; exact ⟨p, q, rfl, hc⟩
    · rintro ⟨p', q', he, hc⟩
      obtain ⟨rfl, rfl⟩ := Prod.mk.inj (Option.some.inj he)
      exact hc

/-- SPIKE-Sync values of two valid trains: `none` (assertion failure in `DiscreteFunc.integral`)
    exactly for an interval reaching outside the recording -/
theorem D4_syncValues_eq_none_iff (kw : Kw) (a b : Train) (h : D4_VBi a b) :
    syncValues kw a b = none ↔ ∃ p q, kw.interval = some (p, q) ∧ (p < a.ts ∨ a.te < q) := by
  have hon := D4_syncProfileBi_on kw a b h
  have h01 : ((syncProfileBi kw a b).e.headD (0,0,0)).1 ≤ (lastD (syncProfileBi kw a b).e (0,0,0)).1 := by
    rw [hon.2.1, hon.2.2]; exact le_of_lt h.1.1
  rcases hi : kw.interval with _ | ⟨p, q⟩
  · simp [syncValues, discIntegralKw, hi]
  · simp only [syncValues, discIntegralKw, hi, Disc.integral_eq_none_iff _ hon.1 h01, hon.2.1,
      hon.2.2]
    constructor
    · intro hc; exact ⟨p, q, rfl, hc⟩
    · rintro ⟨p', q', he, hc⟩
      obtain ⟨rfl, rfl⟩ := Prod.mk.inj (Option.some.inj he)
      exact hc

theorem D4_spikeSyncBi_eq_none_iff (kw : Kw) (a b : Train) (h : D4_VBi a b) :
    spikeSyncBi kw a b = none ↔ ∃ p q, kw.interval = some (p, q) ∧ (p < a.ts ∨ a.te < q) := by
  unfold spikeSyncBi
  rw [Option.map_eq_none_iff, D4_syncValues_eq_none_iff kw a b h]

theorem D4_not_isi {ts te : Q} {kw : Kw} :
    (¬ ∃ p q, kw.interval = some (p, q) ∧ (q < p ∨ p < ts ∨ te < q)) ↔ D4_IvIsi ts te kw := by
  unfold D4_IvIsi
  constructor
  · intro hn p q hpq
    refine ⟨?_, ?_, ?_⟩ <;> by_contra hc
    · exact hn ⟨p, q, hpq, Or.inr (Or.inl (lt_of_not_ge hc))⟩
    · exact hn ⟨p, q, hpq, Or.inl (lt_of_not_ge hc)⟩
    · exact hn ⟨p, q, hpq, Or.inr (Or.inr (lt_of_not_ge hc))⟩
  · rintro h ⟨p, q, hpq, hc⟩
    obtain ⟨h1, h2, h3⟩ := h p q hpq
    rcases hc with hc | hc | hc
    · exact absurd h2 (not_le.mpr hc)
    · exact absurd h1 (not_le.mpr hc)
    · exact absurd h3 (not_le.mpr hc)

theorem D4_not_spike {ts : Q} {kw : Kw} :
    (¬ ∃ p q, kw.interval = some (p, q) ∧ p < ts) ↔ D4_IvSpike ts kw := by
  unfold D4_IvSpike
  constructor
  · intro hn p q hpq
    by_contra hc
    exact hn ⟨p, q, hpq, lt_of_not_ge hc⟩
  · rintro h ⟨p, q, hpq, hc⟩
    exact absurd (h p q hpq) (not_le.mpr hc)

theorem D4_not_sync {ts te : Q} {kw : Kw} :
    (¬ ∃ p q, kw.interval = some (p, q) ∧ (p < ts ∨ te < q)) ↔ D4_IvSync ts te kw := by
  unfold D4_IvSync
  constructor
  · intro hn p q hpq
    refine ⟨?_, ?_⟩ <;> by_contra hc
    · exact hn ⟨p, q, hpq, Or.inl (lt_of_not_ge hc)⟩
    · exact hn ⟨p, q, hpq, Or.inr (lt_of_not_ge hc)⟩
  · rintro h ⟨p, q, hpq, hc⟩
    obtain ⟨h1, h3⟩ := h p q hpq
    rcases hc with hc | hc
    · exact absurd h1 (not_le.mpr hc)
    · exact absurd h3 (not_le.mpr hc)

/-- **C18, `isi_distance(st1, st2)`**: defined exactly when the interval is `None` or satisfies
    `ts ≤ a ≤ b ≤ te` -/
theorem D4_isiDistanceBi_defined_iff (kw : Kw) (a b : Train) (h : D4_VBi a b) :
    (∃ d, isiDistanceBi kw a b = some d) ↔ D4_IvIsi a.ts a.te kw := by
  rw [D4_some_iff_ne_none, Ne, D4_isiDistanceBi_eq_none_iff kw a b h, D4_not_isi]

/-- **C18, `spike_distance(st1, st2)`**: defined exactly when the interval is `None` or `ts ≤ a` -/
theorem D4_spikeDistanceBi_defined_iff (kw : Kw) (a b : Train) (h : D4_VBi a b) :
    (∃ d, spikeDistanceBi kw a b = some d) ↔ D4_IvSpike a.ts kw := by
  rw [D4_some_iff_ne_none, Ne, D4_spikeDistanceBi_eq_none_iff kw a b h, D4_not_spike]

/-- **C18, `spike_sync(st1, st2)`**: defined exactly when the interval is `None` or `ts ≤ a`, `b ≤ te` -/
theorem D4_spikeSyncBi_defined_iff (kw : Kw) (a b : Train) (h : D4_VBi a b) :
    (∃ d, spikeSyncBi kw a b = some d) ↔ D4_IvSync a.ts a.te kw := by
  rw [D4_some_iff_ne_none, Ne, D4_spikeSyncBi_eq_none_iff kw a b h, D4_not_sync]

/-- **C18, bivariate scalars**: for two valid trains with common edges and every keyword
    combination with an admissible interval, all three bivariate scalars are defined -/
theorem D4_bivariate_scalars_defined (kw : Kw) (a b : Train) (h : D4_VBi a b)
    (hiv : D4_Iv a.ts a.te kw) :
    (∃ d, isiDistanceBi kw a b = some d) ∧ (∃ d, spikeDistanceBi kw a b = some d) ∧
    (∃ d, spikeSyncBi kw a b = some d) :=
  ⟨(D4_isiDistanceBi_defined_iff kw a b h).mpr hiv.isi,
   (D4_spikeDistanceBi_defined_iff kw a b h).mpr hiv.spike,
   (D4_spikeSyncBi_defined_iff kw a b h).mpr hiv.sync⟩

example : D4_VBi ⟨[], 0, 6⟩ ⟨[0], 0, 6⟩ ∧ D4_Iv (Train.mk [] 0 6).ts (Train.mk [] 0 6).te { } :=
  ⟨D4_exBi_valid.1, Or.inl rfl⟩
example : D4_VBi ⟨[0], 0, 6⟩ ⟨[0], 0, 6⟩ ∧
    D4_Iv (Train.mk [0] 0 6).ts (Train.mk [0] 0 6).te { interval := some (0, 6), ri := true } :=
  ⟨D4_exBi_valid.2.1, Or.inr ⟨0, 6, rfl, le_refl _, by norm_num, le_refl _⟩⟩
example : isiDistanceBi { recon := false } ⟨[], 0, 6⟩ ⟨[0], 0, 6⟩ = some 0 ∧
    spikeDistanceBi { recon := false } ⟨[0], 0, 6⟩ ⟨[0], 0, 6⟩ = some 0 ∧
    spikeSyncBi { recon := false } ⟨[], 0, 6⟩ ⟨[0], 0, 6⟩ = some 0 ∧
    spikeSyncBi { recon := false } ⟨[], 0, 6⟩ ⟨[], 0, 6⟩ = some 1 := by decide +kernel
/-- the rejected intervals really are rejected: outside the recording / reversed -/
example : isiDistanceBi { recon := false, interval := some (4, 7) } ⟨[], 0, 6⟩ ⟨[0], 0, 6⟩ = none ∧
    isiDistanceBi { recon := false, interval := some (4, 3) } ⟨[], 0, 6⟩ ⟨[0], 0, 6⟩ = none ∧
    spikeDistanceBi { recon := false, interval := some (-1, 3) } ⟨[], 0, 6⟩ ⟨[0], 0, 6⟩ = none ∧
    spikeSyncBi { recon := false, interval := some (4, 7) } ⟨[], 0, 6⟩ ⟨[0], 0, 6⟩ = none := by
  decide +kernel

/-- model behaviour on the boundary of the admissible sets (why `Iv` asks for `a < b`): a degenerate
    interval `a = b` is NOT rejected by the piecewise-constant / piecewise-linear `avrg` (the value is
    `0 / 0`, which is `0` in Lean and `nan` in floating point), and the discrete `integral` accepts even
    a reversed interval inside the recording (empty selection, ratio 1) -/
example : isiDistanceBi { recon := false, interval := some (2, 2) } ⟨[], 0, 6⟩ ⟨[0], 0, 6⟩ = some 0 ∧
    spikeDistanceBi { recon := false, interval := some (2, 2) } ⟨[], 0, 6⟩ ⟨[0], 0, 6⟩ = some 0 ∧
    spikeDistanceBi { recon := false, interval := some (2, 9) } ⟨[], 0, 6⟩ ⟨[0], 0, 6⟩ ≠ none ∧
    spikeSyncBi { recon := false, interval := some (4, 3) } ⟨[0], 0, 6⟩ ⟨[1, 3, 6], 0, 6⟩ = some 1 := by
  decide +kernel

/-! ### multivariate -/

theorem D4_sumOpt_eq_none_iff : ∀ l : List (Option Q), sumOpt l = none ↔ none ∈ l
  | [] => by simp [sumOpt]
  | none :: r => by simp [sumOpt]
  | some v :: r => by
    have ih := D4_sumOpt_eq_none_iff r
    simp [sumOpt, Option.map_eq_none_iff, ih]

theorem D4_sumOpt2_eq_none_iff : ∀ l : List (Option (Q × Q)), sumOpt2 l = none ↔ none ∈ l
  | [] => by simp [sumOpt2]
  | none :: r => by simp [sumOpt2]
  | some v :: r => by
    have ih := D4_sumOpt2_eq_none_iff r
    simp [sumOpt2, Option.map_eq_none_iff, ih]

/-- a pair function that fails under a condition `C` not depending on the pair fails on the pair list
    of a list of at least two trains exactly under `C` -/
theorem D4_pairs_none_iff {β} (F : Train → Train → Option β) (L : List Train) (C : Prop)
    (h2 : 2 ≤ L.length) (hd : ∀ a ∈ L, ∀ b ∈ L, F a b = none ↔ C) :
    none ∈ (pairsOf (List.range L.length)).map (fun p => F (tr L p.1) (tr L p.2)) ↔ C := by
  rw [List.mem_map]
  constructor
  · rintro ⟨p, hp, hn⟩
    obtain ⟨h1, h2'⟩ := B5_pair_mem L p hp
    exact (hd _ h1 _ h2').mp hn
  · intro hc
    obtain ⟨p, hp⟩ := List.exists_mem_of_ne_nil _ (B5_pairs_range_ne_nil h2)
    obtain ⟨h1, h2'⟩ := B5_pair_mem L p hp
    exact ⟨p, hp, (hd _ h1 _ h2').mpr hc⟩

theorem D4_isiDistanceMulti_eq_none_iff (kw : Kw) (L : List Train) (ts te : Q) (h : D4_V ts te L) :
    isiDistanceMulti kw none L = none ↔
      ∃ p q, kw.interval = some (p, q) ∧ (q < p ∨ p < ts ∨ te < q) := by
  unfold isiDistanceMulti
  rw [h.prep kw]
  simp only [resolveIdx, genericDistanceMulti, Option.map_eq_none_iff, D4_sumOpt_eq_none_iff]
  refine D4_pairs_none_iff (isiDistanceBi kw.noRecon) L _ h.2 (fun a ha b hb => ?_)
  obtain ⟨hbi, s1, e1⟩ := D4_VBi_of_mem h.1 ha hb
  have := D4_isiDistanceBi_eq_none_iff kw.noRecon a b hbi
  rw [s1, e1] at this
  exact this

theorem D4_spikeDistanceMulti_eq_none_iff (kw : Kw) (L : List Train) (ts te : Q)
    (h : D4_V ts te L) :
    spikeDistanceMulti kw none L = none ↔ ∃ p q, kw.interval = some (p, q) ∧ p < ts := by
  unfold spikeDistanceMulti
  rw [h.prep kw]
  simp only [resolveIdx, genericDistanceMulti, Option.map_eq_none_iff, D4_sumOpt_eq_none_iff]
  refine D4_pairs_none_iff (spikeDistanceBi kw.noRecon) L _ h.2 (fun a ha b hb => ?_)
  obtain ⟨hbi, s1, e1⟩ := D4_VBi_of_mem h.1 ha hb
  have := D4_spikeDistanceBi_eq_none_iff kw.noRecon a b hbi
  rw [s1] at this
  exact this

theorem D4_spikeSyncMulti_eq_none_iff (kw : Kw) (L : List Train) (ts te : Q) (h : D4_V ts te L) :
    spikeSyncMulti kw none L = none ↔
      ∃ p q, kw.interval = some (p, q) ∧ (p < ts ∨ te < q) := by
  unfold spikeSyncMulti
  rw [h.prep kw]
  simp only [resolveIdx, Option.map_eq_none_iff, D4_sumOpt2_eq_none_iff]
  refine D4_pairs_none_iff (syncValues kw.noRecon) L _ h.2 (fun a ha b hb => ?_)
  obtain ⟨hbi, s1, e1⟩ := D4_VBi_of_mem h.1 ha hb
  have := D4_syncValues_eq_none_iff kw.noRecon a b hbi
  rw [s1, e1] at this
  exact this

/-- **C18, `isi_distance_multi`**: for every `kw`, defined exactly when the interval is `None` or
    satisfies `ts ≤ a ≤ b ≤ te` -/
theorem D4_isiDistanceMulti_defined_iff (kw : Kw) (L : List Train) (ts te : Q) (h : D4_V ts te L) :
    (∃ d, isiDistanceMulti kw none L = some d) ↔ D4_IvIsi ts te kw := by
  rw [D4_some_iff_ne_none, Ne, D4_isiDistanceMulti_eq_none_iff kw L ts te h, D4_not_isi]

/-- **C18, `spike_distance_multi`**: defined exactly when the interval is `None` or `ts ≤ a` -/
theorem D4_spikeDistanceMulti_defined_iff (kw : Kw) (L : List Train) (ts te : Q) (h : D4_V ts te L) :
    (∃ d, spikeDistanceMulti kw none L = some d) ↔ D4_IvSpike ts kw := by
  rw [D4_some_iff_ne_none, Ne, D4_spikeDistanceMulti_eq_none_iff kw L ts te h, D4_not_spike]

/-- **C18, `spike_sync_multi`**: defined exactly when the interval is `None` or `ts ≤ a`, `b ≤ te` -/
theorem D4_spikeSyncMulti_defined_iff (kw : Kw) (L : List Train) (ts te : Q) (h : D4_V ts te L) :
    (∃ d, spikeSyncMulti kw none L = some d) ↔ D4_IvSync ts te kw := by
  rw [D4_some_iff_ne_none, Ne, D4_spikeSyncMulti_eq_none_iff kw L ts te h, D4_not_sync]

/-- **C18, multivariate scalars**: for a list of at least two valid trains with common edges and every
    keyword combination with an admissible interval, all three multivariate scalars are defined -/
theorem D4_multivariate_scalars_defined (kw : Kw) (L : List Train) (ts te : Q) (h : D4_V ts te L)
    (hiv : D4_Iv ts te kw) :
    (∃ d, isiDistanceMulti kw none L = some d) ∧ (∃ d, spikeDistanceMulti kw none L = some d) ∧
    (∃ d, spikeSyncMulti kw none L = some d) :=
  ⟨(D4_isiDistanceMulti_defined_iff kw L ts te h).mpr hiv.isi,
   (D4_spikeDistanceMulti_defined_iff kw L ts te h).mpr hiv.spike,
   (D4_spikeSyncMulti_defined_iff kw L ts te h).mpr hiv.sync⟩

example : D4_V 0 6 D4_exL ∧ D4_Iv 0 6 { } ∧ D4_Iv 0 6 { interval := some (0, 6), recon := false } :=
  ⟨D4_exL_valid, Or.inl rfl, Or.inr ⟨0, 6, rfl, le_refl _, by norm_num, le_refl _⟩⟩
example : isiDistanceMulti { recon := false } none D4_exL = some (7/24) ∧
    spikeSyncMulti { recon := false } none D4_exL = some (2/15) ∧
    spikeSyncMulti { recon := false, interval := some (0, 7) } none D4_exL = none ∧
    spikeDistanceMulti { recon := false, interval := some (-1, 7) } none D4_exL = none ∧
    isiDistanceMulti { recon := false, interval := some (3, 2) } none D4_exL = none := by
  decide +kernel

/-! ## 4. per-spike results have one value per spike -/

theorem D4_set_addLists_lengths (acc : List (List Q)) (i : Nat) (d : List Q) :
    (acc.set i (addLists (acc.getD i []) d)).map List.length = acc.map List.length := by
  rw [List.map_set, B6_addLists_length]
  by_cases hi : i < acc.length
  · rw [List.getD_eq_getElem _ _ hi]
    have : (acc[i]).length = (acc.map List.length)[i]'(by simpa using hi) := by simp
    rw [this, List.set_getElem_self]
  · rw [List.set_eq_of_length_le (by simpa using Nat.le_of_not_lt hi)]

theorem D4_foldl_preserve {α β γ} (m : β → γ) (g : β → α → β) (hg : ∀ acc x, m (g acc x) = m acc) :
    ∀ (l : List α) (acc : β), m (l.foldl g acc) = m acc := by
  intro l
  induction l with
  | nil => intro acc; rfl
  | cons a r ih => intro acc; rw [List.foldl_cons, ih, hg]

/-- **C18, `spike_directionality_values`**: one list per selected train, the `k`-th list has one
    value per spike of the `k`-th selected (reconciled) train — for EVERY input -/
theorem D4_dirValues_lengths (kw : Kw) (idx : Option (List Nat)) (L : List Train) :
    (dirValues kw idx L).map List.length =
      (resolveIdx idx (prep kw L).length).map fun k => (tr (prep kw L) k).spikes.length := by
  unfold dirValues
  dsimp only
  rw [List.map_map]
  have e : (List.length ∘ fun l : List Q => l.map (· / (((resolveIdx idx (prep kw L).length).length : Q) - 1)))
      = List.length := by
    funext l; simp
  rw [e, D4_foldl_preserve (fun acc : List (List Q) => acc.map List.length)]
  · rw [List.map_map]
    apply List.map_congr_left
    intro k _
    simp
  · intro acc p
    rw [D4_set_addLists_lengths, D4_set_addLists_lengths]

theorem D4_length_of_map_length {α β} {f : α → Nat} {g : β → Nat} {l : List α} {l' : List β}
    (h : l.map f = l'.map g) : l.length = l'.length := by
  have := congrArg List.length h
  simpa using this

/-- number of value lists = number of trains -/
theorem D4_dirValues_length (kw : Kw) (L : List Train) : (dirValues kw none L).length = L.length := by
  have := D4_length_of_map_length (D4_dirValues_lengths kw none L)
  simpa [resolveIdx, B5_prep_length] using this

/-- the `i`-th value list has one entry per spike of the `i`-th (reconciled) train -/
theorem D4_dirValues_getD_length (kw : Kw) (L : List Train) (i : Nat) (hi : i < L.length) :
    ((dirValues kw none L).getD i []).length = (tr (prep kw L) i).spikes.length := by
  have h := D4_dirValues_lengths kw none L
  have hl := D4_dirValues_length kw L
  have h1 := congrArg (fun l : List Nat => l.getD i 0) h
  simp only [resolveIdx, B5_prep_length] at h1
  rw [List.getD_eq_getElem _ _ (by simpa [hl] using hi),
    List.getD_eq_getElem _ _ (by simpa using hi)] at h1
  rw [List.getD_eq_getElem _ _ (by rw [hl]; exact hi)]
  simpa using h1

/-- for valid trains (not changed by reconciliation): one value per spike of the input train -/
theorem D4_dirValues_getD_length_valid (kw : Kw) (L : List Train) (ts te : Q) (h : D4_V ts te L)
    (i : Nat) (hi : i < L.length) :
    ((dirValues kw none L).getD i []).length = (tr L i).spikes.length := by
  rw [D4_dirValues_getD_length kw L i hi, h.prep kw]

example : D4_V 0 6 D4_exL ∧ 3 < D4_exL.length := ⟨D4_exL_valid, by decide⟩
example : (dirValues { recon := false } none D4_exL).map List.length = [0, 1, 1, 3] := by
  decide +kernel

/-- `coincCounts`: one count per spike (for every input) -/
theorem D4_coincCounts_length (kw : Kw) (L : List Train) (i : Nat) :
    (coincCounts kw L i).length = (tr L i).spikes.length := coincCounts_length kw L i

/-! ### `filter_by_spike_sync` -/

theorem D4_filterBySync_valid (kw : Kw) (thr : Q) (L : List Train) (ts te : Q)
    (hv : B5_ValidList ts te L) : filterBySync kw thr L = filterBySync kw.noRecon thr L := by
  by_cases hne : L = []
  · subst hne
    unfold filterBySync prep reconcile
    simp
  · unfold filterBySync
    rw [B5_prep_valid kw ts te L hv hne]
    rfl

/-- **C18, `filter_by_spike_sync`**: for every `kw` and threshold, both outputs (kept, removed) have
    one train per input train, every output train is a valid train on the same edges, and its spikes
    are a sublist of the input train's spikes -/
theorem D4_filterBySync_wellFormed (kw : Kw) (thr : Q) (L : List Train) (ts te : Q)
    (hv : B5_ValidList ts te L) :
    (filterBySync kw thr L).1.length = L.length ∧ (filterBySync kw thr L).2.length = L.length ∧
    B5_ValidList ts te (filterBySync kw thr L).1 ∧ B5_ValidList ts te (filterBySync kw thr L).2 ∧
    ∀ i, i < L.length →
      (tr (filterBySync kw thr L).1 i).spikes.Sublist (tr L i).spikes ∧
      (tr (filterBySync kw thr L).2 i).spikes.Sublist (tr L i).spikes := by
  rw [D4_filterBySync_valid kw thr L ts te hv]
  have hr : kw.noRecon.recon = false := rfl
  have hlen := B6_filter_lengths kw.noRecon thr L hr
  have hpart := filter_partition kw.noRecon thr L hr
  have key : ∀ (out : List Train), out.length = L.length →
      (∀ i, i < L.length → (tr out i).spikes.Sublist (tr L i).spikes ∧
        (tr out i).ts = (tr L i).ts ∧ (tr out i).te = (tr L i).te) → B5_ValidList ts te out := by
    intro out hl hout a ha
    obtain ⟨i, hi, rfl⟩ := List.mem_iff_getElem.mp ha
    have hiL : i < L.length := by omega
    obtain ⟨hsub, h1, h2⟩ := hout i hiL
    have htr : tr out i = out[i] := by
      unfold tr; rw [List.getD_eq_getElem _ _ hi]
    rw [htr] at hsub h1 h2
    obtain ⟨⟨hlt, hs, hb⟩, hts, hte⟩ := hv _ (B5_tr_mem L i hiL)
    refine ⟨⟨by rw [h1, h2]; exact hlt, hs.sublist hsub, ?_⟩, h1.trans hts, h2.trans hte⟩
    intro x hx
    rw [h1, h2]
    exact hb x (hsub.subset hx)
  refine ⟨hlen.1, hlen.2, key _ hlen.1 (fun i hi => ?_), key _ hlen.2 (fun i hi => ?_),
    fun i hi => ⟨(hpart i hi).1, (hpart i hi).2.1⟩⟩
  · obtain ⟨h1, -, -, -, h5, h6, -⟩ := hpart i hi
    exact ⟨h1, h5, h6⟩
  · obtain ⟨-, h2, -, -, -, -, h7, h8, -⟩ := hpart i hi
    exact ⟨h2, h7, h8⟩

example : B5_ValidList 0 6 D4_exL := D4_exL_valid.1
example : (filterBySync { recon := false } (1/4) D4_exL).1.map (·.spikes) = [[], [0], [0], []] ∧
    (filterBySync { recon := false } (1/4) D4_exL).2.map (·.spikes) = [[], [], [], [1, 3, 6]] := by
  decide +kernel

/-! ## 3. matrices are `n × n` and every entry is defined -/

theorem D4_prep_valid (kw : Kw) (L : List Train) (ts te : Q) (hv : B5_ValidList ts te L) :
    prep kw L = L := by
  by_cases hne : L = []
  · subst hne
    unfold prep reconcile
    simp
  · exact B5_prep_valid kw ts te L hv hne

theorem D4_mapM_some {α β} (f : α → Option β) :
    ∀ l : List α, (∀ x ∈ l, ∃ y, f x = some y) → ∃ r, l.mapM f = some r := by
  intro l
  induction l with
  | nil => intro _; exact ⟨[], rfl⟩
  | cons a t ih =>
    intro h
    obtain ⟨y, hy⟩ := h a (by simp)
    obtain ⟨r, hr⟩ := ih (fun x hx => h x (by simp [hx]))
    exact ⟨y :: r, by rw [List.mapM_cons, hy, hr]; rfl⟩

/-- if the pair function is defined on all pairs of trains of the list, the matrix is defined -/
theorem D4_genericDistanceMatrix_defined (dist : Train → Train → Option Q) (diag sign : Q)
    (L : List Train) (h : ∀ a ∈ L, ∀ b ∈ L, ∃ d, dist a b = some d) :
    ∃ M, genericDistanceMatrix dist diag sign (List.range L.length) L = some M := by
  unfold genericDistanceMatrix
  simp only [List.length_range]
  apply D4_mapM_some
  intro i hi
  apply D4_mapM_some
  intro j hj
  have hi' : i < L.length := List.mem_range.mp hi
  have hj' : j < L.length := List.mem_range.mp hj
  rw [getD_range _ _ hi', getD_range _ _ hj']
  have hmi := B5_tr_mem L i hi'
  have hmj := B5_tr_mem L j hj'
  by_cases h1 : i = j
  · exact ⟨diag, by rw [if_pos h1]⟩
  · rw [if_neg h1]
    by_cases h2 : i < j
    · rw [if_pos h2]; exact h _ hmi _ hmj
    · rw [if_neg h2]
      obtain ⟨d, hd⟩ := h _ hmj _ hmi
      exact ⟨sign * d, by rw [hd]; rfl⟩

/-- shape in the `∀ row ∈ M` form -/
theorem D4_matrix_shape (dist : Train → Train → Option Q) (diag sign : Q)
    (L : List Train) (M : List (List Q))
    (h : genericDistanceMatrix dist diag sign (List.range L.length) L = some M) :
    M.length = L.length ∧ ∀ row ∈ M, row.length = L.length := by
  obtain ⟨h1, h2⟩ := genericDistanceMatrix_shape dist diag sign _ L M h
  rw [List.length_range] at h1 h2
  refine ⟨h1, ?_⟩
  intro row hrow
  obtain ⟨i, hi, rfl⟩ := List.mem_iff_getElem.mp hrow
  have := h2 i (by omega)
  rwa [List.getD_eq_getElem _ _ hi] at this

/-- a defined matrix of a list of ≥ 2 trains has a defined entry `(0, 1)` -/
theorem D4_matrix_entry01 (dist : Train → Train → Option Q) (diag sign : Q)
    (L : List Train) (M : List (List Q)) (h2 : 2 ≤ L.length)
    (h : genericDistanceMatrix dist diag sign (List.range L.length) L = some M) :
    ∃ d, dist (tr L 0) (tr L 1) = some d := by
  have := genericDistanceMatrix_upper dist diag sign _ L M h 0 1 (by omega)
    (by rw [List.length_range]; omega)
  rw [getD_range _ _ (by omega), getD_range _ _ (by omega)] at this
  exact ⟨_, this⟩

/-- **C18, `isi_distance_matrix`**: for valid trains and every `kw` whose interval is admissible the
    result is defined, `n × n`, symmetric with zero diagonal (`isiDistanceMatrix_symm`) -/
theorem D4_isiDistanceMatrix_wellFormed (kw : Kw) (L : List Train) (ts te : Q)
    (hv : B5_ValidList ts te L) (hiv : D4_IvIsi ts te kw) :
    ∃ M, isiDistanceMatrix kw none L = some M ∧ M.length = L.length ∧
      ∀ row ∈ M, row.length = L.length := by
  unfold isiDistanceMatrix
  rw [D4_prep_valid kw L ts te hv]
  simp only [resolveIdx]
  obtain ⟨M, hM⟩ := D4_genericDistanceMatrix_defined (isiDistanceBi kw.noRecon) 0 1 L (by
    intro a ha b hb
    obtain ⟨hbi, s1, e1⟩ := D4_VBi_of_mem hv ha hb
    rw [D4_isiDistanceBi_defined_iff kw.noRecon a b hbi, s1, e1]
    exact hiv)
  exact ⟨M, hM, D4_matrix_shape _ _ _ L M hM⟩

/-- **C18, `spike_distance_matrix`** -/
theorem D4_spikeDistanceMatrix_wellFormed (kw : Kw) (L : List Train) (ts te : Q)
    (hv : B5_ValidList ts te L) (hiv : D4_IvSpike ts kw) :
    ∃ M, spikeDistanceMatrix kw none L = some M ∧ M.length = L.length ∧
      ∀ row ∈ M, row.length = L.length := by
  unfold spikeDistanceMatrix
  rw [D4_prep_valid kw L ts te hv]
  simp only [resolveIdx]
  obtain ⟨M, hM⟩ := D4_genericDistanceMatrix_defined (spikeDistanceBi kw.noRecon) 0 1 L (by
    intro a ha b hb
    obtain ⟨hbi, s1, e1⟩ := D4_VBi_of_mem hv ha hb
    rw [D4_spikeDistanceBi_defined_iff kw.noRecon a b hbi, s1]
    exact hiv)
  exact ⟨M, hM, D4_matrix_shape _ _ _ L M hM⟩

/-- **C18, `spike_sync_matrix`** -/
theorem D4_spikeSyncMatrix_wellFormed (kw : Kw) (L : List Train) (ts te : Q)
    (hv : B5_ValidList ts te L) (hiv : D4_IvSync ts te kw) :
    ∃ M, spikeSyncMatrix kw none L = some M ∧ M.length = L.length ∧
      ∀ row ∈ M, row.length = L.length := by
  unfold spikeSyncMatrix
  rw [D4_prep_valid kw L ts te hv]
  simp only [resolveIdx]
  obtain ⟨M, hM⟩ := D4_genericDistanceMatrix_defined (spikeSyncBi kw.noRecon) 1 1 L (by
    intro a ha b hb
    obtain ⟨hbi, s1, e1⟩ := D4_VBi_of_mem hv ha hb
    rw [D4_spikeSyncBi_defined_iff kw.noRecon a b hbi, s1, e1]
    exact hiv)
  exact ⟨M, hM, D4_matrix_shape _ _ _ L M hM⟩

/-- converse for ≥ 2 trains: the three matrices are defined ONLY for the admissible intervals -/
theorem D4_distanceMatrices_defined_only_if (kw : Kw) (L : List Train) (ts te : Q) (h : D4_V ts te L) :
    ((∃ M, isiDistanceMatrix kw none L = some M) → D4_IvIsi ts te kw) ∧
    ((∃ M, spikeDistanceMatrix kw none L = some M) → D4_IvSpike ts kw) ∧
    ((∃ M, spikeSyncMatrix kw none L = some M) → D4_IvSync ts te kw) := by
  have hm0 := B5_tr_mem L 0 (by have := h.2; omega)
  have hm1 := B5_tr_mem L 1 (by have := h.2; omega)
  obtain ⟨hbi, s1, e1⟩ := D4_VBi_of_mem h.1 hm0 hm1
  refine ⟨?_, ?_, ?_⟩
  · rintro ⟨M, hM⟩
    unfold isiDistanceMatrix at hM
    rw [h.prep kw] at hM
    have := D4_matrix_entry01 _ _ _ L M h.2 hM
    rw [D4_isiDistanceBi_defined_iff kw.noRecon _ _ hbi, s1, e1] at this
    exact this
  · rintro ⟨M, hM⟩
    unfold spikeDistanceMatrix at hM
    rw [h.prep kw] at hM
    have := D4_matrix_entry01 _ _ _ L M h.2 hM
    rw [D4_spikeDistanceBi_defined_iff kw.noRecon _ _ hbi, s1] at this
    exact this
  · rintro ⟨M, hM⟩
    unfold spikeSyncMatrix at hM
    rw [h.prep kw] at hM
    have := D4_matrix_entry01 _ _ _ L M h.2 hM
    rw [D4_spikeSyncBi_defined_iff kw.noRecon _ _ hbi, s1, e1] at this
    exact this

/-- **C18, matrices**: under `V L` and `Iv kw` all three `Option`-valued matrices are defined and `n × n` -/
theorem D4_distanceMatrices_wellFormed (kw : Kw) (L : List Train) (ts te : Q) (h : D4_V ts te L)
    (hiv : D4_Iv ts te kw) :
    (∃ M, isiDistanceMatrix kw none L = some M ∧ M.length = L.length ∧
      ∀ row ∈ M, row.length = L.length) ∧
    (∃ M, spikeDistanceMatrix kw none L = some M ∧ M.length = L.length ∧
      ∀ row ∈ M, row.length = L.length) ∧
    (∃ M, spikeSyncMatrix kw none L = some M ∧ M.length = L.length ∧
      ∀ row ∈ M, row.length = L.length) :=
  ⟨D4_isiDistanceMatrix_wellFormed kw L ts te h.1 hiv.isi,
   D4_spikeDistanceMatrix_wellFormed kw L ts te h.1 hiv.spike,
   D4_spikeSyncMatrix_wellFormed kw L ts te h.1 hiv.sync⟩

/-- **C18, `spike_directionality_matrix`** (not `Option`-valued): `n × n` for EVERY input -/
theorem D4_spikeDirectionalityMatrix_shape (kw : Kw) (normalize : Bool) (L : List Train) :
    (spikeDirectionalityMatrix kw normalize none L).length = L.length ∧
    ∀ row ∈ spikeDirectionalityMatrix kw normalize none L, row.length = L.length := by
  unfold spikeDirectionalityMatrix
  simp only [resolveIdx, List.length_range, B5_prep_length, List.length_map, List.mem_map,
    List.mem_range]
  refine ⟨trivial, ?_⟩
  rintro row ⟨i, _, rfl⟩
  simp

example : D4_V 0 6 D4_exL ∧ D4_Iv 0 6 { interval := some (0, 3), recon := false } :=
  ⟨D4_exL_valid, Or.inr ⟨0, 3, rfl, le_refl _, by norm_num, by norm_num⟩⟩
example : spikeSyncMatrix { recon := false } none D4_exL =
      some [[1, 0, 0, 0], [0, 1, 1, 0], [0, 1, 1, 0], [0, 0, 0, 1]] ∧
    isiDistanceMatrix { recon := false, interval := some (0, 7) } none D4_exL = none := by
  decide +kernel

/-! ## 5. the `indices` variants -/

/-- selecting at least two valid positions from a list of valid trains gives a valid list -/
theorem D4_V_indices (L : List Train) (ts te : Q) (l : List Nat) (hv : B5_ValidList ts te L)
    (hl : idxValid l L.length = true) (h2 : 2 ≤ l.length) : D4_V ts te (l.map (tr L)) := by
  refine ⟨?_, by simpa using h2⟩
  intro a ha
  obtain ⟨k, hk, rfl⟩ := List.mem_map.mp ha
  have hkL : k < L.length := by
    have := List.all_eq_true.mp hl k hk
    simpa using this
  exact hv _ (B5_tr_mem L k hkL)

theorem D4_isiDistanceMulti_idx (kw : Kw) (L : List Train) (ts te : Q) (l : List Nat)
    (hv : B5_ValidList ts te L) (hl : idxValid l L.length = true) :
    isiDistanceMulti kw (some l) L = isiDistanceMulti kw.noRecon none (l.map (tr L)) := by
  rw [← isiDistanceMulti_indices kw.noRecon l L rfl hl]
  unfold isiDistanceMulti; rw [D4_prep_valid kw L ts te hv]; rfl

theorem D4_spikeDistanceMulti_idx (kw : Kw) (L : List Train) (ts te : Q) (l : List Nat)
    (hv : B5_ValidList ts te L) (hl : idxValid l L.length = true) :
    spikeDistanceMulti kw (some l) L = spikeDistanceMulti kw.noRecon none (l.map (tr L)) := by
  rw [← spikeDistanceMulti_indices kw.noRecon l L rfl hl]
  unfold spikeDistanceMulti; rw [D4_prep_valid kw L ts te hv]; rfl

theorem D4_spikeSyncMulti_idx (kw : Kw) (L : List Train) (ts te : Q) (l : List Nat)
    (hv : B5_ValidList ts te L) (hl : idxValid l L.length = true) :
    spikeSyncMulti kw (some l) L = spikeSyncMulti kw.noRecon none (l.map (tr L)) := by
  rw [← spikeSyncMulti_indices kw.noRecon l L rfl hl]
  unfold spikeSyncMulti; rw [D4_prep_valid kw L ts te hv]; rfl

theorem D4_isiProfileMulti_idx (kw : Kw) (L : List Train) (ts te : Q) (l : List Nat)
    (hv : B5_ValidList ts te L) (hl : idxValid l L.length = true) (h2 : 2 ≤ l.length) :
    isiProfileMulti kw (some l) L = isiProfileMulti kw.noRecon none (l.map (tr L)) := by
  rw [← isiProfileMulti_indices kw.noRecon l L rfl hl h2]
  unfold isiProfileMulti; rw [D4_prep_valid kw L ts te hv]; rfl

theorem D4_spikeProfileMulti_idx (kw : Kw) (L : List Train) (ts te : Q) (l : List Nat)
    (hv : B5_ValidList ts te L) (hl : idxValid l L.length = true) (h2 : 2 ≤ l.length) :
    spikeProfileMulti kw (some l) L = spikeProfileMulti kw.noRecon none (l.map (tr L)) := by
  rw [← spikeProfileMulti_indices kw.noRecon l L rfl hl h2]
  unfold spikeProfileMulti; rw [D4_prep_valid kw L ts te hv]; rfl

theorem D4_syncProfileMulti_idx (kw : Kw) (L : List Train) (ts te : Q) (l : List Nat)
    (hv : B5_ValidList ts te L) (hl : idxValid l L.length = true) (h2 : 2 ≤ l.length) :
    syncProfileMulti kw (some l) L = syncProfileMulti kw.noRecon none (l.map (tr L)) := by
  rw [← syncProfileMulti_indices kw.noRecon l L rfl hl h2]
  unfold syncProfileMulti; rw [D4_prep_valid kw L ts te hv]; rfl

theorem D4_orderProfileMulti_idx (kw : Kw) (L : List Train) (ts te : Q) (l : List Nat)
    (hv : B5_ValidList ts te L) (hl : idxValid l L.length = true) (h2 : 2 ≤ l.length) :
    orderProfileMulti kw (some l) L = orderProfileMulti kw.noRecon none (l.map (tr L)) := by
  rw [← orderProfileMulti_indices kw.noRecon l L rfl hl h2]
  unfold orderProfileMulti; rw [D4_prep_valid kw L ts te hv]; rfl

theorem D4_isiDistanceMatrix_idx (kw : Kw) (L : List Train) (ts te : Q) (l : List Nat)
    (hv : B5_ValidList ts te L) (hl : idxValid l L.length = true) :
    isiDistanceMatrix kw (some l) L = isiDistanceMatrix kw.noRecon none (l.map (tr L)) := by
  rw [← isiDistanceMatrix_indices kw.noRecon l L rfl hl]
  unfold isiDistanceMatrix; rw [D4_prep_valid kw L ts te hv]; rfl

theorem D4_spikeDistanceMatrix_idx (kw : Kw) (L : List Train) (ts te : Q) (l : List Nat)
    (hv : B5_ValidList ts te L) (hl : idxValid l L.length = true) :
    spikeDistanceMatrix kw (some l) L = spikeDistanceMatrix kw.noRecon none (l.map (tr L)) := by
  rw [← spikeDistanceMatrix_indices kw.noRecon l L rfl hl]
  unfold spikeDistanceMatrix; rw [D4_prep_valid kw L ts te hv]; rfl

theorem D4_spikeSyncMatrix_idx (kw : Kw) (L : List Train) (ts te : Q) (l : List Nat)
    (hv : B5_ValidList ts te L) (hl : idxValid l L.length = true) :
    spikeSyncMatrix kw (some l) L = spikeSyncMatrix kw.noRecon none (l.map (tr L)) := by
  rw [← spikeSyncMatrix_indices kw.noRecon l L rfl hl]
  unfold spikeSyncMatrix; rw [D4_prep_valid kw L ts te hv]; rfl

/-- **C18, `indices=`, scalars**: for valid trains, at least two valid indices and an admissible
    interval all three multivariate scalars are defined, for every `kw` -/
theorem D4_indices_scalars_defined (kw : Kw) (L : List Train) (ts te : Q) (l : List Nat)
    (hv : B5_ValidList ts te L) (hl : idxValid l L.length = true) (h2 : 2 ≤ l.length)
    (hiv : D4_Iv ts te kw) :
    (∃ d, isiDistanceMulti kw (some l) L = some d) ∧
    (∃ d, spikeDistanceMulti kw (some l) L = some d) ∧
    (∃ d, spikeSyncMulti kw (some l) L = some d) := by
  have hV := D4_V_indices L ts te l hv hl h2
  rw [D4_isiDistanceMulti_idx kw L ts te l hv hl, D4_spikeDistanceMulti_idx kw L ts te l hv hl,
    D4_spikeSyncMulti_idx kw L ts te l hv hl]
  exact D4_multivariate_scalars_defined kw.noRecon _ ts te hV hiv

/-- … and they are defined only for the admissible intervals of each function class -/
theorem D4_indices_scalars_defined_iff (kw : Kw) (L : List Train) (ts te : Q) (l : List Nat)
    (hv : B5_ValidList ts te L) (hl : idxValid l L.length = true) (h2 : 2 ≤ l.length) :
    ((∃ d, isiDistanceMulti kw (some l) L = some d) ↔ D4_IvIsi ts te kw) ∧
    ((∃ d, spikeDistanceMulti kw (some l) L = some d) ↔ D4_IvSpike ts kw) ∧
    ((∃ d, spikeSyncMulti kw (some l) L = some d) ↔ D4_IvSync ts te kw) := by
  have hV := D4_V_indices L ts te l hv hl h2
  rw [D4_isiDistanceMulti_idx kw L ts te l hv hl, D4_spikeDistanceMulti_idx kw L ts te l hv hl,
    D4_spikeSyncMulti_idx kw L ts te l hv hl]
  exact ⟨D4_isiDistanceMulti_defined_iff kw.noRecon _ ts te hV,
    D4_spikeDistanceMulti_defined_iff kw.noRecon _ ts te hV,
    D4_spikeSyncMulti_defined_iff kw.noRecon _ ts te hV⟩

/-- **C18, `indices=`, profiles**: all four multivariate profiles are well-formed on `[ts, te]` -/
theorem D4_indices_profiles_wellFormed (kw : Kw) (L : List Train) (ts te : Q) (l : List Nat)
    (hv : B5_ValidList ts te L) (hl : idxValid l L.length = true) (h2 : 2 ≤ l.length) :
    B5_PwcOn ts te (isiProfileMulti kw (some l) L) ∧
    B5_PwlOn ts te (spikeProfileMulti kw (some l) L) ∧
    C3_DiscOn ts te (syncProfileMulti kw (some l) L) ∧
    C3_DiscOn ts te (orderProfileMulti kw (some l) L) := by
  have hV := D4_V_indices L ts te l hv hl h2
  rw [D4_isiProfileMulti_idx kw L ts te l hv hl h2, D4_spikeProfileMulti_idx kw L ts te l hv hl h2,
    D4_syncProfileMulti_idx kw L ts te l hv hl h2, D4_orderProfileMulti_idx kw L ts te l hv hl h2]
  exact ⟨D4_isiProfileMulti_wellFormed _ _ ts te hV, D4_spikeProfileMulti_wellFormed _ _ ts te hV,
    D4_syncProfileMulti_wellFormed _ _ ts te hV, D4_orderProfileMulti_wellFormed _ _ ts te hV⟩

/-- **C18, `indices=`, matrices**: defined and `m × m`, `m` the number of indices -/
theorem D4_indices_matrices_wellFormed (kw : Kw) (L : List Train) (ts te : Q) (l : List Nat)
    (hv : B5_ValidList ts te L) (hl : idxValid l L.length = true) (h2 : 2 ≤ l.length)
    (hiv : D4_Iv ts te kw) :
    (∃ M, isiDistanceMatrix kw (some l) L = some M ∧ M.length = l.length ∧
      ∀ row ∈ M, row.length = l.length) ∧
    (∃ M, spikeDistanceMatrix kw (some l) L = some M ∧ M.length = l.length ∧
      ∀ row ∈ M, row.length = l.length) ∧
    (∃ M, spikeSyncMatrix kw (some l) L = some M ∧ M.length = l.length ∧
      ∀ row ∈ M, row.length = l.length) := by
  have hV := D4_V_indices L ts te l hv hl h2
  rw [D4_isiDistanceMatrix_idx kw L ts te l hv hl, D4_spikeDistanceMatrix_idx kw L ts te l hv hl,
    D4_spikeSyncMatrix_idx kw L ts te l hv hl]
  have := D4_distanceMatrices_wellFormed kw.noRecon _ ts te hV hiv
  simpa only [List.length_map] using this

/-- **C18, `indices=`, per-spike values**: one value list per index, one value per spike of the
    selected train -/
theorem D4_indices_dirValues_lengths (kw : Kw) (L : List Train) (ts te : Q) (l : List Nat)
    (hv : B5_ValidList ts te L) :
    (dirValues kw (some l) L).map List.length = l.map fun k => (tr L k).spikes.length := by
  rw [D4_dirValues_lengths, D4_prep_valid kw L ts te hv]
  rfl

/-- `spike_directionality_matrix(indices=l)` is `m × m` for EVERY input -/
theorem D4_indices_spikeDirectionalityMatrix_shape (kw : Kw) (normalize : Bool) (l : List Nat)
    (L : List Train) :
    (spikeDirectionalityMatrix kw normalize (some l) L).length = l.length ∧
    ∀ row ∈ spikeDirectionalityMatrix kw normalize (some l) L, row.length = l.length := by
  unfold spikeDirectionalityMatrix
  simp only [resolveIdx, List.length_range, List.length_map, List.mem_map, List.mem_range]
  refine ⟨trivial, ?_⟩
  rintro row ⟨i, _, rfl⟩
  simp

example : B5_ValidList 0 6 D4_exL ∧ idxValid [3, 0, 2] D4_exL.length = true ∧
    2 ≤ ([3, 0, 2] : List Nat).length ∧ D4_Iv 0 6 { interval := some (1, 6) } :=
  ⟨D4_exL_valid.1, by decide, by decide, Or.inr ⟨1, 6, rfl, by norm_num, by norm_num, le_refl _⟩⟩
example : spikeSyncMulti { recon := false } (some [3, 0, 2]) D4_exL = some 0 ∧
    (dirValues { recon := false } (some [3, 0, 2]) D4_exL).map List.length = [3, 0, 1] := by
  decide +kernel

end PySpike
