/-
  Proofs/MrtsMore.lean — work package G3 (CLAUSES2.md gaps 7, 9):
  3. C05: no spike of any train strictly inside the averaging interval ⇒ SPIKE-Sync = 1
     (public `spikeSyncMulti`, `spikeSyncBi`, every keyword record);
  2. C15: the multivariate SPIKE-Sync profile / value / filter are monotone in MRTS;
  1. C15: the public SPIKE profile at MRTS = 0 is the non-adaptive definition at every time.
-/
import PySpikeVerif.Model.Api
import PySpikeVerif.Spec.Funcs
import PySpikeVerif.Spec.Spike
import PySpikeVerif.Proofs.Assembled
import PySpikeVerif.Proofs.MrtsLaws
import PySpikeVerif.Proofs.WindowLaws
import PySpikeVerif.Proofs.Completions
import PySpikeVerif.Properties.C01
import PySpikeVerif.Properties.C07
import Mathlib.Tactic.Linarith
import Mathlib.Tactic.Ring
import Mathlib.Tactic.FieldSimp
import Mathlib.Data.List.Basic
import Mathlib.Algebra.Order.Field.Rat

namespace PySpike
open PySpike.C01

/-! ## 3. C05: an averaging interval without events gives SPIKE-Sync = 1 -/

theorem G3_qsum_map_zero {ι} (l : List ι) : qsum (l.map fun _ => (0 : Q)) = 0 := by
  induction l with
  | nil => rfl
  | cons a r ih => simp only [List.map_cons, qsum, ih, add_zero]

/-- the interior events of the public bivariate SPIKE-Sync profile of two valid trains sit exactly
    on the spike times of the two trains -/
theorem G3_syncBi_event_times (kw : Kw) (x y : Train) (h : D4_VBi x y) (t : Q) :
    t ∈ (syncProfileBi kw x y).interior.map (·.1) ↔ t ∈ x.spikes ∨ t ∈ y.spikes := by
  rw [D4_syncProfileBi_valid kw x y h,
    C4_syncBi_interior kw.noRecon x y rfl h.1.2.1 h.2.1.2.1, C4_scanSpec_times, uniqueQ_mem,
    List.mem_append]

/-- no spike of either train strictly inside `(a, b)`: the pair profile has no event there -/
theorem G3_syncBi_sumInside_zero (kw : Kw) (x y : Train) (h : D4_VBi x y) (a b : Q)
    (hx : ∀ s ∈ x.spikes, ¬ (a < s ∧ s < b)) (hy : ∀ s ∈ y.spikes, ¬ (a < s ∧ s < b)) :
    (syncProfileBi kw x y).sumInside a b = (0, 0) := by
  have hf : (syncProfileBi kw x y).interior.filter (fun p => decide (a < p.1 ∧ p.1 < b)) = [] := by
    rw [List.filter_eq_nil_iff]
    intro p hp
    have hm : p.1 ∈ (syncProfileBi kw x y).interior.map (·.1) := List.mem_map.mpr ⟨p, hp, rfl⟩
    rw [G3_syncBi_event_times kw x y h] at hm
    rcases hm with hm | hm
    · simpa using hx _ hm
    · simpa using hy _ hm
  unfold Disc.sumInside
  simp only [hf, List.map_nil, qsum]

/-- the pair values over such an interval: no coincidence, no multiplicity -/
theorem G3_syncValues_no_spike (kw : Kw) (x y : Train) (h : D4_VBi x y) (a b : Q)
    (hi : kw.interval = some (a, b)) (ha : x.ts ≤ a) (hb : b ≤ x.te)
    (hx : ∀ s ∈ x.spikes, ¬ (a < s ∧ s < b)) (hy : ∀ s ∈ y.spikes, ¬ (a < s ∧ s < b)) :
    syncValues kw x y = some (0, 0) := by
  unfold syncValues discIntegralKw
  rw [hi]
  show (syncProfileBi kw x y).integral a b = _
  rw [(D4_syncProfileBi_on kw x y h).integral ha hb, G3_syncBi_sumInside_zero kw x y h a b hx hy]

/-- **C05 (bivariate, public function)**: two valid trains with common edges, `interval = (a, b)`
    inside the recording and no spike of either train strictly inside `(a, b)`: `spike_sync` is `1`,
    for every keyword record (any `MRTS`, `max_tau`, `Reconcile`) -/
theorem G3_sync_no_spike_in_interval_bi (kw : Kw) (x y : Train) (a b : Q) (h : D4_VBi x y)
    (hi : kw.interval = some (a, b)) (ha : x.ts ≤ a) (hb : b ≤ x.te)
    (hx : ∀ s ∈ x.spikes, ¬ (a < s ∧ s < b)) (hy : ∀ s ∈ y.spikes, ¬ (a < s ∧ s < b)) :
    spikeSyncBi kw x y = some 1 := by
  unfold spikeSyncBi
  rw [G3_syncValues_no_spike kw x y h a b hi ha hb hx hy]
  simp [syncRatio]

example : D4_VBi ⟨[1, 4, 5], 0, 6⟩ ⟨[0, 1, 9/2, 6], 0, 6⟩ ∧
    (∀ s ∈ [(1 : Q), 4, 5], ¬ ((1 : Q) < s ∧ s < 4)) ∧
    (∀ s ∈ [(0 : Q), 1, 9/2, 6], ¬ ((1 : Q) < s ∧ s < 4)) := by
  refine ⟨⟨⟨?_, ?_, ?_⟩, ⟨?_, ?_, ?_⟩, rfl, rfl⟩, ?_, ?_⟩ <;> decide +kernel

/-- the code on that input (spikes ON the two ends of the averaging interval do not count) -/
example : spikeSyncBi { interval := some (1, 4), recon := false } ⟨[1, 4, 5], 0, 6⟩
    ⟨[0, 1, 9/2, 6], 0, 6⟩ = some 1 := by decide +kernel

/-- **C05 (multivariate, public function)**: a list of valid trains with common edges (any number
    of trains), `interval = (a, b)` inside the recording and no spike of any train strictly inside
    `(a, b)`: `spike_sync_multi` is `1`, for every keyword record -/
theorem sync_no_spike_in_interval (kw : Kw) (L : List Train) (ts te a b : Q)
    (hv : B5_ValidList ts te L) (hi : kw.interval = some (a, b)) (ha : ts ≤ a) (hb : b ≤ te)
    (h0 : ∀ t ∈ L, ∀ s ∈ t.spikes, ¬ (a < s ∧ s < b)) :
    spikeSyncMulti kw none L = some 1 := by
  rw [F5_spikeSyncMulti_eq_pooled kw L ts te hv,
    F5_sumOpt2_of_some _ (fun _ => ((0 : Q), (0 : Q)))]
  · simp only [G3_qsum_map_zero, Option.map_some]
    simp [syncRatio]
  · intro p hp
    obtain ⟨m1, m2⟩ := B5_pair_mem L p hp
    have hb2 := F5_pair_VBi hv p hp
    obtain ⟨_, s1, e1⟩ := hv _ m1
    exact G3_syncValues_no_spike kw _ _ hb2 a b hi (by rw [s1]; exact ha) (by rw [e1]; exact hb)
      (h0 _ m1) (h0 _ m2)

/-- the multivariate profile itself has no event strictly inside such an interval -/
theorem G3_syncMulti_sumInside_zero (kw : Kw) (L : List Train) (ts te a b : Q)
    (hv : B5_ValidList ts te L) (h2 : 2 ≤ L.length)
    (h0 : ∀ t ∈ L, ∀ s ∈ t.spikes, ¬ (a < s ∧ s < b)) :
    (syncProfileMulti kw none L).sumInside a b = (0, 0) := by
  rw [F5_syncProfileMulti_valid kw L ts te hv]
  unfold syncProfileMulti
  simp only [F5_prep_valid kw.noRecon ts te L hv, resolveIdx]
  rw [C3_disc_gpm_sumInside _ _ (B5_pairs_range_ne_nil h2)]
  have e : ∀ p ∈ pairsOf (List.range L.length),
      (syncProfileBi kw.noRecon.noRecon (tr L p.1) (tr L p.2)).sumInside a b = (0, 0) := by
    intro p hp
    obtain ⟨m1, m2⟩ := B5_pair_mem L p hp
    exact G3_syncBi_sumInside_zero _ _ _ (F5_pair_VBi hv p hp) a b (h0 _ m1) (h0 _ m2)
  have e1 : (pairsOf (List.range L.length)).map (fun p =>
      ((syncProfileBi kw.noRecon.noRecon (tr L p.1) (tr L p.2)).sumInside a b).1) =
      (pairsOf (List.range L.length)).map (fun _ => (0 : Q)) :=
    List.map_congr_left (fun p hp => by rw [e p hp])
  have e2 : (pairsOf (List.range L.length)).map (fun p =>
      ((syncProfileBi kw.noRecon.noRecon (tr L p.1) (tr L p.2)).sumInside a b).2) =
      (pairsOf (List.range L.length)).map (fun _ => (0 : Q)) :=
    List.map_congr_left (fun p hp => by rw [e p hp])
  rw [e1, e2, G3_qsum_map_zero]

def G3_exL : List Train := [⟨[1, 4, 5], 0, 6⟩, ⟨[0, 1, 9/2, 6], 0, 6⟩, ⟨[], 0, 6⟩, ⟨[4], 0, 6⟩]

theorem G3_exL_valid : B5_ValidList 0 6 G3_exL := by
  intro t ht
  simp only [G3_exL, List.mem_cons, List.not_mem_nil, or_false] at ht
  rcases ht with rfl | rfl | rfl | rfl <;> refine ⟨⟨?_, ?_, ?_⟩, rfl, rfl⟩ <;> decide +kernel

example : B5_ValidList 0 6 G3_exL ∧ (0 : Q) ≤ 1 ∧ (4 : Q) ≤ 6 ∧
    (∀ t ∈ G3_exL, ∀ s ∈ t.spikes, ¬ ((1 : Q) < s ∧ s < 4)) :=
  ⟨G3_exL_valid, by norm_num, by norm_num, by decide +kernel⟩

example : spikeSyncMulti { interval := some (1, 4), recon := false } none G3_exL = some 1 ∧
    spikeSyncMulti { interval := some (1, 9/2), recon := false } none G3_exL ≠ some 1 := by
  decide +kernel

/-! ## 2. C15: the multivariate SPIKE-Sync profile, value and filter are monotone in MRTS -/

/-- relation between two profile entries: same time, same (non-negative) multiplicity, and the
    value does not decrease -/
def G3_EntLe (e1 e2 : Q × Q × Q) : Prop :=
  e1.1 = e2.1 ∧ e1.2.2 = e2.2.2 ∧ e1.2.1 ≤ e2.2.1 ∧ 0 ≤ e1.2.2

/-- entry by entry (edge entries included) -/
def G3_DiscLe (f g : Disc) : Prop := List.Forall₂ G3_EntLe f.e g.e

theorem G3_EntLe_zero : G3_EntLe (0, 0, 0) (0, 0, 0) := ⟨rfl, rfl, le_refl _, le_refl _⟩

theorem G3_forall₂_tail {α} {R : α → α → Prop} {l l' : List α} (h : List.Forall₂ R l l') :
    List.Forall₂ R l.tail l'.tail := by
  cases h with
  | nil => exact List.Forall₂.nil
  | cons _ hr => exact hr

theorem G3_forall₂_dropLast {α} {R : α → α → Prop} {l l' : List α} (h : List.Forall₂ R l l') :
    List.Forall₂ R l.dropLast l'.dropLast := by
  rw [List.dropLast_eq_take, List.dropLast_eq_take, h.length_eq]
  exact List.forall₂_take _ h

theorem G3_forall₂_lastD {α} {R : α → α → Prop} {l l' : List α} (h : List.Forall₂ R l l')
    {d d' : α} (hd : R d d') : R (lastD l d) (lastD l' d') := by
  cases h with
  | nil => exact hd
  | cons h1 hr => exact C5_forall₂_lastD R _ _ _ _ _ _ (List.Forall₂.cons h1 hr)

theorem G3_forall₂_headD {α} {R : α → α → Prop} {l l' : List α} (h : List.Forall₂ R l l')
    {d d' : α} (hd : R d d') : R (l.headD d) (l'.headD d') := by
  cases h with
  | nil => exact hd
  | cons h1 _ => exact h1

theorem G3_addDiscLoop_rel : ∀ (r1 r2 : List (Q × Q × Q)) (e1 e2 : Q × Q × Q)
    (r1' r2' : List (Q × Q × Q)) (e1' e2' : Q × Q × Q),
    List.Forall₂ G3_EntLe r1 r1' → List.Forall₂ G3_EntLe r2 r2' → G3_EntLe e1 e1' →
    G3_EntLe e2 e2' →
    List.Forall₂ G3_EntLe (addDiscLoop r1 r2 e1 e2) (addDiscLoop r1' r2' e1' e2') := by
  intro r1 r2 e1 e2
  induction r1, r2 using addDiscLoop.induct with
  | case1 =>
    intro r1' r2' e1' e2' h1 h2 he1 he2
    cases h1; cases h2
    rw [addDiscLoop, addDiscLoop]
    refine List.Forall₂.cons ⟨he1.1, ?_, add_le_add he1.2.2.1 he2.2.2.1,
      add_nonneg he1.2.2.2 he2.2.2.2⟩ List.Forall₂.nil
    show e1.2.2 + e2.2.2 = e1'.2.2 + e2'.2.2
    rw [he1.2.1, he2.2.1]
  | case2 a r1t =>
    intro r1' r2' e1' e2' h1 h2 he1 he2
    cases h2
    cases h1 with
    | cons ha hr =>
      rw [addDiscLoop, addDiscLoop]
      exact List.Forall₂.cons ha (List.rel_append hr (List.Forall₂.cons he1 List.Forall₂.nil))
  | case3 b r2t =>
    intro r1' r2' e1' e2' h1 h2 he1 he2
    cases h1
    cases h2 with
    | cons hb hr =>
      rw [addDiscLoop, addDiscLoop]
      exact List.Forall₂.cons hb (List.rel_append hr (List.Forall₂.cons he2 List.Forall₂.nil))
  | case4 a r1t b r2t hab ih =>
    intro r1' r2' e1' e2' h1 h2 he1 he2
    cases h1 with
    | @cons _ a' _ r1t' ha hr1 =>
    cases h2 with
    | @cons _ b' _ r2t' hb hr2 =>
      have hab' : a'.1 < b'.1 := by rw [← ha.1, ← hb.1]; exact hab
      rw [addDiscLoop, addDiscLoop, if_pos hab, if_pos hab']
      exact List.Forall₂.cons ha (ih _ _ _ _ hr1 (List.Forall₂.cons hb hr2) he1 he2)
  | case5 a r1t b r2t hab hba ih =>
    intro r1' r2' e1' e2' h1 h2 he1 he2
    cases h1 with
    | @cons _ a' _ r1t' ha hr1 =>
    cases h2 with
    | @cons _ b' _ r2t' hb hr2 =>
      have hab' : ¬ a'.1 < b'.1 := by rw [← ha.1, ← hb.1]; exact hab
      have hba' : b'.1 < a'.1 := by rw [← ha.1, ← hb.1]; exact hba
      rw [addDiscLoop, addDiscLoop, if_neg hab, if_neg hab', if_pos hba, if_pos hba']
      exact List.Forall₂.cons hb (ih _ _ _ _ (List.Forall₂.cons ha hr1) hr2 he1 he2)
  | case6 a r1t b r2t hab hba ih =>
    intro r1' r2' e1' e2' h1 h2 he1 he2
    cases h1 with
    | @cons _ a' _ r1t' ha hr1 =>
    cases h2 with
    | @cons _ b' _ r2t' hb hr2 =>
      have hab' : ¬ a'.1 < b'.1 := by rw [← ha.1, ← hb.1]; exact hab
      have hba' : ¬ b'.1 < a'.1 := by rw [← ha.1, ← hb.1]; exact hba
      rw [addDiscLoop, addDiscLoop, if_neg hab, if_neg hab', if_neg hba, if_neg hba']
      refine List.Forall₂.cons ⟨ha.1, ?_, add_le_add ha.2.2.1 hb.2.2.1,
        add_nonneg ha.2.2.2 hb.2.2.2⟩ (ih _ _ _ _ hr1 hr2 he1 he2)
      show a.2.2 + b.2.2 = a'.2.2 + b'.2.2
      rw [ha.2.1, hb.2.1]

theorem G3_DiscLe.interior {f g : Disc} (h : G3_DiscLe f g) :
    List.Forall₂ G3_EntLe f.interior g.interior :=
  G3_forall₂_dropLast (G3_forall₂_tail h)

/-- `add_discrete_function` preserves the entrywise order -/
theorem G3_DiscLe.add {f f' g g' : Disc} (hf : G3_DiscLe f f') (hg : G3_DiscLe g g') :
    G3_DiscLe (f.add g) (f'.add g') := by
  have hrest := G3_addDiscLoop_rel f.interior g.interior (lastD f.e (0,0,0)) (lastD g.e (0,0,0))
    f'.interior g'.interior (lastD f'.e (0,0,0)) (lastD g'.e (0,0,0)) hf.interior hg.interior
    (G3_forall₂_lastD hf G3_EntLe_zero) (G3_forall₂_lastD hg G3_EntLe_zero)
  have hh := (G3_forall₂_headD hf G3_EntLe_zero).1
  unfold Disc.add
  dsimp only
  revert hrest
  generalize addDiscLoop f.interior g.interior (lastD f.e (0,0,0)) (lastD g.e (0,0,0)) = R
  generalize addDiscLoop f'.interior g'.interior (lastD f'.e (0,0,0)) (lastD g'.e (0,0,0)) = R'
  intro hrest
  cases hrest with
  | nil => exact hf
  | cons h1 hr =>
    exact List.Forall₂.cons ⟨hh, h1.2.1, h1.2.2.1, h1.2.2.2⟩ (List.Forall₂.cons h1 hr)

/-- (value, multiplicity) pairs: same non-negative multiplicity, value not smaller -/
def G3_PairLe (u v : Q × Q) : Prop := u.2 = v.2 ∧ u.1 ≤ v.1 ∧ 0 ≤ u.2

theorem G3_sum_rel {l l' : List (Q × Q × Q)} (h : List.Forall₂ G3_EntLe l l') :
    G3_PairLe (qsum (l.map (·.2.1)), qsum (l.map (·.2.2)))
      (qsum (l'.map (·.2.1)), qsum (l'.map (·.2.2))) := by
  induction h with
  | nil => exact ⟨rfl, le_refl _, le_refl _⟩
  | cons h1 _ ih =>
    obtain ⟨i1, i2, i3⟩ := ih
    simp only [List.map_cons, qsum]
    exact ⟨by show _ + _ = _ + _; rw [h1.2.1]; exact congrArg _ i1, add_le_add h1.2.2.1 i2,
      add_nonneg h1.2.2.2 i3⟩

theorem G3_atL_rel {l l' : List (Q × Q × Q)} (h : List.Forall₂ G3_EntLe l l') (t : Q) :
    G3_PairLe (atL l t) (atL l' t) := by
  induction h with
  | nil => exact ⟨rfl, le_refl _, le_refl _⟩
  | @cons a a' r r' h1 _ ih =>
    unfold atL at ih ⊢
    by_cases c : a.1 = t
    · have c' : a'.1 = t := by rw [← h1.1]; exact c
      simp only [List.find?_cons, c, c', decide_true]
      exact ⟨h1.2.1, h1.2.2.1, h1.2.2.2⟩
    · have c' : ¬ a'.1 = t := by rw [← h1.1]; exact c
      simp only [List.find?_cons, c, c', decide_false]
      exact ih

/-- optional (value, multiplicity) results: both fail or both succeed and are related -/
def G3_OptPairLe (o1 o2 : Option (Q × Q)) : Prop :=
  (o1 = none ∧ o2 = none) ∨ ∃ u v, o1 = some u ∧ o2 = some v ∧ G3_PairLe u v

theorem G3_integralAll_rel {f g : Disc} (h : G3_DiscLe f g) :
    G3_PairLe f.integralAll g.integralAll := G3_sum_rel h.interior

theorem G3_times_eq {l l' : List (Q × Q × Q)} (h : List.Forall₂ G3_EntLe l l') :
    l.map (·.1) = l'.map (·.1) := by
  induction h with
  | nil => rfl
  | cons h1 _ ih => simp only [List.map_cons, ih, h1.1]

theorem G3_integral_rel {f g : Disc} (h : G3_DiscLe f g) (a b : Q) :
    G3_OptPairLe (f.integral a b) (g.integral a b) := by
  unfold Disc.integral
  dsimp only
  rw [← G3_times_eq h]
  by_cases c : ssRight (f.e.map (·.1)) a = 0 ∨ ssLeft (f.e.map (·.1)) b ≥ (f.e.map (·.1)).length
  · rw [if_pos c, if_pos c]; exact Or.inl ⟨rfl, rfl⟩
  · rw [if_neg c, if_neg c]
    exact Or.inr ⟨_, _, rfl, rfl, G3_sum_rel (List.forall₂_take _ (List.forall₂_drop _ h))⟩

theorem G3_discIntegralKw_rel {f g : Disc} (h : G3_DiscLe f g) (iv : Option (Q × Q)) :
    G3_OptPairLe (discIntegralKw f iv) (discIntegralKw g iv) := by
  unfold discIntegralKw
  match iv with
  | none => exact Or.inr ⟨_, _, rfl, rfl, G3_integralAll_rel h⟩
  | some (a, b) => exact G3_integral_rel h a b

theorem G3_sumOpt2_rel {l1 l2 : List (Option (Q × Q))} (h : List.Forall₂ G3_OptPairLe l1 l2) :
    G3_OptPairLe (sumOpt2 l1) (sumOpt2 l2) := by
  induction h with
  | nil => exact Or.inr ⟨_, _, rfl, rfl, rfl, le_refl _, le_refl _⟩
  | @cons o1 o2 r1 r2 ho _ ih =>
    rcases ho with ⟨e1, e2⟩ | ⟨u, v, e1, e2, huv⟩
    · left; rw [e1, e2]; exact ⟨rfl, rfl⟩
    · rw [e1, e2]
      rcases ih with ⟨f1, f2⟩ | ⟨s1, s2, f1, f2, hs⟩
      · left; simp [sumOpt2, f1, f2]
      · right
        refine ⟨(u.1 + s1.1, u.2 + s1.2), (v.1 + s2.1, v.2 + s2.2), by simp [sumOpt2, f1],
          by simp [sumOpt2, f2], ?_, add_le_add huv.2.1 hs.2.1, add_nonneg huv.2.2 hs.2.2⟩
        show u.2 + s1.2 = v.2 + s2.2
        rw [huv.1, hs.1]

/-- `c / mp` (`1` when `mp = 0`) is monotone in `c` for a fixed non-negative `mp` -/
theorem G3_syncRatio_mono {u v : Q × Q} (h : G3_PairLe u v) : syncRatio u ≤ syncRatio v := by
  obtain ⟨h1, h2, h3⟩ := h
  unfold syncRatio
  rw [← h1]
  split_ifs with c
  · exact le_refl _
  · exact div_le_div_of_nonneg_right h2 h3

theorem G3_OptPairLe.map_ratio {o1 o2 : Option (Q × Q)} (h : G3_OptPairLe o1 o2) :
    F6_OptGe (o2.map syncRatio) (o1.map syncRatio) := by
  rcases h with ⟨e1, e2⟩ | ⟨u, v, e1, e2, huv⟩
  · left; simp [e1, e2]
  · right; exact ⟨_, _, by rw [e2]; rfl, by rw [e1]; rfl, G3_syncRatio_mono huv⟩

/-! ### the bivariate profile -/

theorem G3_forall₂_and_left {α} {R : α → α → Prop} {P : α → Prop} {l l' : List α}
    (h : List.Forall₂ R l l') (hp : ∀ a ∈ l, P a) : List.Forall₂ (fun a b => R a b ∧ P a) l l' := by
  induction h with
  | nil => exact List.Forall₂.nil
  | cons h1 _ ih =>
    exact List.Forall₂.cons ⟨h1, hp _ (by simp)⟩ (ih (fun a ha => hp a (by simp [ha])))

theorem G3_entrySpec_mult_nonneg (v1 v2 vt : Q) (s1 s2 : List Q) (tm m t : Q) :
    0 ≤ (entrySpec v1 v2 vt s1 s2 tm m t).2.2 := by
  unfold entrySpec
  split_ifs <;> norm_num

theorem G3_frameProfile_mult_nonneg (ts te : Q) (es : List (Q × Q × Q))
    (h : ∀ e ∈ es, 0 ≤ e.2.2) : ∀ e ∈ frameProfile ts te es, 0 ≤ e.2.2 := by
  cases es with
  | nil =>
    intro e he
    simp only [frameProfile, List.mem_cons, List.not_mem_nil, or_false] at he
    rcases he with rfl | rfl <;> norm_num
  | cons f r =>
    intro e he
    have hl : lastD (f :: r) f ∈ f :: r := lastD_mem f r f
    unfold frameProfile at he
    simp only [List.mem_cons, List.mem_append, List.not_mem_nil, or_false] at he
    rcases he with (rfl | rfl | he) | rfl
    · exact h f (by simp)
    · exact h e (by simp)
    · exact h e (by simp [he])
    · exact h (lastD (f :: r) f) hl

theorem G3_coincProfile_le (s1 s2 : List Q) (ts te mt m1 m2 : Q)
    (h1 : StrictSorted s1) (h2 : StrictSorted s2) (hm : m1 ≤ m2) :
    List.Forall₂ G3_EntLe (coincProfile s1 s2 ts te mt m1) (coincProfile s1 s2 ts te mt m2) := by
  have hle := C5_coincProfile_mono_mrts s1 s2 ts te mt m1 m2 h1 h2 hm
  have hnn : ∀ e ∈ coincProfile s1 s2 ts te mt m1, 0 ≤ e.2.2 := by
    rw [coincProfile_eq_spec _ _ _ _ _ _ h1 h2]
    apply G3_frameProfile_mult_nonneg
    intro e he
    unfold scanSpec at he
    obtain ⟨t, _, rfl⟩ := List.mem_map.mp he
    exact G3_entrySpec_mult_nonneg _ _ _ _ _ _ _ _
  exact (G3_forall₂_and_left hle hnn).imp
    (fun a b hab => ⟨hab.1.1, hab.1.2.1, hab.1.2.2.1, hab.2⟩)

/-- the public bivariate SPIKE-Sync profile is entrywise monotone in MRTS (every other keyword
    fixed, valid trains on common edges) -/
theorem G3_syncProfileBi_le (kw : Kw) (m1 m2 : Q) (x y : Train) (h : D4_VBi x y) (hm : m1 ≤ m2) :
    G3_DiscLe (syncProfileBi { kw with mrts := m1 } x y) (syncProfileBi { kw with mrts := m2 } x y) := by
  rw [D4_syncProfileBi_valid { kw with mrts := m1 } x y h,
    D4_syncProfileBi_valid { kw with mrts := m2 } x y h]
  unfold syncProfileBi G3_DiscLe
  simp only [prepBi_noRecon]
  exact G3_coincProfile_le _ _ _ _ _ m1 m2 h.1.2.1 h.2.1.2.1 hm

/-! ### the multivariate profile -/

/-- **whole profile**: the multivariate SPIKE-Sync profiles for `MRTS = m1 ≤ m2` have the same
    event times and the same multiplicities entry by entry, and no value decreases -/
theorem G3_syncProfileMulti_le (kw : Kw) (m1 m2 : Q) (L : List Train) (ts te : Q)
    (hv : B5_ValidList ts te L) (h2 : 2 ≤ L.length) (hm : m1 ≤ m2) :
    G3_DiscLe (syncProfileMulti { kw with mrts := m1 } none L)
      (syncProfileMulti { kw with mrts := m2 } none L) := by
  unfold syncProfileMulti
  simp only [F5_prep_valid _ ts te L hv, resolveIdx]
  apply F6_gpm_rel Disc.add _ _ G3_DiscLe (fun _ _ _ _ => G3_DiscLe.add) _
    (B5_pairs_range_ne_nil h2)
  intro p hp
  exact G3_syncProfileBi_le kw.noRecon m1 m2 _ _ (F5_pair_VBi hv p hp) hm

/-- **C15 (multivariate SPIKE-Sync profile)**: for `m1 ≤ m2`, a valid list and every other keyword
    fixed, at every time `t` the multiplicities of `spike_sync_profile_multi` agree and the value
    for `m1` is at most the value for `m2` (raising MRTS can only add coincidences) -/
theorem sync_multi_profile_monotone (kw : Kw) (m1 m2 : Q) (L : List Train) (ts te : Q)
    (hv : B5_ValidList ts te L) (h2 : 2 ≤ L.length) (hm : m1 ≤ m2) (t : Q) :
    ((syncProfileMulti { kw with mrts := m1 } none L).at t).2 =
      ((syncProfileMulti { kw with mrts := m2 } none L).at t).2 ∧
    ((syncProfileMulti { kw with mrts := m1 } none L).at t).1 ≤
      ((syncProfileMulti { kw with mrts := m2 } none L).at t).1 := by
  have h := G3_atL_rel (G3_syncProfileMulti_le kw m1 m2 L ts te hv h2 hm).interior t
  rw [Disc.at_eq, Disc.at_eq]
  exact ⟨h.1, h.2.1⟩

/-- the same for the whole list of entries -/
theorem G3_sync_multi_profile_monotone_entries (kw : Kw) (m1 m2 : Q) (L : List Train) (ts te : Q)
    (hv : B5_ValidList ts te L) (h2 : 2 ≤ L.length) (hm : m1 ≤ m2) :
    List.Forall₂ (fun e1 e2 : Q × Q × Q => e1.1 = e2.1 ∧ e1.2.2 = e2.2.2 ∧ e1.2.1 ≤ e2.2.1 ∧
        0 ≤ e1.2.2)
      (syncProfileMulti { kw with mrts := m1 } none L).e
      (syncProfileMulti { kw with mrts := m2 } none L).e :=
  G3_syncProfileMulti_le kw m1 m2 L ts te hv h2 hm

/-- bivariate public profile at a time -/
theorem G3_sync_bi_profile_monotone (kw : Kw) (m1 m2 : Q) (x y : Train) (h : D4_VBi x y)
    (hm : m1 ≤ m2) (t : Q) :
    ((syncProfileBi { kw with mrts := m1 } x y).at t).2 =
      ((syncProfileBi { kw with mrts := m2 } x y).at t).2 ∧
    ((syncProfileBi { kw with mrts := m1 } x y).at t).1 ≤
      ((syncProfileBi { kw with mrts := m2 } x y).at t).1 := by
  have h := G3_atL_rel (G3_syncProfileBi_le kw m1 m2 x y h hm).interior t
  rw [Disc.at_eq, Disc.at_eq]
  exact ⟨h.1, h.2.1⟩

/-- an input on which MRTS matters: the pair `(1, 7/4)` is coincident at MRTS = 4, not at 0 -/
def G3_exM : List Train := [⟨[0, 1, 4], 0, 12⟩, ⟨[7/4, 10], 0, 12⟩, ⟨[5, 9], 0, 12⟩]

theorem G3_exM_valid : B5_ValidList 0 12 G3_exM := by
  intro t ht
  simp only [G3_exM, List.mem_cons, List.not_mem_nil, or_false] at ht
  rcases ht with rfl | rfl | rfl <;> refine ⟨⟨?_, ?_, ?_⟩, rfl, rfl⟩ <;> decide +kernel

example : B5_ValidList 0 12 G3_exM ∧ 2 ≤ G3_exM.length ∧ (0 : Q) ≤ 4 :=
  ⟨G3_exM_valid, by decide, by norm_num⟩

example : (syncProfileMulti { mrts := 0, recon := false } none G3_exM).e =
      [(0, 0, 2), (0, 0, 2), (1, 0, 2), (7 / 4, 0, 2), (4, 1, 2), (5, 1, 2), (9, 1, 2), (10, 1, 2),
        (12, 1, 2)] ∧
    (syncProfileMulti { mrts := 4, recon := false } none G3_exM).e =
      [(0, 0, 2), (0, 0, 2), (1, 1, 2), (7 / 4, 1, 2), (4, 1, 2), (5, 1, 2), (9, 1, 2), (10, 1, 2),
        (12, 1, 2)] := by decide +kernel

/-! ### the values -/

theorem G3_syncValues_le (kw : Kw) (m1 m2 : Q) (x y : Train) (h : D4_VBi x y) (hm : m1 ≤ m2) :
    G3_OptPairLe (syncValues { kw with mrts := m1 } x y) (syncValues { kw with mrts := m2 } x y) :=
  G3_discIntegralKw_rel (G3_syncProfileBi_le kw m1 m2 x y h hm) kw.interval

/-- **C15 (bivariate SPIKE-Sync value)**: `spike_sync` never decreases when MRTS is raised; both
    calls fail for the same `interval`s -/
theorem G3_spike_sync_bi_monotone_in_mrts (kw : Kw) (m1 m2 : Q) (x y : Train) (h : D4_VBi x y)
    (hm : m1 ≤ m2) :
    F6_OptGe (spikeSyncBi { kw with mrts := m2 } x y) (spikeSyncBi { kw with mrts := m1 } x y) :=
  (G3_syncValues_le kw m1 m2 x y h hm).map_ratio

/-- **C15 (multivariate SPIKE-Sync value)**: for a valid list (any number of trains), `m1 ≤ m2` and
    every other keyword fixed (any `interval`, `max_tau`, `Reconcile`): the pooled multiplicity is
    the same, and `spike_sync_multi` for `m1` is at most the one for `m2` — also when the
    multiplicity is `0` (both are `1`); both calls fail for the same `interval`s -/
theorem G3_spike_sync_multi_monotone_in_mrts (kw : Kw) (m1 m2 : Q) (L : List Train) (ts te : Q)
    (hv : B5_ValidList ts te L) (hm : m1 ≤ m2) :
    F6_OptGe (spikeSyncMulti { kw with mrts := m2 } none L)
      (spikeSyncMulti { kw with mrts := m1 } none L) := by
  rw [F5_spikeSyncMulti_eq_pooled _ L ts te hv, F5_spikeSyncMulti_eq_pooled _ L ts te hv]
  apply G3_OptPairLe.map_ratio
  apply G3_sumOpt2_rel
  rw [List.forall₂_map_left_iff, List.forall₂_map_right_iff, List.forall₂_same]
  intro p hp
  exact G3_syncValues_le kw m1 m2 _ _ (F5_pair_VBi hv p hp) hm

/-- … in the usual form -/
theorem G3_spike_sync_multi_monotone_in_mrts' (kw : Kw) (m1 m2 : Q) (L : List Train) (ts te : Q)
    (hv : B5_ValidList ts te L) (hm : m1 ≤ m2) (d1 d2 : Q)
    (h1 : spikeSyncMulti { kw with mrts := m1 } none L = some d1)
    (h2 : spikeSyncMulti { kw with mrts := m2 } none L = some d2) : d1 ≤ d2 :=
  (G3_spike_sync_multi_monotone_in_mrts kw m1 m2 L ts te hv hm).le h2 h1

example : spikeSyncMulti { mrts := 0, recon := false } none G3_exM = some (2 / 7) ∧
    spikeSyncMulti { mrts := 4, recon := false } none G3_exM = some (3 / 7) ∧
    spikeSyncMulti { mrts := 0, recon := false, interval := some (1/2, 8) } none G3_exM
      = some (1 / 4) ∧
    spikeSyncMulti { mrts := 4, recon := false, interval := some (1/2, 8) } none G3_exM
      = some (1 / 2) := by decide +kernel

/-! ### the filter -/

/-- the filter indicator of the pairwise definition is monotone in MRTS -/
theorem G3_singleSpec_mono_mrts (s1 s2 : List Q) (tm m1 m2 : Q) (hm : m1 ≤ m2) :
    List.Forall₂ (· ≤ ·) (singleSpec s1 s2 tm m1) (singleSpec s1 s2 tm m2) := by
  unfold singleSpec
  rw [List.forall₂_map_left_iff, List.forall₂_map_right_iff, List.forall₂_same]
  intro a _
  by_cases c : s2.any (fun b => decide (Coinc s1 s2 tm m1 a b)) = true
  · obtain ⟨b, hb, hp⟩ := List.any_eq_true.mp c
    have c' : s2.any (fun b => decide (Coinc s1 s2 tm m2 a b)) = true :=
      List.any_eq_true.mpr ⟨b, hb, by
        simp only [decide_eq_true_eq] at hp ⊢
        exact C5_coinc_mono_mrts s1 s2 tm m1 m2 a b hm hp⟩
    rw [if_pos c, if_pos c']
  · rw [if_neg c]
    split_ifs <;> norm_num

/-- the per-spike indicator of `coincidence_single_python` is monotone in MRTS -/
theorem G3_coincSingle_mono_mrts (s1 s2 : List Q) (ts te mt m1 m2 : Q)
    (h1 : StrictSorted s1) (h2 : StrictSorted s2) (hm : m1 ≤ m2) :
    List.Forall₂ (· ≤ ·) (coincSingle s1 s2 ts te mt m1) (coincSingle s1 s2 ts te mt m2) := by
  rw [coincSingle_eq_spec _ _ _ _ _ _ h1 h2, coincSingle_eq_spec _ _ _ _ _ _ h1 h2]
  exact G3_singleSpec_mono_mrts s1 s2 _ m1 m2 hm

theorem G3_addLists_nil (b : List Q) : addLists [] b = [] := by
  cases b <;> rfl

theorem G3_addLists_le {a a' : List Q} (ha : List.Forall₂ (· ≤ ·) a a') :
    ∀ {b b' : List Q}, List.Forall₂ (· ≤ ·) b b' →
      List.Forall₂ (· ≤ ·) (addLists a b) (addLists a' b') := by
  induction ha with
  | nil => intro b b' _; rw [G3_addLists_nil, G3_addLists_nil]; exact List.Forall₂.nil
  | @cons x x' r r' hx hr ih =>
    intro b b' hb
    cases hb with
    | nil => exact List.Forall₂.cons hx hr
    | cons hy hs => exact List.Forall₂.cons (add_le_add hx hy) (ih hs)

theorem G3_fold_le (i : Nat) (f f' : Nat → List Q) : ∀ (js : List Nat) (acc acc' : List Q),
    List.Forall₂ (· ≤ ·) acc acc' → (∀ j ∈ js, i ≠ j → List.Forall₂ (· ≤ ·) (f j) (f' j)) →
    List.Forall₂ (· ≤ ·)
      (js.foldl (fun acc j => if i = j then acc else addLists acc (f j)) acc)
      (js.foldl (fun acc j => if i = j then acc else addLists acc (f' j)) acc')
  | [], _, _, h, _ => h
  | j :: js, acc, acc', h, hf => by
    simp only [List.foldl_cons]
    apply G3_fold_le i f f' js _ _ _ (fun k hk => hf k (by simp [hk]))
    by_cases c : i = j
    · rw [if_pos c, if_pos c]; exact h
    · rw [if_neg c, if_neg c]; exact G3_addLists_le h (hf j (by simp) c)

/-- the coincidence counts of every spike of train `i` do not decrease when MRTS is raised -/
theorem G3_coincCounts_mono_mrts (kw : Kw) (m1 m2 : Q) (L : List Train) (i : Nat)
    (hs : ∀ s ∈ L, StrictSorted s.spikes) (hi : i < L.length) (hm : m1 ≤ m2) :
    List.Forall₂ (· ≤ ·) (coincCounts { kw with mrts := m1 } L i)
      (coincCounts { kw with mrts := m2 } L i) := by
  unfold coincCounts
  apply G3_fold_le
  · exact List.forall₂_same.mpr (fun _ _ => le_refl _)
  · intro j hj _
    exact G3_coincSingle_mono_mrts _ _ _ _ _ m1 m2 (hs _ (B5_tr_mem L i hi))
      (hs _ (B5_tr_mem L j (List.mem_range.mp hj))) hm

theorem G3_zip_filter_sublist (c : Q) : ∀ (s : List Q) {c1 c2 : List Q},
    List.Forall₂ (· ≤ ·) c1 c2 →
    (((s.zip c1).filter fun p => decide (p.2 > c)).map (·.1)).Sublist
      (((s.zip c2).filter fun p => decide (p.2 > c)).map (·.1))
  | [], _, _, _ => by simp
  | x :: s, _, _, List.Forall₂.nil => by simp
  | x :: s, _, _, @List.Forall₂.cons _ _ _ y1 y2 r1 r2 hy hr => by
    have ih := G3_zip_filter_sublist c s hr
    simp only [List.zip_cons_cons, List.filter_cons]
    by_cases h1 : y1 > c
    · have h2 : y2 > c := lt_of_lt_of_le h1 hy
      simp only [h1, h2, decide_true, if_true, List.map_cons]
      exact List.Sublist.cons_cons _ ih
    · by_cases h2 : y2 > c
      · simp only [h1, h2, decide_true, decide_false, if_true, List.map_cons]
        exact List.Sublist.cons _ ih
      · simp only [h1, h2, decide_false]
        exact ih

theorem G3_zip_filter_sublist_le (c : Q) : ∀ (s : List Q) {c1 c2 : List Q},
    List.Forall₂ (· ≤ ·) c1 c2 →
    (((s.zip c2).filter fun p => decide (p.2 ≤ c)).map (·.1)).Sublist
      (((s.zip c1).filter fun p => decide (p.2 ≤ c)).map (·.1))
  | [], _, _, _ => by simp
  | x :: s, _, _, List.Forall₂.nil => by simp
  | x :: s, _, _, @List.Forall₂.cons _ _ _ y1 y2 r1 r2 hy hr => by
    have ih := G3_zip_filter_sublist_le c s hr
    simp only [List.zip_cons_cons, List.filter_cons]
    by_cases h2 : y2 ≤ c
    · have h1 : y1 ≤ c := le_trans hy h2
      simp only [h1, h2, decide_true, if_true, List.map_cons]
      exact List.Sublist.cons_cons _ ih
    · by_cases h1 : y1 ≤ c
      · simp only [h1, h2, decide_true, decide_false, if_true, List.map_cons]
        exact List.Sublist.cons _ ih
      · simp only [h1, h2, decide_false]
        exact ih

/-- **C15 (SPIKE-Sync filter)**: for a valid list, `m1 ≤ m2`, the same threshold and every other
    keyword fixed: every spike that `filter_by_spike_sync` keeps with `MRTS = m1` is kept with
    `MRTS = m2` (as a sub-sequence of each train), and every spike removed with `m2` is removed
    with `m1` -/
theorem G3_sync_filter_monotone_in_mrts (kw : Kw) (thr m1 m2 : Q) (L : List Train) (ts te : Q)
    (hv : B5_ValidList ts te L) (hm : m1 ≤ m2) (i : Nat) (hi : i < L.length) :
    (tr (filterBySync { kw with mrts := m1 } thr L).1 i).spikes.Sublist
      (tr (filterBySync { kw with mrts := m2 } thr L).1 i).spikes ∧
    (tr (filterBySync { kw with mrts := m2 } thr L).2 i).spikes.Sublist
      (tr (filterBySync { kw with mrts := m1 } thr L).2 i).spikes := by
  have hc := G3_coincCounts_mono_mrts kw.noRecon m1 m2 L i
    (fun s hs => (F5_valid_sorted hv s hs).2.2) hi hm
  rw [D4_filterBySync_valid { kw with mrts := m1 } thr L ts te hv,
    D4_filterBySync_valid { kw with mrts := m2 } thr L ts te hv]
  rw [B6_filter_kept_eq _ thr L rfl i hi, B6_filter_kept_eq _ thr L rfl i hi,
    B6_filter_removed_eq _ thr L rfl i hi, B6_filter_removed_eq _ thr L rfl i hi]
  exact ⟨G3_zip_filter_sublist _ _ hc, G3_zip_filter_sublist_le _ _ hc⟩

/-- membership form -/
theorem G3_sync_filter_kept_mono_mrts (kw : Kw) (thr m1 m2 : Q) (L : List Train) (ts te : Q)
    (hv : B5_ValidList ts te L) (hm : m1 ≤ m2) (i : Nat) (hi : i < L.length) (t : Q)
    (ht : t ∈ (tr (filterBySync { kw with mrts := m1 } thr L).1 i).spikes) :
    t ∈ (tr (filterBySync { kw with mrts := m2 } thr L).1 i).spikes :=
  (G3_sync_filter_monotone_in_mrts kw thr m1 m2 L ts te hv hm i hi).1.subset ht

example : (filterBySync { mrts := 0, recon := false } (1/4) G3_exM).1 =
      [⟨[4], 0, 12⟩, ⟨[10], 0, 12⟩, ⟨[5, 9], 0, 12⟩] ∧
    (filterBySync { mrts := 4, recon := false } (1/4) G3_exM).1 =
      [⟨[1, 4], 0, 12⟩, ⟨[7/4, 10], 0, 12⟩, ⟨[5, 9], 0, 12⟩] := by decide +kernel

/-! ## 1. C15: the public SPIKE profile at MRTS = 0 is the non-adaptive definition -/

/-- the non-adaptive SPIKE dissimilarity from the two nearest-spike distances `s1 s2` and the two
    current interval lengths `ν1 ν2`: `(s1·ν2 + s2·ν1) / (2·((ν1+ν2)/2)²)`, rate-independent
    variant `(s1 + s2) / (ν1 + ν2)` -/
def G3_nonAdaptive (ri : Bool) (s1 s2 ν1 ν2 : Q) : Q :=
  if ri then (s1 + s2) / (ν1 + ν2) else (s1 * ν2 + s2 * ν1) / (2 * ((ν1 + ν2) / 2) ^ 2)

theorem G3_distAtT_zero (ν1 ν2 s1 s2 : Q) (ri : Bool) (h : 0 ≤ (ν1 + ν2) / 2) :
    distAtT ν1 ν2 s1 s2 0 ri = G3_nonAdaptive ri s1 s2 ν1 ν2 := by
  unfold distAtT G3_nonAdaptive
  simp only [max_eq_right h]
  cases ri
  · simp only [Bool.false_eq_true, if_false]
    rw [div_div]
    congr 1
    ring
  · simp only [if_true]
    exact div_div_div_cancel_right₀ (by norm_num) _ _

/-- the definition at MRTS = 0, both one-sided limits -/
theorem G3_spikeSpec_zero (t1 t2 : List Q) (ts te t : Q) (ri right : Bool)
    (h1 : ValidNE t1 ts te) (h2 : ValidNE t2 ts te)
    (hl : if right then ts ≤ t else ts < t) (hu : if right then t < te else t ≤ te) :
    spikeSpec t1 t2 ts te 0 ri t right =
      G3_nonAdaptive ri (spikeContrib t1 t2 ts te t right).1 (spikeContrib t2 t1 ts te t right).1
        (spikeContrib t1 t2 ts te t right).2 (spikeContrib t2 t1 ts te t right).2 := by
  obtain ⟨_, q1⟩ := B4_contrib_sign t1 t2 ts te t h1 right hl hu
  obtain ⟨_, q2⟩ := B4_contrib_sign t2 t1 ts te t h2 right hl hu
  unfold spikeSpec
  exact G3_distAtT_zero _ _ _ _ ri (by linarith)

theorem G3_headD_eq : ∀ (x : List Q) (h : 0 < x.length), x.headD 0 = x[0]
  | [], h => by simp at h
  | _ :: _, _ => rfl

theorem G3_pwlOn_bounds {ts te : Q} {f : Pwl} (hf : B5_PwlOn ts te f) (k : Nat)
    (hk : k + 1 < f.x.length) :
    ts ≤ nth f.x k ∧ nth f.x k < nth f.x (k + 1) ∧ nth f.x (k + 1) ≤ te := by
  obtain ⟨⟨_, _, hs, _⟩, h0, h1⟩ := hf
  have hxk : nth f.x k = f.x[k] := by unfold nth; rw [List.getD_eq_getElem _ _ (by omega)]
  have hxk1 : nth f.x (k + 1) = f.x[k + 1] := by unfold nth; rw [List.getD_eq_getElem _ _ hk]
  rw [hxk, hxk1]
  have hp := List.pairwise_iff_getElem.mp hs
  refine ⟨?_, hp k (k + 1) (by omega) hk (by omega), ?_⟩
  · rw [← h0]
    unfold Pwl.first
    rw [G3_headD_eq f.x (by omega)]
    rcases Nat.eq_zero_or_pos k with rfl | hpos
    · exact le_refl _
    · exact (hp 0 k (by omega) (by omega) hpos).le
  · rw [← h1]
    unfold Pwl.last
    exact sorted_le_last hs _ (List.getElem_mem hk)

/-- **C15 (SPIKE profile at MRTS = 0, public function, every time)**: two valid trains on common
    edges, outside F9 (no train that is exactly one spike on `t_start`), every other keyword
    arbitrary: at every time `t` of the `k`-th piece the public profile with `MRTS = 0` has the
    non-adaptive value `(s1·ν2 + s2·ν1) / (2·((ν1+ν2)/2)²)` resp. `(s1+s2)/(ν1+ν2)` (RI), with
    `νn` the current interval lengths `nuAt` of the two trains (positive) and `sn` the
    interpolated nearest-spike distances of the definition -/
theorem G3_spike_profile_zero_mrts_at_every_time_partial (kw : Kw) (a b : Train)
    (ha : ValidTrain a) (hb : ValidTrain b) (hts : b.ts = a.ts) (hte : b.te = a.te)
    (hna : a.spikes ≠ [a.ts]) (hnb : b.spikes ≠ [b.ts])
    (k : Nat) (hk : k + 1 < (spikeProfileBi { kw with mrts := 0 } a b).x.length) (t : Q)
    (hxt : nth (spikeProfileBi { kw with mrts := 0 } a b).x k ≤ t)
    (htx : t < nth (spikeProfileBi { kw with mrts := 0 } a b).x (k + 1)) :
    ((spikeProfileBi { kw with mrts := 0 } a b).pieceAt k).at t =
      G3_nonAdaptive kw.ri
        (spikeContrib a.nonEmpty b.nonEmpty a.ts a.te t true).1
        (spikeContrib b.nonEmpty a.nonEmpty a.ts a.te t true).1
        (nuAt a.spikes a.ts a.te t) (nuAt b.spikes a.ts a.te t) ∧
    0 < nuAt a.spikes a.ts a.te t ∧ 0 < nuAt b.spikes a.ts a.te t := by
  have hva := nonEmpty_valid a ha
  have hvb := nonEmpty_valid b hb
  rw [hts, hte] at hvb
  obtain ⟨b0, _, b1⟩ := G3_pwlOn_bounds
    (D4_spikeProfileBi_on { kw with mrts := 0 } a b ⟨ha, hb, hts, hte⟩) k hk
  have ht0 : a.ts ≤ t := le_trans b0 hxt
  have ht1 : t < a.te := lt_of_lt_of_le htx b1
  have e1 : (spikeContrib a.nonEmpty b.nonEmpty a.ts a.te t true).2 = nuAt a.spikes a.ts a.te t := by
    rw [B4_contrib_isi_eq_nuAt _ _ _ _ _ hva.2.1 hva.1, nuAt_nonEmpty a t ha ht0 ht1]
  have e2 : (spikeContrib b.nonEmpty a.nonEmpty a.ts a.te t true).2 = nuAt b.spikes a.ts a.te t := by
    have := nuAt_nonEmpty b t hb (by rw [hts]; exact ht0) (by rw [hte]; exact ht1)
    rw [hts, hte] at this
    rw [B4_contrib_isi_eq_nuAt _ _ _ _ _ hvb.2.1 hvb.1, this]
  refine ⟨?_, ?_, ?_⟩
  · rw [F5_spike_profile_api_value_at_every_time_partial { kw with mrts := 0 } a b ha hb hts hte
      hna hnb k hk t hxt htx]
    show spikeSpec a.nonEmpty b.nonEmpty a.ts a.te 0 kw.ri t true = _
    rw [G3_spikeSpec_zero _ _ _ _ _ _ true hva hvb ht0 ht1, e1, e2]
  · exact nuAt_pos _ _ _ _ ha.1 ha.2.2 ht0 ht1
  · refine nuAt_pos _ _ _ _ ha.1 ?_ ht0 ht1
    intro x hx
    have := hb.2.2 x hx
    rwa [hts, hte] at this

theorem G3_mem_zip_tail {xs : List Q} {p : Q × Q} (hp : p ∈ xs.zip xs.tail) :
    ∃ k, k + 1 < xs.length ∧ p = (nth xs k, nth xs (k + 1)) := by
  obtain ⟨k, hk, rfl⟩ := List.getElem_of_mem hp
  have hk' : k + 1 < xs.length := by
    simp only [List.length_zip, List.length_tail] at hk
    omega
  refine ⟨k, hk', ?_⟩
  rw [List.getElem_zip, List.getElem_tail]
  unfold nth
  rw [List.getD_eq_getElem _ _ (by omega), List.getD_eq_getElem _ _ hk']

/-- **C15 (SPIKE profile at MRTS = 0, public function, the two value arrays)**: every start value
    `y1[k]` and end value `y2[k]` of the public profile with `MRTS = 0` is the non-adaptive formula
    applied to `(sₙ, νₙ) = spikeContrib …` (right limit at `x[k]`, left limit at `x[k+1]`) -/
theorem spike_profile_zero_mrts_partial (kw : Kw) (a b : Train)
    (ha : ValidTrain a) (hb : ValidTrain b) (hts : b.ts = a.ts) (hte : b.te = a.te)
    (hna : a.spikes ≠ [a.ts]) (hnb : b.spikes ≠ [b.ts]) :
    (spikeProfileBi { kw with mrts := 0 } a b).y1 =
      (((spikeProfileBi { kw with mrts := 0 } a b).x.zip
          (spikeProfileBi { kw with mrts := 0 } a b).x.tail).map fun p =>
        G3_nonAdaptive kw.ri
          (spikeContrib a.nonEmpty b.nonEmpty a.ts a.te p.1 true).1
          (spikeContrib b.nonEmpty a.nonEmpty a.ts a.te p.1 true).1
          (spikeContrib a.nonEmpty b.nonEmpty a.ts a.te p.1 true).2
          (spikeContrib b.nonEmpty a.nonEmpty a.ts a.te p.1 true).2) ∧
    (spikeProfileBi { kw with mrts := 0 } a b).y2 =
      (((spikeProfileBi { kw with mrts := 0 } a b).x.zip
          (spikeProfileBi { kw with mrts := 0 } a b).x.tail).map fun p =>
        G3_nonAdaptive kw.ri
          (spikeContrib a.nonEmpty b.nonEmpty a.ts a.te p.2 false).1
          (spikeContrib b.nonEmpty a.nonEmpty a.ts a.te p.2 false).1
          (spikeContrib a.nonEmpty b.nonEmpty a.ts a.te p.2 false).2
          (spikeContrib b.nonEmpty a.nonEmpty a.ts a.te p.2 false).2) := by
  have hva := nonEmpty_valid a ha
  have hvb := nonEmpty_valid b hb
  rw [hts, hte] at hvb
  have hon := D4_spikeProfileBi_on { kw with mrts := 0 } a b ⟨ha, hb, hts, hte⟩
  have h := F5_spike_profile_api_is_definition_partial { kw with mrts := 0 } a b ha hb hts hte
    hna hnb
  unfold spikeSpecProfile at h
  obtain ⟨h1, h2⟩ := Prod.mk.inj h
  constructor
  · rw [h1]
    apply List.map_congr_left
    intro p hp
    obtain ⟨k, hk, rfl⟩ := G3_mem_zip_tail hp
    obtain ⟨b0, b1, b2⟩ := G3_pwlOn_bounds hon k hk
    exact G3_spikeSpec_zero _ _ _ _ _ _ true hva hvb b0 (lt_of_lt_of_le b1 b2)
  · rw [h2]
    apply List.map_congr_left
    intro p hp
    obtain ⟨k, hk, rfl⟩ := G3_mem_zip_tail hp
    obtain ⟨b0, b1, b2⟩ := G3_pwlOn_bounds hon k hk
    exact G3_spikeSpec_zero _ _ _ _ _ _ false hva hvb (lt_of_le_of_lt b0 b1) b2

example : ValidTrain ⟨[], 0, 6⟩ ∧ ValidTrain ⟨[2, 3, 6], 0, 6⟩ ∧
    (⟨[], 0, 6⟩ : Train).spikes ≠ [0] ∧ (⟨[2, 3, 6], 0, 6⟩ : Train).spikes ≠ [0] :=
  ⟨⟨by decide, by decide, by decide⟩, ⟨by decide, by decide, by decide⟩, by decide, by decide⟩

/-! ### an MRTS not above any pooled inter-spike interval changes nothing (public functions) -/

theorem G3_nuAt_ge_of_pooled (a : Train) (ts te m t : Q) (ha : ValidTrain a) (hs : a.ts = ts)
    (he : a.te = te) (hm : ∀ ν ∈ isiListSpec a.spikes ts te, m ≤ ν) (h0 : ts ≤ t) (h1 : t < te) :
    m ≤ nuAt a.nonEmpty ts te t := by
  have := nuAt_nonEmpty a t ha (by rw [hs]; exact h0) (by rw [he]; exact h1)
  rw [hs, he] at this
  rw [this]
  exact hm _ (C5_nuAt_mem_isiListSpec a.spikes ts te t ha.2.1 h0 h1)

/-- **C15 (small MRTS, bivariate public profiles)**: if `MRTS` is not above any entry of the pooled
    inter-spike-interval lists of the two trains (edge rule of the profiles), the public SPIKE
    profile (outside F9) and the public ISI profile are the `MRTS = 0` profiles -/
theorem G3_spike_profile_small_mrts_api_partial (kw : Kw) (m : Q) (a b : Train)
    (ha : ValidTrain a) (hb : ValidTrain b) (hts : b.ts = a.ts) (hte : b.te = a.te)
    (hna : a.spikes ≠ [a.ts]) (hnb : b.spikes ≠ [b.ts])
    (hm : ∀ ν ∈ isiListSpec a.spikes a.ts a.te ++ isiListSpec b.spikes a.ts a.te, m ≤ ν) :
    spikeProfileBi { kw with mrts := m } a b = spikeProfileBi { kw with mrts := 0 } a b := by
  have hva := nonEmpty_valid a ha
  have hvb := nonEmpty_valid b hb
  have hn2 := F5_not_oneSpikeOnStart b hb hnb
  rw [hts, hte] at hvb
  rw [hts] at hn2
  rw [C2_spikeProfileBi_valid { kw with mrts := m } a b ha hb hts hte,
    C2_spikeProfileBi_valid { kw with mrts := 0 } a b ha hb hts hte]
  unfold spikeProfileBi
  simp only [prepBi_noRecon]
  have e := C5_spikeProfile_small_mrts' a.nonEmpty b.nonEmpty a.ts a.te m kw.ri hva hvb ha.1
    (F5_not_oneSpikeOnStart a ha hna) hn2 (by
      intro t h0 h1
      have p1 := G3_nuAt_ge_of_pooled a a.ts a.te m t ha rfl rfl
        (fun ν hν => hm ν (List.mem_append_left _ hν)) h0 h1
      have p2 := G3_nuAt_ge_of_pooled b a.ts a.te m t hb hts hte
        (fun ν hν => hm ν (List.mem_append_right _ hν)) h0 h1
      linarith)
  show Pwl.mk (spikeProfile a.nonEmpty b.nonEmpty a.ts a.te m kw.ri).1
      (spikeProfile a.nonEmpty b.nonEmpty a.ts a.te m kw.ri).2.1
      (spikeProfile a.nonEmpty b.nonEmpty a.ts a.te m kw.ri).2.2 =
    Pwl.mk (spikeProfile a.nonEmpty b.nonEmpty a.ts a.te 0 kw.ri).1
      (spikeProfile a.nonEmpty b.nonEmpty a.ts a.te 0 kw.ri).2.1
      (spikeProfile a.nonEmpty b.nonEmpty a.ts a.te 0 kw.ri).2.2
  rw [e]

theorem G3_isi_profile_small_mrts_api (kw : Kw) (m : Q) (a b : Train)
    (ha : ValidTrain a) (hb : ValidTrain b) (hts : b.ts = a.ts) (hte : b.te = a.te)
    (hm : ∀ ν ∈ isiListSpec a.spikes a.ts a.te, m ≤ ν) :
    isiProfileBi { kw with mrts := m } a b = isiProfileBi { kw with mrts := 0 } a b := by
  have hva := nonEmpty_valid a ha
  have hvb := nonEmpty_valid b hb
  rw [hts, hte] at hvb
  rw [B5_isiProfileBi_valid { kw with mrts := m } a b ha hb hts hte,
    B5_isiProfileBi_valid { kw with mrts := 0 } a b ha hb hts hte]
  unfold isiProfileBi
  simp only [prepBi_noRecon]
  have e := C5_isiProfile_small_mrts' a.nonEmpty b.nonEmpty a.ts a.te m ha.1 hva hvb
    (fun t h0 h1 => G3_nuAt_ge_of_pooled a a.ts a.te m t ha rfl rfl hm h0 h1)
  show Pwc.mk (isiProfile a.nonEmpty b.nonEmpty a.ts a.te m).1
      (isiProfile a.nonEmpty b.nonEmpty a.ts a.te m).2 =
    Pwc.mk (isiProfile a.nonEmpty b.nonEmpty a.ts a.te 0).1
      (isiProfile a.nonEmpty b.nonEmpty a.ts a.te 0).2
  rw [e]

/-- **C15 (small MRTS, multivariate public profiles)**: a valid list without an F9 train and an
    `MRTS` not above any entry of the pooled inter-spike-interval list of all trains (the list
    `default_thresh` pools): `spike_profile_multi` and `isi_profile_multi` are the `MRTS = 0`
    profiles, hence also every distance derived from them -/
theorem G3_spike_profile_multi_small_mrts_partial (kw : Kw) (m : Q) (L : List Train) (ts te : Q)
    (hv : B5_ValidList ts te L) (h2 : 2 ≤ L.length) (hF9 : ∀ t ∈ L, t.spikes ≠ [ts])
    (hm : ∀ ν ∈ L.flatMap (fun t => isiListSpec t.spikes ts te), m ≤ ν) :
    spikeProfileMulti { kw with mrts := m } none L = spikeProfileMulti { kw with mrts := 0 } none L ∧
    isiProfileMulti { kw with mrts := m } none L = isiProfileMulti { kw with mrts := 0 } none L := by
  have hpair : ∀ p ∈ pairsOf (List.range L.length),
      spikeProfileBi ({ kw with mrts := m } : Kw).noRecon (tr L p.1) (tr L p.2) =
        spikeProfileBi ({ kw with mrts := 0 } : Kw).noRecon (tr L p.1) (tr L p.2) ∧
      isiProfileBi ({ kw with mrts := m } : Kw).noRecon (tr L p.1) (tr L p.2) =
        isiProfileBi ({ kw with mrts := 0 } : Kw).noRecon (tr L p.1) (tr L p.2) := by
    intro p hp
    obtain ⟨m1, m2⟩ := B5_pair_mem L p hp
    obtain ⟨v1, s1, e1⟩ := hv _ m1
    obtain ⟨v2, s2, e2⟩ := hv _ m2
    have hm1 : ∀ ν ∈ isiListSpec (tr L p.1).spikes ts te, m ≤ ν :=
      fun ν hν => hm ν (List.mem_flatMap.mpr ⟨_, m1, hν⟩)
    have hm2 : ∀ ν ∈ isiListSpec (tr L p.2).spikes ts te, m ≤ ν :=
      fun ν hν => hm ν (List.mem_flatMap.mpr ⟨_, m2, hν⟩)
    constructor
    · apply G3_spike_profile_small_mrts_api_partial kw.noRecon m _ _ v1 v2 (s2.trans s1.symm)
        (e2.trans e1.symm) (by rw [s1]; exact hF9 _ m1) (by rw [s2]; exact hF9 _ m2)
      rw [s1, e1]
      intro ν hν
      rcases List.mem_append.mp hν with h | h
      · exact hm1 ν h
      · exact hm2 ν h
    · apply G3_isi_profile_small_mrts_api kw.noRecon m _ _ v1 v2 (s2.trans s1.symm)
        (e2.trans e1.symm)
      rw [s1, e1]
      exact hm1
  have hne := B5_pairs_range_ne_nil h2
  constructor
  · unfold spikeProfileMulti
    simp only [F5_prep_valid _ ts te L hv, resolveIdx, genericProfileMulti_snd]
    have := F6_gpm_rel Pwl.add
      (fun p => spikeProfileBi ({ kw with mrts := m } : Kw).noRecon (tr L p.1) (tr L p.2))
      (fun p => spikeProfileBi ({ kw with mrts := 0 } : Kw).noRecon (tr L p.1) (tr L p.2))
      (· = ·) (fun _ _ _ _ h h' => by rw [h, h']) (List.range L.length) hne
      (fun p hp => (hpair p hp).1)
    rw [this]
  · unfold isiProfileMulti
    simp only [F5_prep_valid _ ts te L hv, resolveIdx, genericProfileMulti_snd]
    have := F6_gpm_rel Pwc.add
      (fun p => isiProfileBi ({ kw with mrts := m } : Kw).noRecon (tr L p.1) (tr L p.2))
      (fun p => isiProfileBi ({ kw with mrts := 0 } : Kw).noRecon (tr L p.1) (tr L p.2))
      (· = ·) (fun _ _ _ _ h h' => by rw [h, h']) (List.range L.length) hne
      (fun p hp => (hpair p hp).2)
    rw [this]

/-- the same with the list `isi_lengths` the code itself pools for `MRTS='auto'` (outside F7) -/
theorem G3_spike_profile_multi_small_mrts_isi_lengths_partial (kw : Kw) (m : Q) (L : List Train)
    (ts te : Q) (hv : B5_ValidList ts te L) (h2 : 2 ≤ L.length) (hF9 : ∀ t ∈ L, t.spikes ≠ [ts])
    (hF7 : ∀ t ∈ L, ¬ F7class t.spikes ts te)
    (hm : ∀ ν ∈ L.flatMap (fun t => isiLengths t.spikes ts te), m ≤ ν) :
    spikeProfileMulti { kw with mrts := m } none L = spikeProfileMulti { kw with mrts := 0 } none L ∧
    isiProfileMulti { kw with mrts := m } none L = isiProfileMulti { kw with mrts := 0 } none L := by
  apply G3_spike_profile_multi_small_mrts_partial kw m L ts te hv h2 hF9
  have e : (L.flatMap fun t => isiLengths t.spikes ts te)
      = L.flatMap fun t => isiListSpec t.spikes ts te := by
    apply List.flatMap_congr
    intro t ht
    obtain ⟨v, s1, e1⟩ := hv t ht
    refine C5_isiLengths_eq_spec t.spikes ts te ?_ (hF7 t ht)
    intro x hx
    have := v.2.2 x hx
    rwa [s1, e1] at this
  rw [← e]
  exact hm

/-- hypotheses of the small-MRTS theorems on a concrete pair with `MRTS = 1 > 0` -/
example : ValidTrain ⟨[1, 3, 4], 0, 6⟩ ∧ ValidTrain ⟨[2, 3, 6], 0, 6⟩ ∧
    (⟨[1, 3, 4], 0, 6⟩ : Train).spikes ≠ [0] ∧ (⟨[2, 3, 6], 0, 6⟩ : Train).spikes ≠ [0] ∧
    isiListSpec [1, 3, 4] 0 6 ++ isiListSpec [2, 3, 6] 0 6 = [2, 2, 1, 2, 2, 1, 3] ∧
    (∀ ν ∈ isiListSpec [1, 3, 4] 0 6 ++ isiListSpec [2, 3, 6] 0 6, (1 : Q) ≤ ν) := by
  refine ⟨⟨?_, ?_, ?_⟩, ⟨?_, ?_, ?_⟩, ?_, ?_, ?_, ?_⟩ <;> decide +kernel

/-- the code on that pair: `MRTS = 1` changes nothing, `MRTS = 3` does; and the value at `t = 5/2`
    (third piece) is the non-adaptive formula -/
example : spikeProfileBi { mrts := 1, recon := false } ⟨[1, 3, 4], 0, 6⟩ ⟨[2, 3, 6], 0, 6⟩ =
      spikeProfileBi { mrts := 0, recon := false } ⟨[1, 3, 4], 0, 6⟩ ⟨[2, 3, 6], 0, 6⟩ ∧
    spikeProfileBi { mrts := 3, recon := false } ⟨[1, 3, 4], 0, 6⟩ ⟨[2, 3, 6], 0, 6⟩ ≠
      spikeProfileBi { mrts := 0, recon := false } ⟨[1, 3, 4], 0, 6⟩ ⟨[2, 3, 6], 0, 6⟩ ∧
    ((spikeProfileBi { mrts := 0, recon := false } ⟨[1, 3, 4], 0, 6⟩ ⟨[2, 3, 6], 0, 6⟩).pieceAt 2).at
      (5/2) = 5 / 18 ∧
    G3_nonAdaptive false (spikeContrib [1, 3, 4] [2, 3, 6] 0 6 (5/2) true).1
      (spikeContrib [2, 3, 6] [1, 3, 4] 0 6 (5/2) true).1 (nuAt [1, 3, 4] 0 6 (5/2))
      (nuAt [2, 3, 6] 0 6 (5/2)) = 5 / 18 := by decide +kernel

example : B5_ValidList 0 6 B5_exV ∧ 2 ≤ B5_exV.length ∧ (∀ t ∈ B5_exV, t.spikes ≠ [0]) ∧
    (∀ t ∈ B5_exV, ¬ F7class t.spikes 0 6) ∧
    (∀ ν ∈ B5_exV.flatMap (fun t => isiListSpec t.spikes 0 6), (1 : Q) ≤ ν) ∧
    (∀ ν ∈ B5_exV.flatMap (fun t => isiLengths t.spikes 0 6), (1 : Q) ≤ ν) :=
  ⟨B5_exV_valid, by decide, by decide +kernel, by decide +kernel, by decide +kernel,
    by decide +kernel⟩

end PySpike
