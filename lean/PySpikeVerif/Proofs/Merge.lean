/-
  Proofs/Merge.lean — `merge_spike_trains`, `psth`, `generate_poisson_spikes`,
  `import_spike_trains_from_time_series` (properties C13 / C20).
-/
import PySpikeVerif.Model.Api
import PySpikeVerif.Proofs.Reconcile
import Mathlib.Data.List.Sort
import Mathlib.Tactic.Linarith
import Mathlib.Tactic.Ring
import Mathlib.Tactic.FieldSimp
import Mathlib.Algebra.Order.Field.Rat
import Mathlib.Order.Monotone.Basic
import Mathlib.Algebra.BigOperators.Group.List.Basic

namespace PySpike

/-! ## `merge_spike_trains` -/

/-- 10a. the merged train is the multiset union of all spike lists -/
theorem mergeTrains_perm (L : List Train) : (mergeTrains L).spikes.Perm (L.flatMap (·.spikes)) :=
  sortQ_perm _

/-- 10b. the merged train is sorted -/
theorem mergeTrains_sorted (L : List Train) : (mergeTrains L).spikes.Pairwise (· ≤ ·) :=
  sortQ_sorted _

/-- 10c. the merged train has the edges of the first train -/
theorem mergeTrains_edges {L : List Train} {f : Train} {r : List Train} (h : L = f :: r) :
    (mergeTrains L).ts = f.ts ∧ (mergeTrains L).te = f.te := by
  subst h; exact ⟨rfl, rfl⟩

/-- duplicates across trains are kept: the number of occurrences adds up -/
theorem mergeTrains_count (L : List Train) (x : Q) :
    (mergeTrains L).spikes.count x = (L.flatMap (·.spikes)).count x :=
  (mergeTrains_perm L).count_eq x

example : (mergeTrains [⟨[1, 3], 0, 5⟩, ⟨[], 0, 5⟩, ⟨[2, 3], 0, 5⟩]).spikes = [1, 2, 3, 3] :=
  List.Perm.eq_of_pairwise (le := (· ≤ ·)) (fun _ _ _ _ h1 h2 => le_antisymm h1 h2)
    (mergeTrains_sorted _) (by norm_num) ((mergeTrains_perm _).trans (by decide))

/-! ## `generate_poisson_spikes` -/

theorem cum_ge {acc : Q} {l : List Q} (h : ∀ d ∈ l, 0 ≤ d) :
    ∀ x ∈ poissonFrom.cum acc l, acc ≤ x := by
  induction l generalizing acc with
  | nil => intro x hx; simp [poissonFrom.cum] at hx
  | cons d r ih =>
    intro x hx
    have hd : 0 ≤ d := h d (by simp)
    rw [poissonFrom.cum, List.mem_cons] at hx
    rcases hx with rfl | hx
    · linarith
    · have := ih (fun e he => h e (List.mem_cons_of_mem _ he)) x hx
      linarith

theorem cum_gt {acc : Q} {l : List Q} (h : ∀ d ∈ l, 0 < d) :
    ∀ x ∈ poissonFrom.cum acc l, acc < x := by
  induction l generalizing acc with
  | nil => intro x hx; simp [poissonFrom.cum] at hx
  | cons d r ih =>
    intro x hx
    have hd : 0 < d := h d (by simp)
    rw [poissonFrom.cum, List.mem_cons] at hx
    rcases hx with rfl | hx
    · linarith
    · have := ih (fun e he => h e (List.mem_cons_of_mem _ he)) x hx
      linarith

theorem cum_sorted {acc : Q} {l : List Q} (h : ∀ d ∈ l, 0 ≤ d) :
    (poissonFrom.cum acc l).Pairwise (· ≤ ·) := by
  induction l generalizing acc with
  | nil => simp [poissonFrom.cum]
  | cons d r ih =>
    have hr : ∀ e ∈ r, 0 ≤ e := fun e he => h e (List.mem_cons_of_mem _ he)
    rw [poissonFrom.cum]
    exact List.pairwise_cons.mpr ⟨cum_ge hr, ih hr⟩

theorem cum_strictSorted {acc : Q} {l : List Q} (h : ∀ d ∈ l, 0 < d) :
    (poissonFrom.cum acc l).Pairwise (· < ·) := by
  induction l generalizing acc with
  | nil => simp [poissonFrom.cum]
  | cons d r ih =>
    have hr : ∀ e ∈ r, 0 < e := fun e he => h e (List.mem_cons_of_mem _ he)
    rw [poissonFrom.cum]
    exact List.pairwise_cons.mpr ⟨cum_gt hr, ih hr⟩

/-- 12a. generated spike times are sorted -/
theorem poissonFrom_sorted {tS tE : Q} {ivs : List Q} (h : ∀ d ∈ ivs, 0 ≤ d) :
    (poissonFrom tS tE ivs).Pairwise (· ≤ ·) := by
  unfold poissonFrom
  exact (cum_sorted h).filter _

/-- 12b. … strictly if all intervals are positive -/
theorem poissonFrom_strictSorted {tS tE : Q} {ivs : List Q} (h : ∀ d ∈ ivs, 0 < d) :
    (poissonFrom tS tE ivs).Pairwise (· < ·) := by
  unfold poissonFrom
  exact (cum_strictSorted h).filter _

/-- 12c. generated spike times lie in `[tS, tE)` -/
theorem poissonFrom_inside {tS tE : Q} {ivs : List Q} (h : ∀ d ∈ ivs, 0 ≤ d) :
    ∀ x ∈ poissonFrom tS tE ivs, tS ≤ x ∧ x < tE := by
  intro x hx
  unfold poissonFrom at hx
  rw [List.mem_filter] at hx
  exact ⟨cum_ge h x hx.1, by simpa using hx.2⟩

example : poissonFrom 0 2 [1/2, 1, 0, 1, 1] = [1/2, 3/2, 3/2] := by decide +kernel
example : ∀ d ∈ ([1/2, 1, 0, 1, 1] : List Q), 0 ≤ d := by decide +kernel

/-! ## `import_spike_trains_from_time_series` -/

theorem lastD_eq_getLast {α} (l : List α) (d : α) (h : l ≠ []) : lastD l d = l.getLast h := by
  induction l, d using lastD.induct with
  | case1 d => exact absurd rfl h
  | case2 a d => rfl
  | case3 a b r d ih => rw [lastD, ih (by simp)]; exact (List.getLast_cons (by simp)).symm

/-- 13a. the spikes are the times `start + (k+1)*bin` of the positive samples -/
theorem timeSeriesTrain_spikes (row : List Q) (start bin x : Q) :
    x ∈ (timeSeriesTrain row start bin).spikes ↔
      ∃ k, ∃ h : k < row.length, row[k] > 0 ∧ x = start + ((k : Q) + 1) * bin := by
  unfold timeSeriesTrain
  simp only [List.mem_map, List.mem_filter, decide_eq_true_eq]
  constructor
  · rintro ⟨p, ⟨hp, hpos⟩, rfl⟩
    obtain ⟨i, hi, rfl⟩ := List.mem_iff_getElem.mp hp
    have hi' : i < row.length := by
      simp only [List.length_zip, List.length_map, List.length_range, Nat.min_self] at hi; exact hi
    refine ⟨i, hi', ?_, ?_⟩
    · simpa using hpos
    · simp only [List.getElem_zip, List.getElem_map, List.getElem_range]; ring
  · rintro ⟨k, hk, hpos, rfl⟩
    refine ⟨(start + bin + (k : Q) * bin, row[k]), ⟨?_, hpos⟩, by ring⟩
    apply List.mem_iff_getElem.mpr
    refine ⟨k, by simp [hk], ?_⟩
    simp only [List.getElem_zip, List.getElem_map, List.getElem_range]

/-- 13b. edges of the imported train -/
theorem timeSeriesTrain_edges (row : List Q) (start bin : Q) (h : row ≠ []) :
    (timeSeriesTrain row start bin).ts = start ∧
      (timeSeriesTrain row start bin).te = start + (row.length : Q) * bin := by
  refine ⟨rfl, ?_⟩
  unfold timeSeriesTrain
  simp only
  obtain ⟨n, hn⟩ : ∃ n, row.length = n + 1 :=
    ⟨row.length - 1, (Nat.succ_pred_eq_of_pos (List.length_pos_iff.mpr h)).symm⟩
  rw [hn, lastD_eq_getLast _ _ (by simp), List.getLast_eq_getElem]
  simp only [List.getElem_map, List.getElem_range, List.length_map, List.length_range,
    Nat.add_sub_cancel]
  push_cast; ring

example : timeSeriesTrain [0, 1, 0, 2] 10 (1/2) = ⟨[11, 12], 10, 12⟩ := by decide +kernel

/-! ## `psth` -/

/-- half-open bins: among the first `m` bins `[e k, e (k+1))` of a strictly increasing grid exactly one
    contains `t` if `e 0 ≤ t < e m`, none otherwise -/
theorem countP_halfopen (e : Nat → Q) (he : StrictMono e) (t : Q) (h0 : e 0 ≤ t) (m : Nat) :
    (List.range m).countP (fun k => decide (e k ≤ t ∧ t < e (k + 1))) = if t < e m then 1 else 0 := by
  induction m with
  | zero => simp [not_lt.mpr h0]
  | succ m ih =>
    rw [List.range_succ, List.countP_append, ih, List.countP_singleton]
    have hm : e m < e (m + 1) := he (Nat.lt_succ_self m)
    by_cases h1 : t < e m
    · have h2 : t < e (m + 1) := lt_trans h1 hm
      have h3 : ¬ (e m ≤ t ∧ t < e (m + 1)) := fun h => absurd h1 (not_lt.mpr h.1)
      simp [h1, h2]
    · by_cases h2 : t < e (m + 1)
      · simp [h1, h2, not_lt.mp h1]
      · simp [h1, h2]

/-- the bin predicate of `np.histogram`: `[e k, e (k+1))`, the last bin closed -/
def binPred (e : Nat → Q) (n : Nat) (t : Q) (k : Nat) : Prop :=
  e k ≤ t ∧ (t < e (k + 1) ∨ (k + 1 = n ∧ t = e (k + 1)))

instance (e : Nat → Q) (n : Nat) (t : Q) (k : Nat) : Decidable (binPred e n t k) := by
  unfold binPred; infer_instance

/-- every `t` in `[e 0, e n]` falls into exactly one of the `n` bins, every other `t` into none -/
theorem countP_bins (e : Nat → Q) (he : StrictMono e) (n : Nat) (t : Q) :
    (List.range n).countP (fun k => decide (binPred e n t k)) =
      if e 0 ≤ t ∧ t ≤ e n ∧ 0 < n then 1 else 0 := by
  by_cases h0 : e 0 ≤ t
  swap
  · rw [if_neg (fun h => h0 h.1), List.countP_eq_zero]
    intro k _ hk
    have hk' := (of_decide_eq_true hk).1
    exact h0 (le_trans (he.monotone (Nat.zero_le k)) hk')
  rcases lt_trichotomy t (e n) with hlt | heq | hgt
  · -- strictly inside: the closed end plays no role
    have hcongr : (List.range n).countP (fun k => decide (binPred e n t k)) =
        (List.range n).countP (fun k => decide (e k ≤ t ∧ t < e (k + 1))) := by
      apply List.countP_congr
      intro k _
      simp only [decide_eq_true_eq]
      unfold binPred
      constructor
      · rintro ⟨h1, h2 | ⟨h3, h4⟩⟩
        · exact ⟨h1, h2⟩
        · rw [h3] at h4; exact absurd h4 (ne_of_lt hlt)
      · rintro ⟨h1, h2⟩; exact ⟨h1, Or.inl h2⟩
    rw [hcongr, countP_halfopen e he t h0 n, if_pos hlt]
    have hn : 0 < n := by
      rcases Nat.eq_zero_or_pos n with rfl | h
      · exact absurd hlt (not_lt.mpr h0)
      · exact h
    rw [if_pos ⟨h0, le_of_lt hlt, hn⟩]
  · -- right end point: only the last (closed) bin
    cases n with
    | zero => simp
    | succ m =>
      rw [if_pos ⟨h0, le_of_eq heq, Nat.succ_pos m⟩, List.range_succ, List.countP_append,
        List.countP_singleton]
      have hm : e m < e (m + 1) := he (Nat.lt_succ_self m)
      have hlast : binPred e (m + 1) t m := ⟨by rw [heq]; exact le_of_lt hm, Or.inr ⟨rfl, heq⟩⟩
      have hcongr : (List.range m).countP (fun k => decide (binPred e (m + 1) t k)) =
          (List.range m).countP (fun k => decide (e k ≤ t ∧ t < e (k + 1))) := by
        apply List.countP_congr
        intro k hk
        have hk' : k < m := List.mem_range.mp hk
        simp only [decide_eq_true_eq]
        unfold binPred
        constructor
        · rintro ⟨h1, h2 | ⟨h3, _⟩⟩
          · exact ⟨h1, h2⟩
          · omega
        · rintro ⟨h1, h2⟩; exact ⟨h1, Or.inl h2⟩
      rw [hcongr, countP_halfopen e he t h0 m, if_neg (by rw [heq]; exact not_lt.mpr (le_of_lt hm))]
      simp [hlast]
  · rw [if_neg (fun h => absurd hgt (not_lt.mpr h.2.1)), List.countP_eq_zero]
    intro k hk hp
    have hk' : k + 1 ≤ n := List.mem_range.mp hk
    have hle : e (k + 1) ≤ e n := he.monotone hk'
    rcases (of_decide_eq_true hp).2 with h2 | ⟨_, h4⟩
    · exact absurd (lt_trans hgt h2) (not_lt.mpr hle)
    · rw [h4] at hgt; exact absurd hgt (not_lt.mpr hle)

theorem sum_map_ite_eq_countP {α} (p : α → Bool) (l : List α) :
    (l.map (fun k => if p k then 1 else 0)).sum = l.countP p := by
  induction l with
  | nil => rfl
  | cons a r ih => rw [List.map_cons, List.sum_cons, ih, List.countP_cons]; omega

/-- double counting -/
theorem sum_countP_swap {α β} (P : α → β → Bool) (l : List β) (ks : List α) :
    (ks.map (fun k => l.countP (P k))).sum = (l.map (fun t => ks.countP (fun k => P k t))).sum := by
  induction l with
  | nil => simp
  | cons a r ih =>
    simp only [List.countP_cons, List.map_cons, List.sum_cons]
    rw [List.sum_map_add, ih, sum_map_ite_eq_countP, Nat.add_comm]

theorem qsum_map_natCast {α} (g : α → Nat) (l : List α) :
    qsum (l.map (fun k => (g k : Q))) = ((l.map g).sum : Nat) := by
  induction l with
  | nil => simp [qsum]
  | cons a r ih => simp only [List.map_cons, qsum, ih, List.sum_cons]; push_cast; ring

/-- the `k`-th bin edge -/
def psthEdge (f : Train) (n k : Nat) : Q := f.ts + (k : Q) * ((f.te - f.ts) / (n : Q))

theorem psthEdge_strictMono (f : Train) (n : Nat) (hn : 0 < n) (hlt : f.ts < f.te) :
    StrictMono (psthEdge f n) := by
  apply strictMono_nat_of_lt_succ
  intro k
  have hw : 0 < (f.te - f.ts) / (n : Q) := div_pos (by linarith) (by exact_mod_cast hn)
  unfold psthEdge; push_cast; linarith

theorem psthEdge_zero (f : Train) (n : Nat) : psthEdge f n 0 = f.ts := by simp [psthEdge]

theorem psthEdge_last (f : Train) (n : Nat) (hn : 0 < n) : psthEdge f n n = f.te := by
  have : (n : Q) ≠ 0 := by exact_mod_cast (Nat.pos_iff_ne_zero.mp hn)
  unfold psthEdge; field_simp; ring

theorem psth_edge_getD (f : Train) (r : List Train) (n k : Nat) (hn : 0 < n) (hk : k ≤ n) :
    (psthCounts (f :: r) n).1.getD k 0 = psthEdge f n k := by
  unfold psthCounts
  simp only [List.headD_cons]
  rw [List.getD_eq_getElem?_getD, List.getElem?_map, List.getElem?_range (by omega)]
  simp only [Option.map_some, Option.getD_some]
  by_cases h : k = n
  · rw [if_pos h, h, psthEdge_last f n hn]
  · rw [if_neg h]; rfl

/-- 11a. there are `n + 1` edges and `n` counts -/
theorem psth_edges_len (L : List Train) (n : Nat) : (psthCounts L n).1.length = n + 1 := by
  simp [psthCounts]

theorem psth_counts_len (L : List Train) (n : Nat) : (psthCounts L n).2.length = n := by
  simp [psthCounts]

/-- 11b. the first edge is the start of the first train -/
theorem psth_edge_first (f : Train) (r : List Train) (n : Nat) (hn : 0 < n) :
    (psthCounts (f :: r) n).1.getD 0 0 = f.ts := by
  rw [psth_edge_getD f r n 0 hn (Nat.zero_le n), psthEdge_zero]

/-- 11c. the last edge is the end of the first train -/
theorem psth_edge_last (f : Train) (r : List Train) (n : Nat) (hn : 0 < n) :
    (psthCounts (f :: r) n).1.getD n 0 = f.te := by
  rw [psth_edge_getD f r n n hn (Nat.le_refl n), psthEdge_last f n hn]

/-- 11d. all bins have the same width -/
theorem psth_widths (f : Train) (r : List Train) (n k : Nat) (hk : k < n) :
    (psthCounts (f :: r) n).1.getD (k + 1) 0 - (psthCounts (f :: r) n).1.getD k 0 =
      (f.te - f.ts) / (n : Q) := by
  rw [psth_edge_getD f r n (k + 1) (by omega) hk, psth_edge_getD f r n k (by omega) (by omega)]
  unfold psthEdge; push_cast; ring

/-- the counts, bin by bin -/
theorem psth_counts_eq (f : Train) (r : List Train) (n : Nat) (hn : 0 < n) :
    (psthCounts (f :: r) n).2 = (List.range n).map fun k =>
      ((((f :: r).flatMap (·.spikes)).countP (fun t => decide (binPred (psthEdge f n) n t k)) : Nat) : Q) := by
  have h : (psthCounts (f :: r) n).2 = (List.range n).map fun k =>
      ((((f :: r).flatMap (·.spikes)).filter fun t =>
        (psthCounts (f :: r) n).1.getD k 0 ≤ t ∧
          (t < (psthCounts (f :: r) n).1.getD (k + 1) 0 ∨
            (k + 1 = n ∧ t = (psthCounts (f :: r) n).1.getD (k + 1) 0))).length : Q) := rfl
  rw [h]
  apply List.map_congr_left
  intro k hk
  have hk' : k < n := List.mem_range.mp hk
  rw [psth_edge_getD f r n k hn (by omega), psth_edge_getD f r n (k + 1) hn hk',
    List.countP_eq_length_filter]
  rfl

/-- 11e. the counts add up to the number of spikes (of all trains, with multiplicity) inside the closed
    interval of the first train: every such spike falls into exactly one bin -/
theorem psth_total (f : Train) (r : List Train) (n : Nat) (hn : 0 < n) (hlt : f.ts < f.te) :
    qsum (psthCounts (f :: r) n).2 =
      ((((f :: r).flatMap (·.spikes)).filter (fun t => f.ts ≤ t ∧ t ≤ f.te)).length : Nat) := by
  rw [psth_counts_eq f r n hn, qsum_map_natCast]
  congr 1
  rw [sum_countP_swap (fun k t => decide (binPred (psthEdge f n) n t k))]
  have hmono := psthEdge_strictMono f n hn hlt
  have h1 : ∀ t : Q, (List.range n).countP (fun k => decide (binPred (psthEdge f n) n t k)) =
      if decide (f.ts ≤ t ∧ t ≤ f.te) = true then 1 else 0 := by
    intro t
    rw [countP_bins (psthEdge f n) hmono n t, psthEdge_zero, psthEdge_last f n hn]
    by_cases h : f.ts ≤ t ∧ t ≤ f.te
    · rw [if_pos ⟨h.1, h.2, hn⟩, if_pos (decide_eq_true h)]
    · rw [if_neg (fun h' => h ⟨h'.1, h'.2.1⟩), if_neg (by simpa using h)]
  simp only [h1]
  rw [sum_map_ite_eq_countP, List.countP_eq_length_filter]

example : psthCounts [⟨[0, 1, 2, 4], 0, 4⟩, ⟨[1/2, 4, 5], 0, 4⟩] 2 = ([0, 2, 4], [3, 3]) := by
  decide +kernel

example : qsum (psthCounts [⟨[0, 1, 2, 4], 0, 4⟩, ⟨[1/2, 4, 5], 0, 4⟩] 2).2 = 6 := by
  rw [psth_total _ _ 2 (by decide) (by decide +kernel)]; decide +kernel

end PySpike
