/-
  Proofs/ApiReconcile.lean — work package C4, part B (property C13):
  every API function is `core ∘ reconcile`.
-/
import PySpikeVerif.Proofs.Reconcile
import PySpikeVerif.Proofs.ApiLaws

namespace PySpike

/-! ## item 3: one lemma per API function -/

theorem C4_prep_true (kw : Kw) (L : List Train) (h : kw.recon = true) : prep kw L = reconcile L := by
  simp [prep, h]

theorem C4_prep_false (kw : Kw) (L : List Train) : prep { kw with recon := false } L = L := rfl

theorem C4_prepBi_true (kw : Kw) (a b : Train) (h : kw.recon = true) :
    prepBi kw a b = reconcileBi a b := by
  simp [prepBi, h]

theorem C4_prepBi_false (kw : Kw) (a b : Train) : prepBi { kw with recon := false } a b = (a, b) := rfl

theorem C4_recon_isiProfileBi (kw : Kw) (a b : Train) (h : kw.recon = true) :
    isiProfileBi kw a b
      = isiProfileBi { kw with recon := false } (reconcileBi a b).1 (reconcileBi a b).2 := by
  simp only [isiProfileBi, C4_prepBi_true kw a b h, C4_prepBi_false]

theorem C4_recon_isiDistanceBi (kw : Kw) (a b : Train) (h : kw.recon = true) :
    isiDistanceBi kw a b
      = isiDistanceBi { kw with recon := false } (reconcileBi a b).1 (reconcileBi a b).2 := by
  simp only [isiDistanceBi, C4_recon_isiProfileBi kw a b h]

theorem C4_recon_spikeProfileBi (kw : Kw) (a b : Train) (h : kw.recon = true) :
    spikeProfileBi kw a b
      = spikeProfileBi { kw with recon := false } (reconcileBi a b).1 (reconcileBi a b).2 := by
  simp only [spikeProfileBi, C4_prepBi_true kw a b h, C4_prepBi_false]

theorem C4_recon_spikeDistanceBi (kw : Kw) (a b : Train) (h : kw.recon = true) :
    spikeDistanceBi kw a b
      = spikeDistanceBi { kw with recon := false } (reconcileBi a b).1 (reconcileBi a b).2 := by
  simp only [spikeDistanceBi, C4_recon_spikeProfileBi kw a b h]

theorem C4_recon_syncProfileBi (kw : Kw) (a b : Train) (h : kw.recon = true) :
    syncProfileBi kw a b
      = syncProfileBi { kw with recon := false } (reconcileBi a b).1 (reconcileBi a b).2 := by
  simp only [syncProfileBi, C4_prepBi_true kw a b h, C4_prepBi_false]

theorem C4_recon_syncValues (kw : Kw) (a b : Train) (h : kw.recon = true) :
    syncValues kw a b
      = syncValues { kw with recon := false } (reconcileBi a b).1 (reconcileBi a b).2 := by
  simp only [syncValues, C4_recon_syncProfileBi kw a b h]

theorem C4_recon_spikeSyncBi (kw : Kw) (a b : Train) (h : kw.recon = true) :
    spikeSyncBi kw a b
      = spikeSyncBi { kw with recon := false } (reconcileBi a b).1 (reconcileBi a b).2 := by
  simp only [spikeSyncBi, C4_recon_syncValues kw a b h]

theorem C4_recon_orderProfileBi (kw : Kw) (a b : Train) (h : kw.recon = true) :
    orderProfileBi kw a b
      = orderProfileBi { kw with recon := false } (reconcileBi a b).1 (reconcileBi a b).2 := by
  simp only [orderProfileBi, C4_prepBi_true kw a b h, C4_prepBi_false]

/-- `orderValues` always reconciles (whatever `kw.recon`), so it does not depend on the switch … -/
theorem C4_orderValues_switch (kw : Kw) (r : Bool) (a b : Train) :
    orderValues { kw with recon := r } a b = orderValues kw a b := rfl

/-- … and reconciling first changes nothing (`reconcile_idem`); no hypothesis on `kw.recon` -/
theorem C4_recon_orderValues (kw : Kw) (a b : Train) :
    orderValues kw a b
      = orderValues { kw with recon := false } (reconcileBi a b).1 (reconcileBi a b).2 := by
  rw [C4_orderValues_switch]
  simp only [orderValues, orderProfileBi]
  rw [C4_prepBi_true _ _ _ rfl, C4_prepBi_true _ _ _ rfl, reconcileBi_idem]

theorem C4_recon_spikeTrainOrderBi (kw : Kw) (normalize : Bool) (a b : Train) :
    spikeTrainOrderBi kw normalize a b
      = spikeTrainOrderBi { kw with recon := false } normalize
          (reconcileBi a b).1 (reconcileBi a b).2 := by
  simp only [spikeTrainOrderBi, ← C4_recon_orderValues kw a b]

theorem C4_recon_spikeDirectionality (kw : Kw) (normalize : Bool) (a b : Train)
    (h : kw.recon = true) :
    spikeDirectionality kw normalize a b
      = spikeDirectionality { kw with recon := false } normalize
          (reconcileBi a b).1 (reconcileBi a b).2 := by
  simp only [spikeDirectionality, C4_prepBi_true kw a b h, C4_prepBi_false]; rfl

/-! multivariate -/

theorem C4_recon_isiProfileMulti (kw : Kw) (idx : Option (List Nat)) (L : List Train)
    (h : kw.recon = true) :
    isiProfileMulti kw idx L = isiProfileMulti { kw with recon := false } idx (reconcile L) := by
  simp only [isiProfileMulti, C4_prep_true kw L h, C4_prep_false]; rfl

theorem C4_recon_isiDistanceMulti (kw : Kw) (idx : Option (List Nat)) (L : List Train)
    (h : kw.recon = true) :
    isiDistanceMulti kw idx L = isiDistanceMulti { kw with recon := false } idx (reconcile L) := by
  simp only [isiDistanceMulti, C4_prep_true kw L h, C4_prep_false]; rfl

theorem C4_recon_isiDistanceMatrix (kw : Kw) (idx : Option (List Nat)) (L : List Train)
    (h : kw.recon = true) :
    isiDistanceMatrix kw idx L = isiDistanceMatrix { kw with recon := false } idx (reconcile L) := by
  simp only [isiDistanceMatrix, C4_prep_true kw L h, C4_prep_false]; rfl

theorem C4_recon_spikeProfileMulti (kw : Kw) (idx : Option (List Nat)) (L : List Train)
    (h : kw.recon = true) :
    spikeProfileMulti kw idx L = spikeProfileMulti { kw with recon := false } idx (reconcile L) := by
  simp only [spikeProfileMulti, C4_prep_true kw L h, C4_prep_false]; rfl

theorem C4_recon_spikeDistanceMulti (kw : Kw) (idx : Option (List Nat)) (L : List Train)
    (h : kw.recon = true) :
    spikeDistanceMulti kw idx L = spikeDistanceMulti { kw with recon := false } idx (reconcile L) := by
  simp only [spikeDistanceMulti, C4_prep_true kw L h, C4_prep_false]; rfl

theorem C4_recon_spikeDistanceMatrix (kw : Kw) (idx : Option (List Nat)) (L : List Train)
    (h : kw.recon = true) :
    spikeDistanceMatrix kw idx L
      = spikeDistanceMatrix { kw with recon := false } idx (reconcile L) := by
  simp only [spikeDistanceMatrix, C4_prep_true kw L h, C4_prep_false]; rfl

theorem C4_recon_syncProfileMulti (kw : Kw) (idx : Option (List Nat)) (L : List Train)
    (h : kw.recon = true) :
    syncProfileMulti kw idx L = syncProfileMulti { kw with recon := false } idx (reconcile L) := by
  simp only [syncProfileMulti, C4_prep_true kw L h, C4_prep_false]; rfl

theorem C4_recon_spikeSyncMulti (kw : Kw) (idx : Option (List Nat)) (L : List Train)
    (h : kw.recon = true) :
    spikeSyncMulti kw idx L = spikeSyncMulti { kw with recon := false } idx (reconcile L) := by
  simp only [spikeSyncMulti, C4_prep_true kw L h, C4_prep_false]; rfl

theorem C4_recon_spikeSyncMatrix (kw : Kw) (idx : Option (List Nat)) (L : List Train)
    (h : kw.recon = true) :
    spikeSyncMatrix kw idx L = spikeSyncMatrix { kw with recon := false } idx (reconcile L) := by
  simp only [spikeSyncMatrix, C4_prep_true kw L h, C4_prep_false]; rfl

/-- `coincCounts` does not look at the switch -/
theorem C4_coincCounts_switch (kw : Kw) (r : Bool) (L : List Train) (i : Nat) :
    coincCounts { kw with recon := r } L i = coincCounts kw L i := rfl

theorem C4_recon_filterBySync (kw : Kw) (thr : Q) (L : List Train) (h : kw.recon = true) :
    filterBySync kw thr L = filterBySync { kw with recon := false } thr (reconcile L) := by
  simp only [filterBySync, C4_prep_true kw L h, C4_prep_false, C4_coincCounts_switch]; rfl

theorem C4_recon_orderProfileMulti (kw : Kw) (idx : Option (List Nat)) (L : List Train)
    (h : kw.recon = true) :
    orderProfileMulti kw idx L = orderProfileMulti { kw with recon := false } idx (reconcile L) := by
  simp only [orderProfileMulti, C4_prep_true kw L h, C4_prep_false]; rfl

theorem C4_recon_spikeTrainOrderMulti (kw : Kw) (idx : Option (List Nat)) (L : List Train)
    (h : kw.recon = true) :
    spikeTrainOrderMulti kw idx L
      = spikeTrainOrderMulti { kw with recon := false } idx (reconcile L) := by
  simp only [spikeTrainOrderMulti, C4_prep_true kw L h, C4_prep_false, C4_orderValues_switch]; rfl

theorem C4_recon_dirValues (kw : Kw) (idx : Option (List Nat)) (L : List Train)
    (h : kw.recon = true) :
    dirValues kw idx L = dirValues { kw with recon := false } idx (reconcile L) := by
  simp only [dirValues, C4_prep_true kw L h, C4_prep_false]

theorem C4_recon_spikeDirectionalityMatrix (kw : Kw) (normalize : Bool) (idx : Option (List Nat))
    (L : List Train) (h : kw.recon = true) :
    spikeDirectionalityMatrix kw normalize idx L
      = spikeDirectionalityMatrix { kw with recon := false } normalize idx (reconcile L) := by
  simp only [spikeDirectionalityMatrix, C4_prep_true kw L h, C4_prep_false]; rfl

/-! ## all API functions at once

`C4_ApiAgree kw₁ L₁ kw₂ L₂`: every multivariate API function gives the same result on `(kw₁, L₁)`
and `(kw₂, L₂)` (for every choice of the remaining arguments); `C4_ApiAgreeBi` the same for the
bivariate API functions. -/

structure C4_ApiAgree (kw₁ : Kw) (L₁ : List Train) (kw₂ : Kw) (L₂ : List Train) : Prop where
  isiProfileMulti : ∀ idx, isiProfileMulti kw₁ idx L₁ = isiProfileMulti kw₂ idx L₂
  isiDistanceMulti : ∀ idx, isiDistanceMulti kw₁ idx L₁ = isiDistanceMulti kw₂ idx L₂
  isiDistanceMatrix : ∀ idx, isiDistanceMatrix kw₁ idx L₁ = isiDistanceMatrix kw₂ idx L₂
  spikeProfileMulti : ∀ idx, spikeProfileMulti kw₁ idx L₁ = spikeProfileMulti kw₂ idx L₂
  spikeDistanceMulti : ∀ idx, spikeDistanceMulti kw₁ idx L₁ = spikeDistanceMulti kw₂ idx L₂
  spikeDistanceMatrix : ∀ idx, spikeDistanceMatrix kw₁ idx L₁ = spikeDistanceMatrix kw₂ idx L₂
  syncProfileMulti : ∀ idx, syncProfileMulti kw₁ idx L₁ = syncProfileMulti kw₂ idx L₂
  spikeSyncMulti : ∀ idx, spikeSyncMulti kw₁ idx L₁ = spikeSyncMulti kw₂ idx L₂
  spikeSyncMatrix : ∀ idx, spikeSyncMatrix kw₁ idx L₁ = spikeSyncMatrix kw₂ idx L₂
  filterBySync : ∀ thr, filterBySync kw₁ thr L₁ = filterBySync kw₂ thr L₂
  orderProfileMulti : ∀ idx, orderProfileMulti kw₁ idx L₁ = orderProfileMulti kw₂ idx L₂
  spikeTrainOrderMulti : ∀ idx, spikeTrainOrderMulti kw₁ idx L₁ = spikeTrainOrderMulti kw₂ idx L₂
  dirValues : ∀ idx, dirValues kw₁ idx L₁ = dirValues kw₂ idx L₂
  spikeDirectionalityMatrix : ∀ normalize idx,
    spikeDirectionalityMatrix kw₁ normalize idx L₁ = spikeDirectionalityMatrix kw₂ normalize idx L₂

structure C4_ApiAgreeBi (kw₁ : Kw) (a₁ b₁ : Train) (kw₂ : Kw) (a₂ b₂ : Train) : Prop where
  isiProfileBi : isiProfileBi kw₁ a₁ b₁ = isiProfileBi kw₂ a₂ b₂
  isiDistanceBi : isiDistanceBi kw₁ a₁ b₁ = isiDistanceBi kw₂ a₂ b₂
  spikeProfileBi : spikeProfileBi kw₁ a₁ b₁ = spikeProfileBi kw₂ a₂ b₂
  spikeDistanceBi : spikeDistanceBi kw₁ a₁ b₁ = spikeDistanceBi kw₂ a₂ b₂
  syncProfileBi : syncProfileBi kw₁ a₁ b₁ = syncProfileBi kw₂ a₂ b₂
  syncValues : syncValues kw₁ a₁ b₁ = syncValues kw₂ a₂ b₂
  spikeSyncBi : spikeSyncBi kw₁ a₁ b₁ = spikeSyncBi kw₂ a₂ b₂
  orderProfileBi : orderProfileBi kw₁ a₁ b₁ = orderProfileBi kw₂ a₂ b₂
  orderValues : orderValues kw₁ a₁ b₁ = orderValues kw₂ a₂ b₂
  spikeTrainOrderBi : ∀ normalize,
    spikeTrainOrderBi kw₁ normalize a₁ b₁ = spikeTrainOrderBi kw₂ normalize a₂ b₂
  spikeDirectionality : ∀ normalize,
    spikeDirectionality kw₁ normalize a₁ b₁ = spikeDirectionality kw₂ normalize a₂ b₂

theorem C4_ApiAgree.symm {kw₁ kw₂ : Kw} {L₁ L₂ : List Train} (h : C4_ApiAgree kw₁ L₁ kw₂ L₂) :
    C4_ApiAgree kw₂ L₂ kw₁ L₁ :=
  ⟨fun i => (h.1 i).symm, fun i => (h.2 i).symm, fun i => (h.3 i).symm, fun i => (h.4 i).symm,
   fun i => (h.5 i).symm, fun i => (h.6 i).symm, fun i => (h.7 i).symm, fun i => (h.8 i).symm,
   fun i => (h.9 i).symm, fun i => (h.10 i).symm, fun i => (h.11 i).symm, fun i => (h.12 i).symm,
   fun i => (h.13 i).symm, fun n i => (h.14 n i).symm⟩

theorem C4_ApiAgree.trans {kw₁ kw₂ kw₃ : Kw} {L₁ L₂ L₃ : List Train}
    (h : C4_ApiAgree kw₁ L₁ kw₂ L₂) (g : C4_ApiAgree kw₂ L₂ kw₃ L₃) : C4_ApiAgree kw₁ L₁ kw₃ L₃ :=
  ⟨fun i => (h.1 i).trans (g.1 i), fun i => (h.2 i).trans (g.2 i), fun i => (h.3 i).trans (g.3 i),
   fun i => (h.4 i).trans (g.4 i), fun i => (h.5 i).trans (g.5 i), fun i => (h.6 i).trans (g.6 i),
   fun i => (h.7 i).trans (g.7 i), fun i => (h.8 i).trans (g.8 i), fun i => (h.9 i).trans (g.9 i),
   fun i => (h.10 i).trans (g.10 i), fun i => (h.11 i).trans (g.11 i),
   fun i => (h.12 i).trans (g.12 i), fun i => (h.13 i).trans (g.13 i),
   fun n i => (h.14 n i).trans (g.14 n i)⟩

theorem C4_ApiAgreeBi.symm {kw₁ kw₂ : Kw} {a₁ b₁ a₂ b₂ : Train}
    (h : C4_ApiAgreeBi kw₁ a₁ b₁ kw₂ a₂ b₂) : C4_ApiAgreeBi kw₂ a₂ b₂ kw₁ a₁ b₁ :=
  ⟨h.1.symm, h.2.symm, h.3.symm, h.4.symm, h.5.symm, h.6.symm, h.7.symm, h.8.symm, h.9.symm,
   fun n => (h.10 n).symm, fun n => (h.11 n).symm⟩

theorem C4_ApiAgreeBi.trans {kw₁ kw₂ kw₃ : Kw} {a₁ b₁ a₂ b₂ a₃ b₃ : Train}
    (h : C4_ApiAgreeBi kw₁ a₁ b₁ kw₂ a₂ b₂) (g : C4_ApiAgreeBi kw₂ a₂ b₂ kw₃ a₃ b₃) :
    C4_ApiAgreeBi kw₁ a₁ b₁ kw₃ a₃ b₃ :=
  ⟨h.1.trans g.1, h.2.trans g.2, h.3.trans g.3, h.4.trans g.4, h.5.trans g.5, h.6.trans g.6,
   h.7.trans g.7, h.8.trans g.8, h.9.trans g.9, fun n => (h.10 n).trans (g.10 n),
   fun n => (h.11 n).trans (g.11 n)⟩

/-- **item 3 (multivariate)**: with `Reconcile=True` every API function taking a list of trains is
    the same function with `Reconcile=False` applied to the reconciled list -/
theorem C4_api_eq_core_reconcile (kw : Kw) (L : List Train) (h : kw.recon = true) :
    C4_ApiAgree kw L { kw with recon := false } (reconcile L) :=
  ⟨fun idx => C4_recon_isiProfileMulti kw idx L h,
   fun idx => C4_recon_isiDistanceMulti kw idx L h,
   fun idx => C4_recon_isiDistanceMatrix kw idx L h,
   fun idx => C4_recon_spikeProfileMulti kw idx L h,
   fun idx => C4_recon_spikeDistanceMulti kw idx L h,
   fun idx => C4_recon_spikeDistanceMatrix kw idx L h,
   fun idx => C4_recon_syncProfileMulti kw idx L h,
   fun idx => C4_recon_spikeSyncMulti kw idx L h,
   fun idx => C4_recon_spikeSyncMatrix kw idx L h,
   fun thr => C4_recon_filterBySync kw thr L h,
   fun idx => C4_recon_orderProfileMulti kw idx L h,
   fun idx => C4_recon_spikeTrainOrderMulti kw idx L h,
   fun idx => C4_recon_dirValues kw idx L h,
   fun n idx => C4_recon_spikeDirectionalityMatrix kw n idx L h⟩

/-- **item 3 (bivariate)** -/
theorem C4_api_eq_core_reconcile_bi (kw : Kw) (a b : Train) (h : kw.recon = true) :
    C4_ApiAgreeBi kw a b { kw with recon := false } (reconcileBi a b).1 (reconcileBi a b).2 :=
  ⟨C4_recon_isiProfileBi kw a b h, C4_recon_isiDistanceBi kw a b h,
   C4_recon_spikeProfileBi kw a b h, C4_recon_spikeDistanceBi kw a b h,
   C4_recon_syncProfileBi kw a b h, C4_recon_syncValues kw a b h, C4_recon_spikeSyncBi kw a b h,
   C4_recon_orderProfileBi kw a b h, C4_recon_orderValues kw a b,
   fun n => C4_recon_spikeTrainOrderBi kw n a b,
   fun n => C4_recon_spikeDirectionality kw n a b h⟩

example : ({ recon := true, mrts := 1/2 } : Kw).recon = true := rfl

/-! ## item 4 -/

theorem C4_reconcileBi_congr {a₁ b₁ a₂ b₂ : Train} (ha : Train.sameSet a₁ a₂)
    (hb : Train.sameSet b₁ b₂) : reconcileBi a₁ b₁ = reconcileBi a₂ b₂ := by
  have h : reconcile [a₁, b₁] = reconcile [a₂, b₂] :=
    reconcile_perm_dup (.cons ha (.cons hb .nil))
  rw [reconcileBi_eq, reconcileBi_eq] at h
  simp only [List.cons.injEq, and_true] at h
  exact Prod.ext h.1 h.2

/-- **item 4 (multivariate)**: with `Reconcile=True` the result of every API function depends only
    on the edges and on the *set* of spike times of each train — the order of the spike times within
    a train and repeated spike times are irrelevant -/
theorem api_order_and_repeats_irrelevant (kw : Kw) {L₁ L₂ : List Train} (hr : kw.recon = true)
    (h : List.Forall₂ Train.sameSet L₁ L₂) : C4_ApiAgree kw L₁ kw L₂ := by
  have h1 := C4_api_eq_core_reconcile kw L₁ hr
  have h2 := C4_api_eq_core_reconcile kw L₂ hr
  rw [reconcile_perm_dup h] at h1
  exact h1.trans h2.symm

/-- **item 4 (bivariate)** -/
theorem api_order_and_repeats_irrelevant_bi (kw : Kw) {a₁ b₁ a₂ b₂ : Train} (hr : kw.recon = true)
    (ha : Train.sameSet a₁ a₂) (hb : Train.sameSet b₁ b₂) : C4_ApiAgreeBi kw a₁ b₁ kw a₂ b₂ := by
  have h1 := C4_api_eq_core_reconcile_bi kw a₁ b₁ hr
  have h2 := C4_api_eq_core_reconcile_bi kw a₂ b₂ hr
  rw [C4_reconcileBi_congr ha hb] at h1
  exact h1.trans h2.symm

/-- non-vacuity: a shuffled train with a repeated spike against its sorted form -/
example : List.Forall₂ Train.sameSet [⟨[3, 1, 2, 1], 0, 4⟩, ⟨[2, 2], 0, 4⟩]
    [⟨[1, 2, 3], 0, 4⟩, ⟨[2], 0, 4⟩] := by
  refine .cons ⟨rfl, rfl, fun x => ?_⟩ (.cons ⟨rfl, rfl, fun x => ?_⟩ .nil) <;>
    simp only [List.mem_cons, List.not_mem_nil, or_false] <;> tauto

/-! ## item 5 -/

/-- valid trains on a common interval -/
def C4_Valid (ts te : Q) (L : List Train) : Prop :=
  ∀ t ∈ L, t.ts = ts ∧ t.te = te ∧ t.spikes.Pairwise (· < ·) ∧ ∀ x ∈ t.spikes, ts ≤ x ∧ x ≤ te

theorem C4_reconcileBi_id_of_valid {ts te : Q} {a b : Train} (h : C4_Valid ts te [a, b]) :
    reconcileBi a b = (a, b) := by
  have h' := reconcile_id_of_valid [a, b] ts te h
  rw [reconcileBi_eq] at h'
  simp only [List.cons.injEq, and_true] at h'
  exact Prod.ext h'.1 h'.2

/-- **item 5 (multivariate)**: on valid input (common edges, strictly increasing spike times inside
    the edges) the `Reconcile` switch is irrelevant for every API function -/
theorem api_reconcile_switch_irrelevant (kw : Kw) (L : List Train) (ts te : Q)
    (h : C4_Valid ts te L) :
    C4_ApiAgree { kw with recon := true } L { kw with recon := false } L := by
  have h1 := C4_api_eq_core_reconcile { kw with recon := true } L rfl
  rw [reconcile_id_of_valid L ts te h] at h1
  exact h1

/-- **item 5 (bivariate)** -/
theorem api_reconcile_switch_irrelevant_bi (kw : Kw) (a b : Train) (ts te : Q)
    (h : C4_Valid ts te [a, b]) :
    C4_ApiAgreeBi { kw with recon := true } a b { kw with recon := false } a b := by
  have h1 := C4_api_eq_core_reconcile_bi { kw with recon := true } a b rfl
  rw [C4_reconcileBi_id_of_valid h] at h1
  exact h1

example : C4_Valid 0 4 [⟨[1, 2, 3], 0, 4⟩, ⟨[0, 4], 0, 4⟩, ⟨[], 0, 4⟩] := by
  intro t ht
  simp only [List.mem_cons, List.not_mem_nil, or_false] at ht
  rcases ht with rfl | rfl | rfl
  · exact ⟨rfl, rfl, by decide, by decide⟩
  · exact ⟨rfl, rfl, by decide, by decide⟩
  · exact ⟨rfl, rfl, by simp, by simp⟩

/-- usage: e.g. the SPIKE-Sync filter on valid input -/
example (kw : Kw) (thr : Q) (L : List Train) (ts te : Q) (h : C4_Valid ts te L) :
    filterBySync { kw with recon := true } thr L = filterBySync { kw with recon := false } thr L :=
  (api_reconcile_switch_irrelevant kw L ts te h).filterBySync thr

end PySpike
