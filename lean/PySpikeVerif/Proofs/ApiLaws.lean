/-
  Proofs/ApiLaws.lean — algebra of the API layer: pair lists, divide-and-conquer = left fold,
  `indices` = sub-list selection, two trains vs a list of two, distance matrices.
-/
import PySpikeVerif.Model.Api
import PySpikeVerif.Proofs.Basic
import Mathlib.Tactic.Ring
import Mathlib.Tactic.Linarith
import Mathlib.Data.List.Basic
import Mathlib.Algebra.Order.Field.Rat

namespace PySpike

/-! ## 1. pair lists -/

theorem pairsOf_length_two_mul (l : List Nat) :
    2 * (pairsOf l).length = l.length * (l.length - 1) := by
  induction l with
  | nil => simp [pairsOf]
  | cons i r ih =>
    simp only [pairsOf, List.length_append, List.length_map, List.length_cons, Nat.add_sub_cancel]
    rw [Nat.mul_add, ih]
    cases r.length with
    | zero => simp
    | succ m => simp only [Nat.add_sub_cancel]; ring

theorem pairsOf_length (l : List Nat) : (pairsOf l).length = l.length * (l.length - 1) / 2 := by
  have := pairsOf_length_two_mul l
  omega

example : (pairsOf [4, 7, 9, 2]).length = 4 * (4 - 1) / 2 := by decide

theorem pairsOf_map (f : Nat → Nat) (l : List Nat) :
    pairsOf (l.map f) = (pairsOf l).map fun p => (f p.1, f p.2) := by
  induction l with
  | nil => simp [pairsOf]
  | cons i r ih => simp [pairsOf, ih, List.map_map, Function.comp_def]

theorem map_getD_range (idx : List Nat) :
    (List.range idx.length).map (fun k => idx.getD k 0) = idx := by
  apply List.ext_getElem
  · simp
  · intro i h1 h2
    simp at h1
    simp [h1]

theorem pairsOf_range_get (idx : List Nat) :
    pairsOf idx = (posPairs idx.length).map fun p => (idx.getD p.1 0, idx.getD p.2 0) := by
  unfold posPairs
  rw [← pairsOf_map (fun k => idx.getD k 0), map_getD_range]

example : pairsOf [4, 7, 9] = (posPairs 3).map fun p => ([4, 7, 9].getD p.1 0, [4, 7, 9].getD p.2 0) := by
  decide

theorem mem_pairsOf {l : List Nat} {p : Nat × Nat} (h : p ∈ pairsOf l) : p.1 ∈ l ∧ p.2 ∈ l := by
  induction l with
  | nil => simp [pairsOf] at h
  | cons i r ih =>
    simp only [pairsOf, List.mem_append, List.mem_map] at h
    rcases h with ⟨j, hj, rfl⟩ | h
    · simp [hj]
    · have := ih h
      simp [this.1, this.2]

theorem mem_posPairs {n : Nat} {p : Nat × Nat} (h : p ∈ posPairs n) : p.1 < n ∧ p.2 < n := by
  have := mem_pairsOf h
  simpa using this

theorem pairsOf_ne_nil {l : List Nat} (h : 2 ≤ l.length) : pairsOf l ≠ [] := by
  match l, h with
  | a :: b :: r, _ => simp [pairsOf]

theorem posPairs_length (n : Nat) : (posPairs n).length = n * (n - 1) / 2 := by
  simp [posPairs, pairsOf_length]

/-! ## 3. divide-and-conquer under re-indexing -/

theorem take_half_ne_nil {α} {l : List α} (h : l.length > 1) : l.take (l.length / 2) ≠ [] := by
  intro h0
  have := congrArg List.length h0
  rw [List.length_take, List.length_nil] at this
  omega

theorem drop_half_ne_nil {α} {l : List α} (h : l.length > 1) : l.drop (l.length / 2) ≠ [] := by
  intro h0
  have := congrArg List.length h0
  rw [List.length_drop, List.length_nil] at this
  omega

theorem headD_map_of_ne_nil {α β} (g : α → β) (l : List α) (d : α) (d' : β) (h : l ≠ []) :
    (l.map g).headD d' = g (l.headD d) := by
  cases l with
  | nil => exact absurd rfl h
  | cons a r => rfl

/-- the recursion only looks at the listed pairs: re-indexing the pairs through `g` and the leaf
    through `leaf ∘ g` commute (both lists non-empty, as in every call made by the code) -/
theorem divideAndConquer_map {P} (add : P → P → P) (leaf leaf' : Nat × Nat → P)
    (g : Nat × Nat → Nat × Nat) (fuel : Nat) :
    ∀ (p1 p2 : List (Nat × Nat)), p1 ≠ [] → p2 ≠ [] →
      (∀ p ∈ p1, leaf' p = leaf (g p)) → (∀ p ∈ p2, leaf' p = leaf (g p)) →
      divideAndConquer add leaf' fuel p1 p2 = divideAndConquer add leaf fuel (p1.map g) (p2.map g) := by
  induction fuel with
  | zero =>
    intro p1 p2 h1 _ hl1 _
    simp only [divideAndConquer]
    rw [headD_map_of_ne_nil g p1 (0, 0) (0, 0) h1]
    cases p1 with
    | nil => exact absurd rfl h1
    | cons a r => exact hl1 a (by simp)
  | succ fuel ih =>
    intro p1 p2 h1 h2 hl1 hl2
    simp only [divideAndConquer, List.length_map]
    have hd : ∀ (q : List (Nat × Nat)), q ≠ [] → (∀ p ∈ q, leaf' p = leaf (g p)) →
        (if q.length > 1 then
          divideAndConquer add leaf' fuel (q.take (q.length / 2)) (q.drop (q.length / 2))
         else leaf' (q.headD (0, 0))) =
        (if q.length > 1 then
          divideAndConquer add leaf fuel ((q.map g).take (q.length / 2)) ((q.map g).drop (q.length / 2))
         else leaf ((q.map g).headD (0, 0))) := by
      intro q hq hl
      by_cases hlen : q.length > 1
      · rw [if_pos hlen, if_pos hlen, ← List.map_take, ← List.map_drop]
        exact ih _ _ (take_half_ne_nil hlen) (drop_half_ne_nil hlen)
          (fun p hp => hl p (List.mem_of_mem_take hp)) (fun p hp => hl p (List.mem_of_mem_drop hp))
      · rw [if_neg hlen, if_neg hlen, headD_map_of_ne_nil g q (0, 0) (0, 0) hq]
        cases q with
        | nil => exact absurd rfl hq
        | cons a r => exact hl a (by simp)
    rw [hd p1 h1 hl1, hd p2 h2 hl2]

/-- general re-indexing lemma for `genericProfileMulti` (pair list non-empty) -/
theorem genericProfileMulti_reindex {P} (add : P → P → P) (leaf leaf' : Nat × Nat → P)
    (g : Nat × Nat → Nat × Nat) (idx idx' : List Nat)
    (hne : pairsOf idx' ≠ []) (hp : pairsOf idx = (pairsOf idx').map g)
    (hl : ∀ p ∈ pairsOf idx', leaf' p = leaf (g p)) :
    genericProfileMulti add leaf idx = genericProfileMulti add leaf' idx' := by
  unfold genericProfileMulti
  simp only [hp, List.length_map]
  by_cases hlen : (pairsOf idx').length > 1
  · rw [if_pos hlen, if_pos hlen, ← List.map_take, ← List.map_drop]
    rw [divideAndConquer_map add leaf leaf' g _ _ _ (take_half_ne_nil hlen) (drop_half_ne_nil hlen)
      (fun p hp => hl p (List.mem_of_mem_take hp)) (fun p hp => hl p (List.mem_of_mem_drop hp))]
  · rw [if_neg hlen, if_neg hlen, headD_map_of_ne_nil g _ (0, 0) (0, 0) hne]
    cases hq : pairsOf idx' with
    | nil => exact absurd hq hne
    | cons a r => rw [hq] at hl; simp only [List.headD_cons]; rw [hl a (by simp)]

/-- ORIGINAL statement (no hypothesis on `idx`) is false for `idx.length = 1`: e.g. `idx = [5]` has
    no pairs, the model then evaluates `leaf (0,0)` on the left but `leaf (5,5)` on the right (the
    code itself has no defined result for an empty pair list).  With `idx.length ≠ 1`: -/
theorem genericProfileMulti_map_idx {P} (add : P → P → P) (leaf : Nat × Nat → P) (idx : List Nat)
    (h1 : idx.length ≠ 1) :
    genericProfileMulti add leaf idx =
      genericProfileMulti add (fun p => leaf (idx.getD p.1 0, idx.getD p.2 0))
        (List.range idx.length) := by
  by_cases h0 : idx.length = 0
  · have : idx = [] := List.eq_nil_of_length_eq_zero h0
    subst this
    simp [genericProfileMulti, pairsOf]
  · have h2 : 2 ≤ (List.range idx.length).length := by simp; omega
    exact genericProfileMulti_reindex add leaf _ (fun p => (idx.getD p.1 0, idx.getD p.2 0)) idx
      (List.range idx.length) (pairsOf_ne_nil h2) (pairsOf_range_get idx) (fun _ _ => rfl)

example : ([4, 7, 9] : List Nat).length ≠ 1 := by decide

/-- the statement without `idx.length ≠ 1` fails -/
example : genericProfileMulti Nat.add (fun p => p.1 + p.2) [5] ≠
    genericProfileMulti Nat.add (fun p => ([5] : List Nat).getD p.1 0 + ([5] : List Nat).getD p.2 0)
      (List.range ([5] : List Nat).length) := by decide

/-! ## 2. divide-and-conquer computes the left fold -/

/-- left fold of the leaves of a non-empty pair list -/
def foldLeaves {P} (add : P → P → P) (leaf : Nat × Nat → P) : List (Nat × Nat) → P
  | [] => leaf (0, 0)
  | p :: ps => (ps.map leaf).foldl add (leaf p)

theorem foldl_add_assoc {P} (add : P → P → P) (hassoc : ∀ a b c, add (add a b) c = add a (add b c))
    (a b : P) (l : List P) : l.foldl add (add a b) = add a (l.foldl add b) := by
  induction l generalizing b with
  | nil => rfl
  | cons c r ih => simp only [List.foldl_cons]; rw [hassoc, ih]

theorem foldLeaves_append {P} (add : P → P → P) (leaf : Nat × Nat → P)
    (hassoc : ∀ a b c, add (add a b) c = add a (add b c))
    (l1 l2 : List (Nat × Nat)) (h1 : l1 ≠ []) (h2 : l2 ≠ []) :
    foldLeaves add leaf (l1 ++ l2) = add (foldLeaves add leaf l1) (foldLeaves add leaf l2) := by
  cases l1 with
  | nil => exact absurd rfl h1
  | cons a r =>
    cases l2 with
    | nil => exact absurd rfl h2
    | cons b s =>
      simp only [foldLeaves, List.cons_append, List.map_append, List.map_cons, List.foldl_append,
        List.foldl_cons]
      rw [foldl_add_assoc add hassoc]

theorem divideAndConquer_eq_foldLeaves {P} (add : P → P → P) (leaf : Nat × Nat → P)
    (hassoc : ∀ a b c, add (add a b) c = add a (add b c)) (fuel : Nat) :
    ∀ (p1 p2 : List (Nat × Nat)), p1 ≠ [] → p2 ≠ [] → p1.length + p2.length ≤ fuel →
      divideAndConquer add leaf fuel p1 p2 = foldLeaves add leaf (p1 ++ p2) := by
  induction fuel with
  | zero =>
    intro p1 p2 h1 _ hlen
    have : p1.length = 0 := by omega
    exact absurd (List.eq_nil_of_length_eq_zero this) h1
  | succ fuel ih =>
    intro p1 p2 h1 h2 hlen
    have hp1 : 0 < p1.length := List.length_pos_iff.mpr h1
    have hp2 : 0 < p2.length := List.length_pos_iff.mpr h2
    have hd : ∀ (q : List (Nat × Nat)), q ≠ [] → q.length ≤ fuel →
        (if q.length > 1 then
          divideAndConquer add leaf fuel (q.take (q.length / 2)) (q.drop (q.length / 2))
         else leaf (q.headD (0, 0))) = foldLeaves add leaf q := by
      intro q hq hql
      by_cases hlen : q.length > 1
      · rw [if_pos hlen, ih _ _ (take_half_ne_nil hlen) (drop_half_ne_nil hlen)
          (by simp; omega), List.take_append_drop]
      · rw [if_neg hlen]
        match q, hq, hlen with
        | [a], _, _ => rfl
        | a :: b :: r, _, hlen => simp at hlen
    simp only [divideAndConquer]
    rw [hd p1 h1 (by omega), hd p2 h2 (by omega), foldLeaves_append add leaf hassoc _ _ h1 h2]

theorem genericProfileMulti_snd {P} (add : P → P → P) (leaf : Nat × Nat → P) (idx : List Nat) :
    (genericProfileMulti add leaf idx).2 = (pairsOf idx).length := by
  unfold genericProfileMulti
  dsimp only
  split <;> rfl

/-- the recursive halving of `_generic_profile_multi` computes the left fold of the pair profiles,
    for an associative `add` -/
theorem divideAndConquer_eq_fold {P} (add : P → P → P) (leaf : Nat × Nat → P)
    (hassoc : ∀ a b c, add (add a b) c = add a (add b c)) (idx : List Nat)
    (p : Nat × Nat) (ps : List (Nat × Nat)) (hp : pairsOf idx = p :: ps) :
    (genericProfileMulti add leaf idx).1 = (ps.map leaf).foldl add (leaf p) := by
  unfold genericProfileMulti
  dsimp only
  by_cases hlen : (pairsOf idx).length > 1
  · rw [if_pos hlen]
    dsimp only
    rw [divideAndConquer_eq_foldLeaves add leaf hassoc _ _ _ (take_half_ne_nil hlen)
      (drop_half_ne_nil hlen) (by simp; omega), List.take_append_drop, hp]
    rfl
  · rw [if_neg hlen]
    rw [hp] at hlen ⊢
    cases ps with
    | nil => rfl
    | cons b r => simp at hlen

example : pairsOf [4, 7, 9] = (4, 7) :: [(4, 9), (7, 9)] := by decide
example : ∀ a b c : Nat, (a + b) + c = a + (b + c) := Nat.add_assoc
example : (genericProfileMulti Nat.add (fun p => 10 * p.1 + p.2) [4, 7, 9, 2, 6]).1 =
    (([(4, 9), (4, 2), (4, 6), (7, 9), (7, 2), (7, 6), (9, 2), (9, 6), (2, 6)].map
      (fun p => 10 * p.1 + p.2)).foldl Nat.add (10 * 4 + 7)) := by decide

/-- variant restricted to a predicate closed under `add` on which `add` is associative -/
theorem foldl_add_assoc_on {P} (add : P → P → P) (S : P → Prop)
    (hclosed : ∀ a b, S a → S b → S (add a b))
    (hassoc : ∀ a b c, S a → S b → S c → add (add a b) c = add a (add b c))
    (a b : P) (l : List P) (ha : S a) (hb : S b) (hl : ∀ x ∈ l, S x) :
    l.foldl add (add a b) = add a (l.foldl add b) ∧ S (l.foldl add b) := by
  induction l generalizing b with
  | nil => exact ⟨rfl, hb⟩
  | cons c r ih =>
    simp only [List.foldl_cons]
    have hc := hl c (by simp)
    have := ih (add b c) (hclosed b c hb hc) (fun x hx => hl x (by simp [hx]))
    rw [hassoc a b c ha hb hc]
    exact this

theorem foldLeaves_mem_on {P} (add : P → P → P) (leaf : Nat × Nat → P) (S : P → Prop)
    (hclosed : ∀ a b, S a → S b → S (add a b))
    (l : List (Nat × Nat)) (h : l ≠ []) (hl : ∀ p ∈ l, S (leaf p)) : S (foldLeaves add leaf l) := by
  cases l with
  | nil => exact absurd rfl h
  | cons a r =>
    simp only [foldLeaves]
    have ha : S (leaf a) := hl a (by simp)
    have hr : ∀ p ∈ r, S (leaf p) := fun p hp => hl p (by simp [hp])
    clear hl h
    generalize leaf a = x at ha
    induction r generalizing x with
    | nil => exact ha
    | cons b t ih =>
      simp only [List.map_cons, List.foldl_cons]
      exact ih (fun p hp => hr p (by simp [hp])) _ (hclosed _ _ ha (hr b (by simp)))

theorem foldLeaves_append_on {P} (add : P → P → P) (leaf : Nat × Nat → P) (S : P → Prop)
    (hclosed : ∀ a b, S a → S b → S (add a b))
    (hassoc : ∀ a b c, S a → S b → S c → add (add a b) c = add a (add b c))
    (l1 l2 : List (Nat × Nat)) (h1 : l1 ≠ []) (h2 : l2 ≠ [])
    (hl1 : ∀ p ∈ l1, S (leaf p)) (hl2 : ∀ p ∈ l2, S (leaf p)) :
    foldLeaves add leaf (l1 ++ l2) = add (foldLeaves add leaf l1) (foldLeaves add leaf l2) := by
  have hS1 := foldLeaves_mem_on add leaf S hclosed l1 h1 hl1
  cases l1 with
  | nil => exact absurd rfl h1
  | cons a r =>
    cases l2 with
    | nil => exact absurd rfl h2
    | cons b s =>
      simp only [foldLeaves, List.cons_append, List.map_append, List.map_cons, List.foldl_append,
        List.foldl_cons] at hS1 ⊢
      exact (foldl_add_assoc_on add S hclosed hassoc _ _ _ hS1 (hl2 b (by simp))
        (by
          intro x hx
          obtain ⟨p, hp, rfl⟩ := List.mem_map.mp hx
          exact hl2 p (by simp [hp]))).1

theorem divideAndConquer_eq_foldLeaves_on {P} (add : P → P → P) (leaf : Nat × Nat → P)
    (S : P → Prop) (hclosed : ∀ a b, S a → S b → S (add a b))
    (hassoc : ∀ a b c, S a → S b → S c → add (add a b) c = add a (add b c)) (fuel : Nat) :
    ∀ (p1 p2 : List (Nat × Nat)), p1 ≠ [] → p2 ≠ [] → p1.length + p2.length ≤ fuel →
      (∀ p ∈ p1, S (leaf p)) → (∀ p ∈ p2, S (leaf p)) →
      divideAndConquer add leaf fuel p1 p2 = foldLeaves add leaf (p1 ++ p2) := by
  induction fuel with
  | zero =>
    intro p1 p2 h1 _ hlen
    have : p1.length = 0 := by omega
    exact absurd (List.eq_nil_of_length_eq_zero this) h1
  | succ fuel ih =>
    intro p1 p2 h1 h2 hlen hl1 hl2
    have hp1 : 0 < p1.length := List.length_pos_iff.mpr h1
    have hp2 : 0 < p2.length := List.length_pos_iff.mpr h2
    have hd : ∀ (q : List (Nat × Nat)), q ≠ [] → q.length ≤ fuel → (∀ p ∈ q, S (leaf p)) →
        (if q.length > 1 then
          divideAndConquer add leaf fuel (q.take (q.length / 2)) (q.drop (q.length / 2))
         else leaf (q.headD (0, 0))) = foldLeaves add leaf q := by
      intro q hq hql hlq
      by_cases hlen : q.length > 1
      · rw [if_pos hlen, ih _ _ (take_half_ne_nil hlen) (drop_half_ne_nil hlen)
          (by simp; omega) (fun p hp => hlq p (List.mem_of_mem_take hp))
          (fun p hp => hlq p (List.mem_of_mem_drop hp)), List.take_append_drop]
      · rw [if_neg hlen]
        match q, hq, hlen with
        | [a], _, _ => rfl
        | a :: b :: r, _, hlen => simp at hlen
    simp only [divideAndConquer]
    rw [hd p1 h1 (by omega) hl1, hd p2 h2 (by omega) hl2,
      foldLeaves_append_on add leaf S hclosed hassoc _ _ h1 h2 hl1 hl2]

/-- `divideAndConquer_eq_fold` with associativity only on a predicate `S` closed under `add`
    that holds for all pair profiles (e.g. well-formed functions on a common interval) -/
theorem divideAndConquer_eq_fold_on {P} (add : P → P → P) (leaf : Nat × Nat → P)
    (S : P → Prop) (hclosed : ∀ a b, S a → S b → S (add a b))
    (hassoc : ∀ a b c, S a → S b → S c → add (add a b) c = add a (add b c)) (idx : List Nat)
    (hleaf : ∀ q ∈ pairsOf idx, S (leaf q))
    (p : Nat × Nat) (ps : List (Nat × Nat)) (hp : pairsOf idx = p :: ps) :
    (genericProfileMulti add leaf idx).1 = (ps.map leaf).foldl add (leaf p) ∧
      S (genericProfileMulti add leaf idx).1 := by
  have hfold : (genericProfileMulti add leaf idx).1 = foldLeaves add leaf (pairsOf idx) := by
    unfold genericProfileMulti
    dsimp only
    by_cases hlen : (pairsOf idx).length > 1
    · rw [if_pos hlen]
      dsimp only
      rw [divideAndConquer_eq_foldLeaves_on add leaf S hclosed hassoc _ _ _ (take_half_ne_nil hlen)
        (drop_half_ne_nil hlen) (by simp; omega)
        (fun q hq => hleaf q (List.mem_of_mem_take hq))
        (fun q hq => hleaf q (List.mem_of_mem_drop hq)), List.take_append_drop]
    · rw [if_neg hlen]
      rw [hp] at hlen ⊢
      cases ps with
      | nil => rfl
      | cons b r => simp at hlen
  have hne : pairsOf idx ≠ [] := by rw [hp]; simp
  refine ⟨?_, ?_⟩
  · rw [hfold, hp]; rfl
  · rw [hfold]; exact foldLeaves_mem_on add leaf S hclosed _ hne hleaf

/-! ## 4. call forms: `indices` = selecting the sub-list -/

theorem Kw.noRecon_eq (kw : Kw) (h : kw.recon = false) : kw.noRecon = kw := by
  cases kw
  simp only [Kw.noRecon] at h ⊢
  simp [h]

theorem prep_of_recon_false (kw : Kw) (L : List Train) (h : kw.recon = false) : prep kw L = L := by
  simp [prep, h]

theorem tr_map_tr (L : List Train) (idx : List Nat) (k : Nat) (hk : k < idx.length) :
    tr (idx.map (tr L)) k = tr L (idx.getD k 0) := by
  simp [tr, hk]

theorem genericProfileMulti_indices {P} (add : P → P → P) (F : Train → Train → P)
    (L : List Train) (idx : List Nat) (h2 : 2 ≤ idx.length) :
    genericProfileMulti add (fun p => F (tr L p.1) (tr L p.2)) idx =
      genericProfileMulti add (fun p => F (tr (idx.map (tr L)) p.1) (tr (idx.map (tr L)) p.2))
        (List.range (idx.map (tr L)).length) := by
  rw [List.length_map]
  have h2' : 2 ≤ (List.range idx.length).length := by simpa using h2
  refine genericProfileMulti_reindex add _ _ (fun p => (idx.getD p.1 0, idx.getD p.2 0)) idx
    (List.range idx.length) (pairsOf_ne_nil h2') (pairsOf_range_get idx) ?_
  intro p hp
  have := mem_posPairs hp
  simp only [tr_map_tr L idx _ this.1, tr_map_tr L idx _ this.2]

theorem genericDistanceMulti_indices (dist : Train → Train → Option Q) (L : List Train)
    (idx : List Nat) :
    genericDistanceMulti dist idx L =
      genericDistanceMulti dist (List.range (idx.map (tr L)).length) (idx.map (tr L)) := by
  unfold genericDistanceMulti
  rw [List.length_map]
  have hpp : pairsOf (List.range idx.length) = posPairs idx.length := rfl
  simp only [hpp, pairsOf_range_get idx, List.map_map, List.length_map]
  congr 2
  apply List.map_congr_left
  intro p hp
  have := mem_posPairs hp
  simp only [Function.comp_def, tr_map_tr L idx _ this.1, tr_map_tr L idx _ this.2]

theorem mapM_option_congr {α β} (f g : α → Option β) (l : List α) (h : ∀ x ∈ l, f x = g x) :
    l.mapM f = l.mapM g := by
  induction l with
  | nil => rfl
  | cons a r ih =>
    rw [List.mapM_cons, List.mapM_cons, h a (by simp), ih (fun x hx => h x (by simp [hx]))]

theorem getD_range (n i : Nat) (h : i < n) : (List.range n).getD i 0 = i := by
  simp [h]

theorem genericDistanceMatrix_indices (dist : Train → Train → Option Q) (diag sign : Q)
    (L : List Train) (idx : List Nat) :
    genericDistanceMatrix dist diag sign idx L =
      genericDistanceMatrix dist diag sign (List.range (idx.map (tr L)).length) (idx.map (tr L)) := by
  unfold genericDistanceMatrix
  simp only [List.length_map, List.length_range]
  apply mapM_option_congr
  intro i hi
  apply mapM_option_congr
  intro j hj
  have hi' : i < idx.length := List.mem_range.mp hi
  have hj' : j < idx.length := List.mem_range.mp hj
  rw [getD_range _ _ hi', getD_range _ _ hj', tr_map_tr L idx _ hi', tr_map_tr L idx _ hj']

/-- `idxValid` is not needed for the equations (an out-of-range index selects the default train on
    both sides); it is kept as in the property statement.  For the profile forms at least two
    indices are required: with fewer the pair list is empty and the model falls back to
    `leaf (0,0)`, which reads different trains on the two sides (the code has no result there). -/
theorem isiProfileMulti_indices (kw : Kw) (idx : List Nat) (L : List Train)
    (hr : kw.recon = false) (_hv : idxValid idx L.length) (h2 : 2 ≤ idx.length) :
    isiProfileMulti kw (some idx) L = isiProfileMulti kw none (idx.map (tr L)) := by
  unfold isiProfileMulti
  simp only [prep_of_recon_false kw _ hr, resolveIdx]
  rw [genericProfileMulti_indices Pwc.add (isiProfileBi kw.noRecon) L idx h2]

theorem spikeProfileMulti_indices (kw : Kw) (idx : List Nat) (L : List Train)
    (hr : kw.recon = false) (_hv : idxValid idx L.length) (h2 : 2 ≤ idx.length) :
    spikeProfileMulti kw (some idx) L = spikeProfileMulti kw none (idx.map (tr L)) := by
  unfold spikeProfileMulti
  simp only [prep_of_recon_false kw _ hr, resolveIdx]
  rw [genericProfileMulti_indices Pwl.add (spikeProfileBi kw.noRecon) L idx h2]

theorem syncProfileMulti_indices (kw : Kw) (idx : List Nat) (L : List Train)
    (hr : kw.recon = false) (_hv : idxValid idx L.length) (h2 : 2 ≤ idx.length) :
    syncProfileMulti kw (some idx) L = syncProfileMulti kw none (idx.map (tr L)) := by
  unfold syncProfileMulti
  simp only [prep_of_recon_false kw _ hr, resolveIdx]
  rw [genericProfileMulti_indices Disc.add (syncProfileBi kw.noRecon) L idx h2]

theorem orderProfileMulti_indices (kw : Kw) (idx : List Nat) (L : List Train)
    (hr : kw.recon = false) (_hv : idxValid idx L.length) (h2 : 2 ≤ idx.length) :
    orderProfileMulti kw (some idx) L = orderProfileMulti kw none (idx.map (tr L)) := by
  unfold orderProfileMulti
  simp only [prep_of_recon_false kw _ hr, resolveIdx]
  rw [genericProfileMulti_indices Disc.add (orderProfileBi kw.noRecon) L idx h2]

theorem isiDistanceMulti_indices (kw : Kw) (idx : List Nat) (L : List Train)
    (hr : kw.recon = false) (_hv : idxValid idx L.length) :
    isiDistanceMulti kw (some idx) L = isiDistanceMulti kw none (idx.map (tr L)) := by
  unfold isiDistanceMulti
  simp only [prep_of_recon_false kw _ hr, resolveIdx]
  exact genericDistanceMulti_indices _ L idx

theorem spikeDistanceMulti_indices (kw : Kw) (idx : List Nat) (L : List Train)
    (hr : kw.recon = false) (_hv : idxValid idx L.length) :
    spikeDistanceMulti kw (some idx) L = spikeDistanceMulti kw none (idx.map (tr L)) := by
  unfold spikeDistanceMulti
  simp only [prep_of_recon_false kw _ hr, resolveIdx]
  exact genericDistanceMulti_indices _ L idx

theorem isiDistanceMatrix_indices (kw : Kw) (idx : List Nat) (L : List Train)
    (hr : kw.recon = false) (_hv : idxValid idx L.length) :
    isiDistanceMatrix kw (some idx) L = isiDistanceMatrix kw none (idx.map (tr L)) := by
  unfold isiDistanceMatrix
  simp only [prep_of_recon_false kw _ hr, resolveIdx]
  exact genericDistanceMatrix_indices _ _ _ L idx

theorem spikeDistanceMatrix_indices (kw : Kw) (idx : List Nat) (L : List Train)
    (hr : kw.recon = false) (_hv : idxValid idx L.length) :
    spikeDistanceMatrix kw (some idx) L = spikeDistanceMatrix kw none (idx.map (tr L)) := by
  unfold spikeDistanceMatrix
  simp only [prep_of_recon_false kw _ hr, resolveIdx]
  exact genericDistanceMatrix_indices _ _ _ L idx

theorem spikeSyncMatrix_indices (kw : Kw) (idx : List Nat) (L : List Train)
    (hr : kw.recon = false) (_hv : idxValid idx L.length) :
    spikeSyncMatrix kw (some idx) L = spikeSyncMatrix kw none (idx.map (tr L)) := by
  unfold spikeSyncMatrix
  simp only [prep_of_recon_false kw _ hr, resolveIdx]
  exact genericDistanceMatrix_indices _ _ _ L idx

/-- pair lists mapped through a function of the two selected trains -/
theorem pairs_map_indices {β} (F : Train → Train → β) (L : List Train) (idx : List Nat) :
    (pairsOf idx).map (fun p => F (tr L p.1) (tr L p.2)) =
      (pairsOf (List.range (idx.map (tr L)).length)).map
        (fun p => F (tr (idx.map (tr L)) p.1) (tr (idx.map (tr L)) p.2)) := by
  rw [List.length_map]
  have hpp : pairsOf (List.range idx.length) = posPairs idx.length := rfl
  simp only [hpp, pairsOf_range_get idx, List.map_map]
  apply List.map_congr_left
  intro p hp
  have := mem_posPairs hp
  simp only [Function.comp_def, tr_map_tr L idx _ this.1, tr_map_tr L idx _ this.2]

theorem spikeSyncMulti_indices (kw : Kw) (idx : List Nat) (L : List Train)
    (hr : kw.recon = false) (_hv : idxValid idx L.length) :
    spikeSyncMulti kw (some idx) L = spikeSyncMulti kw none (idx.map (tr L)) := by
  unfold spikeSyncMulti
  simp only [prep_of_recon_false kw _ hr, resolveIdx]
  rw [pairs_map_indices (syncValues kw.noRecon) L idx]

theorem spikeTrainOrderMulti_indices (kw : Kw) (idx : List Nat) (L : List Train)
    (hr : kw.recon = false) (_hv : idxValid idx L.length) :
    spikeTrainOrderMulti kw (some idx) L = spikeTrainOrderMulti kw none (idx.map (tr L)) := by
  unfold spikeTrainOrderMulti
  simp only [prep_of_recon_false kw _ hr, resolveIdx]
  have key : ∀ (L' : List Train) (ps : List (Nat × Nat)) (a : Q × Q),
      ps.foldl (fun acc p => (acc.1 + (orderValues kw (tr L' p.1) (tr L' p.2)).1,
          acc.2 + (orderValues kw (tr L' p.1) (tr L' p.2)).2)) a =
      (ps.map fun p => orderValues kw (tr L' p.1) (tr L' p.2)).foldl
        (fun acc vm => (acc.1 + vm.1, acc.2 + vm.2)) a := by
    intro L' ps a
    rw [List.foldl_map]
  rw [key, key, pairs_map_indices (orderValues kw) L idx]

/-- with a single index the profile equation fails (empty pair list, fallback `leaf (0,0)`) -/
example : isiProfileMulti { recon := false } (some [1]) [⟨[1], 0, 2⟩, ⟨[1/2, 1], 0, 2⟩] ≠
    isiProfileMulti { recon := false } none ([1].map (tr [⟨[1], 0, 2⟩, ⟨[1/2, 1], 0, 2⟩])) := by
  decide +kernel

example : (({ recon := false } : Kw).recon = false) ∧
    idxValid [2, 0] ([⟨[1], 0, 2⟩, ⟨[], 0, 2⟩, ⟨[1/2, 3/2], 0, 2⟩] : List Train).length = true ∧
    2 ≤ ([2, 0] : List Nat).length := by decide

theorem foldl_congr_mem {α β} (f g : β → α → β) (l : List α) (b : β)
    (h : ∀ acc, ∀ x ∈ l, f acc x = g acc x) : l.foldl f b = l.foldl g b := by
  induction l generalizing b with
  | nil => rfl
  | cons a r ih =>
    simp only [List.foldl_cons]
    rw [h b a (by simp), ih _ (fun acc x hx => h acc x (by simp [hx]))]

theorem map_indices {β} (F : Train → β) (L : List Train) (idx : List Nat) :
    idx.map (fun k => F (tr L k)) =
      (List.range idx.length).map (fun k => F (tr (idx.map (tr L)) k)) := by
  conv_lhs => rw [← map_getD_range idx]
  rw [List.map_map]
  apply List.map_congr_left
  intro k hk
  simp only [Function.comp_def, tr_map_tr L idx k (List.mem_range.mp hk)]

theorem dirValues_indices (kw : Kw) (idx : List Nat) (L : List Train)
    (hr : kw.recon = false) (_hv : idxValid idx L.length) :
    dirValues kw (some idx) L = dirValues kw none (idx.map (tr L)) := by
  unfold dirValues
  simp only [prep_of_recon_false kw _ hr, resolveIdx, List.length_map, List.length_range]
  rw [map_indices (fun t => t.spikes.map fun _ => (0 : Q)) L idx]
  congr 1
  apply foldl_congr_mem
  intro acc p hp
  have := mem_posPairs hp
  rw [getD_range _ _ this.1, getD_range _ _ this.2, tr_map_tr L idx _ this.1,
    tr_map_tr L idx _ this.2]

theorem spikeDirectionalityMatrix_indices (kw : Kw) (normalize : Bool) (idx : List Nat)
    (L : List Train) (hr : kw.recon = false) (_hv : idxValid idx L.length) :
    spikeDirectionalityMatrix kw normalize (some idx) L =
      spikeDirectionalityMatrix kw normalize none (idx.map (tr L)) := by
  unfold spikeDirectionalityMatrix
  simp only [prep_of_recon_false kw _ hr, resolveIdx, List.length_map, List.length_range]
  apply List.map_congr_left
  intro i hi
  apply List.map_congr_left
  intro j hj
  have hi' : i < idx.length := List.mem_range.mp hi
  have hj' : j < idx.length := List.mem_range.mp hj
  rw [getD_range _ _ hi', getD_range _ _ hj', tr_map_tr L idx _ hi', tr_map_tr L idx _ hj']

/-! ## 5. two trains vs a list of two trains -/

theorem Pwc.mulScalar_one (f : Pwc) : f.mulScalar 1 = f := by
  cases f
  simp [Pwc.mulScalar]

theorem Pwl.mulScalar_one (f : Pwl) : f.mulScalar 1 = f := by
  cases f
  simp [Pwl.mulScalar]

theorem pairsOf_range_two : pairsOf (List.range 2) = [(0, 1)] := by decide

theorem genericProfileMulti_two {P} (add : P → P → P) (leaf : Nat × Nat → P) :
    genericProfileMulti add leaf (List.range 2) = (leaf (0, 1), 1) := by
  simp [genericProfileMulti, pairsOf_range_two]

/-- reconciling a list of two trains = reconciling the two trains -/
theorem prep_pair (kw : Kw) (a b : Train) :
    prep kw [a, b] = [(prepBi kw a b).1, (prepBi kw a b).2] := by
  cases h : kw.recon <;> simp [prep, prepBi, reconcileBi, reconcile, h]

theorem prepBi_noRecon (kw : Kw) (a b : Train) : prepBi kw.noRecon a b = (a, b) := by
  simp [prepBi, Kw.noRecon]

theorem isiProfileBi_prep (kw : Kw) (a b : Train) :
    isiProfileBi kw.noRecon (prepBi kw a b).1 (prepBi kw a b).2 = isiProfileBi kw a b := by
  simp only [isiProfileBi, prepBi_noRecon]
  rfl

theorem spikeProfileBi_prep (kw : Kw) (a b : Train) :
    spikeProfileBi kw.noRecon (prepBi kw a b).1 (prepBi kw a b).2 = spikeProfileBi kw a b := by
  simp only [spikeProfileBi, prepBi_noRecon]
  rfl

theorem syncProfileBi_prep (kw : Kw) (a b : Train) :
    syncProfileBi kw.noRecon (prepBi kw a b).1 (prepBi kw a b).2 = syncProfileBi kw a b := by
  simp only [syncProfileBi, prepBi_noRecon]
  rfl

theorem orderProfileBi_prep (kw : Kw) (a b : Train) :
    orderProfileBi kw.noRecon (prepBi kw a b).1 (prepBi kw a b).2 = orderProfileBi kw a b := by
  simp only [orderProfileBi, prepBi_noRecon]
  rfl

theorem isiDistanceBi_prep (kw : Kw) (a b : Train) :
    isiDistanceBi kw.noRecon (prepBi kw a b).1 (prepBi kw a b).2 = isiDistanceBi kw a b := by
  simp only [isiDistanceBi, isiProfileBi_prep]
  rfl

theorem spikeDistanceBi_prep (kw : Kw) (a b : Train) :
    spikeDistanceBi kw.noRecon (prepBi kw a b).1 (prepBi kw a b).2 = spikeDistanceBi kw a b := by
  simp only [spikeDistanceBi, spikeProfileBi_prep]
  rfl

theorem syncValues_prep (kw : Kw) (a b : Train) :
    syncValues kw.noRecon (prepBi kw a b).1 (prepBi kw a b).2 = syncValues kw a b := by
  simp only [syncValues, syncProfileBi_prep]
  rfl

theorem length_pair {α} (a b : α) : [a, b].length = 2 := rfl
theorem tr_pair_zero (a b : Train) : tr [a, b] 0 = a := rfl
theorem tr_pair_one (a b : Train) : tr [a, b] 1 = b := rfl

/-- holds for every `kw` (with and without reconciliation) -/
theorem isiProfileMulti_pair (kw : Kw) (a b : Train) :
    isiProfileMulti kw none [a, b] = isiProfileBi kw a b := by
  unfold isiProfileMulti
  simp only [prep_pair, resolveIdx, length_pair, genericProfileMulti_two,
    tr_pair_zero, tr_pair_one, isiProfileBi_prep]
  norm_num [Pwc.mulScalar_one]

theorem spikeProfileMulti_pair (kw : Kw) (a b : Train) :
    spikeProfileMulti kw none [a, b] = spikeProfileBi kw a b := by
  unfold spikeProfileMulti
  simp only [prep_pair, resolveIdx, length_pair, genericProfileMulti_two,
    tr_pair_zero, tr_pair_one, spikeProfileBi_prep]
  norm_num [Pwl.mulScalar_one]

theorem syncProfileMulti_pair (kw : Kw) (a b : Train) :
    syncProfileMulti kw none [a, b] = syncProfileBi kw a b := by
  unfold syncProfileMulti
  simp only [prep_pair, resolveIdx, length_pair, genericProfileMulti_two,
    tr_pair_zero, tr_pair_one, syncProfileBi_prep]

theorem orderProfileMulti_pair (kw : Kw) (a b : Train) :
    orderProfileMulti kw none [a, b] = orderProfileBi kw a b := by
  unfold orderProfileMulti
  simp only [prep_pair, resolveIdx, length_pair, genericProfileMulti_two,
    tr_pair_zero, tr_pair_one, orderProfileBi_prep]

theorem genericDistanceMulti_two (dist : Train → Train → Option Q) (a b : Train) :
    genericDistanceMulti dist (List.range 2) [a, b] = dist a b := by
  simp only [genericDistanceMulti, pairsOf_range_two, List.map_cons, List.map_nil, tr_pair_zero,
    tr_pair_one, List.length_cons, List.length_nil]
  cases dist a b with
  | none => rfl
  | some v => simp [sumOpt]

theorem isiDistanceMulti_pair (kw : Kw) (a b : Train) :
    isiDistanceMulti kw none [a, b] = isiDistanceBi kw a b := by
  unfold isiDistanceMulti
  simp only [prep_pair, resolveIdx, length_pair, genericDistanceMulti_two,
    isiDistanceBi_prep]

theorem spikeDistanceMulti_pair (kw : Kw) (a b : Train) :
    spikeDistanceMulti kw none [a, b] = spikeDistanceBi kw a b := by
  unfold spikeDistanceMulti
  simp only [prep_pair, resolveIdx, length_pair, genericDistanceMulti_two,
    spikeDistanceBi_prep]

theorem spikeSyncMulti_pair (kw : Kw) (a b : Train) :
    spikeSyncMulti kw none [a, b] = spikeSyncBi kw a b := by
  unfold spikeSyncMulti spikeSyncBi
  simp only [prep_pair, resolveIdx, length_pair, pairsOf_range_two,
    List.map_cons, List.map_nil, tr_pair_zero, tr_pair_one, syncValues_prep]
  cases syncValues kw a b with
  | none => rfl
  | some v => simp [sumOpt2]


/-! ## reconciliation is idempotent (needed for `spikeTrainOrderMulti` of two reconciled trains) -/

theorem mem_of_mem_dedupAdj : ∀ (l : List Q) (x : Q), x ∈ dedupAdj l → x ∈ l := by
  intro l
  induction l using dedupAdj.induct with
  | case1 => intro x h; simp [dedupAdj] at h
  | case2 a => intro x h; simpa [dedupAdj] using h
  | case3 a r ih =>
    intro x h
    rw [dedupAdj, if_pos rfl] at h
    exact List.mem_cons_of_mem _ (ih x h)
  | case4 a b r hab ih =>
    intro x h
    rw [dedupAdj, if_neg hab] at h
    rcases List.mem_cons.mp h with h | h
    · simp [h]
    · exact List.mem_cons_of_mem _ (ih x h)

theorem dedupAdj_pairwise_lt : ∀ (l : List Q), l.Pairwise (· ≤ ·) → (dedupAdj l).Pairwise (· < ·) := by
  intro l
  induction l using dedupAdj.induct with
  | case1 => intro _; simp [dedupAdj]
  | case2 a => intro _; simp [dedupAdj]
  | case3 a r ih =>
    intro h
    rw [dedupAdj, if_pos rfl]
    exact ih (List.pairwise_cons.mp h).2
  | case4 a b r hab ih =>
    intro h
    rw [dedupAdj, if_neg hab]
    have h' := List.pairwise_cons.mp h
    refine List.pairwise_cons.mpr ⟨?_, ih h'.2⟩
    intro x hx
    have hx' := mem_of_mem_dedupAdj _ _ hx
    have hab' : a < b := lt_of_le_of_ne (h'.1 b (by simp)) hab
    rcases List.mem_cons.mp hx' with hxb | hxr
    · rw [hxb]; exact hab'
    · exact lt_of_lt_of_le hab' ((List.pairwise_cons.mp h'.2).1 x hxr)

theorem dedupAdj_of_pairwise_lt : ∀ (l : List Q), l.Pairwise (· < ·) → dedupAdj l = l := by
  intro l
  induction l using dedupAdj.induct with
  | case1 => intro _; rfl
  | case2 a => intro _; rfl
  | case3 a r ih =>
    intro h
    have := (List.pairwise_cons.mp h).1 a (by simp)
    exact absurd this (lt_irrefl a)
  | case4 a b r hab ih =>
    intro h
    rw [dedupAdj, if_neg hab, ih (List.pairwise_cons.mp h).2]

theorem sortQ_pairwise (l : List Q) : (sortQ l).Pairwise (· ≤ ·) := by
  have := List.pairwise_mergeSort (le := fun a b : Q => decide (a ≤ b))
    (by intro a b c; simp only [decide_eq_true_eq]; exact le_trans)
    (by intro a b; simp only [Bool.or_eq_true, decide_eq_true_eq]; exact le_total a b) l
  simpa [sortQ] using this

theorem uniqueQ_pairwise (l : List Q) : (uniqueQ l).Pairwise (· < ·) :=
  dedupAdj_pairwise_lt _ (sortQ_pairwise l)

theorem uniqueQ_of_pairwise_lt (l : List Q) (h : l.Pairwise (· < ·)) : uniqueQ l = l := by
  unfold uniqueQ
  have hs : sortQ l = l := by
    unfold sortQ
    apply List.mergeSort_of_pairwise
    exact h.imp (fun hab => by simpa using le_of_lt hab)
  rw [hs, dedupAdj_of_pairwise_lt l h]

theorem foldl_min_const (c : Q) (n : Nat) : (List.replicate n c).foldl min c = c := by
  induction n with
  | zero => rfl
  | succ k ih => simp [List.replicate_succ, ih]

theorem foldl_max_const (c : Q) (n : Nat) : (List.replicate n c).foldl max c = c := by
  induction n with
  | zero => rfl
  | succ k ih => simp [List.replicate_succ, ih]

theorem map_const_eq_replicate {α β} (l : List α) (c : β) :
    l.map (fun _ => c) = List.replicate l.length c := by
  induction l with
  | nil => rfl
  | cons a r ih => simp [List.replicate_succ, ih]

/-- `reconcile_spike_trains` is idempotent -/
theorem reconcile_idem_A7 (L : List Train) : reconcile (reconcile L) = reconcile L := by
  cases L with
  | nil => rfl
  | cons a r =>
    have hts : minList 0 ((reconcile (a :: r)).map (·.ts)) = minList 0 ((a :: r).map (·.ts)) := by
      simp only [reconcile, List.map_map, Function.comp_def, List.map_cons]
      rw [map_const_eq_replicate]
      conv_lhs => rw [minList]
      exact foldl_min_const _ _
    have hte : maxList 0 ((reconcile (a :: r)).map (·.te)) = maxList 0 ((a :: r).map (·.te)) := by
      simp only [reconcile, List.map_map, Function.comp_def, List.map_cons]
      rw [map_const_eq_replicate]
      conv_lhs => rw [maxList]
      exact foldl_max_const _ _
    conv_lhs => rw [reconcile]
    simp only [hts, hte]
    conv_lhs => rw [reconcile]
    conv_rhs => rw [reconcile]
    rw [List.map_map]
    apply List.map_congr_left
    intro s _
    simp only [Function.comp_def]
    rw [uniqueQ_of_pairwise_lt _ ((uniqueQ_pairwise s.spikes).filter _), List.filter_filter]
    simp

theorem reconcileBi_eq_A7 (a b : Train) : [(reconcileBi a b).1, (reconcileBi a b).2] = reconcile [a, b] := by
  simp [reconcileBi, reconcile]

theorem reconcileBi_idem (a b : Train) :
    reconcileBi (reconcileBi a b).1 (reconcileBi a b).2 = reconcileBi a b := by
  have h := reconcile_idem_A7 [a, b]
  rw [← reconcileBi_eq_A7 a b] at h
  have h2 := reconcileBi_eq_A7 (reconcileBi a b).1 (reconcileBi a b).2
  rw [h] at h2
  simp only [List.cons.injEq, and_true] at h2
  exact Prod.ext h2.1 h2.2

theorem orderValues_prep (kw : Kw) (a b : Train) :
    orderValues kw (prepBi kw a b).1 (prepBi kw a b).2 = orderValues kw a b := by
  cases h : kw.recon with
  | false => simp [prepBi, h]
  | true =>
    simp only [orderValues, orderProfileBi, prepBi, h, if_true, reconcileBi_idem]

/-- for every `kw` (reconciling or not): the multi version on two trains is the bivariate value -/
theorem spikeTrainOrderMulti_pair (kw : Kw) (a b : Train) :
    spikeTrainOrderMulti kw none [a, b] = spikeTrainOrderBi kw true a b := by
  unfold spikeTrainOrderMulti spikeTrainOrderBi
  simp only [prep_pair, resolveIdx, length_pair, pairsOf_range_two, List.foldl_cons,
    List.foldl_nil, tr_pair_zero, tr_pair_one, zero_add, orderValues_prep]
  rfl

/-! ## 6. distance matrices -/

theorem mapM_option_some {α β} (f : α → Option β) :
    ∀ (l : List α) (r : List β), l.mapM f = some r →
      r.length = l.length ∧ ∀ i : Nat, l[i]?.bind f = r[i]? := by
  intro l
  induction l with
  | nil =>
    intro r h
    simp only [List.mapM_nil] at h
    cases h
    simp
  | cons a t ih =>
    intro r h
    rw [List.mapM_cons] at h
    cases hfa : f a with
    | none => simp [hfa] at h
    | some b =>
      cases ht : t.mapM f with
      | none => simp [hfa, ht] at h
      | some bs =>
        simp only [hfa, ht] at h
        cases h
        obtain ⟨hl, hi⟩ := ih bs ht
        refine ⟨by simp [hl], ?_⟩
        intro i
        cases i with
        | zero => simpa using hfa
        | succ k => simpa using hi k

theorem mapM_range_some {β} (f : Nat → Option β) (n : Nat) (r : List β)
    (h : (List.range n).mapM f = some r) :
    r.length = n ∧ ∀ i, i < n → r[i]? = f i := by
  obtain ⟨hl, hi⟩ := mapM_option_some f _ _ h
  refine ⟨by simpa using hl, ?_⟩
  intro i hin
  have := hi i
  rw [List.getElem?_range hin] at this
  simpa using this.symm

/-- the entry `(i, j)` of the matrix as the code fills it -/
def matEntry (dist : Train → Train → Option Q) (diag sign : Q) (idx : List Nat) (L : List Train)
    (i j : Nat) : Option Q :=
  if i = j then some diag
  else if i < j then dist (tr L (idx.getD i 0)) (tr L (idx.getD j 0))
  else (dist (tr L (idx.getD j 0)) (tr L (idx.getD i 0))).map (sign * ·)

theorem genericDistanceMatrix_shape (dist : Train → Train → Option Q) (diag sign : Q)
    (idx : List Nat) (L : List Train) (M : List (List Q))
    (h : genericDistanceMatrix dist diag sign idx L = some M) :
    M.length = idx.length ∧ ∀ i, i < idx.length → (M.getD i []).length = idx.length := by
  unfold genericDistanceMatrix at h
  obtain ⟨hl, hi⟩ := mapM_range_some _ _ _ h
  refine ⟨hl, ?_⟩
  intro i hin
  have h1 := hi i hin
  have hiM : i < M.length := by omega
  rw [List.getElem?_eq_getElem hiM] at h1
  have := (mapM_range_some _ _ _ h1.symm).1
  simpa [List.getD_eq_getElem?_getD, List.getElem?_eq_getElem hiM] using this

theorem genericDistanceMatrix_entry (dist : Train → Train → Option Q) (diag sign : Q)
    (idx : List Nat) (L : List Train) (M : List (List Q))
    (h : genericDistanceMatrix dist diag sign idx L = some M) (i j : Nat)
    (hi : i < idx.length) (hj : j < idx.length) :
    matEntry dist diag sign idx L i j = some ((M.getD i []).getD j 0) := by
  have hshape := genericDistanceMatrix_shape dist diag sign idx L M h
  unfold genericDistanceMatrix at h
  obtain ⟨hl, hrow⟩ := mapM_range_some _ _ _ h
  have h1 := hrow i hi
  have hiM : i < M.length := by omega
  rw [List.getElem?_eq_getElem hiM] at h1
  obtain ⟨hl2, hent⟩ := mapM_range_some _ _ _ h1.symm
  have h2 := hent j hj
  have hjM : j < M[i].length := by omega
  rw [List.getElem?_eq_getElem hjM] at h2
  unfold matEntry
  rw [← h2]
  simp [List.getD_eq_getElem?_getD, List.getElem?_eq_getElem hiM, List.getElem?_eq_getElem hjM]

/-- diagonal entries -/
theorem genericDistanceMatrix_diag (dist : Train → Train → Option Q) (diag sign : Q)
    (idx : List Nat) (L : List Train) (M : List (List Q))
    (h : genericDistanceMatrix dist diag sign idx L = some M) (i : Nat) (hi : i < idx.length) :
    (M.getD i []).getD i 0 = diag := by
  have := genericDistanceMatrix_entry dist diag sign idx L M h i i hi hi
  simp only [matEntry, if_true] at this
  exact (Option.some.inj this).symm

/-- upper-triangle entries are the pair distances of the selected trains -/
theorem genericDistanceMatrix_upper (dist : Train → Train → Option Q) (diag sign : Q)
    (idx : List Nat) (L : List Train) (M : List (List Q))
    (h : genericDistanceMatrix dist diag sign idx L = some M) (i j : Nat)
    (hij : i < j) (hj : j < idx.length) :
    dist (tr L (idx.getD i 0)) (tr L (idx.getD j 0)) = some ((M.getD i []).getD j 0) := by
  have := genericDistanceMatrix_entry dist diag sign idx L M h i j (by omega) hj
  simpa only [matEntry, if_neg (Nat.ne_of_lt hij), if_pos hij] using this

/-- lower-triangle entries are `sign` times the mirrored entry -/
theorem genericDistanceMatrix_lower (dist : Train → Train → Option Q) (diag sign : Q)
    (idx : List Nat) (L : List Train) (M : List (List Q))
    (h : genericDistanceMatrix dist diag sign idx L = some M) (i j : Nat)
    (hij : i < j) (hj : j < idx.length) :
    (M.getD j []).getD i 0 = sign * (M.getD i []).getD j 0 := by
  have hu := genericDistanceMatrix_upper dist diag sign idx L M h i j hij hj
  have hl := genericDistanceMatrix_entry dist diag sign idx L M h j i hj (by omega)
  have hne : ¬ j = i := by omega
  have hnlt : ¬ j < i := by omega
  simp only [matEntry, if_neg hne, if_neg hnlt, hu, Option.map_some] at hl
  exact (Option.some.inj hl).symm

/-- The matrix is symmetric for `sign = 1`.  (The hypothesis `∀ a b, dist a b = dist b a` of the
    property statement is not needed: the code copies the upper triangle into the lower one.) -/
theorem genericDistanceMatrix_symm (dist : Train → Train → Option Q) (diag sign : Q)
    (idx : List Nat) (L : List Train) (M : List (List Q))
    (h : genericDistanceMatrix dist diag sign idx L = some M) (hs : sign = 1) (i j : Nat)
    (hi : i < idx.length) (hj : j < idx.length) :
    (M.getD i []).getD j 0 = (M.getD j []).getD i 0 := by
  rcases Nat.lt_trichotomy i j with hij | hij | hij
  · rw [genericDistanceMatrix_lower dist diag sign idx L M h i j hij hj, hs, one_mul]
  · rw [hij]
  · rw [genericDistanceMatrix_lower dist diag sign idx L M h j i hij hi, hs, one_mul]

/-- antisymmetric off the diagonal for `sign = -1` (and on it when `diag = 0`) -/
theorem genericDistanceMatrix_antisymm (dist : Train → Train → Option Q) (diag sign : Q)
    (idx : List Nat) (L : List Train) (M : List (List Q))
    (h : genericDistanceMatrix dist diag sign idx L = some M) (hs : sign = -1) (i j : Nat)
    (hi : i < idx.length) (hj : j < idx.length) (hne : i ≠ j ∨ diag = 0) :
    (M.getD i []).getD j 0 = - (M.getD j []).getD i 0 := by
  rcases Nat.lt_trichotomy i j with hij | hij | hij
  · rw [genericDistanceMatrix_lower dist diag sign idx L M h i j hij hj, hs]; ring
  · subst hij
    rcases hne with hne | hd
    · exact absurd rfl hne
    · rw [genericDistanceMatrix_diag dist diag sign idx L M h i hi, hd]; ring
  · rw [genericDistanceMatrix_lower dist diag sign idx L M h j i hij hi, hs]; ring

example : genericDistanceMatrix (fun a b => some (a.ts + 2 * b.ts)) 0 1 [2, 0, 1]
    [⟨[], 1, 5⟩, ⟨[], 2, 5⟩, ⟨[], 3, 5⟩] = some [[0, 5, 7], [5, 0, 5], [7, 5, 0]] := by decide +kernel

/-- ISI-, SPIKE-distance and SPIKE-Sync matrices are symmetric, with diagonal 0, 0, 1 -/
theorem isiDistanceMatrix_symm (kw : Kw) (idx : Option (List Nat)) (L : List Train)
    (M : List (List Q)) (h : isiDistanceMatrix kw idx L = some M) (i j : Nat)
    (hi : i < (resolveIdx idx (prep kw L).length).length)
    (hj : j < (resolveIdx idx (prep kw L).length).length) :
    (M.getD i []).getD j 0 = (M.getD j []).getD i 0 ∧ (M.getD i []).getD i 0 = 0 :=
  ⟨genericDistanceMatrix_symm _ _ _ _ _ M h rfl i j hi hj,
   genericDistanceMatrix_diag _ _ _ _ _ M h i hi⟩

theorem spikeDistanceMatrix_symm (kw : Kw) (idx : Option (List Nat)) (L : List Train)
    (M : List (List Q)) (h : spikeDistanceMatrix kw idx L = some M) (i j : Nat)
    (hi : i < (resolveIdx idx (prep kw L).length).length)
    (hj : j < (resolveIdx idx (prep kw L).length).length) :
    (M.getD i []).getD j 0 = (M.getD j []).getD i 0 ∧ (M.getD i []).getD i 0 = 0 :=
  ⟨genericDistanceMatrix_symm _ _ _ _ _ M h rfl i j hi hj,
   genericDistanceMatrix_diag _ _ _ _ _ M h i hi⟩

theorem spikeSyncMatrix_symm (kw : Kw) (idx : Option (List Nat)) (L : List Train)
    (M : List (List Q)) (h : spikeSyncMatrix kw idx L = some M) (i j : Nat)
    (hi : i < (resolveIdx idx (prep kw L).length).length)
    (hj : j < (resolveIdx idx (prep kw L).length).length) :
    (M.getD i []).getD j 0 = (M.getD j []).getD i 0 ∧ (M.getD i []).getD i 0 = 1 :=
  ⟨genericDistanceMatrix_symm _ _ _ _ _ M h rfl i j hi hj,
   genericDistanceMatrix_diag _ _ _ _ _ M h i hi⟩

/-- the directionality matrix is antisymmetric with zero diagonal -/
theorem spikeDirectionalityMatrix_antisymm (kw : Kw) (normalize : Bool) (idx : Option (List Nat))
    (L : List Train) (i j : Nat)
    (hi : i < (resolveIdx idx (prep kw L).length).length)
    (hj : j < (resolveIdx idx (prep kw L).length).length) :
    ((spikeDirectionalityMatrix kw normalize idx L).getD i []).getD j 0 =
      - ((spikeDirectionalityMatrix kw normalize idx L).getD j []).getD i 0 := by
  unfold spikeDirectionalityMatrix
  simp only [List.getD_eq_getElem?_getD, List.getElem?_map, List.getElem?_range hi,
    List.getElem?_range hj, Option.map_some, Option.getD_some]
  rcases Nat.lt_trichotomy i j with hij | hij | hij
  · have h1 : ¬ i = j := by omega
    have h2 : ¬ j = i := by omega
    have h3 : ¬ j < i := by omega
    simp [h1, h2, h3, hij]
  · subst hij; simp
  · have h1 : ¬ i = j := by omega
    have h2 : ¬ j = i := by omega
    have h3 : ¬ i < j := by omega
    simp [h1, h2, h3, hij]

end PySpike
