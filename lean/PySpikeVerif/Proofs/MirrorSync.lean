/-
  Proofs/MirrorSync.lean — work package B10: time reversal mirrors SPIKE-Sync and negates
  spike-train order (property C08, mirror clause).
  `ψ x = c - x` (with `c = ts + te` for the profiles) and `mir s = (s.map ψ).reverse`.
-/
import PySpikeVerif.Spec.Sync
import PySpikeVerif.Proofs.Basic
import PySpikeVerif.Proofs.TauLaws
import PySpikeVerif.Proofs.Reconcile
import PySpikeVerif.Proofs.SyncScan
import PySpikeVerif.Proofs.FuncLaws
import Mathlib.Data.List.Basic
import Mathlib.Tactic.Linarith
import Mathlib.Tactic.Ring

namespace PySpike

/-- the time reversal `ψ x = c - x`; for a profile on `[ts, te]` take `c = ts + te` -/
def B10_psi (c x : Q) : Q := c - x

/-- the mirrored spike train: times reflected and the order reversed (so it is sorted again) -/
def B10_mir (c : Q) (s : List Q) : List Q := (s.map (B10_psi c)).reverse

theorem B10_psi_lt {c x y : Q} : B10_psi c x < B10_psi c y ↔ y < x := by
  unfold B10_psi; constructor <;> intro h <;> linarith

theorem B10_psi_le {c x y : Q} : B10_psi c x ≤ B10_psi c y ↔ y ≤ x := by
  unfold B10_psi; constructor <;> intro h <;> linarith

theorem B10_psi_psi (c x : Q) : B10_psi c (B10_psi c x) = x := by
  unfold B10_psi; ring

theorem B10_psi_inj {c x y : Q} : B10_psi c x = B10_psi c y ↔ x = y := by
  unfold B10_psi; constructor <;> intro h
  · linarith
  · rw [h]

theorem B10_mem_mir {c x : Q} {s : List Q} : x ∈ B10_mir c s ↔ B10_psi c x ∈ s := by
  unfold B10_mir
  rw [List.mem_reverse, List.mem_map]
  constructor
  · rintro ⟨y, hy, rfl⟩; rwa [B10_psi_psi]
  · intro h; exact ⟨_, h, B10_psi_psi c x⟩

theorem B10_psi_mem_mir {c x : Q} {s : List Q} : B10_psi c x ∈ B10_mir c s ↔ x ∈ s := by
  rw [B10_mem_mir, B10_psi_psi]

theorem B10_mir_sorted {c : Q} {s : List Q} (h : StrictSorted s) : StrictSorted (B10_mir c s) := by
  unfold StrictSorted B10_mir at *
  rw [List.pairwise_reverse, List.pairwise_map]
  exact h.imp (fun hab => B10_psi_lt.mpr hab)

theorem B10_mir_mir (c : Q) (s : List Q) : B10_mir c (B10_mir c s) = s := by
  unfold B10_mir
  rw [List.map_reverse, List.reverse_reverse, List.map_map]
  have : (B10_psi c ∘ B10_psi c) = id := by funext x; simp [B10_psi_psi]
  rw [this, List.map_id]

theorem B10_mir_nil (c : Q) : B10_mir c [] = [] := rfl

theorem B10_mir_eq_nil {c : Q} {s : List Q} : B10_mir c s = [] ↔ s = [] := by
  unfold B10_mir; simp

/-! ### 1. neighbours swap -/

theorem B10_filter_lt_mir (c a : Q) (s : List Q) :
    (B10_mir c s).filter (· < B10_psi c a) = B10_mir c (s.filter (a < ·)) := by
  unfold B10_mir
  rw [List.filter_reverse, List.filter_map]
  congr 2
  apply List.filter_congr
  intro x _
  simp only [Function.comp, B10_psi_lt]

theorem B10_filter_gt_mir (c a : Q) (s : List Q) :
    (B10_mir c s).filter (B10_psi c a < ·) = B10_mir c (s.filter (· < a)) := by
  unfold B10_mir
  rw [List.filter_reverse, List.filter_map]
  congr 2
  apply List.filter_congr
  intro x _
  simp only [Function.comp, B10_psi_lt]

/-- **1**: under time reversal the previous and the next spike swap (no sortedness needed) -/
theorem B10_pred_succ_mirror (c a : Q) (s : List Q) :
    predOf (B10_mir c s) (B10_psi c a) = (succOf s a).map (B10_psi c) ∧
    succOf (B10_mir c s) (B10_psi c a) = (predOf s a).map (B10_psi c) := by
  unfold predOf succOf
  rw [B10_filter_lt_mir, B10_filter_gt_mir]
  unfold B10_mir
  rw [List.getLast?_reverse, List.head?_reverse, List.head?_map, List.getLast?_map]
  exact ⟨rfl, rfl⟩

example : predOf (B10_mir 10 [1, 2, 5]) (B10_psi 10 2) = (succOf [1, 2, 5] 2).map (B10_psi 10) := by
  decide +kernel

/-! ### 2. the coincidence window -/

theorem B10_optDiff_mirror (c : Q) (x y : Option Q) (d : Q) :
    optDiff (x.map (B10_psi c)) (y.map (B10_psi c)) d = optDiff y x d := by
  cases x <;> cases y <;> simp [optDiff, B10_psi]

theorem B10_getTau_mirror (c : Q) (p1 n1 p2 n2 : Option Q) (a b tm m : Q) (hab : a ≠ b) :
    getTau (n1.map (B10_psi c)) (some (B10_psi c a)) (p1.map (B10_psi c))
           (n2.map (B10_psi c)) (some (B10_psi c b)) (p2.map (B10_psi c)) tm m
      = getTau p1 (some a) n1 p2 (some b) n2 tm m := by
  have e1 := B10_optDiff_mirror c (some a) p1 tm
  have e2 := B10_optDiff_mirror c (some b) p2 tm
  have e3 := B10_optDiff_mirror c n1 (some a) tm
  have e4 := B10_optDiff_mirror c n2 (some b) tm
  simp only [Option.map_some] at e1 e2 e3 e4
  unfold getTau
  simp only [e1, e2, e3, e4, tauFirst, B10_psi_le, decide_eq_true_eq]
  rcases lt_or_gt_of_ne hab with h | h
  · rw [if_neg (not_le.mpr h), if_pos (le_of_lt h)]
  · rw [if_pos (le_of_lt h), if_neg (not_le.mpr h)]

/-- **2**: the coincidence window of two spikes at different times is invariant under time
    reversal (the future/past neighbours swap, which is matched by the flip of `tauFirst`) -/
theorem tauSpec_mirror (c : Q) (s1 s2 : List Q) (tm m a b : Q) (hab : a ≠ b) :
    tauSpec (B10_mir c s1) (B10_mir c s2) tm m (B10_psi c a) (B10_psi c b) = tauSpec s1 s2 tm m a b := by
  unfold tauSpec
  rw [(B10_pred_succ_mirror c a s1).1, (B10_pred_succ_mirror c a s1).2,
    (B10_pred_succ_mirror c b s2).1, (B10_pred_succ_mirror c b s2).2]
  exact B10_getTau_mirror c _ _ _ _ a b tm m hab

example : tauSpec (B10_mir 10 [1, 2, 5]) (B10_mir 10 [3, 4]) 10 0 (B10_psi 10 2) (B10_psi 10 3)
    = tauSpec [1, 2, 5] [3, 4] 10 0 2 3 := by decide +kernel

theorem B10_qabs_mirror (c a b : Q) : qabs (B10_psi c a - B10_psi c b) = qabs (a - b) := by
  rw [qabs_eq_abs, qabs_eq_abs]
  unfold B10_psi
  rw [show c - a - (c - b) = -(a - b) by ring, abs_neg]

theorem Coinc_mirror (c : Q) (s1 s2 : List Q) (tm m a b : Q) (hab : a ≠ b) :
    Coinc (B10_mir c s1) (B10_mir c s2) tm m (B10_psi c a) (B10_psi c b) ↔ Coinc s1 s2 tm m a b := by
  unfold Coinc
  rw [tauSpec_mirror c s1 s2 tm m a b hab, B10_qabs_mirror]

/-! ### 3. the marks -/

theorem B10_any_mir (c : Q) (s : List Q) (p : Q → Bool) :
    (B10_mir c s).any p = s.any (fun x => p (B10_psi c x)) := by
  unfold B10_mir
  rw [List.any_reverse, List.any_map]
  rfl

theorem B10_any_congr {s : List Q} {p q : Q → Bool} (h : ∀ x ∈ s, p x = q x) : s.any p = s.any q := by
  induction s with
  | nil => rfl
  | cons x r ih =>
    rw [List.any_cons, List.any_cons, h x (by simp), ih (fun y hy => h y (by simp [hy]))]

/-- later partners become earlier partners -/
theorem B10_any_before_mirror (c : Q) (s1 s2 : List Q) (tm m a : Q) (ha : a ∉ s2) :
    ((B10_mir c s2).any fun b => decide (b < B10_psi c a ∧
        Coinc (B10_mir c s1) (B10_mir c s2) tm m (B10_psi c a) b))
      = s2.any fun b => decide (a < b ∧ Coinc s1 s2 tm m a b) := by
  rw [B10_any_mir]
  apply B10_any_congr
  intro b hb
  have hab : a ≠ b := fun e => ha (e ▸ hb)
  simp only [B10_psi_lt, Coinc_mirror c s1 s2 tm m a b hab]

theorem B10_any_after_mirror (c : Q) (s1 s2 : List Q) (tm m a : Q) (ha : a ∉ s2) :
    ((B10_mir c s2).any fun b => decide (B10_psi c a < b ∧
        Coinc (B10_mir c s1) (B10_mir c s2) tm m (B10_psi c a) b))
      = s2.any fun b => decide (b < a ∧ Coinc s1 s2 tm m a b) := by
  rw [B10_any_mir]
  apply B10_any_congr
  intro b hb
  have hab : a ≠ b := fun e => ha (e ▸ hb)
  simp only [B10_psi_lt, Coinc_mirror c s1 s2 tm m a b hab]

theorem B10_any_before_mirror2 (c : Q) (s1 s2 : List Q) (tm m b : Q) (hb : b ∉ s1) :
    ((B10_mir c s1).any fun a => decide (a < B10_psi c b ∧
        Coinc (B10_mir c s1) (B10_mir c s2) tm m a (B10_psi c b)))
      = s1.any fun a => decide (b < a ∧ Coinc s1 s2 tm m a b) := by
  rw [B10_any_mir]
  apply B10_any_congr
  intro a ha
  have hab : a ≠ b := fun e => hb (e ▸ ha)
  simp only [B10_psi_lt, Coinc_mirror c s1 s2 tm m a b hab]

theorem B10_any_after_mirror2 (c : Q) (s1 s2 : List Q) (tm m b : Q) (hb : b ∉ s1) :
    ((B10_mir c s1).any fun a => decide (B10_psi c b < a ∧
        Coinc (B10_mir c s1) (B10_mir c s2) tm m a (B10_psi c b)))
      = s1.any fun a => decide (a < b ∧ Coinc s1 s2 tm m a b) := by
  rw [B10_any_mir]
  apply B10_any_congr
  intro a ha
  have hab : a ≠ b := fun e => hb (e ▸ ha)
  simp only [B10_psi_lt, Coinc_mirror c s1 s2 tm m a b hab]

/-- a spike of train 1 cannot have both an earlier and a later partner -/
theorem B10_not_both1 {s1 s2 : List Q} (h1 : StrictSorted s1) (h2 : StrictSorted s2) (tm m a : Q)
    (ha : a ∈ s1)
    (hA : (s2.any fun b => decide (b < a ∧ Coinc s1 s2 tm m a b)) = true)
    (hB : (s2.any fun b => decide (a < b ∧ Coinc s1 s2 tm m a b)) = true) : False := by
  rw [List.any_eq_true] at hA hB
  obtain ⟨b, hb, hb'⟩ := hA
  obtain ⟨b', hb2, hb2'⟩ := hB
  rw [decide_eq_true_eq] at hb' hb2'
  have := (coinc_one_to_one s1 s2 tm m h1 h2).1 a b b' hb'.2 hb2'.2 ha hb hb2
    (ne_of_gt hb'.1) (ne_of_lt hb2'.1)
  have h3 := hb'.1
  have h4 := hb2'.1
  rw [this] at h3
  exact lt_irrefl _ (lt_trans h3 h4)

theorem B10_not_both2 {s1 s2 : List Q} (h1 : StrictSorted s1) (h2 : StrictSorted s2) (tm m b : Q)
    (hb : b ∈ s2)
    (hA : (s1.any fun a => decide (a < b ∧ Coinc s1 s2 tm m a b)) = true)
    (hB : (s1.any fun a => decide (b < a ∧ Coinc s1 s2 tm m a b)) = true) : False := by
  rw [List.any_eq_true] at hA hB
  obtain ⟨a, ha, ha'⟩ := hA
  obtain ⟨a', ha2, ha2'⟩ := hB
  rw [decide_eq_true_eq] at ha' ha2'
  have := (coinc_one_to_one s1 s2 tm m h1 h2).2 a a' b ha'.2 ha2'.2 ha ha2 hb
    (ne_of_lt ha'.1) (ne_of_gt ha2'.1)
  have h3 := ha'.1
  have h4 := ha2'.1
  rw [this] at h3
  exact lt_irrefl _ (lt_trans h3 h4)

/-- **3a**: the mark of a (non-simultaneous) spike of train 1 after time reversal: an earlier
    partner becomes a later partner, so the roles of `v1` and `v2` swap -/
theorem mark1_mirror (c v1 v2 : Q) (s1 s2 : List Q) (tm m a : Q)
    (h1 : StrictSorted s1) (h2 : StrictSorted s2) (ha : a ∈ s1) (ha2 : a ∉ s2) :
    mark1 v1 v2 (B10_mir c s1) (B10_mir c s2) tm m (B10_psi c a) = mark1 v2 v1 s1 s2 tm m a := by
  unfold mark1
  rw [B10_any_before_mirror c s1 s2 tm m a ha2, B10_any_after_mirror c s1 s2 tm m a ha2]
  by_cases hA : (s2.any fun b => decide (b < a ∧ Coinc s1 s2 tm m a b)) = true
  · by_cases hB : (s2.any fun b => decide (a < b ∧ Coinc s1 s2 tm m a b)) = true
    · exact (B10_not_both1 h1 h2 tm m a ha hA hB).elim
    · rw [if_neg hB, if_pos hA, if_pos hA]
  · by_cases hB : (s2.any fun b => decide (a < b ∧ Coinc s1 s2 tm m a b)) = true
    · rw [if_pos hB, if_neg hA, if_pos hB]
    · rw [if_neg hB, if_neg hA, if_neg hA, if_neg hB]

/-- **3b**: same for a spike of train 2 -/
theorem mark2_mirror (c v1 v2 : Q) (s1 s2 : List Q) (tm m b : Q)
    (h1 : StrictSorted s1) (h2 : StrictSorted s2) (hb : b ∈ s2) (hb1 : b ∉ s1) :
    mark2 v1 v2 (B10_mir c s1) (B10_mir c s2) tm m (B10_psi c b) = mark2 v2 v1 s1 s2 tm m b := by
  unfold mark2
  rw [B10_any_before_mirror2 c s1 s2 tm m b hb1, B10_any_after_mirror2 c s1 s2 tm m b hb1]
  by_cases hA : (s1.any fun a => decide (a < b ∧ Coinc s1 s2 tm m a b)) = true
  · by_cases hB : (s1.any fun a => decide (b < a ∧ Coinc s1 s2 tm m a b)) = true
    · exact (B10_not_both2 h1 h2 tm m b hb hA hB).elim
    · rw [if_neg hB, if_pos hA, if_pos hA]
  · by_cases hB : (s1.any fun a => decide (b < a ∧ Coinc s1 s2 tm m a b)) = true
    · rw [if_pos hB, if_neg hA, if_pos hB]
    · rw [if_neg hB, if_neg hA, if_neg hA, if_neg hB]

example : StrictSorted [(1:Q), 2, 5] ∧ StrictSorted [(3:Q), 4] ∧ (2:Q) ∈ [(1:Q), 2, 5] ∧ (2:Q) ∉ [(3:Q), 4] := by
  unfold StrictSorted; decide +kernel

/-- **3**: both marks -/
theorem mark_mirror (c v1 v2 : Q) (s1 s2 : List Q) (tm m : Q)
    (h1 : StrictSorted s1) (h2 : StrictSorted s2) :
    (∀ a, a ∈ s1 → a ∉ s2 →
      mark1 v1 v2 (B10_mir c s1) (B10_mir c s2) tm m (B10_psi c a) = mark1 v2 v1 s1 s2 tm m a) ∧
    (∀ b, b ∈ s2 → b ∉ s1 →
      mark2 v1 v2 (B10_mir c s1) (B10_mir c s2) tm m (B10_psi c b) = mark2 v2 v1 s1 s2 tm m b) :=
  ⟨fun a ha ha2 => mark1_mirror c v1 v2 s1 s2 tm m a h1 h2 ha ha2,
   fun b hb hb1 => mark2_mirror c v1 v2 s1 s2 tm m b h1 h2 hb hb1⟩

/-- the marks are odd in the pair of values (`v1 = v2 = 1` ↦ SPIKE-Sync, swapping `-1, 1` negates) -/
theorem B10_mark1_neg (v1 v2 : Q) (s1 s2 : List Q) (tm m a : Q) :
    mark1 (-v1) (-v2) s1 s2 tm m a = - mark1 v1 v2 s1 s2 tm m a := by
  unfold mark1; split_ifs <;> simp

theorem B10_mark2_neg (v1 v2 : Q) (s1 s2 : List Q) (tm m b : Q) :
    mark2 (-v1) (-v2) s1 s2 tm m b = - mark2 v1 v2 s1 s2 tm m b := by
  unfold mark2; split_ifs <;> simp

/-- SPIKE-Sync marks (`v1 = v2 = 1`) are unchanged, spike-train-order marks (`v1 = -1, v2 = 1`) are
    negated by time reversal -/
theorem B10_mark1_sync_mirror (c : Q) (s1 s2 : List Q) (tm m a : Q)
    (h1 : StrictSorted s1) (h2 : StrictSorted s2) (ha : a ∈ s1) (ha2 : a ∉ s2) :
    mark1 1 1 (B10_mir c s1) (B10_mir c s2) tm m (B10_psi c a) = mark1 1 1 s1 s2 tm m a :=
  mark1_mirror c 1 1 s1 s2 tm m a h1 h2 ha ha2

theorem B10_mark1_order_mirror (c : Q) (s1 s2 : List Q) (tm m a : Q)
    (h1 : StrictSorted s1) (h2 : StrictSorted s2) (ha : a ∈ s1) (ha2 : a ∉ s2) :
    mark1 (-1) 1 (B10_mir c s1) (B10_mir c s2) tm m (B10_psi c a) = - mark1 (-1) 1 s1 s2 tm m a := by
  rw [mark1_mirror c (-1) 1 s1 s2 tm m a h1 h2 ha ha2, ← B10_mark1_neg, neg_neg]

theorem B10_mark2_order_mirror (c : Q) (s1 s2 : List Q) (tm m b : Q)
    (h1 : StrictSorted s1) (h2 : StrictSorted s2) (hb : b ∈ s2) (hb1 : b ∉ s1) :
    mark2 (-1) 1 (B10_mir c s1) (B10_mir c s2) tm m (B10_psi c b) = - mark2 (-1) 1 s1 s2 tm m b := by
  rw [mark2_mirror c (-1) 1 s1 s2 tm m b h1 h2 hb hb1, ← B10_mark2_neg, neg_neg]

/-! ### 4. the profile entries -/

/-- mirrored entry: time reflected, value transformed by `h`, multiplicity kept -/
def B10_mapE (c : Q) (h : Q → Q) (e : Q × Q × Q) : Q × Q × Q := (B10_psi c e.1, h e.2.1, e.2.2)

theorem B10_entrySpec_mirror (c v1 v2 vt : Q) (s1 s2 : List Q) (tm m t : Q)
    (h1 : StrictSorted s1) (h2 : StrictSorted s2) (ht : t ∈ s1 ∨ t ∈ s2) :
    entrySpec v1 v2 vt (B10_mir c s1) (B10_mir c s2) tm m (B10_psi c t)
      = B10_mapE c id (entrySpec v2 v1 vt s1 s2 tm m t) := by
  unfold entrySpec B10_mapE
  simp only [B10_psi_mem_mir]
  by_cases a1 : t ∈ s1
  · by_cases a2 : t ∈ s2
    · rw [if_pos ⟨a1, a2⟩, if_pos ⟨a1, a2⟩]; rfl
    · rw [if_neg (not_and_of_not_right _ a2), if_neg (not_and_of_not_right _ a2), if_pos a1, if_pos a1,
        mark1_mirror c v1 v2 s1 s2 tm m t h1 h2 a1 a2]; rfl
  · have a2 : t ∈ s2 := ht.resolve_left a1
    rw [if_neg (not_and_of_not_left _ a1), if_neg (not_and_of_not_left _ a1), if_neg a1, if_neg a1,
      mark2_mirror c v1 v2 s1 s2 tm m t h1 h2 a2 a1]; rfl

theorem B10_uniqueQ_mirror (c : Q) (s1 s2 : List Q) :
    uniqueQ (B10_mir c s1 ++ B10_mir c s2) = B10_mir c (uniqueQ (s1 ++ s2)) := by
  apply eq_of_strictSorted_of_mem_iff (uniqueQ_sorted _) (B10_mir_sorted (uniqueQ_sorted _))
  intro x
  rw [uniqueQ_mem, B10_mem_mir, uniqueQ_mem, List.mem_append, List.mem_append, B10_mem_mir,
    B10_mem_mir]

/-- **4**: the cursor-free scan of the mirrored trains is the mirrored, reversed scan with the
    roles of `v1` and `v2` exchanged -/
theorem scanSpec_mirror (c v1 v2 vt : Q) (s1 s2 : List Q) (tm m : Q)
    (h1 : StrictSorted s1) (h2 : StrictSorted s2) :
    scanSpec v1 v2 vt (B10_mir c s1) (B10_mir c s2) tm m
      = ((scanSpec v2 v1 vt s1 s2 tm m).map fun e => (B10_psi c e.1, e.2.1, e.2.2)).reverse := by
  unfold scanSpec
  rw [B10_uniqueQ_mirror]
  unfold B10_mir
  rw [List.map_reverse, List.map_map, List.map_map]
  congr 1
  apply List.map_congr_left
  intro t ht
  rw [uniqueQ_mem, List.mem_append] at ht
  exact B10_entrySpec_mirror c v1 v2 vt s1 s2 tm m t h1 h2 ht

example : StrictSorted [(1:Q), 2, 5] ∧ StrictSorted [(3:Q), 5] := by
  unfold StrictSorted; decide +kernel

theorem B10_entrySpec_neg (v1 v2 : Q) (s1 s2 : List Q) (tm m t : Q) :
    entrySpec (-v1) (-v2) 0 s1 s2 tm m t
      = (fun e : Q × Q × Q => (e.1, -e.2.1, e.2.2)) (entrySpec v1 v2 0 s1 s2 tm m t) := by
  unfold entrySpec
  split_ifs <;> simp [B10_mark1_neg, B10_mark2_neg]

theorem B10_scanSpec_neg (v1 v2 : Q) (s1 s2 : List Q) (tm m : Q) :
    scanSpec (-v1) (-v2) 0 s1 s2 tm m
      = (scanSpec v1 v2 0 s1 s2 tm m).map fun e => (e.1, -e.2.1, e.2.2) := by
  unfold scanSpec
  rw [List.map_map]
  apply List.map_congr_left
  intro t _
  exact B10_entrySpec_neg v1 v2 s1 s2 tm m t

/-- the spike-train-order scan of the mirrored trains: times reflected, values negated, reversed -/
theorem B10_scanSpec_order_mirror (c : Q) (s1 s2 : List Q) (tm m : Q)
    (h1 : StrictSorted s1) (h2 : StrictSorted s2) :
    scanSpec (-1) 1 0 (B10_mir c s1) (B10_mir c s2) tm m
      = ((scanSpec (-1) 1 0 s1 s2 tm m).map fun e => (B10_psi c e.1, -e.2.1, e.2.2)).reverse := by
  rw [scanSpec_mirror c (-1) 1 0 s1 s2 tm m h1 h2]
  have := B10_scanSpec_neg (-1) 1 s1 s2 tm m
  rw [neg_neg] at this
  rw [this, List.map_map]
  rfl

/-! ### the edge entries -/

theorem B10_lastD_getLast? {α} : ∀ (l : List α) (d : α), lastD l d = l.getLast?.getD d
  | [], d => rfl
  | [a], d => rfl
  | a :: b :: r, d => by
    rw [lastD, B10_lastD_getLast? (b :: r) d, List.getLast?_cons_cons]

theorem B10_frame_ne (ts te : Q) (L : List (Q × Q × Q)) (hL : L ≠ []) (d : Q × Q × Q) :
    frameProfile ts te L = (ts, (L.head?.getD d).2.1, (L.head?.getD d).2.2) :: L ++
      [(te, (L.getLast?.getD d).2.1, (L.getLast?.getD d).2.2)] := by
  cases L with
  | nil => exact absurd rfl hL
  | cons f r =>
    have e : lastD (f :: r) f = ((f :: r).getLast?.getD d) := by
      rw [B10_lastD_getLast?]
      rw [List.getLast?_eq_some_getLast (List.cons_ne_nil f r)]
      rfl
    simp only [frameProfile, e, List.head?_cons, Option.getD_some]

/-- `frameProfile` commutes with mirroring: the two edge entries swap, which is consistent because
    the first edge copies the first interior entry and the last edge the last one -/
theorem B10_frame_mirror (ts te : Q) (h : Q → Q) (L : List (Q × Q × Q)) (hL : L ≠ [] ∨ h 1 = 1) :
    frameProfile ts te ((L.map (B10_mapE (ts + te) h)).reverse)
      = ((frameProfile ts te L).map (B10_mapE (ts + te) h)).reverse := by
  have p1 : B10_psi (ts + te) ts = te := by unfold B10_psi; ring
  have p2 : B10_psi (ts + te) te = ts := by unfold B10_psi; ring
  by_cases hn : L = []
  · subst hn
    have h1 : h 1 = 1 := hL.resolve_left (fun h => h rfl)
    simp [frameProfile, B10_mapE, p1, p2, h1]
  · have hn' : (L.map (B10_mapE (ts + te) h)).reverse ≠ [] := by simpa using hn
    rw [B10_frame_ne ts te _ hn' (0, 0, 0), B10_frame_ne ts te L hn (0, 0, 0)]
    obtain ⟨f, hf⟩ : ∃ f, L.head? = some f := by
      cases L with
      | nil => exact absurd rfl hn
      | cons f r => exact ⟨f, rfl⟩
    obtain ⟨l, hl⟩ : ∃ l, L.getLast? = some l := ⟨_, List.getLast?_eq_some_getLast hn⟩
    rw [List.head?_reverse, List.getLast?_reverse, List.getLast?_map, List.head?_map, hf, hl]
    simp [B10_mapE, p1, p2]

/-- **4'**: SPIKE-Sync profile of the mirrored trains = mirrored profile: reflected times, the same
    coincidence marks and multiplicities, reversed order -/
theorem coincProfile_mirror (s1 s2 : List Q) (ts te mt m : Q)
    (h1 : StrictSorted s1) (h2 : StrictSorted s2) :
    coincProfile (B10_mir (ts + te) s1) (B10_mir (ts + te) s2) ts te mt m
      = ((coincProfile s1 s2 ts te mt m).map fun e => (B10_psi (ts + te) e.1, e.2.1, e.2.2)).reverse := by
  rw [coincProfile_eq_spec _ _ _ _ _ _ (B10_mir_sorted h1) (B10_mir_sorted h2),
    coincProfile_eq_spec _ _ _ _ _ _ h1 h2, scanSpec_mirror _ _ _ _ _ _ _ _ h1 h2]
  exact B10_frame_mirror ts te id _ (Or.inr rfl)

theorem B10_scanSpec_ne_nil (v1 v2 vt : Q) (s1 s2 : List Q) (tm m : Q) (hne : s1 ≠ [] ∨ s2 ≠ []) :
    scanSpec v1 v2 vt s1 s2 tm m ≠ [] := by
  unfold scanSpec
  intro h
  rw [List.map_eq_nil_iff] at h
  have hm : ∀ x, x ∈ s1 ++ s2 → False := by
    intro x hx
    have := (uniqueQ_mem (l := s1 ++ s2) (x := x)).mpr hx
    rw [h] at this
    exact absurd this (List.not_mem_nil)
  rcases hne with hne | hne
  · cases s1 with
    | nil => exact hne rfl
    | cons a r => exact hm a (by simp)
  · cases s2 with
    | nil => exact hne rfl
    | cons a r => exact hm a (by simp)

/-- **4''**: spike-train-order profile of the mirrored trains: reflected times, negated values,
    reversed order (two empty trains excluded: their edge entries are the constant 1) -/
theorem orderProfile_mirror (s1 s2 : List Q) (ts te mt m : Q)
    (h1 : StrictSorted s1) (h2 : StrictSorted s2) (hne : s1 ≠ [] ∨ s2 ≠ []) :
    orderProfile (B10_mir (ts + te) s1) (B10_mir (ts + te) s2) ts te mt m
      = ((orderProfile s1 s2 ts te mt m).map fun e => (B10_psi (ts + te) e.1, -e.2.1, e.2.2)).reverse := by
  rw [orderProfile_eq_spec _ _ _ _ _ _ (B10_mir_sorted h1) (B10_mir_sorted h2),
    orderProfile_eq_spec _ _ _ _ _ _ h1 h2, B10_scanSpec_order_mirror _ _ _ _ _ h1 h2]
  exact B10_frame_mirror ts te (fun x => -x) _ (Or.inl (B10_scanSpec_ne_nil _ _ _ _ _ _ _ hne))

example : StrictSorted [(1:Q), 2, 5] ∧ StrictSorted [(3:Q), 5] ∧ ([(1:Q), 2, 5] ≠ [] ∨ [(3:Q), 5] ≠ []) := by
  unfold StrictSorted; decide +kernel

/-! ### 5. the values -/

theorem B10_qsum_reverse (l : List Q) : qsum l.reverse = qsum l := by
  induction l with
  | nil => rfl
  | cons a r ih => rw [List.reverse_cons, qsum_append, ih]; simp [qsum]; ring

theorem B10_interior_mirror (g : Q × Q × Q → Q × Q × Q) (E : List (Q × Q × Q)) :
    (Disc.mk ((E.map g).reverse)).interior = ((Disc.mk E).interior.map g).reverse := by
  unfold Disc.interior
  simp only
  rw [List.tail_reverse, List.dropLast_reverse, List.map_dropLast, List.map_tail, List.tail_dropLast]

/-- summed values and multiplicities of a mirrored discrete profile -/
theorem B10_integralAll_mirror (c : Q) (h : Q → Q) (E : List (Q × Q × Q)) :
    (Disc.mk ((E.map (B10_mapE c h)).reverse)).integralAll
      = (qsum ((Disc.mk E).interior.map fun e => h e.2.1), (Disc.mk E).integralAll.2) := by
  unfold Disc.integralAll
  rw [B10_interior_mirror]
  simp only [List.map_reverse, B10_qsum_reverse, List.map_map]
  rfl

theorem B10_qsum_map_neg (l : List Q) : qsum (l.map fun x => -x) = - qsum l := by
  induction l with
  | nil => simp [qsum]
  | cons a r ih => simp only [List.map_cons, qsum, ih]; ring

/-- **5a**: the SPIKE-Sync value (sum of coincidence marks, sum of multiplicities) is invariant under
    time reversal -/
theorem sync_value_mirror (s1 s2 : List Q) (ts te mt m : Q)
    (h1 : StrictSorted s1) (h2 : StrictSorted s2) :
    (Disc.mk (coincProfile (B10_mir (ts + te) s1) (B10_mir (ts + te) s2) ts te mt m)).integralAll
      = (Disc.mk (coincProfile s1 s2 ts te mt m)).integralAll := by
  rw [coincProfile_mirror s1 s2 ts te mt m h1 h2]
  exact B10_integralAll_mirror (ts + te) id _

/-- **5b**: the spike-train-order value changes sign under time reversal, the multiplicity is kept -/
theorem order_value_mirror (s1 s2 : List Q) (ts te mt m : Q)
    (h1 : StrictSorted s1) (h2 : StrictSorted s2) (hne : s1 ≠ [] ∨ s2 ≠ []) :
    (Disc.mk (orderProfile (B10_mir (ts + te) s1) (B10_mir (ts + te) s2) ts te mt m)).integralAll
      = (- (Disc.mk (orderProfile s1 s2 ts te mt m)).integralAll.1,
          (Disc.mk (orderProfile s1 s2 ts te mt m)).integralAll.2) := by
  rw [orderProfile_mirror s1 s2 ts te mt m h1 h2 hne]
  have := B10_integralAll_mirror (ts + te) (fun x => -x) (orderProfile s1 s2 ts te mt m)
  rw [show (fun e : Q × Q × Q => (B10_psi (ts + te) e.1, -e.2.1, e.2.2))
      = B10_mapE (ts + te) (fun x => -x) from rfl, this]
  unfold Disc.integralAll
  simp only
  rw [← B10_qsum_map_neg, List.map_map]
  rfl

end PySpike
