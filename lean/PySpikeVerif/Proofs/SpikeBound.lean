/-
  Proofs/SpikeBound.lean — the SPIKE-profile never exceeds 1 (work package C1, property C07).

  Mathematics.  Fix a time `t` (a one-sided limit `t⁺`/`t⁻`).  For each train `n ∈ {1,2}` let
  `pₙ ≤ t ≤ fₙ` be the two neighbouring elements of the EXTENDED train `Eₙ` (auxiliary spike, real
  spikes, auxiliary spike) — `C1_Bracket`.  The interval length used by the profile is always
  `iₙ = fₙ - pₙ` (identity (b): `C1_stateOf_isi`, `C1_cform_bracket`).  With `d(z) = dtTo z E_other`
  the contribution `sₙ` of train `n` is in one of three modes
     I (interior):   pₙ, fₙ real,  sₙ = (d(pₙ)(fₙ-t) + d(fₙ)(t-pₙ)) / iₙ
     F (start edge): pₙ = aux ≤ ts, fₙ real, sₙ = d(fₙ)
     P (end edge):   fₙ = aux ≥ te, pₙ real, sₙ = d(pₙ).
  By (a) `d(z) ≤ |z - w|` for `w ∈ {p_other, f_other}` — eight linear bounds.  From them
    * RI:    `s₁ + s₂ ≤ i₁ + i₂`           (`C1_abs_ri`, uses only `sₙ ≤ max(d(pₙ), d(fₙ))`)
    * plain: `s₁ i₂ + s₂ i₁ ≤ (i₁+i₂)²/2`  (`C1_abs_plain`): in every mode pair one of
        (A) `s₁, s₂ ≤ (i₁+i₂)/2`,  (B) `s₁ ≤ i₁ ∧ s₂ ≤ i₁/2`,  (C) `s₂ ≤ i₂ ∧ s₁ ≤ i₂/2`
      holds, and each of them implies the product bound (`C1_plain_fin`).
  The per-train bound `sₙ ≤ (i₁+i₂)/2` indeed FAILS at the edges (e.g. `t1 = [5]`, `t2 = [1/10]`,
  `[0,10]`, `t = 0⁺`: `s₁ = 49/10 > (5 + 1/10)/2`), which is why (B)/(C) are needed.
-/
import PySpikeVerif.Proofs.SpikeScan
import Mathlib.Tactic.Linarith
import Mathlib.Tactic.Ring
import Mathlib.Tactic.FieldSimp
import Mathlib.Tactic.Positivity
import Mathlib.Algebra.Order.Field.Rat

namespace PySpike

/-! ## Part 1 — abstract inequalities -/

/-- a weighted mean of two numbers `≤ B` is `≤ B` -/
theorem C1_interp_le (dp df p f t B : Q) (hpt : p ≤ t) (htf : t ≤ f) (hpf : p < f)
    (h1 : dp ≤ B) (h2 : df ≤ B) : (dp * (f - t) + df * (t - p)) / (f - p) ≤ B := by
  have hpos : 0 < f - p := by linarith
  rw [div_le_iff₀ hpos]
  have e : B * (f - p) = B * (f - t) + B * (t - p) := by ring
  rw [e]
  exact add_le_add (mul_le_mul_of_nonneg_right h1 (by linarith))
    (mul_le_mul_of_nonneg_right h2 (by linarith))

/-- regular case: `dp ≤ x + δ`, `df ≤ y + δ` gives `s ≤ 2xy/(x+y) + δ ≤ (x+y)/2 + δ` -/
theorem C1_interp_tri (dp df p f t δ : Q) (hpt : p ≤ t) (htf : t ≤ f) (hpf : p < f)
    (h1 : dp ≤ (t - p) + δ) (h2 : df ≤ (f - t) + δ) :
    (dp * (f - t) + df * (t - p)) / (f - p) ≤ (f - p) / 2 + δ := by
  have hpos : 0 < f - p := by linarith
  rw [div_le_iff₀ hpos]
  have hx : 0 ≤ t - p := by linarith
  have hy : 0 ≤ f - t := by linarith
  have a1 := mul_le_mul_of_nonneg_right h1 hy
  have a2 := mul_le_mul_of_nonneg_right h2 hx
  have sq := sq_nonneg ((t - p) - (f - t))
  nlinarith [a1, a2, sq]

/-- the three sufficient conditions for the plain (non-RI) bound -/
theorem C1_plain_fin (s1 s2 i1 i2 : Q) (h1 : 0 < i1) (h2 : 0 < i2)
    (h : (s1 ≤ (i1 + i2) / 2 ∧ s2 ≤ (i1 + i2) / 2) ∨ (s1 ≤ i1 ∧ s2 ≤ i1 / 2) ∨
      (s2 ≤ i2 ∧ s1 ≤ i2 / 2)) :
    s1 * i2 + s2 * i1 ≤ (i1 + i2) ^ 2 / 2 := by
  rcases h with ⟨a, b⟩ | ⟨a, b⟩ | ⟨a, b⟩
  · have a' := mul_le_mul_of_nonneg_right a (le_of_lt h2)
    have b' := mul_le_mul_of_nonneg_right b (le_of_lt h1)
    nlinarith [a', b']
  · have a' := mul_le_mul_of_nonneg_right a (le_of_lt h2)
    have b' := mul_le_mul_of_nonneg_right b (le_of_lt h1)
    nlinarith [a', b', sq_nonneg i2]
  · have a' := mul_le_mul_of_nonneg_right a (le_of_lt h1)
    have b' := mul_le_mul_of_nonneg_right b (le_of_lt h2)
    nlinarith [a', b', sq_nonneg i1]

/-- the mode of one train: `v` is its contribution, `dp`/`df` the distances of `p`/`f` to the other
    extended train -/
def C1_Mode (ts te t p f dp df v : Q) : Prop :=
  (ts ≤ p ∧ f ≤ te ∧ v = (dp * (f - t) + df * (t - p)) / (f - p)) ∨
  (p ≤ ts ∧ f ≤ te ∧ v = df) ∨
  (ts ≤ p ∧ te ≤ f ∧ v = dp)

theorem C1_mode_le_max {ts te t p f dp df v : Q} (hm : C1_Mode ts te t p f dp df v)
    (hpt : p ≤ t) (htf : t ≤ f) (hpf : p < f) : v ≤ max dp df := by
  rcases hm with ⟨_, _, e⟩ | ⟨_, _, e⟩ | ⟨_, _, e⟩
  · rw [e]; exact C1_interp_le _ _ _ _ _ _ hpt htf hpf (le_max_left _ _) (le_max_right _ _)
  · rw [e]; exact le_max_right _ _
  · rw [e]; exact le_max_left _ _

/-- RI: the sum of the two contributions is at most the sum of the two interval lengths -/
theorem C1_abs_ri (t p1 f1 p2 f2 dp1 df1 dp2 df2 s1 s2 : Q)
    (hp1 : p1 ≤ t) (hf1 : t ≤ f1) (hp2 : p2 ≤ t) (hf2 : t ≤ f2)
    (b1 : dp1 ≤ |p1 - p2|) (b2 : dp1 ≤ |p1 - f2|) (b3 : df1 ≤ |f1 - f2|) (b4 : df1 ≤ |f1 - p2|)
    (b5 : dp2 ≤ |p2 - p1|) (b6 : dp2 ≤ |p2 - f1|) (b7 : df2 ≤ |f2 - f1|) (b8 : df2 ≤ |f2 - p1|)
    (m1 : s1 ≤ max dp1 df1) (m2 : s2 ≤ max dp2 df2) :
    s1 + s2 ≤ (f1 - p1) + (f2 - p2) := by
  rw [abs_of_nonpos (by linarith : p1 - f2 ≤ 0)] at b2
  rw [abs_of_nonneg (by linarith : 0 ≤ f1 - p2)] at b4
  rw [abs_of_nonpos (by linarith : p2 - f1 ≤ 0)] at b6
  rw [abs_of_nonneg (by linarith : 0 ≤ f2 - p1)] at b8
  rcases le_total p1 p2 with hp | hp <;> rcases le_total f1 f2 with hf | hf
  all_goals
    first
    | rw [abs_of_nonpos (by linarith : p1 - p2 ≤ 0)] at b1
    | rw [abs_of_nonneg (by linarith : 0 ≤ p1 - p2)] at b1
  all_goals
    first
    | rw [abs_of_nonneg (by linarith : 0 ≤ p2 - p1)] at b5
    | rw [abs_of_nonpos (by linarith : p2 - p1 ≤ 0)] at b5
  all_goals
    first
    | rw [abs_of_nonpos (by linarith : f1 - f2 ≤ 0)] at b3
    | rw [abs_of_nonneg (by linarith : 0 ≤ f1 - f2)] at b3
  all_goals
    first
    | rw [abs_of_nonneg (by linarith : 0 ≤ f2 - f1)] at b7
    | rw [abs_of_nonpos (by linarith : f2 - f1 ≤ 0)] at b7
  all_goals
    rcases max_cases dp1 df1 with ⟨e1, _⟩ | ⟨e1, _⟩ <;>
    rcases max_cases dp2 df2 with ⟨e2, _⟩ | ⟨e2, _⟩ <;>
    rw [e1] at m1 <;> rw [e2] at m2 <;> linarith

/-- interior train, triangle inequality: `s ≤ (i + i')/2` -/
theorem C1_I_tri (t p1 f1 p2 f2 dp1 df1 : Q)
    (hp1 : p1 ≤ t) (hf1 : t ≤ f1) (hpf : p1 < f1) (hp2 : p2 ≤ t) (hf2 : t ≤ f2)
    (b1 : dp1 ≤ |p1 - p2|) (b2 : dp1 ≤ |p1 - f2|) (b3 : df1 ≤ |f1 - f2|) (b4 : df1 ≤ |f1 - p2|) :
    (dp1 * (f1 - t) + df1 * (t - p1)) / (f1 - p1) ≤ ((f1 - p1) + (f2 - p2)) / 2 := by
  rw [abs_of_nonpos (by linarith : p1 - f2 ≤ 0)] at b2
  rw [abs_of_nonneg (by linarith : 0 ≤ f1 - p2)] at b4
  have h := C1_interp_tri dp1 df1 p1 f1 t ((f2 - p2) / 2) hp1 hf1 hpf ?_ ?_
  · linarith
  · rcases abs_cases (p1 - p2) with ⟨e, _⟩ | ⟨e, _⟩ <;> rw [e] at b1 <;> linarith
  · rcases abs_cases (f1 - f2) with ⟨e, _⟩ | ⟨e, _⟩ <;> rw [e] at b3 <;> linarith

/-- interior train whose interval is nested in the other train's interval: `s ≤ i'/2` -/
theorem C1_I_nested (t p1 f1 p2 f2 dp1 df1 : Q)
    (hp1 : p1 ≤ t) (hf1 : t ≤ f1) (hpf : p1 < f1) (hp : p2 ≤ p1) (hf : f1 ≤ f2)
    (b1 : dp1 ≤ |p1 - p2|) (b2 : dp1 ≤ |p1 - f2|) (b3 : df1 ≤ |f1 - f2|) (b4 : df1 ≤ |f1 - p2|) :
    (dp1 * (f1 - t) + df1 * (t - p1)) / (f1 - p1) ≤ (f2 - p2) / 2 := by
  rw [abs_of_nonpos (by linarith : p1 - f2 ≤ 0)] at b2
  rw [abs_of_nonneg (by linarith : 0 ≤ f1 - p2)] at b4
  rw [abs_of_nonneg (by linarith : 0 ≤ p1 - p2)] at b1
  rw [abs_of_nonpos (by linarith : f1 - f2 ≤ 0)] at b3
  apply C1_interp_le _ _ _ _ _ _ hp1 hf1 hpf <;> linarith

/-- plain variant, the cases where train 2 is interior, and the three edge/edge cases in which
    train 1 is "the larger one"; the remaining cases follow by swapping the trains -/
theorem C1_abs_plain_half (ts te t p1 f1 p2 f2 dp1 df1 dp2 df2 s1 s2 : Q)
    (hp1 : p1 ≤ t) (hf1 : t ≤ f1) (hpf1 : p1 < f1) (hp2 : p2 ≤ t) (hf2 : t ≤ f2) (hpf2 : p2 < f2)
    (b1 : dp1 ≤ |p1 - p2|) (b2 : dp1 ≤ |p1 - f2|) (b3 : df1 ≤ |f1 - f2|) (b4 : df1 ≤ |f1 - p2|)
    (b5 : dp2 ≤ |p2 - p1|) (b6 : dp2 ≤ |p2 - f1|) (b7 : df2 ≤ |f2 - f1|) (b8 : df2 ≤ |f2 - p1|)
    (m1 : C1_Mode ts te t p1 f1 dp1 df1 s1)
    (m2 : (ts ≤ p2 ∧ f2 ≤ te ∧ s2 = (dp2 * (f2 - t) + df2 * (t - p2)) / (f2 - p2)) ∨
      (f2 ≤ f1 ∧ s1 = df1 ∧ s2 = df2) ∨ (p1 ≤ p2 ∧ s1 = dp1 ∧ s2 = dp2) ∨
      (p1 ≤ p2 ∧ f1 ≤ f2 ∧ s1 = df1 ∧ s2 = dp2)) :
    (s1 ≤ ((f1 - p1) + (f2 - p2)) / 2 ∧ s2 ≤ ((f1 - p1) + (f2 - p2)) / 2) ∨
    (s1 ≤ f1 - p1 ∧ s2 ≤ (f1 - p1) / 2) ∨ (s2 ≤ f2 - p2 ∧ s1 ≤ (f2 - p2) / 2) := by
  have tri2 := C1_I_tri t p2 f2 p1 f1 dp2 df2 hp2 hf2 hpf2 hp1 hf1 b5 b6 b7 b8
  have b2' := b2; have b4' := b4; have b6' := b6; have b8' := b8
  rw [abs_of_nonpos (by linarith : p1 - f2 ≤ 0)] at b2'
  rw [abs_of_nonneg (by linarith : 0 ≤ f1 - p2)] at b4'
  rw [abs_of_nonpos (by linarith : p2 - f1 ≤ 0)] at b6'
  rw [abs_of_nonneg (by linarith : 0 ≤ f2 - p1)] at b8'
  rcases m2 with ⟨g1, g2, e2⟩ | ⟨hf, e1, e2⟩ | ⟨hp, e1, e2⟩ | ⟨hp, hf, e1, e2⟩
  · -- train 2 interior
    rcases m1 with ⟨_, _, e1⟩ | ⟨k1, _, e1⟩ | ⟨_, k2, e1⟩
    · left
      rw [e1, e2]
      exact ⟨C1_I_tri t p1 f1 p2 f2 dp1 df1 hp1 hf1 hpf1 hp2 hf2 b1 b2 b3 b4, by linarith⟩
    · -- train 1 at its start edge: `p1 ≤ ts ≤ p2`
      have hp : p1 ≤ p2 := le_trans k1 g1
      rcases le_total f1 f2 with hf | hf
      · left
        rw [abs_of_nonpos (by linarith : f1 - f2 ≤ 0)] at b3
        rw [e1, e2]
        exact ⟨by linarith, by linarith⟩
      · right; left
        rw [abs_of_nonneg (by linarith : 0 ≤ f1 - f2)] at b3
        rw [e1, e2]
        exact ⟨by linarith, C1_I_nested t p2 f2 p1 f1 dp2 df2 hp2 hf2 hpf2 hp hf b5 b6 b7 b8⟩
    · -- train 1 at its end edge: `f2 ≤ te ≤ f1`
      have hf : f2 ≤ f1 := le_trans g2 k2
      rcases le_total p1 p2 with hp | hp
      · right; left
        rw [abs_of_nonpos (by linarith : p1 - p2 ≤ 0)] at b1
        rw [e1, e2]
        exact ⟨by linarith, C1_I_nested t p2 f2 p1 f1 dp2 df2 hp2 hf2 hpf2 hp hf b5 b6 b7 b8⟩
      · left
        rw [abs_of_nonneg (by linarith : 0 ≤ p1 - p2)] at b1
        rw [e1, e2]
        exact ⟨by linarith, by linarith⟩
  · -- both at the start edge, `f2 ≤ f1`
    right; left
    rw [abs_of_nonneg (by linarith : 0 ≤ f1 - f2)] at b3
    rw [abs_of_nonpos (by linarith : f2 - f1 ≤ 0)] at b7
    rw [e1, e2]
    exact ⟨by linarith, by linarith⟩
  · -- both at the end edge, `p1 ≤ p2`
    right; left
    rw [abs_of_nonpos (by linarith : p1 - p2 ≤ 0)] at b1
    rw [abs_of_nonneg (by linarith : 0 ≤ p2 - p1)] at b5
    rw [e1, e2]
    exact ⟨by linarith, by linarith⟩
  · -- train 1 at its start edge, train 2 at its end edge
    left
    rw [abs_of_nonpos (by linarith : f1 - f2 ≤ 0)] at b3
    rw [abs_of_nonneg (by linarith : 0 ≤ p2 - p1)] at b5
    rw [e1, e2]
    exact ⟨by linarith, by linarith⟩

/-- plain variant: in every combination of modes one of the three sufficient conditions of
    `C1_plain_fin` holds -/
theorem C1_abs_plain (ts te t p1 f1 p2 f2 dp1 df1 dp2 df2 s1 s2 : Q)
    (hp1 : p1 ≤ t) (hf1 : t ≤ f1) (hpf1 : p1 < f1) (hp2 : p2 ≤ t) (hf2 : t ≤ f2) (hpf2 : p2 < f2)
    (b1 : dp1 ≤ |p1 - p2|) (b2 : dp1 ≤ |p1 - f2|) (b3 : df1 ≤ |f1 - f2|) (b4 : df1 ≤ |f1 - p2|)
    (b5 : dp2 ≤ |p2 - p1|) (b6 : dp2 ≤ |p2 - f1|) (b7 : df2 ≤ |f2 - f1|) (b8 : df2 ≤ |f2 - p1|)
    (m1 : C1_Mode ts te t p1 f1 dp1 df1 s1) (m2 : C1_Mode ts te t p2 f2 dp2 df2 s2) :
    (s1 ≤ ((f1 - p1) + (f2 - p2)) / 2 ∧ s2 ≤ ((f1 - p1) + (f2 - p2)) / 2) ∨
    (s1 ≤ f1 - p1 ∧ s2 ≤ (f1 - p1) / 2) ∨ (s2 ≤ f2 - p2 ∧ s1 ≤ (f2 - p2) / 2) := by
  -- the same statement with the trains swapped
  have swap : ∀ (_ : (s2 ≤ ((f2 - p2) + (f1 - p1)) / 2 ∧ s1 ≤ ((f2 - p2) + (f1 - p1)) / 2) ∨
      (s2 ≤ f2 - p2 ∧ s1 ≤ (f2 - p2) / 2) ∨ (s1 ≤ f1 - p1 ∧ s2 ≤ (f1 - p1) / 2)),
      (s1 ≤ ((f1 - p1) + (f2 - p2)) / 2 ∧ s2 ≤ ((f1 - p1) + (f2 - p2)) / 2) ∨
      (s1 ≤ f1 - p1 ∧ s2 ≤ (f1 - p1) / 2) ∨ (s2 ≤ f2 - p2 ∧ s1 ≤ (f2 - p2) / 2) := by
    rintro (⟨a, b⟩ | ⟨a, b⟩ | ⟨a, b⟩)
    · left; exact ⟨by linarith, by linarith⟩
    · right; right; exact ⟨a, b⟩
    · right; left; exact ⟨a, b⟩
  have direct := C1_abs_plain_half ts te t p1 f1 p2 f2 dp1 df1 dp2 df2 s1 s2
    hp1 hf1 hpf1 hp2 hf2 hpf2 b1 b2 b3 b4 b5 b6 b7 b8 m1
  have swapped := C1_abs_plain_half ts te t p2 f2 p1 f1 dp2 df2 dp1 df1 s2 s1
    hp2 hf2 hpf2 hp1 hf1 hpf1 b5 b6 b7 b8 b1 b2 b3 b4 m2
  rcases m2 with ⟨g1, g2, e2⟩ | ⟨g1, g2, e2⟩ | ⟨g1, g2, e2⟩
  · exact direct (Or.inl ⟨g1, g2, e2⟩)
  · -- train 2 at its start edge
    rcases m1 with ⟨k1, k2, e1⟩ | ⟨k1, k2, e1⟩ | ⟨k1, k2, e1⟩
    · exact swap (swapped (Or.inl ⟨k1, k2, e1⟩))
    · rcases le_total f2 f1 with hf | hf
      · exact direct (Or.inr (Or.inl ⟨hf, e1, e2⟩))
      · exact swap (swapped (Or.inr (Or.inl ⟨hf, e2, e1⟩)))
    · exact swap (swapped (Or.inr (Or.inr (Or.inr ⟨le_trans g1 k1, le_trans g2 k2, e2, e1⟩))))
  · -- train 2 at its end edge
    rcases m1 with ⟨k1, k2, e1⟩ | ⟨k1, k2, e1⟩ | ⟨k1, k2, e1⟩
    · exact swap (swapped (Or.inl ⟨k1, k2, e1⟩))
    · exact direct (Or.inr (Or.inr (Or.inr ⟨le_trans k1 g1, le_trans k2 g2, e1, e2⟩)))
    · rcases le_total p1 p2 with hp | hp
      · exact direct (Or.inr (Or.inr (Or.inl ⟨hp, e1, e2⟩)))
      · exact swap (swapped (Or.inr (Or.inr (Or.inl ⟨hp, e2, e1⟩))))

/-- `dist_at_t ≤ 1` from the two real targets -/
theorem C1_distAtT_le_one (i1 i2 s1 s2 m : Q) (ri : Bool) (h1 : 0 < i1) (h2 : 0 < i2)
    (hri : s1 + s2 ≤ i1 + i2) (hpl : s1 * i2 + s2 * i1 ≤ (i1 + i2) ^ 2 / 2) :
    distAtT i1 i2 s1 s2 m ri ≤ 1 := by
  unfold distAtT
  simp only
  have hmean : 0 < (i1 + i2) / 2 := by positivity
  have hle : (i1 + i2) / 2 ≤ max m ((i1 + i2) / 2) := le_max_right _ _
  have hlim : 0 < max m ((i1 + i2) / 2) := lt_of_lt_of_le hmean hle
  split
  · rw [div_le_one hlim]
    linarith
  · rw [div_le_one (mul_pos hmean hlim)]
    have := mul_le_mul_of_nonneg_left hle (le_of_lt hmean)
    nlinarith [this]

/-! ## Part 2 — facts (a)–(c) about `dtTo` and the extended train -/

/-- (a) `dtTo x e` is a lower bound of the distances to the elements of `e` … -/
theorem C1_dtTo_le_abs (x y : Q) (e : List Q) (hy : y ∈ e) : dtTo x e ≤ |x - y| := by
  rw [← qabs_eq_abs]; exact B4_dtTo_le_of_mem x y e hy

/-- (a) … and it is attained -/
theorem C1_dtTo_attained (x : Q) (e : List Q) (he : e ≠ []) : ∃ y ∈ e, dtTo x e = |x - y| := by
  obtain ⟨w, hw, h⟩ := B4_dtTo_mem x e he
  exact ⟨w, hw, by rw [h, qabs_eq_abs]⟩

/-- (c) triangle inequality for the distance to the nearest element -/
theorem C1_dtTo_triangle (z t : Q) (e : List Q) (he : e ≠ []) : dtTo z e ≤ |z - t| + dtTo t e := by
  obtain ⟨w, hw, h⟩ := C1_dtTo_attained t e he
  rw [h]
  refine le_trans (C1_dtTo_le_abs z w e hw) ?_
  have : z - w = (z - t) + (t - w) := by ring
  rw [this]
  exact abs_add_le _ _

theorem C1_extTrain_ne_nil (s : List Q) (ts te : Q) : extTrain s ts te ≠ [] := by
  unfold extTrain; simp

theorem C1_auxStart_mem (s : List Q) (ts te : Q) : auxStart s ts ∈ extTrain s ts te := by
  unfold extTrain; simp

theorem C1_auxEnd_mem (s : List Q) (ts te : Q) : auxEnd s te ∈ extTrain s ts te := by
  unfold extTrain; simp

/-- (b) for a time between two elements `p ≤ t ≤ f` of a list, the distance to the nearest element
    is at most half the gap -/
theorem C1_dtTo_le_half (t p f : Q) (e : List Q) (hp : p ∈ e) (hf : f ∈ e) (hpt : p ≤ t) (htf : t ≤ f) :
    dtTo t e ≤ (f - p) / 2 := by
  have a := C1_dtTo_le_abs t p e hp
  have b := C1_dtTo_le_abs t f e hf
  rw [abs_of_nonneg (by linarith)] at a
  rw [abs_of_nonpos (by linarith)] at b
  linarith

/-- identity (b) in cursor form: the interval length carried for a split `s = c ++ r` is the
    distance between the two neighbouring elements `tp`, `tf` of the EXTENDED train (`tp` = last
    consumed spike or the auxiliary start spike, `tf` = next spike or the auxiliary end spike) -/
theorem C1_stateOf_isi (s eo : List Q) (ts te : Q) (c r : List Q) (hsplit : s = c ++ r) (hne : s ≠ []) :
    (B4_stateOf s eo ts te c r).isi
      = (B4_stateOf s eo ts te c r).tf - (B4_stateOf s eo ts te c r).tp := by
  subst hsplit
  rcases List.eq_nil_or_concat c with hcn | ⟨c', q, hcq⟩
  · subst hcn
    cases r with
    | nil => exact absurd rfl hne
    | cons a r' =>
      simp only [B4_stateOf, B4_nuform, List.getLast?_nil, List.nil_append, B4_auxStart_cons]
      ring
  · rw [List.concat_eq_append] at hcq
    subst hcq
    cases r with
    | nil =>
      simp only [B4_stateOf, B4_nuform, List.append_nil, List.getLast?_append,
        List.getLast?_singleton, Option.some_or, List.dropLast_concat, B4_auxEnd_snoc]
      ring
    | cons a r' =>
      simp only [B4_stateOf, B4_nuform, List.getLast?_append, List.getLast?_singleton,
        Option.some_or]

/-- the contribution `v` and the interval length `i` of train `s` at time `t`, described through
    the two neighbours `p ≤ t ≤ f` of `t` in the extended train; `eo` is the other extended train -/
def C1_Bracket (s eo : List Q) (ts te t v i : Q) : Prop :=
  ∃ p f, p ∈ extTrain s ts te ∧ f ∈ extTrain s ts te ∧ p ≤ t ∧ t ≤ f ∧ i = f - p ∧
    C1_Mode ts te t p f (dtTo p eo) (dtTo f eo) v

/-- identity (b) and the three modes for the cursor form of `spikeContrib` -/
theorem C1_cform_bracket (s eo : List Q) (ts te t : Q) (c r : List Q) (hv : ValidNE s ts te)
    (hsplit : s = c ++ r) (hc : ∀ z ∈ c, z ≤ t) (hr : ∀ z ∈ r, t ≤ z) (hts : ts ≤ t) (hte : t ≤ te) :
    C1_Bracket s eo ts te t (B4_cform eo ts te c r t).1 (B4_cform eo ts te c r t).2 := by
  obtain ⟨hne, hs, hb⟩ := hv
  subst hsplit
  rcases List.eq_nil_or_concat c with hcn | ⟨c', q, hcq⟩
  · subst hcn
    cases r with
    | nil => exact absurd rfl hne
    | cons a r' =>
      rw [B4_cform_nil_cons]
      refine ⟨auxStart ([] ++ a :: r') ts, a, C1_auxStart_mem _ _ _,
        B4_mem_extTrain _ _ _ _ (by simp), le_trans (B4_auxStart_le _ _) hts, hr a (by simp), ?_,
        Or.inr (Or.inl ⟨B4_auxStart_le _ _, (hb a (by simp)).2, rfl⟩)⟩
      simp only [List.nil_append, B4_auxStart_cons]
      ring
  · rw [List.concat_eq_append] at hcq
    subst hcq
    cases r with
    | nil =>
      rw [B4_cform_snoc_nil]
      refine ⟨q, auxEnd (c' ++ [q] ++ []) te, B4_mem_extTrain _ _ _ _ (by simp),
        C1_auxEnd_mem _ _ _, hc q (by simp), le_trans hte (B4_te_le_auxEnd _ _), ?_,
        Or.inr (Or.inr ⟨(hb q (by simp)).1, B4_te_le_auxEnd _ _, rfl⟩)⟩
      simp only [List.append_nil, B4_auxEnd_snoc]
      ring
    | cons a r' =>
      rw [B4_cform_snoc_cons]
      exact ⟨q, a, B4_mem_extTrain _ _ _ _ (by simp), B4_mem_extTrain _ _ _ _ (by simp),
        hc q (by simp), hr a (by simp), rfl,
        Or.inl ⟨(hb q (by simp)).1, (hb a (by simp)).2, rfl⟩⟩

/-- identity (b) and the three modes for `spikeContrib` itself (both one-sided limits) -/
theorem C1_contrib_bracket (s o : List Q) (ts te t : Q) (right : Bool) (hv : ValidNE s ts te)
    (hts : ts ≤ t) (hte : t ≤ te) :
    C1_Bracket s (extTrain o ts te) ts te t (spikeContrib s o ts te t right).1
      (spikeContrib s o ts te t right).2 := by
  obtain ⟨hne, hs, hb⟩ := hv
  cases right
  · have hsplit := B4_filter_lt_append_le s t hs
    have hc : ∀ z ∈ s.filter (· < t), z < t := fun z hz => by simpa using (List.mem_filter.mp hz).2
    have hr : ∀ z ∈ s.filter (t ≤ ·), t ≤ z := fun z hz => by simpa using (List.mem_filter.mp hz).2
    rw [B4_contrib_left s o ts te t _ _ hsplit hs hne hc hr]
    exact C1_cform_bracket s _ ts te t _ _ ⟨hne, hs, hb⟩ hsplit (fun z hz => le_of_lt (hc z hz)) hr
      hts hte
  · have hsplit := B4_filter_le_append_lt s t hs
    have hc : ∀ z ∈ s.filter (· ≤ t), z ≤ t := fun z hz => by simpa using (List.mem_filter.mp hz).2
    have hr : ∀ z ∈ s.filter (t < ·), t < z := fun z hz => by simpa using (List.mem_filter.mp hz).2
    rw [B4_contrib_right s o ts te t _ _ hsplit hs hne hc hr]
    exact C1_cform_bracket s _ ts te t _ _ ⟨hne, hs, hb⟩ hsplit hc (fun z hz => le_of_lt (hr z hz))
      hts hte

/-- (b) the distance from `t` to the nearest element of the extended train of `s` is at most half
    the interval length the profile uses for `s` at `t` -/
theorem C1_delta_le_half_isi (s o : List Q) (ts te t : Q) (right : Bool) (hv : ValidNE s ts te)
    (hts : ts ≤ t) (hte : t ≤ te) :
    dtTo t (extTrain s ts te) ≤ (spikeContrib s o ts te t right).2 / 2 := by
  obtain ⟨p, f, hpm, hfm, hp, hf, e, _⟩ := C1_contrib_bracket s o ts te t right hv hts hte
  rw [e]
  exact C1_dtTo_le_half t p f _ hpm hfm hp hf

/-! ## Part 3 — the bound for two bracketed trains -/

/-- the eight linear bounds of fact (a) between two brackets, then `C1_abs_ri` / `C1_abs_plain` -/
theorem C1_bracket_le_one (s1 s2 : List Q) (ts te t m : Q) (ri : Bool) (v1 i1 v2 i2 : Q)
    (h1 : C1_Bracket s1 (extTrain s2 ts te) ts te t v1 i1)
    (h2 : C1_Bracket s2 (extTrain s1 ts te) ts te t v2 i2) (hi1 : 0 < i1) (hi2 : 0 < i2) :
    distAtT i1 i2 v1 v2 m ri ≤ 1 := by
  obtain ⟨p1, f1, hp1m, hf1m, hp1, hf1, e1, m1⟩ := h1
  obtain ⟨p2, f2, hp2m, hf2m, hp2, hf2, e2, m2⟩ := h2
  have hpf1 : p1 < f1 := by linarith
  have hpf2 : p2 < f2 := by linarith
  have b1 := C1_dtTo_le_abs p1 p2 _ hp2m
  have b2 := C1_dtTo_le_abs p1 f2 _ hf2m
  have b3 := C1_dtTo_le_abs f1 f2 _ hf2m
  have b4 := C1_dtTo_le_abs f1 p2 _ hp2m
  have b5 := C1_dtTo_le_abs p2 p1 _ hp1m
  have b6 := C1_dtTo_le_abs p2 f1 _ hf1m
  have b7 := C1_dtTo_le_abs f2 f1 _ hf1m
  have b8 := C1_dtTo_le_abs f2 p1 _ hp1m
  apply C1_distAtT_le_one _ _ _ _ m ri hi1 hi2
  · rw [e1, e2]
    exact C1_abs_ri t p1 f1 p2 f2 _ _ _ _ v1 v2 hp1 hf1 hp2 hf2 b1 b2 b3 b4 b5 b6 b7 b8
      (C1_mode_le_max m1 hp1 hf1 hpf1) (C1_mode_le_max m2 hp2 hf2 hpf2)
  · apply C1_plain_fin _ _ _ _ hi1 hi2
    rw [e1, e2]
    exact C1_abs_plain ts te t p1 f1 p2 f2 _ _ _ _ v1 v2 hp1 hf1 hpf1 hp2 hf2 hpf2
      b1 b2 b3 b4 b5 b6 b7 b8 m1 m2

/-- **The defined SPIKE dissimilarity never exceeds 1**: right limits on `[ts, te)`, left limits on
    `(ts, te]`, every MRTS `m`, both variants `ri`. -/
theorem spikeSpec_le_one (t1 t2 : List Q) (ts te m : Q) (ri : Bool) (h1 : ValidNE t1 ts te)
    (h2 : ValidNE t2 ts te) (t : Q) (right : Bool)
    (hl : if right then ts ≤ t else ts < t) (hu : if right then t < te else t ≤ te) :
    spikeSpec t1 t2 ts te m ri t right ≤ 1 := by
  obtain ⟨_, b1⟩ := B4_contrib_sign t1 t2 ts te t h1 right hl hu
  obtain ⟨_, b2⟩ := B4_contrib_sign t2 t1 ts te t h2 right hl hu
  have hts : ts ≤ t := by cases right <;> simp at hl <;> linarith
  have hte : t ≤ te := by cases right <;> simp at hu <;> linarith
  unfold spikeSpec
  exact C1_bracket_le_one t1 t2 ts te t m ri _ _ _ _
    (C1_contrib_bracket t1 t2 ts te t right h1 hts hte)
    (C1_contrib_bracket t2 t1 ts te t right h2 hts hte) b1 b2

example : ValidNE [1, 3] 0 6 ∧ ValidNE [2, 3, 6] 0 6 ∧
    (if true then (0 : Q) ≤ 5/2 else (0 : Q) < 5/2) ∧ (if true then (5/2 : Q) < 6 else (5/2 : Q) ≤ 6) := by
  unfold ValidNE; decide +kernel

/-- the value bounded in that example is non-trivial: `S(5/2⁺) = 5/18` (plain), `1/4` (RI) -/
example : spikeSpec [1, 3] [2, 3, 6] 0 6 0 false (5/2) true = 5/18 ∧
    spikeSpec [1, 3] [2, 3, 6] 0 6 0 true (5/2) true = 1/4 := by decide +kernel

/-- **Interior case** (the time lies between two real spikes of both trains): here even each
    contribution separately is at most the mean interval length `(i₁+i₂)/2` (triangle inequality,
    `C1_I_tri`), which gives both variants of the bound at once. -/
theorem spike_le_one_interior (s1 s2 : List Q) (ts te t m : Q) (ri : Bool) (v1 i1 v2 i2 p1 f1 p2 f2 : Q)
    (hp1m : p1 ∈ extTrain s1 ts te) (hf1m : f1 ∈ extTrain s1 ts te)
    (hp2m : p2 ∈ extTrain s2 ts te) (hf2m : f2 ∈ extTrain s2 ts te)
    (hp1 : p1 ≤ t) (hf1 : t ≤ f1) (hpf1 : p1 < f1) (hp2 : p2 ≤ t) (hf2 : t ≤ f2) (hpf2 : p2 < f2)
    (e1 : i1 = f1 - p1) (e2 : i2 = f2 - p2)
    (ev1 : v1 = (dtTo p1 (extTrain s2 ts te) * (f1 - t) + dtTo f1 (extTrain s2 ts te) * (t - p1)) / (f1 - p1))
    (ev2 : v2 = (dtTo p2 (extTrain s1 ts te) * (f2 - t) + dtTo f2 (extTrain s1 ts te) * (t - p2)) / (f2 - p2)) :
    v1 ≤ (i1 + i2) / 2 ∧ v2 ≤ (i1 + i2) / 2 ∧ distAtT i1 i2 v1 v2 m ri ≤ 1 := by
  have a1 : v1 ≤ (i1 + i2) / 2 := by
    rw [ev1, e1, e2]
    exact C1_I_tri t p1 f1 p2 f2 _ _ hp1 hf1 hpf1 hp2 hf2 (C1_dtTo_le_abs p1 p2 _ hp2m)
      (C1_dtTo_le_abs p1 f2 _ hf2m) (C1_dtTo_le_abs f1 f2 _ hf2m) (C1_dtTo_le_abs f1 p2 _ hp2m)
  have a2 : v2 ≤ (i1 + i2) / 2 := by
    rw [ev2, e1, e2]
    have := C1_I_tri t p2 f2 p1 f1 _ _ hp2 hf2 hpf2 hp1 hf1 (C1_dtTo_le_abs p2 p1 _ hp1m)
      (C1_dtTo_le_abs p2 f1 _ hf1m) (C1_dtTo_le_abs f2 f1 _ hf1m) (C1_dtTo_le_abs f2 p1 _ hp1m)
    linarith
  have hi1 : 0 < i1 := by linarith
  have hi2 : 0 < i2 := by linarith
  refine ⟨a1, a2, C1_distAtT_le_one _ _ _ _ m ri hi1 hi2 (by linarith)
    (C1_plain_fin _ _ _ _ hi1 hi2 (Or.inl ⟨a1, a2⟩))⟩

/-- hypotheses of `spike_le_one_interior` on `[1,3]`, `[2,3,6]` in `[0,6]` at `t = 5/2`:
    `p₁ = 1, f₁ = 3, p₂ = 2, f₂ = 3` -/
example : (1 : Q) ∈ extTrain [1, 3] 0 6 ∧ (3 : Q) ∈ extTrain [1, 3] 0 6 ∧
    (2 : Q) ∈ extTrain [2, 3, 6] 0 6 ∧ (3 : Q) ∈ extTrain [2, 3, 6] 0 6 ∧
    (1 : Q) ≤ 5/2 ∧ (5/2 : Q) ≤ 3 ∧ (2 : Q) ≤ 5/2 ∧
    (spikeContrib [1, 3] [2, 3, 6] 0 6 (5/2) true).2 = 3 - 1 ∧
    (spikeContrib [2, 3, 6] [1, 3] 0 6 (5/2) true).2 = 3 - 2 ∧
    (spikeContrib [1, 3] [2, 3, 6] 0 6 (5/2) true).1 =
      (dtTo 1 (extTrain [2, 3, 6] 0 6) * (3 - 5/2) + dtTo 3 (extTrain [2, 3, 6] 0 6) * (5/2 - 1)) / (3 - 1) ∧
    (spikeContrib [2, 3, 6] [1, 3] 0 6 (5/2) true).1 =
      (dtTo 2 (extTrain [1, 3] 0 6) * (3 - 5/2) + dtTo 3 (extTrain [1, 3] 0 6) * (5/2 - 2)) / (3 - 2) := by
  decide +kernel

/-- **Edge cases fail the per-train bound.**  `t1 = [5]`, `t2 = [1/10]` on `[0,10]` at `t = 0⁺`:
    both trains are before their first spike, `s₁ = 49/10`, `i₁ = 5`, `i₂ = 1/10`, so
    `s₁ > (i₁+i₂)/2 = 51/20`; the sum bounds still hold (`s₂ = 1/10`, condition (B) of
    `C1_plain_fin`: `s₁ ≤ i₁`, `s₂ ≤ i₁/2`) and the profile value is `50/51` (RI). -/
example : (spikeContrib [5] [1/10] 0 10 0 true) = (49/10, 5) ∧
    (spikeContrib [1/10] [5] 0 10 0 true) = (1/10, 1/10) ∧
    ((5 : Q) + 1/10) / 2 < 49/10 ∧
    spikeSpec [5] [1/10] 0 10 0 true 0 true = 50/51 := by decide +kernel

/-- **Edge cases** (at least one train before its first / after its last real spike), in the
    abstract form: whatever the modes of the two trains are, the two sum bounds hold. -/
theorem spike_le_one_edge (ts te t p1 f1 p2 f2 dp1 df1 dp2 df2 s1 s2 : Q)
    (hp1 : p1 ≤ t) (hf1 : t ≤ f1) (hpf1 : p1 < f1) (hp2 : p2 ≤ t) (hf2 : t ≤ f2) (hpf2 : p2 < f2)
    (b1 : dp1 ≤ |p1 - p2|) (b2 : dp1 ≤ |p1 - f2|) (b3 : df1 ≤ |f1 - f2|) (b4 : df1 ≤ |f1 - p2|)
    (b5 : dp2 ≤ |p2 - p1|) (b6 : dp2 ≤ |p2 - f1|) (b7 : df2 ≤ |f2 - f1|) (b8 : df2 ≤ |f2 - p1|)
    (m1 : C1_Mode ts te t p1 f1 dp1 df1 s1) (m2 : C1_Mode ts te t p2 f2 dp2 df2 s2) :
    s1 + s2 ≤ (f1 - p1) + (f2 - p2) ∧
    s1 * (f2 - p2) + s2 * (f1 - p1) ≤ ((f1 - p1) + (f2 - p2)) ^ 2 / 2 :=
  ⟨C1_abs_ri t p1 f1 p2 f2 dp1 df1 dp2 df2 s1 s2 hp1 hf1 hp2 hf2 b1 b2 b3 b4 b5 b6 b7 b8
      (C1_mode_le_max m1 hp1 hf1 hpf1) (C1_mode_le_max m2 hp2 hf2 hpf2),
    C1_plain_fin _ _ _ _ (by linarith) (by linarith)
      (C1_abs_plain ts te t p1 f1 p2 f2 dp1 df1 dp2 df2 s1 s2 hp1 hf1 hpf1 hp2 hf2 hpf2
        b1 b2 b3 b4 b5 b6 b7 b8 m1 m2)⟩

/-- a start-edge / end-edge instance of `spike_le_one_edge`: `p₁ = 0 ≤ ts = 0`, `f₁ = 5`,
    `p₂ = 1`, `f₂ = 12 ≥ te = 10`, `t = 2`, distances `d(f₁) = 4 ≤ |5-1|`, `d(p₂) = 1 ≤ |1-0|` -/
example : C1_Mode 0 10 2 0 5 0 4 4 ∧ C1_Mode 0 10 2 1 12 1 0 1 ∧
    (0 : Q) ≤ |0 - 1| ∧ (0 : Q) ≤ |0 - 12| ∧ (4 : Q) ≤ |5 - 12| ∧ (4 : Q) ≤ |5 - 1| ∧
    (1 : Q) ≤ |1 - 0| ∧ (1 : Q) ≤ |1 - 5| ∧ (0 : Q) ≤ |12 - 5| ∧ (0 : Q) ≤ |12 - 0| := by
  unfold C1_Mode; refine ⟨?_, ?_, ?_, ?_, ?_, ?_, ?_, ?_, ?_, ?_⟩ <;> norm_num

/-- **All values of the SPIKE-profile are `≤ 1`** (valid trains, away from finding F9), for every
    MRTS `m` and both variants `ri`. -/
theorem spikeProfile_le_one (t1 t2 : List Q) (ts te m : Q) (ri : Bool)
    (h1 : ValidNE t1 ts te) (h2 : ValidNE t2 ts te) (hlt : ts < te)
    (hn1 : ¬ OneSpikeOnStart t1 ts) (hn2 : ¬ OneSpikeOnStart t2 ts) :
    ∀ v ∈ (spikeProfile t1 t2 ts te m ri).2.1 ++ (spikeProfile t1 t2 ts te m ri).2.2, v ≤ 1 := by
  have hmain := spikeProfile_eq_spec_partial t1 t2 ts te m ri h1 h2 hlt hn1 hn2
  rw [B4_specProfile_eq] at hmain
  have hy1 := congrArg Prod.fst hmain
  have hy2 := congrArg Prod.snd hmain
  simp only at hy1 hy2
  obtain ⟨hsorted, hmem⟩ := isiProfile_breaks t1 t2 ts te 0 hlt h1 h2
  rw [← spikeProfile_breaks t1 t2 ts te m ri] at hsorted hmem
  have hbnd : ∀ x ∈ (spikeProfile t1 t2 ts te m ri).1, ts ≤ x ∧ x ≤ te := by
    intro x hx
    rcases (hmem x).mp hx with h | h | ⟨h, h', _⟩
    · rw [h]; exact ⟨le_refl _, le_of_lt hlt⟩
    · rw [h]; exact ⟨le_of_lt hlt, le_refl _⟩
    · exact ⟨le_of_lt h, le_of_lt h'⟩
  intro v hv
  rcases List.mem_append.mp hv with hv | hv
  · rw [hy1] at hv
    obtain ⟨x, hx, rfl⟩ := List.mem_map.mp hv
    obtain ⟨y, hy, hxy⟩ := B4_mem_dropLast_lt _ hsorted x hx
    exact spikeSpec_le_one t1 t2 ts te m ri h1 h2 x true
      (by simpa using (hbnd x (List.mem_of_mem_dropLast hx)).1)
      (by simpa using lt_of_lt_of_le hxy (hbnd y hy).2)
  · rw [hy2] at hv
    obtain ⟨x, hx, rfl⟩ := List.mem_map.mp hv
    obtain ⟨y, hy, hyx⟩ := B4_mem_tail_gt _ hsorted x hx
    exact spikeSpec_le_one t1 t2 ts te m ri h1 h2 x false
      (by simpa using lt_of_le_of_lt (hbnd y hy).1 hyx)
      (by simpa using (hbnd x (List.mem_of_mem_tail hx)).2)

/-- hypotheses of `spikeProfile_le_one` -/
example : ValidNE [0, 1, 3] 0 6 ∧ ValidNE [2, 3, 6] 0 6 ∧ (0 : Q) < 6 ∧
    ¬ OneSpikeOnStart [0, 1, 3] 0 ∧ ¬ OneSpikeOnStart [2, 3, 6] 0 := by
  unfold ValidNE; decide +kernel

/-- the profile bounded in that example (plain variant): non-trivial values, all `≤ 1` -/
example : (spikeProfile [0, 1, 3] [2, 3, 6] 0 6 0 false).2.1 = [2/9, 1/2, 5/9, 0] ∧
    (spikeProfile [0, 1, 3] [2, 3, 6] 0 6 0 false).2.2 = [2/3, 3/8, 0, 0] := by decide +kernel

end PySpike
