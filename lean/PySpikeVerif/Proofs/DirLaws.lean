/-
  Proofs/DirLaws.lean — work package D5 (properties C04, C16): the directionality scan computes the
  pairwise definition (`dirSpec1/2`), `spike_directionality_values` is the average over the other
  trains, value range / cancellation, API-level max_tau bound, and the multivariate spike-train
  order as ratio of pair sums.
-/
import PySpikeVerif.Spec.Sync
import PySpikeVerif.Proofs.Basic
import PySpikeVerif.Proofs.TauLaws
import PySpikeVerif.Proofs.SyncScan
import PySpikeVerif.Proofs.OrderLaws
import PySpikeVerif.Proofs.FilterLaws
import PySpikeVerif.Proofs.ApiLaws
import Mathlib.Tactic.Linarith
import Mathlib.Tactic.Ring
import Mathlib.Algebra.Order.Field.Rat
import Mathlib.Data.List.Basic

namespace PySpike

/-! ## A. the directionality scan computes the pairwise definition -/

/-- the coincidence relation does not depend on the order of the two trains (different times) -/
theorem D5_coinc_swap (s1 s2 : List Q) (tm m a b : Q) (hab : a ≠ b) :
    Coinc s2 s1 tm m b a ↔ Coinc s1 s2 tm m a b := by
  unfold Coinc tauSpec
  rw [getTau_swap _ _ _ _ b a tm m (Ne.symm hab)]
  have : qabs (b - a) = qabs (a - b) := by rw [qabs_eq_abs, qabs_eq_abs, abs_sub_comm]
  rw [this]

/-- directionality value of spike `a` of train `s` against the partners in `K` (a sub-list of the
    other train `s'`): -1 if it follows a partner, +1 if it leads one -/
def D5_M (s s' : List Q) (tm m : Q) (K : List Q) (a : Q) : Q := B1_markP1 (-1) 1 s s' tm m K a

theorem D5_M_full (s s' : List Q) (tm m a : Q) : D5_M s s' tm m s' a = mark1 (-1) 1 s s' tm m a := rfl

theorem D5_M_congr (s s' : List Q) (tm m : Q) {K K' : List Q} (h : ∀ x, x ∈ K ↔ x ∈ K') (a : Q) :
    D5_M s s' tm m K a = D5_M s s' tm m K' a := by
  unfold D5_M B1_markP1
  rw [B1_any_congr _ h, B1_any_congr _ h]

theorem D5_M_cons_not (s s' : List Q) (tm m : Q) {K : List Q} {a b : Q}
    (h : b ≠ a → ¬ Coinc s s' tm m a b) : D5_M s s' tm m (b :: K) a = D5_M s s' tm m K a := by
  have e1 : decide (b < a ∧ Coinc s s' tm m a b) = false := by
    simp only [decide_eq_false_iff_not, not_and]
    intro hba; exact h (ne_of_lt hba)
  have e2 : decide (a < b ∧ Coinc s s' tm m a b) = false := by
    simp only [decide_eq_false_iff_not, not_and]
    intro hab; exact h (ne_of_gt hab)
  unfold D5_M B1_markP1
  simp only [List.any_cons, e1, e2, Bool.false_or]

theorem D5_M_nil (s s' : List Q) (tm m a : Q) : D5_M s s' tm m [] a = 0 := by
  simp [D5_M, B1_markP1]

/-- no partner in `K` at a different time is coincident: value 0 -/
theorem D5_M_zero (s s' : List Q) (tm m : Q) {K : List Q} {a : Q}
    (h : ∀ b ∈ K, b ≠ a → ¬ Coinc s s' tm m a b) : D5_M s s' tm m K a = 0 := by
  induction K with
  | nil => exact D5_M_nil s s' tm m a
  | cons b K ih =>
    rw [D5_M_cons_not s s' tm m (h b List.mem_cons_self)]
    exact ih (fun x hx => h x (List.mem_cons_of_mem _ hx))

/-- simultaneous spikes have no other partner (trains strictly increasing) -/
theorem D5_tie_not_gt {s1 s2 : List Q} (h1 : StrictSorted s1) (h2 : StrictSorted s2) {tm m a b : Q}
    (hc : Coinc s1 s2 tm m a b) (hba : b < a) (ha2 : a ∈ s2) : False :=
  (B1_adj_gt h1 h2 hc hba).2 a ha2 hba (le_refl a)

theorem D5_tie_not_lt {s1 s2 : List Q} (h1 : StrictSorted s1) (h2 : StrictSorted s2) {tm m a b : Q}
    (hc : Coinc s1 s2 tm m a b) (hab : a < b) (hb1 : b ∈ s1) : False :=
  (B1_adj_lt h1 h2 hc hab).1 b hb1 hab (le_refl b)

/-- state invariant of `dirLoop`: the value lists are the directionality values of the consumed
    spikes against the consumed spikes of the other train -/
structure D5_SInv (tm m : Q) (s1 s2 k1 r1 k2 r2 d1 d2 : List Q) : Prop where
  e1 : s1 = k1.reverse ++ r1
  e2 : s2 = k2.reverse ++ r2
  st1 : StrictSorted s1
  st2 : StrictSorted s2
  c21 : ∀ x ∈ k2, ∀ y ∈ r1, x < y
  c12 : ∀ x ∈ k1, ∀ y ∈ r2, x < y
  v1 : d1 = k1.map (D5_M s1 s2 tm m k2)
  v2 : d2 = k2.map (D5_M s2 s1 tm m k1)

theorem D5_SInv.symm {tm m : Q} {s1 s2 k1 r1 k2 r2 d1 d2 : List Q}
    (h : D5_SInv tm m s1 s2 k1 r1 k2 r2 d1 d2) : D5_SInv tm m s2 s1 k2 r2 k1 r1 d2 d1 :=
  ⟨h.e2, h.e1, h.st2, h.st1, h.c12, h.c21, h.v2, h.v1⟩

theorem D5_SInv.init (tm m : Q) {s1 s2 : List Q} (h1 : StrictSorted s1) (h2 : StrictSorted s2) :
    D5_SInv tm m s1 s2 [] s1 [] s2 [] [] :=
  ⟨by simp, by simp, h1, h2, fun _ hx => absurd hx List.not_mem_nil,
    fun _ hx => absurd hx List.not_mem_nil, rfl, rfl⟩

theorem D5_SInv.mem1 {tm m : Q} {s1 s2 k1 r1 k2 r2 d1 d2 : List Q}
    (h : D5_SInv tm m s1 s2 k1 r1 k2 r2 d1 d2) {x : Q} : x ∈ s1 ↔ x ∈ k1 ∨ x ∈ r1 := by
  rw [h.e1]; simp

theorem D5_SInv.mem2 {tm m : Q} {s1 s2 k1 r1 k2 r2 d1 d2 : List Q}
    (h : D5_SInv tm m s1 s2 k1 r1 k2 r2 d1 d2) {x : Q} : x ∈ s2 ↔ x ∈ k2 ∨ x ∈ r2 := by
  rw [h.e2]; simp

/-- train 1 advances alone -/
theorem D5_SInv.step1 {tm m : Q} {s1 s2 k1 r1 k2 r2 d1 d2 : List Q} {a : Q}
    (h : D5_SInv tm m s1 s2 k1 (a :: r1) k2 r2 d1 d2) (hlt : ∀ y ∈ r2, a < y) :
    D5_SInv tm m s1 s2 (a :: k1) r1 k2 r2
      (B2_dirStep a k2 (tauAt (a :: k1) r1 k2 r2 tm m) d1 d2).1
      (B2_dirStep a k2 (tauAt (a :: k1) r1 k2 r2 tm m) d1 d2).2 := by
  have hs1 := h.st1
  rw [h.e1] at hs1
  obtain ⟨hk1a, hr1a⟩ := B1_split_sorted hs1
  have ha1 : a ∈ s1 := h.mem1.mpr (Or.inr List.mem_cons_self)
  have he1 : s1 = (a :: k1).reverse ++ r1 := by rw [h.e1]; simp
  have hc21 : ∀ x ∈ k2, ∀ y ∈ r1, x < y := fun x hx y hy => h.c21 x hx y (List.mem_cons_of_mem _ hy)
  have hc12 : ∀ x ∈ a :: k1, ∀ y ∈ r2, x < y := by
    intro x hx y hy
    rcases List.mem_cons.mp hx with rfl | hx
    · exact hlt y hy
    · exact h.c12 x hx y hy
  cases k2 with
  | nil =>
    refine ⟨he1, h.e2, h.st1, h.st2, hc21, hc12, ?_, ?_⟩
    · simp only [B2_dirStep, List.map_cons, D5_M_nil]
      rw [h.v1]
    · simp only [B2_dirStep]
      rw [h.v2]; rfl
  | cons j k2' =>
    have hj : j < a := h.c21 j List.mem_cons_self a List.mem_cons_self
    have hjs2 : j ∈ s2 := h.mem2.mpr (Or.inl List.mem_cons_self)
    have hs2 := h.st2
    rw [h.e2, List.reverse_cons, List.append_assoc, List.singleton_append] at hs2
    have htau : tauAt (a :: k1) r1 (j :: k2') r2 tm m = tauSpec s1 s2 tm m a j := by
      have := neighbours_tauAt k1 r1 k2' r2 a j tm m hs1 hs2
      rw [this, h.e1, h.e2, List.reverse_cons, List.append_assoc, List.singleton_append]
    have hk2' : ∀ b ∈ k2', b < j := (B1_split_sorted hs2).1
    have hX : ∀ b ∈ k2', ¬ Coinc s1 s2 tm m a b := by
      intro b hb hc
      have hba : b < a := lt_trans (hk2' b hb) hj
      exact (B1_adj_gt h.st1 h.st2 hc hba).2 j hjs2 (hk2' b hb) (le_of_lt hj)
    -- the older spikes of train 2 do not see the new spike
    have hY : ∀ b ∈ k2', D5_M s2 s1 tm m (a :: k1) b = D5_M s2 s1 tm m k1 b := by
      intro b hb
      apply D5_M_cons_not
      intro _ hc
      have hba : b < a := lt_trans (hk2' b hb) hj
      exact hX b hb ((D5_coinc_swap s1 s2 tm m a b (ne_of_gt hba)).mp hc)
    have htest : (a - j < tauAt (a :: k1) r1 (j :: k2') r2 tm m) ↔ Coinc s1 s2 tm m a j := by
      rw [htau]; unfold Coinc; rw [B1_qabs_of_lt hj]
    have hv2 := h.v2
    rw [List.map_cons] at hv2
    by_cases hc : Coinc s1 s2 tm m a j
    · have ht := htest.mpr hc
      simp only [B2_dirStep, if_pos ht]
      refine ⟨he1, h.e2, h.st1, h.st2, hc21, hc12, ?_, ?_⟩
      · rw [List.map_cons, ← h.v1]
        congr 1
        unfold D5_M B1_markP1
        rw [if_pos]
        rw [List.any_eq_true]
        exact ⟨j, List.mem_cons_self, by simp [hj, hc]⟩
      · rw [hv2]
        simp only [setHead, List.map_cons]
        congr 1
        · -- the partner `j` gets +1
          have hany1 : (a :: k1).any (fun x => decide (x < j ∧ Coinc s2 s1 tm m j x)) = false := by
            rw [List.any_eq_false]
            intro x hx
            simp only [decide_eq_true_eq]
            rintro ⟨hxj, hcx⟩
            rcases List.mem_cons.mp hx with e | e
            · rw [e] at hxj; exact lt_asymm hj hxj
            · have hcx' := (D5_coinc_swap s1 s2 tm m x j (ne_of_lt hxj)).mp hcx
              exact B1_one_to_one_left h.st1 h.st2 hcx' hc (h.mem1.mpr (Or.inl e)) ha1
                (ne_of_lt hxj) (ne_of_gt hj) (lt_trans hxj hj)
          unfold D5_M B1_markP1
          rw [hany1]
          simp only [Bool.false_eq_true, if_false]
          rw [if_pos]
          rw [List.any_eq_true]
          refine ⟨a, List.mem_cons_self, ?_⟩
          have := (D5_coinc_swap s1 s2 tm m a j (ne_of_gt hj)).mpr hc
          simp [hj, this]
        · exact (List.map_congr_left hY).symm
    · have ht : ¬ a - j < tauAt (a :: k1) r1 (j :: k2') r2 tm m := fun ht => hc (htest.mp ht)
      simp only [B2_dirStep, if_neg ht]
      refine ⟨he1, h.e2, h.st1, h.st2, hc21, hc12, ?_, ?_⟩
      · rw [List.map_cons, ← h.v1]
        congr 1
        symm
        apply D5_M_zero
        intro b hb _
        rcases List.mem_cons.mp hb with e | e
        · rw [e]; exact hc
        · exact hX b e
      · rw [h.v2]
        apply List.map_congr_left
        intro b hb
        rcases List.mem_cons.mp hb with e | e
        · rw [e]
          symm
          apply D5_M_cons_not
          intro _ hc'
          exact hc ((D5_coinc_swap s1 s2 tm m a j (ne_of_gt hj)).mp hc')
        · exact (hY b e).symm

/-- train 2 advances alone -/
theorem D5_SInv.step2 {tm m : Q} {s1 s2 k1 r1 k2 r2 d1 d2 : List Q} {b : Q}
    (h : D5_SInv tm m s1 s2 k1 r1 k2 (b :: r2) d1 d2) (hlt : ∀ y ∈ r1, b < y) :
    D5_SInv tm m s1 s2 k1 r1 (b :: k2) r2
      (B2_dirStep b k1 (tauAt k1 r1 (b :: k2) r2 tm m) d2 d1).2
      (B2_dirStep b k1 (tauAt k1 r1 (b :: k2) r2 tm m) d2 d1).1 := by
  have hk : ∀ x ∈ k1, x < b := fun x hx => h.c12 x hx b List.mem_cons_self
  have hs := D5_SInv.step1 h.symm hlt
  rw [B2_dirStep_swap b k2 r2 k1 r1 tm m d2 d1 hk] at hs
  exact hs.symm

/-- half of the tie step: the values of train 1 -/
theorem D5_tie_v {tm m : Q} {s1 s2 k1 r1 k2 r2 d1 d2 : List Q} {a : Q}
    (h : D5_SInv tm m s1 s2 k1 (a :: r1) k2 (a :: r2) d1 d2) :
    (0 : Q) :: d1 = (a :: k1).map (D5_M s1 s2 tm m (a :: k2)) := by
  have hs1 := h.st1
  rw [h.e1] at hs1
  obtain ⟨hk1a, _⟩ := B1_split_sorted hs1
  have ha1 : a ∈ s1 := h.mem1.mpr (Or.inr List.mem_cons_self)
  have ha2 : a ∈ s2 := h.mem2.mpr (Or.inr List.mem_cons_self)
  rw [List.map_cons, h.v1]
  congr 1
  · symm
    apply D5_M_zero
    intro b hb hne hc
    rcases List.mem_cons.mp hb with e | e
    · exact absurd e hne
    · have hba : b < a := h.c21 b e a List.mem_cons_self
      exact D5_tie_not_gt h.st1 h.st2 hc hba ha2
  · apply List.map_congr_left
    intro t ht
    symm
    apply D5_M_cons_not
    intro _ hc
    exact D5_tie_not_lt h.st1 h.st2 hc (hk1a t ht) ha1

/-- both trains advance (simultaneous spikes): both get 0 -/
theorem D5_SInv.step12 {tm m : Q} {s1 s2 k1 r1 k2 r2 d1 d2 : List Q} {a b : Q}
    (h : D5_SInv tm m s1 s2 k1 (a :: r1) k2 (b :: r2) d1 d2) (hab : ¬ a < b) (hba : ¬ b < a) :
    D5_SInv tm m s1 s2 (a :: k1) r1 (b :: k2) r2 (0 :: d1) (0 :: d2) := by
  have e : a = b := le_antisymm (not_lt.mp hba) (not_lt.mp hab)
  subst e
  have hs1 := h.st1
  rw [h.e1] at hs1
  obtain ⟨_, hr1⟩ := B1_split_sorted hs1
  have hs2 := h.st2
  rw [h.e2] at hs2
  obtain ⟨_, hr2⟩ := B1_split_sorted hs2
  refine ⟨by rw [h.e1]; simp, by rw [h.e2]; simp, h.st1, h.st2, ?_, ?_, D5_tie_v h, D5_tie_v h.symm⟩
  · intro x hx y hy
    rcases List.mem_cons.mp hx with rfl | hx
    · exact hr1 y hy
    · exact h.c21 x hx y (List.mem_cons_of_mem _ hy)
  · intro x hx y hy
    rcases List.mem_cons.mp hx with rfl | hx
    · exact hr2 y hy
    · exact h.c12 x hx y (List.mem_cons_of_mem _ hy)

/-- the directionality scan computes the pairwise definition (values newest first) -/
theorem D5_dirLoop_spec (tm m : Q) (s1 s2 : List Q) (k1 r1 k2 r2 : List Q) :
    ∀ d1 d2 : List Q, D5_SInv tm m s1 s2 k1 r1 k2 r2 d1 d2 →
      dirLoop tm m k1 r1 k2 r2 d1 d2
        = (s1.reverse.map (mark1 (-1) 1 s1 s2 tm m), s2.reverse.map (mark1 (-1) 1 s2 s1 tm m)) := by
  induction k1, r1, k2, r2 using B2_merge_induct with
  | nil k1 k2 =>
    intro d1 d2 h
    have e1 : s1.reverse = k1 := by rw [h.e1]; simp
    have e2 : s2.reverse = k2 := by rw [h.e2]; simp
    have m1 : ∀ x, x ∈ k2 ↔ x ∈ s2 := fun x => by rw [← e2]; simp
    have m2 : ∀ x, x ∈ k1 ↔ x ∈ s1 := fun x => by rw [← e1]; simp
    simp only [dirLoop]
    rw [h.v1, h.v2, e1, e2]
    refine Prod.ext ?_ ?_
    · exact List.map_congr_left (fun a _ => D5_M_congr s1 s2 tm m m1 a)
    · exact List.map_congr_left (fun a _ => D5_M_congr s2 s1 tm m m2 a)
  | left k1 a r1 k2 ih =>
    intro d1 d2 h
    rw [B2_dirLoop_eq2]
    exact ih _ _ (h.step1 (fun _ hy => absurd hy List.not_mem_nil))
  | right k1 k2 b r2 ih =>
    intro d1 d2 h
    rw [B2_dirLoop_eq3]
    exact ih _ _ (h.step2 (fun _ hy => absurd hy List.not_mem_nil))
  | lt k1 a r1 k2 b r2 hab ih =>
    intro d1 d2 h
    have hs2 := h.st2
    rw [h.e2] at hs2
    have hr2 := (B1_split_sorted hs2).2
    rw [B2_dirLoop_eq4 _ _ _ _ _ _ _ _ _ _ hab]
    refine ih _ _ (h.step1 ?_)
    intro y hy
    rcases List.mem_cons.mp hy with rfl | hy
    · exact hab
    · exact lt_trans hab (hr2 y hy)
  | gt k1 a r1 k2 b r2 hab hba ih =>
    intro d1 d2 h
    have hs1 := h.st1
    rw [h.e1] at hs1
    have hr1 := (B1_split_sorted hs1).2
    rw [B2_dirLoop_eq5 _ _ _ _ _ _ _ _ _ _ hab hba]
    refine ih _ _ (h.step2 ?_)
    intro y hy
    rcases List.mem_cons.mp hy with rfl | hy
    · exact hba
    · exact lt_trans hba (hr1 y hy)
  | eq k1 a r1 k2 b r2 hab hba ih =>
    intro d1 d2 h
    rw [B2_dirLoop_eq6 _ _ _ _ _ _ _ _ _ _ hab hba]
    exact ih _ _ (h.step12 hab hba)

/-- the value of a spike of train 2 in the definition is its own directionality value with the
    roles of the trains exchanged -/
theorem D5_neg_mark2 (s1 s2 : List Q) (tm m b : Q) :
    - mark2 (-1) 1 s1 s2 tm m b = mark1 (-1) 1 s2 s1 tm m b := by
  have e1 : (fun a => decide (a < b ∧ Coinc s1 s2 tm m a b))
      = (fun a => decide (a < b ∧ Coinc s2 s1 tm m b a)) := by
    funext a
    by_cases hab : a < b
    · simp only [hab, true_and, D5_coinc_swap s1 s2 tm m a b (ne_of_lt hab)]
    · simp [hab]
  have e2 : (fun a => decide (b < a ∧ Coinc s1 s2 tm m a b))
      = (fun a => decide (b < a ∧ Coinc s2 s1 tm m b a)) := by
    funext a
    by_cases hba : b < a
    · simp only [hba, true_and, D5_coinc_swap s1 s2 tm m a b (ne_of_gt hba)]
    · simp [hba]
  unfold mark2 mark1
  rw [e1, e2]
  split_ifs <;> simp

theorem D5_dirSpec2_eq (s1 s2 : List Q) (tm m : Q) : dirSpec2 s1 s2 tm m = dirSpec1 s2 s1 tm m := by
  unfold dirSpec2 dirSpec1
  exact List.map_congr_left (fun b _ => D5_neg_mark2 s1 s2 tm m b)

/-- **`spike_directionality_profile_python` computes the pairwise definition**: for strictly
    increasing trains the value of every spike is +1 if it leads a coincidence, -1 if it follows
    one, 0 otherwise (not coincident, or simultaneous) -/
theorem D5_dirProfile_eq_spec (s1 s2 : List Q) (ts te mt m : Q)
    (h1 : StrictSorted s1) (h2 : StrictSorted s2) :
    dirProfile s1 s2 ts te mt m
      = (dirSpec1 s1 s2 (trueMax ts te mt) m, dirSpec2 s1 s2 (trueMax ts te mt) m) := by
  unfold dirProfile
  simp only
  rw [D5_dirLoop_spec (trueMax ts te mt) m s1 s2 [] s1 [] s2 [] [] (D5_SInv.init _ m h1 h2),
    D5_dirSpec2_eq]
  simp only [← List.map_reverse, List.reverse_reverse]
  rfl

example : StrictSorted [(1 : Q), 5, 7] ∧ StrictSorted [(2 : Q), 5, 9] := by
  unfold StrictSorted; decide +kernel

example : dirProfile [1, 5, 7] [2, 5, 9] 0 10 0 0 = ([1, 0, 0], [-1, 0, 0]) := by decide +kernel

/-! ## B. `spike_directionality_values`: the fold over the pairs -/

/-- one step of the accumulation loop of `_spike_directionality_values_impl` for the pair `p`
    with value lists `d p` -/
def D5_step (d : Nat × Nat → List Q × List Q) (acc : List (List Q)) (p : Nat × Nat) :
    List (List Q) :=
  (acc.set p.1 (addLists (acc.getD p.1 []) (d p).1)).set p.2
    (addLists ((acc.set p.1 (addLists (acc.getD p.1 []) (d p).1)).getD p.2 []) (d p).2)

theorem D5_getD_set (l : List (List Q)) (i j : Nat) (x : List Q) (hi : i < l.length) :
    (l.set i x).getD j [] = if i = j then x else l.getD j [] := by
  simp only [List.getD_eq_getElem?_getD, List.getElem?_set]
  split_ifs with h1
  · subst h1; simp
  · rfl

/-- contribution of the pair `p` to entry `k` of train `i` -/
def D5_contrib (d : Nat × Nat → List Q × List Q) (i k : Nat) (p : Nat × Nat) : Q :=
  if p.1 = i then (d p).1.getD k 0 else if p.2 = i then (d p).2.getD k 0 else 0

theorem D5_step_spec (d : Nat × Nat → List Q × List Q) (len : Nat → Nat) (n : Nat)
    (acc : List (List Q)) (p : Nat × Nat) (hp1 : p.1 < n) (hp2 : p.2 < n) (hne : p.1 ≠ p.2)
    (hd1 : (d p).1.length = len p.1) (hd2 : (d p).2.length = len p.2)
    (hn : acc.length = n) (hl : ∀ j < n, (acc.getD j []).length = len j) :
    (D5_step d acc p).length = n ∧ (∀ j < n, ((D5_step d acc p).getD j []).length = len j) ∧
      ∀ i k, ((D5_step d acc p).getD i []).getD k 0
        = (acc.getD i []).getD k 0 + D5_contrib d i k p := by
  have h1 : p.1 < acc.length := by omega
  have h2 : p.2 < (acc.set p.1 (addLists (acc.getD p.1 []) (d p).1)).length := by
    rw [List.length_set]; omega
  have e2 : (acc.set p.1 (addLists (acc.getD p.1 []) (d p).1)).getD p.2 [] = acc.getD p.2 [] := by
    rw [D5_getD_set _ _ _ _ h1, if_neg hne]
  refine ⟨by simp [D5_step, hn], ?_, ?_⟩
  · intro j hj
    unfold D5_step
    rw [D5_getD_set _ _ _ _ h2, e2, D5_getD_set _ _ _ _ h1]
    split_ifs with a1 a2
    · subst a1; rw [B6_addLists_length]; exact hl _ hj
    · subst a2; rw [B6_addLists_length]; exact hl _ hj
    · exact hl j hj
  · intro i k
    unfold D5_step D5_contrib
    rw [D5_getD_set _ _ _ _ h2, e2, D5_getD_set _ _ _ _ h1]
    by_cases a1 : p.1 = i
    · have a2 : ¬ p.2 = i := fun a2 => hne (a1.trans a2.symm)
      rw [if_neg a2, if_pos a1, if_pos a1, ← a1, B6_addLists_getD _ _ _ (by rw [hd1, hl _ hp1])]
    · by_cases a2 : p.2 = i
      · rw [if_pos a2, if_neg a1, if_pos a2, ← a2, B6_addLists_getD _ _ _ (by rw [hd2, hl _ hp2])]
      · rw [if_neg a2, if_neg a1, if_neg a1, if_neg a2, add_zero]

/-- the fold: every entry is the start value plus the contributions of the processed pairs; all
    lists keep their lengths -/
theorem D5_fold_spec (d : Nat × Nat → List Q × List Q) (len : Nat → Nat) (n : Nat)
    (hd1 : ∀ p, (d p).1.length = len p.1) (hd2 : ∀ p, (d p).2.length = len p.2) :
    ∀ (ps : List (Nat × Nat)) (acc : List (List Q)),
      (∀ p ∈ ps, p.1 < n ∧ p.2 < n ∧ p.1 ≠ p.2) → acc.length = n →
      (∀ j < n, (acc.getD j []).length = len j) →
      (ps.foldl (D5_step d) acc).length = n ∧
      (∀ j < n, ((ps.foldl (D5_step d) acc).getD j []).length = len j) ∧
      ∀ i k, ((ps.foldl (D5_step d) acc).getD i []).getD k 0
        = (acc.getD i []).getD k 0 + (ps.map (D5_contrib d i k)).sum := by
  intro ps
  induction ps with
  | nil => intro acc _ hn hl; exact ⟨hn, hl, by simp⟩
  | cons p ps ih =>
    intro acc hps hn hl
    obtain ⟨hp1, hp2, hne⟩ := hps p List.mem_cons_self
    obtain ⟨s1, s2, s3⟩ := D5_step_spec d len n acc p hp1 hp2 hne (hd1 p) (hd2 p) hn hl
    obtain ⟨r1, r2, r3⟩ := ih (D5_step d acc p) (fun q hq => hps q (List.mem_cons_of_mem _ hq)) s1 s2
    rw [List.foldl_cons]
    refine ⟨r1, r2, ?_⟩
    intro i k
    rw [r3, s3, List.map_cons, List.sum_cons, add_assoc]

/-- re-indexing: the sum over all pairs of the contributions to `i` is a sum over the other
    indices -/
theorem D5_pairs_sum (A B : Nat → Nat → Q) (i : Nat) : ∀ (l : List Nat), l.Pairwise (· < ·) →
    ((pairsOf l).map fun p => if p.1 = i then A p.1 p.2 else if p.2 = i then B p.1 p.2 else 0).sum
      = if i ∈ l then ((l.filter (· ≠ i)).map fun j => if i < j then A i j else B j i).sum else 0 := by
  intro l
  induction l with
  | nil => intro _; simp [pairsOf]
  | cons a r ih =>
    intro hl
    obtain ⟨har, hr⟩ := List.pairwise_cons.mp hl
    rw [pairsOf, List.map_append, List.sum_append, List.map_map, ih hr]
    by_cases hai : a = i
    · subst hai
      have hnr : a ∉ r := fun h => lt_irrefl a (har a h)
      have hf : r.filter (· ≠ a) = r := by
        apply List.filter_eq_self.mpr
        intro x hx
        simpa using (ne_of_gt (har x hx))
      rw [if_neg hnr, add_zero, if_pos List.mem_cons_self, List.filter_cons]
      simp only [ne_eq, not_true_eq_false, decide_false, Bool.false_eq_true, if_false]
      rw [hf]
      congr 1
      apply List.map_congr_left
      intro j hj
      simp [har j hj]
    · have hia : ¬ i = a := fun h => hai h.symm
      have hfirst : (r.map ((fun p : Nat × Nat =>
            if p.1 = i then A p.1 p.2 else if p.2 = i then B p.1 p.2 else 0) ∘ fun j => (a, j))).sum
          = if i ∈ r then B a i else 0 := by
        clear ih hl
        induction r with
        | nil => simp
        | cons x t iht =>
          obtain ⟨hxt, ht⟩ := List.pairwise_cons.mp hr
          rw [List.map_cons, List.sum_cons,
            iht (fun y hy => har y (List.mem_cons_of_mem _ hy)) ht]
          simp only [Function.comp_def, hai, if_false]
          by_cases hxi : x = i
          · subst hxi
            have : x ∉ t := fun h => lt_irrefl x (hxt x h)
            simp [this]
          · have hix : ¬ i = x := fun h => hxi h.symm
            simp [hxi, hix]
      rw [hfirst]
      by_cases hir : i ∈ r
      · have hmem : i ∈ a :: r := List.mem_cons_of_mem _ hir
        have hlt : ¬ i < a := not_lt.mpr (le_of_lt (har i hir))
        rw [if_pos hir, if_pos hir, if_pos hmem, List.filter_cons]
        simp [hai, hlt]
      · have hmem : i ∉ a :: r := by simp [hia, hir]
        rw [if_neg hir, if_neg hir, if_neg hmem, add_zero]

/-- value lists of the pair of positions `p` (as computed by the accumulation loop) -/
def D5_pairDir (kw : Kw) (L : List Train) (p : Nat × Nat) : List Q × List Q :=
  dirProfile (tr L p.1).spikes (tr L p.2).spikes (tr L p.1).ts (tr L p.1).te kw.maxTau kw.mrts

theorem D5_dirValues_unfold (kw : Kw) (L : List Train) (hr : kw.recon = false) :
    dirValues kw none L
      = ((posPairs L.length).foldl (D5_step (D5_pairDir kw L))
          ((List.range L.length).map fun k => (tr L k).spikes.map fun _ => (0 : Q))).map
          fun l => l.map (· / ((L.length : Q) - 1)) := by
  unfold dirValues
  simp only [prep_of_recon_false kw _ hr, resolveIdx, List.length_range]
  congr 1
  apply foldl_congr_mem
  intro acc p hp
  have := mem_posPairs hp
  rw [getD_range _ _ this.1, getD_range _ _ this.2]
  rfl

theorem D5_getD_map_range (n : Nat) (f : Nat → List Q) (j : Nat) (hj : j < n) :
    ((List.range n).map f).getD j [] = f j := by
  rw [List.getD_eq_getElem _ _ (by simpa using hj)]
  simp

theorem D5_getD_zeros {α} (l : List α) (k : Nat) : (l.map fun _ => (0 : Q)).getD k 0 = 0 := by
  by_cases hk : k < l.length
  · rw [List.getD_eq_getElem _ _ (by simpa using hk)]; simp
  · exact List.getD_eq_default _ _ (by simp; omega)

theorem D5_getD_map_div (l : List Q) (c : Q) (k : Nat) :
    (l.map (· / c)).getD k 0 = l.getD k 0 / c := by
  by_cases hk : k < l.length
  · rw [List.getD_eq_getElem _ _ (by simpa using hk), List.getD_eq_getElem _ _ hk]; simp
  · rw [List.getD_eq_default _ _ (by simp; omega), List.getD_eq_default _ _ (by omega), zero_div]

theorem D5_getD_map_map (acc : List (List Q)) (g : List Q → List Q) (hg : g [] = []) (i : Nat) :
    (acc.map g).getD i [] = g (acc.getD i []) := by
  by_cases hi : i < acc.length
  · rw [List.getD_eq_getElem _ _ (by simpa using hi), List.getD_eq_getElem _ _ hi]; simp
  · rw [List.getD_eq_default _ _ (by simp; omega), List.getD_eq_default _ _ (by omega), hg]

theorem D5_posPairs_ok (n : Nat) : ∀ p ∈ posPairs n, p.1 < n ∧ p.2 < n ∧ p.1 ≠ p.2 := by
  intro p hp
  have h := mem_posPairs hp
  exact ⟨h.1, h.2, ne_of_lt (B2_posPairs_lt hp)⟩

/-- the accumulated lists of `dirValues` (before and after the division) keep one value per spike -/
theorem D5_dirValues_length (kw : Kw) (L : List Train) (hr : kw.recon = false) :
    (dirValues kw none L).length = L.length ∧
      ∀ i < L.length, ((dirValues kw none L).getD i []).length = (tr L i).spikes.length := by
  rw [D5_dirValues_unfold kw L hr]
  obtain ⟨h1, h2, _⟩ := D5_fold_spec (D5_pairDir kw L) (fun j => (tr L j).spikes.length) L.length
    (fun p => (B2_dirProfile_length _ _ _ _ _ _).1) (fun p => (B2_dirProfile_length _ _ _ _ _ _).2)
    (posPairs L.length) ((List.range L.length).map fun k => (tr L k).spikes.map fun _ => (0 : Q))
    (D5_posPairs_ok L.length) (by simp)
    (fun j hj => by rw [D5_getD_map_range _ _ _ hj]; simp)
  refine ⟨by rw [List.length_map, h1], ?_⟩
  intro i hi
  rw [D5_getD_map_map _ _ rfl, List.length_map, h2 i hi]

/-- **orientation form**: entry `k` of train `i` is the sum over the other trains `j` of the
    `k`-th value of `i` in the profile of the pair (`i` first when `i < j`, second otherwise),
    divided by `N - 1` (no assumption on the trains) -/
theorem D5_dirValues_getD (kw : Kw) (L : List Train) (hr : kw.recon = false) (i k : Nat)
    (hi : i < L.length) :
    ((dirValues kw none L).getD i []).getD k 0
      = (((List.range L.length).filter (· ≠ i)).map fun j =>
          if i < j then (D5_pairDir kw L (i, j)).1.getD k 0
          else (D5_pairDir kw L (j, i)).2.getD k 0).sum / ((L.length : Q) - 1) := by
  rw [D5_dirValues_unfold kw L hr]
  obtain ⟨_, _, h3⟩ := D5_fold_spec (D5_pairDir kw L) (fun j => (tr L j).spikes.length) L.length
    (fun p => (B2_dirProfile_length _ _ _ _ _ _).1) (fun p => (B2_dirProfile_length _ _ _ _ _ _).2)
    (posPairs L.length) ((List.range L.length).map fun k => (tr L k).spikes.map fun _ => (0 : Q))
    (D5_posPairs_ok L.length) (by simp)
    (fun j hj => by rw [D5_getD_map_range _ _ _ hj]; simp)
  rw [D5_getD_map_map _ _ rfl, D5_getD_map_div, h3 i k, D5_getD_map_range _ _ _ hi, D5_getD_zeros,
    zero_add]
  congr 1
  have hs := D5_pairs_sum (fun a b => (D5_pairDir kw L (a, b)).1.getD k 0)
    (fun a b => (D5_pairDir kw L (a, b)).2.getD k 0) i (List.range L.length)
    (List.pairwise_lt_range)
  rw [if_pos (List.mem_range.mpr hi)] at hs
  rw [← hs]
  rfl

theorem D5_tr_mem (L : List Train) (j : Nat) (hj : j < L.length) : tr L j ∈ L := by
  unfold tr
  rw [List.getD_eq_getElem _ _ hj]
  exact List.getElem_mem hj

/-- **`spike_directionality_values` is the average over the other trains** (C04): for strictly
    increasing trains with common edges, entry `k` of train `i` is the sum over the other `N - 1`
    trains `j` of the directionality indicator of spike `k` of train `i` against train `j`
    (`+1` leads a coincidence, `-1` follows, `0` not coincident or simultaneous — `dirSpec1`,
    no orientation of the pair appears), divided by `N - 1`.
    (For `N = 1` both sides are `0 / 0 = 0` in Lean; the Python code divides by zero there, so the
    statement is meaningful for `2 ≤ N`.) -/
theorem dirValues_eq_average (kw : Kw) (L : List Train) (ts te : Q) (hr : kw.recon = false)
    (hL : ∀ s ∈ L, s.ts = ts ∧ s.te = te ∧ StrictSorted s.spikes) (i k : Nat) (hi : i < L.length) :
    ((dirValues kw none L).getD i []).getD k 0
      = (((List.range L.length).filter (· ≠ i)).map fun j =>
          (dirSpec1 (tr L i).spikes (tr L j).spikes (trueMax ts te kw.maxTau) kw.mrts).getD k 0).sum
        / ((L.length : Q) - 1) := by
  rw [D5_dirValues_getD kw L hr i k hi]
  congr 2
  apply List.map_congr_left
  intro j hj
  have hjn : j < L.length := List.mem_range.mp (List.mem_filter.mp hj).1
  obtain ⟨hi1, hi2, hi3⟩ := hL _ (D5_tr_mem L i hi)
  obtain ⟨hj1, hj2, hj3⟩ := hL _ (D5_tr_mem L j hjn)
  unfold D5_pairDir
  simp only
  split_ifs
  · rw [D5_dirProfile_eq_spec _ _ _ _ _ _ hi3 hj3, hi1, hi2]
  · rw [D5_dirProfile_eq_spec _ _ _ _ _ _ hj3 hi3, hj1, hj2, D5_dirSpec2_eq]

/-- a concrete instance of the hypotheses -/
def D5_exL : List Train := [⟨[1, 5, 9], 0, 10⟩, ⟨[2, 5], 0, 10⟩, ⟨[1, 4, 8], 0, 10⟩]

theorem D5_exL_valid : ∀ s ∈ D5_exL, s.ts = 0 ∧ s.te = 10 ∧ StrictSorted s.spikes := by
  unfold StrictSorted D5_exL; decide +kernel

example : (({ recon := false } : Kw).recon = false) ∧ 2 ≤ D5_exL.length ∧ 1 < D5_exL.length := by decide

example : dirValues { recon := false } none D5_exL = [[1/2, -1/2, -1/2], [-1, -1/2], [1/2, 1, 1/2]] := by
  decide +kernel

/-! ### range of the values -/

theorem D5_sum_bounds {ι} (g : ι → Q) : ∀ (l : List ι), (∀ j ∈ l, -1 ≤ g j ∧ g j ≤ 1) →
    -(l.length : Q) ≤ (l.map g).sum ∧ (l.map g).sum ≤ (l.length : Q)
  | [], _ => by simp
  | j :: l, h => by
    have h1 := h j List.mem_cons_self
    have h2 := D5_sum_bounds g l (fun x hx => h x (List.mem_cons_of_mem _ hx))
    rw [List.map_cons, List.sum_cons, List.length_cons]
    push_cast
    exact ⟨by linarith [h1.1, h2.1], by linarith [h1.2, h2.2]⟩

theorem D5_getD_tri (l : List Q) (h : ∀ v ∈ l, v = -1 ∨ v = 0 ∨ v = 1) (k : Nat) :
    -1 ≤ l.getD k 0 ∧ l.getD k 0 ≤ 1 := by
  by_cases hk : k < l.length
  · rw [List.getD_eq_getElem _ _ hk]
    rcases h _ (List.getElem_mem hk) with e | e | e <;> rw [e] <;> norm_num
  · rw [List.getD_eq_default _ _ (by omega)]; norm_num

/-- every value of `spike_directionality_values` lies in `[-1, 1]` (any trains), position form -/
theorem D5_dirValues_getD_range (kw : Kw) (L : List Train) (hr : kw.recon = false) (i k : Nat)
    (hi : i < L.length) :
    -1 ≤ ((dirValues kw none L).getD i []).getD k 0 ∧
      ((dirValues kw none L).getD i []).getD k 0 ≤ 1 := by
  rw [D5_dirValues_getD kw L hr i k hi]
  have hb := D5_sum_bounds (fun j =>
      if i < j then (D5_pairDir kw L (i, j)).1.getD k 0
      else (D5_pairDir kw L (j, i)).2.getD k 0) ((List.range L.length).filter (· ≠ i)) (by
    intro j _
    split_ifs
    · exact D5_getD_tri _ (B2_dirProfile_values _ _ _ _ _ _).1 k
    · exact D5_getD_tri _ (B2_dirProfile_values _ _ _ _ _ _).2 k)
  rw [B6_range_filter_ne_length L.length i hi] at hb
  have h2 : ((L.length - 1 : Nat) : Q) = (L.length : Q) - 1 := by
    rw [Nat.cast_sub (by omega)]; simp
  rw [h2] at hb
  by_cases hn : (L.length : Q) - 1 = 0
  · rw [hn, div_zero]; norm_num
  · have hpos : (0 : Q) < (L.length : Q) - 1 := by
      have h1 : (1 : Q) ≤ (L.length : Q) := by exact_mod_cast (by omega : 1 ≤ L.length)
      exact lt_of_le_of_ne (by linarith) (Ne.symm hn)
    constructor
    · rw [le_div_iff₀ hpos]; linarith [hb.1]
    · rw [div_le_one hpos]; exact hb.2

/-- **every value of `spike_directionality_values` lies in `[-1, 1]`** -/
theorem D5_dirValues_range (kw : Kw) (L : List Train) (hr : kw.recon = false) :
    ∀ l ∈ dirValues kw none L, ∀ v ∈ l, -1 ≤ v ∧ v ≤ 1 := by
  intro l hl v hv
  obtain ⟨i, hi, rfl⟩ := List.getElem_of_mem hl
  obtain ⟨k, hk, rfl⟩ := List.getElem_of_mem hv
  have hi' : i < L.length := by rw [← (D5_dirValues_length kw L hr).1]; exact hi
  have := D5_dirValues_getD_range kw L hr i k hi'
  rw [List.getD_eq_getElem _ _ hi, List.getD_eq_getElem _ _ hk] at this
  exact this

example : ∀ l ∈ dirValues { recon := false } none D5_exL, ∀ v ∈ l, -1 ≤ v ∧ v ≤ 1 :=
  D5_dirValues_range _ _ rfl

/-! ### leader and follower contributions cancel -/

/-- sum of all values of all trains -/
def D5_total (acc : List (List Q)) : Q := qsum (acc.map qsum)

theorem D5_qsum_addLists : ∀ (a b : List Q), b.length = a.length →
    qsum (addLists a b) = qsum a + qsum b
  | [], [], _ => by simp [addLists, qsum]
  | [], _ :: _, h => by simp at h
  | _ :: _, [], h => by simp at h
  | x :: r, y :: s, h => by
    simp only [addLists, qsum]
    rw [D5_qsum_addLists r s (by simpa using h)]
    ring

theorem D5_total_set : ∀ (l : List (List Q)) (i : Nat) (x : List Q), i < l.length →
    D5_total (l.set i x) = D5_total l - qsum (l.getD i []) + qsum x
  | [], _, _, h => by simp at h
  | a :: r, 0, x, _ => by
    simp only [D5_total, List.set_cons_zero, List.map_cons, qsum, List.getD_cons_zero]; ring
  | a :: r, i + 1, x, h => by
    have ih := D5_total_set r i x (by simpa using h)
    simp only [D5_total, List.set_cons_succ, List.map_cons, qsum, List.getD_cons_succ] at ih ⊢
    rw [ih]; ring

theorem D5_step_total (d : Nat × Nat → List Q × List Q) (len : Nat → Nat) (n : Nat)
    (acc : List (List Q)) (p : Nat × Nat) (hp1 : p.1 < n) (hp2 : p.2 < n) (hne : p.1 ≠ p.2)
    (hd1 : (d p).1.length = len p.1) (hd2 : (d p).2.length = len p.2)
    (hn : acc.length = n) (hl : ∀ j < n, (acc.getD j []).length = len j) :
    D5_total (D5_step d acc p) = D5_total acc + (qsum (d p).1 + qsum (d p).2) := by
  have h1 : p.1 < acc.length := by omega
  have h2 : p.2 < (acc.set p.1 (addLists (acc.getD p.1 []) (d p).1)).length := by
    rw [List.length_set]; omega
  have e2 : (acc.set p.1 (addLists (acc.getD p.1 []) (d p).1)).getD p.2 [] = acc.getD p.2 [] := by
    rw [D5_getD_set _ _ _ _ h1, if_neg hne]
  unfold D5_step
  rw [D5_total_set _ _ _ h2, e2, D5_total_set _ _ _ h1,
    D5_qsum_addLists _ _ (by rw [hd1, hl _ hp1]), D5_qsum_addLists _ _ (by rw [hd2, hl _ hp2])]
  ring

theorem D5_fold_total (d : Nat × Nat → List Q × List Q) (len : Nat → Nat) (n : Nat)
    (hd1 : ∀ p, (d p).1.length = len p.1) (hd2 : ∀ p, (d p).2.length = len p.2) :
    ∀ (ps : List (Nat × Nat)) (acc : List (List Q)),
      (∀ p ∈ ps, p.1 < n ∧ p.2 < n ∧ p.1 ≠ p.2) → (∀ p ∈ ps, qsum (d p).1 + qsum (d p).2 = 0) →
      acc.length = n → (∀ j < n, (acc.getD j []).length = len j) →
      D5_total (ps.foldl (D5_step d) acc) = D5_total acc := by
  intro ps
  induction ps with
  | nil => intro acc _ _ _ _; rfl
  | cons p ps ih =>
    intro acc hps hz hn hl
    obtain ⟨hp1, hp2, hne⟩ := hps p List.mem_cons_self
    obtain ⟨s1, s2, _⟩ := D5_step_spec d len n acc p hp1 hp2 hne (hd1 p) (hd2 p) hn hl
    rw [List.foldl_cons, ih (D5_step d acc p) (fun q hq => hps q (List.mem_cons_of_mem _ hq))
      (fun q hq => hz q (List.mem_cons_of_mem _ hq)) s1 s2,
      D5_step_total d len n acc p hp1 hp2 hne (hd1 p) (hd2 p) hn hl, hz p List.mem_cons_self,
      add_zero]

theorem D5_qsum_map_div (l : List Q) (c : Q) : qsum (l.map (· / c)) = qsum l / c := by
  induction l with
  | nil => simp [qsum]
  | cons a r ih => simp only [List.map_cons, qsum, ih]; ring

theorem D5_total_map_div (acc : List (List Q)) (c : Q) :
    D5_total (acc.map fun l => l.map (· / c)) = D5_total acc / c := by
  unfold D5_total
  induction acc with
  | nil => simp [qsum]
  | cons a r ih => simp only [List.map_cons, qsum, ih, D5_qsum_map_div]; ring

theorem D5_total_zeros (n : Nat) (f : Nat → List Q) :
    D5_total ((List.range n).map fun k => (f k).map fun _ => (0 : Q)) = 0 := by
  have hz : ∀ l : List Q, qsum (l.map fun _ => (0 : Q)) = 0 := by
    intro l; induction l with
    | nil => rfl
    | cons a r ih => simp only [List.map_cons, qsum, ih, add_zero]
  unfold D5_total
  generalize List.range n = r
  induction r with
  | nil => rfl
  | cons a r ih => simp only [List.map_cons, qsum, hz, ih, add_zero]

/-- **the values of all spikes of all trains sum to 0**: every coincidence writes `+1` on the
    leader and `-1` on the follower (strictly increasing trains; edges arbitrary) -/
theorem D5_dirValues_sum_zero (kw : Kw) (L : List Train) (hr : kw.recon = false)
    (hL : ∀ s ∈ L, StrictSorted s.spikes) :
    qsum ((dirValues kw none L).map qsum) = 0 := by
  rw [D5_dirValues_unfold kw L hr]
  have h := D5_fold_total (D5_pairDir kw L) (fun j => (tr L j).spikes.length) L.length
    (fun p => (B2_dirProfile_length _ _ _ _ _ _).1) (fun p => (B2_dirProfile_length _ _ _ _ _ _).2)
    (posPairs L.length) ((List.range L.length).map fun k => (tr L k).spikes.map fun _ => (0 : Q))
    (D5_posPairs_ok L.length)
    (fun p hp => by
      have hp' := mem_posPairs hp
      exact dirProfile_sum_zero _ _ _ _ _ _ (hL _ (D5_tr_mem L p.1 hp'.1)) (hL _ (D5_tr_mem L p.2 hp'.2)))
    (by simp) (fun j hj => by rw [D5_getD_map_range _ _ _ hj]; simp)
  have := D5_total_map_div ((posPairs L.length).foldl (D5_step (D5_pairDir kw L))
    ((List.range L.length).map fun k => (tr L k).spikes.map fun _ => (0 : Q))) ((L.length : Q) - 1)
  unfold D5_total at this h
  rw [this, h]
  have hz := D5_total_zeros L.length (fun k => (tr L k).spikes)
  unfold D5_total at hz
  rw [hz, zero_div]

example : qsum ((dirValues { recon := false } none D5_exL).map qsum) = 0 :=
  D5_dirValues_sum_zero _ _ rfl (fun s hs => (D5_exL_valid s hs).2.2)

/-! ## C. API-level C16: a marked spike has a spike of the other train closer than `max_tau` -/

/-- with `max_tau > 0`, coincident spikes are strictly closer than `max_tau` (any edges) -/
theorem D5_coinc_within (s1 s2 : List Q) (ts te mt m a b : Q) (h : 0 < mt)
    (hc : Coinc s1 s2 (trueMax ts te mt) m a b) : qabs (a - b) < mt :=
  lt_of_lt_of_le hc (le_trans (getTau_le_half _ _ _ _ _ _ _ _) (trueMax_half_le ts te mt h))

theorem D5_qabs_comm (a b : Q) : qabs (a - b) = qabs (b - a) := by
  rw [qabs_eq_abs, qabs_eq_abs, abs_sub_comm]

theorem D5_mark1_ne_zero (v1 v2 : Q) (s1 s2 : List Q) (tm m a : Q)
    (h : mark1 v1 v2 s1 s2 tm m a ≠ 0) : ∃ b ∈ s2, b ≠ a ∧ Coinc s1 s2 tm m a b := by
  unfold mark1 at h
  split_ifs at h with h1 h2
  · obtain ⟨b, hb, hp⟩ := List.any_eq_true.mp h1
    simp only [decide_eq_true_eq] at hp
    exact ⟨b, hb, ne_of_lt hp.1, hp.2⟩
  · obtain ⟨b, hb, hp⟩ := List.any_eq_true.mp h2
    simp only [decide_eq_true_eq] at hp
    exact ⟨b, hb, ne_of_gt hp.1, hp.2⟩
  · exact absurd rfl h

theorem D5_mark2_ne_zero (v1 v2 : Q) (s1 s2 : List Q) (tm m b : Q)
    (h : mark2 v1 v2 s1 s2 tm m b ≠ 0) : ∃ a ∈ s1, a ≠ b ∧ Coinc s1 s2 tm m a b := by
  unfold mark2 at h
  split_ifs at h with h1 h2
  · obtain ⟨a, ha, hp⟩ := List.any_eq_true.mp h1
    simp only [decide_eq_true_eq] at hp
    exact ⟨a, ha, ne_of_lt hp.1, hp.2⟩
  · obtain ⟨a, ha, hp⟩ := List.any_eq_true.mp h2
    simp only [decide_eq_true_eq] at hp
    exact ⟨a, ha, ne_of_gt hp.1, hp.2⟩
  · exact absurd rfl h

/-- the entries of the pairwise definition: one per spike time; a non-zero value means that a
    spike of the other train is strictly closer than `max_tau` -/
theorem D5_scanSpec_within (v1 v2 vt : Q) (s1 s2 : List Q) (ts te mt m : Q) (hτ : 0 < mt) :
    ∀ e ∈ scanSpec v1 v2 vt s1 s2 (trueMax ts te mt) m,
      (e.1 ∈ s1 ∨ e.1 ∈ s2) ∧ (e.2.1 ≠ 0 →
        (e.1 ∈ s1 → ∃ y ∈ s2, qabs (e.1 - y) < mt) ∧ (e.1 ∈ s2 → ∃ x ∈ s1, qabs (e.1 - x) < mt)) := by
  intro e he
  unfold scanSpec at he
  obtain ⟨t, ht, rfl⟩ := List.mem_map.mp he
  have htm : t ∈ s1 ∨ t ∈ s2 := by
    have := uniqueQ_mem.mp ht
    simpa using this
  have h0 : qabs (t - t) < mt := by rw [sub_self]; simpa [qabs] using hτ
  unfold entrySpec
  by_cases h12 : t ∈ s1 ∧ t ∈ s2
  · rw [if_pos h12]
    exact ⟨htm, fun _ => ⟨fun _ => ⟨t, h12.2, h0⟩, fun _ => ⟨t, h12.1, h0⟩⟩⟩
  · rw [if_neg h12]
    by_cases h1 : t ∈ s1
    · rw [if_pos h1]
      refine ⟨htm, fun hne => ⟨fun _ => ?_, fun h2 => absurd ⟨h1, h2⟩ h12⟩⟩
      obtain ⟨b, hb, _, hc⟩ := D5_mark1_ne_zero _ _ _ _ _ _ _ hne
      exact ⟨b, hb, D5_coinc_within _ _ _ _ _ _ _ _ hτ hc⟩
    · rw [if_neg h1]
      refine ⟨htm, fun hne => ⟨fun h1' => absurd h1' h1, fun _ => ?_⟩⟩
      obtain ⟨a, ha, _, hc⟩ := D5_mark2_ne_zero _ _ _ _ _ _ _ hne
      exact ⟨a, ha, by rw [D5_qabs_comm]; exact D5_coinc_within _ _ _ _ _ _ _ _ hτ hc⟩

/-- **SPIKE-Sync profile, API level** (`kw.recon` arbitrary; the trains after preparation must be
    strictly increasing): every inner entry sits at a spike time, and if its value is non-zero
    then each train that spikes there has a spike of the other train strictly closer than
    `max_tau` (a simultaneous spike has distance 0) -/
theorem D5_syncProfileBi_within (kw : Kw) (a b : Train)
    (h1 : StrictSorted (prepBi kw a b).1.spikes) (h2 : StrictSorted (prepBi kw a b).2.spikes)
    (hτ : 0 < kw.maxTau) :
    ∀ e ∈ (syncProfileBi kw a b).interior,
      (e.1 ∈ (prepBi kw a b).1.spikes ∨ e.1 ∈ (prepBi kw a b).2.spikes) ∧ (e.2.1 ≠ 0 →
        (e.1 ∈ (prepBi kw a b).1.spikes →
          ∃ y ∈ (prepBi kw a b).2.spikes, qabs (e.1 - y) < kw.maxTau) ∧
        (e.1 ∈ (prepBi kw a b).2.spikes →
          ∃ x ∈ (prepBi kw a b).1.spikes, qabs (e.1 - x) < kw.maxTau)) := by
  unfold syncProfileBi
  simp only
  rw [coincProfile_eq_spec _ _ _ _ _ _ h1 h2, B2_interior_frame]
  exact D5_scanSpec_within 1 1 2 _ _ _ _ _ _ hτ

/-- the same for the spike-train-order profile (simultaneous spikes have value 0 there) -/
theorem D5_orderProfileBi_within (kw : Kw) (a b : Train)
    (h1 : StrictSorted (prepBi kw a b).1.spikes) (h2 : StrictSorted (prepBi kw a b).2.spikes)
    (hτ : 0 < kw.maxTau) :
    ∀ e ∈ (orderProfileBi kw a b).interior,
      (e.1 ∈ (prepBi kw a b).1.spikes ∨ e.1 ∈ (prepBi kw a b).2.spikes) ∧ (e.2.1 ≠ 0 →
        (e.1 ∈ (prepBi kw a b).1.spikes →
          ∃ y ∈ (prepBi kw a b).2.spikes, qabs (e.1 - y) < kw.maxTau) ∧
        (e.1 ∈ (prepBi kw a b).2.spikes →
          ∃ x ∈ (prepBi kw a b).1.spikes, qabs (e.1 - x) < kw.maxTau)) := by
  unfold orderProfileBi
  simp only
  rw [orderProfile_eq_spec _ _ _ _ _ _ h1 h2, B2_interior_frame]
  exact D5_scanSpec_within (-1) 1 0 _ _ _ _ _ _ hτ

/-- **C16 for `spike_sync_profile` without reconciliation** (strictly increasing trains) -/
theorem D5_syncProfileBi_within_max_tau (kw : Kw) (a b : Train) (hr : kw.recon = false)
    (h1 : StrictSorted a.spikes) (h2 : StrictSorted b.spikes) (hτ : 0 < kw.maxTau) :
    ∀ e ∈ (syncProfileBi kw a b).interior,
      (e.1 ∈ a.spikes ∨ e.1 ∈ b.spikes) ∧ (e.2.1 ≠ 0 →
        (e.1 ∈ a.spikes → ∃ y ∈ b.spikes, qabs (e.1 - y) < kw.maxTau) ∧
        (e.1 ∈ b.spikes → ∃ x ∈ a.spikes, qabs (e.1 - x) < kw.maxTau)) := by
  have hp : prepBi kw a b = (a, b) := by simp [prepBi, hr]
  have := D5_syncProfileBi_within kw a b (by rw [hp]; exact h1) (by rw [hp]; exact h2) hτ
  rw [hp] at this
  exact this

/-- **C16 for `spike_sync_profile` with reconciliation** (the default): no hypothesis on the
    trains — the marks refer to the reconciled spike lists -/
theorem D5_syncProfileBi_within_max_tau_recon (kw : Kw) (a b : Train) (hr : kw.recon = true)
    (hτ : 0 < kw.maxTau) :
    ∀ e ∈ (syncProfileBi kw a b).interior,
      (e.1 ∈ (reconcileBi a b).1.spikes ∨ e.1 ∈ (reconcileBi a b).2.spikes) ∧ (e.2.1 ≠ 0 →
        (e.1 ∈ (reconcileBi a b).1.spikes →
          ∃ y ∈ (reconcileBi a b).2.spikes, qabs (e.1 - y) < kw.maxTau) ∧
        (e.1 ∈ (reconcileBi a b).2.spikes →
          ∃ x ∈ (reconcileBi a b).1.spikes, qabs (e.1 - x) < kw.maxTau)) := by
  have hp : prepBi kw a b = reconcileBi a b := by simp [prepBi, hr]
  have hs := B2_reconcileBi_sorted a b
  have := D5_syncProfileBi_within kw a b (by rw [hp]; exact hs.1) (by rw [hp]; exact hs.2) hτ
  rw [hp] at this
  exact this

/-- **C16 for `spike_train_order_profile` without reconciliation** -/
theorem D5_orderProfileBi_within_max_tau (kw : Kw) (a b : Train) (hr : kw.recon = false)
    (h1 : StrictSorted a.spikes) (h2 : StrictSorted b.spikes) (hτ : 0 < kw.maxTau) :
    ∀ e ∈ (orderProfileBi kw a b).interior,
      (e.1 ∈ a.spikes ∨ e.1 ∈ b.spikes) ∧ (e.2.1 ≠ 0 →
        (e.1 ∈ a.spikes → ∃ y ∈ b.spikes, qabs (e.1 - y) < kw.maxTau) ∧
        (e.1 ∈ b.spikes → ∃ x ∈ a.spikes, qabs (e.1 - x) < kw.maxTau)) := by
  have hp : prepBi kw a b = (a, b) := by simp [prepBi, hr]
  have := D5_orderProfileBi_within kw a b (by rw [hp]; exact h1) (by rw [hp]; exact h2) hτ
  rw [hp] at this
  exact this

/-- **C16 for `spike_train_order_profile` with reconciliation** (the default) -/
theorem D5_orderProfileBi_within_max_tau_recon (kw : Kw) (a b : Train) (hr : kw.recon = true)
    (hτ : 0 < kw.maxTau) :
    ∀ e ∈ (orderProfileBi kw a b).interior,
      (e.1 ∈ (reconcileBi a b).1.spikes ∨ e.1 ∈ (reconcileBi a b).2.spikes) ∧ (e.2.1 ≠ 0 →
        (e.1 ∈ (reconcileBi a b).1.spikes →
          ∃ y ∈ (reconcileBi a b).2.spikes, qabs (e.1 - y) < kw.maxTau) ∧
        (e.1 ∈ (reconcileBi a b).2.spikes →
          ∃ x ∈ (reconcileBi a b).1.spikes, qabs (e.1 - x) < kw.maxTau)) := by
  have hp : prepBi kw a b = reconcileBi a b := by simp [prepBi, hr]
  have hs := B2_reconcileBi_sorted a b
  have := D5_orderProfileBi_within kw a b (by rw [hp]; exact hs.1) (by rw [hp]; exact hs.2) hτ
  rw [hp] at this
  exact this

example : (({ recon := false, maxTau := 2 } : Kw).recon = false) ∧
    StrictSorted (⟨[10, 20, 30], 0, 40⟩ : Train).spikes ∧
    StrictSorted (⟨[11, 23, 33], 0, 40⟩ : Train).spikes ∧ (0 : Q) < ({ recon := false, maxTau := 2 } : Kw).maxTau := by
  unfold StrictSorted; decide +kernel

example : ((syncProfileBi { recon := false, maxTau := 2 } ⟨[10, 20, 30], 0, 40⟩ ⟨[11, 23, 33], 0, 40⟩).interior).map
    (·.2.1) = [1, 1, 0, 0, 0, 0] := by decide +kernel

/-- a non-zero directionality value of spike `k` of train 1 (pairwise definition): a spike of
    train 2 is strictly closer than `max_tau` -/
theorem D5_dirSpec1_within (s1 s2 : List Q) (ts te mt m : Q) (hτ : 0 < mt) (k : Nat)
    (h : (dirSpec1 s1 s2 (trueMax ts te mt) m).getD k 0 ≠ 0) :
    ∃ hk : k < s1.length, ∃ y ∈ s2, qabs (s1[k] - y) < mt := by
  unfold dirSpec1 at h
  by_cases hk : k < s1.length
  · rw [List.getD_eq_getElem _ _ (by simpa using hk), List.getElem_map] at h
    obtain ⟨b, hb, _, hc⟩ := D5_mark1_ne_zero _ _ _ _ _ _ _ h
    exact ⟨hk, b, hb, D5_coinc_within _ _ _ _ _ _ _ _ hτ hc⟩
  · rw [List.getD_eq_default _ _ (by simp; omega)] at h
    exact absurd rfl h

/-- **C16 for `spike_directionality_profile`** (one pair): a spike with a non-zero value has a
    spike of the other train strictly closer than `max_tau` -/
theorem D5_dirProfile_within_max_tau (s1 s2 : List Q) (ts te mt m : Q)
    (h1 : StrictSorted s1) (h2 : StrictSorted s2) (hτ : 0 < mt) (k : Nat) :
    ((dirProfile s1 s2 ts te mt m).1.getD k 0 ≠ 0 →
      ∃ hk : k < s1.length, ∃ y ∈ s2, qabs (s1[k] - y) < mt) ∧
    ((dirProfile s1 s2 ts te mt m).2.getD k 0 ≠ 0 →
      ∃ hk : k < s2.length, ∃ x ∈ s1, qabs (s2[k] - x) < mt) := by
  rw [D5_dirProfile_eq_spec s1 s2 ts te mt m h1 h2, D5_dirSpec2_eq]
  exact ⟨D5_dirSpec1_within s1 s2 ts te mt m hτ k, D5_dirSpec1_within s2 s1 ts te mt m hτ k⟩

theorem D5_exists_ne_zero_of_sum {ι} (g : ι → Q) : ∀ (l : List ι), (l.map g).sum ≠ 0 →
    ∃ j ∈ l, g j ≠ 0
  | [], h => by simp at h
  | j :: l, h => by
    by_cases hj : g j = 0
    · rw [List.map_cons, List.sum_cons, hj, zero_add] at h
      obtain ⟨x, hx, hg⟩ := D5_exists_ne_zero_of_sum g l h
      exact ⟨x, List.mem_cons_of_mem _ hx, hg⟩
    · exact ⟨j, List.mem_cons_self, hj⟩

/-- **C16 for `spike_directionality_values`**: a spike with a non-zero averaged value has, in some
    other train, a spike strictly closer than `max_tau` (strictly increasing trains, any edges) -/
theorem D5_dirValues_within_max_tau (kw : Kw) (L : List Train) (hr : kw.recon = false)
    (hL : ∀ s ∈ L, StrictSorted s.spikes) (hτ : 0 < kw.maxTau) (i k : Nat) (hi : i < L.length)
    (hne : ((dirValues kw none L).getD i []).getD k 0 ≠ 0) :
    ∃ j, j < L.length ∧ j ≠ i ∧ ∃ hk : k < (tr L i).spikes.length,
      ∃ y ∈ (tr L j).spikes, qabs ((tr L i).spikes[k] - y) < kw.maxTau := by
  rw [D5_dirValues_getD kw L hr i k hi] at hne
  have hs : (((List.range L.length).filter (· ≠ i)).map fun j =>
      if i < j then (D5_pairDir kw L (i, j)).1.getD k 0
      else (D5_pairDir kw L (j, i)).2.getD k 0).sum ≠ 0 := by
    intro h0; rw [h0, zero_div] at hne; exact hne rfl
  obtain ⟨j, hj, hg⟩ := D5_exists_ne_zero_of_sum _ _ hs
  obtain ⟨hjr, hji⟩ := List.mem_filter.mp hj
  have hjn : j < L.length := List.mem_range.mp hjr
  have hji' : j ≠ i := by simpa using hji
  have hsi := hL _ (D5_tr_mem L i hi)
  have hsj := hL _ (D5_tr_mem L j hjn)
  refine ⟨j, hjn, hji', ?_⟩
  unfold D5_pairDir at hg
  simp only at hg
  split_ifs at hg
  · exact (D5_dirProfile_within_max_tau _ _ _ _ _ _ hsi hsj hτ k).1 hg
  · exact (D5_dirProfile_within_max_tau _ _ _ _ _ _ hsj hsi hτ k).2 hg

example : (({ recon := false, maxTau := 2 } : Kw).recon = false) ∧
    (∀ s ∈ D5_exL, StrictSorted s.spikes) ∧ (0 : Q) < ({ recon := false, maxTau := 2 } : Kw).maxTau ∧
    ((dirValues { recon := false, maxTau := 2 } none D5_exL).getD 0 []).getD 0 0 ≠ 0 := by
  refine ⟨rfl, fun s hs => (D5_exL_valid s hs).2.2, by decide +kernel, by decide +kernel⟩

/-- **C16 for `filter_by_spike_sync`** (threshold `≥ 0`): a kept spike is coincident with a spike
    of some other train, and that spike is strictly closer than `max_tau` -/
theorem D5_filterBySync_kept_within_max_tau (kw : Kw) (thr : Q) (L : List Train)
    (hr : kw.recon = false) (hL : ∀ s ∈ L, StrictSorted s.spikes) (hthr : 0 ≤ thr)
    (hτ : 0 < kw.maxTau) (i : Nat) (hi : i < L.length) (x : Q)
    (hx : x ∈ (tr (filterBySync kw thr L).1 i).spikes) :
    ∃ j, j < L.length ∧ j ≠ i ∧ ∃ y ∈ (tr L j).spikes, qabs (x - y) < kw.maxTau := by
  obtain ⟨k, hk, rfl, hc⟩ := (B6_filter_keep_mem kw thr L hr i hi _).mp hx
  have hn : (0 : Q) ≤ (L.length : Q) - 1 := by
    have h1 : (1 : Q) ≤ (L.length : Q) := by exact_mod_cast (by omega : 1 ≤ L.length)
    linarith
  have hpos : (coincCounts kw L i).getD k 0 ≠ 0 := by
    have := mul_nonneg hthr hn
    intro h0; rw [h0] at hc; linarith
  rw [coincCounts_eq_sum] at hpos
  obtain ⟨j, hj, hg⟩ := D5_exists_ne_zero_of_sum _ _ hpos
  obtain ⟨hjr, hji⟩ := List.mem_filter.mp hj
  have hjn : j < L.length := List.mem_range.mp hjr
  have hji' : j ≠ i := by simpa using hji
  have hsi := hL _ (D5_tr_mem L i hi)
  have hsj := hL _ (D5_tr_mem L j hjn)
  refine ⟨j, hjn, hji', ?_⟩
  rw [coincSingle_eq_spec _ _ _ _ _ _ hsi hsj] at hg
  unfold singleSpec at hg
  rw [List.getD_eq_getElem _ _ (by simpa using hk), List.getElem_map] at hg
  split_ifs at hg with hany
  · obtain ⟨b, hb, hp⟩ := List.any_eq_true.mp hany
    simp only [decide_eq_true_eq] at hp
    exact ⟨b, hb, D5_coinc_within _ _ _ _ _ _ _ _ hτ hp⟩
  · exact absurd rfl hg

example : ∀ s ∈ B6_exL, StrictSorted s.spikes := by
  unfold StrictSorted B6_exL; decide +kernel

example : (tr (filterBySync { recon := false, maxTau := 2 } (1/4) B6_exL).1 0).spikes = [1, 5, 9] := by
  decide +kernel

/-! ## D. `spike_train_order` of several trains = ratio of the pair sums -/

/-- **`spike_train_order_multi`** (any keywords, any `indices`): the sum over all pairs of the
    summed pair profile values divided by the sum over all pairs of the summed multiplicities,
    and 1 when the total multiplicity is 0 -/
theorem D5_spikeTrainOrderMulti_eq_ratio (kw : Kw) (idx : Option (List Nat)) (L : List Train) :
    spikeTrainOrderMulti kw idx L =
      (let L' := prep kw L
       let pairs := pairsOf (resolveIdx idx L'.length)
       let V := qsum (pairs.map fun p => (orderValues kw (tr L' p.1) (tr L' p.2)).1)
       let M := qsum (pairs.map fun p => (orderValues kw (tr L' p.1) (tr L' p.2)).2)
       if M = 0 then 1 else V / M) := by
  unfold spikeTrainOrderMulti
  simp only
  rw [B2_foldl_pair (fun p : Nat × Nat => orderValues kw (tr (prep kw L) p.1) (tr (prep kw L) p.2))]
  simp only [zero_add]

/-- the pair values of two trains of a reconciled list are the sums over the spike-train-order
    profile of the two trains as they are (the second reconciliation changes nothing) -/
theorem D5_orderValues_of_reconciled (kw : Kw) (L : List Train) (i j : Nat) (hi : i < L.length)
    (hj : j < L.length) :
    orderValues kw (tr (reconcile L) i) (tr (reconcile L) j)
      = (orderProfileBi kw.noRecon (tr (reconcile L) i) (tr (reconcile L) j)).integralAll := by
  unfold orderValues orderProfileBi
  simp only [prepBi, if_true, Kw.noRecon, Bool.false_eq_true, if_false,
    B2_reconcileBi_of_reconciled L i j hi hj]

/-- **default call** (`recon = true`, all trains): with `L'` the reconciled trains,
    `spike_train_order = Σ_{i<j} Σ values of profile(i,j) / Σ_{i<j} Σ multiplicities of
    profile(i,j)`, and 1 by convention when the denominator is 0 (no spikes, or one train) -/
theorem D5_spikeTrainOrderMulti_eq_ratio_profiles (kw : Kw) (L : List Train) (hr : kw.recon = true) :
    spikeTrainOrderMulti kw none L =
      (let L' := reconcile L
       let pairs := posPairs L'.length
       let V := qsum (pairs.map fun p =>
          (orderProfileBi kw.noRecon (tr L' p.1) (tr L' p.2)).integralAll.1)
       let M := qsum (pairs.map fun p =>
          (orderProfileBi kw.noRecon (tr L' p.1) (tr L' p.2)).integralAll.2)
       if M = 0 then 1 else V / M) := by
  rw [D5_spikeTrainOrderMulti_eq_ratio]
  have hp : prep kw L = reconcile L := by simp [prep, hr]
  simp only [hp, resolveIdx]
  have hV : ∀ p ∈ posPairs (reconcile L).length,
      orderValues kw (tr (reconcile L) p.1) (tr (reconcile L) p.2)
        = (orderProfileBi kw.noRecon (tr (reconcile L) p.1) (tr (reconcile L) p.2)).integralAll := by
    intro p hp'
    have h := mem_posPairs hp'
    rw [reconcile_length] at h
    exact D5_orderValues_of_reconciled kw L p.1 p.2 h.1 h.2
  have e1 : ((pairsOf (List.range (reconcile L).length)).map fun p =>
        (orderValues kw (tr (reconcile L) p.1) (tr (reconcile L) p.2)).1)
      = ((posPairs (reconcile L).length).map fun p =>
        (orderProfileBi kw.noRecon (tr (reconcile L) p.1) (tr (reconcile L) p.2)).integralAll.1) :=
    List.map_congr_left (fun p hp' => by rw [hV p hp'])
  have e2 : ((pairsOf (List.range (reconcile L).length)).map fun p =>
        (orderValues kw (tr (reconcile L) p.1) (tr (reconcile L) p.2)).2)
      = ((posPairs (reconcile L).length).map fun p =>
        (orderProfileBi kw.noRecon (tr (reconcile L) p.1) (tr (reconcile L) p.2)).integralAll.2) :=
    List.map_congr_left (fun p hp' => by rw [hV p hp'])
  rw [e1, e2]

/-- the denominator is `(N - 1) ·` (number of spikes of all reconciled trains): every train occurs
    in `N - 1` pairs and every spike has multiplicity 1 in each of them -/
theorem D5_spikeTrainOrderMulti_denominator (kw : Kw) (L : List Train) :
    qsum ((posPairs (reconcile L).length).map fun p =>
        (orderProfileBi kw.noRecon (tr (reconcile L) p.1) (tr (reconcile L) p.2)).integralAll.2)
      = (((reconcile L).length : Q) - 1)
          * qsum ((List.range (reconcile L).length).map fun i =>
              ((tr (reconcile L) i).spikes.length : Q)) := by
  have hc := B2_pairs_count (fun i => ((tr (reconcile L) i).spikes.length : Q))
    (List.range (reconcile L).length)
  rw [List.length_range] at hc
  rw [← hc]
  unfold posPairs
  congr 1
  apply List.map_congr_left
  intro p hp
  have h := mem_posPairs hp
  have hs := reconcile_spikes_sorted L
  unfold orderProfileBi
  simp only [prepBi, Kw.noRecon, Bool.false_eq_true, if_false]
  rw [B2_orderProfile_integral _ _ _ _ _ _ (hs _ (D5_tr_mem _ _ h.1)) (hs _ (D5_tr_mem _ _ h.2))]

example : ({} : Kw).recon = true := rfl

example : spikeTrainOrderMulti {} none D5_exL =
    (let L' := reconcile D5_exL
     let pairs := posPairs L'.length
     let V := qsum (pairs.map fun p =>
        (orderProfileBi ({} : Kw).noRecon (tr L' p.1) (tr L' p.2)).integralAll.1)
     let M := qsum (pairs.map fun p =>
        (orderProfileBi ({} : Kw).noRecon (tr L' p.1) (tr L' p.2)).integralAll.2)
     if M = 0 then 1 else V / M) :=
  D5_spikeTrainOrderMulti_eq_ratio_profiles {} D5_exL rfl

/-! ## E. the default (reconciling) call of `spike_directionality_values`: no hypotheses -/

theorem D5_dirValues_recon (kw : Kw) (L : List Train) (hr : kw.recon = true) :
    dirValues kw none L = dirValues kw.noRecon none (reconcile L) := by
  unfold dirValues
  simp only [prep, hr, Kw.noRecon, if_true, Bool.false_eq_true, if_false]

theorem D5_reconcile_valid (L : List Train) :
    ∀ s ∈ reconcile L, s.ts = minList 0 (L.map (·.ts)) ∧ s.te = maxList 0 (L.map (·.te)) ∧
      StrictSorted s.spikes :=
  fun s hs => ⟨(reconcile_edges L s hs).1, (reconcile_edges L s hs).2, reconcile_spikes_sorted L s hs⟩

/-- **average over the other trains, default call** (`recon = true`): for EVERY list of trains the
    values are the averages of the pairwise directionality indicators of the reconciled trains -/
theorem D5_dirValues_eq_average_recon (kw : Kw) (L : List Train) (hr : kw.recon = true) (i k : Nat)
    (hi : i < L.length) :
    ((dirValues kw none L).getD i []).getD k 0
      = (((List.range L.length).filter (· ≠ i)).map fun j =>
          (dirSpec1 (tr (reconcile L) i).spikes (tr (reconcile L) j).spikes
            (trueMax (minList 0 (L.map (·.ts))) (maxList 0 (L.map (·.te))) kw.maxTau)
            kw.mrts).getD k 0).sum
        / ((L.length : Q) - 1) := by
  rw [D5_dirValues_recon kw L hr]
  have h := dirValues_eq_average kw.noRecon (reconcile L) _ _ rfl (D5_reconcile_valid L) i k
    (by rw [reconcile_length]; exact hi)
  rw [reconcile_length] at h
  exact h

theorem D5_dirValues_range_recon (kw : Kw) (L : List Train) (hr : kw.recon = true) :
    ∀ l ∈ dirValues kw none L, ∀ v ∈ l, -1 ≤ v ∧ v ≤ 1 := by
  rw [D5_dirValues_recon kw L hr]
  exact D5_dirValues_range kw.noRecon (reconcile L) rfl

theorem D5_dirValues_sum_zero_recon (kw : Kw) (L : List Train) (hr : kw.recon = true) :
    qsum ((dirValues kw none L).map qsum) = 0 := by
  rw [D5_dirValues_recon kw L hr]
  exact D5_dirValues_sum_zero kw.noRecon (reconcile L) rfl (reconcile_spikes_sorted L)

theorem D5_dirValues_within_max_tau_recon (kw : Kw) (L : List Train) (hr : kw.recon = true)
    (hτ : 0 < kw.maxTau) (i k : Nat) (hi : i < L.length)
    (hne : ((dirValues kw none L).getD i []).getD k 0 ≠ 0) :
    ∃ j, j < L.length ∧ j ≠ i ∧ ∃ hk : k < (tr (reconcile L) i).spikes.length,
      ∃ y ∈ (tr (reconcile L) j).spikes, qabs ((tr (reconcile L) i).spikes[k] - y) < kw.maxTau := by
  rw [D5_dirValues_recon kw L hr] at hne
  have h := D5_dirValues_within_max_tau kw.noRecon (reconcile L) rfl (reconcile_spikes_sorted L) hτ i k
    (by rw [reconcile_length]; exact hi) hne
  rw [reconcile_length] at h
  exact h

example : ((dirValues {} none D5_exL).getD 0 []).getD 0 0
    = (((List.range D5_exL.length).filter (· ≠ 0)).map fun j =>
        (dirSpec1 (tr (reconcile D5_exL) 0).spikes (tr (reconcile D5_exL) j).spikes
          (trueMax (minList 0 (D5_exL.map (·.ts))) (maxList 0 (D5_exL.map (·.te))) 0) 0).getD 0 0).sum
      / ((D5_exL.length : Q) - 1) :=
  D5_dirValues_eq_average_recon {} D5_exL rfl 0 0 (by decide)

end PySpike
