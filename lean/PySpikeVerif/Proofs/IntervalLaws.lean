/-
  Proofs/IntervalLaws.lean — averages over a sub-interval distribute over `add` and `mulScalar`
  (work package C3; properties C05, C10):
  the clipped Riemann sums `Pwc.riemann a b`, `Pwl.riemann a b` and the inside sums
  `Disc.sumInside a b` are additive under the `add` kernels and linear under `mulScalar`;
  consequences for the multivariate ISI distance / SPIKE-Sync value over a sub-interval.
-/
import PySpikeVerif.Spec.Funcs
import PySpikeVerif.Proofs.FuncLaws
import PySpikeVerif.Proofs.Integral
import PySpikeVerif.Proofs.AddPwc
import PySpikeVerif.Proofs.AddPwl
import PySpikeVerif.Proofs.AddDisc
import PySpikeVerif.Proofs.DiscLaws
import PySpikeVerif.Proofs.MultiLaws
import PySpikeVerif.Proofs.SpikeScan
import PySpikeVerif.Proofs.SyncScan
import PySpikeVerif.Proofs.Reconcile
import Mathlib.Data.List.Basic
import Mathlib.Tactic.Linarith
import Mathlib.Tactic.Ring
import Mathlib.Tactic.FieldSimp
import Mathlib.Algebra.Order.Field.Rat

namespace PySpike

/-! ## 1. piecewise constant -/

/-- clipped integral of the step function `c, r` over `[x0, xn] ∩ [a, b]` -/
def C3_stepClip (a b x0 c : Q) : List (Q × Q) → Q → Q
  | [], xn => clipLen a b x0 xn * c
  | (x, v) :: r, xn => clipLen a b x0 x * c + C3_stepClip a b x v r xn

/-- the overlap length is additive in the piece: splitting `[l, r]` at `m` -/
theorem C3_clipLen_split (a b : Q) {l m r : Q} (hlm : l ≤ m) (hmr : m ≤ r) :
    clipLen a b l r = clipLen a b l m + clipLen a b m r := by
  simp only [clipLen, max_def, min_def]
  split_ifs <;> linarith

theorem C3_mkPwc_riemann (a b x0 c xn : Q) (r : List (Q × Q)) :
    (mkPwc x0 c r xn).riemann a b = C3_stepClip a b x0 c r xn := by
  induction r generalizing x0 c with
  | nil => simp [Pwc.riemann, mkPwc_pieces_nil, C3_stepClip, qsum]
  | cons p r ih =>
    obtain ⟨x, v⟩ := p
    have := ih x v
    unfold Pwc.riemann at this ⊢
    rw [mkPwc_pieces_cons]
    simp only [List.map_cons, qsum, C3_stepClip, this]

theorem Pwc.WF.C3_riemann_eq {f : Pwc} (hf : f.WF) (a b : Q) :
    f.riemann a b = C3_stepClip a b f.first (f.y.headD 0) f.inner f.last := by
  have := C3_mkPwc_riemann a b f.first (f.y.headD 0) f.last f.inner
  rwa [← hf.shape] at this

/-- moving the left end of the first piece: `x0 ≤ m ≤` first breakpoint -/
theorem C3_stepClip_shift (a b : Q) {x0 m c xn : Q} {r : List (Q × Q)} (h0 : x0 ≤ m)
    (hc : PChain m r xn) :
    C3_stepClip a b x0 c r xn = clipLen a b x0 m * c + C3_stepClip a b m c r xn := by
  cases r with
  | nil =>
    simp only [C3_stepClip]
    rw [C3_clipLen_split a b h0 hc.lt.le]; ring
  | cons p r =>
    obtain ⟨x, v⟩ := p
    simp only [C3_stepClip]
    rw [C3_clipLen_split a b h0 hc.cons.1.le]; ring

theorem C3_addPwcLoop_stepClip (a b : Q) (c1 c2 : Q) (r1 r2 : List (Q × Q)) (x0 xn : Q)
    (h1 : PChain x0 r1 xn) (h2 : PChain x0 r2 xn) :
    C3_stepClip a b x0 (c1 + c2) (addPwcLoop c1 c2 r1 r2) xn =
      C3_stepClip a b x0 c1 r1 xn + C3_stepClip a b x0 c2 r2 xn := by
  induction c1, c2, r1, r2 using addPwcLoop.induct generalizing x0 with
  | case1 c1 c2 => simp only [addPwcLoop, C3_stepClip]; ring
  | case2 c1 c2 x va r1' ih =>
    obtain ⟨hx, hc⟩ := h1.cons
    rw [addPwcLoop]; simp only [C3_stepClip]
    rw [ih x hc (PChain.intro hc.lt (by simp) (by simp))]
    have := C3_stepClip_shift a b (c := c2) hx.le (PChain.intro hc.lt (r := []) (by simp) (by simp))
    simp only [C3_stepClip] at this ⊢; linarith
  | case3 c1 c2 x vb r2' ih =>
    obtain ⟨hx, hc⟩ := h2.cons
    rw [addPwcLoop]; simp only [C3_stepClip]
    rw [add_comm vb c1, ih x (PChain.intro hc.lt (by simp) (by simp)) hc]
    have := C3_stepClip_shift a b (c := c1) hx.le (PChain.intro hc.lt (r := []) (by simp) (by simp))
    simp only [C3_stepClip] at this ⊢; linarith
  | case4 c1 c2 x va r1' y vb r2' hab ih =>
    obtain ⟨hx, hc⟩ := h1.cons
    obtain ⟨hy, hc'⟩ := h2.cons
    have hc2 : PChain x ((y, vb) :: r2') xn :=
      PChain.intro hc.lt h2.sorted (fun p hp => by
        rcases List.mem_cons.mp hp with rfl | hp'
        · exact ⟨hab, hc'.lt⟩
        · exact ⟨lt_trans hab (hc'.lt_mem p hp').1, (hc'.lt_mem p hp').2⟩)
    rw [addPwcLoop, if_pos hab]; simp only [C3_stepClip]; rw [ih x hc hc2]
    have := C3_stepClip_shift a b (c := c2) hx.le hc2
    simp only [C3_stepClip] at this ⊢; linarith
  | case5 c1 c2 x va r1' y vb r2' hab hba ih =>
    obtain ⟨hx, hc⟩ := h1.cons
    obtain ⟨hy, hc'⟩ := h2.cons
    have hc1 : PChain y ((x, va) :: r1') xn :=
      PChain.intro hc'.lt h1.sorted (fun p hp => by
        rcases List.mem_cons.mp hp with rfl | hp'
        · exact ⟨hba, hc.lt⟩
        · exact ⟨lt_trans hba (hc.lt_mem p hp').1, (hc.lt_mem p hp').2⟩)
    rw [addPwcLoop, if_neg hab, if_pos hba]; simp only [C3_stepClip]; rw [ih y hc1 hc']
    have := C3_stepClip_shift a b (c := c1) hy.le hc1
    simp only [C3_stepClip] at this ⊢; linarith
  | case6 c1 c2 x va r1' y vb r2' hab hba ih =>
    have : x = y := le_antisymm (not_lt.mp hba) (not_lt.mp hab)
    subst this
    rw [addPwcLoop, if_neg hab, if_neg hba]; simp only [C3_stepClip]
    rw [ih x h1.cons.2 h2.cons.2]
    ring

/-- the clipped Riemann sum distributes over `add` — for ANY bounds `a`, `b` -/
theorem Pwc.C3_riemann_add_any {f g : Pwc} (hf : f.WF) (hg : g.WF) (h0 : f.first = g.first)
    (h1 : f.last = g.last) (a b : Q) :
    (f.add g).riemann a b = f.riemann a b + g.riemann a b := by
  have hgc := hg.chain
  rw [← h0, ← h1] at hgc
  rw [hf.C3_riemann_eq, hg.C3_riemann_eq, ← h0, ← h1, Pwc.add_eq_mk, C3_mkPwc_riemann,
    C3_addPwcLoop_stepClip a b _ _ _ _ _ _ hf.chain hgc]

/-- **sub-interval integrals distribute over `add`** (statement of the work package; the bounds
    hypotheses are not needed, see `Pwc.C3_riemann_add_any`) -/
theorem Pwc.riemann_add {f g : Pwc} {a b : Q} (hf : f.WF) (hg : g.WF) (h0 : f.first = g.first)
    (h1 : f.last = g.last) (_ha : f.first ≤ a) (_hab : a ≤ b) (_hb : b ≤ f.last) :
    (f.add g).riemann a b = f.riemann a b + g.riemann a b :=
  Pwc.C3_riemann_add_any hf hg h0 h1 a b

theorem Pwc.riemann_mulScalar (f : Pwc) (c a b : Q) :
    (f.mulScalar c).riemann a b = f.riemann a b * c := by
  simp only [Pwc.riemann, Pwc.mulScalar_pieces, List.map_map]
  rw [← qsum_map_mul, List.map_map]
  congr 1
  apply List.map_congr_left
  intro p _
  simp only [Function.comp]
  ring

example : exF.WF ∧ exG.WF ∧ exF.first = exG.first ∧ exF.last = exG.last ∧
    exF.first ≤ (1/2 : Q) ∧ (1/2 : Q) ≤ 5/2 ∧ (5/2 : Q) ≤ exF.last := by
  refine ⟨?_, ?_, ?_, ?_, ?_, ?_, ?_⟩ <;>
    simp [Pwc.WF, exF, exG, Pwc.first, Pwc.last, lastD] <;> norm_num
example : (exF.add exG).riemann (1/2) (5/2) = 12 ∧ exF.riemann (1/2) (5/2) = 17/2 ∧
    exG.riemann (1/2) (5/2) = 7/2 := by decide +kernel

/-! ## 3a. ISI: multivariate distance over a sub-interval = average of the multivariate profile -/

open PySpike.C01 in
/-- **multivariate ISI distance over `[a, b]` = `avrg (a, b)` of the multivariate ISI profile**
    (no reconciliation step) -/
theorem C3_isiDistanceMulti_eq_avrg_profile_interval_noRecon (kw : Kw) (L : List Train)
    (ts te a b : Q) (hr : kw.recon = false) (hi : kw.interval = some (a, b))
    (hv : B5_ValidList ts te L) (h2 : 2 ≤ L.length) (ha : ts ≤ a) (hab : a < b) (hb : b ≤ te) :
    isiDistanceMulti kw none L = (isiProfileMulti kw none L).avrg a b := by
  have hleaf := B5_isi_leaf_on kw L ts te hr hv
  have hon := B5_isiProfileMulti_on kw L ts te hr hv h2
  rw [Pwc.avrg_eq hon.1 (by rw [hon.2.1]; exact ha) hab (by rw [hon.2.2]; exact hb)]
  unfold isiDistanceMulti isiProfileMulti genericDistanceMulti
  simp only [prep_of_recon_false kw L hr, resolveIdx, Kw.noRecon_eq kw hr]
  rw [Pwc.riemann_mulScalar, genericProfileMulti_snd]
  obtain ⟨-, i⟩ := B5_gpm_sum Pwc.add (fun p => isiProfileBi kw (tr L p.1) (tr L p.2))
    (B5_PwcOn ts te) (fun f => f.riemann a b) (fun _ _ => B5_PwcOn.add)
    (fun _ _ hf hg => Pwc.C3_riemann_add_any hf.1 hg.1 (hf.2.1.trans hg.2.1.symm)
      (hf.2.2.trans hg.2.2.symm) a b) (List.range L.length)
    (B5_pairs_range_ne_nil h2) hleaf
  rw [i]
  have hd : (pairsOf (List.range L.length)).map
        (fun p => isiDistanceBi kw (tr L p.1) (tr L p.2)) =
      (pairsOf (List.range L.length)).map (fun p => some
        ((isiProfileBi kw (tr L p.1) (tr L p.2)).riemann a b * (b - a)⁻¹)) := by
    apply List.map_congr_left
    intro p hp
    show pwcAvrgKw _ kw.interval = _
    rw [hi]
    show Pwc.avrg _ a b = some _
    have hp' := hleaf p hp
    rw [Pwc.avrg_eq hp'.1 (by rw [hp'.2.1]; exact ha) hab (by rw [hp'.2.2]; exact hb),
      div_eq_mul_inv]
  rw [hd, B5_sumOpt_some (fun p : Nat × Nat =>
    (isiProfileBi kw (tr L p.1) (tr L p.2)).riemann a b * (b - a)⁻¹), Option.map_some]
  have hq : qsum ((pairsOf (List.range L.length)).map fun p =>
        (isiProfileBi kw (tr L p.1) (tr L p.2)).riemann a b * (b - a)⁻¹) =
      qsum ((pairsOf (List.range L.length)).map fun p =>
        (isiProfileBi kw (tr L p.1) (tr L p.2)).riemann a b) * (b - a)⁻¹ := by
    rw [← qsum_map_mul, List.map_map]
    rfl
  rw [hq]
  congr 1
  rw [div_eq_mul_inv, div_eq_mul_inv, div_eq_mul_inv]
  ring

/-- **multivariate ISI distance over `[a, b]` = `avrg (a, b)` of the multivariate ISI profile**, for
    every `kw` (with or without reconciliation), valid trains on a common interval `[ts, te]`,
    `ts ≤ a < b ≤ te`; both sides are `some (riemann a b / (b - a))`. -/
theorem isiDistanceMulti_eq_avrg_profile_interval (kw : Kw) (L : List Train) (ts te a b : Q)
    (hi : kw.interval = some (a, b)) (hv : B5_ValidList ts te L) (h2 : 2 ≤ L.length)
    (ha : ts ≤ a) (hab : a < b) (hb : b ≤ te) :
    isiDistanceMulti kw none L = (isiProfileMulti kw none L).avrg a b ∧
    (isiProfileMulti kw none L).avrg a b =
      some ((isiProfileMulti kw none L).riemann a b / (b - a)) := by
  have h := C3_isiDistanceMulti_eq_avrg_profile_interval_noRecon kw.noRecon L ts te a b rfl hi hv h2
    ha hab hb
  have e : isiProfileMulti kw none L = isiProfileMulti kw.noRecon none L := by
    unfold isiProfileMulti
    rw [B5_prep_valid kw ts te L hv (B5_ne_nil_of_two h2)]
    rfl
  have e' : isiDistanceMulti kw none L = isiDistanceMulti kw.noRecon none L := by
    unfold isiDistanceMulti
    rw [B5_prep_valid kw ts te L hv (B5_ne_nil_of_two h2)]
    rfl
  have hon := B5_isiProfileMulti_on kw.noRecon L ts te rfl hv h2
  refine ⟨by rw [e, e', h], ?_⟩
  rw [e]
  exact Pwc.avrg_eq hon.1 (by rw [hon.2.1]; exact ha) hab (by rw [hon.2.2]; exact hb)

example : ({ interval := some (1/2, 9/2) } : Kw).interval = some (1/2, 9/2) ∧
    B5_ValidList 0 6 B5_exV ∧ 2 ≤ B5_exV.length ∧ (0 : Q) ≤ 1/2 ∧ (1/2 : Q) < 9/2 ∧ (9/2 : Q) ≤ 6 :=
  ⟨rfl, B5_exV_valid, by decide, by norm_num, by norm_num, by norm_num⟩

example : isiDistanceMulti { recon := false, interval := some (1/2, 9/2) } none B5_exV
      = some (739/1440) ∧
    (isiProfileMulti { recon := false, interval := some (1/2, 9/2) } none B5_exV).avrg (1/2) (9/2)
      = some (739/1440) := by decide +kernel

/-! ## 2a. discrete profiles: sums strictly inside `(a, b)` distribute over `add` -/

/-- a per-entry quantity that is additive when two entries at the same time are fused, summed
    over the entries whose TIME satisfies `P`, is additive under the merge -/
theorem C3_mergeD_filter_sum (P : Q → Bool) (sel : Ev → Q)
    (hsel : ∀ a b : Ev, sel (a.1, a.2.1 + b.2.1, a.2.2 + b.2.2) = sel a + sel b)
    (r1 r2 : List Ev) :
    qsum (((mergeD r1 r2).filter fun p => P p.1).map sel) =
      qsum ((r1.filter fun p => P p.1).map sel) + qsum ((r2.filter fun p => P p.1).map sel) := by
  induction r1, r2 using mergeD.induct with
  | case1 => simp [mergeD, qsum]
  | case2 a r1' => rw [mergeD]; simp [qsum]
  | case3 b r2' => rw [mergeD]; simp [qsum]
  | case4 a r1' b r2' hab ih =>
    rw [mergeD, if_pos hab]
    by_cases hp : P a.1
    · rw [List.filter_cons_of_pos (by simpa using hp), List.filter_cons_of_pos (by simpa using hp)]
      simp only [List.map_cons, qsum]; rw [ih]; ring
    · rw [List.filter_cons_of_neg (by simpa using hp), List.filter_cons_of_neg (by simpa using hp)]
      exact ih
  | case5 a r1' b r2' hab hba ih =>
    rw [mergeD, if_neg hab, if_pos hba]
    by_cases hp : P b.1
    · rw [List.filter_cons_of_pos (by simpa using hp),
        List.filter_cons_of_pos (l := r2') (by simpa using hp)]
      simp only [List.map_cons, qsum]; rw [ih]; ring
    · rw [List.filter_cons_of_neg (by simpa using hp),
        List.filter_cons_of_neg (l := r2') (by simpa using hp)]
      exact ih
  | case6 a r1' b r2' hab hba ih =>
    have hk := keq hab hba
    rw [mergeD, if_neg hab, if_neg hba]
    by_cases hp : P a.1
    · have hp' : P b.1 = true := by rw [← hk]; exact hp
      rw [List.filter_cons_of_pos (by simpa using hp),
        List.filter_cons_of_pos (l := r1') (by simpa using hp),
        List.filter_cons_of_pos (l := r2') (by simpa using hp')]
      simp only [List.map_cons, qsum]; rw [ih, hsel]; ring
    · have hp' : ¬ P b.1 = true := by rw [← hk]; exact hp
      rw [List.filter_cons_of_neg (by simpa using hp),
        List.filter_cons_of_neg (l := r1') (by simpa using hp),
        List.filter_cons_of_neg (l := r2') (by simpa using hp')]
      exact ih

/-- **sums over the events strictly inside `(a, b)` distribute over `add`** — for all operands and
    all bounds (no well-formedness, no common interval needed: `Disc.add` fuses events at equal
    times and the selection depends on the time only; edge entries never count) -/
theorem Disc.C3_sumInside_add_any (f g : Disc) (a b : Q) :
    (f.add g).sumInside a b =
      ((f.sumInside a b).1 + (g.sumInside a b).1, (f.sumInside a b).2 + (g.sumInside a b).2) := by
  simp only [Disc.sumInside, Disc.add_interior]
  rw [C3_mergeD_filter_sum (fun t => decide (a < t ∧ t < b)) (·.2.1) (fun _ _ => rfl),
    C3_mergeD_filter_sum (fun t => decide (a < t ∧ t < b)) (·.2.2) (fun _ _ => rfl)]

/-- statement of the work package (the hypotheses are not needed, see `Disc.C3_sumInside_add_any`) -/
theorem Disc.sumInside_add {f g : Disc} {a b : Q} (_hf : f.WF) (_hg : g.WF)
    (_h0 : (f.e.headD (0,0,0)).1 = (g.e.headD (0,0,0)).1)
    (_h1 : (lastD f.e (0,0,0)).1 = (lastD g.e (0,0,0)).1)
    (_ha : (f.e.headD (0,0,0)).1 ≤ a) (_hb : b ≤ (lastD f.e (0,0,0)).1) :
    (f.add g).sumInside a b =
      ((f.sumInside a b).1 + (g.sumInside a b).1, (f.sumInside a b).2 + (g.sumInside a b).2) :=
  Disc.C3_sumInside_add_any f g a b

/-- `mulScalar` scales the value sum and leaves the multiplicity sum unchanged -/
theorem Disc.C3_sumInside_mulScalar (f : Disc) (c a b : Q) :
    (f.mulScalar c).sumInside a b = ((f.sumInside a b).1 * c, (f.sumInside a b).2) := by
  have hi : (f.mulScalar c).interior = f.interior.map fun p => (p.1, p.2.1 * c, p.2.2) := by
    simp only [Disc.interior, Disc.mulScalar, List.map_dropLast, List.map_tail]
  simp only [Disc.sumInside, hi, List.filter_map, List.map_map]
  refine Prod.ext ?_ ?_
  · show qsum _ = qsum _ * c
    rw [← qsum_map_mul, List.map_map]
    rfl
  · rfl

example : exDF.WF ∧ exDG.WF ∧ (exDF.e.headD (0,0,0)).1 = (exDG.e.headD (0,0,0)).1 ∧
    (lastD exDF.e (0,0,0)).1 = (lastD exDG.e (0,0,0)).1 ∧
    (exDF.e.headD (0,0,0)).1 ≤ (1 : Q) ∧ (3 : Q) ≤ (lastD exDF.e (0,0,0)).1 := by
  refine ⟨?_, ?_, by decide +kernel, by decide +kernel, by decide +kernel, by decide +kernel⟩ <;>
    simp [Disc.WF, exDF, exDG, Disc.interior, lastD] <;> norm_num
/-- events exactly on the bounds `1` and `3` are excluded on both sides -/
example : (exDF.add exDG).sumInside 1 3 = (3, 1) ∧ exDF.sumInside 1 3 = (0, 0) ∧
    exDG.sumInside 1 3 = (3, 1) ∧ (exDF.add exDG).sumInside 0 4 = (10, 5) := by decide +kernel

/-! ## 2b. piecewise linear -/

/-- trapezoid integral of `F` over `[l, r] ∩ [a, b]` (exact for affine `F`) -/
def C3_seg (F : Q → Q) (a b l r : Q) : Q :=
  if max a l < min b r then (min b r - max a l) * ((F (max a l) + F (min b r)) / 2) else 0

theorem Piece.C3_clipInt_eq (p : Piece) (a b : Q) : p.clipInt a b = C3_seg p.at a b p.xl p.xr := rfl

theorem C3_seg_self (F : Q → Q) (a b m : Q) : C3_seg F a b m m = 0 := by
  unfold C3_seg
  rw [if_neg]
  have := min_le_right b m
  have := le_max_right a m
  linarith

theorem C3_seg_split_lt (A B a b : Q) {l m r : Q} (hlm : l < m) (hmr : m < r) :
    C3_seg (fun t => A + B * t) a b l r =
      C3_seg (fun t => A + B * t) a b l m + C3_seg (fun t => A + B * t) a b m r := by
  simp only [C3_seg, max_def, min_def]
  split_ifs <;> first
    | (exfalso; linarith)
    | ring1
    | (have ham : a = m := by linarith
       subst ham; ring1)

theorem C3_seg_split (q : Piece) (a b : Q) {l m r : Q} (hlm : l ≤ m) (hmr : m ≤ r) :
    C3_seg q.at a b l r = C3_seg q.at a b l m + C3_seg q.at a b m r := by
  rcases eq_or_lt_of_le hlm with rfl | hlm
  · rw [C3_seg_self]; ring
  rcases eq_or_lt_of_le hmr with rfl | hmr
  · rw [C3_seg_self]; ring
  have e : q.at = fun t => (q.yl - (q.yr - q.yl) / (q.xr - q.xl) * q.xl) +
      (q.yr - q.yl) / (q.xr - q.xl) * t := funext (Piece.at_affine q)
  rw [e]
  exact C3_seg_split_lt _ _ a b hlm hmr

theorem C3_seg_add (F G H : Q → Q) (h : ∀ t, F t = G t + H t) (a b l r : Q) :
    C3_seg F a b l r = C3_seg G a b l r + C3_seg H a b l r := by
  unfold C3_seg
  split_ifs
  · rw [h, h]; ring
  · ring

theorem C3_clipInt_sum {P q1 q2 : Piece} (hs : PieceSum P q1 q2) (hP : P.xl < P.xr) (a b : Q) :
    P.clipInt a b = C3_seg q1.at a b P.xl P.xr + C3_seg q2.at a b P.xl P.xr := by
  rw [Piece.C3_clipInt_eq]
  exact C3_seg_add _ _ _ (hs.at_eq hP) a b _ _

/-- clipped integral of the remainder `[x0, c.xr]` of the current piece plus the later pieces -/
def C3_restInt (a b : Q) (c : Piece) (r : List Piece) (x0 : Q) : Q :=
  C3_seg c.at a b x0 c.xr + qsum (r.map fun p => p.clipInt a b)

theorem C3_addPwlLoop_clip (a b xe : Q) : ∀ (c1 : Piece) (r1 : List Piece) (c2 : Piece)
    (r2 : List Piece) (x0 : Q), AddInv xe c1 r1 c2 r2 → c1.xl ≤ x0 → x0 < c1.xr → c2.xl ≤ x0 →
    x0 < c2.xr →
    qsum ((mkPieces x0 (c1.at x0 + c2.at x0) (addPwlLoop c1 r1 c2 r2) xe
        (pEndY c1.yr r1 + pEndY c2.yr r2)).map fun p => p.clipInt a b)
      = C3_restInt a b c1 r1 x0 + C3_restInt a b c2 r2 x0 := by
  intro c1 r1 c2 r2
  induction c1, r1, c2, r2 using addPwlLoop.induct with
  | case1 c1 c2 =>
    intro x0 hI h1 h1' h2 h2'
    have e1 := hI.e1
    have e2 := hI.e2
    simp only [pEndX] at e1 e2
    rw [addPwlLoop]
    simp only [mkPieces, pEndY, List.map_cons, List.map_nil, qsum, C3_restInt]
    have hs : PieceSum ⟨x0, xe, c1.at x0 + c2.at x0, c1.yr + c2.yr⟩ c1 c2 := by
      refine ⟨h1, le_of_eq e1.symm, h2, le_of_eq e2.symm, rfl, ?_⟩
      show c1.yr + c2.yr = c1.at xe + c2.at xe
      conv_rhs => rw [← e1, Piece.at_xr c1 hI.lt1, e1, ← e2, Piece.at_xr c2 hI.lt2]
    rw [C3_clipInt_sum hs (by show x0 < xe; linarith) a b, e1, e2]
    ring
  | case2 c1 c2 p r1' ih =>
    intro x0 hI h1 h1' h2 h2'
    rw [addPwlLoop]
    have hlt := hI.lt_nil2
    have ih' := ih c1.xr hI.adv1 (le_of_eq hI.link1.symm) (by rw [hI.link1]; exact hI.adv1.lt1)
      (by linarith) hlt
    have e : p.yl + c2.at c1.xr = p.at c1.xr + c2.at c1.xr := by rw [hI.link1, Piece.at_xl]
    have hs : PieceSum ⟨x0, c1.xr, c1.at x0 + c2.at x0, c1.yr + c2.at c1.xr⟩ c1 c2 :=
      ⟨h1, le_refl _, h2, le_of_lt hlt, rfl, by simp only [Piece.at_xr c1 hI.lt1]⟩
    have hsp := C3_seg_split c2 a b (le_of_lt h1') (le_of_lt hlt)
    simp only [mkPieces, List.map_cons, qsum, pEndY] at ih' ⊢
    rw [e, ih', C3_clipInt_sum hs h1' a b]
    simp only [C3_restInt, List.map_cons, qsum, Piece.C3_clipInt_eq p, ← hI.link1]
    show C3_seg c1.at a b x0 c1.xr + C3_seg c2.at a b x0 c1.xr + _ = _
    rw [hsp]; ring
  | case3 c1 c2 q r2' ih =>
    intro x0 hI h1 h1' h2 h2'
    rw [addPwlLoop]
    have hlt := hI.lt_nil1
    have ih' := ih c2.xr hI.adv2 (by linarith) hlt (le_of_eq hI.link2.symm)
        (by rw [hI.link2]; exact hI.adv2.lt2)
    have e : q.yl + c1.at c2.xr = c1.at c2.xr + q.at c2.xr := by
      rw [hI.link2, Piece.at_xl, add_comm]
    have hs : PieceSum ⟨x0, c2.xr, c1.at x0 + c2.at x0, c2.yr + c1.at c2.xr⟩ c1 c2 :=
      ⟨h1, le_of_lt hlt, h2, le_refl _, rfl, by
        simp only [Piece.at_xr c2 hI.lt2]; exact add_comm _ _⟩
    have hsp := C3_seg_split c1 a b (le_of_lt h2') (le_of_lt hlt)
    simp only [mkPieces, List.map_cons, qsum, pEndY] at ih' ⊢
    rw [e, ih', C3_clipInt_sum hs h2' a b]
    simp only [C3_restInt, List.map_cons, qsum, Piece.C3_clipInt_eq q, ← hI.link2]
    show C3_seg c1.at a b x0 c2.xr + C3_seg c2.at a b x0 c2.xr + _ = _
    rw [hsp]; ring
  | case4 c1 c2 p r1' q r2' hlt ih =>
    intro x0 hI h1 h1' h2 h2'
    rw [addPwlLoop, if_pos hlt]
    have ih' := ih c1.xr hI.adv1 (le_of_eq hI.link1.symm) (by rw [hI.link1]; exact hI.adv1.lt1)
      (by linarith) hlt
    have e : p.yl + c2.at c1.xr = p.at c1.xr + c2.at c1.xr := by rw [hI.link1, Piece.at_xl]
    have hs : PieceSum ⟨x0, c1.xr, c1.at x0 + c2.at x0, c1.yr + c2.at c1.xr⟩ c1 c2 :=
      ⟨h1, le_refl _, h2, le_of_lt hlt, rfl, by simp only [Piece.at_xr c1 hI.lt1]⟩
    have hsp := C3_seg_split c2 a b (le_of_lt h1') (le_of_lt hlt)
    simp only [mkPieces, List.map_cons, qsum, pEndY] at ih' ⊢
    rw [e, ih', C3_clipInt_sum hs h1' a b]
    simp only [C3_restInt, List.map_cons, qsum, Piece.C3_clipInt_eq p, ← hI.link1]
    show C3_seg c1.at a b x0 c1.xr + C3_seg c2.at a b x0 c1.xr + _ = _
    rw [hsp]; ring
  | case5 c1 c2 p r1' q r2' hn hlt ih =>
    intro x0 hI h1 h1' h2 h2'
    rw [addPwlLoop, if_neg hn, if_pos hlt]
    have ih' := ih c2.xr hI.adv2 (by linarith) hlt (le_of_eq hI.link2.symm)
        (by rw [hI.link2]; exact hI.adv2.lt2)
    have e : q.yl + c1.at c2.xr = c1.at c2.xr + q.at c2.xr := by
      rw [hI.link2, Piece.at_xl, add_comm]
    have hs : PieceSum ⟨x0, c2.xr, c1.at x0 + c2.at x0, c2.yr + c1.at c2.xr⟩ c1 c2 :=
      ⟨h1, le_of_lt hlt, h2, le_refl _, rfl, by
        simp only [Piece.at_xr c2 hI.lt2]; exact add_comm _ _⟩
    have hsp := C3_seg_split c1 a b (le_of_lt h2') (le_of_lt hlt)
    simp only [mkPieces, List.map_cons, qsum, pEndY] at ih' ⊢
    rw [e, ih', C3_clipInt_sum hs h2' a b]
    simp only [C3_restInt, List.map_cons, qsum, Piece.C3_clipInt_eq q, ← hI.link2]
    show C3_seg c1.at a b x0 c2.xr + C3_seg c2.at a b x0 c2.xr + _ = _
    rw [hsp]; ring
  | case6 c1 c2 p r1' q r2' hn1 hn2 ih =>
    intro x0 hI h1 h1' h2 h2'
    rw [addPwlLoop, if_neg hn1, if_neg hn2]
    have heq : c1.xr = c2.xr := le_antisymm (not_lt.mp hn2) (not_lt.mp hn1)
    have ih' := ih c1.xr hI.adv1.adv2 (le_of_eq hI.link1.symm)
      (by rw [hI.link1]; exact hI.adv1.lt1) (by rw [heq]; exact le_of_eq hI.link2.symm)
      (by rw [heq, hI.link2]; exact hI.adv2.lt2)
    have e : p.yl + q.yl = p.at c1.xr + q.at c1.xr := by
      conv_rhs => rw [heq, hI.link2, Piece.at_xl, ← hI.link2, ← heq, hI.link1, Piece.at_xl]
    have hs : PieceSum ⟨x0, c1.xr, c1.at x0 + c2.at x0, c1.yr + c2.yr⟩ c1 c2 := by
      refine ⟨h1, le_refl _, h2, le_of_eq heq, rfl, ?_⟩
      show c1.yr + c2.yr = c1.at c1.xr + c2.at c1.xr
      rw [Piece.at_xr c1 hI.lt1, heq, Piece.at_xr c2 hI.lt2]
    simp only [mkPieces, List.map_cons, qsum, pEndY] at ih' ⊢
    rw [e, ih', C3_clipInt_sum hs h1' a b]
    simp only [C3_restInt, List.map_cons, qsum, Piece.C3_clipInt_eq p, Piece.C3_clipInt_eq q,
      ← hI.link1, ← hI.link2, ← heq]
    show C3_seg c1.at a b x0 c1.xr + C3_seg c2.at a b x0 c1.xr + _ = _
    ring

/-- the clipped Riemann sum distributes over `add` — for ANY bounds `a`, `b` -/
theorem Pwl.C3_riemann_add_any {f g : Pwl} (hf : f.WF) (hg : g.WF) (h0 : f.first = g.first)
    (h1 : f.last = g.last) (a b : Q) :
    (f.add g).riemann a b = f.riemann a b + g.riemann a b := by
  obtain ⟨c1, r1, p1, ch1, x1, e1, y1, -⟩ := hf.pieces
  obtain ⟨c2, r2, p2, ch2, x2, e2, y2, -⟩ := hg.pieces
  obtain ⟨c1', r1', c2', r2', out, p1', p2', -, -, hI, -, hx2, hout, -, -, -, hp⟩ :=
    Pwl.add_good hf hg h0 h1
  rw [p1] at p1'
  rw [p2] at p2'
  obtain ⟨rfl, rfl⟩ := List.cons.inj p1'
  obtain ⟨rfl, rfl⟩ := List.cons.inj p2'
  have ha := C3_addPwlLoop_clip a b f.last c1 r1 c2 r2 f.first hI (le_of_eq x1)
    (by rw [← x1]; exact ch1.head_lt) (le_of_eq hx2) (by rw [← hx2]; exact ch2.head_lt)
  have ey : c1.at f.first + c2.at f.first = c1.yl + c2.yl := by
    conv_lhs => rw [← x1, Piece.at_xl, x1, ← hx2, Piece.at_xl]
  rw [ey, y1, y2, ← hout] at ha
  unfold Pwl.riemann
  rw [hp, ha, p1, p2]
  simp only [C3_restInt, List.map_cons, qsum, Piece.C3_clipInt_eq c1, Piece.C3_clipInt_eq c2, x1,
    hx2]

/-- **sub-interval integrals distribute over `add`** (statement of the work package; the bounds
    hypotheses are not needed, see `Pwl.C3_riemann_add_any`) -/
theorem Pwl.riemann_add {f g : Pwl} {a b : Q} (hf : f.WF) (hg : g.WF) (h0 : f.first = g.first)
    (h1 : f.last = g.last) (_ha : f.first ≤ a) (_hab : a ≤ b) (_hb : b ≤ f.last) :
    (f.add g).riemann a b = f.riemann a b + g.riemann a b :=
  Pwl.C3_riemann_add_any hf hg h0 h1 a b

theorem Piece.C3_scale_clipInt (c : Q) (p : Piece) (a b : Q) :
    (p.scale c).clipInt a b = p.clipInt a b * c := by
  rw [Piece.C3_clipInt_eq, Piece.C3_clipInt_eq]
  show C3_seg (p.scale c).at a b p.xl p.xr = _
  unfold C3_seg
  split_ifs
  · rw [Piece.scale_at, Piece.scale_at]; ring
  · ring

theorem Pwl.riemann_mulScalar (f : Pwl) (c a b : Q) :
    (f.mulScalar c).riemann a b = f.riemann a b * c := by
  unfold Pwl.riemann
  rw [Pwl.mulScalar_pieces, ← qsum_map_mul, List.map_map, List.map_map]
  congr 1
  apply List.map_congr_left
  intro p _
  exact Piece.C3_scale_clipInt c p a b

example : exPwlF.WF ∧ exPwlG.WF ∧ exPwlF.first = exPwlG.first ∧ exPwlF.last = exPwlG.last ∧
    exPwlF.first ≤ (1/2 : Q) ∧ (1/2 : Q) ≤ 5/2 ∧ (5/2 : Q) ≤ exPwlF.last :=
  ⟨exPwlF_wf, exPwlG_wf, exPwlFG_first, exPwlFG_last, by decide +kernel, by decide +kernel,
    by decide +kernel⟩
example : (exPwlF.add exPwlG).riemann (1/2) (5/2) = 75/16 ∧ exPwlF.riemann (1/2) (5/2) = 11/4 ∧
    exPwlG.riemann (1/2) (5/2) = 31/16 := by decide +kernel

/-! ## 3b. SPIKE: multivariate distance over a sub-interval = average of the multivariate profile -/

open PySpike.C01 in
/-- the SPIKE profile of two valid trains with the same edges is a well-formed piecewise linear
    function on `[ts, te]` (it has the breakpoints of the ISI profile) -/
theorem C3_spikeProfileBi_on (kw : Kw) (a b : Train) (hr : kw.recon = false)
    (ha : ValidTrain a) (hb : ValidTrain b) (hts : b.ts = a.ts) (hte : b.te = a.te) :
    B5_PwlOn a.ts a.te (spikeProfileBi kw a b) := by
  have hisi := B5_isiProfileBi_on { mrts := 0, recon := false } a b rfl ha hb hts hte
  have hx : (spikeProfileBi kw a b).x = (isiProfileBi { mrts := 0, recon := false } a b).x := by
    simp only [spikeProfileBi, isiProfileBi, prepBi, hr]
    exact spikeProfile_breaks _ _ _ _ _ _
  have hl := spikeProfile_lengths a.nonEmpty b.nonEmpty a.ts a.te kw.mrts kw.ri
  have hy : (spikeProfileBi kw a b).y1.length + 1 = (spikeProfileBi kw a b).x.length ∧
      (spikeProfileBi kw a b).y2.length = (spikeProfileBi kw a b).y1.length := by
    simp only [spikeProfileBi, prepBi, hr]
    exact hl
  obtain ⟨⟨-, hs, h2⟩, hf, hlast⟩ := hisi
  refine ⟨⟨hy.1, by rw [hy.2]; exact hy.1, by rw [hx]; exact hs, by rw [hx]; exact h2⟩, ?_, ?_⟩
  · show (spikeProfileBi kw a b).x.headD 0 = a.ts
    rw [hx]; exact hf
  · show lastD (spikeProfileBi kw a b).x 0 = a.te
    rw [hx]; exact hlast

theorem C3_spike_leaf_on (kw : Kw) (L : List Train) (ts te : Q) (hr : kw.recon = false)
    (hv : B5_ValidList ts te L) :
    ∀ p ∈ pairsOf (List.range L.length),
      B5_PwlOn ts te (spikeProfileBi kw (tr L p.1) (tr L p.2)) := by
  intro p hp
  obtain ⟨h1, h2⟩ := B5_pair_mem L p hp
  obtain ⟨v1, s1, e1⟩ := hv _ h1
  obtain ⟨v2, s2, e2⟩ := hv _ h2
  have := C3_spikeProfileBi_on kw _ _ hr v1 v2 (s2.trans s1.symm) (e2.trans e1.symm)
  rwa [s1, e1] at this

/-- the multivariate SPIKE profile of valid trains on `[ts, te]` is well-formed on `[ts, te]` -/
theorem C3_spikeProfileMulti_on (kw : Kw) (L : List Train) (ts te : Q)
    (hr : kw.recon = false) (hv : B5_ValidList ts te L) (h2 : 2 ≤ L.length) :
    B5_PwlOn ts te (spikeProfileMulti kw none L) := by
  have hleaf := C3_spike_leaf_on kw L ts te hr hv
  unfold spikeProfileMulti
  simp only [prep_of_recon_false kw L hr, resolveIdx, Kw.noRecon_eq kw hr]
  obtain ⟨s, -⟩ := B5_gpm_sum Pwl.add (fun p => spikeProfileBi kw (tr L p.1) (tr L p.2))
    (B5_PwlOn ts te) (fun _ => 0) (fun _ _ => B5_PwlOn.add)
    (fun _ _ _ _ => by simp) (List.range L.length) (B5_pairs_range_ne_nil h2) hleaf
  exact ⟨Pwl.mulScalar_wf s.1 _, s.2.1, s.2.2⟩

theorem C3_spikeDistanceMulti_eq_avrg_profile_interval_noRecon (kw : Kw) (L : List Train)
    (ts te a b : Q) (hr : kw.recon = false) (hi : kw.interval = some (a, b))
    (hv : B5_ValidList ts te L) (h2 : 2 ≤ L.length) (ha : ts ≤ a) (hab : a < b) (hb : b ≤ te) :
    spikeDistanceMulti kw none L = (spikeProfileMulti kw none L).avrg a b := by
  have hleaf := C3_spike_leaf_on kw L ts te hr hv
  have hon := C3_spikeProfileMulti_on kw L ts te hr hv h2
  rw [Pwl.avrg_eq hon.1 (by rw [hon.2.1]; exact ha) hab (by rw [hon.2.2]; exact hb)]
  unfold spikeDistanceMulti spikeProfileMulti genericDistanceMulti
  simp only [prep_of_recon_false kw L hr, resolveIdx, Kw.noRecon_eq kw hr]
  rw [Pwl.riemann_mulScalar, genericProfileMulti_snd]
  obtain ⟨-, i⟩ := B5_gpm_sum Pwl.add (fun p => spikeProfileBi kw (tr L p.1) (tr L p.2))
    (B5_PwlOn ts te) (fun f => f.riemann a b) (fun _ _ => B5_PwlOn.add)
    (fun _ _ hf hg => Pwl.C3_riemann_add_any hf.1 hg.1 (hf.2.1.trans hg.2.1.symm)
      (hf.2.2.trans hg.2.2.symm) a b) (List.range L.length)
    (B5_pairs_range_ne_nil h2) hleaf
  rw [i]
  have hd : (pairsOf (List.range L.length)).map
        (fun p => spikeDistanceBi kw (tr L p.1) (tr L p.2)) =
      (pairsOf (List.range L.length)).map (fun p => some
        ((spikeProfileBi kw (tr L p.1) (tr L p.2)).riemann a b * (b - a)⁻¹)) := by
    apply List.map_congr_left
    intro p hp
    show pwlAvrgKw _ kw.interval = _
    rw [hi]
    show Pwl.avrg _ a b = some _
    have hp' := hleaf p hp
    rw [Pwl.avrg_eq hp'.1 (by rw [hp'.2.1]; exact ha) hab (by rw [hp'.2.2]; exact hb),
      div_eq_mul_inv]
  rw [hd, B5_sumOpt_some (fun p : Nat × Nat =>
    (spikeProfileBi kw (tr L p.1) (tr L p.2)).riemann a b * (b - a)⁻¹), Option.map_some]
  have hq : qsum ((pairsOf (List.range L.length)).map fun p =>
        (spikeProfileBi kw (tr L p.1) (tr L p.2)).riemann a b * (b - a)⁻¹) =
      qsum ((pairsOf (List.range L.length)).map fun p =>
        (spikeProfileBi kw (tr L p.1) (tr L p.2)).riemann a b) * (b - a)⁻¹ := by
    rw [← qsum_map_mul, List.map_map]
    rfl
  rw [hq]
  congr 1
  rw [div_eq_mul_inv, div_eq_mul_inv, div_eq_mul_inv]
  ring

/-- **multivariate SPIKE distance over `[a, b]` = `avrg (a, b)` of the multivariate SPIKE profile**,
    for every `kw`, valid trains on a common interval `[ts, te]`, `ts ≤ a < b ≤ te` -/
theorem C3_spikeDistanceMulti_eq_avrg_profile_interval (kw : Kw) (L : List Train) (ts te a b : Q)
    (hi : kw.interval = some (a, b)) (hv : B5_ValidList ts te L) (h2 : 2 ≤ L.length)
    (ha : ts ≤ a) (hab : a < b) (hb : b ≤ te) :
    spikeDistanceMulti kw none L = (spikeProfileMulti kw none L).avrg a b ∧
    (spikeProfileMulti kw none L).avrg a b =
      some ((spikeProfileMulti kw none L).riemann a b / (b - a)) := by
  have h := C3_spikeDistanceMulti_eq_avrg_profile_interval_noRecon kw.noRecon L ts te a b rfl hi hv
    h2 ha hab hb
  have e : spikeProfileMulti kw none L = spikeProfileMulti kw.noRecon none L := by
    unfold spikeProfileMulti
    rw [B5_prep_valid kw ts te L hv (B5_ne_nil_of_two h2)]
    rfl
  have e' : spikeDistanceMulti kw none L = spikeDistanceMulti kw.noRecon none L := by
    unfold spikeDistanceMulti
    rw [B5_prep_valid kw ts te L hv (B5_ne_nil_of_two h2)]
    rfl
  have hon := C3_spikeProfileMulti_on kw.noRecon L ts te rfl hv h2
  refine ⟨by rw [e, e', h], ?_⟩
  rw [e]
  exact Pwl.avrg_eq hon.1 (by rw [hon.2.1]; exact ha) hab (by rw [hon.2.2]; exact hb)

example : ({ interval := some (1/2, 9/2), ri := true } : Kw).interval = some (1/2, 9/2) ∧
    B5_ValidList 0 6 B5_exV ∧ 2 ≤ B5_exV.length ∧ (0 : Q) ≤ 1/2 ∧ (1/2 : Q) < 9/2 ∧ (9/2 : Q) ≤ 6 :=
  ⟨rfl, B5_exV_valid, by decide, by norm_num, by norm_num, by norm_num⟩

example : spikeDistanceMulti { recon := false, interval := some (1/2, 9/2) } none B5_exV
      = some (6592389 / 18972800) ∧
    (spikeProfileMulti { recon := false, interval := some (1/2, 9/2) } none B5_exV).avrg (1/2) (9/2)
      = some (6592389 / 18972800) := by decide +kernel

/-! ## 3c. SPIKE-Sync: multivariate value over a sub-interval = ratio of the sums of the
    multivariate profile strictly inside -/

/-- well-formed discrete profile whose edge entries sit at `ts` and `te` -/
def C3_DiscOn (ts te : Q) (f : Disc) : Prop :=
  f.WF ∧ (f.e.headD (0,0,0)).1 = ts ∧ (lastD f.e (0,0,0)).1 = te

theorem C3_DiscOn.add {ts te : Q} {f g : Disc} (hf : C3_DiscOn ts te f) (hg : C3_DiscOn ts te g) :
    C3_DiscOn ts te (f.add g) := by
  have h0 := hf.2.1.trans hg.2.1.symm
  have h1 := hf.2.2.trans hg.2.2.symm
  obtain ⟨e0, e1⟩ := Disc.add_edges (f := f) (g := g) h1
  exact ⟨Disc.add_wf hf.1 hg.1 h0 h1, e0.trans hf.2.1, e1.trans hf.2.2⟩

theorem C3_DiscOn.integral {ts te : Q} {f : Disc} (hf : C3_DiscOn ts te f) {a b : Q}
    (ha : ts ≤ a) (hb : b ≤ te) : f.integral a b = some (f.sumInside a b) :=
  Disc.integral_eq_sumInside' f hf.1 a b (by rw [hf.2.1]; exact ha) (by rw [hf.2.2]; exact hb)

/-- framing strictly increasing entries inside `[ts, te]` gives a well-formed profile on `[ts, te]` -/
theorem C3_frameProfile_on (ts te : Q) (es : List (Q × Q × Q))
    (hs : (es.map (·.1)).Pairwise (· < ·)) (hb : ∀ e ∈ es, ts ≤ e.1 ∧ e.1 ≤ te) :
    C3_DiscOn ts te ⟨frameProfile ts te es⟩ := by
  cases es with
  | nil =>
    refine ⟨⟨by simp [frameProfile], by simp [frameProfile, Disc.interior],
      by simp [frameProfile, Disc.interior]⟩, rfl, rfl⟩
  | cons f r =>
    have hi : (Disc.mk (frameProfile ts te (f :: r))).interior = f :: r := by
      simp only [frameProfile, Disc.interior, List.cons_append, List.tail_cons]
      rw [← List.cons_append, List.dropLast_concat]
    have hh : ((Disc.mk (frameProfile ts te (f :: r))).e.headD (0,0,0)).1 = ts := rfl
    have hl : (lastD (Disc.mk (frameProfile ts te (f :: r))).e (0,0,0)).1 = te := by
      show (lastD ((ts, f.2.1, f.2.2) :: (f :: r ++ [(te, _, _)])) (0,0,0)).1 = te
      rw [lastD_cons_append_singleton]
    refine ⟨⟨by simp [frameProfile], by rw [hi]; exact hs, ?_⟩, hh, hl⟩
    rw [hi, hh, hl]
    exact hb

open PySpike.C01 in
/-- the SPIKE-Sync profile of two valid trains with the same edges is a well-formed discrete
    profile on `[ts, te]`: one entry per distinct spike time, framed by the two edge entries -/
theorem C3_syncProfileBi_on (kw : Kw) (a b : Train) (hr : kw.recon = false)
    (ha : ValidTrain a) (hb : ValidTrain b) (hts : b.ts = a.ts) (hte : b.te = a.te) :
    C3_DiscOn a.ts a.te (syncProfileBi kw a b) := by
  have e : syncProfileBi kw a b =
      ⟨frameProfile a.ts a.te (scanSpec 1 1 2 a.spikes b.spikes (trueMax a.ts a.te kw.maxTau)
        kw.mrts)⟩ := by
    simp only [syncProfileBi, prepBi, hr]
    exact congrArg Disc.mk (coincProfile_eq_spec _ _ _ _ _ _ ha.2.1 hb.2.1)
  rw [e]
  have ht : (scanSpec 1 1 2 a.spikes b.spikes (trueMax a.ts a.te kw.maxTau) kw.mrts).map (·.1) =
      uniqueQ (a.spikes ++ b.spikes) := by
    unfold scanSpec
    rw [List.map_map]
    conv_rhs => rw [← List.map_id (uniqueQ (a.spikes ++ b.spikes))]
    apply List.map_congr_left
    intro t _
    exact B1_entrySpec_fst _ _ _ _ _ _ _ _
  apply C3_frameProfile_on
  · rw [ht]; exact uniqueQ_sorted _
  · intro p hp
    have hm : p.1 ∈ uniqueQ (a.spikes ++ b.spikes) := by
      rw [← ht]; exact List.mem_map.mpr ⟨p, hp, rfl⟩
    rw [uniqueQ_mem, List.mem_append] at hm
    rcases hm with h | h
    · exact ha.2.2 _ h
    · have := hb.2.2 _ h
      rwa [hts, hte] at this

theorem C3_sync_leaf_on (kw : Kw) (L : List Train) (ts te : Q) (hr : kw.recon = false)
    (hv : B5_ValidList ts te L) :
    ∀ p ∈ pairsOf (List.range L.length),
      C3_DiscOn ts te (syncProfileBi kw (tr L p.1) (tr L p.2)) := by
  intro p hp
  obtain ⟨h1, h2⟩ := B5_pair_mem L p hp
  obtain ⟨v1, s1, e1⟩ := hv _ h1
  obtain ⟨v2, s2, e2⟩ := hv _ h2
  have := C3_syncProfileBi_on kw _ _ hr v1 v2 (s2.trans s1.symm) (e2.trans e1.symm)
  rwa [s1, e1] at this

/-- sums strictly inside `(a, b)` of a divide-and-conquer sum of discrete profiles: the sums of the
    pair sums, for ANY index list with at least one pair -/
theorem C3_disc_gpm_sumInside (leaf : Nat × Nat → Disc) (idx : List Nat)
    (hne : pairsOf idx ≠ []) (a b : Q) :
    (genericProfileMulti Disc.add leaf idx).1.sumInside a b =
      (qsum ((pairsOf idx).map fun p => ((leaf p).sumInside a b).1),
       qsum ((pairsOf idx).map fun p => ((leaf p).sumInside a b).2)) := by
  have h1 := (B5_gpm_sum Disc.add leaf (fun _ => True) (fun f => (f.sumInside a b).1)
    (fun _ _ _ _ => trivial) (fun f g _ _ => by rw [Disc.C3_sumInside_add_any]) idx hne
    (fun _ _ => trivial)).2
  have h2 := (B5_gpm_sum Disc.add leaf (fun _ => True) (fun f => (f.sumInside a b).2)
    (fun _ _ _ _ => trivial) (fun f g _ _ => by rw [Disc.C3_sumInside_add_any]) idx hne
    (fun _ _ => trivial)).2
  exact Prod.ext h1 h2

/-- the multivariate SPIKE-Sync profile of valid trains on `[ts, te]` is well-formed on `[ts, te]` -/
theorem C3_syncProfileMulti_on (kw : Kw) (L : List Train) (ts te : Q)
    (hr : kw.recon = false) (hv : B5_ValidList ts te L) (h2 : 2 ≤ L.length) :
    C3_DiscOn ts te (syncProfileMulti kw none L) := by
  have hleaf := C3_sync_leaf_on kw L ts te hr hv
  unfold syncProfileMulti
  simp only [prep_of_recon_false kw L hr, resolveIdx, Kw.noRecon_eq kw hr]
  exact (B5_gpm_sum Disc.add (fun p => syncProfileBi kw (tr L p.1) (tr L p.2))
    (C3_DiscOn ts te) (fun _ => 0) (fun _ _ => C3_DiscOn.add)
    (fun _ _ _ _ => by simp) (List.range L.length) (B5_pairs_range_ne_nil h2) hleaf).1

theorem C3_spikeSyncMulti_eq_ratio_profile_interval_noRecon (kw : Kw) (L : List Train)
    (ts te a b : Q) (hr : kw.recon = false) (hi : kw.interval = some (a, b))
    (hv : B5_ValidList ts te L) (h2 : 2 ≤ L.length) (ha : ts ≤ a) (hb : b ≤ te) :
    spikeSyncMulti kw none L = some (syncRatio ((syncProfileMulti kw none L).sumInside a b)) := by
  have hleaf := C3_sync_leaf_on kw L ts te hr hv
  unfold spikeSyncMulti syncProfileMulti
  simp only [prep_of_recon_false kw L hr, resolveIdx, Kw.noRecon_eq kw hr]
  rw [C3_disc_gpm_sumInside _ _ (B5_pairs_range_ne_nil h2)]
  have hd : (pairsOf (List.range L.length)).map
        (fun p => syncValues kw (tr L p.1) (tr L p.2)) =
      (pairsOf (List.range L.length)).map (fun p => some
        ((syncProfileBi kw (tr L p.1) (tr L p.2)).sumInside a b)) := by
    apply List.map_congr_left
    intro p hp
    show discIntegralKw _ kw.interval = _
    rw [hi]
    exact (hleaf p hp).integral ha hb
  rw [hd, B5_sumOpt2_some (fun p : Nat × Nat =>
    (syncProfileBi kw (tr L p.1) (tr L p.2)).sumInside a b)]
  rfl

/-- **SPIKE-Sync over a sub-interval, multivariate**: for every `kw` (with or without
    reconciliation) and valid trains on a common interval `[ts, te]`, `ts ≤ a`, `b ≤ te`, the pooled
    coincidence count over the pooled multiplicity of the events strictly inside `(a, b)` is the
    ratio of the sums of the multivariate SPIKE-Sync profile strictly inside `(a, b)`, which is
    what `integral((a, b))` of that profile returns. -/
theorem spikeSyncMulti_eq_ratio_profile_interval (kw : Kw) (L : List Train) (ts te a b : Q)
    (hi : kw.interval = some (a, b)) (hv : B5_ValidList ts te L) (h2 : 2 ≤ L.length)
    (ha : ts ≤ a) (hb : b ≤ te) :
    spikeSyncMulti kw none L = ((syncProfileMulti kw none L).integral a b).map syncRatio ∧
    (syncProfileMulti kw none L).integral a b =
      some ((syncProfileMulti kw none L).sumInside a b) := by
  have h := C3_spikeSyncMulti_eq_ratio_profile_interval_noRecon kw.noRecon L ts te a b rfl hi hv h2
    ha hb
  have e : syncProfileMulti kw none L = syncProfileMulti kw.noRecon none L := by
    unfold syncProfileMulti
    rw [B5_prep_valid kw ts te L hv (B5_ne_nil_of_two h2)]
    rfl
  have e' : spikeSyncMulti kw none L = spikeSyncMulti kw.noRecon none L := by
    unfold spikeSyncMulti
    rw [B5_prep_valid kw ts te L hv (B5_ne_nil_of_two h2)]
    rfl
  have hon := C3_syncProfileMulti_on kw.noRecon L ts te rfl hv h2
  have hint := hon.integral ha hb
  rw [e, e', hint, h]
  exact ⟨rfl, rfl⟩

example : ({ interval := some (0, 9/2) } : Kw).interval = some (0, 9/2) ∧
    B5_ValidList 0 6 B5_exV ∧ 2 ≤ B5_exV.length ∧ (0 : Q) ≤ 0 ∧ (9/2 : Q) ≤ 6 :=
  ⟨rfl, B5_exV_valid, by decide, by norm_num, by norm_num⟩

/-- `B5_exV` has a spike exactly on the edge `ts = 0 = a`: its event is not counted on either side -/
example : spikeSyncMulti { recon := false, interval := some (0, 9/2) } none B5_exV = some (2 / 15) ∧
    (syncProfileMulti { recon := false, interval := some (0, 9/2) } none B5_exV).integral 0 (9/2)
      = some (2, 15) ∧
    (syncProfileMulti { recon := false, interval := some (0, 9/2) } none B5_exV).sumInside 0 (9/2)
      = (2, 15) := by decide +kernel

/-! ## 4. model-level corollaries: the executable `integral` / `avrg` over a sub-interval
    distribute over `add` and scale under `mulScalar` -/

theorem Pwc.C3_integral_add {f g : Pwc} {a b : Q} (hf : f.WF) (hg : g.WF)
    (h0 : f.first = g.first) (h1 : f.last = g.last) (ha : f.first ≤ a) (hab : a < b)
    (hb : b ≤ f.last) :
    ∃ u v, f.integral a b = some u ∧ g.integral a b = some v ∧
      (f.add g).integral a b = some (u + v) := by
  refine ⟨_, _, Pwc.integral_eq_riemann hf ha hab hb,
    Pwc.integral_eq_riemann hg (h0 ▸ ha) hab (h1 ▸ hb), ?_⟩
  rw [Pwc.integral_eq_riemann (Pwc.add_wf hf hg h0 h1) (by rw [Pwc.add_first]; exact ha) hab
    (by rw [Pwc.add_last]; exact hb), Pwc.C3_riemann_add_any hf hg h0 h1]

theorem Pwc.C3_avrg_add {f g : Pwc} {a b : Q} (hf : f.WF) (hg : g.WF)
    (h0 : f.first = g.first) (h1 : f.last = g.last) (ha : f.first ≤ a) (hab : a < b)
    (hb : b ≤ f.last) :
    ∃ u v, f.avrg a b = some u ∧ g.avrg a b = some v ∧ (f.add g).avrg a b = some (u + v) := by
  obtain ⟨u, v, hu, hv, huv⟩ := Pwc.C3_integral_add hf hg h0 h1 ha hab hb
  refine ⟨u / (b - a), v / (b - a), by simp [Pwc.avrg, hu], by simp [Pwc.avrg, hv], ?_⟩
  simp only [Pwc.avrg, huv, Option.map_some, add_div]

theorem Pwc.C3_avrg_mulScalar {f : Pwc} {a b : Q} (hf : f.WF) (c : Q) (ha : f.first ≤ a)
    (hab : a < b) (hb : b ≤ f.last) :
    (f.mulScalar c).avrg a b = (f.avrg a b).map (· * c) := by
  rw [Pwc.avrg_eq hf ha hab hb, Pwc.avrg_eq (Pwc.mulScalar_wf hf c) ha hab hb,
    Pwc.riemann_mulScalar, Option.map_some]
  congr 1; ring

theorem Pwl.C3_integral_add {f g : Pwl} {a b : Q} (hf : f.WF) (hg : g.WF)
    (h0 : f.first = g.first) (h1 : f.last = g.last) (ha : f.first ≤ a) (hab : a < b)
    (hb : b ≤ f.last) :
    ∃ u v, f.integral a b = some u ∧ g.integral a b = some v ∧
      (f.add g).integral a b = some (u + v) := by
  refine ⟨_, _, Pwl.integral_eq_riemann hf ha hab hb,
    Pwl.integral_eq_riemann hg (h0 ▸ ha) hab (h1 ▸ hb), ?_⟩
  rw [Pwl.integral_eq_riemann (Pwl.add_wf hf hg h0 h1)
    (by rw [Pwl.add_first hf hg h0 h1]; exact ha) hab
    (by rw [Pwl.add_last hf hg h0 h1]; exact hb), Pwl.C3_riemann_add_any hf hg h0 h1]

theorem Pwl.C3_avrg_add {f g : Pwl} {a b : Q} (hf : f.WF) (hg : g.WF)
    (h0 : f.first = g.first) (h1 : f.last = g.last) (ha : f.first ≤ a) (hab : a < b)
    (hb : b ≤ f.last) :
    ∃ u v, f.avrg a b = some u ∧ g.avrg a b = some v ∧ (f.add g).avrg a b = some (u + v) := by
  obtain ⟨u, v, hu, hv, huv⟩ := Pwl.C3_integral_add hf hg h0 h1 ha hab hb
  refine ⟨u / (b - a), v / (b - a), by simp [Pwl.avrg, hu], by simp [Pwl.avrg, hv], ?_⟩
  simp only [Pwl.avrg, huv, Option.map_some, add_div]

theorem Pwl.C3_avrg_mulScalar {f : Pwl} {a b : Q} (hf : f.WF) (c : Q) (ha : f.first ≤ a)
    (hab : a < b) (hb : b ≤ f.last) :
    (f.mulScalar c).avrg a b = (f.avrg a b).map (· * c) := by
  rw [Pwl.avrg_eq hf ha hab hb, Pwl.avrg_eq (Pwl.mulScalar_wf hf c) ha hab hb,
    Pwl.riemann_mulScalar, Option.map_some]
  congr 1; ring

/-- `integral((a, b))` of a sum of discrete profiles on a common interval: component-wise sum -/
theorem Disc.C3_integral_add {ts te : Q} {f g : Disc} (hf : C3_DiscOn ts te f)
    (hg : C3_DiscOn ts te g) {a b : Q} (ha : ts ≤ a) (hb : b ≤ te) :
    ∃ u v, f.integral a b = some u ∧ g.integral a b = some v ∧
      (f.add g).integral a b = some (u.1 + v.1, u.2 + v.2) :=
  ⟨_, _, hf.integral ha hb, hg.integral ha hb, by
    rw [(hf.add hg).integral ha hb, Disc.C3_sumInside_add_any]⟩

example : C3_DiscOn 0 4 exDF ∧ C3_DiscOn 0 4 exDG := by
  refine ⟨⟨?_, by decide +kernel, by decide +kernel⟩, ⟨?_, by decide +kernel, by decide +kernel⟩⟩ <;>
    simp [Disc.WF, exDF, exDG, Disc.interior, lastD] <;> norm_num
example : exDF.integral 1 4 = some (4, 2) ∧ exDG.integral 1 4 = some (4, 2) ∧
    (exDF.add exDG).integral 1 4 = some (8, 4) := by decide +kernel

end PySpike
