/-
  Proofs/AddPwc.lean — adding piecewise constant profiles (`add_piece_wise_const_python`) is pointwise
  addition: breakpoints are the strictly increasing union, one-sided limits and integrals add, the
  operation is commutative and associative on representations (properties C09 / C11, Pwc part).
-/
import PySpikeVerif.Spec.Funcs
import PySpikeVerif.Proofs.FuncLaws
import Mathlib.Data.List.Basic
import Mathlib.Data.List.Sort
import Mathlib.Tactic.Linarith
import Mathlib.Tactic.Ring
import Mathlib.Algebra.Order.Field.Rat

namespace PySpike

/-! ## canonical shape of a representation -/

/-- representation built from first breakpoint, first value, interior (breakpoint, value to its right)
    and last breakpoint -/
def mkPwc (x0 c : Q) (r : List (Q × Q)) (xn : Q) : Pwc :=
  ⟨x0 :: r.map (·.1) ++ [xn], c :: r.map (·.2)⟩

/-- right-continuous step function: `c` before the first breakpoint of `r`, then the value attached
    to the last breakpoint `≤ t` -/
def stepR (c : Q) : List (Q × Q) → Q → Q
  | [], _ => c
  | (a, v) :: r, t => if t < a then c else stepR v r t

/-- left-continuous step function -/
def stepL (c : Q) : List (Q × Q) → Q → Q
  | [], _ => c
  | (a, v) :: r, t => if t ≤ a then c else stepL v r t

/-- integral of the step function over `[x0, xn]` -/
def stepInt (x0 c : Q) : List (Q × Q) → Q → Q
  | [], xn => (xn - x0) * c
  | (a, v) :: r, xn => (a - x0) * c + stepInt a v r xn

theorem lastD_cons_cons {α} (a b : α) (r : List α) (d : α) : lastD (a :: b :: r) d = lastD (b :: r) d := rfl

theorem lastD_append_singleton {α} (l : List α) (a d : α) : lastD (l ++ [a]) d = a := by
  induction l with
  | nil => rfl
  | cons b r ih =>
    cases r with
    | nil => rfl
    | cons c r' => simpa [lastD] using ih

theorem lastD_cons_append_singleton {α} (b : α) (l : List α) (a d : α) :
    lastD (b :: (l ++ [a])) d = a := by
  have := lastD_append_singleton (b :: l) a d
  simpa using this

theorem lastD_mem {α} (b : α) (l : List α) (d : α) : lastD (b :: l) d ∈ b :: l := by
  induction l generalizing b with
  | nil => simp [lastD]
  | cons c r ih => simp only [lastD]; exact List.mem_cons_of_mem _ (ih c)

/-- decomposition of a list of length ≥ 1 as `dropLast ++ [lastD]` -/
theorem dropLast_append_lastD {α} (b : α) (l : List α) (d : α) :
    (b :: l).dropLast ++ [lastD (b :: l) d] = b :: l := by
  induction l generalizing b with
  | nil => simp [lastD]
  | cons c r ih =>
    simp only [lastD, List.dropLast_cons_cons, List.cons_append]
    rw [ih c]

theorem zip_shape (d : Q) : ∀ (xs ys : List Q), ys.length + 1 = xs.length →
    (xs.zip ys).map (·.1) ++ [lastD xs d] = xs ∧ (xs.zip ys).map (·.2) = ys := by
  intro xs
  induction xs with
  | nil => intro ys h; simp at h
  | cons a r ih =>
    intro ys h
    cases r with
    | nil =>
      have : ys = [] := by
        cases ys with
        | nil => rfl
        | cons _ _ => simp at h
      subst this; simp [lastD]
    | cons b r' =>
      cases ys with
      | nil => simp at h
      | cons y ys' =>
        have := ih ys' (by simp at h ⊢; omega)
        simp only [List.zip_cons_cons, List.map_cons, List.cons_append, lastD_cons_cons]
        exact ⟨by rw [this.1], by rw [this.2]⟩

/-- every well-formed representation has the canonical shape -/
theorem Pwc.WF.shape {f : Pwc} (hf : f.WF) :
    f = mkPwc f.first (f.y.headD 0) f.inner f.last := by
  obtain ⟨hl, _, h2⟩ := hf
  obtain ⟨x, y⟩ := f
  cases x with
  | nil => simp at h2
  | cons x0 xs =>
    cases xs with
    | nil => simp at h2
    | cons x1 xs' =>
      cases y with
      | nil => simp at hl
      | cons y0 ys =>
        have := zip_shape 0 (x1 :: xs') ys (by simp at hl ⊢; omega)
        simp only [mkPwc, Pwc.first, Pwc.last, Pwc.inner, List.headD_cons, List.tail_cons,
          lastD_cons_cons, List.cons_append]
        rw [this.1, this.2]

/-- strictly increasing breakpoints `x0 < r.1 < … < xn` -/
def PChain (x0 : Q) (r : List (Q × Q)) (xn : Q) : Prop :=
  (x0 :: r.map (·.1) ++ [xn]).Pairwise (· < ·)

theorem PChain.cons {x0 a v xn : Q} {r : List (Q × Q)} (h : PChain x0 ((a, v) :: r) xn) :
    x0 < a ∧ PChain a r xn := by
  unfold PChain at h ⊢
  simp only [List.map_cons, List.cons_append] at h
  have h' := List.pairwise_cons.mp h
  exact ⟨h'.1 a (by simp), h'.2⟩

theorem PChain.lt {x0 xn : Q} {r : List (Q × Q)} (h : PChain x0 r xn) : x0 < xn := by
  unfold PChain at h
  exact (List.pairwise_cons.mp h).1 xn (by simp)

theorem PChain.lt_mem {x0 xn : Q} {r : List (Q × Q)} (h : PChain x0 r xn) :
    ∀ p ∈ r, x0 < p.1 ∧ p.1 < xn := by
  unfold PChain at h
  intro p hp
  have h1 := List.pairwise_cons.mp h
  refine ⟨h1.1 p.1 (by simp; left; exact ⟨p.2, hp⟩), ?_⟩
  have h2 := List.pairwise_append.mp h1.2
  exact h2.2.2 p.1 (by simp; exact ⟨p.2, hp⟩) xn (by simp)

theorem PChain.sorted {x0 xn : Q} {r : List (Q × Q)} (h : PChain x0 r xn) :
    (r.map (·.1)).Pairwise (· < ·) := by
  unfold PChain at h
  exact (List.pairwise_append.mp (List.pairwise_cons.mp h).2).1

theorem PChain.intro {x0 xn : Q} {r : List (Q × Q)} (h0 : x0 < xn)
    (hs : (r.map (·.1)).Pairwise (· < ·)) (hb : ∀ p ∈ r, x0 < p.1 ∧ p.1 < xn) : PChain x0 r xn := by
  unfold PChain
  rw [List.cons_append, List.pairwise_cons, List.pairwise_append]
  refine ⟨?_, hs, by simp, ?_⟩
  · intro a ha
    rcases List.mem_append.mp ha with ha | ha
    · obtain ⟨p, hp, rfl⟩ := List.mem_map.mp ha
      exact (hb p hp).1
    · simp at ha; rw [ha]; exact h0
  · intro a ha b hb'
    obtain ⟨p, hp, rfl⟩ := List.mem_map.mp ha
    simp at hb'; rw [hb']; exact (hb p hp).2

theorem mkPwc_wf {x0 c xn : Q} {r : List (Q × Q)} (h : PChain x0 r xn) : (mkPwc x0 c r xn).WF := by
  refine ⟨by simp [mkPwc], h, by simp [mkPwc]⟩

@[simp] theorem mkPwc_first (x0 c xn : Q) (r : List (Q × Q)) : (mkPwc x0 c r xn).first = x0 := rfl

@[simp] theorem mkPwc_last (x0 c xn : Q) (r : List (Q × Q)) : (mkPwc x0 c r xn).last = xn := by
  simp only [Pwc.last, mkPwc, List.cons_append]
  exact lastD_cons_append_singleton _ _ _ _

theorem Pwc.WF.chain {f : Pwc} (hf : f.WF) : PChain f.first f.inner f.last := by
  have h := congrArg Pwc.x hf.shape
  have h2 := hf.2.1
  rw [h] at h2
  exact h2

theorem mkPwc_pieces_nil (x0 c xn : Q) : (mkPwc x0 c [] xn).pieces = [(x0, xn, c)] := rfl

theorem mkPwc_pieces_cons (x0 c a v xn : Q) (r : List (Q × Q)) :
    (mkPwc x0 c ((a, v) :: r) xn).pieces = (x0, a, c) :: (mkPwc a v r xn).pieces := rfl

theorem mkPwc_evalR {x0 c xn : Q} {r : List (Q × Q)} (h : PChain x0 r xn) {t : Q}
    (h0 : x0 ≤ t) (h1 : t < xn) : (mkPwc x0 c r xn).evalR t = some (stepR c r t) := by
  induction r generalizing x0 c with
  | nil => simp [Pwc.evalR, mkPwc_pieces_nil, stepR, h0, h1]
  | cons p r ih =>
    obtain ⟨a, v⟩ := p
    obtain ⟨hxa, hc⟩ := h.cons
    unfold Pwc.evalR
    rw [mkPwc_pieces_cons, List.find?_cons]
    by_cases hta : t < a
    · simp [stepR, h0, hta]
    · have := ih (c := v) hc (not_lt.mp hta)
      simp only [stepR, hta, if_false, and_false, decide_false]
      exact this

theorem mkPwc_evalL {x0 c xn : Q} {r : List (Q × Q)} (h : PChain x0 r xn) {t : Q}
    (h0 : x0 < t) (h1 : t ≤ xn) : (mkPwc x0 c r xn).evalL t = some (stepL c r t) := by
  induction r generalizing x0 c with
  | nil => simp [Pwc.evalL, mkPwc_pieces_nil, stepL, h0, h1]
  | cons p r ih =>
    obtain ⟨a, v⟩ := p
    obtain ⟨hxa, hc⟩ := h.cons
    unfold Pwc.evalL
    rw [mkPwc_pieces_cons, List.find?_cons]
    by_cases hta : t ≤ a
    · simp [stepL, h0, hta]
    · have := ih (c := v) hc (not_le.mp hta)
      simp only [stepL, hta, if_false, and_false, decide_false]
      exact this

theorem mkPwc_integralAll (x0 c xn : Q) (r : List (Q × Q)) :
    (mkPwc x0 c r xn).integralAll = stepInt x0 c r xn := by
  induction r generalizing x0 c with
  | nil => simp [Pwc.integralAll, mkPwc_pieces_nil, stepInt, qsum]
  | cons p r ih =>
    obtain ⟨a, v⟩ := p
    have := ih a v
    unfold Pwc.integralAll at this ⊢
    rw [mkPwc_pieces_cons]
    simp only [List.map_cons, qsum, stepInt, this]

theorem Pwc.add_eq_mk (f g : Pwc) :
    f.add g = mkPwc f.first (f.y.headD 0 + g.y.headD 0)
      (addPwcLoop (f.y.headD 0) (g.y.headD 0) f.inner g.inner) f.last := rfl

/-! ## the merge loop -/

theorem addPwcLoop_stepR (c1 c2 : Q) (r1 r2 : List (Q × Q)) (t : Q) :
    stepR (c1 + c2) (addPwcLoop c1 c2 r1 r2) t = stepR c1 r1 t + stepR c2 r2 t := by
  induction c1, c2, r1, r2 using addPwcLoop.induct with
  | case1 c1 c2 => simp [addPwcLoop, stepR]
  | case2 c1 c2 a va r1' ih =>
    rw [addPwcLoop]; simp only [stepR]; rw [ih]; simp only [stepR]
    split <;> rfl
  | case3 c1 c2 b vb r2' ih =>
    rw [addPwcLoop]; simp only [stepR]; rw [add_comm vb c1, ih]; simp only [stepR]
    split <;> rfl
  | case4 c1 c2 a va r1' b vb r2' hab ih =>
    rw [addPwcLoop, if_pos hab]; simp only [stepR]; rw [ih]; simp only [stepR]
    by_cases hta : t < a
    · simp [hta, lt_trans hta hab]
    · simp [hta]
  | case5 c1 c2 a va r1' b vb r2' hab hba ih =>
    rw [addPwcLoop, if_neg hab, if_pos hba]; simp only [stepR]; rw [ih]; simp only [stepR]
    by_cases htb : t < b
    · simp [htb, lt_trans htb hba]
    · simp [htb]
  | case6 c1 c2 a va r1' b vb r2' hab hba ih =>
    rw [addPwcLoop, if_neg hab, if_neg hba]; simp only [stepR]; rw [ih]
    have : a = b := le_antisymm (not_lt.mp hba) (not_lt.mp hab)
    subst this
    split <;> rfl

theorem addPwcLoop_stepL (c1 c2 : Q) (r1 r2 : List (Q × Q)) (t : Q) :
    stepL (c1 + c2) (addPwcLoop c1 c2 r1 r2) t = stepL c1 r1 t + stepL c2 r2 t := by
  induction c1, c2, r1, r2 using addPwcLoop.induct with
  | case1 c1 c2 => simp [addPwcLoop, stepL]
  | case2 c1 c2 a va r1' ih =>
    rw [addPwcLoop]; simp only [stepL]; rw [ih]; simp only [stepL]
    split <;> rfl
  | case3 c1 c2 b vb r2' ih =>
    rw [addPwcLoop]; simp only [stepL]; rw [add_comm vb c1, ih]; simp only [stepL]
    split <;> rfl
  | case4 c1 c2 a va r1' b vb r2' hab ih =>
    rw [addPwcLoop, if_pos hab]; simp only [stepL]; rw [ih]; simp only [stepL]
    by_cases hta : t ≤ a
    · simp [hta, le_of_lt (lt_of_le_of_lt hta hab)]
    · simp [hta]
  | case5 c1 c2 a va r1' b vb r2' hab hba ih =>
    rw [addPwcLoop, if_neg hab, if_pos hba]; simp only [stepL]; rw [ih]; simp only [stepL]
    by_cases htb : t ≤ b
    · simp [htb, le_of_lt (lt_of_le_of_lt htb hba)]
    · simp [htb]
  | case6 c1 c2 a va r1' b vb r2' hab hba ih =>
    rw [addPwcLoop, if_neg hab, if_neg hba]; simp only [stepL]; rw [ih]
    have : a = b := le_antisymm (not_lt.mp hba) (not_lt.mp hab)
    subst this
    split <;> rfl

theorem stepInt_shift (x0 a c xn : Q) (r : List (Q × Q)) :
    stepInt x0 c r xn = (a - x0) * c + stepInt a c r xn := by
  cases r with
  | nil => simp only [stepInt]; ring
  | cons p r => obtain ⟨b, v⟩ := p; simp only [stepInt]; ring

theorem addPwcLoop_stepInt (c1 c2 : Q) (r1 r2 : List (Q × Q)) (x0 xn : Q) :
    stepInt x0 (c1 + c2) (addPwcLoop c1 c2 r1 r2) xn = stepInt x0 c1 r1 xn + stepInt x0 c2 r2 xn := by
  induction c1, c2, r1, r2 using addPwcLoop.induct generalizing x0 with
  | case1 c1 c2 => simp only [addPwcLoop, stepInt]; ring
  | case2 c1 c2 a va r1' ih =>
    rw [addPwcLoop]; simp only [stepInt]; rw [ih]; simp only [stepInt]; ring
  | case3 c1 c2 b vb r2' ih =>
    rw [addPwcLoop]; simp only [stepInt]; rw [add_comm vb c1, ih]; simp only [stepInt]; ring
  | case4 c1 c2 a va r1' b vb r2' hab ih =>
    rw [addPwcLoop, if_pos hab]; simp only [stepInt]; rw [ih]
    have := stepInt_shift x0 a c2 xn ((b, vb) :: r2')
    simp only [stepInt] at this ⊢; linarith
  | case5 c1 c2 a va r1' b vb r2' hab hba ih =>
    rw [addPwcLoop, if_neg hab, if_pos hba]; simp only [stepInt]; rw [ih]
    have := stepInt_shift x0 b c1 xn ((a, va) :: r1')
    simp only [stepInt] at this ⊢; linarith
  | case6 c1 c2 a va r1' b vb r2' hab hba ih =>
    rw [addPwcLoop, if_neg hab, if_neg hba]; simp only [stepInt]; rw [ih]
    have : a = b := le_antisymm (not_lt.mp hba) (not_lt.mp hab)
    subst this
    ring

theorem addPwcLoop_comm (c1 c2 : Q) (r1 r2 : List (Q × Q)) :
    addPwcLoop c1 c2 r1 r2 = addPwcLoop c2 c1 r2 r1 := by
  induction c1, c2, r1, r2 using addPwcLoop.induct with
  | case1 c1 c2 => simp [addPwcLoop]
  | case2 c1 c2 a va r1' ih =>
    rw [addPwcLoop, addPwcLoop, ih]
  | case3 c1 c2 b vb r2' ih =>
    rw [addPwcLoop, addPwcLoop, ih]
  | case4 c1 c2 a va r1' b vb r2' hab ih =>
    rw [addPwcLoop, if_pos hab, addPwcLoop, if_neg (not_lt.mpr (le_of_lt hab)), if_pos hab, ih,
      add_comm]
  | case5 c1 c2 a va r1' b vb r2' hab hba ih =>
    rw [addPwcLoop, if_neg hab, if_pos hba, addPwcLoop, if_pos hba, ih, add_comm]
  | case6 c1 c2 a va r1' b vb r2' hab hba ih =>
    have : a = b := le_antisymm (not_lt.mp hba) (not_lt.mp hab)
    subst this
    rw [addPwcLoop, if_neg hab, if_neg hba, addPwcLoop, if_neg hab, if_neg hba, ih, add_comm]

theorem addPwcLoop_mem (c1 c2 : Q) (r1 r2 : List (Q × Q)) (x : Q) :
    x ∈ (addPwcLoop c1 c2 r1 r2).map (·.1) ↔ x ∈ r1.map (·.1) ∨ x ∈ r2.map (·.1) := by
  induction c1, c2, r1, r2 using addPwcLoop.induct with
  | case1 c1 c2 => simp [addPwcLoop]
  | case2 c1 c2 a va r1' ih =>
    rw [addPwcLoop]; simp only [List.map_cons, List.mem_cons, ih]; simp
  | case3 c1 c2 b vb r2' ih =>
    rw [addPwcLoop]; simp only [List.map_cons, List.mem_cons, ih]; simp
  | case4 c1 c2 a va r1' b vb r2' hab ih =>
    rw [addPwcLoop, if_pos hab]; simp only [List.map_cons, List.mem_cons, ih]; tauto
  | case5 c1 c2 a va r1' b vb r2' hab hba ih =>
    rw [addPwcLoop, if_neg hab, if_pos hba]; simp only [List.map_cons, List.mem_cons, ih]; tauto
  | case6 c1 c2 a va r1' b vb r2' hab hba ih =>
    have : a = b := le_antisymm (not_lt.mp hba) (not_lt.mp hab)
    subst this
    rw [addPwcLoop, if_neg hab, if_neg hba]; simp only [List.map_cons, List.mem_cons, ih]; tauto

theorem addPwcLoop_sorted (c1 c2 : Q) (r1 r2 : List (Q × Q))
    (h1 : (r1.map (·.1)).Pairwise (· < ·)) (h2 : (r2.map (·.1)).Pairwise (· < ·)) :
    ((addPwcLoop c1 c2 r1 r2).map (·.1)).Pairwise (· < ·) := by
  induction c1, c2, r1, r2 using addPwcLoop.induct with
  | case1 c1 c2 => simp [addPwcLoop]
  | case2 c1 c2 a va r1' ih =>
    rw [addPwcLoop]
    simp only [List.map_cons, List.pairwise_cons] at h1 ⊢
    refine ⟨?_, ih h1.2 h2⟩
    intro x hx
    rw [addPwcLoop_mem] at hx
    rcases hx with hx | hx
    · exact h1.1 x hx
    · simp at hx
  | case3 c1 c2 b vb r2' ih =>
    rw [addPwcLoop]
    simp only [List.map_cons, List.pairwise_cons] at h2 ⊢
    refine ⟨?_, ih h1 h2.2⟩
    intro x hx
    rw [addPwcLoop_mem] at hx
    rcases hx with hx | hx
    · simp at hx
    · exact h2.1 x hx
  | case4 c1 c2 a va r1' b vb r2' hab ih =>
    rw [addPwcLoop, if_pos hab]
    have h1' := h1
    have h2' := h2
    simp only [List.map_cons, List.pairwise_cons] at h1' h2' ⊢
    refine ⟨?_, ih h1'.2 h2⟩
    intro x hx
    rw [addPwcLoop_mem] at hx
    rcases hx with hx | hx
    · exact h1'.1 x hx
    · simp only [List.map_cons, List.mem_cons] at hx
      rcases hx with rfl | hx
      · exact hab
      · exact lt_trans hab (h2'.1 x hx)
  | case5 c1 c2 a va r1' b vb r2' hab hba ih =>
    rw [addPwcLoop, if_neg hab, if_pos hba]
    have h1' := h1
    have h2' := h2
    simp only [List.map_cons, List.pairwise_cons] at h1' h2' ⊢
    refine ⟨?_, ih h1 h2'.2⟩
    intro x hx
    rw [addPwcLoop_mem] at hx
    rcases hx with hx | hx
    · simp only [List.map_cons, List.mem_cons] at hx
      rcases hx with rfl | hx
      · exact hba
      · exact lt_trans hba (h1'.1 x hx)
    · exact h2'.1 x hx
  | case6 c1 c2 a va r1' b vb r2' hab hba ih =>
    have : a = b := le_antisymm (not_lt.mp hba) (not_lt.mp hab)
    subst this
    rw [addPwcLoop, if_neg hab, if_neg hba]
    simp only [List.map_cons, List.pairwise_cons] at h1 h2 ⊢
    refine ⟨?_, ih h1.2 h2.2⟩
    intro x hx
    rw [addPwcLoop_mem] at hx
    rcases hx with hx | hx
    · exact h1.1 x hx
    · exact h2.1 x hx

theorem addPwcLoop_chain (c1 c2 : Q) {r1 r2 : List (Q × Q)} {x0 xn : Q}
    (h1 : PChain x0 r1 xn) (h2 : PChain x0 r2 xn) : PChain x0 (addPwcLoop c1 c2 r1 r2) xn := by
  refine PChain.intro h1.lt (addPwcLoop_sorted c1 c2 r1 r2 h1.sorted h2.sorted) ?_
  intro p hp
  have : p.1 ∈ (addPwcLoop c1 c2 r1 r2).map (·.1) := List.mem_map.mpr ⟨p, hp, rfl⟩
  rw [addPwcLoop_mem] at this
  rcases this with h | h
  · obtain ⟨q, hq, hqe⟩ := List.mem_map.mp h
    rw [← hqe]; exact h1.lt_mem q hq
  · obtain ⟨q, hq, hqe⟩ := List.mem_map.mp h
    rw [← hqe]; exact h2.lt_mem q hq

/-! ## main theorems: `Pwc.add` -/

theorem Pwc.WF.evalR_eq {f : Pwc} (hf : f.WF) {t : Q} (h0 : f.first ≤ t) (h1 : t < f.last) :
    f.evalR t = some (stepR (f.y.headD 0) f.inner t) := by
  have := mkPwc_evalR (c := f.y.headD 0) hf.chain h0 h1
  rwa [← hf.shape] at this

theorem Pwc.WF.evalL_eq {f : Pwc} (hf : f.WF) {t : Q} (h0 : f.first < t) (h1 : t ≤ f.last) :
    f.evalL t = some (stepL (f.y.headD 0) f.inner t) := by
  have := mkPwc_evalL (c := f.y.headD 0) hf.chain h0 h1
  rwa [← hf.shape] at this

theorem Pwc.WF.integralAll_eq {f : Pwc} (hf : f.WF) :
    f.integralAll = stepInt f.first (f.y.headD 0) f.inner f.last := by
  have := mkPwc_integralAll f.first (f.y.headD 0) f.last f.inner
  rwa [← hf.shape] at this

theorem Pwc.WF.x_eq {f : Pwc} (hf : f.WF) : f.x = f.first :: f.inner.map (·.1) ++ [f.last] :=
  congrArg Pwc.x hf.shape

section
variable {f g : Pwc} (hf : f.WF) (hg : g.WF) (h0 : f.first = g.first) (h1 : f.last = g.last)
include hf hg h0 h1

theorem Pwc.add_chain :
    PChain f.first (addPwcLoop (f.y.headD 0) (g.y.headD 0) f.inner g.inner) f.last := by
  have hgc := hg.chain
  rw [← h0, ← h1] at hgc
  exact addPwcLoop_chain _ _ hf.chain hgc

/-- 1a. the sum of two well-formed profiles on a common interval is well-formed -/
theorem Pwc.add_wf : (f.add g).WF := by
  rw [Pwc.add_eq_mk]
  exact mkPwc_wf (Pwc.add_chain hf hg h0 h1)

omit hf hg h0 h1 in
/-- 1b -/
theorem Pwc.add_first : (f.add g).first = f.first := by
  rw [Pwc.add_eq_mk, mkPwc_first]

omit hf hg h0 h1 in
/-- 1c -/
theorem Pwc.add_last : (f.add g).last = f.last := by
  rw [Pwc.add_eq_mk, mkPwc_last]

/-- 2. the breakpoints of the sum are the union of the breakpoints -/
theorem Pwc.add_mem_x : ∀ x, x ∈ (f.add g).x ↔ x ∈ f.x ∨ x ∈ g.x := by
  intro x
  rw [hf.x_eq, hg.x_eq, ← h0, ← h1, Pwc.add_eq_mk]
  simp only [mkPwc, List.cons_append, List.mem_cons, List.mem_append, addPwcLoop_mem]
  tauto

/-- 3. right limits add -/
theorem Pwc.add_evalR : ∀ t, f.first ≤ t → t < f.last →
    ∃ v w, f.evalR t = some v ∧ g.evalR t = some w ∧ (f.add g).evalR t = some (v + w) := by
  intro t ht0 ht1
  refine ⟨_, _, hf.evalR_eq ht0 ht1, hg.evalR_eq (h0 ▸ ht0) (h1 ▸ ht1), ?_⟩
  rw [Pwc.add_eq_mk, mkPwc_evalR (Pwc.add_chain hf hg h0 h1) ht0 ht1, addPwcLoop_stepR]

/-- 4. left limits add -/
theorem Pwc.add_evalL : ∀ t, f.first < t → t ≤ f.last →
    ∃ v w, f.evalL t = some v ∧ g.evalL t = some w ∧ (f.add g).evalL t = some (v + w) := by
  intro t ht0 ht1
  refine ⟨_, _, hf.evalL_eq ht0 ht1, hg.evalL_eq (h0 ▸ ht0) (h1 ▸ ht1), ?_⟩
  rw [Pwc.add_eq_mk, mkPwc_evalL (Pwc.add_chain hf hg h0 h1) ht0 ht1, addPwcLoop_stepL]

/-- 5. integrals add -/
theorem Pwc.add_integralAll : (f.add g).integralAll = f.integralAll + g.integralAll := by
  rw [hf.integralAll_eq, hg.integralAll_eq, ← h0, ← h1, Pwc.add_eq_mk, mkPwc_integralAll,
    addPwcLoop_stepInt]

omit hf hg in
/-- 6. commutativity, as equality of representations (needs only the common end points) -/
theorem Pwc.add_comm : f.add g = g.add f := by
  rw [Pwc.add_eq_mk, Pwc.add_eq_mk, ← h0, ← h1, addPwcLoop_comm, _root_.add_comm]

end

/-! ## canonical form -/

theorem step_canon : ∀ (r r' : List (Q × Q)) (x0 c c' xn : Q), PChain x0 r xn →
    r.map (·.1) = r'.map (·.1) →
    (∀ t, x0 ≤ t → t < xn → stepR c r t = stepR c' r' t) → c = c' ∧ r = r' := by
  intro r
  induction r with
  | nil =>
    intro r' x0 c c' xn hc hm h
    have hr' : r' = [] := by simpa using hm.symm
    subst hr'
    exact ⟨by simpa [stepR] using h x0 le_rfl hc.lt, rfl⟩
  | cons p r ih =>
    intro r' x0 c c' xn hc hm h
    obtain ⟨a, v⟩ := p
    cases r' with
    | nil => simp at hm
    | cons p' r'' =>
      obtain ⟨a', v'⟩ := p'
      simp only [List.map_cons, List.cons.injEq] at hm
      obtain ⟨haa, hm'⟩ := hm
      subst haa
      obtain ⟨hxa, hc'⟩ := hc.cons
      have hcc : c = c' := by simpa [stepR, hxa] using h x0 le_rfl hc.lt
      have := ih r'' a v v' xn hc' hm' (by
        intro t ht0 ht1
        have := h t (le_trans (le_of_lt hxa) ht0) ht1
        simpa [stepR, not_lt.mpr ht0] using this)
      exact ⟨hcc, by rw [this.1, this.2]⟩

/-- a well-formed representation is determined by its breakpoints and its right limits -/
theorem Pwc.eq_of_evalR' {f g : Pwc} (hf : f.WF) (hg : g.WF) (hx : f.x = g.x)
    (he : ∀ t, f.first ≤ t → t < f.last → f.evalR t = g.evalR t) : f = g := by
  have h0 : f.first = g.first := by simp only [Pwc.first, hx]
  have h1 : f.last = g.last := by simp only [Pwc.last, hx]
  have hin : f.inner.map (·.1) = g.inner.map (·.1) := by
    have := hx
    rw [hf.x_eq, hg.x_eq, h0, h1] at this
    simp only [List.cons_append, List.cons.injEq, true_and] at this
    exact List.append_cancel_right this
  have := step_canon f.inner g.inner f.first (f.y.headD 0) (g.y.headD 0) f.last hf.chain hin (by
    intro t ht0 ht1
    have h := he t ht0 ht1
    rw [hf.evalR_eq ht0 ht1, hg.evalR_eq (h0 ▸ ht0) (h1 ▸ ht1)] at h
    exact Option.some.inj h)
  calc f = mkPwc f.first (f.y.headD 0) f.inner f.last := hf.shape
    _ = mkPwc g.first (g.y.headD 0) g.inner g.last := by rw [this.1, this.2, h0, h1]
    _ = g := hg.shape.symm

theorem Pwc.eq_of_evalR {f g : Pwc} (hf : f.WF) (hg : g.WF) (hx : f.x = g.x)
    (he : ∀ t, f.evalR t = g.evalR t) : f = g :=
  Pwc.eq_of_evalR' hf hg hx (fun t _ _ => he t)

/-- 7. associativity, as equality of representations -/
theorem Pwc.add_assoc {f g h : Pwc} (hf : f.WF) (hg : g.WF) (hh : h.WF)
    (h0 : f.first = g.first) (h1 : f.last = g.last) (h0' : g.first = h.first)
    (h1' : g.last = h.last) : (f.add g).add h = f.add (g.add h) := by
  have hfg := Pwc.add_wf hf hg h0 h1
  have hgh := Pwc.add_wf hg hh h0' h1'
  have e0 : (f.add g).first = h.first := by rw [Pwc.add_first, h0, h0']
  have e1 : (f.add g).last = h.last := by rw [Pwc.add_last, h1, h1']
  have e0' : f.first = (g.add h).first := by rw [Pwc.add_first, h0]
  have e1' : f.last = (g.add h).last := by rw [Pwc.add_last, h1]
  have hl := Pwc.add_wf hfg hh e0 e1
  have hr := Pwc.add_wf hf hgh e0' e1'
  apply Pwc.eq_of_evalR' hl hr
  · apply List.Pairwise.eq_of_mem_iff hl.2.1 hr.2.1
    intro x
    rw [Pwc.add_mem_x hfg hh e0 e1, Pwc.add_mem_x hf hg h0 h1, Pwc.add_mem_x hf hgh e0' e1',
      Pwc.add_mem_x hg hh h0' h1', or_assoc]
  · intro t ht0 ht1
    rw [Pwc.add_first, Pwc.add_first] at ht0
    rw [Pwc.add_last, Pwc.add_last] at ht1
    obtain ⟨u, v, hu, hv, huv⟩ := Pwc.add_evalR hf hg h0 h1 t ht0 ht1
    obtain ⟨uv, w, huv', hw, huvw⟩ := Pwc.add_evalR hfg hh e0 e1 t
      (by rw [Pwc.add_first]; exact ht0) (by rw [Pwc.add_last]; exact ht1)
    obtain ⟨v', w', hv', hw', hvw⟩ := Pwc.add_evalR hg hh h0' h1' t (h0 ▸ ht0) (h1 ▸ ht1)
    obtain ⟨u', vw, hu', hvw', huvw'⟩ := Pwc.add_evalR hf hgh e0' e1' t ht0 ht1
    rw [huvw, huvw']
    rw [huv] at huv'; rw [hv] at hv'; rw [hw] at hw'; rw [hu] at hu'; rw [hvw] at hvw'
    cases huv'; cases hv'; cases hw'; cases hu'; cases hvw'
    rw [_root_.add_assoc]

/-! ## `mulScalar` -/

theorem Pwc.mulScalar_wf {f : Pwc} (hf : f.WF) (c : Q) : (f.mulScalar c).WF := by
  obtain ⟨h1, h2, h3⟩ := hf
  exact ⟨by simpa [Pwc.mulScalar] using h1, h2, h3⟩

theorem Pwc.mulScalar_pieces (f : Pwc) (c : Q) :
    (f.mulScalar c).pieces = f.pieces.map fun p => (p.1, p.2.1, p.2.2 * c) := by
  simp only [Pwc.pieces, Pwc.mulScalar]
  rw [List.zip_map_right, List.zip_map_right]
  rfl

theorem Pwc.mulScalar_evalR (f : Pwc) (c t : Q) :
    (f.mulScalar c).evalR t = (f.evalR t).map (· * c) := by
  simp only [Pwc.evalR, Pwc.mulScalar_pieces, List.find?_map, Option.map_map]
  rfl

theorem Pwc.mulScalar_evalL (f : Pwc) (c t : Q) :
    (f.mulScalar c).evalL t = (f.evalL t).map (· * c) := by
  simp only [Pwc.evalL, Pwc.mulScalar_pieces, List.find?_map, Option.map_map]
  rfl

theorem Pwc.mulScalar_integralAll (f : Pwc) (c : Q) :
    (f.mulScalar c).integralAll = f.integralAll * c := by
  simp only [Pwc.integralAll, Pwc.mulScalar_pieces, List.map_map]
  rw [← qsum_map_mul, List.map_map]
  congr 1
  apply List.map_congr_left
  intro p _
  simp only [Function.comp]
  ring

/-! ## the hypotheses are satisfiable: concrete non-trivial operands -/

def exF : Pwc := ⟨[0, 1, 3], [2, 5]⟩
def exG : Pwc := ⟨[0, 2, 3], [1, 4]⟩
def exH : Pwc := ⟨[0, 1/2, 2, 3], [7, 0, -1]⟩

example : exF.WF ∧ exG.WF ∧ exH.WF ∧ exF.first = exG.first ∧ exF.last = exG.last ∧
    exG.first = exH.first ∧ exG.last = exH.last := by
  simp [Pwc.WF, exF, exG, exH, Pwc.first, Pwc.last, lastD]
  norm_num

example : exF.add exG = ⟨[0, 1, 2, 3], [3, 6, 9]⟩ := by decide +kernel

example : (exF.add exG).integralAll = exF.integralAll + exG.integralAll :=
  Pwc.add_integralAll (f := exF) (g := exG)
    (by simp [Pwc.WF, exF]) (by simp [Pwc.WF, exG]; norm_num) rfl rfl

end PySpike
